(* C13 — proofs about the request-response model. *)
From Coq Require Import List NArith Bool Lia Arith.
From V.C13 Require Import Model.
Import ListNotations.
Open Scope N_scope.

Arguments N.add : simpl never.
Arguments N.sub : simpl never.
Arguments N.eqb : simpl never.
Arguments N.ltb : simpl never.
Arguments N.leb : simpl never.
Arguments N.of_nat : simpl never.

(* ------------------------------------------------------------------ counting *)

(* occurrences of r in a list of ids *)
Definition cnt (r : N) (l : list N) : nat := length (filter (N.eqb r) l).

Lemma cnt_app r a b : cnt r (a ++ b) = (cnt r a + cnt r b)%nat.
Proof. unfold cnt. rewrite filter_app, app_length. reflexivity. Qed.

Lemma cnt_cons r x l : cnt r (x :: l) = ((if N.eqb r x then 1 else 0) + cnt r l)%nat.
Proof. unfold cnt. cbn [filter]. destruct (r =? x); reflexivity. Qed.

Lemma cnt_nil r : cnt r [] = 0%nat.
Proof. reflexivity. Qed.

Lemma cnt_part {A} (f : A -> N) (g : A -> bool) r l :
  (cnt r (map f (filter g l)) + cnt r (map f (filter (fun x => negb (g x)) l)) = cnt r (map f l))%nat.
Proof.
  induction l as [|a l IH]; [reflexivity|].
  cbn [filter map]. destruct (g a); cbn [negb map]; rewrite !cnt_cons; lia.
Qed.

Lemma cnt_filter_le {A} (f : A -> N) (g : A -> bool) r l :
  (cnt r (map f (filter g l)) <= cnt r (map f l))%nat.
Proof.
  induction l as [|a l IH]; [apply le_n|].
  cbn [filter map]. destruct (g a); cbn [map]; rewrite ?cnt_cons; lia.
Qed.

Lemma cnt_pos_in r l : (1 <= cnt r l)%nat <-> In r l.
Proof.
  induction l as [|a l IH]; [cbn; split; [lia|tauto]|].
  rewrite cnt_cons. cbn [In]. destruct (N.eqb_spec r a) as [->|Hne].
  - split; [auto|lia].
  - split; [intros H; right; apply IH; lia|intros [H|H]; [congruence|apply IH in H; lia]].
Qed.

Lemma cnt_zero_notin r l : cnt r l = 0%nat <-> ~ In r l.
Proof. rewrite <- cnt_pos_in. lia. Qed.

(* removing the entries found by a key: what `find` returned is among them *)
Lemma cnt_find_drop {A} (f : A -> N) (g : A -> bool) r l x :
  find g l = Some x ->
  (cnt r (map f (filter (fun y => negb (g y)) l)) + (if N.eqb r (f x) then 1 else 0) <= cnt r (map f l))%nat.
Proof.
  induction l as [|a l IH]; [discriminate|].
  cbn [find filter map]. destruct (g a) eqn:G; cbn [negb].
  - intros [= ->]. rewrite cnt_cons. pose proof (cnt_filter_le f (fun y => negb (g y)) r l). lia.
  - intros H. cbn [map]. rewrite !cnt_cons. specialize (IH H). lia.
Qed.

(* removing all entries with the key of x: the other keys keep their counts *)
Lemma cnt_drop_key {A} (f : A -> N) r v l :
  cnt r (map f (filter (fun y => negb (N.eqb (f y) v)) l)) = if N.eqb r v then 0%nat else cnt r (map f l).
Proof.
  induction l as [|a l IH]; [cbn; destruct (r =? v); reflexivity|].
  cbn [filter map]. destruct (N.eqb_spec (f a) v) as [E|E]; cbn [negb map]; rewrite ?cnt_cons, IH.
  - destruct (N.eqb_spec r v); [reflexivity|]. destruct (N.eqb_spec r (f a)); [congruence|reflexivity].
  - destruct (N.eqb_spec r v); [|reflexivity]. destruct (N.eqb_spec r (f a)); [congruence|reflexivity].
Qed.

Lemma cnt_drop_in {A} (f : A -> N) r x l :
  In x l ->
  (cnt r (map f (filter (fun y => negb (N.eqb (f y) (f x))) l)) + (if N.eqb r (f x) then 1 else 0) <= cnt r (map f l))%nat.
Proof.
  intros H. rewrite cnt_drop_key. destruct (N.eqb_spec r (f x)) as [->|]; [|lia].
  assert (1 <= cnt (f x) (map f l))%nat by (apply cnt_pos_in; apply in_map; exact H). lia.
Qed.

Lemma find_in {A} (g : A -> bool) l x : find g l = Some x -> In x l /\ g x = true.
Proof. apply find_some. Qed.

Lemma pair_eqb_spec a b : reflect (a = b) (pair_eqb a b).
Proof.
  unfold pair_eqb. destruct a as [a1 a2], b as [b1 b2]. cbn [fst snd].
  destruct (N.eqb_spec a1 b1), (N.eqb_spec a2 b2); cbn; constructor; congruence.
Qed.

Lemma memP_in x l : memP x l = true <-> In x l.
Proof.
  unfold memP. rewrite existsb_exists. split.
  - intros [y [Hy E]]. destruct (pair_eqb_spec x y); [subst; auto|discriminate].
  - intros H. exists x. split; [auto|]. destruct (pair_eqb_spec x x); congruence.
Qed.

Lemma memN_in x l : memN x l = true <-> In x l.
Proof.
  unfold memN. rewrite existsb_exists. split.
  - intros [y [Hy E]]. apply N.eqb_eq in E. subst. auto.
  - intros H. exists x. split; [auto|apply N.eqb_refl].
Qed.

Lemma in_removeP x y l : In y (removeP x l) <-> In y l /\ y <> x.
Proof.
  unfold removeP. rewrite filter_In. split; intros [H1 H2]; split; auto.
  - destruct (pair_eqb_spec x y); [discriminate|congruence].
  - destruct (pair_eqb_spec x y); [congruence|reflexivity].
Qed.

(* taking (p, r0) out of the active list takes at least one r0 out of its ids *)
Lemma cnt_removeP r x l :
  In x l ->
  (cnt r (map snd (removeP x l)) + (if N.eqb r (snd x) then 1 else 0) <= cnt r (map snd l))%nat.
Proof.
  induction l as [|a l IH]; [intros []|].
  unfold removeP in *. cbn [filter map In]. intros H.
  destruct (pair_eqb_spec x a) as [->|Hne]; cbn [negb].
  - rewrite cnt_cons. pose proof (cnt_filter_le snd (fun y => negb (pair_eqb a y)) r l). lia.
  - cbn [map]. rewrite !cnt_cons. destruct H as [H|H]; [congruence|]. specialize (IH H). lia.
Qed.

Lemma cnt_removeP_le r x l : (cnt r (map snd (removeP x l)) <= cnt r (map snd l))%nat.
Proof. apply cnt_filter_le. Qed.

(* ------------------------------------------------------------------ terminal events *)

Lemma terms_app r a b : terms r (a ++ b) = (terms r a + terms r b)%nat.
Proof. unfold terms. rewrite filter_app, app_length. reflexivity. Qed.

Lemma terms_nil r : terms r [] = 0%nat.
Proof. reflexivity. Qed.

Lemma terms_map_fail {A} (g : A -> N) code r l :
  terms r (map (fun a => OFail (g a) code) l) = cnt r (map g l).
Proof.
  induction l as [|a l IH]; [reflexivity|].
  cbn [map]. rewrite cnt_cons. unfold terms in *. cbn [filter is_term].
  rewrite (N.eqb_sym (g a) r). destruct (r =? g a); cbn [length]; rewrite IH; reflexivity.
Qed.

(* ------------------------------------------------------------------ the ledger *)

Definition rid_d (d : N * req) : N := q_rid (snd d).
Definition rid_po (po : pout) : N := q_rid (po_req po).
Definition rid_f (f : fut) : N := q_rid (f_req f).

Definition cd r s := cnt r (map rid_d (dials s)).
Definition ca r s := cnt r (map snd (active s)).
Definition cp r s := cnt r (map rid_po (pouts s)).
Definition cf r s := cnt r (map rid_f (futs s)).

(* Safety part of the ledger invariant. tr = everything emitted so far. *)
Record Inv (s : pst) (tr : list out) : Prop := mkInv {
  (* a request id is owed (waiting for a dial, or active at a peer) or answered — never twice *)
  inv_once : forall r, (cd r s + ca r s + terms r tr <= 1)%nat;
  (* where the context of a request lives: dial queue, substream being opened, future *)
  inv_ctx : forall r, (cd r s + cp r s + cf r s <= 1)%nat;
  (* ids not handed out yet occur nowhere *)
  inv_fresh : forall r, next_rid s <= r ->
                        (cd r s + ca r s + cp r s + cf r s + terms r tr = 0)%nat;
  (* a request whose substream is being opened is active at its peer *)
  inv_po : forall po, In po (pouts s) -> In (po_peer po, rid_po po) (active s)
}.

Lemma Inv_init : Inv init_pst [].
Proof. constructor; cbn; intros; try reflexivity; try lia; tauto. Qed.

(* A step relation that is enough to carry the first three clauses: ids only move from "owed"
   to "answered", contexts only move forward, the allocator only grows. `fresh` says whether
   the id next_rid s may enter the ledger in this step. *)
Record Moves (fresh : bool) (s s' : pst) (o : list out) : Prop := mkMoves {
  mv_once : forall r, (cd r s' + ca r s' + terms r o
                       <= cd r s + ca r s + (if fresh && N.eqb r (next_rid s) then 1 else 0))%nat;
  mv_ctx : forall r, (cd r s' + cp r s' + cf r s'
                      <= cd r s + cp r s + cf r s + (if fresh && N.eqb r (next_rid s) then 1 else 0))%nat;
  mv_next : next_rid s <= next_rid s' /\ (fresh = true -> next_rid s < next_rid s')
}.

Lemma Moves_Inv123 fresh s s' o tr :
  Inv s tr -> Moves fresh s s' o ->
  (forall r, (cd r s' + ca r s' + terms r (tr ++ o) <= 1)%nat) /\
  (forall r, (cd r s' + cp r s' + cf r s' <= 1)%nat) /\
  (forall r, next_rid s' <= r -> (cd r s' + ca r s' + cp r s' + cf r s' + terms r (tr ++ o) = 0)%nat).
Proof.
  intros I M. destruct M as [M1 M2 [M3 M3']].
  assert (Hfr : forall r, (if fresh && N.eqb r (next_rid s) then 1 else 0)%nat = 1%nat ->
                          (cd r s + ca r s + cp r s + cf r s + terms r tr = 0)%nat).
  { intros r H. destruct fresh; cbn [andb] in H; [|discriminate].
    destruct (N.eqb_spec r (next_rid s)); [|discriminate]. subst. apply (inv_fresh _ _ I). lia. }
  repeat split.
  - intros r. rewrite terms_app. specialize (M1 r). pose proof (inv_once _ _ I r).
    destruct (fresh && (r =? next_rid s)) eqn:E.
    + specialize (Hfr r). rewrite E in Hfr. specialize (Hfr eq_refl). lia.
    + lia.
  - intros r. specialize (M2 r). pose proof (inv_ctx _ _ I r).
    destruct (fresh && (r =? next_rid s)) eqn:E.
    + specialize (Hfr r). rewrite E in Hfr. specialize (Hfr eq_refl). lia.
    + lia.
  - intros r Hr. rewrite terms_app. specialize (M1 r). specialize (M2 r).
    assert (E : fresh && (r =? next_rid s) = false).
    { destruct fresh; [|reflexivity]. cbn [andb]. apply N.eqb_neq. specialize (M3' eq_refl). lia. }
    rewrite E in *. pose proof (inv_fresh _ _ I r). lia.
Qed.

Lemma Moves_refl s : Moves false s s [].
Proof. constructor; intros; cbn [andb]; rewrite ?terms_nil; try lia; try (split; [lia|discriminate]). Qed.

Ltac unf := unfold cd, ca, cp, cf in *.
Ltac simp_sets :=
  cbn [peers active inb dials pouts futs rdrs rsps next_rid
       set_peers set_active set_inb set_dials set_pouts set_futs set_rdrs set_rsps set_next_rid] in *.

(* ---- settle / complete ---- *)
Lemma settle_Moves s p rid res :
  let '(s', o) := settle s p rid res in
  Moves false s s' o /\ pouts s' = pouts s /\ futs s' = futs s /\ next_rid s' = next_rid s /\
  (forall x, In x (active s') -> In x (active s)) /\
  (forall x, In x (active s) -> x <> (p, rid) -> In x (active s')).
Proof.
  unfold settle. destruct (memN p (peers s) && memP (p, rid) (active s)) eqn:E.
  - apply andb_prop in E. destruct E as [_ E]. apply memP_in in E.
    pose proof (fun r => cnt_removeP r (p, rid) (active s) E) as R. cbn [snd] in R.
    assert (T : forall r, (terms r (verdict rid res) <= (if N.eqb r rid then 1 else 0))%nat).
    { intros r. unfold verdict. destruct res as [l t|c]; [|destruct (c =? E_CANCELED)]; unfold terms; cbn [filter is_term];
        rewrite ?(N.eqb_sym rid r); destruct (r =? rid); cbn; lia. }
    repeat split; simp_sets; unf; simp_sets; cbn [andb]; intros; try lia; try discriminate; try reflexivity.
    + specialize (R r). specialize (T r). lia.
    + apply in_removeP in H. tauto.
    + apply in_removeP. auto.
  - repeat split; try apply Moves_refl; auto.
Qed.

Lemma drop_fut_cnt r c l : (cnt r (map rid_f (drop_fut c l)) <= cnt r (map rid_f l))%nat.
Proof. apply cnt_filter_le. Qed.

Lemma complete_Moves s f res :
  let '(s', o) := complete s f res in
  Moves false s s' o /\ pouts s' = pouts s /\ next_rid s' = next_rid s /\
  (forall x, In x (active s') -> In x (active s)) /\
  (forall x, In x (active s) -> x <> (f_peer f, rid_f f) -> In x (active s')) /\
  (forall g, In g (futs s') -> In g (futs s)).
Proof.
  unfold complete.
  pose proof (settle_Moves (set_futs s (drop_fut f (futs s))) (f_peer f) (q_rid (f_req f)) res) as S.
  destruct (settle _ _ _ _) as [s' o]. destruct S as (M & P & F & N & A1 & A2). simp_sets.
  split; [|split; [auto|split; [auto|split; [auto|split; [auto|]]]]].
  - destruct M as [M1 M2 M3]. constructor.
    + intros r. specialize (M1 r). unf. simp_sets. lia.
    + intros r. specialize (M2 r). unf. simp_sets. pose proof (drop_fut_cnt r f (futs s)). lia.
    + simp_sets. exact M3.
  - intros g Hg. rewrite F in Hg. unfold drop_fut in Hg. apply filter_In in Hg. tauto.
Qed.

(* ------------------------------------------------------------------ handlers keep Inv *)

Lemma Inv_step fresh s s' o tr :
  Inv s tr -> Moves fresh s s' o ->
  (forall po, In po (pouts s') -> In (po_peer po, rid_po po) (active s')) ->
  Inv s' (tr ++ o).
Proof.
  intros I M P. destruct (Moves_Inv123 _ _ _ _ _ I M) as (A & B & C). constructor; auto.
Qed.

Lemma terms_cons_nonterm r x o :
  is_term r x = false -> terms r (x :: o) = terms r o.
Proof. intros H. unfold terms. cbn [filter]. rewrite H. reflexivity. Qed.

Lemma terms_one_fail r rid code : terms r [OFail rid code] = if N.eqb r rid then 1%nat else 0%nat.
Proof. unfold terms. cbn [filter is_term]. rewrite (N.eqb_sym rid r). destruct (r =? rid); reflexivity. Qed.

Lemma map_rid_to_wait c dl l : map rid_f (to_wait c dl l) = map rid_f l.
Proof.
  unfold to_wait. rewrite map_map. apply map_ext. intros f. destruct (f_chan f =? c); reflexivity.
Qed.
Lemma map_rid_mark_cancel c l : map rid_f (mark_cancel c l) = map rid_f l.
Proof.
  unfold mark_cancel. rewrite map_map. apply map_ext. intros f. destruct (q_rid (f_req f) =? c); reflexivity.
Qed.

Lemma number_pouts_rids p sid l : map rid_po (number_pouts p sid l) = map rid_d l.
Proof.
  revert sid. induction l as [|[a q] l IH]; intros sid; [reflexivity|].
  cbn [number_pouts map]. rewrite IH. reflexivity.
Qed.
Lemma number_pouts_in p sid l po :
  In po (number_pouts p sid l) -> po_peer po = p /\ In (rid_po po) (map rid_d l).
Proof.
  revert sid. induction l as [|[a q] l IH]; intros sid; [intros []|].
  cbn [number_pouts In map]. intros [<-|H]; [split; [reflexivity|left; reflexivity]|].
  destruct (IH _ H). split; [auto|right; auto].
Qed.

(* two different entries with the same id: the id occurs twice *)
Lemma cnt_find_other {A} (f : A -> N) (g : A -> bool) l x y :
  find g l = Some x -> In y (filter (fun z => negb (g z)) l) -> f y = f x ->
  (2 <= cnt (f x) (map f l))%nat.
Proof.
  intros Hf Hy E. pose proof (cnt_find_drop f g (f x) l x Hf) as H.
  rewrite N.eqb_refl in H.
  assert (1 <= cnt (f x) (map f (filter (fun z => negb (g z)) l)))%nat.
  { apply cnt_pos_in. rewrite <- E. apply in_map. exact Hy. }
  lia.
Qed.

Lemma send_Inv s tr p dial len tag fb ok dok sid :
  Inv s tr -> Inv (fst (h_send s p dial len tag fb ok dok sid)) (tr ++ snd (h_send s p dial len tag fb ok dok sid)).
Proof.
  intros I. unfold h_send. simp_sets.
  assert (T1 : forall r, terms r [OSent (next_rid s)] = 0%nat) by reflexivity.
  assert (T1o : forall r, terms r [OSent (next_rid s); OOpen sid p] = 0%nat) by reflexivity.
  assert (T1d : forall r, terms r [OSent (next_rid s); ODial p] = 0%nat) by reflexivity.
  assert (T2 : forall r c, terms r [OSent (next_rid s); OFail (next_rid s) c]
                           = if N.eqb r (next_rid s) then 1%nat else 0%nat).
  { intros r c. rewrite terms_cons_nonterm by reflexivity. apply terms_one_fail. }
  assert (Hfail : forall c, Inv (set_next_rid s (next_rid s + 1)) (tr ++ [OSent (next_rid s); OFail (next_rid s) c])).
  { intros c. eapply (Inv_step true); [exact I| |intros po H; exact (inv_po _ _ I po H)].
    constructor; [intros r|intros r| ]; unf; simp_sets; cbn [andb]; rewrite ?T2; try lia; try (split; [lia|intros _; lia]). }
  destruct (memN p (peers s)); [destruct ok|destruct dial; cbn [negb]; [destruct (dial_accepted dok)|]]; cbn [fst snd]; auto.
  - eapply (Inv_step true); [exact I| |].
    + constructor; [intros r|intros r| ]; unf; simp_sets; cbn [andb]; rewrite ?T1, ?T1o, ?T1d, ?map_app, ?cnt_app; cbn [map snd rid_po po_req q_rid];
        rewrite ?cnt_cons, ?cnt_nil; try lia; try (split; [lia|intros _; lia]).
    + simp_sets. intros po H. apply in_app_or in H. apply in_or_app. destruct H as [H|[<-|[]]].
      * left. exact (inv_po _ _ I po H).
      * right. left. reflexivity.
  - eapply (Inv_step true); [exact I| |intros po H; exact (inv_po _ _ I po H)].
    constructor; [intros r|intros r| ]; unf; simp_sets; cbn [andb]; rewrite ?T1, ?T1o, ?T1d, ?map_app, ?cnt_app; cbn [map snd rid_d q_rid];
      rewrite ?cnt_cons, ?cnt_nil; try lia; try (split; [lia|intros _; lia]).
Qed.

Lemma terms_map_open r p l : terms r (map (fun po => OOpen (po_sid po) p) l) = 0%nat.
Proof. induction l; [reflexivity|]. cbn [map]. rewrite terms_cons_nonterm by reflexivity. exact IHl. Qed.

Lemma split_cnt {A} (f : A -> N) n l r :
  (cnt r (map f (firstn n l)) + cnt r (map f (skipn n l)) = cnt r (map f l))%nat.
Proof. rewrite <- cnt_app, <- map_app, firstn_skipn. reflexivity. Qed.

Lemma established_Inv s tr p ok sid :
  Inv s tr -> Inv (fst (h_established s p ok sid)) (tr ++ snd (h_established s p ok sid)).
Proof.
  intros I. unfold h_established.
  destruct (memN p (peers s)); cbn [fst snd]; [rewrite app_nil_r; exact I|]. simp_sets.
  assert (P : forall r, (cnt r (map rid_d (filter (fun d : N * req => N.eqb (fst d) p) (dials s))) +
                         cnt r (map rid_d (filter (fun d : N * req => negb (N.eqb (fst d) p)) (dials s))) = cd r s)%nat)
    by (intros r; apply (cnt_part rid_d (fun d : N * req => fst d =? p))).
  destruct (filter (fun d : N * req => fst d =? p) (dials s)) as [|d0 mine] eqn:M.
  - cbn [fst snd]. eapply (Inv_step false); [exact I| |intros po H; exact (inv_po _ _ I po H)].
    constructor; [intros r|intros r| ]; unf; simp_sets; cbn [andb]; rewrite ?terms_nil; try specialize (P r); cbn [map] in P;
      rewrite ?cnt_nil in P; try lia; try (split; [lia|discriminate]).
  - pose proof (fun r => split_cnt rid_d ok (d0 :: mine) r) as Sp.
    change (fun d : N * req => OFail (q_rid (snd d)) E_SUBSTREAM) with (fun d : N * req => OFail (rid_d d) E_SUBSTREAM).
    destruct (firstn ok (d0 :: mine)) as [|x okl] eqn:F; cbn [fst snd].
    + eapply (Inv_step false); [exact I| |intros po H; exact (inv_po _ _ I po H)].
      constructor; [intros r|intros r| ]; unf; simp_sets; cbn [andb];
        rewrite ?(terms_map_fail rid_d); try specialize (P r); try specialize (Sp r); try change (map rid_d []) with (@nil N) in Sp; rewrite ?cnt_nil in Sp;
        try lia; try (split; [lia|discriminate]).
    + eapply (Inv_step false); [exact I| |].
      * constructor; [intros r|intros r| ]; unf; simp_sets; cbn [andb];
          rewrite ?terms_app, ?terms_map_open, ?(terms_map_fail rid_d), ?map_app, ?cnt_app, ?number_pouts_rids, ?map_map; cbn [snd];
          try specialize (P r); try specialize (Sp r);
          change (map (fun x0 : N * req => q_rid (snd x0)) (x :: okl)) with (map rid_d (x :: okl));
          try lia; try (split; [lia|discriminate]).
      * simp_sets. intros po H. apply in_app_or in H. apply in_or_app. destruct H as [H|H].
        -- left. exact (inv_po _ _ I po H).
        -- right. apply number_pouts_in in H. destruct H as [<- H].
           apply in_map_iff in H. destruct H as [d [E Hd]]. apply in_map_iff. exists d.
           split; [|exact Hd]. unfold rid_d in E. rewrite E. reflexivity.
Qed.

Lemma closed_Inv s tr p :
  Inv s tr -> Inv (fst (h_closed s p)) (tr ++ snd (h_closed s p)).
Proof.
  intros I. unfold h_closed. simp_sets.
  pose proof (fun r => cnt_filter_le rid_po (fun po => negb (po_peer po =? p)) r (pouts s)) as PO.
  destruct (memN p (peers s)); cbn [fst snd].
  - pose proof (fun r => cnt_part snd (fun a : N * N => fst a =? p) r (active s)) as P.
    eapply (Inv_step false); [exact I| |].
    + constructor; [intros r|intros r| ]; unf; simp_sets; cbn [andb]; rewrite ?(terms_map_fail snd);
        try specialize (P r); try specialize (PO r); try lia; try (split; [lia|discriminate]).
    + simp_sets. intros po H. apply filter_In in H. destruct H as [H Hp].
      apply filter_In. split; [exact (inv_po _ _ I po H)|exact Hp].
  - eapply (Inv_step false); [exact I| |].
    + constructor; [intros r|intros r| ]; unf; simp_sets; cbn [andb]; rewrite ?terms_nil; try specialize (PO r); try lia; try (split; [lia|discriminate]).
    + simp_sets. intros po H. apply filter_In in H. exact (inv_po _ _ I po (proj1 H)).
Qed.

Lemma dialfail_Inv s tr p :
  Inv s tr -> Inv (fst (h_dialfail s p)) (tr ++ snd (h_dialfail s p)).
Proof.
  intros I. unfold h_dialfail. cbn [fst snd].
  pose proof (fun r => cnt_part rid_d (fun d : N * req => fst d =? p) r (dials s)) as P.
  eapply (Inv_step false); [exact I| |intros po H; exact (inv_po _ _ I po H)].
  constructor; [intros r|intros r| ]; unf; simp_sets; cbn [andb]; try specialize (P r);
    change (fun d : N * req => OFail (q_rid (snd d)) E_DIAL_FAILED) with (fun d : N * req => OFail (rid_d d) E_DIAL_FAILED);
    rewrite ?(terms_map_fail rid_d); try lia; try (split; [lia|discriminate]).
Qed.

(* dropping the found pending-outbound entry: the others have other request ids *)
Lemma drop_po_other s tr po po' :
  Inv s tr -> In po' (drop_po po (pouts s)) ->
  In (po_peer po', rid_po po') (active s) /\ (po_peer po', rid_po po') <> (po_peer po, rid_po po).
Proof.
  intros I H. unfold drop_po in H. apply filter_In in H. destruct H as [H1 H2]. split.
  - exact (inv_po _ _ I _ H1).
  - intros E. injection E as _ E. unfold rid_po in E. rewrite E, N.eqb_refl in H2. discriminate.
Qed.

Lemma openfail_Inv s tr sid u :
  Inv s tr -> Inv (fst (h_openfail s sid u)) (tr ++ snd (h_openfail s sid u)).
Proof.
  intros I. unfold h_openfail. destruct (find_po sid (pouts s)) as [po|] eqn:F; cbn [fst snd];
    [|rewrite app_nil_r; exact I].
  pose proof (find_in _ _ _ F) as [Hin _].
  pose proof (inv_po _ _ I po Hin) as Hact.
  pose proof (fun r => cnt_removeP r _ _ Hact) as R. cbn [snd] in R.
  pose proof (fun r => cnt_drop_in rid_po r po (pouts s) Hin) as D.
  eapply (Inv_step false); [exact I| |].
  - constructor; [intros r|intros r| ]; unf; simp_sets; cbn [andb]; rewrite ?terms_one_fail; try specialize (R r); try specialize (D r);
      unfold rid_po, drop_po in *; try lia; try (split; [lia|discriminate]).
  - simp_sets. intros po' H. destruct (drop_po_other _ _ _ _ I H) as [A B].
    apply in_removeP. split; [exact A|exact B].
Qed.

Lemma Moves_trans s s1 s2 o1 o2 :
  Moves false s s1 o1 -> Moves false s1 s2 o2 -> Moves false s s2 (o1 ++ o2).
Proof.
  intros [A1 A2 [A3 _]] [B1 B2 [B3 _]]. constructor; cbn [andb] in *; intros.
  - rewrite terms_app. specialize (A1 r). specialize (B1 r). lia.
  - specialize (A2 r). specialize (B2 r). lia.
  - split; [lia|discriminate].
Qed.

(* ---- request futures ---- *)
Lemma complete_Inv s tr f res :
  Inv s tr -> (forall po, In po (pouts s) -> rid_po po <> rid_f f) ->
  Inv (fst (complete s f res)) (tr ++ snd (complete s f res)) /\
  pouts (fst (complete s f res)) = pouts s.
Proof.
  intros I Hne. pose proof (complete_Moves s f res) as C.
  destruct (complete s f res) as [s' o]. cbn [fst snd].
  destruct C as (M & P & N & A1 & A2 & F). split; [|exact P].
  eapply (Inv_step false); [exact I|exact M|].
  rewrite P. intros po H. apply A2; [exact (inv_po _ _ I po H)|].
  intros E. injection E as _ E. exact (Hne po H E).
Qed.

Lemma fut_in_not_po s tr f :
  Inv s tr -> In f (futs s) -> forall po, In po (pouts s) -> rid_po po <> rid_f f.
Proof.
  intros I Hf po Hpo E.
  assert (1 <= cf (rid_f f) s)%nat by (apply cnt_pos_in; apply in_map; exact Hf).
  assert (1 <= cp (rid_f f) s)%nat by (apply cnt_pos_in; rewrite <- E; apply in_map; exact Hpo).
  pose proof (inv_ctx _ _ I (rid_f f)). lia.
Qed.

Lemma complete_all_Inv l : forall s tr res,
  Inv s tr -> (forall f po, In f l -> In po (pouts s) -> rid_po po <> rid_f f) ->
  Inv (fst (complete_all s l res)) (tr ++ snd (complete_all s l res)).
Proof.
  induction l as [|f l IH]; intros s tr res I H; cbn [complete_all fst snd].
  - rewrite app_nil_r. exact I.
  - destruct (complete_Inv s tr f res I (fun po Hpo => H f po (or_introl eq_refl) Hpo)) as [I1 P1].
    destruct (complete s f res) as [s1 o1]. cbn [fst snd] in *.
    specialize (IH s1 (tr ++ o1) res I1).
    destruct (complete_all s1 l res) as [s2 o2]. cbn [fst snd] in *.
    rewrite app_assoc. apply IH. intros g po Hg Hpo. rewrite P1 in Hpo. apply (H g po); [right; exact Hg|exact Hpo].
Qed.

Lemma Inv_futs_rids s tr l o :
  Inv s tr -> map rid_f l = map rid_f (futs s) -> (forall r, terms r o = 0%nat) ->
  Inv (set_futs s l) (tr ++ o).
Proof.
  intros I E T. eapply (Inv_step false); [exact I| |intros po H; exact (inv_po _ _ I po H)].
  constructor; [intros r|intros r|]; unf; simp_sets; cbn [andb]; rewrite ?T, ?E; try lia; try (split; [lia|discriminate]).
Qed.

Lemma Inv_cons_quiet s tr x o :
  (forall r, is_term r x = false) -> Inv s (tr ++ o) -> Inv s (tr ++ x :: o).
Proof.
  intros Hx [A B C D]. constructor; auto.
  - intros r. specialize (A r). rewrite terms_app in *. rewrite terms_cons_nonterm by apply Hx. exact A.
  - intros r Hr. specialize (C r Hr). rewrite terms_app in *. rewrite terms_cons_nonterm by apply Hx. exact C.
Qed.

Lemma opened_body_Inv cf0 s tr po c gate now neg :
  Inv s tr -> In po (pouts s) ->
  Inv (fst (opened_body cf0 s po c gate now neg)) (tr ++ snd (opened_body cf0 s po c gate now neg)).
Proof.
  intros I Hin. unfold opened_body. cbn [q_rid q_len q_tag q_fb].
  pose proof (fun r => cnt_drop_in rid_po r po (pouts s) Hin) as D.
  (* dropping the entry alone *)
  assert (M0 : Moves false s (set_pouts s (drop_po po (pouts s))) []).
  { constructor; [intros r|intros r|]; unf; simp_sets; cbn [andb]; rewrite ?terms_nil; try specialize (D r);
      unfold rid_po, drop_po in *; try lia; try (split; [lia|discriminate]). }
  assert (Hsettle : forall res,
             Inv (fst (settle (set_pouts s (drop_po po (pouts s))) (po_peer po) (q_rid (po_req po)) res))
                 (tr ++ snd (settle (set_pouts s (drop_po po (pouts s))) (po_peer po) (q_rid (po_req po)) res))).
  { intros res. pose proof (settle_Moves (set_pouts s (drop_po po (pouts s))) (po_peer po) (q_rid (po_req po)) res) as S.
    destruct (settle _ _ _ _) as [s' o]. cbn [fst snd]. destruct S as (M & P & _ & _ & A1 & A2). simp_sets.
    eapply (Inv_step false); [exact I|exact (Moves_trans _ _ _ _ _ M0 M)|].
    rewrite P. intros po' H. destruct (drop_po_other _ _ _ _ I H) as [A B].
    apply A2; [exact A|exact B]. }
  assert (Hpush : forall g o, rid_f g = rid_po po -> (forall r, terms r o = 0%nat) ->
             Inv (set_futs (set_pouts s (drop_po po (pouts s))) (futs (set_pouts s (drop_po po (pouts s))) ++ [g])) (tr ++ o)).
  { intros g o E T. eapply (Inv_step false); [exact I| |].
    - constructor; [intros r|intros r|]; unf; simp_sets; cbn [andb]; rewrite ?T, ?map_app, ?cnt_app; cbn [map];
        rewrite ?E, ?cnt_cons, ?cnt_nil; try specialize (D r); unfold rid_po, drop_po in *; try lia; try (split; [lia|discriminate]).
    - simp_sets. intros po' H. exact (proj1 (drop_po_other _ _ _ _ I H)). }
  destruct (max_size cf0 <? _); [apply Hsettle|].
  destruct gate as [|[g|g|]]; try apply Hsettle; apply Hpush; try reflexivity.
Qed.

Lemma opened_Inv cf0 s tr sid c gate now neg :
  Inv s tr -> Inv (fst (h_opened cf0 s sid c gate now neg)) (tr ++ snd (h_opened cf0 s sid c gate now neg)).
Proof.
  intros I. unfold h_opened. destruct (find_po sid (pouts s)) as [po|] eqn:F; cbn [fst snd];
    [|rewrite app_nil_r; exact I].
  pose proof (opened_body_Inv cf0 s tr po c gate now neg I (proj1 (find_in _ _ _ F))) as H.
  destruct (opened_body _ _ _ _ _ _ _) as [s1 o]. cbn [fst snd] in *.
  apply Inv_cons_quiet; [reflexivity|exact H].
Qed.

Lemma find_fut_in c l f : find_fut c l = Some f -> In f l.
Proof. intros H. apply find_some in H. tauto. Qed.

Lemma terms_cons_wire r c l t o : terms r (OWire c l t :: o) = terms r o.
Proof. apply terms_cons_nonterm. reflexivity. Qed.

Lemma Inv_cons_wire s tr c l t o : Inv s (tr ++ o) -> Inv s (tr ++ OWire c l t :: o).
Proof.
  intros [A B C D]. constructor; auto.
  - intros r. specialize (A r). rewrite terms_app in *. rewrite terms_cons_wire. exact A.
  - intros r Hr. specialize (C r Hr). rewrite terms_app in *. rewrite terms_cons_wire. exact C.
Qed.

Lemma unblock_Inv cf0 s tr c now :
  Inv s tr -> Inv (fst (fut_unblock cf0 s c now)) (tr ++ snd (fut_unblock cf0 s c now)).
Proof.
  intros I. unfold fut_unblock. destruct (find_fut c (futs s)) as [f|] eqn:F; cbn [fst snd];
    [|rewrite app_nil_r; exact I].
  destruct (f_wait f); cbn [fst snd]; [rewrite app_nil_r; exact I|].
  destruct (f_cancel f).
  - pose proof (complete_Inv s tr f (RErr E_CANCELED) I (fut_in_not_po _ _ _ I (find_fut_in _ _ _ F))) as [C _].
    destruct (complete s f (RErr E_CANCELED)) as [s1 o]. cbn [fst snd] in *. apply Inv_cons_wire. exact C.
  - cbn [fst snd]. apply Inv_futs_rids; [exact I|apply map_rid_to_wait|reflexivity].
Qed.

Lemma breakw_Inv s tr c :
  Inv s tr -> Inv (fst (fut_breakw s c)) (tr ++ snd (fut_breakw s c)).
Proof.
  intros I. unfold fut_breakw. destruct (find_fut c (futs s)) as [f|] eqn:F; cbn [fst snd];
    [|rewrite app_nil_r; exact I].
  destruct (f_wait f); cbn [fst snd]; [rewrite app_nil_r; exact I|].
  exact (proj1 (complete_Inv s tr f _ I (fut_in_not_po _ _ _ I (find_fut_in _ _ _ F)))).
Qed.

Lemma fb_resp_terms r f o : terms r (fb_resp f o) = 0%nat.
Proof.
  unfold fb_resp. destruct (f_neg f =? 0); [reflexivity|].
  induction o as [|x o IH]; [reflexivity|]. cbn [flat_map]. rewrite terms_app, IH. destruct x; reflexivity.
Qed.

Lemma Inv_app_quiet s tr o x : (forall r, terms r x = 0%nat) -> Inv s (tr ++ o) -> Inv s (tr ++ o ++ x).
Proof.
  intros Hx [A B C D]. constructor; auto.
  - intros r. specialize (A r). rewrite !terms_app in *. rewrite Hx. lia.
  - intros r Hr. specialize (C r Hr). rewrite !terms_app in *. rewrite Hx. lia.
Qed.

Lemma read_Inv s tr c res :
  Inv s tr -> Inv (fst (fut_read s c res)) (tr ++ snd (fut_read s c res)).
Proof.
  intros I. unfold fut_read. destruct (find_fut c (futs s)) as [f|] eqn:F; cbn [fst snd];
    [|rewrite app_nil_r; exact I].
  destruct (f_wait f); cbn [fst snd]; [|rewrite app_nil_r; exact I].
  pose proof (proj1 (complete_Inv s tr f res I (fut_in_not_po _ _ _ I (find_fut_in _ _ _ F)))) as H.
  destruct (complete s f res) as [s1 o]. cbn [fst snd] in *.
  apply Inv_app_quiet; [intros r; apply fb_resp_terms|exact H].
Qed.

Lemma advance_Inv s tr now :
  Inv s tr -> Inv (fst (fut_advance s now)) (tr ++ snd (fut_advance s now)).
Proof.
  intros I. unfold fut_advance. apply complete_all_Inv; [exact I|].
  intros f po Hf Hpo. apply filter_In in Hf. exact (fut_in_not_po _ _ _ I (proj1 Hf) po Hpo).
Qed.

(* state changes that do not touch the ledger *)
Definition same_ledger (s s' : pst) : Prop :=
  dials s' = dials s /\ active s' = active s /\ pouts s' = pouts s /\ futs s' = futs s /\
  next_rid s <= next_rid s' /\ peers s' = peers s.

Lemma Inv_same_ledger s s' tr o :
  Inv s tr -> same_ledger s s' -> (forall r, terms r o = 0%nat) -> Inv s' (tr ++ o).
Proof.
  intros I (D & A & P & F & N) T. eapply (Inv_step false); [exact I| |].
  - constructor; [intros r|intros r|]; unf; cbn [andb]; rewrite ?T, ?D, ?A, ?P, ?F; try lia; try (split; [lia|discriminate]).
  - rewrite P, A. exact (inv_po _ _ I).
Qed.

Lemma same_ledger_refl s : same_ledger s s.
Proof. unfold same_ledger. repeat split; try lia; try reflexivity. Qed.

Lemma cancel_Inv s tr rid :
  Inv s tr -> Inv (fst (h_cancel s rid)) (tr ++ snd (h_cancel s rid)).
Proof.
  intros I. unfold h_cancel.
  destruct (find _ (futs s)) as [f|] eqn:F; cbn [fst snd]; [|rewrite app_nil_r; exact I].
  apply find_some in F. destruct F as [Hf _].
  destruct (f_wait f); cbn [fst snd].
  - exact (proj1 (complete_Inv _ tr f _ I (fut_in_not_po _ _ _ I Hf))).
  - apply Inv_futs_rids; [exact I|apply map_rid_mark_cancel|reflexivity].
Qed.

(* ---- inbound side: never touches the ledger ---- *)
Lemma inopen_same cf0 s p c neg : same_ledger s (fst (h_inopen cf0 s p c neg)) /\ snd (h_inopen cf0 s p c neg) = [].
Proof.
  unfold h_inopen. destruct (match max_inb cf0 with Some m => m <=? inbound_load s | None => false end);
    cbn [fst snd]; [split; [apply same_ledger_refl|reflexivity]|].
  simp_sets. destruct (memN p (peers s)); cbn [fst snd]; unfold same_ledger; simp_sets; repeat split; try lia; try reflexivity.
Qed.

Lemma inread_same s c good len tag :
  same_ledger s (fst (h_inread s c good len tag)) /\ forall r, terms r (snd (h_inread s c good len tag)) = 0%nat.
Proof.
  unfold h_inread. destruct (find_rd c (rdrs s)) as [rd|]; cbn [fst snd];
    [|split; [apply same_ledger_refl|reflexivity]].
  simp_sets. destruct (memN (r_peer rd) (peers s) && memP (r_peer rd, r_irid rd) (inb s));
    [destruct good; [destruct (r_neg rd =? 0)|]|]; cbn [fst snd]; unfold same_ledger; simp_sets; repeat split; try lia; try reflexivity.
Qed.

Lemma uresp_same cf0 s irid len tag fb gate now :
  same_ledger s (fst (h_uresp cf0 s irid len tag fb gate now)) /\
  forall r, terms r (snd (h_uresp cf0 s irid len tag fb gate now)) = 0%nat.
Proof.
  unfold h_uresp, feed. destruct (find_rs irid (rsps s)) as [rs|]; cbn [fst snd];
    [|split; [apply same_ledger_refl|reflexivity]].
  destruct (s_w rs); cbn [fst snd]; [split; [apply same_ledger_refl|reflexivity]|].
  destruct fb; (destruct (max_size cf0 <? len); [|destruct gate as [|[g|g|]]]); cbn [fst snd]; unfold same_ledger; simp_sets;
    repeat split; try lia; try reflexivity.
Qed.

Lemma rsp_gate_same s c ok :
  same_ledger s (fst (rsp_gate s c ok)) /\ forall r, terms r (snd (rsp_gate s c ok)) = 0%nat.
Proof.
  unfold rsp_gate. destruct (find _ (rsps s)) as [rs|]; cbn [fst snd];
    [|split; [apply same_ledger_refl|reflexivity]].
  destruct (s_w rs) as [[[l t] d]|]; cbn [fst snd]; [|split; [apply same_ledger_refl|reflexivity]].
  unfold feed. destruct ok; destruct (s_fb rs); unfold same_ledger; simp_sets; repeat split; try lia; try reflexivity.
Qed.

Lemma feed_terms r fb irid ok : terms r (feed fb irid ok) = 0%nat.
Proof. destruct fb; reflexivity. Qed.

Lemma adv_out_terms s now r : terms r (rsp_advance_out s now) = 0%nat.
Proof.
  unfold rsp_advance_out. induction (rsps s) as [|a l IH]; [reflexivity|].
  cbn [flat_map]. rewrite terms_app, IH. destruct (s_w a) as [[[x y] d]|]; [|reflexivity].
  destruct (d <=? now); [rewrite feed_terms|]; reflexivity.
Qed.

(* ------------------------------------------------------------------ one step, whole runs *)

Ltac use_same L :=
  let H := fresh in let T := fresh in
  pose proof L as [H T];
  match type of H with same_ledger _ (fst ?x) => destruct x as [? ?] end;
  cbn [fst snd] in *.

Lemma step_Inv cf0 s en e tr :
  Inv s tr ->
  Inv (fst (fst (fst (step cf0 (s, en) e)))) (tr ++ snd (fst (step cf0 (s, en) e))).
Proof.
  intros I. destruct e; cbn [step].
  - (* send *)
    match goal with |- context [h_send s p dial len tag ?fb0 ?a0 ?b0 ?c0] => pose proof (send_Inv s tr p dial len tag fb0 a0 b0 c0 I) as H end.
    destruct (h_send _ _ _ _ _ _ _ _ _) as [s1 o]. exact H.
  - pose proof (cancel_Inv s tr rid I) as H. destruct (h_cancel s rid) as [s1 o]. exact H.
  - destruct (conn_of p en); cbn [fst snd]; [rewrite app_nil_r; exact I|].
    match goal with |- context [h_established s p ?n ?sd] => pose proof (established_Inv s tr p n sd I) as H end.
    destruct (h_established _ _ _ _) as [s1 o]. exact H.
  - destruct (conn_of p en); cbn [fst snd]; [|rewrite app_nil_r; exact I].
    pose proof (closed_Inv s tr p I) as H. destruct (h_closed s p) as [s1 o]. exact H.
  - pose proof (dialfail_Inv s tr p I) as H. destruct (h_dialfail s p) as [s1 o]. exact H.
  - destruct (nth_mod k (opens en)) as [[sid q]|]; cbn [fst snd]; [|rewrite app_nil_r; exact I].
    pose proof (opened_Inv cf0 s tr sid (N.of_nat (length (chans en))) (N.min gate 2) (now en) neg I) as H.
    destruct (h_opened _ _ _ _ _ _ _) as [s1 o]. exact H.
  - destruct (nth_mod k (opens en)) as [[sid q]|]; cbn [fst snd]; [|rewrite app_nil_r; exact I].
    pose proof (openfail_Inv s tr sid unsupported I) as H. destruct (h_openfail _ _ _) as [s1 o]. exact H.
  - (* unblock *)
    destruct (chans en) as [|ch0 chs] eqn:CH; cbn [fst snd]; [rewrite app_nil_r; exact I|].
    destruct (nth_error _ _) as [ch|]; cbn [fst snd]; [|rewrite app_nil_r; exact I].
    destruct (c_gate ch =? 0); cbn [fst snd]; [|rewrite app_nil_r; exact I].
    pose proof (unblock_Inv cf0 s tr (k mod N.of_nat (length (ch0 :: chs))) (now en) I) as H.
    destruct (fut_unblock _ _ _ _) as [s1 o1]. cbn [fst snd] in H.
    pose proof (rsp_gate_same s1 (k mod N.of_nat (length (ch0 :: chs))) true) as [H2 T2].
    destruct (rsp_gate _ _ _) as [s2 o2]. cbn [fst snd] in *.
    rewrite app_assoc. exact (Inv_same_ledger _ _ _ _ H H2 T2).
  - destruct (chans en) as [|ch0 chs] eqn:CH; cbn [fst snd]; [rewrite app_nil_r; exact I|].
    destruct (nth_error _ _) as [ch|]; cbn [fst snd]; [|rewrite app_nil_r; exact I].
    destruct (c_gate ch =? 2); cbn [fst snd]; [rewrite app_nil_r; exact I|].
    pose proof (breakw_Inv s tr (k mod N.of_nat (length (ch0 :: chs))) I) as H.
    destruct (fut_breakw _ _) as [s1 o1]. cbn [fst snd] in H.
    pose proof (rsp_gate_same s1 (k mod N.of_nat (length (ch0 :: chs))) false) as [H2 T2].
    destruct (rsp_gate _ _ _) as [s2 o2]. cbn [fst snd] in *.
    rewrite app_assoc. exact (Inv_same_ledger _ _ _ _ H H2 T2).
  - destruct (chans en) as [|ch0 chs] eqn:CH; cbn [fst snd]; [rewrite app_nil_r; exact I|].
    destruct (nth_error _ _) as [ch|]; cbn [fst snd]; [|rewrite app_nil_r; exact I].
    destruct (c_out ch && c_seen ch); cbn [fst snd]; [|rewrite app_nil_r; exact I].
    match goal with |- context [fut_read s ?c ?r] =>
      pose proof (read_Inv s tr c r I) as H; destruct (fut_read s c r) as [s1 o] end. exact H.
  - destruct (chans en) as [|ch0 chs] eqn:CH; cbn [fst snd]; [rewrite app_nil_r; exact I|].
    destruct (nth_error _ _) as [ch|]; cbn [fst snd]; [|rewrite app_nil_r; exact I].
    destruct (c_out ch); [destruct (c_seen ch)|]; cbn [fst snd]; try (rewrite app_nil_r; exact I).
    + match goal with |- context [fut_read s ?c ?r] =>
        pose proof (read_Inv s tr c r I) as H; destruct (fut_read s c r) as [s1 o] end. exact H.
    + match goal with |- context [h_inread s ?c ?g ?l ?t] =>
        pose proof (inread_same s c g l t) as [H T]; destruct (h_inread s c g l t) as [s1 o] end.
      exact (Inv_same_ledger _ _ _ _ I H T).
  - destruct (chans en) as [|ch0 chs] eqn:CH; cbn [fst snd]; [rewrite app_nil_r; exact I|].
    destruct (nth_error _ _) as [ch|]; cbn [fst snd]; [|rewrite app_nil_r; exact I].
    destruct (c_out ch); [destruct (c_seen ch)|]; cbn [fst snd]; try (rewrite app_nil_r; exact I).
    + match goal with |- context [fut_read s ?c ?r] =>
        pose proof (read_Inv s tr c r I) as H; destruct (fut_read s c r) as [s1 o] end. exact H.
    + match goal with |- context [h_inread s ?c ?g ?l ?t] =>
        pose proof (inread_same s c g l t) as [H T]; destruct (h_inread s c g l t) as [s1 o] end.
      exact (Inv_same_ledger _ _ _ _ I H T).
  - (* advance *)
    pose proof (advance_Inv s tr (now en + dt) I) as H.
    destruct (fut_advance s (now en + dt)) as [s1 o]. cbn [fst snd] in *.
    rewrite app_assoc. eapply Inv_same_ledger; [exact H| |intros r; apply adv_out_terms].
    unfold rsp_advance, same_ledger. simp_sets. repeat split; try lia; try reflexivity.
  - destruct (conn_of p en); cbn [fst snd]; [|rewrite app_nil_r; exact I].
    pose proof (inopen_same cf0 s p (N.of_nat (length (chans en))) neg) as [H T].
    destruct (h_inopen _ _ _ _ _) as [s1 o]. cbn [fst snd] in *. subst o.
    eapply Inv_same_ledger; [exact I|exact H|reflexivity].
  - destruct (chans en) as [|ch0 chs] eqn:CH; cbn [fst snd]; [rewrite app_nil_r; exact I|].
    destruct (nth_error _ _) as [ch|]; cbn [fst snd]; [|rewrite app_nil_r; exact I].
    destruct (negb (c_out ch)); cbn [fst snd]; [|rewrite app_nil_r; exact I].
    match goal with |- context [h_inread s ?c ?g ?l ?t] =>
      pose proof (inread_same s c g l t) as [H T]; destruct (h_inread s c g l t) as [s1 o] end.
    exact (Inv_same_ledger _ _ _ _ I H T).
  - destruct (nth_mod k (hpend en)) as [irid|]; cbn [fst snd]; [|rewrite app_nil_r; exact I].
    match goal with |- context [h_uresp cf0 s ?a ?b ?c ?f ?d ?e] =>
      pose proof (uresp_same cf0 s a b c f d e) as [H T]; destruct (h_uresp cf0 s a b c f d e) as [s1 o] end.
    exact (Inv_same_ledger _ _ _ _ I H T).
  - destruct (nth_mod k (hpend en)) as [irid|]; cbn [fst snd]; [|rewrite app_nil_r; exact I].
    unfold h_urej. cbn [fst snd]. eapply Inv_same_ledger; [exact I| |reflexivity].
    unfold same_ledger. simp_sets. repeat split; try lia; try reflexivity.
  - cbn [fst snd]. rewrite app_nil_r. exact I.
  - unfold h_burn. cbn [fst snd]. eapply Inv_same_ledger; [exact I| |reflexivity]. unfold same_ledger; simp_sets; repeat split; try lia; try reflexivity.
  - cbn [fst snd]. rewrite app_nil_r. exact I.
  - cbn [fst snd]. rewrite app_nil_r. exact I.
  - cbn [fst snd]. rewrite app_nil_r. exact I.
  - cbn [fst snd]. rewrite app_nil_r. exact I.
Qed.

Lemma run_Inv cf0 evs : forall st tr,
  Inv (fst st) tr -> Inv (fst (fst (run cf0 st evs))) (tr ++ snd (run cf0 st evs)).
Proof.
  induction evs as [|e evs IH]; intros [s en] tr I; cbn [run fst snd].
  - rewrite app_nil_r. exact I.
  - pose proof (step_Inv cf0 s en e tr I) as H.
    destruct (step cf0 (s, en) e) as [[st1 o] tg]. cbn [fst snd] in H.
    specialize (IH st1 (tr ++ o) H). destruct (run cf0 st1 evs) as [st2 o2]. cbn [fst snd] in *.
    rewrite app_assoc. exact IH.
Qed.

Theorem at_most_one cf0 evs r :
  (terms r (snd (run cf0 (init_pst, init_env) evs)) <= 1)%nat.
Proof.
  pose proof (run_Inv cf0 evs (init_pst, init_env) [] Inv_init) as I. cbn [app] in I.
  pose proof (inv_once _ _ I r). lia.
Qed.

(* ------------------------------------------------------------------ liveness part of the ledger *)

Definition owed (r : N) (s : pst) : Prop := (1 <= cd r s + ca r s)%nat.
Definition answered (r : N) (o : list out) : Prop := (1 <= terms r o)%nat.
Definition nosent (o : list out) : Prop := forall r, ~ In (OSent r) o.

(* cs = the ids the user asked to cancel so far *)
Record Inv2 (cs : list N) (s : pst) (tr : list out) : Prop := mkInv2 {
  inv_sent : forall r, In (OSent r) tr -> owed r s \/ answered r tr \/ In r cs;
  inv_cancel : forall f, In f (futs s) -> f_cancel f = true -> In (rid_f f) cs
}.

Record Keeps (cs : list N) (s s' : pst) (o : list out) : Prop := mkKeeps {
  kp_owed : forall r, owed r s -> owed r s' \/ answered r o \/ In r cs;
  kp_sent : forall r, In (OSent r) o -> owed r s' \/ answered r o \/ In r cs;
  kp_futs : forall g, In g (futs s') -> In g (futs s) \/ f_cancel g = false \/ In (rid_f g) cs
}.

Lemma Keeps_Inv2 cs cs' s s' tr o :
  Inv2 cs s tr -> Keeps cs' s s' o -> incl cs cs' -> Inv2 cs' s' (tr ++ o).
Proof.
  intros [F G] [K1 K2 K3] Hi. constructor.
  - intros r H. unfold answered in *. rewrite terms_app. apply in_app_or in H. destruct H as [H|H].
    + destruct (F r H) as [A|[A|A]].
      * destruct (K1 r A) as [B|[B|B]]; [left; exact B|right; left; lia|right; right; exact B].
      * right. left. lia.
      * right. right. apply Hi. exact A.
    + destruct (K2 r H) as [B|[B|B]]; [left; exact B|right; left; lia|right; right; exact B].
  - intros g Hg Hc. destruct (K3 g Hg) as [A|[A|A]]; [apply Hi; exact (G g A Hc)|congruence|exact A].
Qed.

Lemma Keeps_trans cs s s1 s2 o1 o2 :
  Keeps cs s s1 o1 -> Keeps cs s1 s2 o2 -> Keeps cs s s2 (o1 ++ o2).
Proof.
  intros [A1 A2 A3] [B1 B2 B3]. constructor; unfold answered in *.
  - intros r H. rewrite terms_app. destruct (A1 r H) as [X|[X|X]]; [|right; left; lia|right; right; exact X].
    destruct (B1 r X) as [Y|[Y|Y]]; [left; exact Y|right; left; lia|right; right; exact Y].
  - intros r H. rewrite terms_app. apply in_app_or in H. destruct H as [H|H].
    + destruct (A2 r H) as [X|[X|X]]; [|right; left; lia|right; right; exact X].
      destruct (B1 r X) as [Y|[Y|Y]]; [left; exact Y|right; left; lia|right; right; exact Y].
    + destruct (B2 r H) as [Y|[Y|Y]]; [left; exact Y|right; left; lia|right; right; exact Y].
  - intros g Hg. destruct (B3 g Hg) as [X|X]; [|right; exact X]. exact (A3 g X).
Qed.

Lemma Keeps_refl cs s : Keeps cs s s [].
Proof. constructor; [intros r H; left; exact H|intros r []|intros g H; left; exact H]. Qed.

Lemma Keeps_same cs s s' o :
  same_ledger s s' -> nosent o -> Keeps cs s s' o.
Proof.
  intros (D & A & P & F & N) Hn. constructor.
  - intros r H. left. unfold owed in *. unf. rewrite D, A. exact H.
  - intros r H. destruct (Hn r H).
  - intros g H. left. rewrite <- F. exact H.
Qed.

Lemma cnt_removeP_ne r x l : r <> snd x -> cnt r (map snd (removeP x l)) = cnt r (map snd l).
Proof.
  intros Hne. induction l as [|a l IH]; [reflexivity|].
  unfold removeP in *. cbn [filter map]. destruct (pair_eqb_spec x a) as [->|E]; cbn [negb map]; rewrite ?cnt_cons, IH.
  - destruct (N.eqb_spec r (snd a)); [congruence|reflexivity].
  - reflexivity.
Qed.

Lemma nosent_verdict rid res : nosent (verdict rid res).
Proof.
  intros r H. unfold verdict in H. destruct res as [l t|c]; [|destruct (c =? E_CANCELED)]; cbn in H;
    repeat destruct H as [H|H]; try discriminate; auto.
Qed.

Lemma nosent_map_fail {A} (g : A -> N) code l : nosent (map (fun a => OFail (g a) code) l).
Proof. intros r H. apply in_map_iff in H. destruct H as [a [E _]]. discriminate. Qed.

Lemma terms_verdict r rid res :
  res <> RErr E_CANCELED -> terms r (verdict rid res) = if N.eqb r rid then 1%nat else 0%nat.
Proof.
  intros Hne. unfold verdict. destruct res as [l t|c].
  - unfold terms. cbn [filter is_term]. rewrite (N.eqb_sym rid r). destruct (r =? rid); reflexivity.
  - destruct (N.eqb_spec c E_CANCELED) as [->|E]; [congruence|]. apply terms_one_fail.
Qed.

(* settle: the request leaves the active set with a verdict, or silently if it was cancelled *)
Lemma settle_Keeps cs s p rid res :
  (res = RErr E_CANCELED -> In rid cs) ->
  Keeps cs s (fst (settle s p rid res)) (snd (settle s p rid res)).
Proof.
  intros Hc. unfold settle. destruct (memN p (peers s) && memP (p, rid) (active s)); cbn [fst snd];
    [|apply Keeps_refl].
  constructor.
  - intros r H. unfold owed, answered in *. unf. simp_sets.
    destruct (N.eq_dec r rid) as [->|Hne].
    + destruct res as [l t|c].
      * right. left. rewrite terms_verdict by discriminate. rewrite N.eqb_refl. lia.
      * destruct (N.eq_dec c E_CANCELED) as [->|E]; [right; right; apply Hc; reflexivity|].
        right. left. rewrite terms_verdict by congruence. rewrite N.eqb_refl. lia.
    + left. rewrite cnt_removeP_ne by (cbn [snd]; exact Hne). exact H.
  - intros r H. destruct (nosent_verdict rid res r H).
  - intros g H. left. exact H.
Qed.

Lemma complete_Keeps cs s f res :
  (res = RErr E_CANCELED -> In (rid_f f) cs) ->
  Keeps cs s (fst (complete s f res)) (snd (complete s f res)).
Proof.
  intros Hc. unfold complete.
  pose proof (settle_Keeps cs (set_futs s (drop_fut f (futs s))) (f_peer f) (q_rid (f_req f)) res Hc) as [K1 K2 K3].
  destruct (settle _ _ _ _) as [s' o]. cbn [fst snd] in *. constructor.
  - intros r H. apply K1. unfold owed in *. unf. simp_sets. exact H.
  - exact K2.
  - intros g H. destruct (K3 g H) as [X|X]; [|right; exact X]. simp_sets.
    unfold drop_fut in X. apply filter_In in X. left. tauto.
Qed.

Lemma complete_all_Keeps cs l : forall s res,
  res <> RErr E_CANCELED -> Keeps cs s (fst (complete_all s l res)) (snd (complete_all s l res)).
Proof.
  induction l as [|f l IH]; intros s res Hne; cbn [complete_all fst snd]; [apply Keeps_refl|].
  pose proof (complete_Keeps cs s f res (fun E => False_ind _ (Hne E))) as K.
  destruct (complete s f res) as [s1 o1]. cbn [fst snd] in K.
  specialize (IH s1 res Hne). destruct (complete_all s1 l res) as [s2 o2]. cbn [fst snd] in *.
  exact (Keeps_trans _ _ _ _ _ _ K IH).
Qed.

Lemma send_Keeps cs s p dial len tag fb ok dok sid :
  Keeps cs s (fst (h_send s p dial len tag fb ok dok sid)) (snd (h_send s p dial len tag fb ok dok sid)).
Proof.
  unfold h_send. simp_sets.
  assert (T2 : forall c, answered (next_rid s) [OSent (next_rid s); OFail (next_rid s) c]).
  { intros c. unfold answered. rewrite terms_cons_nonterm by reflexivity. rewrite terms_one_fail, N.eqb_refl. lia. }
  assert (Hs : forall o r, In (OSent r) (OSent (next_rid s) :: o) -> nosent o -> r = next_rid s).
  { intros o r [E|H] Hn; [congruence|destruct (Hn r H)]. }
  assert (N1 : forall c, nosent [OFail (next_rid s) c]) by (intros c r [H|[]]; discriminate).
  assert (N0 : nosent [OOpen sid p]) by (intros r [H|[]]; discriminate).
  assert (N0d : nosent [ODial p]) by (intros r [H|[]]; discriminate).
  destruct (memN p (peers s)); [destruct ok|destruct dial; cbn [negb]; [destruct (dial_accepted dok)|]]; cbn [fst snd];
    constructor; unfold owed in *; unf; simp_sets;
    try (intros g H; left; exact H);
    try (intros r H; left; rewrite ?map_app, ?cnt_app; lia).
  - intros r H. apply (Hs _ r H) in N0. subst. left. rewrite map_app, cnt_app. cbn [map snd]. rewrite cnt_cons, N.eqb_refl. lia.
  - intros r H. apply (Hs _ r H) in N1. subst. right. left. apply T2.
  - intros r H. apply (Hs _ r H) in N0d. subst. left. rewrite map_app, cnt_app. cbn [map rid_d snd q_rid]. rewrite cnt_cons, N.eqb_refl. lia.
  - intros r H. apply (Hs _ r H) in N1. subst. right. left. apply T2.
  - intros r H. apply (Hs _ r H) in N1. subst. right. left. apply T2.
Qed.

Lemma established_Keeps cs s p ok sid :
  Keeps cs s (fst (h_established s p ok sid)) (snd (h_established s p ok sid)).
Proof.
  unfold h_established. destruct (memN p (peers s)); cbn [fst snd]; [apply Keeps_refl|]. simp_sets.
  assert (P : forall r, (cnt r (map rid_d (filter (fun d : N * req => N.eqb (fst d) p) (dials s))) +
                         cnt r (map rid_d (filter (fun d : N * req => negb (N.eqb (fst d) p)) (dials s))) = cd r s)%nat)
    by (intros r; apply (cnt_part rid_d (fun d : N * req => fst d =? p))).
  destruct (filter (fun d : N * req => fst d =? p) (dials s)) as [|d0 mine] eqn:M.
  - cbn [fst snd]. (constructor; [| |intros g H; left; exact H]); unfold owed, answered in *; unf; simp_sets.
    + intros r H. left. specialize (P r). cbn [map] in P. rewrite cnt_nil in P. lia.
    + intros r H. destruct H.
  - pose proof (fun r => split_cnt rid_d ok (d0 :: mine) r) as Sp.
    change (fun d : N * req => OFail (q_rid (snd d)) E_SUBSTREAM) with (fun d : N * req => OFail (rid_d d) E_SUBSTREAM).
    destruct (firstn ok (d0 :: mine)) as [|x okl] eqn:F; cbn [fst snd];
      (constructor; [| |intros g H; left; exact H]); unfold owed, answered in *; unf; simp_sets.
    + intros r H. specialize (P r). specialize (Sp r). change (map rid_d []) with (@nil N) in Sp. rewrite cnt_nil in Sp.
      rewrite (terms_map_fail rid_d).
      destruct (Nat.eq_dec (cnt r (map rid_d (skipn ok (d0 :: mine)))) 0); [left; lia|right; left; lia].
    + intros r H. exfalso. exact (nosent_map_fail rid_d _ _ r H).
    + intros r H. specialize (P r). specialize (Sp r). rewrite terms_app, terms_map_open, (terms_map_fail rid_d).
      rewrite map_app, cnt_app, map_map. cbn [snd].
      change (map (fun x0 : N * req => q_rid (snd x0)) (x :: okl)) with (map rid_d (x :: okl)).
      destruct (Nat.eq_dec (cnt r (map rid_d (skipn ok (d0 :: mine)))) 0); [left; lia|right; left; lia].
    + intros r H. exfalso. apply in_app_or in H. destruct H as [H|H]; [exact (nosent_map_fail rid_d _ _ r H)|].
      apply in_map_iff in H. destruct H as [po [E _]]. discriminate.
Qed.

Lemma closed_Keeps cs s p : Keeps cs s (fst (h_closed s p)) (snd (h_closed s p)).
Proof.
  unfold h_closed. simp_sets. destruct (memN p (peers s)); cbn [fst snd].
  - pose proof (fun r => cnt_part snd (fun a : N * N => fst a =? p) r (active s)) as P.
    constructor; unfold owed, answered in *; unf; simp_sets.
    + intros r H. specialize (P r). rewrite (terms_map_fail snd).
      destruct (Nat.eq_dec (cnt r (map snd (filter (fun a : N * N => fst a =? p) (active s)))) 0);
        [left; lia|right; left; lia].
    + intros r H. exfalso. exact (nosent_map_fail snd _ _ r H).
    + intros g H. left. exact H.
  - constructor; unfold owed in *; unf; simp_sets; [intros r H; left; exact H|intros r []|intros g H; left; exact H].
Qed.

Lemma dialfail_Keeps cs s p : Keeps cs s (fst (h_dialfail s p)) (snd (h_dialfail s p)).
Proof.
  unfold h_dialfail. cbn [fst snd].
  pose proof (fun r => cnt_part rid_d (fun d : N * req => fst d =? p) r (dials s)) as P.
  constructor; unfold owed, answered in *; unf; simp_sets.
  - intros r H. specialize (P r).
    change (fun d : N * req => OFail (q_rid (snd d)) E_DIAL_FAILED) with (fun d : N * req => OFail (rid_d d) E_DIAL_FAILED).
    rewrite (terms_map_fail rid_d).
    destruct (Nat.eq_dec (cnt r (map rid_d (filter (fun d : N * req => fst d =? p) (dials s)))) 0);
      [left; lia|right; left; lia].
  - intros r H. exfalso. revert H.
    change (fun d : N * req => OFail (q_rid (snd d)) E_DIAL_FAILED) with (fun d : N * req => OFail (rid_d d) E_DIAL_FAILED).
    apply nosent_map_fail.
  - intros g H. left. exact H.
Qed.

Lemma openfail_Keeps cs s sid u : Keeps cs s (fst (h_openfail s sid u)) (snd (h_openfail s sid u)).
Proof.
  unfold h_openfail. destruct (find_po sid (pouts s)) as [po|]; cbn [fst snd]; [|apply Keeps_refl].
  constructor; unfold owed, answered in *; unf; simp_sets.
  - intros r H. destruct (N.eq_dec r (q_rid (po_req po))) as [->|Hne].
    + right. left. rewrite terms_one_fail, N.eqb_refl. lia.
    + left. rewrite cnt_removeP_ne by (cbn [snd]; exact Hne). exact H.
  - intros r [H|[]]. discriminate.
  - intros g H. left. exact H.
Qed.

Lemma Keeps_set_pouts cs s l : Keeps cs s (set_pouts s l) [].
Proof. constructor; unfold owed; unf; simp_sets; [intros r H; left; exact H|intros r []|intros g H; left; exact H]. Qed.

Lemma opened_body_Keeps cs cf0 s po c gate now neg :
  Keeps cs s (fst (opened_body cf0 s po c gate now neg)) (snd (opened_body cf0 s po c gate now neg)).
Proof.
  unfold opened_body. cbn [q_rid q_len q_tag q_fb].
  assert (Hsettle : forall res, res <> RErr E_CANCELED ->
     Keeps cs s (fst (settle (set_pouts s (drop_po po (pouts s))) (po_peer po) (q_rid (po_req po)) res))
                (snd (settle (set_pouts s (drop_po po (pouts s))) (po_peer po) (q_rid (po_req po)) res))).
  { intros res Hne. change (snd (settle (set_pouts s (drop_po po (pouts s))) (po_peer po) (q_rid (po_req po)) res))
      with ([] ++ snd (settle (set_pouts s (drop_po po (pouts s))) (po_peer po) (q_rid (po_req po)) res)).
    eapply Keeps_trans; [apply Keeps_set_pouts|apply settle_Keeps]. intros E. congruence. }
  assert (Hpush : forall g o, f_cancel g = false -> nosent o ->
     Keeps cs s (set_futs (set_pouts s (drop_po po (pouts s))) (futs (set_pouts s (drop_po po (pouts s))) ++ [g])) o).
  { intros g o Hg Hn. constructor; unfold owed; unf; simp_sets.
    - intros r H. left. exact H.
    - intros r H. destruct (Hn r H).
    - intros g' H. apply in_app_or in H. destruct H as [H|[<-|[]]]; [left; exact H|right; left; exact Hg]. }
  destruct (max_size cf0 <? _); [apply Hsettle; discriminate|].
  destruct gate as [|[g|g|]]; try (apply Hsettle; discriminate); apply Hpush; try reflexivity.
  - intros r [].
  - intros r [H|[]]. discriminate.
Qed.

Lemma Keeps_cons_quiet cs s s' x o :
  (forall r, is_term r x = false) -> (forall r, x <> OSent r) -> Keeps cs s s' o -> Keeps cs s s' (x :: o).
Proof.
  intros Hx Hs [K1 K2 K3]. constructor; unfold answered in *.
  - intros r H. rewrite terms_cons_nonterm by apply Hx. exact (K1 r H).
  - intros r [H|H]; [destruct (Hs r H)|]. rewrite terms_cons_nonterm by apply Hx. exact (K2 r H).
  - exact K3.
Qed.

Lemma opened_Keeps cs cf0 s sid c gate now neg :
  Keeps cs s (fst (h_opened cf0 s sid c gate now neg)) (snd (h_opened cf0 s sid c gate now neg)).
Proof.
  unfold h_opened. destruct (find_po sid (pouts s)) as [po|]; cbn [fst snd]; [|apply Keeps_refl].
  pose proof (opened_body_Keeps cs cf0 s po c gate now neg) as H.
  destruct (opened_body _ _ _ _ _ _ _) as [s1 o]. cbn [fst snd] in *.
  apply Keeps_cons_quiet; [reflexivity|discriminate|exact H].
Qed.

Lemma Keeps_cons_wire cs s s' c l t o : Keeps cs s s' o -> Keeps cs s s' (OWire c l t :: o).
Proof.
  intros [K1 K2 K3]. constructor; unfold answered in *.
  - intros r H. rewrite terms_cons_wire. exact (K1 r H).
  - intros r [H|H]; [discriminate|]. rewrite terms_cons_wire. exact (K2 r H).
  - exact K3.
Qed.

Lemma unblock_Keeps cs cf0 s c now :
  (forall f, In f (futs s) -> f_cancel f = true -> In (rid_f f) cs) ->
  Keeps cs s (fst (fut_unblock cf0 s c now)) (snd (fut_unblock cf0 s c now)).
Proof.
  intros G. unfold fut_unblock. destruct (find_fut c (futs s)) as [f|] eqn:F; cbn [fst snd]; [|apply Keeps_refl].
  destruct (f_wait f); cbn [fst snd]; [apply Keeps_refl|].
  destruct (f_cancel f) eqn:C.
  - pose proof (complete_Keeps cs s f (RErr E_CANCELED) (fun _ => G f (find_fut_in _ _ _ F) C)) as K.
    destruct (complete s f (RErr E_CANCELED)) as [s1 o]. cbn [fst snd] in *. apply Keeps_cons_wire. exact K.
  - cbn [fst snd]. constructor; unfold owed; unf; simp_sets.
    + intros r H. left. exact H.
    + intros r [H|[]]. discriminate.
    + intros g H. unfold to_wait in H. apply in_map_iff in H. destruct H as [g0 [E H]].
      destruct (f_chan g0 =? c); subst g; [right; left; reflexivity|left; exact H].
Qed.

Lemma breakw_Keeps cs s c : Keeps cs s (fst (fut_breakw s c)) (snd (fut_breakw s c)).
Proof.
  unfold fut_breakw. destruct (find_fut c (futs s)) as [f|]; cbn [fst snd]; [|apply Keeps_refl].
  destruct (f_wait f); cbn [fst snd]; [apply Keeps_refl|]. apply complete_Keeps. discriminate.
Qed.

Lemma fb_resp_nosent f o : nosent (fb_resp f o).
Proof.
  unfold fb_resp. destruct (f_neg f =? 0); [intros r []|].
  intros r H. apply in_flat_map in H. destruct H as [x [_ H]]. destruct x; cbn in H; try tauto.
  destruct H as [H|[]]. discriminate.
Qed.

Lemma Keeps_app_quiet cs s s' o x :
  nosent x -> (forall r, terms r x = 0%nat) -> Keeps cs s s' o -> Keeps cs s s' (o ++ x).
Proof.
  intros Hn Ht [K1 K2 K3]. constructor; unfold answered in *.
  - intros r H. rewrite terms_app, Ht. destruct (K1 r H) as [A|[A|A]]; [left; exact A|right; left; lia|right; right; exact A].
  - intros r H. apply in_app_or in H. destruct H as [H|H]; [|destruct (Hn r H)].
    rewrite terms_app, Ht. destruct (K2 r H) as [A|[A|A]]; [left; exact A|right; left; lia|right; right; exact A].
  - exact K3.
Qed.

Lemma read_Keeps cs s c res :
  res <> RErr E_CANCELED -> Keeps cs s (fst (fut_read s c res)) (snd (fut_read s c res)).
Proof.
  intros Hne. unfold fut_read. destruct (find_fut c (futs s)) as [f|]; cbn [fst snd]; [|apply Keeps_refl].
  destruct (f_wait f); cbn [fst snd]; [|apply Keeps_refl].
  pose proof (complete_Keeps cs s f res (fun E => False_ind _ (Hne E))) as K.
  destruct (complete s f res) as [s1 o]. cbn [fst snd] in *.
  apply Keeps_app_quiet; [apply fb_resp_nosent|intros r; apply fb_resp_terms|exact K].
Qed.

Lemma cancel_Keeps cs s rid : Keeps (rid :: cs) s (fst (h_cancel s rid)) (snd (h_cancel s rid)).
Proof.
  unfold h_cancel. destruct (find _ (futs s)) as [f|] eqn:F; cbn [fst snd]; [|apply Keeps_refl].
  apply find_some in F. destruct F as [Hf Hp]. apply andb_prop in Hp. destruct Hp as [Hr _]. apply N.eqb_eq in Hr.
  destruct (f_wait f); cbn [fst snd].
  - apply complete_Keeps. intros _. left. unfold rid_f. symmetry. exact Hr.
  - constructor; unfold owed; unf; simp_sets.
    + intros r H. left. exact H.
    + intros r [].
    + intros g H. unfold mark_cancel in H. apply in_map_iff in H. destruct H as [g0 [E H]].
      destruct (N.eqb_spec (q_rid (f_req g0)) rid) as [E2|E2]; subst g; [|left; exact H].
      right. right. left. unfold rid_f. cbn [f_req]. symmetry. exact E2.
Qed.

Lemma inread_nosent s c good len tag : nosent (snd (h_inread s c good len tag)).
Proof.
  unfold h_inread. destruct (find_rd c (rdrs s)) as [rd|]; cbn [fst snd]; [|intros r []].
  destruct (memN (r_peer rd) (peers _) && memP _ _); [destruct good; [destruct (r_neg rd =? 0)|]|]; cbn [fst snd];
    intros r H; cbn in H; repeat destruct H as [H|H]; try discriminate; auto.
Qed.

Lemma uresp_nosent cf0 s irid len tag fb gate now : nosent (snd (h_uresp cf0 s irid len tag fb gate now)).
Proof.
  unfold h_uresp, feed. destruct (find_rs irid (rsps s)) as [rs|]; cbn [fst snd]; [|intros r []].
  destruct (s_w rs); cbn [fst snd]; [intros r []|].
  destruct fb; (destruct (max_size cf0 <? len); [|destruct gate as [|[g|g|]]]); cbn [fst snd];
    intros r H; cbn in H; repeat destruct H as [H|H]; try discriminate; auto.
Qed.

Lemma rsp_gate_nosent s c ok : nosent (snd (rsp_gate s c ok)).
Proof.
  unfold rsp_gate. destruct (find _ (rsps s)) as [rs|]; cbn [fst snd]; [|intros r []].
  destruct (s_w rs) as [[[l t] d]|]; cbn [fst snd]; [|intros r []].
  unfold feed. destruct ok; destruct (s_fb rs); intros r H; cbn in H; repeat destruct H as [H|H]; try discriminate; auto.
Qed.

Lemma adv_out_nosent s now : nosent (rsp_advance_out s now).
Proof.
  unfold rsp_advance_out. intros r H. apply in_flat_map in H. destruct H as [a [_ H]].
  destruct (s_w a) as [[[x y] d]|]; [|destruct H]. destruct (d <=? now); [|destruct H].
  unfold feed in H. destruct (s_fb a); [|destruct H]. destruct H as [H|[]]. discriminate.
Qed.

Definition cs_step (cs : list N) (e : ev) : list N :=
  match e with ECancel r => r :: cs | _ => cs end.

Lemma Keeps_app_nil cs s s' o : Keeps cs s s' (o ++ []) -> Keeps cs s s' o.
Proof. rewrite app_nil_r. auto. Qed.

Lemma step_Keeps cf0 s en e cs :
  (forall f, In f (futs s) -> f_cancel f = true -> In (rid_f f) cs) ->
  Keeps (cs_step cs e) s (fst (fst (fst (step cf0 (s, en) e)))) (snd (fst (step cf0 (s, en) e))).
Proof.
  intros G. destruct e; cbn [step cs_step].
  - match goal with |- context [h_send s p dial len tag ?fb0 ?a0 ?b0 ?c0] => pose proof (send_Keeps cs s p dial len tag fb0 a0 b0 c0) as H end.
    destruct (h_send _ _ _ _ _ _ _ _ _) as [s1 o]. exact H.
  - pose proof (cancel_Keeps cs s rid) as H. destruct (h_cancel s rid) as [s1 o]. exact H.
  - destruct (conn_of p en); cbn [fst snd]; [apply Keeps_refl|].
    match goal with |- context [h_established s p ?n ?sd] => pose proof (established_Keeps cs s p n sd) as H end.
    destruct (h_established _ _ _ _) as [s1 o]. exact H.
  - destruct (conn_of p en); cbn [fst snd]; [|apply Keeps_refl].
    pose proof (closed_Keeps cs s p) as H. destruct (h_closed s p) as [s1 o]. exact H.
  - pose proof (dialfail_Keeps cs s p) as H. destruct (h_dialfail s p) as [s1 o]. exact H.
  - destruct (nth_mod k (opens en)) as [[sid q]|]; cbn [fst snd]; [|apply Keeps_refl].
    pose proof (opened_Keeps cs cf0 s sid (N.of_nat (length (chans en))) (N.min gate 2) (now en) neg) as H.
    destruct (h_opened _ _ _ _ _ _ _) as [s1 o]. exact H.
  - destruct (nth_mod k (opens en)) as [[sid q]|]; cbn [fst snd]; [|apply Keeps_refl].
    pose proof (openfail_Keeps cs s sid unsupported) as H. destruct (h_openfail _ _ _) as [s1 o]. exact H.
  - destruct (chans en) as [|ch0 chs] eqn:CH; cbn [fst snd]; [apply Keeps_refl|].
    destruct (nth_error _ _) as [ch|]; cbn [fst snd]; [|apply Keeps_refl].
    destruct (c_gate ch =? 0); cbn [fst snd]; [|apply Keeps_refl].
    pose proof (unblock_Keeps cs cf0 s (k mod N.of_nat (length (ch0 :: chs))) (now en) G) as H.
    destruct (fut_unblock _ _ _ _) as [s1 o1]. cbn [fst snd] in H.
    pose proof (rsp_gate_same s1 (k mod N.of_nat (length (ch0 :: chs))) true) as [H2 _].
    pose proof (rsp_gate_nosent s1 (k mod N.of_nat (length (ch0 :: chs))) true) as N2.
    destruct (rsp_gate _ _ _) as [s2 o2]. cbn [fst snd] in *.
    exact (Keeps_trans _ _ _ _ _ _ H (Keeps_same cs _ _ _ H2 N2)).
  - destruct (chans en) as [|ch0 chs] eqn:CH; cbn [fst snd]; [apply Keeps_refl|].
    destruct (nth_error _ _) as [ch|]; cbn [fst snd]; [|apply Keeps_refl].
    destruct (c_gate ch =? 2); cbn [fst snd]; [apply Keeps_refl|].
    pose proof (breakw_Keeps cs s (k mod N.of_nat (length (ch0 :: chs)))) as H.
    destruct (fut_breakw _ _) as [s1 o1]. cbn [fst snd] in H.
    pose proof (rsp_gate_same s1 (k mod N.of_nat (length (ch0 :: chs))) false) as [H2 _].
    pose proof (rsp_gate_nosent s1 (k mod N.of_nat (length (ch0 :: chs))) false) as N2.
    destruct (rsp_gate _ _ _) as [s2 o2]. cbn [fst snd] in *.
    exact (Keeps_trans _ _ _ _ _ _ H (Keeps_same cs _ _ _ H2 N2)).
  - destruct (chans en) as [|ch0 chs] eqn:CH; cbn [fst snd]; [apply Keeps_refl|].
    destruct (nth_error _ _) as [ch|]; cbn [fst snd]; [|apply Keeps_refl].
    destruct (c_out ch && c_seen ch); cbn [fst snd]; [|apply Keeps_refl].
    match goal with |- context [fut_read s ?c ?r] =>
      assert (Hne : r <> RErr E_CANCELED) by (destruct (len <=? max_size cf0); discriminate);
      pose proof (read_Keeps cs s c r Hne) as H; destruct (fut_read s c r) as [s1 o] end. exact H.
  - destruct (chans en) as [|ch0 chs] eqn:CH; cbn [fst snd]; [apply Keeps_refl|].
    destruct (nth_error _ _) as [ch|]; cbn [fst snd]; [|apply Keeps_refl].
    destruct (c_out ch); [destruct (c_seen ch)|]; cbn [fst snd]; try apply Keeps_refl.
    + match goal with |- context [fut_read s ?c ?r] =>
        assert (Hne : r <> RErr E_CANCELED) by discriminate;
        pose proof (read_Keeps cs s c r Hne) as H; destruct (fut_read s c r) as [s1 o] end. exact H.
    + match goal with |- context [h_inread s ?c ?g ?l ?t] =>
        pose proof (inread_same s c g l t) as [H _]; pose proof (inread_nosent s c g l t) as Hn;
        destruct (h_inread s c g l t) as [s1 o] end.
      exact (Keeps_same cs _ _ _ H Hn).
  - destruct (chans en) as [|ch0 chs] eqn:CH; cbn [fst snd]; [apply Keeps_refl|].
    destruct (nth_error _ _) as [ch|]; cbn [fst snd]; [|apply Keeps_refl].
    destruct (c_out ch); [destruct (c_seen ch)|]; cbn [fst snd]; try apply Keeps_refl.
    + match goal with |- context [fut_read s ?c ?r] =>
        assert (Hne : r <> RErr E_CANCELED) by discriminate;
        pose proof (read_Keeps cs s c r Hne) as H; destruct (fut_read s c r) as [s1 o] end. exact H.
    + match goal with |- context [h_inread s ?c ?g ?l ?t] =>
        pose proof (inread_same s c g l t) as [H _]; pose proof (inread_nosent s c g l t) as Hn;
        destruct (h_inread s c g l t) as [s1 o] end.
      exact (Keeps_same cs _ _ _ H Hn).
  - assert (Hne : RErr E_TIMEOUT <> RErr E_CANCELED) by discriminate.
    pose proof (complete_all_Keeps cs (filter (fun f => f_dl f <=? now en + dt) (futs s)) s _ Hne) as H.
    unfold fut_advance. destruct (complete_all _ _ _) as [s1 o]. cbn [fst snd] in *.
    eapply Keeps_trans; [exact H|]. apply Keeps_same; [|apply adv_out_nosent].
    unfold rsp_advance, same_ledger. simp_sets. repeat split; try lia; try reflexivity.
  - destruct (conn_of p en); cbn [fst snd]; [|apply Keeps_refl].
    pose proof (inopen_same cf0 s p (N.of_nat (length (chans en))) neg) as [H T].
    destruct (h_inopen _ _ _ _ _) as [s1 o]. cbn [fst snd] in *. subst o.
    apply Keeps_same; [exact H|intros r []].
  - destruct (chans en) as [|ch0 chs] eqn:CH; cbn [fst snd]; [apply Keeps_refl|].
    destruct (nth_error _ _) as [ch|]; cbn [fst snd]; [|apply Keeps_refl].
    destruct (negb (c_out ch)); cbn [fst snd]; [|apply Keeps_refl].
    match goal with |- context [h_inread s ?c ?g ?l ?t] =>
      pose proof (inread_same s c g l t) as [H _]; pose proof (inread_nosent s c g l t) as Hn;
      destruct (h_inread s c g l t) as [s1 o] end.
    exact (Keeps_same cs _ _ _ H Hn).
  - destruct (nth_mod k (hpend en)) as [irid|]; cbn [fst snd]; [|apply Keeps_refl].
    match goal with |- context [h_uresp cf0 s ?a ?b ?c ?f ?d ?e] =>
      pose proof (uresp_same cf0 s a b c f d e) as [H _]; pose proof (uresp_nosent cf0 s a b c f d e) as Hn;
      destruct (h_uresp cf0 s a b c f d e) as [s1 o] end.
    exact (Keeps_same cs _ _ _ H Hn).
  - destruct (nth_mod k (hpend en)) as [irid|]; cbn [fst snd]; [|apply Keeps_refl].
    unfold h_urej. cbn [fst snd]. apply Keeps_same; [|intros r []].
    unfold same_ledger. simp_sets. repeat split; try lia; try reflexivity.
  - cbn [fst snd]. apply Keeps_refl.
  - unfold h_burn. cbn [fst snd]. apply Keeps_same; [|intros r []]. unfold same_ledger; simp_sets; repeat split; try lia; try reflexivity.
  - cbn [fst snd]. apply Keeps_refl.
  - cbn [fst snd]. apply Keeps_refl.
  - cbn [fst snd]. apply Keeps_refl.
  - cbn [fst snd]. apply Keeps_refl.
Qed.

Definition cancel_reqs (evs : list ev) : list N :=
  flat_map (fun e => match e with ECancel r => [r] | _ => [] end) evs.

Lemma run_Inv2 cf0 evs : forall st tr cs,
  Inv2 cs (fst st) tr ->
  exists cs', Inv2 cs' (fst (fst (run cf0 st evs))) (tr ++ snd (run cf0 st evs)) /\
              (forall r, In r cs' -> In r cs \/ In r (cancel_reqs evs)).
Proof.
  induction evs as [|e evs IH]; intros [s en] tr cs I2; cbn [run fst snd].
  - exists cs. rewrite app_nil_r. split; [exact I2|auto].
  - pose proof (step_Keeps cf0 s en e cs (inv_cancel _ _ _ I2)) as K.
    destruct (step cf0 (s, en) e) as [[st1 o] tg]. cbn [fst snd] in K.
    assert (Hi : incl cs (cs_step cs e)) by (destruct e; cbn [cs_step]; try apply incl_refl; apply incl_tl, incl_refl).
    pose proof (Keeps_Inv2 _ _ _ _ _ _ I2 K Hi) as I2'.
    destruct (IH st1 (tr ++ o) _ I2') as [cs' [J Hc]].
    destruct (run cf0 st1 evs) as [st2 o2]. cbn [fst snd] in *.
    exists cs'. rewrite app_assoc. split; [exact J|].
    intros r Hr. destruct (Hc r Hr) as [H|H].
    + destruct e; cbn [cs_step cancel_reqs flat_map] in *; try (left; exact H); try (right; exact H).
      destruct H as [<-|H]; [right; left; reflexivity|left; exact H].
    + right. cbn [cancel_reqs flat_map]. apply in_or_app. right. exact H.
Qed.

Lemma Inv2_init : Inv2 [] init_pst [].
Proof. constructor; [intros r []|intros f []]. Qed.

(* Nothing is owed: no request waits for a dial and no request is active at any peer. *)
Definition settled (s : pst) : Prop := dials s = [] /\ active s = [].

Theorem exactly_one_settled cf0 evs r :
  let res := run cf0 (init_pst, init_env) evs in
  settled (fst (fst res)) ->
  In (OSent r) (snd res) ->
  terms r (snd res) = 1%nat \/ In r (cancel_reqs evs).
Proof.
  intros res [Hd Ha] Hs.
  destruct (run_Inv2 cf0 evs (init_pst, init_env) [] [] Inv2_init) as [cs' [J Hc]].
  cbn [app] in J. fold res in J.
  pose proof (at_most_one cf0 evs r) as M. fold res in M.
  destruct (inv_sent _ _ _ J r Hs) as [A|[A|A]].
  - exfalso. unfold owed, cd, ca in A. rewrite Hd, Ha in A. cbn in A. lia.
  - left. unfold answered in A. lia.
  - right. destruct (Hc r A) as [[]|H]. exact H.
Qed.

(* ------------------------------------------------------------------ inbound bound *)

Definition same_io (s s' : pst) : Prop := rdrs s' = rdrs s /\ rsps s' = rsps s.

Ltac io_crush :=
  repeat match goal with
         | |- context [match ?x with _ => _ end] => destruct x
         end; cbn; split; reflexivity.

Lemma settle_io s p rid res : same_io s (fst (settle s p rid res)).
Proof. unfold settle, same_io. io_crush. Qed.
Lemma complete_io s f res : same_io s (fst (complete s f res)).
Proof. unfold complete. destruct (settle_io (set_futs s (drop_fut f (futs s))) (f_peer f) (q_rid (f_req f)) res) as [A B].
  split; [rewrite A|rewrite B]; reflexivity. Qed.
Lemma complete_all_io l : forall s res, same_io s (fst (complete_all s l res)).
Proof.
  induction l as [|f l IH]; intros s res; cbn [complete_all fst]; [split; reflexivity|].
  pose proof (complete_io s f res) as [A B]. destruct (complete s f res) as [s1 o1]. cbn [fst] in *.
  pose proof (IH s1 res) as [C D]. destruct (complete_all s1 l res) as [s2 o2]. cbn [fst] in *.
  split; congruence.
Qed.
Lemma send_io s p dial len tag fb ok dok sid : same_io s (fst (h_send s p dial len tag fb ok dok sid)).
Proof. unfold h_send, same_io. io_crush. Qed.
Lemma established_io s p ok sid : same_io s (fst (h_established s p ok sid)).
Proof. unfold h_established, same_io. io_crush. Qed.
Lemma closed_io s p : same_io s (fst (h_closed s p)).
Proof. unfold h_closed, same_io. io_crush. Qed.
Lemma dialfail_io s p : same_io s (fst (h_dialfail s p)).
Proof. unfold h_dialfail, same_io. cbn. split; reflexivity. Qed.
Lemma openfail_io s sid u : same_io s (fst (h_openfail s sid u)).
Proof. unfold h_openfail, same_io. io_crush. Qed.
Lemma opened_io cf0 s sid c gate now neg : same_io s (fst (h_opened cf0 s sid c gate now neg)).
Proof.
  unfold h_opened. destruct (find_po sid (pouts s)) as [po|]; [|split; reflexivity].
  assert (B : same_io s (fst (opened_body cf0 s po c gate now neg))).
  { unfold opened_body. cbn [q_rid q_len q_tag q_fb].
    assert (H : forall res, same_io s (fst (settle (set_pouts s (drop_po po (pouts s))) (po_peer po) (q_rid (po_req po)) res))).
    { intros res. destruct (settle_io (set_pouts s (drop_po po (pouts s))) (po_peer po) (q_rid (po_req po)) res) as [A B].
      split; [rewrite A|rewrite B]; reflexivity. }
    destruct (max_size cf0 <? _); [apply H|].
    destruct gate as [|[g|g|]]; try apply H; split; reflexivity. }
  destruct (opened_body _ _ _ _ _ _ _) as [s1 o]. exact B.
Qed.
Lemma unblock_io cf0 s c now : same_io s (fst (fut_unblock cf0 s c now)).
Proof.
  unfold fut_unblock. destruct (find_fut c (futs s)) as [f|]; [|split; reflexivity].
  destruct (f_wait f); [split; reflexivity|]. destruct (f_cancel f); [|split; reflexivity].
  pose proof (complete_io s f (RErr E_CANCELED)) as H. destruct (complete s f _) as [s1 o]. exact H.
Qed.
Lemma breakw_io s c : same_io s (fst (fut_breakw s c)).
Proof.
  unfold fut_breakw. destruct (find_fut c (futs s)) as [f|]; [|split; reflexivity].
  destruct (f_wait f); [split; reflexivity|apply complete_io].
Qed.
Lemma read_io s c res : same_io s (fst (fut_read s c res)).
Proof.
  unfold fut_read. destruct (find_fut c (futs s)) as [f|]; [|split; reflexivity].
  destruct (f_wait f); [|split; reflexivity].
  pose proof (complete_io s f res) as H. destruct (complete s f res) as [s1 o]. exact H.
Qed.
Lemma cancel_io s rid : same_io s (fst (h_cancel s rid)).
Proof.
  unfold h_cancel. destruct (find _ (futs s)) as [f|]; [|split; reflexivity].
  destruct (f_wait f); [apply complete_io|split; reflexivity].
Qed.

Definition load_ok (cf0 : cfg) (s : pst) : Prop :=
  match max_inb cf0 with Some m => inbound_load s <= m | None => True end.

Lemma load_same_io cf0 s s' : same_io s s' -> load_ok cf0 s -> load_ok cf0 s'.
Proof. intros [A B]. unfold load_ok, inbound_load. rewrite A, B. auto. Qed.

Lemma load_le cf0 s s' : inbound_load s' <= inbound_load s -> load_ok cf0 s -> load_ok cf0 s'.
Proof. unfold load_ok. destruct (max_inb cf0); [lia|auto]. Qed.

Lemma filter_len {A} (g : A -> bool) l : (length (filter g l) <= length l)%nat.
Proof. induction l as [|a l IH]; cbn; [lia|destruct (g a); cbn; lia]. Qed.

Lemma inopen_load cf0 s p c neg : load_ok cf0 s -> load_ok cf0 (fst (h_inopen cf0 s p c neg)).
Proof.
  unfold h_inopen, load_ok. destruct (max_inb cf0) as [m|] eqn:M; [|auto].
  destruct (m <=? inbound_load s) eqn:E; cbn [fst]; [auto|]. apply N.leb_gt in E.
  simp_sets. destruct (memN p (peers s)); cbn [fst]; unfold inbound_load in *; simp_sets; intros H;
    rewrite ?app_length; cbn [length]; lia.
Qed.

Lemma find_drop_len {A} (g : A -> bool) l x :
  find g l = Some x -> (S (length (filter (fun y => negb (g y)) l)) <= length l)%nat.
Proof.
  induction l as [|a l IH]; [discriminate|]. cbn [find filter]. destruct (g a); cbn [negb].
  - intros _. pose proof (filter_len (fun y => negb (g y)) l). cbn [length]. lia.
  - intros H. specialize (IH H). cbn [length]. lia.
Qed.

Lemma inread_load cf0 s c good len tag : load_ok cf0 s -> load_ok cf0 (fst (h_inread s c good len tag)).
Proof.
  unfold h_inread. destruct (find_rd c (rdrs s)) as [rd|] eqn:F; cbn [fst]; [|auto].
  pose proof (find_drop_len _ _ _ F) as L. apply load_le.
  simp_sets. destruct (memN (r_peer rd) (peers s) && memP _ _); [destruct good|]; cbn [fst];
    unfold inbound_load, drop_rd in *; simp_sets; rewrite ?app_length; cbn [length]; lia.
Qed.

Lemma uresp_load cf0 s irid len tag fb gate now : load_ok cf0 s -> load_ok cf0 (fst (h_uresp cf0 s irid len tag fb gate now)).
Proof.
  unfold h_uresp, feed. destruct (find_rs irid (rsps s)) as [rs|]; cbn [fst]; [|auto].
  destruct (s_w rs); cbn [fst]; [auto|]. apply load_le.
  pose proof (filter_len (fun r => negb (s_irid r =? irid)) (rsps s)).
  destruct fb; (destruct (max_size cf0 <? len); [|destruct gate as [|[g|g|]]]); cbn [fst]; unfold inbound_load, drop_rs in *; simp_sets;
    rewrite ?map_length; lia.
Qed.

Lemma rsp_gate_load cf0 s c ok : load_ok cf0 s -> load_ok cf0 (fst (rsp_gate s c ok)).
Proof.
  unfold rsp_gate. destruct (find _ (rsps s)) as [rs|]; cbn [fst]; [|auto].
  destruct (s_w rs) as [[[l t] d]|]; cbn [fst]; [|auto]. apply load_le.
  pose proof (filter_len (fun r => negb (s_irid r =? s_irid rs)) (rsps s)).
  unfold inbound_load, drop_rs in *; simp_sets; lia.
Qed.

Lemma step_load cf0 s en e :
  load_ok cf0 s -> load_ok cf0 (fst (fst (fst (step cf0 (s, en) e)))).
Proof.
  intros L. destruct e; cbn [step].
  - match goal with |- context [h_send s p dial len tag ?fb0 ?a0 ?b0 ?c0] => pose proof (send_io s p dial len tag fb0 a0 b0 c0) as H end.
    destruct (h_send _ _ _ _ _ _ _ _ _) as [s1 o]. exact (load_same_io _ _ _ H L).
  - pose proof (cancel_io s rid) as H. destruct (h_cancel s rid) as [s1 o]. exact (load_same_io _ _ _ H L).
  - destruct (conn_of p en); cbn [fst]; [exact L|].
    match goal with |- context [h_established s p ?n ?sd] => pose proof (established_io s p n sd) as H end.
    destruct (h_established _ _ _ _) as [s1 o]. exact (load_same_io _ _ _ H L).
  - destruct (conn_of p en); cbn [fst]; [|exact L].
    pose proof (closed_io s p) as H. destruct (h_closed s p) as [s1 o]. exact (load_same_io _ _ _ H L).
  - pose proof (dialfail_io s p) as H. destruct (h_dialfail s p) as [s1 o]. exact (load_same_io _ _ _ H L).
  - destruct (nth_mod k (opens en)) as [[sid q]|]; cbn [fst]; [|exact L].
    pose proof (opened_io cf0 s sid (N.of_nat (length (chans en))) (N.min gate 2) (now en) neg) as H.
    destruct (h_opened _ _ _ _ _ _ _) as [s1 o]. exact (load_same_io _ _ _ H L).
  - destruct (nth_mod k (opens en)) as [[sid q]|]; cbn [fst]; [|exact L].
    pose proof (openfail_io s sid unsupported) as H. destruct (h_openfail _ _ _) as [s1 o]. exact (load_same_io _ _ _ H L).
  - destruct (chans en) as [|ch0 chs] eqn:CH; cbn [fst]; [exact L|].
    destruct (nth_error _ _) as [ch|]; cbn [fst]; [|exact L].
    destruct (c_gate ch =? 0); cbn [fst]; [|exact L].
    pose proof (unblock_io cf0 s (k mod N.of_nat (length (ch0 :: chs))) (now en)) as H.
    destruct (fut_unblock _ _ _ _) as [s1 o1].
    pose proof (rsp_gate_load cf0 s1 (k mod N.of_nat (length (ch0 :: chs))) true (load_same_io _ _ _ H L)) as H2.
    destruct (rsp_gate _ _ _) as [s2 o2]. exact H2.
  - destruct (chans en) as [|ch0 chs] eqn:CH; cbn [fst]; [exact L|].
    destruct (nth_error _ _) as [ch|]; cbn [fst]; [|exact L].
    destruct (c_gate ch =? 2); cbn [fst]; [exact L|].
    pose proof (breakw_io s (k mod N.of_nat (length (ch0 :: chs)))) as H.
    destruct (fut_breakw _ _) as [s1 o1].
    pose proof (rsp_gate_load cf0 s1 (k mod N.of_nat (length (ch0 :: chs))) false (load_same_io _ _ _ H L)) as H2.
    destruct (rsp_gate _ _ _) as [s2 o2]. exact H2.
  - destruct (chans en) as [|ch0 chs] eqn:CH; cbn [fst]; [exact L|].
    destruct (nth_error _ _) as [ch|]; cbn [fst]; [|exact L].
    destruct (c_out ch && c_seen ch); cbn [fst]; [|exact L].
    match goal with |- context [fut_read s ?c ?r] =>
      pose proof (read_io s c r) as H; destruct (fut_read s c r) as [s1 o] end. exact (load_same_io _ _ _ H L).
  - destruct (chans en) as [|ch0 chs] eqn:CH; cbn [fst]; [exact L|].
    destruct (nth_error _ _) as [ch|]; cbn [fst]; [|exact L].
    destruct (c_out ch); [destruct (c_seen ch)|]; cbn [fst]; try exact L.
    + match goal with |- context [fut_read s ?c ?r] =>
        pose proof (read_io s c r) as H; destruct (fut_read s c r) as [s1 o] end. exact (load_same_io _ _ _ H L).
    + match goal with |- context [h_inread s ?c ?g ?l ?t] =>
        pose proof (inread_load cf0 s c g l t L) as H; destruct (h_inread s c g l t) as [s1 o] end. exact H.
  - destruct (chans en) as [|ch0 chs] eqn:CH; cbn [fst]; [exact L|].
    destruct (nth_error _ _) as [ch|]; cbn [fst]; [|exact L].
    destruct (c_out ch); [destruct (c_seen ch)|]; cbn [fst]; try exact L.
    + match goal with |- context [fut_read s ?c ?r] =>
        pose proof (read_io s c r) as H; destruct (fut_read s c r) as [s1 o] end. exact (load_same_io _ _ _ H L).
    + match goal with |- context [h_inread s ?c ?g ?l ?t] =>
        pose proof (inread_load cf0 s c g l t L) as H; destruct (h_inread s c g l t) as [s1 o] end. exact H.
  - pose proof (complete_all_io (filter (fun f => f_dl f <=? now en + dt) (futs s)) s (RErr E_TIMEOUT)) as H.
    unfold fut_advance. destruct (complete_all _ _ _) as [s1 o]. cbn [fst] in *.
    apply (load_le cf0 s1); [|exact (load_same_io _ _ _ H L)].
    unfold rsp_advance, inbound_load. simp_sets.
    pose proof (filter_len (fun r => match s_w r with Some (_, _, dl) => negb (dl <=? now en + dt) | None => true end) (rsps s1)).
    lia.
  - destruct (conn_of p en); cbn [fst]; [|exact L].
    pose proof (inopen_load cf0 s p (N.of_nat (length (chans en))) neg L) as H.
    destruct (h_inopen _ _ _ _ _) as [s1 o]. exact H.
  - destruct (chans en) as [|ch0 chs] eqn:CH; cbn [fst]; [exact L|].
    destruct (nth_error _ _) as [ch|]; cbn [fst]; [|exact L].
    destruct (negb (c_out ch)); cbn [fst]; [|exact L].
    match goal with |- context [h_inread s ?c ?g ?l ?t] =>
      pose proof (inread_load cf0 s c g l t L) as H; destruct (h_inread s c g l t) as [s1 o] end. exact H.
  - destruct (nth_mod k (hpend en)) as [irid|]; cbn [fst]; [|exact L].
    match goal with |- context [h_uresp cf0 s ?a ?b ?c ?f ?d ?e] =>
      pose proof (uresp_load cf0 s a b c f d e L) as H; destruct (h_uresp cf0 s a b c f d e) as [s1 o] end. exact H.
  - destruct (nth_mod k (hpend en)) as [irid|]; cbn [fst]; [|exact L].
    unfold h_urej. cbn [fst]. apply (load_le cf0 s); [|exact L].
    unfold inbound_load, drop_rs. simp_sets. pose proof (filter_len (fun r => negb (s_irid r =? irid)) (rsps s)). lia.
  - cbn [fst]. exact L.
  - unfold h_burn. cbn [fst]. exact L.
  - cbn [fst]. exact L.
  - cbn [fst]. exact L.
  - cbn [fst]. exact L.
  - cbn [fst]. exact L.
Qed.

Theorem inbound_bound cf0 evs :
  load_ok cf0 (fst (fst (run cf0 (init_pst, init_env) evs))).
Proof.
  assert (H : forall st, load_ok cf0 (fst st) -> load_ok cf0 (fst (fst (run cf0 st evs)))).
  { induction evs as [|e evs IH]; intros [s en] L; cbn [run fst]; [exact L|].
    pose proof (step_load cf0 s en e L) as H. destruct (step cf0 (s, en) e) as [[st1 o] tg]. cbn [fst] in H.
    specialize (IH st1 H). destruct (run cf0 st1 evs) as [st2 o2]. exact IH. }
  apply H. unfold load_ok. cbn. destruct (max_inb cf0); [apply N.le_0_l|exact I].
Qed.

(* ------------------------------------------------------------------ the missing link:
   a request that is active at a peer has a substream being opened or a future in flight *)

Definition covered (s : pst) (x : N * N) : Prop :=
  (exists po, In po (pouts s) /\ (po_peer po, rid_po po) = x) \/
  (exists f, In f (futs s) /\ (f_peer f, rid_f f) = x).

Record Inv3 (s : pst) : Prop := mkInv3 {
  inv_cov : forall x, In x (active s) -> covered s x;
  inv_peer : forall x, In x (active s) -> In (fst x) (peers s)
}.

Lemma Inv3_init : Inv3 init_pst.
Proof. constructor; intros x []. Qed.

(* an id that occurs at most once identifies its entry *)
Lemma cnt_le1_eq {A} (f : A -> N) l x y :
  (cnt (f x) (map f l) <= 1)%nat -> In x l -> In y l -> f y = f x -> x = y.
Proof.
  induction l as [|a l IH]; [intros _ []|].
  cbn [map In]. rewrite cnt_cons. intros C [Hx|Hx] [Hy|Hy] E.
  - congruence.
  - subst a. rewrite N.eqb_refl in C.
    assert (1 <= cnt (f x) (map f l))%nat by (apply cnt_pos_in; rewrite <- E; apply in_map; exact Hy). lia.
  - subst a. rewrite E, N.eqb_refl in C.
    assert (1 <= cnt (f x) (map f l))%nat by (apply cnt_pos_in; apply in_map; exact Hx). lia.
  - apply IH; auto. destruct (f x =? f a); lia.
Qed.

Lemma po_unique s tr po po' :
  Inv s tr -> In po (pouts s) -> In po' (pouts s) -> rid_po po' = rid_po po -> po = po'.
Proof.
  intros I H1 H2 E. apply (cnt_le1_eq rid_po (pouts s)); auto.
  pose proof (inv_ctx _ _ I (rid_po po)). unf. lia.
Qed.

Lemma fut_unique s tr f g :
  Inv s tr -> In f (futs s) -> In g (futs s) -> rid_f g = rid_f f -> f = g.
Proof.
  intros I H1 H2 E. apply (cnt_le1_eq rid_f (futs s)); auto.
  pose proof (inv_ctx _ _ I (rid_f f)). unf. lia.
Qed.

Lemma covered_mono s s' x :
  (forall po, In po (pouts s) -> In po (pouts s')) ->
  (forall f, In f (futs s) -> exists g, In g (futs s') /\ (f_peer g, rid_f g) = (f_peer f, rid_f f)) ->
  covered s x -> covered s' x.
Proof.
  intros HP HF [[po [H E]]|[f [H E]]].
  - left. exists po. split; [apply HP; exact H|exact E].
  - right. destruct (HF f H) as [g [Hg Eg]]. exists g. split; [exact Hg|congruence].
Qed.

Lemma self_fut s f : In f (futs s) -> exists g, In g (futs s) /\ (f_peer g, rid_f g) = (f_peer f, rid_f f).
Proof. intros H. exists f. auto. Qed.

(* ---- settle / complete ---- *)
Lemma settle_Inv3 s p rid res :
  Inv3 s -> Inv3 (fst (settle s p rid res)).
Proof.
  intros [C P]. unfold settle. destruct (memN p (peers s) && memP (p, rid) (active s)); cbn [fst]; [|constructor; auto].
  constructor; simp_sets.
  - intros x H. apply in_removeP in H. destruct H as [H _].
    eapply covered_mono; [| |exact (C x H)]; simp_sets; auto using self_fut.
  - intros x H. apply in_removeP in H. exact (P x (proj1 H)).
Qed.

Lemma complete_Inv3 s tr f res :
  Inv s tr -> Inv3 s -> (forall g, In g (futs s) -> rid_f g = rid_f f -> g = f) ->
  Inv3 (fst (complete s f res)).
Proof.
  intros I [C P] U. unfold complete, settle. simp_sets.
  assert (Hcov : forall x, In x (active s) -> x <> (f_peer f, rid_f f) ->
                           covered (set_futs s (drop_fut f (futs s))) x).
  { intros x H Hne. destruct (C x H) as [[po [Hpo E]]|[g [Hg E]]].
    - left. exists po. simp_sets. auto.
    - right. exists g. simp_sets. split; [|exact E]. unfold drop_fut. apply filter_In. split; [exact Hg|].
      destruct (N.eqb_spec (q_rid (f_req g)) (q_rid (f_req f))) as [E2|E2]; [|reflexivity].
      exfalso. apply Hne. rewrite <- E. rewrite (U g Hg E2). reflexivity. }
  destruct (memN (f_peer f) (peers s) && memP (f_peer f, q_rid (f_req f)) (active s)) eqn:Cond; cbn [fst].
  - constructor; simp_sets.
    + intros x H. apply in_removeP in H. destruct H as [H Hne].
      destruct (Hcov x H Hne) as [[po [Hpo E]]|[g [Hg E]]]; [left; exists po|right; exists g]; simp_sets; auto.
    + intros x H. apply in_removeP in H. exact (P x (proj1 H)).
  - constructor; simp_sets; [|exact P].
    intros x H. destruct (pair_eqb_spec x (f_peer f, rid_f f)) as [->|Hne].
    + exfalso. apply andb_false_iff in Cond. destruct Cond as [Cond|Cond].
      * pose proof (P _ H) as Hp. cbn [fst] in Hp. apply memN_in in Hp. congruence.
      * apply memP_in in H. unfold rid_f in H. congruence.
    + destruct (Hcov x H Hne) as [[po [Hpo E]]|[g [Hg E]]]; [left; exists po|right; exists g]; simp_sets; auto.
Qed.

Lemma complete_futs_sub s f res g : In g (futs (fst (complete s f res))) -> In g (futs s).
Proof. pose proof (complete_Moves s f res) as C. destruct (complete s f res) as [s' o]. cbn [fst]. apply C. Qed.

Lemma complete_all_Inv3 l : forall s tr res,
  Inv s tr -> Inv3 s ->
  (forall f po, In f l -> In po (pouts s) -> rid_po po <> rid_f f) ->
  (forall f g, In f l -> In g (futs s) -> rid_f g = rid_f f -> g = f) ->
  Inv3 (fst (complete_all s l res)).
Proof.
  induction l as [|f l IH]; intros s tr res I I3 H U; cbn [complete_all fst]; [exact I3|].
  pose proof (complete_Inv3 s tr f res I I3 (fun g Hg E => U f g (or_introl eq_refl) Hg E)) as J3.
  destruct (complete_Inv s tr f res I (fun po Hpo => H f po (or_introl eq_refl) Hpo)) as [I1 P1].
  pose proof (complete_futs_sub s f res) as FS.
  destruct (complete s f res) as [s1 o1]. cbn [fst snd] in *.
  specialize (IH s1 (tr ++ o1) res I1 J3).
  destruct (complete_all s1 l res) as [s2 o2]. cbn [fst] in *. apply IH.
  - intros g po Hg Hpo. rewrite P1 in Hpo. apply (H g po); [right; exact Hg|exact Hpo].
  - intros g h Hg Hh E. apply (U g h); [right; exact Hg|apply FS; exact Hh|exact E].
Qed.

(* ---- the handlers ---- *)
Lemma send_Inv3 s p dial len tag fb ok dok sid :
  Inv3 s -> Inv3 (fst (h_send s p dial len tag fb ok dok sid)).
Proof.
  intros [C P]. unfold h_send. simp_sets.
  destruct (memN p (peers s)) eqn:Mp; [destruct ok|destruct dial; cbn [negb]; [destruct (dial_accepted dok)|]]; cbn [fst];
    try (constructor; simp_sets; [intros x H; eapply covered_mono; [| |exact (C x H)]; simp_sets; auto using self_fut|exact P]).
  constructor; simp_sets.
  - intros x H. apply in_app_or in H. destruct H as [H|[<-|[]]].
    + eapply covered_mono; [| |exact (C x H)]; simp_sets; auto using self_fut.
      intros po Hpo. apply in_or_app. left. exact Hpo.
    + left. eexists. simp_sets. split; [apply in_or_app; right; left; reflexivity|reflexivity].
  - intros x H. apply in_app_or in H. destruct H as [H|[<-|[]]]; [exact (P x H)|].
    cbn [fst]. apply memN_in. exact Mp.
Qed.

Lemma number_pouts_cover p sid l d :
  In d l -> exists po, In po (number_pouts p sid l) /\ po_peer po = p /\ rid_po po = rid_d d.
Proof.
  revert sid. induction l as [|[a q] l IH]; intros sid; [intros []|].
  cbn [In number_pouts]. intros [<-|H].
  - eexists. split; [left; reflexivity|split; reflexivity].
  - destruct (IH (sid + 1) H) as [po [A B]]. exists po. split; [right; exact A|exact B].
Qed.

Lemma established_Inv3 s p ok sid :
  Inv3 s -> Inv3 (fst (h_established s p ok sid)).
Proof.
  intros [C P]. unfold h_established. destruct (memN p (peers s)); cbn [fst]; [constructor; auto|]. simp_sets.
  assert (Hsame : forall l, Inv3 (set_dials s l)).
  { intros l. constructor; simp_sets; [|exact P].
    intros x H. eapply covered_mono; [| |exact (C x H)]; simp_sets; auto using self_fut. }
  destruct (filter (fun d : N * req => fst d =? p) (dials s)) as [|d0 mine];
    [|destruct (firstn ok (d0 :: mine)) as [|y okl]]; cbn [fst].
  - constructor; simp_sets.
    + intros x H. eapply covered_mono; [| |exact (C x H)]; simp_sets; auto using self_fut.
    + intros x H. apply in_or_app. left. exact (P x H).
  - apply Hsame.
  - constructor; simp_sets.
    + intros x H. apply in_app_or in H. destruct H as [H|H].
      * eapply covered_mono; [| |exact (C x H)]; simp_sets; auto using self_fut.
        intros po Hpo. apply in_or_app. left. exact Hpo.
      * apply in_map_iff in H. destruct H as [d [<- Hd]].
        destruct (number_pouts_cover p sid (y :: okl) d Hd) as [po [A [B1 B2]]].
        left. exists po. simp_sets. split; [apply in_or_app; right; exact A|].
        rewrite B1, B2. reflexivity.
    + intros x H. apply in_or_app. apply in_app_or in H. destruct H as [H|H]; [left; exact (P x H)|].
      apply in_map_iff in H. destruct H as [d [<- Hd]]. right. left. reflexivity.
Qed.

Lemma closed_Inv3 s p : Inv3 s -> Inv3 (fst (h_closed s p)).
Proof.
  intros [C P]. unfold h_closed. simp_sets. destruct (memN p (peers s)) eqn:Mp; cbn [fst].
  - constructor; simp_sets.
    + intros x H. apply filter_In in H. destruct H as [H Hp].
      destruct (C x H) as [[po [Hpo E]]|[g [Hg E]]].
      * left. exists po. simp_sets. split; [|exact E]. apply filter_In. split; [exact Hpo|].
        rewrite <- E in Hp. exact Hp.
      * right. exists g. simp_sets. auto.
    + intros x H. apply filter_In in H. destruct H as [H Hp]. apply filter_In. split; [exact (P x H)|exact Hp].
  - constructor; simp_sets; [|exact P].
    intros x H. destruct (C x H) as [[po [Hpo E]]|[g [Hg E]]].
    + left. exists po. simp_sets. split; [|exact E]. apply filter_In. split; [exact Hpo|].
      destruct (N.eqb_spec (po_peer po) p) as [E2|]; [|reflexivity].
      exfalso. pose proof (P x H) as Hx. rewrite <- E in Hx. cbn [fst] in Hx. rewrite E2 in Hx.
      apply memN_in in Hx. congruence.
    + right. exists g. simp_sets. auto.
Qed.

Lemma dialfail_Inv3 s p : Inv3 s -> Inv3 (fst (h_dialfail s p)).
Proof.
  intros [C P]. unfold h_dialfail. cbn [fst]. constructor; simp_sets; [|exact P].
  intros x H. eapply covered_mono; [| |exact (C x H)]; simp_sets; auto using self_fut.
Qed.

(* covering after the found pending-outbound entry was dropped *)
Lemma cover_drop_po s tr po x :
  Inv s tr -> In po (pouts s) -> covered s x -> x <> (po_peer po, rid_po po) ->
  covered (set_pouts s (drop_po po (pouts s))) x.
Proof.
  intros I Hin [[po' [Hpo E]]|[g [Hg E]]] Hne.
  - left. exists po'. simp_sets. split; [|exact E]. unfold drop_po. apply filter_In. split; [exact Hpo|].
    destruct (N.eqb_spec (q_rid (po_req po')) (q_rid (po_req po))) as [E2|]; [|reflexivity].
    exfalso. apply Hne. rewrite <- E. rewrite (po_unique _ _ _ _ I Hin Hpo E2). reflexivity.
  - right. exists g. simp_sets. auto.
Qed.

Lemma openfail_Inv3 s tr sid u : Inv s tr -> Inv3 s -> Inv3 (fst (h_openfail s sid u)).
Proof.
  intros I [C P]. unfold h_openfail. destruct (find_po sid (pouts s)) as [po|] eqn:F; cbn [fst]; [|constructor; auto].
  pose proof (find_in _ _ _ F) as [Hin _].
  constructor; simp_sets.
  - intros x H. apply in_removeP in H. destruct H as [H Hne].
    destruct (cover_drop_po s tr po x I Hin (C x H) Hne) as [[po' [A B]]|[g [A B]]];
      [left; exists po'|right; exists g]; simp_sets; auto.
  - intros x H. apply in_removeP in H. exact (P x (proj1 H)).
Qed.

Lemma opened_body_Inv3 cf0 s tr po c gate now neg :
  Inv s tr -> Inv3 s -> In po (pouts s) -> Inv3 (fst (opened_body cf0 s po c gate now neg)).
Proof.
  intros I [C P] Hin. unfold opened_body. cbn [q_rid q_len q_tag q_fb].
  pose proof (inv_po _ _ I po Hin) as Hact.
  assert (Hsettle : forall res,
     Inv3 (fst (settle (set_pouts s (drop_po po (pouts s))) (po_peer po) (q_rid (po_req po)) res))).
  { intros res. unfold settle. simp_sets.
    assert (Cond : memN (po_peer po) (peers s) && memP (po_peer po, q_rid (po_req po)) (active s) = true).
    { apply andb_true_intro. split; [apply memN_in; exact (P _ Hact)|apply memP_in; exact Hact]. }
    rewrite Cond. cbn [fst]. constructor; simp_sets.
    - intros x H. apply in_removeP in H. destruct H as [H Hne].
      destruct (cover_drop_po s tr po x I Hin (C x H) Hne) as [[po' [A B]]|[g [A B]]];
        [left; exists po'|right; exists g]; simp_sets; auto.
    - intros x H. apply in_removeP in H. exact (P x (proj1 H)). }
  assert (Hpush : forall g, (f_peer g, rid_f g) = (po_peer po, rid_po po) ->
     Inv3 (set_futs (set_pouts s (drop_po po (pouts s))) (futs (set_pouts s (drop_po po (pouts s))) ++ [g]))).
  { intros g Eg. constructor; simp_sets; [|exact P].
    intros x H. destruct (pair_eqb_spec x (po_peer po, rid_po po)) as [->|Hne].
    - right. exists g. simp_sets. split; [apply in_or_app; right; left; reflexivity|exact Eg].
    - destruct (cover_drop_po s tr po x I Hin (C x H) Hne) as [[po' [A B]]|[g' [A B]]];
        [left; exists po'|right; exists g']; simp_sets; auto.
      split; [apply in_or_app; left; exact A|exact B]. }
  destruct (max_size cf0 <? _); [apply Hsettle|].
  destruct gate as [|[g|g|]]; try apply Hsettle; apply Hpush; reflexivity.
Qed.

Lemma opened_Inv3 cf0 s tr sid c gate now neg :
  Inv s tr -> Inv3 s -> Inv3 (fst (h_opened cf0 s sid c gate now neg)).
Proof.
  intros I I3. unfold h_opened. destruct (find_po sid (pouts s)) as [po|] eqn:F; cbn [fst]; [|exact I3].
  pose proof (opened_body_Inv3 cf0 s tr po c gate now neg I I3 (proj1 (find_in _ _ _ F))) as H.
  destruct (opened_body _ _ _ _ _ _ _) as [s1 o]. exact H.
Qed.

Lemma Inv3_futs_map s (h : fut -> fut) :
  (forall f, (f_peer (h f), rid_f (h f)) = (f_peer f, rid_f f)) ->
  Inv3 s -> Inv3 (set_futs s (map h (futs s))).
Proof.
  intros Hh [C P]. constructor; simp_sets; [|exact P].
  intros x H. eapply covered_mono; [| |exact (C x H)]; simp_sets; auto.
  intros f Hf. exists (h f). split; [apply in_map; exact Hf|apply Hh].
Qed.

Lemma unblock_Inv3 cf0 s tr c now : Inv s tr -> Inv3 s -> Inv3 (fst (fut_unblock cf0 s c now)).
Proof.
  intros I I3. unfold fut_unblock. destruct (find_fut c (futs s)) as [f|] eqn:F; cbn [fst]; [|exact I3].
  destruct (f_wait f); cbn [fst]; [exact I3|]. destruct (f_cancel f).
  - pose proof (complete_Inv3 s tr f (RErr E_CANCELED) I I3
                  (fun g Hg E => eq_sym (fut_unique _ _ _ _ I (find_fut_in _ _ _ F) Hg E))) as H.
    destruct (complete s f _) as [s1 o]. exact H.
  - cbn [fst]. apply Inv3_futs_map; [|exact I3]. intros g. destruct (f_chan g =? c); reflexivity.
Qed.

Lemma breakw_Inv3 s tr c : Inv s tr -> Inv3 s -> Inv3 (fst (fut_breakw s c)).
Proof.
  intros I I3. unfold fut_breakw. destruct (find_fut c (futs s)) as [f|] eqn:F; cbn [fst]; [|exact I3].
  destruct (f_wait f); cbn [fst]; [exact I3|].
  exact (complete_Inv3 s tr f _ I I3 (fun g Hg E => eq_sym (fut_unique _ _ _ _ I (find_fut_in _ _ _ F) Hg E))).
Qed.

Lemma read_Inv3 s tr c res : Inv s tr -> Inv3 s -> Inv3 (fst (fut_read s c res)).
Proof.
  intros I I3. unfold fut_read. destruct (find_fut c (futs s)) as [f|] eqn:F; cbn [fst]; [|exact I3].
  destruct (f_wait f); cbn [fst]; [|exact I3].
  pose proof (complete_Inv3 s tr f res I I3 (fun g Hg E => eq_sym (fut_unique _ _ _ _ I (find_fut_in _ _ _ F) Hg E))) as H.
  destruct (complete s f res) as [s1 o]. exact H.
Qed.

Lemma advance_Inv3 s tr now : Inv s tr -> Inv3 s -> Inv3 (fst (fut_advance s now)).
Proof.
  intros I I3. unfold fut_advance. apply (complete_all_Inv3 _ s tr); auto.
  - intros f po Hf Hpo. apply filter_In in Hf. exact (fut_in_not_po _ _ _ I (proj1 Hf) po Hpo).
  - intros f g Hf Hg E. apply filter_In in Hf. exact (eq_sym (fut_unique _ _ _ _ I (proj1 Hf) Hg E)).
Qed.

Lemma cancel_Inv3 s tr rid : Inv s tr -> Inv3 s -> Inv3 (fst (h_cancel s rid)).
Proof.
  intros I I3. unfold h_cancel. destruct (find _ (futs s)) as [f|] eqn:F; cbn [fst]; [|exact I3].
  apply find_some in F. destruct F as [Hf _].
  destruct (f_wait f); cbn [fst].
  - exact (complete_Inv3 s tr f _ I I3 (fun g Hg E => eq_sym (fut_unique _ _ _ _ I Hf Hg E))).
  - apply Inv3_futs_map; [|exact I3]. intros g. destruct (q_rid (f_req g) =? rid); reflexivity.
Qed.

Lemma Inv3_same_ledger s s' : Inv3 s -> same_ledger s s' -> Inv3 s'.
Proof.
  intros [C P] (D & A & Po & F & N & Pe). constructor; rewrite A.
  - intros x H. destruct (C x H) as [[po [Hpo E]]|[g [Hg E]]]; [left; exists po|right; exists g];
      rewrite ?Po, ?F; auto.
  - rewrite Pe. exact P.
Qed.

Lemma step_Inv3 cf0 s en e tr :
  Inv s tr -> Inv3 s -> Inv3 (fst (fst (fst (step cf0 (s, en) e)))).
Proof.
  intros I I3. destruct e; cbn [step].
  - match goal with |- context [h_send s p dial len tag ?fb0 ?a0 ?b0 ?c0] => pose proof (send_Inv3 s p dial len tag fb0 a0 b0 c0 I3) as H end.
    destruct (h_send _ _ _ _ _ _ _ _ _) as [s1 o]. exact H.
  - pose proof (cancel_Inv3 s tr rid I I3) as H. destruct (h_cancel s rid) as [s1 o]. exact H.
  - destruct (conn_of p en); cbn [fst]; [exact I3|].
    match goal with |- context [h_established s p ?n ?sd] => pose proof (established_Inv3 s p n sd I3) as H end.
    destruct (h_established _ _ _ _) as [s1 o]. exact H.
  - destruct (conn_of p en); cbn [fst]; [|exact I3].
    pose proof (closed_Inv3 s p I3) as H. destruct (h_closed s p) as [s1 o]. exact H.
  - pose proof (dialfail_Inv3 s p I3) as H. destruct (h_dialfail s p) as [s1 o]. exact H.
  - destruct (nth_mod k (opens en)) as [[sid q]|]; cbn [fst]; [|exact I3].
    pose proof (opened_Inv3 cf0 s tr sid (N.of_nat (length (chans en))) (N.min gate 2) (now en) neg I I3) as H.
    destruct (h_opened _ _ _ _ _ _ _) as [s1 o]. exact H.
  - destruct (nth_mod k (opens en)) as [[sid q]|]; cbn [fst]; [|exact I3].
    pose proof (openfail_Inv3 s tr sid unsupported I I3) as H. destruct (h_openfail _ _ _) as [s1 o]. exact H.
  - destruct (chans en) as [|ch0 chs] eqn:CH; cbn [fst]; [exact I3|].
    destruct (nth_error _ _) as [ch|]; cbn [fst]; [|exact I3].
    destruct (c_gate ch =? 0); cbn [fst]; [|exact I3].
    pose proof (unblock_Inv3 cf0 s tr (k mod N.of_nat (length (ch0 :: chs))) (now en) I I3) as H.
    destruct (fut_unblock _ _ _ _) as [s1 o1]. cbn [fst] in H.
    pose proof (rsp_gate_same s1 (k mod N.of_nat (length (ch0 :: chs))) true) as [H2 _].
    destruct (rsp_gate _ _ _) as [s2 o2]. cbn [fst] in *. exact (Inv3_same_ledger _ _ H H2).
  - destruct (chans en) as [|ch0 chs] eqn:CH; cbn [fst]; [exact I3|].
    destruct (nth_error _ _) as [ch|]; cbn [fst]; [|exact I3].
    destruct (c_gate ch =? 2); cbn [fst]; [exact I3|].
    pose proof (breakw_Inv3 s tr (k mod N.of_nat (length (ch0 :: chs))) I I3) as H.
    destruct (fut_breakw _ _) as [s1 o1]. cbn [fst] in H.
    pose proof (rsp_gate_same s1 (k mod N.of_nat (length (ch0 :: chs))) false) as [H2 _].
    destruct (rsp_gate _ _ _) as [s2 o2]. cbn [fst] in *. exact (Inv3_same_ledger _ _ H H2).
  - destruct (chans en) as [|ch0 chs] eqn:CH; cbn [fst]; [exact I3|].
    destruct (nth_error _ _) as [ch|]; cbn [fst]; [|exact I3].
    destruct (c_out ch && c_seen ch); cbn [fst]; [|exact I3].
    match goal with |- context [fut_read s ?c ?r] =>
      pose proof (read_Inv3 s tr c r I I3) as H; destruct (fut_read s c r) as [s1 o] end. exact H.
  - destruct (chans en) as [|ch0 chs] eqn:CH; cbn [fst]; [exact I3|].
    destruct (nth_error _ _) as [ch|]; cbn [fst]; [|exact I3].
    destruct (c_out ch); [destruct (c_seen ch)|]; cbn [fst]; try exact I3.
    + match goal with |- context [fut_read s ?c ?r] =>
        pose proof (read_Inv3 s tr c r I I3) as H; destruct (fut_read s c r) as [s1 o] end. exact H.
    + match goal with |- context [h_inread s ?c ?g ?l ?t] =>
        pose proof (inread_same s c g l t) as [H _]; destruct (h_inread s c g l t) as [s1 o] end.
      exact (Inv3_same_ledger _ _ I3 H).
  - destruct (chans en) as [|ch0 chs] eqn:CH; cbn [fst]; [exact I3|].
    destruct (nth_error _ _) as [ch|]; cbn [fst]; [|exact I3].
    destruct (c_out ch); [destruct (c_seen ch)|]; cbn [fst]; try exact I3.
    + match goal with |- context [fut_read s ?c ?r] =>
        pose proof (read_Inv3 s tr c r I I3) as H; destruct (fut_read s c r) as [s1 o] end. exact H.
    + match goal with |- context [h_inread s ?c ?g ?l ?t] =>
        pose proof (inread_same s c g l t) as [H _]; destruct (h_inread s c g l t) as [s1 o] end.
      exact (Inv3_same_ledger _ _ I3 H).
  - pose proof (advance_Inv3 s tr (now en + dt) I I3) as H.
    destruct (fut_advance s (now en + dt)) as [s1 o]. cbn [fst] in *.
    apply (Inv3_same_ledger s1); [exact H|].
    unfold rsp_advance, same_ledger. simp_sets. repeat split; try lia; try reflexivity.
  - destruct (conn_of p en); cbn [fst]; [|exact I3].
    pose proof (inopen_same cf0 s p (N.of_nat (length (chans en))) neg) as [H _].
    destruct (h_inopen _ _ _ _ _) as [s1 o]. exact (Inv3_same_ledger _ _ I3 H).
  - destruct (chans en) as [|ch0 chs] eqn:CH; cbn [fst]; [exact I3|].
    destruct (nth_error _ _) as [ch|]; cbn [fst]; [|exact I3].
    destruct (negb (c_out ch)); cbn [fst]; [|exact I3].
    match goal with |- context [h_inread s ?c ?g ?l ?t] =>
      pose proof (inread_same s c g l t) as [H _]; destruct (h_inread s c g l t) as [s1 o] end.
    exact (Inv3_same_ledger _ _ I3 H).
  - destruct (nth_mod k (hpend en)) as [irid|]; cbn [fst]; [|exact I3].
    match goal with |- context [h_uresp cf0 s ?a ?b ?c ?f ?d ?e] =>
      pose proof (uresp_same cf0 s a b c f d e) as [H _]; destruct (h_uresp cf0 s a b c f d e) as [s1 o] end.
    exact (Inv3_same_ledger _ _ I3 H).
  - destruct (nth_mod k (hpend en)) as [irid|]; cbn [fst]; [|exact I3].
    unfold h_urej. cbn [fst]. apply (Inv3_same_ledger s); [exact I3|].
    unfold same_ledger. simp_sets. repeat split; try lia; try reflexivity.
  - cbn [fst]. exact I3.
  - unfold h_burn. cbn [fst]. apply (Inv3_same_ledger s); [exact I3|]. unfold same_ledger; simp_sets; repeat split; try lia; try reflexivity.
  - cbn [fst]. exact I3.
  - cbn [fst]. exact I3.
  - cbn [fst]. exact I3.
  - cbn [fst]. exact I3.
Qed.

Lemma run_Inv3 cf0 evs : forall st tr,
  Inv (fst st) tr -> Inv3 (fst st) -> Inv3 (fst (fst (run cf0 st evs))).
Proof.
  induction evs as [|e evs IH]; intros [s en] tr I I3; cbn [run fst]; [exact I3|].
  pose proof (step_Inv cf0 s en e tr I) as H. pose proof (step_Inv3 cf0 s en e tr I I3) as H3.
  destruct (step cf0 (s, en) e) as [[st1 o] tg]. cbn [fst snd] in *.
  specialize (IH st1 (tr ++ o) H H3). destruct (run cf0 st1 evs) as [st2 o2]. exact IH.
Qed.

Lemma quiescent_settled s : Inv3 s -> quiescent s -> settled s.
Proof.
  intros [C _] (D & P & F). split; [exact D|].
  destruct (active s) as [|x l] eqn:A; [reflexivity|].
  destruct (C x (or_introl eq_refl)) as [[po [H _]]|[g [H _]]]; [rewrite P in H|rewrite F in H]; destruct H.
Qed.

(* Exactly one: once no dial, no substream opening and no request future is outstanding, every
   request id handed out has exactly one terminal event unless the user asked to cancel it. *)
Theorem exactly_one cf0 evs r :
  let res := run cf0 (init_pst, init_env) evs in
  quiescent (fst (fst res)) ->
  In (OSent r) (snd res) ->
  terms r (snd res) = 1%nat \/ In r (cancel_reqs evs).
Proof.
  intros res Q. apply exactly_one_settled. apply quiescent_settled; [|exact Q].
  exact (run_Inv3 cf0 evs (init_pst, init_env) [] Inv_init Inv3_init).
Qed.

(* ------------------------------------------------------------------ what a handler can emit *)

(* plain = neither ResponseReceived, RequestReceived nor the binding ghost *)
Definition plain (x : out) : bool :=
  match x with OSent _ | OFail _ _ | OWire _ _ _ | OWireR _ _ _ | OFeed _ _ | ODial _ | OOpen _ _ | OFbResp _ _ | OFbReq _ _ => true | _ => false end.
Definition plainl (o : list out) : Prop := forallb plain o = true.

Lemma plainl_nil : plainl [].
Proof. reflexivity. Qed.
Lemma plainl_app a b : plainl a -> plainl b -> plainl (a ++ b).
Proof. unfold plainl. rewrite forallb_app. intros -> ->. reflexivity. Qed.
Lemma plainl_cons x o : plain x = true -> plainl o -> plainl (x :: o).
Proof. unfold plainl. cbn [forallb]. intros -> ->. reflexivity. Qed.
Lemma plainl_map_fail {A} (g : A -> N) code l : plainl (map (fun a => OFail (g a) code) l).
Proof. unfold plainl. induction l; cbn; auto. Qed.
Lemma plainl_in o x : plainl o -> In x o -> plain x = true.
Proof. unfold plainl. rewrite forallb_forall. auto. Qed.

Lemma verdict_err_plain rid c : plainl (verdict rid (RErr c)).
Proof. unfold verdict. destruct (c =? E_CANCELED); reflexivity. Qed.

Lemma settle_err_plain s p rid c : plainl (snd (settle s p rid (RErr c))).
Proof. unfold settle. destruct (_ && _); cbn [snd]; [apply verdict_err_plain|reflexivity]. Qed.

Lemma complete_err_plain s f c : plainl (snd (complete s f (RErr c))).
Proof. unfold complete. apply settle_err_plain. Qed.

Lemma complete_all_err_plain l : forall s c, plainl (snd (complete_all s l (RErr c))).
Proof.
  induction l as [|f l IH]; intros s c; cbn [complete_all snd]; [reflexivity|].
  pose proof (complete_err_plain s f c) as H. destruct (complete s f (RErr c)) as [s1 o1].
  pose proof (IH s1 c) as H2. destruct (complete_all s1 l (RErr c)) as [s2 o2]. cbn [snd] in *.
  apply plainl_app; assumption.
Qed.

Lemma send_plain s p dial len tag fb ok dok sid : plainl (snd (h_send s p dial len tag fb ok dok sid)).
Proof. unfold h_send. repeat match goal with |- context [if ?x then _ else _] => destruct x end; reflexivity. Qed.

Lemma established_plain s p ok sid : plainl (snd (h_established s p ok sid)).
Proof.
  unfold h_established. destruct (memN p (peers s)); [reflexivity|].
  destruct (filter _ (dials s)) as [|d0 mine]; [reflexivity|].
  destruct (firstn ok (d0 :: mine)); cbn [snd]; [apply (plainl_map_fail (fun d : N * req => q_rid (snd d)))|].
  apply plainl_app; [apply (plainl_map_fail (fun d : N * req => q_rid (snd d)))|].
  unfold plainl. induction (number_pouts p sid (p0 :: l)); cbn; auto.
Qed.

Lemma closed_plain s p : plainl (snd (h_closed s p)).
Proof. unfold h_closed. destruct (memN p _); cbn [snd]; [apply (plainl_map_fail snd)|reflexivity]. Qed.

Lemma dialfail_plain s p : plainl (snd (h_dialfail s p)).
Proof. unfold h_dialfail. cbn [snd]. apply (plainl_map_fail (fun d : N * req => q_rid (snd d))). Qed.

Lemma openfail_plain s sid u : plainl (snd (h_openfail s sid u)).
Proof. unfold h_openfail. destruct (find_po sid (pouts s)); reflexivity. Qed.

Lemma opened_body_plain cf0 s po c gate now neg : plainl (snd (opened_body cf0 s po c gate now neg)).
Proof.
  unfold opened_body. cbn [q_rid q_len q_tag q_fb]. destruct (max_size cf0 <? _); [apply settle_err_plain|].
  destruct gate as [|[g|g|]]; try apply settle_err_plain; reflexivity.
Qed.

Lemma unblock_plain cf0 s c now : plainl (snd (fut_unblock cf0 s c now)).
Proof.
  unfold fut_unblock. destruct (find_fut c (futs s)) as [f|]; [|reflexivity].
  destruct (f_wait f); [reflexivity|]. destruct (f_cancel f); [|reflexivity].
  pose proof (complete_err_plain s f E_CANCELED) as H. destruct (complete s f _) as [s1 o]. cbn [snd] in *.
  apply plainl_cons; [reflexivity|exact H].
Qed.

Lemma breakw_plain s c : plainl (snd (fut_breakw s c)).
Proof.
  unfold fut_breakw. destruct (find_fut c (futs s)) as [f|]; [|reflexivity].
  destruct (f_wait f); [reflexivity|apply complete_err_plain].
Qed.

Lemma read_err_plain s c e : plainl (snd (fut_read s c (RErr e))).
Proof.
  unfold fut_read. destruct (find_fut c (futs s)) as [f|]; [|reflexivity].
  destruct (f_wait f); [|reflexivity].
  pose proof (complete_err_plain s f e) as H. destruct (complete s f (RErr e)) as [s1 o]. cbn [snd] in *.
  apply plainl_app; [exact H|]. unfold fb_resp. destruct (f_neg f =? 0); [reflexivity|].
  unfold plainl in *. induction o as [|x o IH]; [reflexivity|]. cbn [forallb flat_map] in *.
  apply andb_prop in H. destruct H as [Hx Ho]. rewrite forallb_app, (IH Ho), andb_true_r.
  destruct x; try discriminate; reflexivity.
Qed.

Lemma advance_plain s now : plainl (snd (fut_advance s now)).
Proof. unfold fut_advance. apply complete_all_err_plain. Qed.

Lemma cancel_plain s rid : plainl (snd (h_cancel s rid)).
Proof.
  unfold h_cancel. destruct (find _ (futs s)) as [f|]; [|reflexivity].
  destruct (f_wait f); [apply complete_err_plain|reflexivity].
Qed.

Lemma uresp_plain cf0 s irid len tag fb gate now : plainl (snd (h_uresp cf0 s irid len tag fb gate now)).
Proof.
  unfold h_uresp, feed. destruct (find_rs irid (rsps s)) as [rs|]; [|reflexivity].
  destruct (s_w rs); [reflexivity|]. destruct fb; (destruct (max_size cf0 <? len); [reflexivity|]);
  destruct gate as [|[g|g|]]; reflexivity.
Qed.

Lemma rsp_gate_plain s c ok : plainl (snd (rsp_gate s c ok)).
Proof.
  unfold rsp_gate. destruct (find _ (rsps s)) as [rs|]; [|reflexivity].
  destruct (s_w rs) as [[[l t] d]|]; [|reflexivity]. unfold feed. destruct ok; destruct (s_fb rs); reflexivity.
Qed.

Lemma inread_bad_plain s c len tag : plainl (snd (h_inread s c false len tag)).
Proof.
  unfold h_inread. destruct (find_rd c (rdrs s)) as [rd|]; [|reflexivity].
  destruct (_ && _); reflexivity.
Qed.

Lemma adv_out_plain s now : plainl (rsp_advance_out s now).
Proof.
  unfold rsp_advance_out, plainl. induction (rsps s) as [|a l IH]; [reflexivity|].
  cbn [flat_map]. rewrite forallb_app, IH, andb_true_r. destruct (s_w a) as [[[x y] d]|]; [|reflexivity].
  destruct (d <=? now); [|reflexivity]. unfold feed. destruct (s_fb a); reflexivity.
Qed.

(* the fallback annotation that accompanies a ResponseReceived / RequestReceived *)
Definition fbl_resp (f : fut) : list out := if f_neg f =? 0 then [] else [OFbResp (rid_f f) (f_neg f)].
Definition fbl_req (rd : rdr) : list out := if r_neg rd =? 0 then [] else [OFbReq (r_irid rd) (r_neg rd)].
Lemma fbl_resp_plain f : plainl (fbl_resp f).
Proof. unfold fbl_resp. destruct (f_neg f =? 0); reflexivity. Qed.
Lemma fbl_req_plain rd : plainl (fbl_req rd).
Proof. unfold fbl_req. destruct (r_neg rd =? 0); reflexivity. Qed.

(* a delivered response: exactly the verdict of the future that holds the carrier *)
Lemma read_ok_shape s c len tag :
  plainl (snd (fut_read s c (ROk len tag))) \/
  exists f, find_fut c (futs s) = Some f /\
            snd (fut_read s c (ROk len tag)) = OResp (rid_f f) len tag :: fbl_resp f.
Proof.
  unfold fut_read. destruct (find_fut c (futs s)) as [f|]; [|left; reflexivity].
  destruct (f_wait f); [|left; reflexivity]. unfold complete, settle.
  destruct (_ && _); cbn [snd]; [right; exists f; split; [reflexivity|]|left; unfold fb_resp; destruct (f_neg f =? 0); reflexivity].
  unfold verdict, fb_resp, fbl_resp, rid_f. destruct (f_neg f =? 0); reflexivity.
Qed.

(* a request handed to the user: read from the reader of that carrier, which is gone afterwards *)
Lemma inread_good_shape s c len tag :
  (snd (h_inread s c true len tag) = [] \/
   exists rd, find_rd c (rdrs s) = Some rd /\
              snd (h_inread s c true len tag) = OReq (r_irid rd) (r_peer rd) len tag :: fbl_req rd) /\
  rdrs (fst (h_inread s c true len tag)) = drop_rd c (rdrs s).
Proof.
  unfold h_inread. destruct (find_rd c (rdrs s)) as [rd|] eqn:F.
  - destruct (_ && _); cbn [fst snd]; simp_sets; (split; [|reflexivity]).
    + right. exists rd. split; reflexivity.
    + left. reflexivity.
  - cbn [fst snd]. split; [left; reflexivity|].
    (* nothing to drop *)
    unfold drop_rd, find_rd in *. induction (rdrs s) as [|a l IH]; [reflexivity|].
    cbn [find filter] in *. destruct (r_chan a =? c); [discriminate|]. cbn [negb]. f_equal. apply IH. exact F.
Qed.

(* ------------------------------------------------------------------ how futures and readers evolve *)

Definition calm (x : out) : bool :=
  match x with OBind _ _ | OReq _ _ _ _ => false | _ => true end.
Definition calml (o : list out) : Prop := forallb calm o = true.

Lemma plain_calm o : plainl o -> calml o.
Proof.
  unfold plainl, calml. rewrite !forallb_forall. intros H x Hx. specialize (H x Hx). destruct x; try discriminate; reflexivity.
Qed.
Lemma calml_app a b : calml a -> calml b -> calml (a ++ b).
Proof. unfold calml. rewrite forallb_app. intros -> ->. reflexivity. Qed.
Lemma calml_nobind o c r : calml o -> ~ In (OBind c r) o.
Proof. unfold calml. rewrite forallb_forall. intros H Hin. specialize (H _ Hin). discriminate. Qed.
Lemma calml_noreq o : calml o -> has_req o = false.
Proof.
  unfold calml, has_req. intros H. apply not_true_is_false. intros E. apply existsb_exists in E.
  destruct E as [x [Hx Ex]]. rewrite forallb_forall in H. specialize (H x Hx). destruct x; discriminate.
Qed.

(* every future of s' continues a future of s (same carrier, same request) *)
Definition FutsPrev (s s' : pst) : Prop :=
  forall g, In g (futs s') -> exists f, In f (futs s) /\ f_chan f = f_chan g /\ rid_f f = rid_f g.

(* quiet step: no binding, no RequestReceived, futures only continue, readers untouched *)
Definition Q (s s' : pst) (o : list out) : Prop := calml o /\ FutsPrev s s' /\ rdrs s' = rdrs s.

Lemma FutsPrev_same s s' : futs s' = futs s -> FutsPrev s s'.
Proof. intros E g Hg. rewrite E in Hg. exists g. auto. Qed.
Lemma FutsPrev_sub s s' : (forall g, In g (futs s') -> In g (futs s)) -> FutsPrev s s'.
Proof. intros H g Hg. exists g. auto. Qed.
Lemma FutsPrev_trans s s1 s2 : FutsPrev s s1 -> FutsPrev s1 s2 -> FutsPrev s s2.
Proof.
  intros A B g Hg. destruct (B g Hg) as [f1 [H1 [E1 E2]]]. destruct (A f1 H1) as [f [H [E3 E4]]].
  exists f. repeat split; congruence.
Qed.
Lemma Q_trans s s1 s2 o1 o2 : Q s s1 o1 -> Q s1 s2 o2 -> Q s s2 (o1 ++ o2).
Proof.
  intros (A1 & A2 & A3) (B1 & B2 & B3). split; [|split]; [apply calml_app; auto|eapply FutsPrev_trans; eauto|congruence].
Qed.
Lemma Q_refl s : Q s s [].
Proof. split; [reflexivity|split; [apply FutsPrev_same; reflexivity|reflexivity]]. Qed.

Ltac futs_crush :=
  repeat match goal with
         | |- context [match ?x with _ => _ end] => destruct x
         end; cbn; reflexivity.

Lemma send_futs s p dial len tag fb ok dok sid : futs (fst (h_send s p dial len tag fb ok dok sid)) = futs s.
Proof. unfold h_send. futs_crush. Qed.
Lemma established_futs s p ok sid : futs (fst (h_established s p ok sid)) = futs s.
Proof. unfold h_established. futs_crush. Qed.
Lemma closed_futs s p : futs (fst (h_closed s p)) = futs s.
Proof. unfold h_closed. futs_crush. Qed.
Lemma dialfail_futs s p : futs (fst (h_dialfail s p)) = futs s.
Proof. reflexivity. Qed.
Lemma openfail_futs s sid u : futs (fst (h_openfail s sid u)) = futs s.
Proof. unfold h_openfail. futs_crush. Qed.

Lemma send_Q s p dial len tag fb ok dok sid : Q s (fst (h_send s p dial len tag fb ok dok sid)) (snd (h_send s p dial len tag fb ok dok sid)).
Proof. split; [|split]; [apply plain_calm, send_plain|apply FutsPrev_same, send_futs|apply send_io]. Qed.
Lemma established_Q s p ok sid : Q s (fst (h_established s p ok sid)) (snd (h_established s p ok sid)).
Proof. split; [|split]; [apply plain_calm, established_plain|apply FutsPrev_same, established_futs|apply established_io]. Qed.
Lemma closed_Q s p : Q s (fst (h_closed s p)) (snd (h_closed s p)).
Proof. split; [|split]; [apply plain_calm, closed_plain|apply FutsPrev_same, closed_futs|apply closed_io]. Qed.
Lemma dialfail_Q s p : Q s (fst (h_dialfail s p)) (snd (h_dialfail s p)).
Proof. split; [|split]; [apply plain_calm, dialfail_plain|apply FutsPrev_same, dialfail_futs|apply dialfail_io]. Qed.
Lemma openfail_Q s sid u : Q s (fst (h_openfail s sid u)) (snd (h_openfail s sid u)).
Proof. split; [|split]; [apply plain_calm, openfail_plain|apply FutsPrev_same, openfail_futs|apply openfail_io]. Qed.

Lemma complete_FutsPrev s f res : FutsPrev s (fst (complete s f res)).
Proof. apply FutsPrev_sub. apply complete_futs_sub. Qed.

Lemma complete_all_futs_sub l : forall s res g, In g (futs (fst (complete_all s l res))) -> In g (futs s).
Proof.
  induction l as [|f l IH]; intros s res g; cbn [complete_all fst]; [auto|].
  pose proof (complete_futs_sub s f res) as A. destruct (complete s f res) as [s1 o1]. cbn [fst] in A.
  pose proof (IH s1 res g) as B. destruct (complete_all s1 l res) as [s2 o2]. cbn [fst] in *. auto.
Qed.

Lemma map_FutsPrev s (h : fut -> fut) :
  (forall f, f_chan (h f) = f_chan f /\ rid_f (h f) = rid_f f) -> FutsPrev s (set_futs s (map h (futs s))).
Proof.
  intros Hh g Hg. simp_sets. apply in_map_iff in Hg. destruct Hg as [f [<- Hf]].
  exists f. destruct (Hh f) as [A B]. auto.
Qed.

Lemma unblock_Q cf0 s c now : Q s (fst (fut_unblock cf0 s c now)) (snd (fut_unblock cf0 s c now)).
Proof.
  split; [|split]; [apply plain_calm, unblock_plain| |apply unblock_io].
  unfold fut_unblock. destruct (find_fut c (futs s)) as [f|]; [|apply FutsPrev_same; reflexivity].
  destruct (f_wait f); [apply FutsPrev_same; reflexivity|]. destruct (f_cancel f).
  - pose proof (complete_FutsPrev s f (RErr E_CANCELED)) as H. destruct (complete s f _) as [s1 o]. exact H.
  - cbn [fst]. apply map_FutsPrev. intros g. destruct (f_chan g =? c); split; reflexivity.
Qed.

Lemma breakw_Q s c : Q s (fst (fut_breakw s c)) (snd (fut_breakw s c)).
Proof.
  split; [|split]; [apply plain_calm, breakw_plain| |apply breakw_io].
  unfold fut_breakw. destruct (find_fut c (futs s)) as [f|]; [|apply FutsPrev_same; reflexivity].
  destruct (f_wait f); [apply FutsPrev_same; reflexivity|apply complete_FutsPrev].
Qed.

Lemma read_calm s c res : calml (snd (fut_read s c res)).
Proof.
  destruct res as [l t|e]; [|apply plain_calm, read_err_plain].
  destruct (read_ok_shape s c l t) as [H|[f [_ H]]]; [apply plain_calm; exact H|]. rewrite H.
  unfold calml. cbn [forallb calm]. apply (plain_calm _ (fbl_resp_plain f)).
Qed.

Lemma read_Q s c res : Q s (fst (fut_read s c res)) (snd (fut_read s c res)).
Proof.
  split; [|split]; [apply read_calm| |apply read_io].
  unfold fut_read. destruct (find_fut c (futs s)) as [f|]; [|apply FutsPrev_same; reflexivity].
  destruct (f_wait f); [|apply FutsPrev_same; reflexivity].
  pose proof (complete_FutsPrev s f res) as H. destruct (complete s f res) as [s1 o]. exact H.
Qed.

Lemma advance_Q s now : Q s (fst (fut_advance s now)) (snd (fut_advance s now)).
Proof.
  split; [|split]; [apply plain_calm, advance_plain| |apply complete_all_io].
  apply FutsPrev_sub. apply complete_all_futs_sub.
Qed.

Lemma cancel_Q s rid : Q s (fst (h_cancel s rid)) (snd (h_cancel s rid)).
Proof.
  split; [|split]; [apply plain_calm, cancel_plain| |apply cancel_io].
  unfold h_cancel. destruct (find _ (futs s)) as [f|]; [|apply FutsPrev_same; reflexivity].
  destruct (f_wait f); [apply complete_FutsPrev|].
  cbn [fst]. apply map_FutsPrev. intros g. destruct (q_rid (f_req g) =? rid); split; reflexivity.
Qed.

Lemma same_ledger_Q s s' o : same_ledger s s' -> calml o -> rdrs s' = rdrs s -> Q s s' o.
Proof. intros (_ & _ & _ & F & _) C R. split; [|split]; [exact C|apply FutsPrev_same; exact F|exact R]. Qed.

Lemma uresp_rdrs cf0 s irid len tag fb gate now : rdrs (fst (h_uresp cf0 s irid len tag fb gate now)) = rdrs s.
Proof. unfold h_uresp, feed. futs_crush. Qed.
Lemma rsp_gate_rdrs s c ok : rdrs (fst (rsp_gate s c ok)) = rdrs s.
Proof. unfold rsp_gate. futs_crush. Qed.

Lemma uresp_Q cf0 s irid len tag fb gate now :
  Q s (fst (h_uresp cf0 s irid len tag fb gate now)) (snd (h_uresp cf0 s irid len tag fb gate now)).
Proof. apply same_ledger_Q; [apply uresp_same|apply plain_calm, uresp_plain|apply uresp_rdrs]. Qed.
Lemma rsp_gate_Q s c ok : Q s (fst (rsp_gate s c ok)) (snd (rsp_gate s c ok)).
Proof. apply same_ledger_Q; [apply rsp_gate_same|apply plain_calm, rsp_gate_plain|apply rsp_gate_rdrs]. Qed.

(* the three handlers that are not quiet *)
Lemma opened_body_futs cf0 s po c gate now neg g :
  In g (futs (fst (opened_body cf0 s po c gate now neg))) ->
  In g (futs s) \/ (f_chan g = c /\ rid_f g = rid_po po).
Proof.
  unfold opened_body. cbn [q_rid q_len q_tag q_fb].
  assert (Hs : forall res, In g (futs (fst (settle (set_pouts s (drop_po po (pouts s))) (po_peer po) (q_rid (po_req po)) res))) -> In g (futs s)).
  { intros res. unfold settle. destruct (_ && _); cbn [fst]; simp_sets; auto. }
  destruct (max_size cf0 <? _); [intros H0; left; exact (Hs _ H0)|].
  destruct gate as [|[x|x|]]; try (intros H0; left; exact (Hs _ H0)); cbn [fst]; simp_sets; intros H0;
    apply in_app_or in H0; destruct H0 as [H0|[<-|[]]]; auto.
Qed.

Lemma opened_body_rdrs cf0 s po c gate now neg : rdrs (fst (opened_body cf0 s po c gate now neg)) = rdrs s.
Proof.
  unfold opened_body. cbn [q_rid q_len q_tag q_fb].
  assert (Hs : forall res, rdrs (fst (settle (set_pouts s (drop_po po (pouts s))) (po_peer po) (q_rid (po_req po)) res)) = rdrs s).
  { intros res. apply (settle_io (set_pouts s (drop_po po (pouts s)))). }
  destruct (max_size cf0 <? _); [apply Hs|]. destruct gate as [|[x|x|]]; try apply Hs; reflexivity.
Qed.

Lemma inopen_shape cf0 s p c neg :
  snd (h_inopen cf0 s p c neg) = [] /\ futs (fst (h_inopen cf0 s p c neg)) = futs s /\
  (rdrs (fst (h_inopen cf0 s p c neg)) = rdrs s \/
   exists irid, rdrs (fst (h_inopen cf0 s p c neg)) = rdrs s ++ [mkRd p irid c neg]).
Proof.
  unfold h_inopen. destruct (match max_inb cf0 with Some m => _ | None => _ end); cbn [fst snd]; [auto|].
  simp_sets. destruct (memN p (peers s)); cbn [fst snd]; simp_sets; repeat split; auto.
  right. eexists. reflexivity.
Qed.

Lemma inread_rdrs s c good len tag : rdrs (fst (h_inread s c good len tag)) = drop_rd c (rdrs s).
Proof.
  unfold h_inread. destruct (find_rd c (rdrs s)) as [rd|] eqn:F.
  - destruct (_ && _); [destruct good|]; reflexivity.
  - cbn [fst]. unfold drop_rd, find_rd in *. induction (rdrs s) as [|a l IH]; [reflexivity|].
    cbn [find filter] in *. destruct (r_chan a =? c); [discriminate|]. cbn [negb]. f_equal. apply IH. exact F.
Qed.

Lemma inread_futs s c good len tag : futs (fst (h_inread s c good len tag)) = futs s.
Proof. pose proof (inread_same s c good len tag) as [(_ & _ & _ & F & _) _]. exact F. Qed.

(* ------------------------------------------------------------------ one step, seen from outside *)

Definition nch (en : env) : N := N.of_nat (length (chans en)).

Record StepFacts (s : pst) (en : env) (s' : pst) (en' : env) (o : list out) (tg : option N) : Prop := mkSF {
  sf_nch : nch en <= nch en';
  sf_fut : forall g, In g (futs s') ->
           (exists f, In f (futs s) /\ f_chan f = f_chan g /\ rid_f f = rid_f g) \/
           In (OBind (f_chan g) (rid_f g)) o;
  sf_bind : forall c rid, In (OBind c rid) o ->
            c = nch en /\ nch en < nch en' /\ forall rid', In (OBind c rid') o -> rid' = rid;
  sf_rd : forall rd, In rd (rdrs s') -> In rd (rdrs s) \/ (r_chan rd = nch en /\ nch en < nch en');
  sf_req : has_req o = true ->
           exists c, tg = Some c /\ c < nch en /\ (exists rd, In rd (rdrs s) /\ r_chan rd = c) /\
                     forall rd, In rd (rdrs s') -> r_chan rd <> c
}.

Lemma Q_facts s en s' en' o tg : Q s s' o -> nch en <= nch en' -> StepFacts s en s' en' o tg.
Proof.
  intros (C & F & R) L. constructor.
  - exact L.
  - intros g Hg. left. exact (F g Hg).
  - intros c rid H. destruct (calml_nobind _ _ _ C H).
  - intros rd H. left. rewrite <- R. exact H.
  - intros H. rewrite (calml_noreq _ C) in H. discriminate.
Qed.

Lemma set_chan_len c ch l : (N.to_nat c < length l)%nat -> length (set_chan c ch l) = length l.
Proof.
  intros H. unfold set_chan. rewrite !app_length, firstn_length, skipn_length. cbn [length]. lia.
Qed.

Lemma mod_lt_len {A} k (a : A) l : (N.to_nat (k mod N.of_nat (length (a :: l))) < length (a :: l))%nat.
Proof.
  assert (k mod N.of_nat (length (a :: l)) < N.of_nat (length (a :: l))) by (apply N.mod_lt; cbn [length]; lia).
  lia.
Qed.

Lemma mod_lt_nch k en ch0 chs : chans en = ch0 :: chs -> k mod N.of_nat (length (ch0 :: chs)) < nch en.
Proof. intros E. unfold nch. rewrite E. apply N.mod_lt. cbn [length]. lia. Qed.

Lemma step_facts cf0 s en e :
  let r := step cf0 (s, en) e in
  StepFacts s en (fst (fst (fst r))) (snd (fst (fst r))) (snd (fst r)) (snd r).
Proof.
  destruct e; cbn [step].
  - match goal with |- context [h_send s p dial len tag ?fb0 ?a0 ?b0 ?c0] => pose proof (send_Q s p dial len tag fb0 a0 b0 c0) as H end.
    destruct (h_send _ _ _ _ _ _ _ _ _) as [s1 o]. cbn [fst snd] in *. apply Q_facts; [exact H|].
    destruct (memN p (peers s)); [destruct (conn_of p en); [destruct (open_ok p en)|]|]; unfold nch; cbn [chans]; lia.
  - pose proof (cancel_Q s rid) as H. destruct (h_cancel s rid) as [s1 o]. cbn [fst snd] in *.
    apply Q_facts; [exact H|lia].
  - destruct (conn_of p en); cbn [fst snd]; [apply Q_facts; [apply Q_refl|lia]|].
    match goal with |- context [h_established s p ?n ?sd] => pose proof (established_Q s p n sd) as H end.
    destruct (h_established _ _ _ _) as [s1 o]. cbn [fst snd] in *. apply Q_facts; [exact H|unfold nch; cbn [chans]; lia].
  - destruct (conn_of p en); cbn [fst snd]; [|apply Q_facts; [apply Q_refl|lia]].
    pose proof (closed_Q s p) as H. destruct (h_closed s p) as [s1 o]. cbn [fst snd] in *.
    apply Q_facts; [exact H|unfold nch; cbn [chans]; lia].
  - pose proof (dialfail_Q s p) as H. destruct (h_dialfail s p) as [s1 o]. cbn [fst snd] in *.
    apply Q_facts; [exact H|lia].
  - (* opened *)
    destruct (nth_mod k (opens en)) as [[sid q]|]; cbn [fst snd]; [|apply Q_facts; [apply Q_refl|lia]].
    unfold h_opened. destruct (find_po sid (pouts s)) as [po|].
    + pose proof (opened_body_futs cf0 s po (N.of_nat (length (chans en))) (N.min gate 2) (now en) neg) as F.
      pose proof (opened_body_rdrs cf0 s po (N.of_nat (length (chans en))) (N.min gate 2) (now en) neg) as R.
      pose proof (opened_body_plain cf0 s po (N.of_nat (length (chans en))) (N.min gate 2) (now en) neg) as P.
      destruct (opened_body _ _ _ _ _ _ _) as [s1 o]. cbn [fst snd] in *.
      assert (L : nch en < nch (mkE (aux_of en) (next_sid en) (conns en) (filter (fun x => negb (fst x =? sid)) (opens en))
                                  (chans en ++ [mkCh (N.min gate 2)
                                     (existsb (fun x => match x with OWire _ _ _ => true | _ => false end)
                                              (OBind (N.of_nat (length (chans en))) (q_rid (po_req po)) :: o)) true])
                                  (now en) (hpend en))).
      { unfold nch. cbn [chans]. rewrite app_length. cbn [length]. lia. }
      constructor.
      * lia.
      * intros g Hg. destruct (F g Hg) as [H|[E1 E2]]; [left; exists g; auto|].
        right. left. rewrite E1, E2. reflexivity.
      * intros c rid [H|H]; [|destruct (calml_nobind _ _ _ (plain_calm _ P) H)].
        injection H as <- <-. split; [reflexivity|]. split; [exact L|].
        intros rid' [H'|H']; [injection H' as <-; reflexivity|destruct (calml_nobind _ _ _ (plain_calm _ P) H')].
      * intros rd H. left. rewrite <- R. exact H.
      * intros H. cbn [has_req existsb] in H. change (existsb _ o) with (has_req o) in H.
        rewrite (calml_noreq _ (plain_calm _ P)) in H. discriminate.
    + cbn [fst snd]. apply Q_facts; [apply Q_refl|]. unfold nch. cbn [chans]. rewrite app_length. lia.
  - destruct (nth_mod k (opens en)) as [[sid q]|]; cbn [fst snd]; [|apply Q_facts; [apply Q_refl|lia]].
    pose proof (openfail_Q s sid unsupported) as H. destruct (h_openfail _ _ _) as [s1 o]. cbn [fst snd] in *.
    apply Q_facts; [exact H|unfold nch; cbn [chans]; lia].
  - (* unblock *)
    destruct (chans en) as [|ch0 chs] eqn:CH; cbn [fst snd]; [apply Q_facts; [apply Q_refl|lia]|].
    destruct (nth_error _ _) as [ch|]; cbn [fst snd]; [|apply Q_facts; [apply Q_refl|lia]].
    destruct (c_gate ch =? 0); cbn [fst snd]; [|apply Q_facts; [apply Q_refl|lia]].
    pose proof (unblock_Q cf0 s (k mod N.of_nat (length (ch0 :: chs))) (now en)) as H.
    destruct (fut_unblock _ _ _ _) as [s1 o1]. cbn [fst snd] in H.
    pose proof (rsp_gate_Q s1 (k mod N.of_nat (length (ch0 :: chs))) true) as H2.
    destruct (rsp_gate _ _ _) as [s2 o2]. cbn [fst snd] in *.
    apply Q_facts; [exact (Q_trans _ _ _ _ _ H H2)|].
    unfold nch. cbn [chans]. rewrite CH, set_chan_len by apply mod_lt_len. lia.
  - destruct (chans en) as [|ch0 chs] eqn:CH; cbn [fst snd]; [apply Q_facts; [apply Q_refl|lia]|].
    destruct (nth_error _ _) as [ch|]; cbn [fst snd]; [|apply Q_facts; [apply Q_refl|lia]].
    destruct (c_gate ch =? 2); cbn [fst snd]; [apply Q_facts; [apply Q_refl|lia]|].
    pose proof (breakw_Q s (k mod N.of_nat (length (ch0 :: chs)))) as H.
    destruct (fut_breakw _ _) as [s1 o1]. cbn [fst snd] in H.
    pose proof (rsp_gate_Q s1 (k mod N.of_nat (length (ch0 :: chs))) false) as H2.
    destruct (rsp_gate _ _ _) as [s2 o2]. cbn [fst snd] in *.
    apply Q_facts; [exact (Q_trans _ _ _ _ _ H H2)|].
    unfold nch. cbn [chans]. rewrite CH, set_chan_len by apply mod_lt_len. lia.
  - destruct (chans en) as [|ch0 chs] eqn:CH; cbn [fst snd]; [apply Q_facts; [apply Q_refl|lia]|].
    destruct (nth_error _ _) as [ch|]; cbn [fst snd]; [|apply Q_facts; [apply Q_refl|lia]].
    destruct (c_out ch && c_seen ch); cbn [fst snd]; [|apply Q_facts; [apply Q_refl|lia]].
    match goal with |- context [fut_read s ?c ?r] =>
      pose proof (read_Q s c r) as H; destruct (fut_read s c r) as [s1 o] end. cbn [fst snd] in *.
    apply Q_facts; [exact H|lia].
  - destruct (chans en) as [|ch0 chs] eqn:CH; cbn [fst snd]; [apply Q_facts; [apply Q_refl|lia]|].
    destruct (nth_error _ _) as [ch|]; cbn [fst snd]; [|apply Q_facts; [apply Q_refl|lia]].
    destruct (c_out ch); [destruct (c_seen ch)|]; cbn [fst snd]; try (apply Q_facts; [apply Q_refl|lia]).
    + match goal with |- context [fut_read s ?c ?r] =>
        pose proof (read_Q s c r) as H; destruct (fut_read s c r) as [s1 o] end. cbn [fst snd] in *.
      apply Q_facts; [exact H|lia].
    + match goal with |- context [h_inread s ?c ?g ?l ?t] =>
        pose proof (inread_bad_plain s c l t) as P; pose proof (inread_rdrs s c g l t) as R;
        pose proof (inread_futs s c g l t) as F; destruct (h_inread s c g l t) as [s1 o] end. cbn [fst snd] in *.
      constructor; [lia| | | |].
      * intros g Hg. left. rewrite F in Hg. exists g. auto.
      * intros c rid H. destruct (calml_nobind _ _ _ (plain_calm _ P) H).
      * intros rd H. left. rewrite R in H. unfold drop_rd in H. apply filter_In in H. tauto.
      * intros H. rewrite (calml_noreq _ (plain_calm _ P)) in H. discriminate.
  - destruct (chans en) as [|ch0 chs] eqn:CH; cbn [fst snd]; [apply Q_facts; [apply Q_refl|lia]|].
    destruct (nth_error _ _) as [ch|]; cbn [fst snd]; [|apply Q_facts; [apply Q_refl|lia]].
    destruct (c_out ch); [destruct (c_seen ch)|]; cbn [fst snd]; try (apply Q_facts; [apply Q_refl|lia]).
    + match goal with |- context [fut_read s ?c ?r] =>
        pose proof (read_Q s c r) as H; destruct (fut_read s c r) as [s1 o] end. cbn [fst snd] in *.
      apply Q_facts; [exact H|lia].
    + match goal with |- context [h_inread s ?c ?g ?l ?t] =>
        pose proof (inread_bad_plain s c l t) as P; pose proof (inread_rdrs s c g l t) as R;
        pose proof (inread_futs s c g l t) as F; destruct (h_inread s c g l t) as [s1 o] end. cbn [fst snd] in *.
      constructor; [lia| | | |].
      * intros g Hg. left. rewrite F in Hg. exists g. auto.
      * intros c rid H. destruct (calml_nobind _ _ _ (plain_calm _ P) H).
      * intros rd H. left. rewrite R in H. unfold drop_rd in H. apply filter_In in H. tauto.
      * intros H. rewrite (calml_noreq _ (plain_calm _ P)) in H. discriminate.
  - (* advance *)
    pose proof (advance_Q s (now en + dt)) as H.
    destruct (fut_advance s (now en + dt)) as [s1 o]. cbn [fst snd] in *.
    apply Q_facts; [|unfold nch; cbn [chans]; lia].
    destruct H as (A & B & C). split; [apply calml_app; [exact A|apply plain_calm, adv_out_plain]|split; [exact B|exact C]].
  - (* inbound substream *)
    destruct (conn_of p en); cbn [fst snd]; [|apply Q_facts; [apply Q_refl|lia]].
    pose proof (inopen_shape cf0 s p (N.of_nat (length (chans en))) neg) as (O & F & R).
    destruct (h_inopen _ _ _ _ _) as [s1 o]. cbn [fst snd] in *. subst o.
    assert (L : nch en < nch (mkE (aux_of en) (next_sid en) (conns en) (opens en) (chans en ++ [mkCh (N.min gate 2) false false])
                                (now en) (hpend en))).
    { unfold nch. cbn [chans]. rewrite app_length. cbn [length]. lia. }
    constructor; [lia| | | |].
    + intros g Hg. left. rewrite F in Hg. exists g. auto.
    + intros c rid [].
    + intros rd H. destruct R as [R|[irid R]]; rewrite R in H; [left; exact H|].
      apply in_app_or in H. destruct H as [H|[<-|[]]]; [left; exact H|right]. split; [reflexivity|exact L].
    + intros H. discriminate.
  - (* inbound request *)
    destruct (chans en) as [|ch0 chs] eqn:CH; cbn [fst snd]; [apply Q_facts; [apply Q_refl|lia]|].
    destruct (nth_error _ _) as [ch|]; cbn [fst snd]; [|apply Q_facts; [apply Q_refl|lia]].
    destruct (negb (c_out ch)); cbn [fst snd]; [|apply Q_facts; [apply Q_refl|lia]].
    set (c := k mod N.of_nat (length (ch0 :: chs))).
    pose proof (inread_rdrs s c (len <=? max_size cf0) len tag) as R.
    pose proof (inread_futs s c (len <=? max_size cf0) len tag) as F.
    assert (O : plainl (snd (h_inread s c (len <=? max_size cf0) len tag)) \/
                exists rd, find_rd c (rdrs s) = Some rd /\
                           snd (h_inread s c (len <=? max_size cf0) len tag) = OReq (r_irid rd) (r_peer rd) len tag :: fbl_req rd).
    { destruct (len <=? max_size cf0); [|left; apply inread_bad_plain].
      destruct (inread_good_shape s c len tag) as [[E|E] _]; [left; rewrite E; reflexivity|right; exact E]. }
    destruct (h_inread s c _ len tag) as [s1 o]. cbn [fst snd] in *.
    assert (L : nch en <= nch (mkE (aux_of en) (next_sid en) (conns en) (opens en)
                                 (set_chan c (mkCh (c_gate ch) true false) (ch0 :: chs)) (now en) (hpend en ++ sent_of o))).
    { unfold nch. cbn [chans]. rewrite CH, set_chan_len by apply mod_lt_len. lia. }
    constructor; [exact L| | | |].
    + intros g Hg. left. rewrite F in Hg. exists g. auto.
    + intros c' rid H. exfalso. destruct O as [P|[rd [_ E]]].
      * exact (calml_nobind _ _ _ (plain_calm _ P) H).
      * rewrite E in H. destruct H as [H|H]; [discriminate|].
        exact (calml_nobind _ _ _ (plain_calm _ (fbl_req_plain rd)) H).
    + intros rd H. left. rewrite R in H. unfold drop_rd in H. apply filter_In in H. tauto.
    + intros H. destruct O as [P|[rd [Fd E]]]; [rewrite (calml_noreq _ (plain_calm _ P)) in H; discriminate|].
      exists c. split; [reflexivity|]. split; [exact (mod_lt_nch k en ch0 chs CH)|]. split.
      * apply find_some in Fd. destruct Fd as [A B]. exists rd. split; [exact A|apply N.eqb_eq; exact B].
      * intros rd' H'. rewrite R in H'. unfold drop_rd in H'. apply filter_In in H'. destruct H' as [_ H'].
        intros E'. rewrite E', N.eqb_refl in H'. discriminate.
  - destruct (nth_mod k (hpend en)) as [irid|]; cbn [fst snd]; [|apply Q_facts; [apply Q_refl|lia]].
    match goal with |- context [h_uresp cf0 s ?a ?b ?c ?f ?d ?e] =>
      pose proof (uresp_Q cf0 s a b c f d e) as H; destruct (h_uresp cf0 s a b c f d e) as [s1 o] end. cbn [fst snd] in *.
    apply Q_facts; [exact H|unfold nch; cbn [chans]; lia].
  - destruct (nth_mod k (hpend en)) as [irid|]; cbn [fst snd]; [|apply Q_facts; [apply Q_refl|lia]].
    unfold h_urej. cbn [fst snd]. apply Q_facts; [|unfold nch; cbn [chans]; lia].
    split; [reflexivity|split; [apply FutsPrev_same; reflexivity|reflexivity]].
  - cbn [fst snd]. apply Q_facts; [apply Q_refl|unfold nch; cbn [chans]; lia].
  - unfold h_burn. cbn [fst snd]. apply Q_facts; [|lia].
    split; [reflexivity|split; [apply FutsPrev_same; reflexivity|reflexivity]].
  - cbn [fst snd]. apply Q_facts; [apply Q_refl|unfold nch, with_aux; cbn [chans]; lia].
  - cbn [fst snd]. apply Q_facts; [apply Q_refl|unfold nch, with_aux; cbn [chans]; lia].
  - cbn [fst snd]. apply Q_facts; [apply Q_refl|unfold nch, with_aux; cbn [chans]; lia].
  - cbn [fst snd]. apply Q_facts; [apply Q_refl|unfold nch, with_aux; cbn [chans]; lia].
Qed.

(* what one step can emit *)
Lemma step_shape cf0 s en e :
  let r := step cf0 (s, en) e in
  let o := snd (fst r) in
  plainl o \/
  (exists k g ng c po o', e = EOpened k g ng /\ o = OBind c (rid_po po) :: o' /\ plainl o' /\ In po (pouts s) /\
                       fst (fst (fst r)) = fst (opened_body cf0 s po c (N.min g 2) (now en) ng)) \/
  (exists k len tag c f, e = ERespond k len tag /\ snd r = Some c /\ find_fut c (futs s) = Some f /\
                         o = OResp (rid_f f) len tag :: fbl_resp f) \/
  (exists k len tag c rd, e = EInReq k len tag /\ snd r = Some c /\ find_rd c (rdrs s) = Some rd /\
                          o = OReq (r_irid rd) (r_peer rd) len tag :: fbl_req rd).
Proof.
  destruct e; cbn [step].
  - left. match goal with |- context [h_send s p dial len tag ?fb0 ?a0 ?b0 ?c0] => pose proof (send_plain s p dial len tag fb0 a0 b0 c0) as H end.
    destruct (h_send _ _ _ _ _ _ _ _ _) as [s1 o]. exact H.
  - left. pose proof (cancel_plain s rid) as H. destruct (h_cancel s rid) as [s1 o]. exact H.
  - left. destruct (conn_of p en); cbn [fst snd]; [reflexivity|].
    match goal with |- context [h_established s p ?n ?sd] => pose proof (established_plain s p n sd) as H end.
    destruct (h_established _ _ _ _) as [s1 o]. exact H.
  - left. destruct (conn_of p en); cbn [fst snd]; [|reflexivity].
    pose proof (closed_plain s p) as H. destruct (h_closed s p) as [s1 o]. exact H.
  - left. pose proof (dialfail_plain s p) as H. destruct (h_dialfail s p) as [s1 o]. exact H.
  - destruct (nth_mod k (opens en)) as [[sid q]|]; cbn [fst snd]; [|left; reflexivity].
    unfold h_opened. destruct (find_po sid (pouts s)) as [po|] eqn:F; [|left; reflexivity].
    pose proof (opened_body_plain cf0 s po (N.of_nat (length (chans en))) (N.min gate 2) (now en) neg) as P.
    destruct (opened_body cf0 s po (N.of_nat (length (chans en))) (N.min gate 2) (now en) neg) as [s1 o] eqn:OB.
    cbn [fst snd] in *.
    right. left. exists k, gate, neg, (N.of_nat (length (chans en))), po, o.
    split; [reflexivity|]. split; [reflexivity|]. split; [exact P|]. split; [exact (proj1 (find_in _ _ _ F))|rewrite OB; reflexivity].
  - left. destruct (nth_mod k (opens en)) as [[sid q]|]; cbn [fst snd]; [|reflexivity].
    pose proof (openfail_plain s sid unsupported) as H. destruct (h_openfail _ _ _) as [s1 o]. exact H.
  - left. destruct (chans en) as [|ch0 chs] eqn:CH; cbn [fst snd]; [reflexivity|].
    destruct (nth_error _ _) as [ch|]; cbn [fst snd]; [|reflexivity].
    destruct (c_gate ch =? 0); cbn [fst snd]; [|reflexivity].
    pose proof (unblock_plain cf0 s (k mod N.of_nat (length (ch0 :: chs))) (now en)) as H.
    destruct (fut_unblock _ _ _ _) as [s1 o1]. cbn [fst snd] in H.
    pose proof (rsp_gate_plain s1 (k mod N.of_nat (length (ch0 :: chs))) true) as H2.
    destruct (rsp_gate _ _ _) as [s2 o2]. cbn [fst snd] in *. apply plainl_app; assumption.
  - left. destruct (chans en) as [|ch0 chs] eqn:CH; cbn [fst snd]; [reflexivity|].
    destruct (nth_error _ _) as [ch|]; cbn [fst snd]; [|reflexivity].
    destruct (c_gate ch =? 2); cbn [fst snd]; [reflexivity|].
    pose proof (breakw_plain s (k mod N.of_nat (length (ch0 :: chs)))) as H.
    destruct (fut_breakw _ _) as [s1 o1]. cbn [fst snd] in H.
    pose proof (rsp_gate_plain s1 (k mod N.of_nat (length (ch0 :: chs))) false) as H2.
    destruct (rsp_gate _ _ _) as [s2 o2]. cbn [fst snd] in *. apply plainl_app; assumption.
  - (* respond *)
    destruct (chans en) as [|ch0 chs] eqn:CH; cbn [fst snd]; [left; reflexivity|].
    destruct (nth_error _ _) as [ch|]; cbn [fst snd]; [|left; reflexivity].
    destruct (c_out ch && c_seen ch); cbn [fst snd]; [|left; reflexivity].
    destruct (len <=? max_size cf0).
    + destruct (read_ok_shape s (k mod N.of_nat (length (ch0 :: chs))) len tag) as [P|[f [F E]]];
        destruct (fut_read _ _ _) as [s1 o]; cbn [fst snd] in *; [left; exact P|].
      right. right. left. exists k, len, tag, (k mod N.of_nat (length (ch0 :: chs))), f. auto.
    + pose proof (read_err_plain s (k mod N.of_nat (length (ch0 :: chs))) E_SUBSTREAM) as P.
      destruct (fut_read _ _ _) as [s1 o]. left. exact P.
  - left. destruct (chans en) as [|ch0 chs] eqn:CH; cbn [fst snd]; [reflexivity|].
    destruct (nth_error _ _) as [ch|]; cbn [fst snd]; [|reflexivity].
    destruct (c_out ch); [destruct (c_seen ch)|]; cbn [fst snd]; try reflexivity.
    + pose proof (read_err_plain s (k mod N.of_nat (length (ch0 :: chs))) E_SUB_CLOSED) as P.
      destruct (fut_read _ _ _) as [s1 o]. exact P.
    + pose proof (inread_bad_plain s (k mod N.of_nat (length (ch0 :: chs))) 0 0) as P.
      destruct (h_inread _ _ _ _ _) as [s1 o]. exact P.
  - left. destruct (chans en) as [|ch0 chs] eqn:CH; cbn [fst snd]; [reflexivity|].
    destruct (nth_error _ _) as [ch|]; cbn [fst snd]; [|reflexivity].
    destruct (c_out ch); [destruct (c_seen ch)|]; cbn [fst snd]; try reflexivity.
    + pose proof (read_err_plain s (k mod N.of_nat (length (ch0 :: chs))) E_SUB_CLOSED) as P.
      destruct (fut_read _ _ _) as [s1 o]. exact P.
    + pose proof (inread_bad_plain s (k mod N.of_nat (length (ch0 :: chs))) 0 0) as P.
      destruct (h_inread _ _ _ _ _) as [s1 o]. exact P.
  - left. pose proof (advance_plain s (now en + dt)) as H.
    destruct (fut_advance s (now en + dt)) as [s1 o]. cbn [fst snd] in *.
    apply plainl_app; [exact H|apply adv_out_plain].
  - left. destruct (conn_of p en); cbn [fst snd]; [|reflexivity].
    pose proof (inopen_shape cf0 s p (N.of_nat (length (chans en))) neg) as (O & _).
    destruct (h_inopen _ _ _ _ _) as [s1 o]. cbn [fst snd] in *. subst o. reflexivity.
  - (* inbound request *)
    destruct (chans en) as [|ch0 chs] eqn:CH; cbn [fst snd]; [left; reflexivity|].
    destruct (nth_error _ _) as [ch|]; cbn [fst snd]; [|left; reflexivity].
    destruct (negb (c_out ch)); cbn [fst snd]; [|left; reflexivity].
    destruct (len <=? max_size cf0).
    + destruct (inread_good_shape s (k mod N.of_nat (length (ch0 :: chs))) len tag) as [[E|[rd [F E]]] _];
        destruct (h_inread _ _ _ _ _) as [s1 o]; cbn [fst snd] in *; [left; rewrite E; reflexivity|].
      right. right. right. exists k, len, tag, (k mod N.of_nat (length (ch0 :: chs))), rd. auto.
    + pose proof (inread_bad_plain s (k mod N.of_nat (length (ch0 :: chs))) len tag) as P.
      destruct (h_inread _ _ _ _ _) as [s1 o]. left. exact P.
  - left. destruct (nth_mod k (hpend en)) as [irid|]; cbn [fst snd]; [|reflexivity].
    match goal with |- context [h_uresp cf0 s ?a ?b ?c ?f ?d ?e] =>
      pose proof (uresp_plain cf0 s a b c f d e) as H; destruct (h_uresp cf0 s a b c f d e) as [s1 o] end. exact H.
  - left. destruct (nth_mod k (hpend en)) as [irid|]; cbn [fst snd]; reflexivity.
  - left. reflexivity.
  - left. reflexivity.
  - left. reflexivity.
  - left. reflexivity.
  - left. reflexivity.
  - left. reflexivity.
Qed.

(* ------------------------------------------------------------------ carriers: binding and use *)

Record Inv4 (s : pst) (en : env) (tr : list out) (used : list N) : Prop := mkInv4 {
  b_fut : forall f, In f (futs s) -> In (OBind (f_chan f) (rid_f f)) tr;
  b_lt : forall c rid, In (OBind c rid) tr -> c < nch en;
  b_fun : forall c r1 r2, In (OBind c r1) tr -> In (OBind c r2) tr -> r1 = r2;
  u_lt : forall c, In c used -> c < nch en;
  u_rd : forall c, In c used -> forall rd, In rd (rdrs s) -> r_chan rd <> c;
  r_lt : forall rd, In rd (rdrs s) -> r_chan rd < nch en;
  u_nd : NoDup used
}.

Lemma Inv4_init : Inv4 init_pst init_env [] [].
Proof. constructor; try (intros; contradiction); try (intros ? ? []); try (intros ? ? ? []); constructor. Qed.

Definition new_used (o : list out) (tg : option N) : list N :=
  match tg with Some c => if has_req o then [c] else [] | None => [] end.

Lemma NoDup_snoc {A} (l : list A) x : NoDup l -> ~ In x l -> NoDup (l ++ [x]).
Proof.
  induction l as [|a l IH]; intros N H; [constructor; [intros []|constructor]|].
  inversion N; subst. cbn. constructor.
  - intros Hin. apply in_app_or in Hin. destruct Hin as [Hin|[<-|[]]]; [contradiction|]. apply H. left. reflexivity.
  - apply IH; [assumption|]. intros Hin. apply H. right. exact Hin.
Qed.

Lemma Inv4_step s en tr used s' en' o tg :
  Inv4 s en tr used -> StepFacts s en s' en' o tg -> Inv4 s' en' (tr ++ o) (used ++ new_used o tg).
Proof.
  intros [B1 B2 B3 U1 U2 R1 U3] [L F B R Q0].
  assert (Hnew : forall c, In c (new_used o tg) ->
            c < nch en /\ (exists rd, In rd (rdrs s) /\ r_chan rd = c) /\ forall rd, In rd (rdrs s') -> r_chan rd <> c).
  { intros c H. unfold new_used in H. destruct tg as [c0|]; [|destruct H].
    destruct (has_req o) eqn:E; [|destruct H]. destruct H as [<-|[]].
    destruct (Q0 eq_refl) as [c1 [E1 H]]. injection E1 as <-. exact H. }
  constructor.
  - intros g Hg. apply in_or_app. destruct (F g Hg) as [[f [Hf [E1 E2]]]|H]; [left|right; exact H].
    rewrite <- E1, <- E2. exact (B1 f Hf).
  - intros c rid H. apply in_app_or in H. destruct H as [H|H]; [specialize (B2 c rid H); lia|].
    destruct (B c rid H) as [-> [H1 _]]. exact H1.
  - intros c r1 r2 H1 H2. apply in_app_or in H1. apply in_app_or in H2.
    destruct H1 as [H1|H1], H2 as [H2|H2].
    + exact (B3 c r1 r2 H1 H2).
    + destruct (B c r2 H2) as [-> _]. specialize (B2 _ _ H1). lia.
    + destruct (B c r1 H1) as [-> _]. specialize (B2 _ _ H2). lia.
    + destruct (B c r2 H2) as [_ [_ H]]. exact (H r1 H1).
  - intros c H. apply in_app_or in H. destruct H as [H|H]; [specialize (U1 c H); lia|].
    destruct (Hnew c H) as [H1 _]. lia.
  - intros c H rd Hrd. apply in_app_or in H. destruct H as [H|H].
    + destruct (R rd Hrd) as [Hold|[E _]]; [exact (U2 c H rd Hold)|]. specialize (U1 c H). lia.
    + destruct (Hnew c H) as [_ [_ H3]]. exact (H3 rd Hrd).
  - intros rd Hrd. destruct (R rd Hrd) as [Hold|[E H]]; [specialize (R1 rd Hold); lia|lia].
  - unfold new_used in *. destruct tg as [c|]; [|rewrite app_nil_r; exact U3].
    destruct (has_req o) eqn:E; [|rewrite app_nil_r; exact U3].
    apply NoDup_snoc; [exact U3|]. intros Hin.
    destruct (Hnew c (or_introl eq_refl)) as [_ [[rd [Hrd Erd]] _]]. exact (U2 c Hin rd Hrd Erd).
Qed.

Lemma step_Inv4 cf0 s en e tr used :
  Inv4 s en tr used ->
  let r := step cf0 (s, en) e in
  Inv4 (fst (fst (fst r))) (snd (fst (fst r))) (tr ++ snd (fst r)) (used ++ new_used (snd (fst r)) (snd r)).
Proof. intros I r. apply (Inv4_step s en); [exact I|apply step_facts]. Qed.

Lemma outs_of_cons x l : outs_of (x :: l) = snd (fst x) ++ outs_of l.
Proof. reflexivity. Qed.
Lemma req_chans_cons x l : req_chans (x :: l) = new_used (snd (fst x)) (snd x) ++ req_chans l.
Proof. reflexivity. Qed.

Lemma run_outs cf0 evs : forall st, snd (run cf0 st evs) = outs_of (run_steps cf0 st evs).
Proof.
  induction evs as [|e evs IH]; intros st; cbn [run run_steps]; [reflexivity|].
  destruct (step cf0 st e) as [[st1 o] tg]. specialize (IH st1).
  destruct (run cf0 st1 evs) as [st2 o2]. cbn [snd] in *. rewrite outs_of_cons. cbn [fst snd]. rewrite IH. reflexivity.
Qed.

Lemma steps_Inv4 cf0 evs : forall s en tr used,
  Inv4 s en tr used ->
  exists s' en', Inv4 s' en' (tr ++ outs_of (run_steps cf0 (s, en) evs))
                              (used ++ req_chans (run_steps cf0 (s, en) evs)).
Proof.
  induction evs as [|e evs IH]; intros s en tr used I; cbn [run_steps].
  - exists s, en. cbn. rewrite !app_nil_r. exact I.
  - pose proof (step_Inv4 cf0 s en e tr used I) as H. cbn zeta in H.
    destruct (step cf0 (s, en) e) as [[[s1 en1] o] tg]. cbn [fst snd] in H.
    destruct (IH s1 en1 _ _ H) as [s2 [en2 J]]. exists s2, en2.
    rewrite outs_of_cons, req_chans_cons. cbn [fst snd]. rewrite !app_assoc. exact J.
Qed.

(* every recorded step is a step of the model from some state *)
Lemma steps_are_steps cf0 evs : forall st x,
  In x (run_steps cf0 st evs) ->
  exists s en, snd (fst x) = snd (fst (step cf0 (s, en) (fst (fst x)))) /\ snd x = snd (step cf0 (s, en) (fst (fst x))).
Proof.
  induction evs as [|e evs IH]; intros [s en] x; cbn [run_steps]; [intros []|].
  destruct (step cf0 (s, en) e) as [[st1 o] tg] eqn:E. intros [<-|H].
  - exists s, en. cbn [fst snd]. rewrite E. auto.
  - exact (IH st1 x H).
Qed.

Lemma plain_not_resp o a b c : plainl o -> ~ In (OResp a b c) o.
Proof. intros P H. pose proof (plainl_in _ _ P H). discriminate. Qed.
Lemma plain_not_req o a b c d : plainl o -> ~ In (OReq a b c d) o.
Proof. intros P H. pose proof (plainl_in _ _ P H). discriminate. Qed.

(* Payload pairing, generalised over the start state. *)
Lemma payload_gen cf0 evs : forall s en tr used,
  Inv4 s en tr used ->
  forall pre e o tg post rid len tag,
    run_steps cf0 (s, en) evs = pre ++ (e, o, tg) :: post ->
    In (OResp rid len tag) o ->
    exists k c, e = ERespond k len tag /\ tg = Some c /\ In (OBind c rid) (tr ++ outs_of pre).
Proof.
  induction evs as [|e0 evs IH]; intros s en tr used I pre e o tg post rid len tag E Hin; cbn [run_steps] in E.
  - destruct pre; discriminate.
  - pose proof (step_Inv4 cf0 s en e0 tr used I) as I1. pose proof (step_shape cf0 s en e0) as Sh. cbn zeta in *.
    destruct (step cf0 (s, en) e0) as [[[s1 en1] o0] tg0]. cbn [fst snd] in *.
    destruct pre as [|x pre]; cbn [app] in E.
    + injection E as -> -> -> _. rewrite app_nil_r.
      destruct Sh as [P|[[k0 [g0 [n0 [c [po [o' [_ [Eo [P _]]]]]]]]]|[[k [l [t [c [f [-> [-> [F Eo]]]]]]]]|[k [l [t [c [rd [_ [_ [_ Eo]]]]]]]]]]]; try subst o.
      * destruct (plain_not_resp _ _ _ _ P Hin).
      * destruct Hin as [Hin|Hin]; [discriminate|destruct (plain_not_resp _ _ _ _ P Hin)].
      * destruct Hin as [Hin|Hin]; [|destruct (plain_not_resp _ _ _ _ (fbl_resp_plain f) Hin)].
        injection Hin as <- <- <-.
        apply find_some in F. destruct F as [Hf Hc]. apply N.eqb_eq in Hc.
        exists k, c. split; [reflexivity|]. split; [reflexivity|]. rewrite <- Hc. exact (b_fut _ _ _ _ I f Hf).
      * destruct Hin as [Hin|Hin]; [discriminate|destruct (plain_not_resp _ _ _ _ (fbl_req_plain rd) Hin)].
    + injection E as <- E2. destruct (IH s1 en1 _ _ I1 pre e o tg post rid len tag E2 Hin) as [k [c [A [B C]]]].
      exists k, c. split; [exact A|]. split; [exact B|]. rewrite outs_of_cons. cbn [fst snd].
      rewrite app_assoc. exact C.
Qed.

Theorem payload_pairing cf0 evs pre e o tg post rid len tag :
  run_steps cf0 (init_pst, init_env) evs = pre ++ (e, o, tg) :: post ->
  In (OResp rid len tag) o ->
  exists k c,
    e = ERespond k len tag /\ tg = Some c /\
    In (OBind c rid) (outs_of pre) /\
    forall rid', In (OBind c rid') (outs_of (run_steps cf0 (init_pst, init_env) evs)) -> rid' = rid.
Proof.
  intros E Hin.
  destruct (payload_gen cf0 evs _ _ _ _ Inv4_init pre e o tg post rid len tag E Hin) as [k [c [A [B C]]]].
  cbn [app] in C. exists k, c. split; [exact A|]. split; [exact B|]. split; [exact C|].
  destruct (steps_Inv4 cf0 evs _ _ _ _ Inv4_init) as [s' [en' J]]. cbn [app] in J.
  intros rid' H. apply (b_fun _ _ _ _ J c); [exact H|].
  rewrite E. unfold outs_of. rewrite flat_map_app. apply in_or_app. left. exact C.
Qed.

Theorem responder_once cf0 evs :
  let steps := run_steps cf0 (init_pst, init_env) evs in
  NoDup (req_chans steps) /\
  forall e o tg irid p len tag,
    In (e, o, tg) steps -> In (OReq irid p len tag) o ->
    exists k c rest, e = EInReq k len tag /\ tg = Some c /\ o = OReq irid p len tag :: rest /\ has_req rest = false.
Proof.
  intros steps. split.
  - destruct (steps_Inv4 cf0 evs _ _ _ _ Inv4_init) as [s' [en' J]]. exact (u_nd _ _ _ _ J).
  - intros e o tg irid p len tag Hin Hreq.
    destruct (steps_are_steps cf0 evs _ _ Hin) as [s [en [Eo Et]]]. cbn [fst snd] in *.
    pose proof (step_shape cf0 s en e) as Sh. cbn zeta in Sh. rewrite <- Eo, <- Et in Sh.
    destruct Sh as [P|[[k0 [g0 [n0 [c [po [o' [_ [E1 [P _]]]]]]]]]|[[k [l [t [c [f [_ [_ [_ E1]]]]]]]]|[k [l [t [c [rd [-> [-> [_ E1]]]]]]]]]]].
    + destruct (plain_not_req _ _ _ _ _ P Hreq).
    + rewrite E1 in Hreq. destruct Hreq as [H|H]; [discriminate|destruct (plain_not_req _ _ _ _ _ P H)].
    + rewrite E1 in Hreq. destruct Hreq as [H|H]; [discriminate|destruct (plain_not_req _ _ _ _ _ (fbl_resp_plain f) H)].
    + rewrite E1 in Hreq. destruct Hreq as [H|H]; [|destruct (plain_not_req _ _ _ _ _ (fbl_req_plain rd) H)].
      injection H as <- <- <- <-. exists k, c, (fbl_req rd). repeat split; [exact E1|].
      exact (calml_noreq _ (plain_calm _ (fbl_req_plain rd))).
Qed.

(* ------------------------------------------------------------------ a request is handed to one carrier only *)

(* known ids never (re-)enter the dial queue or the set of substreams being opened *)
Definition DP (s s' : pst) : Prop :=
  next_rid s <= next_rid s' /\
  forall r, r < next_rid s -> (cd r s' + cp r s' <= cd r s + cp r s)%nat.

Definition Keep3 (s s' : pst) : Prop :=
  dials s' = dials s /\ pouts s' = pouts s /\ next_rid s <= next_rid s'.

Lemma Keep3_DP s s' : Keep3 s s' -> DP s s'.
Proof. intros (D & P & N). split; [exact N|]. intros r _. unf. rewrite D, P. lia. Qed.
Lemma Keep3_refl s : Keep3 s s.
Proof. repeat split; lia. Qed.
Lemma Keep3_trans s s1 s2 : Keep3 s s1 -> Keep3 s1 s2 -> Keep3 s s2.
Proof. intros (A & B & C) (D & E & F). repeat split; try congruence; lia. Qed.
Lemma DP_trans s s1 s2 : DP s s1 -> DP s1 s2 -> DP s s2.
Proof.
  intros [A B] [C D]. split; [lia|]. intros r H. specialize (B r H). specialize (D r ltac:(lia)). lia.
Qed.

Ltac keep3_crush :=
  unfold Keep3;
  repeat match goal with
         | |- context [match ?x with _ => _ end] => destruct x
         end; cbn; repeat split; try reflexivity; lia.

Lemma settle_Keep3 s p rid res : Keep3 s (fst (settle s p rid res)).
Proof. unfold settle. keep3_crush. Qed.
Lemma complete_Keep3 s f res : Keep3 s (fst (complete s f res)).
Proof. unfold complete. exact (settle_Keep3 (set_futs s (drop_fut f (futs s))) _ _ _). Qed.
Lemma complete_all_Keep3 l : forall s res, Keep3 s (fst (complete_all s l res)).
Proof.
  induction l as [|f l IH]; intros s res; cbn [complete_all fst]; [apply Keep3_refl|].
  pose proof (complete_Keep3 s f res) as A. destruct (complete s f res) as [s1 o1]. cbn [fst] in A.
  pose proof (IH s1 res) as B. destruct (complete_all s1 l res) as [s2 o2]. cbn [fst] in *.
  exact (Keep3_trans _ _ _ A B).
Qed.
Lemma unblock_Keep3 cf0 s c now : Keep3 s (fst (fut_unblock cf0 s c now)).
Proof.
  unfold fut_unblock. destruct (find_fut c (futs s)) as [f|]; [|apply Keep3_refl].
  destruct (f_wait f); [apply Keep3_refl|]. destruct (f_cancel f); [|cbn [fst]; repeat split; cbn; lia].
  pose proof (complete_Keep3 s f (RErr E_CANCELED)) as H. destruct (complete s f _) as [s1 o]. exact H.
Qed.
Lemma breakw_Keep3 s c : Keep3 s (fst (fut_breakw s c)).
Proof.
  unfold fut_breakw. destruct (find_fut c (futs s)) as [f|]; [|apply Keep3_refl].
  destruct (f_wait f); [apply Keep3_refl|apply complete_Keep3].
Qed.
Lemma read_Keep3 s c res : Keep3 s (fst (fut_read s c res)).
Proof.
  unfold fut_read. destruct (find_fut c (futs s)) as [f|]; [|apply Keep3_refl].
  destruct (f_wait f); [|apply Keep3_refl].
  pose proof (complete_Keep3 s f res) as H. destruct (complete s f res) as [s1 o]. exact H.
Qed.
Lemma cancel_Keep3 s rid : Keep3 s (fst (h_cancel s rid)).
Proof.
  unfold h_cancel. destruct (find _ (futs s)) as [f|]; [|apply Keep3_refl].
  destruct (f_wait f); [apply complete_Keep3|cbn [fst]; repeat split; cbn; lia].
Qed.
Lemma same_ledger_Keep3 s s' : same_ledger s s' -> Keep3 s s'.
Proof. intros (D & _ & P & _ & N & _). repeat split; auto. Qed.

Lemma send_DP s p dial len tag fb ok dok sid : DP s (fst (h_send s p dial len tag fb ok dok sid)).
Proof.
  unfold h_send. simp_sets.
  destruct (memN p (peers s)); [destruct ok|destruct dial; cbn [negb]; [destruct (dial_accepted dok)|]]; cbn [fst];
    (split; [simp_sets; lia|]); intros r Hr; unf; simp_sets; rewrite ?map_app, ?cnt_app; cbn [map rid_po rid_d po_req snd q_rid];
    rewrite ?cnt_cons, ?cnt_nil; destruct (N.eqb_spec r (next_rid s)); lia.
Qed.

Lemma established_DP s p ok sid : DP s (fst (h_established s p ok sid)).
Proof.
  unfold h_established. destruct (memN p (peers s)); cbn [fst]; [apply Keep3_DP, Keep3_refl|]. simp_sets.
  assert (P : forall r, (cnt r (map rid_d (filter (fun d : N * req => N.eqb (fst d) p) (dials s))) +
                         cnt r (map rid_d (filter (fun d : N * req => negb (N.eqb (fst d) p)) (dials s))) = cd r s)%nat)
    by (intros r; apply (cnt_part rid_d (fun d : N * req => fst d =? p))).
  destruct (filter (fun d : N * req => fst d =? p) (dials s)) as [|d0 mine].
  - cbn [fst]. split; [simp_sets; lia|]. intros r _. specialize (P r). unf. simp_sets.
    cbn [map] in P. rewrite cnt_nil in P. lia.
  - pose proof (fun r => split_cnt rid_d ok (d0 :: mine) r) as Sp.
    destruct (firstn ok (d0 :: mine)) as [|y okl]; cbn [fst]; (split; [simp_sets; lia|]); intros r _;
      specialize (P r); specialize (Sp r); unf; simp_sets; rewrite ?map_app, ?cnt_app, ?number_pouts_rids; lia.
Qed.

Lemma closed_DP s p : DP s (fst (h_closed s p)).
Proof.
  unfold h_closed. simp_sets.
  pose proof (fun r => cnt_filter_le rid_po (fun po => negb (po_peer po =? p)) r (pouts s)) as PO.
  destruct (memN p (peers s)); cbn [fst]; (split; [simp_sets; lia|]); intros r _; specialize (PO r); unf; simp_sets; lia.
Qed.

Lemma dialfail_DP s p : DP s (fst (h_dialfail s p)).
Proof.
  unfold h_dialfail. cbn [fst]. split; [simp_sets; lia|]. intros r _. unf. simp_sets.
  pose proof (cnt_filter_le rid_d (fun d : N * req => negb (fst d =? p)) r (dials s)). lia.
Qed.

Lemma openfail_DP s sid u : DP s (fst (h_openfail s sid u)).
Proof.
  unfold h_openfail. destruct (find_po sid (pouts s)) as [po|]; cbn [fst]; [|apply Keep3_DP, Keep3_refl].
  split; [simp_sets; lia|]. intros r _. unf. simp_sets. unfold drop_po.
  pose proof (cnt_filter_le rid_po (fun x => negb (q_rid (po_req x) =? q_rid (po_req po))) r (pouts s)). lia.
Qed.

Lemma opened_body_dp cf0 s po c gate now neg :
  dials (fst (opened_body cf0 s po c gate now neg)) = dials s /\
  pouts (fst (opened_body cf0 s po c gate now neg)) = drop_po po (pouts s) /\
  next_rid (fst (opened_body cf0 s po c gate now neg)) = next_rid s.
Proof.
  unfold opened_body. cbn [q_rid q_len q_tag q_fb].
  assert (H : forall res, let s1 := fst (settle (set_pouts s (drop_po po (pouts s))) (po_peer po) (q_rid (po_req po)) res) in
                          dials s1 = dials s /\ pouts s1 = drop_po po (pouts s) /\ next_rid s1 = next_rid s).
  { intros res. unfold settle. destruct (_ && _); cbn; auto. }
  destruct (max_size cf0 <? _); [apply H|]. destruct gate as [|[x|x|]]; try apply H; cbn; auto.
Qed.

Lemma opened_DP cf0 s sid c gate now neg : DP s (fst (h_opened cf0 s sid c gate now neg)).
Proof.
  unfold h_opened. destruct (find_po sid (pouts s)) as [po|]; [|apply Keep3_DP, Keep3_refl].
  pose proof (opened_body_dp cf0 s po c gate now neg) as (D & P & N).
  destruct (opened_body _ _ _ _ _ _ _) as [s1 o]. cbn [fst] in *.
  split; [lia|]. intros r _. unf. rewrite D, P. unfold drop_po.
  pose proof (cnt_filter_le rid_po (fun x => negb (q_rid (po_req x) =? q_rid (po_req po))) r (pouts s)). lia.
Qed.

Lemma step_DP cf0 s en e : DP s (fst (fst (fst (step cf0 (s, en) e)))).
Proof.
  destruct e; cbn [step].
  - match goal with |- context [h_send s p dial len tag ?fb0 ?a0 ?b0 ?c0] => pose proof (send_DP s p dial len tag fb0 a0 b0 c0) as H end.
    destruct (h_send _ _ _ _ _ _ _ _ _) as [s1 o]. exact H.
  - pose proof (cancel_Keep3 s rid) as H. destruct (h_cancel s rid) as [s1 o]. exact (Keep3_DP _ _ H).
  - destruct (conn_of p en); cbn [fst]; [apply Keep3_DP, Keep3_refl|].
    match goal with |- context [h_established s p ?n ?sd] => pose proof (established_DP s p n sd) as H end. destruct (h_established _ _ _ _) as [s1 o]. exact H.
  - destruct (conn_of p en); cbn [fst]; [|apply Keep3_DP, Keep3_refl].
    pose proof (closed_DP s p) as H. destruct (h_closed s p) as [s1 o]. exact H.
  - pose proof (dialfail_DP s p) as H. destruct (h_dialfail s p) as [s1 o]. exact H.
  - destruct (nth_mod k (opens en)) as [[sid q]|]; cbn [fst]; [|apply Keep3_DP, Keep3_refl].
    pose proof (opened_DP cf0 s sid (N.of_nat (length (chans en))) (N.min gate 2) (now en) neg) as H.
    destruct (h_opened _ _ _ _ _ _ _) as [s1 o]. exact H.
  - destruct (nth_mod k (opens en)) as [[sid q]|]; cbn [fst]; [|apply Keep3_DP, Keep3_refl].
    pose proof (openfail_DP s sid unsupported) as H. destruct (h_openfail _ _ _) as [s1 o]. exact H.
  - destruct (chans en) as [|ch0 chs]; cbn [fst]; [apply Keep3_DP, Keep3_refl|].
    destruct (nth_error _ _) as [ch|]; cbn [fst]; [|apply Keep3_DP, Keep3_refl].
    destruct (c_gate ch =? 0); cbn [fst]; [|apply Keep3_DP, Keep3_refl].
    pose proof (unblock_Keep3 cf0 s (k mod N.of_nat (length (ch0 :: chs))) (now en)) as H.
    destruct (fut_unblock _ _ _ _) as [s1 o1]. cbn [fst] in H.
    pose proof (rsp_gate_same s1 (k mod N.of_nat (length (ch0 :: chs))) true) as [H2 _].
    destruct (rsp_gate _ _ _) as [s2 o2]. cbn [fst] in *.
    exact (Keep3_DP _ _ (Keep3_trans _ _ _ H (same_ledger_Keep3 _ _ H2))).
  - destruct (chans en) as [|ch0 chs]; cbn [fst]; [apply Keep3_DP, Keep3_refl|].
    destruct (nth_error _ _) as [ch|]; cbn [fst]; [|apply Keep3_DP, Keep3_refl].
    destruct (c_gate ch =? 2); cbn [fst]; [apply Keep3_DP, Keep3_refl|].
    pose proof (breakw_Keep3 s (k mod N.of_nat (length (ch0 :: chs)))) as H.
    destruct (fut_breakw _ _) as [s1 o1]. cbn [fst] in H.
    pose proof (rsp_gate_same s1 (k mod N.of_nat (length (ch0 :: chs))) false) as [H2 _].
    destruct (rsp_gate _ _ _) as [s2 o2]. cbn [fst] in *.
    exact (Keep3_DP _ _ (Keep3_trans _ _ _ H (same_ledger_Keep3 _ _ H2))).
  - destruct (chans en) as [|ch0 chs]; cbn [fst]; [apply Keep3_DP, Keep3_refl|].
    destruct (nth_error _ _) as [ch|]; cbn [fst]; [|apply Keep3_DP, Keep3_refl].
    destruct (c_out ch && c_seen ch); cbn [fst]; [|apply Keep3_DP, Keep3_refl].
    match goal with |- context [fut_read s ?c ?r] =>
      pose proof (read_Keep3 s c r) as H; destruct (fut_read s c r) as [s1 o] end. exact (Keep3_DP _ _ H).
  - destruct (chans en) as [|ch0 chs]; cbn [fst]; [apply Keep3_DP, Keep3_refl|].
    destruct (nth_error _ _) as [ch|]; cbn [fst]; [|apply Keep3_DP, Keep3_refl].
    destruct (c_out ch); [destruct (c_seen ch)|]; cbn [fst]; try (apply Keep3_DP, Keep3_refl).
    + match goal with |- context [fut_read s ?c ?r] =>
        pose proof (read_Keep3 s c r) as H; destruct (fut_read s c r) as [s1 o] end. exact (Keep3_DP _ _ H).
    + match goal with |- context [h_inread s ?c ?g ?l ?t] =>
        pose proof (inread_same s c g l t) as [H _]; destruct (h_inread s c g l t) as [s1 o] end.
      exact (Keep3_DP _ _ (same_ledger_Keep3 _ _ H)).
  - destruct (chans en) as [|ch0 chs]; cbn [fst]; [apply Keep3_DP, Keep3_refl|].
    destruct (nth_error _ _) as [ch|]; cbn [fst]; [|apply Keep3_DP, Keep3_refl].
    destruct (c_out ch); [destruct (c_seen ch)|]; cbn [fst]; try (apply Keep3_DP, Keep3_refl).
    + match goal with |- context [fut_read s ?c ?r] =>
        pose proof (read_Keep3 s c r) as H; destruct (fut_read s c r) as [s1 o] end. exact (Keep3_DP _ _ H).
    + match goal with |- context [h_inread s ?c ?g ?l ?t] =>
        pose proof (inread_same s c g l t) as [H _]; destruct (h_inread s c g l t) as [s1 o] end.
      exact (Keep3_DP _ _ (same_ledger_Keep3 _ _ H)).
  - pose proof (complete_all_Keep3 (filter (fun f => f_dl f <=? now en + dt) (futs s)) s (RErr E_TIMEOUT)) as H.
    unfold fut_advance. destruct (complete_all _ _ _) as [s1 o]. cbn [fst] in *.
    apply Keep3_DP. destruct H as (A & B & C). repeat split; assumption.
  - destruct (conn_of p en); cbn [fst]; [|apply Keep3_DP, Keep3_refl].
    pose proof (inopen_same cf0 s p (N.of_nat (length (chans en))) neg) as [H _].
    destruct (h_inopen _ _ _ _ _) as [s1 o]. exact (Keep3_DP _ _ (same_ledger_Keep3 _ _ H)).
  - destruct (chans en) as [|ch0 chs]; cbn [fst]; [apply Keep3_DP, Keep3_refl|].
    destruct (nth_error _ _) as [ch|]; cbn [fst]; [|apply Keep3_DP, Keep3_refl].
    destruct (negb (c_out ch)); cbn [fst]; [|apply Keep3_DP, Keep3_refl].
    match goal with |- context [h_inread s ?c ?g ?l ?t] =>
      pose proof (inread_same s c g l t) as [H _]; destruct (h_inread s c g l t) as [s1 o] end.
    exact (Keep3_DP _ _ (same_ledger_Keep3 _ _ H)).
  - destruct (nth_mod k (hpend en)) as [irid|]; cbn [fst]; [|apply Keep3_DP, Keep3_refl].
    match goal with |- context [h_uresp cf0 s ?a ?b ?c ?f ?d ?e] =>
      pose proof (uresp_same cf0 s a b c f d e) as [H _]; destruct (h_uresp cf0 s a b c f d e) as [s1 o] end.
    exact (Keep3_DP _ _ (same_ledger_Keep3 _ _ H)).
  - destruct (nth_mod k (hpend en)) as [irid|]; cbn [fst]; [|apply Keep3_DP, Keep3_refl].
    unfold h_urej. cbn [fst]. apply Keep3_DP. repeat split; cbn; lia.
  - cbn [fst]. apply Keep3_DP, Keep3_refl.
  - unfold h_burn. cbn [fst]. apply Keep3_DP. repeat split; cbn; lia.
  - cbn [fst]. apply Keep3_DP, Keep3_refl.
  - cbn [fst]. apply Keep3_DP, Keep3_refl.
  - cbn [fst]. apply Keep3_DP, Keep3_refl.
  - cbn [fst]. apply Keep3_DP, Keep3_refl.
Qed.

(* a bound request id is known and has left the dial queue and pending_outbound for good *)
Definition Inv5 (s : pst) (tr : list out) : Prop :=
  forall c rid, In (OBind c rid) tr -> rid < next_rid s /\ (cd rid s + cp rid s = 0)%nat.

Lemma step_Inv5 cf0 s en e tr :
  Inv s tr -> Inv5 s tr ->
  let r := step cf0 (s, en) e in
  Inv5 (fst (fst (fst r))) (tr ++ snd (fst r)) /\
  (forall c rid, In (OBind c rid) (snd (fst r)) -> (1 <= cp rid s)%nat).
Proof.
  intros I I5 r. pose proof (step_DP cf0 s en e) as [N D]. pose proof (step_shape cf0 s en e) as Sh.
  cbn zeta in Sh. fold r in N, D, Sh.
  assert (Hold : forall c rid, In (OBind c rid) tr ->
            rid < next_rid (fst (fst (fst r))) /\ (cd rid (fst (fst (fst r))) + cp rid (fst (fst (fst r))) = 0)%nat).
  { intros c rid H. destruct (I5 c rid H) as [A B]. split; [lia|]. specialize (D rid A). lia. }
  destruct Sh as [P|[[k [g [ng [c [po [o' [_ [Eo [P [Hpo Es]]]]]]]]]]|[[k [l [t [c [f [_ [_ [_ Eo]]]]]]]]|[k [l [t [c [rd [_ [_ [_ Eo]]]]]]]]]]].
  - split; [|intros c rid H; destruct (calml_nobind _ _ _ (plain_calm _ P) H)].
    intros c rid H. apply in_app_or in H. destruct H as [H|H]; [exact (Hold c rid H)|].
    destruct (calml_nobind _ _ _ (plain_calm _ P) H).
  - assert (Hcp : (1 <= cp (rid_po po) s)%nat) by (apply cnt_pos_in; apply in_map; exact Hpo).
    split.
    + intros c' rid H. apply in_app_or in H. destruct H as [H|H]; [exact (Hold c' rid H)|].
      rewrite Eo in H. destruct H as [H|H]; [|destruct (calml_nobind _ _ _ (plain_calm _ P) H)].
      injection H as <- <-. rewrite Es.
      pose proof (opened_body_dp cf0 s po c (N.min g 2) (now en) ng) as (Dd & Dp & Dn).
      split.
      * rewrite Dn. destruct (N.lt_ge_cases (rid_po po) (next_rid s)) as [L|L]; [exact L|].
        pose proof (inv_fresh _ _ I (rid_po po) L). lia.
      * unf. rewrite Dd, Dp. unfold drop_po. rewrite (cnt_drop_key rid_po). unfold rid_po at 2. rewrite N.eqb_refl.
        pose proof (inv_ctx _ _ I (rid_po po)). unf. lia.
    + intros c' rid H. rewrite Eo in H. destruct H as [H|H]; [|destruct (calml_nobind _ _ _ (plain_calm _ P) H)].
      injection H as <- <-. exact Hcp.
  - assert (Nb : forall c' rid, ~ In (OBind c' rid) (snd (fst r))).
    { intros c' rid H. rewrite Eo in H. destruct H as [H|H]; [discriminate|].
      exact (calml_nobind _ _ _ (plain_calm _ (fbl_resp_plain f)) H). }
    split; [|intros c' rid H; destruct (Nb c' rid H)].
    intros c' rid H. apply in_app_or in H. destruct H as [H|H]; [exact (Hold c' rid H)|destruct (Nb c' rid H)].
  - assert (Nb : forall c' rid, ~ In (OBind c' rid) (snd (fst r))).
    { intros c' rid H. rewrite Eo in H. destruct H as [H|H]; [discriminate|].
      exact (calml_nobind _ _ _ (plain_calm _ (fbl_req_plain rd)) H). }
    split; [|intros c' rid H; destruct (Nb c' rid H)].
    intros c' rid H. apply in_app_or in H. destruct H as [H|H]; [exact (Hold c' rid H)|destruct (Nb c' rid H)].
Qed.

(* a request id is bound to at most one carrier *)
Definition BindInj (tr : list out) : Prop :=
  forall c c' rid, In (OBind c rid) tr -> In (OBind c' rid) tr -> c = c'.

Lemma steps_bind_inj cf0 evs : forall s en tr used,
  Inv s tr -> Inv4 s en tr used -> Inv5 s tr -> BindInj tr ->
  BindInj (tr ++ outs_of (run_steps cf0 (s, en) evs)).
Proof.
  induction evs as [|e evs IH]; intros s en tr used I I4 I5 B; cbn [run_steps].
  - cbn. rewrite app_nil_r. exact B.
  - pose proof (step_Inv cf0 s en e tr I) as I'. pose proof (step_Inv4 cf0 s en e tr used I4) as I4'.
    pose proof (step_Inv5 cf0 s en e tr I I5) as [I5' Src]. pose proof (step_facts cf0 s en e) as SF.
    cbn zeta in *. destruct (step cf0 (s, en) e) as [[[s1 en1] o] tg]. cbn [fst snd] in *.
    rewrite outs_of_cons. cbn [fst snd]. rewrite app_assoc. apply (IH s1 en1 _ _ I' I4' I5').
    intros c c' rid H1 H2. apply in_app_or in H1. apply in_app_or in H2.
    destruct H1 as [H1|H1], H2 as [H2|H2].
    + exact (B c c' rid H1 H2).
    + destruct (I5 c rid H1) as [_ Z]. specialize (Src c' rid H2). lia.
    + destruct (I5 c' rid H2) as [_ Z]. specialize (Src c rid H1). lia.
    + destruct (sf_bind _ _ _ _ _ _ SF c rid H1) as [-> _]. destruct (sf_bind _ _ _ _ _ _ SF c' rid H2) as [-> _]. reflexivity.
Qed.

Theorem bind_injective cf0 evs c c' rid :
  In (OBind c rid) (outs_of (run_steps cf0 (init_pst, init_env) evs)) ->
  In (OBind c' rid) (outs_of (run_steps cf0 (init_pst, init_env) evs)) -> c = c'.
Proof.
  apply (steps_bind_inj cf0 evs init_pst init_env [] [] Inv_init Inv4_init).
  - intros x y [].
  - intros x y z [].
Qed.

(* ------------------------------------------------------------------ the transport contract:
   how the protocol's waiting sets follow the calls it makes *)

Ltac same_crush :=
  repeat match goal with
         | |- context [match ?x with _ => _ end] => destruct x
         end; cbn; reflexivity.

(* peers change only when a connection is reported / closed *)
Lemma send_peers s p dial len tag fb ok dok sid : peers (fst (h_send s p dial len tag fb ok dok sid)) = peers s.
Proof. unfold h_send. same_crush. Qed.
Lemma settle_peers s p rid res : peers (fst (settle s p rid res)) = peers s.
Proof. unfold settle. same_crush. Qed.
Lemma complete_peers s f res : peers (fst (complete s f res)) = peers s.
Proof. unfold complete. apply (settle_peers (set_futs s (drop_fut f (futs s)))). Qed.
Lemma complete_all_peers l : forall s res, peers (fst (complete_all s l res)) = peers s.
Proof.
  induction l as [|f l IH]; intros s res; cbn [complete_all fst]; [reflexivity|].
  pose proof (complete_peers s f res) as A. destruct (complete s f res) as [s1 o1]. cbn [fst] in A.
  pose proof (IH s1 res) as B. destruct (complete_all s1 l res) as [s2 o2]. cbn [fst] in *. congruence.
Qed.
Lemma dialfail_peers s p : peers (fst (h_dialfail s p)) = peers s.
Proof. reflexivity. Qed.
Lemma openfail_peers s sid u : peers (fst (h_openfail s sid u)) = peers s.
Proof. unfold h_openfail. same_crush. Qed.
Lemma opened_body_peers cf0 s po c gate now neg : peers (fst (opened_body cf0 s po c gate now neg)) = peers s.
Proof.
  unfold opened_body. cbn [q_rid q_len q_tag q_fb].
  assert (H : forall res, peers (fst (settle (set_pouts s (drop_po po (pouts s))) (po_peer po) (q_rid (po_req po)) res)) = peers s)
    by (intros res; apply (settle_peers (set_pouts s (drop_po po (pouts s))))).
  destruct (max_size cf0 <? _); [apply H|]. destruct gate as [|[x|x|]]; try apply H; reflexivity.
Qed.
Lemma opened_peers cf0 s sid c gate now neg : peers (fst (h_opened cf0 s sid c gate now neg)) = peers s.
Proof.
  unfold h_opened. destruct (find_po sid (pouts s)) as [po|]; [|reflexivity].
  pose proof (opened_body_peers cf0 s po c gate now neg) as H. destruct (opened_body _ _ _ _ _ _ _) as [s1 o]. exact H.
Qed.
Lemma unblock_peers cf0 s c now : peers (fst (fut_unblock cf0 s c now)) = peers s.
Proof.
  unfold fut_unblock. destruct (find_fut c (futs s)) as [f|]; [|reflexivity].
  destruct (f_wait f); [reflexivity|]. destruct (f_cancel f); [|reflexivity].
  pose proof (complete_peers s f (RErr E_CANCELED)) as H. destruct (complete s f _) as [s1 o]. exact H.
Qed.
Lemma breakw_peers s c : peers (fst (fut_breakw s c)) = peers s.
Proof.
  unfold fut_breakw. destruct (find_fut c (futs s)) as [f|]; [|reflexivity].
  destruct (f_wait f); [reflexivity|apply complete_peers].
Qed.
Lemma read_peers s c res : peers (fst (fut_read s c res)) = peers s.
Proof.
  unfold fut_read. destruct (find_fut c (futs s)) as [f|]; [|reflexivity].
  destruct (f_wait f); [|reflexivity].
  pose proof (complete_peers s f res) as H. destruct (complete s f res) as [s1 o]. exact H.
Qed.
Lemma cancel_peers s rid : peers (fst (h_cancel s rid)) = peers s.
Proof.
  unfold h_cancel. destruct (find _ (futs s)) as [f|]; [|reflexivity].
  destruct (f_wait f); [apply complete_peers|reflexivity].
Qed.
Lemma advance_peers s now : peers (fst (fut_advance s now)) = peers s.
Proof. apply complete_all_peers. Qed.

(* active: what can enter *)
Lemma settle_active s p rid res x : In x (active (fst (settle s p rid res))) -> In x (active s).
Proof. unfold settle. destruct (_ && _); cbn [fst]; simp_sets; [intros H; apply in_removeP in H; tauto|auto]. Qed.
Lemma complete_active s f res x : In x (active (fst (complete s f res))) -> In x (active s).
Proof. unfold complete. apply (settle_active (set_futs s (drop_fut f (futs s)))). Qed.
Lemma complete_all_active l : forall s res x, In x (active (fst (complete_all s l res))) -> In x (active s).
Proof.
  induction l as [|f l IH]; intros s res x; cbn [complete_all fst]; [auto|].
  pose proof (complete_active s f res x) as A. destruct (complete s f res) as [s1 o1]. cbn [fst] in A.
  pose proof (IH s1 res x) as B. destruct (complete_all s1 l res) as [s2 o2]. cbn [fst] in *. auto.
Qed.

(* every future of s' continues a future of s unchanged in carrier, request, peer and deadline *)
Definition FutsKeep (s s' : pst) : Prop :=
  forall g, In g (futs s') ->
    exists f, In f (futs s) /\ f_chan f = f_chan g /\ rid_f f = rid_f g /\ f_peer f = f_peer g /\ f_dl f = f_dl g.

Lemma FutsKeep_same s s' : futs s' = futs s -> FutsKeep s s'.
Proof. intros E g Hg. rewrite E in Hg. exists g. auto. Qed.
Lemma FutsKeep_sub s s' : (forall g, In g (futs s') -> In g (futs s)) -> FutsKeep s s'.
Proof. intros H g Hg. exists g. auto. Qed.
Lemma FutsKeep_trans s s1 s2 : FutsKeep s s1 -> FutsKeep s1 s2 -> FutsKeep s s2.
Proof.
  intros A B g Hg. destruct (B g Hg) as [f1 [H1 [E1 [E2 [E3 E4]]]]]. destruct (A f1 H1) as [f [H [F1 [F2 [F3 F4]]]]].
  exists f. repeat split; congruence.
Qed.

Lemma cancel_FutsKeep s rid : FutsKeep s (fst (h_cancel s rid)).
Proof.
  unfold h_cancel. destruct (find _ (futs s)) as [f|]; [|apply FutsKeep_same; reflexivity].
  destruct (f_wait f); [apply FutsKeep_sub, complete_futs_sub|].
  cbn [fst]. intros g Hg. simp_sets. unfold mark_cancel in Hg. apply in_map_iff in Hg. destruct Hg as [f0 [<- H0]].
  exists f0. destruct (q_rid (f_req f0) =? rid); auto.
Qed.
Lemma breakw_FutsKeep s c : FutsKeep s (fst (fut_breakw s c)).
Proof.
  unfold fut_breakw. destruct (find_fut c (futs s)) as [f|]; [|apply FutsKeep_same; reflexivity].
  destruct (f_wait f); [apply FutsKeep_same; reflexivity|apply FutsKeep_sub, complete_futs_sub].
Qed.
Lemma read_FutsKeep s c res : FutsKeep s (fst (fut_read s c res)).
Proof.
  unfold fut_read. destruct (find_fut c (futs s)) as [f|]; [|apply FutsKeep_same; reflexivity].
  destruct (f_wait f); [|apply FutsKeep_same; reflexivity].
  pose proof (complete_futs_sub s f res) as H. destruct (complete s f res) as [s1 o]. apply FutsKeep_sub. exact H.
Qed.
Lemma same_ledger_FutsKeep s s' : same_ledger s s' -> FutsKeep s s'.
Proof. intros (_ & _ & _ & F & _). apply FutsKeep_same. exact F. Qed.

(* what a step leaves alone: the waiting sets, the peers, the futures; active only shrinks *)
Definition Inert (s s' : pst) : Prop :=
  dials s' = dials s /\ pouts s' = pouts s /\ peers s' = peers s /\ FutsKeep s s' /\
  (forall x, In x (active s') -> In x (active s)).

Lemma Inert_refl s : Inert s s.
Proof. repeat split; auto. apply FutsKeep_same. reflexivity. Qed.
Lemma Inert_trans s s1 s2 : Inert s s1 -> Inert s1 s2 -> Inert s s2.
Proof.
  intros (A1 & A2 & A3 & A4 & A5) (B1 & B2 & B3 & B4 & B5).
  repeat split; try congruence; [eapply FutsKeep_trans; eauto|auto].
Qed.
Lemma same_ledger_Inert s s' : same_ledger s s' -> Inert s s'.
Proof.
  intros H. pose proof (same_ledger_FutsKeep _ _ H) as K. destruct H as (D & A & P & F & N & Pe).
  repeat split; auto. intros x Hx. rewrite A in Hx. exact Hx.
Qed.

Lemma cancel_Inert s rid : Inert s (fst (h_cancel s rid)).
Proof.
  pose proof (cancel_Keep3 s rid) as (D & P & _). repeat split; auto; [apply cancel_peers|apply cancel_FutsKeep|].
  unfold h_cancel. destruct (find _ (futs s)) as [f|]; [|auto].
  destruct (f_wait f); [apply complete_active|auto].
Qed.
Lemma breakw_Inert s c : Inert s (fst (fut_breakw s c)).
Proof.
  pose proof (breakw_Keep3 s c) as (D & P & _). repeat split; auto; [apply breakw_peers|apply breakw_FutsKeep|].
  unfold fut_breakw. destruct (find_fut c (futs s)) as [f|]; [|auto].
  destruct (f_wait f); [auto|apply complete_active].
Qed.
Lemma read_Inert s c res : Inert s (fst (fut_read s c res)).
Proof.
  pose proof (read_Keep3 s c res) as (D & P & _). repeat split; auto; [apply read_peers|apply read_FutsKeep|].
  unfold fut_read. destruct (find_fut c (futs s)) as [f|]; [|auto].
  destruct (f_wait f); [|auto].
  pose proof (complete_active s f res) as H. destruct (complete s f res) as [s1 o]. exact H.
Qed.

(* outputs that make no call *)
Definition nocall (o : list out) : Prop := o_dials o = [] /\ o_opens o = [] /\ o_binds o = [].
Lemma nocall_nil : nocall [].
Proof. repeat split. Qed.
Lemma nocall_app a b : nocall a -> nocall b -> nocall (a ++ b).
Proof.
  unfold nocall, o_dials, o_opens, o_binds. rewrite !flat_map_app.
  intros (A & B & C) (D & E & F). rewrite A, B, C, D, E, F. repeat split.
Qed.
Lemma nocall_of_nobind_noopen o :
  (forall x, In x o -> match x with ODial _ | OOpen _ _ | OBind _ _ => False | _ => True end) -> nocall o.
Proof.
  intros H. unfold nocall, o_dials, o_opens, o_binds.
  induction o as [|x o IH]; [repeat split|].
  assert (Hx := H x (or_introl eq_refl)). destruct IH as (A & B & C); [intros y Hy; apply H; right; exact Hy|].
  cbn [flat_map]. rewrite A, B, C. destruct x; try contradiction; repeat split.
Qed.

(* handlers other than send / established / opened make no call *)
Definition nc (x : out) : bool := match x with ODial _ | OOpen _ _ | OBind _ _ => false | _ => true end.
Definition ncl (o : list out) : Prop := forallb nc o = true.
Lemma ncl_app a b : ncl a -> ncl b -> ncl (a ++ b).
Proof. unfold ncl. rewrite forallb_app. intros -> ->. reflexivity. Qed.
Lemma ncl_nocall o : ncl o -> nocall o.
Proof.
  intros H. apply nocall_of_nobind_noopen. unfold ncl in H. rewrite forallb_forall in H.
  intros x Hx. specialize (H x Hx). destruct x; try discriminate; exact I.
Qed.
Lemma ncl_map_fail {A} (g : A -> N) code l : ncl (map (fun a => OFail (g a) code) l).
Proof. unfold ncl. induction l; cbn; auto. Qed.

Lemma verdict_ncl rid res : ncl (verdict rid res).
Proof. unfold verdict. destruct res as [l t|c]; [reflexivity|]. destruct (c =? E_CANCELED); reflexivity. Qed.
Lemma settle_ncl s p rid res : ncl (snd (settle s p rid res)).
Proof. unfold settle. destruct (_ && _); cbn [snd]; [apply verdict_ncl|reflexivity]. Qed.
Lemma complete_ncl s f res : ncl (snd (complete s f res)).
Proof. unfold complete. apply settle_ncl. Qed.
Lemma complete_all_ncl l : forall s res, ncl (snd (complete_all s l res)).
Proof.
  induction l as [|f l IH]; intros s res; cbn [complete_all snd]; [reflexivity|].
  pose proof (complete_ncl s f res) as H. destruct (complete s f res) as [s1 o1].
  pose proof (IH s1 res) as H2. destruct (complete_all s1 l res) as [s2 o2]. cbn [snd] in *.
  apply ncl_app; assumption.
Qed.
Lemma closed_ncl s p : ncl (snd (h_closed s p)).
Proof. unfold h_closed. destruct (memN p _); cbn [snd]; [apply (ncl_map_fail snd)|reflexivity]. Qed.
Lemma dialfail_ncl s p : ncl (snd (h_dialfail s p)).
Proof. unfold h_dialfail. cbn [snd]. apply (ncl_map_fail (fun d : N * req => q_rid (snd d))). Qed.
Lemma openfail_ncl s sid u : ncl (snd (h_openfail s sid u)).
Proof. unfold h_openfail. destruct (find_po sid (pouts s)); reflexivity. Qed.
Lemma opened_body_ncl cf0 s po c gate now neg : ncl (snd (opened_body cf0 s po c gate now neg)).
Proof.
  unfold opened_body. cbn [q_rid q_len q_tag q_fb]. destruct (max_size cf0 <? _); [apply settle_ncl|].
  destruct gate as [|[g|g|]]; try apply settle_ncl; reflexivity.
Qed.
Lemma unblock_ncl cf0 s c now : ncl (snd (fut_unblock cf0 s c now)).
Proof.
  unfold fut_unblock. destruct (find_fut c (futs s)) as [f|]; [|reflexivity].
  destruct (f_wait f); [reflexivity|]. destruct (f_cancel f); [|reflexivity].
  pose proof (complete_ncl s f (RErr E_CANCELED)) as H. destruct (complete s f _) as [s1 o]. cbn [snd] in *.
  unfold ncl in *. cbn [forallb nc]. exact H.
Qed.
Lemma breakw_ncl s c : ncl (snd (fut_breakw s c)).
Proof.
  unfold fut_breakw. destruct (find_fut c (futs s)) as [f|]; [|reflexivity].
  destruct (f_wait f); [reflexivity|apply complete_ncl].
Qed.
Lemma fb_resp_ncl f o : ncl (fb_resp f o).
Proof.
  unfold fb_resp, ncl. destruct (f_neg f =? 0); [reflexivity|].
  induction o as [|x o IH]; [reflexivity|]. cbn [flat_map]. rewrite forallb_app, IH, andb_true_r. destruct x; reflexivity.
Qed.
Lemma read_ncl s c res : ncl (snd (fut_read s c res)).
Proof.
  unfold fut_read. destruct (find_fut c (futs s)) as [f|]; [|reflexivity].
  destruct (f_wait f); [|reflexivity].
  pose proof (complete_ncl s f res) as H. destruct (complete s f res) as [s1 o]. cbn [snd] in *.
  apply ncl_app; [exact H|apply fb_resp_ncl].
Qed.
Lemma advance_ncl s now : ncl (snd (fut_advance s now)).
Proof. unfold fut_advance. apply complete_all_ncl. Qed.
Lemma cancel_ncl s rid : ncl (snd (h_cancel s rid)).
Proof.
  unfold h_cancel. destruct (find _ (futs s)) as [f|]; [|reflexivity].
  destruct (f_wait f); [apply complete_ncl|reflexivity].
Qed.
Lemma uresp_ncl cf0 s irid len tag fb gate now : ncl (snd (h_uresp cf0 s irid len tag fb gate now)).
Proof.
  unfold h_uresp, feed. destruct (find_rs irid (rsps s)) as [rs|]; [|reflexivity].
  destruct (s_w rs); [reflexivity|]. destruct fb; (destruct (max_size cf0 <? len); [reflexivity|]);
  destruct gate as [|[g|g|]]; reflexivity.
Qed.
Lemma rsp_gate_ncl s c ok : ncl (snd (rsp_gate s c ok)).
Proof.
  unfold rsp_gate. destruct (find _ (rsps s)) as [rs|]; [|reflexivity].
  destruct (s_w rs) as [[[l t] d]|]; [|reflexivity]. unfold feed. destruct ok; destruct (s_fb rs); reflexivity.
Qed.
Lemma adv_out_ncl s now : ncl (rsp_advance_out s now).
Proof.
  unfold rsp_advance_out, ncl. induction (rsps s) as [|a l IH]; [reflexivity|].
  cbn [flat_map]. rewrite forallb_app, IH, andb_true_r. destruct (s_w a) as [[[x y] d]|]; [|reflexivity].
  destruct (d <=? now); [|reflexivity]. unfold feed. destruct (s_fb a); reflexivity.
Qed.
Lemma inread_ncl s c good len tag : ncl (snd (h_inread s c good len tag)).
Proof.
  unfold h_inread. destruct (find_rd c (rdrs s)) as [rd|]; [|reflexivity].
  destruct (_ && _); [destruct good; [destruct (r_neg rd =? 0)|]|]; reflexivity.
Qed.

(* ------------------------------------------------------------------ the ghost ledger covers the waiting sets *)

Record GI (cf : cfg) (s : pst) (en : env) (g : ghost) : Prop := mkGI {
  gi_now : g_now g = now en;
  gi_conn : forall p, In p (g_conn g) <-> conn_of p en <> None;
  gi_pc : forall p, In p (peers s) -> conn_of p en <> None;
  gi_dial : forall d, In d (dials s) -> In (fst d) (g_dials g);
  gi_po : forall po, In po (pouts s) -> In (po_sid po, po_peer po) (g_opens g);
  gi_sid_lt : forall po, In po (pouts s) -> po_sid po < next_sid en;
  gi_sid_nd : NoDup (map po_sid (pouts s));
  gi_fut : forall f, In f (futs s) -> In (f_peer f, rid_f f) (active s) ->
           exists dl, In (f_chan f, rid_f f, dl) (g_live g) /\ f_dl f <= dl;
  gi_dl : forall f, In f (futs s) -> now en < f_dl f;
  gi_live_le : forall x, In x (g_live g) -> snd x <= g_now g + tmo cf
}.

Lemma GI_init cf : GI cf init_pst init_env g0.
Proof.
  constructor; cbn; try (intros; contradiction); try constructor.
  - intros []. - intros H. exfalso. apply H. reflexivity.
Qed.

Lemma filter_all {A} (f : A -> bool) l : (forall x, In x l -> f x = true) -> filter f l = l.
Proof.
  induction l as [|a l IH]; intros H; [reflexivity|]. cbn [filter].
  rewrite (H a (or_introl eq_refl)), IH; [reflexivity|]. intros x Hx. apply H. right. exact Hx.
Qed.

Lemma o_terms_terms r o : In r (o_terms o) -> (1 <= terms r o)%nat.
Proof.
  unfold o_terms, terms. induction o as [|x o IH]; [intros []|]. cbn [flat_map filter]. intros H.
  apply in_app_or in H. destruct H as [H|H].
  - destruct x; cbn in H; try tauto; destruct H as [<-|[]]; cbn [is_term]; rewrite N.eqb_refl; cbn [length]; lia.
  - specialize (IH H). destruct (is_term r x); cbn [length]; lia.
Qed.

(* an id that is active at a peer has not been answered in this step *)
Lemma active_not_term s tr o p r :
  Inv s (tr ++ o) -> In (p, r) (active s) -> ~ In r (o_terms o).
Proof.
  intros I Ha Ht. apply o_terms_terms in Ht. pose proof (inv_once _ _ I r) as H. rewrite terms_app in H.
  assert (1 <= ca r s)%nat. { apply cnt_pos_in. change r with (snd (p, r)). apply in_map. exact Ha. }
  lia.
Qed.

(* which stimuli the ghost treats specially *)
Definition plain_ev (e : ev) (tg : option N) : bool :=
  match e, tg with
  | EAdvance _, _ | EEstablished _ _ _, _ | EClosed _, _ | EDialFail _, _ => false
  | EOpened _ _ _, Some _ | EOpenFail _ _, Some _ | EUnblock _, Some _ => false
  | _, _ => true
  end.

Lemma gstep_plain cf e o tg g :
  plain_ev e tg = true ->
  gstep cf e o tg g =
  mkG (g_now g) (g_conn g) (g_dials g ++ o_dials o) (g_opens g ++ o_opens o)
      (filter (fun x => negb (memN (snd (fst x)) (o_terms o)))
              (g_live g ++ map (fun b => (fst b, snd b, g_now g + tmo cf)) (o_binds o))).
Proof.
  intros H. unfold gstep.
  destruct e; try discriminate H; try (destruct tg; try discriminate H);
    cbn [memN existsb negb]; rewrite ?(filter_all (fun _ => true)) by reflexivity; reflexivity.
Qed.

Lemma live_keep cf g o (x : N * N * N) :
  In x (g_live g) -> ~ In (snd (fst x)) (o_terms o) ->
  In x (filter (fun y => negb (memN (snd (fst y)) (o_terms o)))
               (g_live g ++ map (fun b => (fst b, snd b, g_now g + tmo cf)) (o_binds o))).
Proof.
  intros H Hn. apply filter_In. split; [apply in_or_app; left; exact H|].
  destruct (memN (snd (fst x)) (o_terms o)) eqn:E; [|reflexivity]. apply memN_in in E. contradiction.
Qed.

Lemma GI_inert cf s en g s' en' e o tg tr :
  GI cf s en g -> Inv s' (tr ++ o) -> Inert s s' -> nocall o -> plain_ev e tg = true ->
  now en' = now en -> (forall p, conn_of p en' = None <-> conn_of p en = None) -> next_sid en <= next_sid en' ->
  GI cf s' en' (gstep cf e o tg g).
Proof.
  intros [G1 G2 G3 G4 G5 G6 G7 G8 G9 G10] I (D & P & Pe & FK & A) (N1 & N2 & N3) PE Hnow Hconn Hsid.
  rewrite (gstep_plain _ _ _ _ _ PE). rewrite N1, N2, N3. cbn [map]. rewrite !app_nil_r.
  constructor; cbn [g_now g_conn g_dials g_opens g_live].
  - congruence.
  - intros p. rewrite G2. rewrite (Hconn p). tauto.
  - intros p Hp. rewrite Pe in Hp. intros E. apply (G3 p Hp). apply Hconn. exact E.
  - rewrite D. exact G4.
  - rewrite P. exact G5.
  - rewrite P. intros po H. specialize (G6 po H). lia.
  - rewrite P. exact G7.
  - intros f' Hf Ha. destruct (FK f' Hf) as [f [Hf0 [E1 [E2 [E3 E4]]]]].
    assert (Ha0 : In (f_peer f, rid_f f) (active s)) by (rewrite E2, E3; apply A; exact Ha).
    destruct (G8 f Hf0 Ha0) as [dl [Hl Hd]]. exists dl. rewrite <- E1, <- E2, <- E4. split; [|exact Hd].
    apply filter_In. split; [exact Hl|]. cbn [fst snd].
    destruct (memN (rid_f f) (o_terms o)) eqn:M; [|reflexivity]. apply memN_in in M.
    exfalso. rewrite E2 in M. exact (active_not_term _ _ _ _ _ I Ha M).
  - intros f' Hf. destruct (FK f' Hf) as [f [Hf0 [_ [_ [_ E4]]]]]. rewrite Hnow, <- E4. exact (G9 f Hf0).
  - intros x Hx. apply filter_In in Hx. exact (G10 x (proj1 Hx)).
Qed.

Lemma live_in_filter g o (x : N * N * N) extra :
  In x (g_live g) -> ~ In (snd (fst x)) (o_terms o) ->
  In x (filter (fun y => negb (memN (snd (fst y)) (o_terms o))) (g_live g ++ extra)).
Proof.
  intros H Hn. apply filter_In. split; [apply in_or_app; left; exact H|].
  destruct (memN (snd (fst x)) (o_terms o)) eqn:E; [|reflexivity]. apply memN_in in E. contradiction.
Qed.

Lemma fut_rid_known s tr f : Inv s tr -> In f (futs s) -> rid_f f < next_rid s /\ cd (rid_f f) s = 0%nat.
Proof.
  intros I Hf. assert (1 <= cf (rid_f f) s)%nat by (apply cnt_pos_in; apply in_map; exact Hf). split.
  - destruct (N.lt_ge_cases (rid_f f) (next_rid s)) as [L|L]; [exact L|].
    pose proof (inv_fresh _ _ I (rid_f f) L). lia.
  - pose proof (inv_ctx _ _ I (rid_f f)). lia.
Qed.

Lemma keep_live (x : N * N * N) L T E :
  In x L -> negb (memN (snd (fst x)) T) = true ->
  In x (filter (fun y => negb (memN (snd (fst y)) T)) (L ++ E)).
Proof. intros H Hn. apply filter_In. split; [apply in_or_app; left; exact H|exact Hn]. Qed.

(* send_request *)
Lemma GI_send cf s en g tr p dial len tag fb :
  GI cf s en g -> Inv s tr ->
  let r := step cf (s, en) (ESend p dial len tag fb) in
  GI cf (fst (fst (fst r))) (snd (fst (fst r))) (gstep cf (ESend p dial len tag fb) (snd (fst r)) (snd r) g).
Proof.
  intros [G1 G2 G3 G4 G5 G6 G7 G8 G9 G10] I r. subst r. cbn [step] in *.
  rewrite gstep_plain by reflexivity.
  unfold h_send in *. simp_sets.
  assert (Hfut : forall f' act', In f' (futs s) -> In (f_peer f', rid_f f') act' ->
            (forall x, In x act' -> In x (active s) \/ snd x = next_rid s) ->
            rid_f f' <> next_rid s /\ exists dl, In (f_chan f', rid_f f', dl) (g_live g) /\ f_dl f' <= dl).
  { intros f' act' Hf Ha Hact. destruct (fut_rid_known _ _ _ I Hf) as [L _]. split; [lia|].
    destruct (Hact _ Ha) as [Ha0|E]; [exact (G8 f' Hf Ha0)|]. exfalso. cbn [snd] in E. lia. }
  assert (Hlive : forall o0 x, In x (filter (fun y => negb (memN (snd (fst y)) (o_terms o0))) (g_live g ++ [])) ->
                               snd x <= g_now g + tmo cf).
  { intros o0 x Hx. apply filter_In in Hx. destruct Hx as [Hx _]. rewrite app_nil_r in Hx. exact (G10 x Hx). }
  destruct (memN p (peers s)) eqn:Mp.
  - destruct (conn_of p en) as [okc|] eqn:Cp; [|exfalso; apply memN_in in Mp; exact (G3 p Mp Cp)].
    destruct (open_ok p en) eqn:Ok; cbn [fst snd andb] in *.
    + (* a substream is being opened *)
      constructor; cbn [g_now g_conn g_dials g_opens g_live now next_sid conns]; simp_sets; cbn [o_dials o_opens o_binds flat_map app map].
      * exact G1.
      * intros q. rewrite G2. unfold conn_of. cbn [conns]. tauto.
      * intros q Hq. specialize (G3 q Hq). unfold conn_of in *. cbn [conns]. exact G3.
      * rewrite app_nil_r. exact G4.
      * intros po H. apply in_app_or in H. apply in_or_app. destruct H as [H|[<-|[]]]; [left; exact (G5 po H)|right; left; reflexivity].
      * intros po H. apply in_app_or in H. destruct H as [H|[<-|[]]]; [specialize (G6 po H); lia|cbn [po_sid]; lia].
      * rewrite map_app. cbn [map po_sid]. apply NoDup_snoc; [exact G7|].
        intros H. apply in_map_iff in H. destruct H as [po [E Hpo]]. specialize (G6 po Hpo). lia.
      * intros f' Hf Ha. destruct (Hfut f' _ Hf Ha) as [_ [dl [Hl Hd]]].
        { intros x Hx. apply in_app_or in Hx. destruct Hx as [Hx|[<-|[]]]; [left; exact Hx|right; reflexivity]. }
        exists dl. split; [apply keep_live; [exact Hl|reflexivity]|exact Hd].
      * exact G9.
      * apply Hlive.
    + (* open_substream failed: RequestFailed at once *)
      constructor; cbn [g_now g_conn g_dials g_opens g_live now next_sid conns]; simp_sets; cbn [o_dials o_opens o_binds flat_map app map]; rewrite ?app_nil_r.
      * exact G1.
      * intros q. rewrite G2. unfold conn_of. cbn [conns]. tauto.
      * intros q Hq. specialize (G3 q Hq). unfold conn_of in *. cbn [conns]. exact G3.
      * exact G4. * exact G5.
      * intros po H. specialize (G6 po H). lia.
      * exact G7.
      * intros f' Hf Ha. destruct (Hfut f' _ Hf Ha) as [Hne [dl [Hl Hd]]]; [intros x Hx; left; exact Hx|].
        exists dl. split; [|exact Hd]. rewrite <- (app_nil_r (g_live g)). apply keep_live; [exact Hl|].
        cbn. rewrite (proj2 (N.eqb_neq _ _) Hne). reflexivity.
      * exact G9.
      * intros x Hx. apply filter_In in Hx. destruct Hx as [Hx _]. exact (G10 x Hx).
  - destruct dial; cbn [negb]; [destruct (dial_accepted _)|]; cbn [fst snd] in *;
      (constructor; cbn [g_now g_conn g_dials g_opens g_live]; simp_sets; cbn [o_dials o_opens o_binds flat_map app map]; rewrite ?app_nil_r;
       [exact G1|exact G2|exact G3| |exact G5|exact G6|exact G7| |exact G9|
        intros x Hx; apply filter_In in Hx; destruct Hx as [Hx _]; exact (G10 x Hx)]).
    + intros d H. apply in_app_or in H. apply in_or_app. destruct H as [H|[<-|[]]]; [left; exact (G4 d H)|right; left; reflexivity].
    + intros f' Hf Ha. destruct (Hfut f' _ Hf Ha) as [_ [dl [Hl Hd]]]; [intros x Hx; left; exact Hx|].
      exists dl. split; [|exact Hd]. rewrite <- (app_nil_r (g_live g)). apply keep_live; [exact Hl|reflexivity].
    + exact G4.
    + intros f' Hf Ha. destruct (Hfut f' _ Hf Ha) as [Hne [dl [Hl Hd]]]; [intros x Hx; left; exact Hx|].
      exists dl. split; [|exact Hd]. rewrite <- (app_nil_r (g_live g)). apply keep_live; [exact Hl|].
      cbn. rewrite (proj2 (N.eqb_neq _ _) Hne). reflexivity.
    + exact G4.
    + intros f' Hf Ha. destruct (Hfut f' _ Hf Ha) as [Hne [dl [Hl Hd]]]; [intros x Hx; left; exact Hx|].
      exists dl. split; [|exact Hd]. rewrite <- (app_nil_r (g_live g)). apply keep_live; [exact Hl|].
      cbn. rewrite (proj2 (N.eqb_neq _ _) Hne). reflexivity.
Qed.

(* futures that continue keep their ledger entry as long as their request is still active *)
Lemma fut_clause_keep s s' g o tr E :
  Inv s' (tr ++ o) -> FutsKeep s s' ->
  (forall x, In x (active s') -> In x (active s) \/ forall f, In f (futs s) -> rid_f f <> snd x) ->
  (forall f, In f (futs s) -> In (f_peer f, rid_f f) (active s) ->
             exists dl, In (f_chan f, rid_f f, dl) (g_live g) /\ f_dl f <= dl) ->
  forall f', In f' (futs s') -> In (f_peer f', rid_f f') (active s') ->
             exists dl, In (f_chan f', rid_f f', dl)
                           (filter (fun y => negb (memN (snd (fst y)) (o_terms o))) (g_live g ++ E)) /\ f_dl f' <= dl.
Proof.
  intros I FK A G8 f' Hf Ha. destruct (FK f' Hf) as [f [Hf0 [E1 [E2 [E3 E4]]]]].
  destruct (A _ Ha) as [Ha0|Hn]; [|exfalso; exact (Hn f Hf0 E2)].
  rewrite <- E2, <- E3 in Ha0. destruct (G8 f Hf0 Ha0) as [dl [Hl Hd]].
  exists dl. rewrite <- E1, <- E2, <- E4. split; [|exact Hd]. apply keep_live; [exact Hl|]. cbn [fst snd].
  destruct (memN (rid_f f) (o_terms o)) eqn:M; [|reflexivity]. apply memN_in in M.
  exfalso. rewrite E2 in M. exact (active_not_term _ _ _ _ _ I Ha M).
Qed.

Lemma conn_of_none p en : conn_of p en = None <-> forall x, In x (conns en) -> fst x <> p.
Proof.
  unfold conn_of. destruct (find (fun x => fst x =? p) (conns en)) as [x|] eqn:F.
  - split; [discriminate|]. intros H. apply find_some in F. destruct F as [Hx E]. apply N.eqb_eq in E.
    destruct (H x Hx E).
  - split; [|reflexivity]. intros _ x Hx E. pose proof (find_none _ _ F x Hx) as H. cbn in H.
    rewrite E, N.eqb_refl in H. discriminate.
Qed.

Lemma NoDup_map_inj {A} (f : A -> N) l a b :
  NoDup (map f l) -> In a l -> In b l -> f a = f b -> a = b.
Proof.
  induction l as [|x l IH]; [intros _ []|]. cbn [map]. intros N Ha Hb E. inversion N as [|? ? Hn N']; subst.
  destruct Ha as [<-|Ha], Hb as [<-|Hb]; [reflexivity| | |auto].
  - exfalso. apply Hn. rewrite E. apply in_map. exact Hb.
  - exfalso. apply Hn. rewrite <- E. apply in_map. exact Ha.
Qed.

Lemma number_pouts_sids p sid l po :
  In po (number_pouts p sid l) -> sid <= po_sid po < sid + N.of_nat (length l).
Proof.
  revert sid. induction l as [|[a q] l IH]; intros sid; [intros []|].
  cbn [number_pouts In length]. intros [<-|H]; [cbn [po_sid]; lia|]. specialize (IH _ H). lia.
Qed.
Lemma number_pouts_nodup p sid l : NoDup (map po_sid (number_pouts p sid l)).
Proof.
  revert sid. induction l as [|[a q] l IH]; intros sid; [constructor|].
  cbn [number_pouts map po_sid]. constructor; [|apply IH].
  intros H. apply in_map_iff in H. destruct H as [po [E Hpo]]. apply number_pouts_sids in Hpo. lia.
Qed.
Lemma o_opens_map_open p l : o_opens (map (fun po => OOpen (po_sid po) p) l) = map (fun po => (po_sid po, p)) l.
Proof. unfold o_opens. induction l as [|a l IH]; [reflexivity|]. cbn. rewrite <- IH. reflexivity. Qed.
Lemma o_quiet_map_fail {A} (g : A -> N) code l :
  o_dials (map (fun a => OFail (g a) code) l) = [] /\ o_opens (map (fun a => OFail (g a) code) l) = [] /\
  o_binds (map (fun a => OFail (g a) code) l) = [].
Proof. apply (ncl_nocall _ (ncl_map_fail g code l)). Qed.

(* DialFailure *)
Lemma GI_dialfail cf s en g tr p :
  GI cf s en g ->
  let r := step cf (s, en) (EDialFail p) in
  Inv (fst (fst (fst r))) (tr ++ snd (fst r)) ->
  GI cf (fst (fst (fst r))) (snd (fst (fst r))) (gstep cf (EDialFail p) (snd (fst r)) (snd r) g).
Proof.
  intros [G1 G2 G3 G4 G5 G6 G7 G8 G9 G10] r I'. subst r. cbn [step] in *. unfold h_dialfail in *. cbn [fst snd] in *.
  destruct (o_quiet_map_fail (fun d : N * req => q_rid (snd d)) E_DIAL_FAILED
              (filter (fun d : N * req => fst d =? p) (dials s))) as (N1 & N2 & N3).
  unfold gstep. rewrite N1, N2, N3. cbn [map]. rewrite !app_nil_r.
  constructor; cbn [g_now g_conn g_dials g_opens g_live]; simp_sets;
    [exact G1|exact G2|exact G3| |exact G5|exact G6|exact G7| |exact G9|].
  - intros d H. apply filter_In in H. destruct H as [H Hp]. apply filter_In. split; [exact (G4 d H)|].
    cbn [memN existsb]. rewrite orb_false_r. exact Hp.
  - rewrite <- (app_nil_r (g_live g)).
    match type of I' with Inv ?s1 _ => apply (fut_clause_keep s s1 g _ tr []) end;
      [exact I'|apply FutsKeep_same; reflexivity|intros x Hx; left; exact Hx|exact G8].
  - intros x Hx. apply filter_In in Hx. exact (G10 x (proj1 Hx)).
Qed.

Lemma conn_of_filter p q en en' :
  conns en' = filter (fun x => negb (fst x =? p)) (conns en) ->
  (conn_of q en' = None <-> conn_of q en = None \/ q = p).
Proof.
  intros E. rewrite !conn_of_none. rewrite E. split.
  - intros H. destruct (N.eq_dec q p) as [->|Hne]; [right; reflexivity|left].
    intros x Hx Ex. apply (H x); [|exact Ex]. apply filter_In. split; [exact Hx|].
    rewrite Ex. apply negb_true_iff. apply N.eqb_neq. exact Hne.
  - intros [H| ->] x Hx Ex; apply filter_In in Hx; destruct Hx as [Hx Hf].
    + exact (H x Hx Ex).
    + rewrite Ex, N.eqb_refl in Hf. discriminate.
Qed.

Lemma NoDup_map_filter {A} (f : A -> N) (g : A -> bool) l : NoDup (map f l) -> NoDup (map f (filter g l)).
Proof.
  induction l as [|a l IH]; [auto|]. cbn [map filter]. intros N. inversion N as [|? ? Hn N']; subst.
  destruct (g a); [|auto]. cbn [map]. constructor; [|auto].
  intros H. apply Hn. apply in_map_iff in H. destruct H as [x [E Hx]]. apply filter_In in Hx.
  apply in_map_iff. exists x. tauto.
Qed.

(* ConnectionClosed of a connected peer *)
Lemma GI_closed cf s en g tr p b :
  GI cf s en g -> conn_of p en = Some b ->
  let r := step cf (s, en) (EClosed p) in
  Inv (fst (fst (fst r))) (tr ++ snd (fst r)) ->
  GI cf (fst (fst (fst r))) (snd (fst (fst r))) (gstep cf (EClosed p) (snd (fst r)) (snd r) g).
Proof.
  intros [G1 G2 G3 G4 G5 G6 G7 G8 G9 G10] Cp r I'. subst r. cbn [step] in *. rewrite Cp in *.
  pose proof (closed_ncl s p) as NC. apply ncl_nocall in NC. destruct NC as (N1 & N2 & N3).
  pose proof (closed_futs s p) as F.
  assert (Hg : memN p (g_conn g) = true) by (apply memN_in; apply G2; rewrite Cp; discriminate).
  assert (Sh : fst (h_closed s p) =
               if memN p (peers s)
               then set_inb (set_active (set_peers (set_pouts s (filter (fun po => negb (po_peer po =? p)) (pouts s)))
                                                   (filter (fun x => negb (x =? p)) (peers s)))
                                        (filter (fun a => negb (fst a =? p)) (active s)))
                            (filter (fun a => negb (fst a =? p)) (inb s))
               else set_pouts s (filter (fun po => negb (po_peer po =? p)) (pouts s))).
  { unfold h_closed. simp_sets. destruct (memN p (peers s)); reflexivity. }
  assert (A : forall x, In x (active (fst (h_closed s p))) -> In x (active s)).
  { rewrite Sh. destruct (memN p (peers s)); simp_sets; [intros x H; apply filter_In in H; tauto|auto]. }
  assert (PF : pouts (fst (h_closed s p)) = filter (fun po => negb (po_peer po =? p)) (pouts s)).
  { rewrite Sh. destruct (memN p (peers s)); reflexivity. }
  assert (Po : forall po, In po (pouts (fst (h_closed s p))) -> In po (pouts s) /\ po_peer po <> p).
  { rewrite PF. intros po H. apply filter_In in H. destruct H as [H Hp]. split; [exact H|].
    apply negb_true_iff in Hp. apply N.eqb_neq in Hp. exact Hp. }
  assert (Pe : forall q, In q (peers (fst (h_closed s p))) -> In q (peers s) /\ q <> p).
  { rewrite Sh. intros q. destruct (memN p (peers s)) eqn:M; simp_sets; intros H.
    - apply filter_In in H. destruct H as [H Hp]. split; [exact H|]. apply negb_true_iff in Hp. apply N.eqb_neq in Hp. exact Hp.
    - split; [exact H|]. intros ->. apply memN_in in H. congruence. }
  assert (D : dials (fst (h_closed s p)) = dials s) by (rewrite Sh; destruct (memN p (peers s)); reflexivity).
  destruct (h_closed s p) as [s1 o]. cbn [fst snd] in *.
  unfold gstep. rewrite Hg, N1, N2, N3. cbn [map memN existsb negb]. rewrite !app_nil_r.
  rewrite (filter_all (fun _ => true)) by reflexivity.
  assert (HC : forall q, conn_of q (mkE (aux_of en) (next_sid en) (filter (fun x => negb (fst x =? p)) (conns en))
                            (filter (fun x => negb (snd x =? p)) (opens en)) (chans en) (now en) (hpend en)) = None
                         <-> conn_of q en = None \/ q = p) by (intros q; apply (conn_of_filter p q); reflexivity).
  constructor; cbn [g_now g_conn g_dials g_opens g_live now next_sid].
  - exact G1.
  - intros q. rewrite filter_In, G2, (HC q). rewrite negb_true_iff, N.eqb_neq.
    destruct (conn_of q en); split; try tauto; intros H; try (split; [discriminate|]); intuition congruence.
  - intros q Hq. destruct (Pe q Hq) as [Hq0 Hne]. rewrite (HC q). intros [H|H]; [exact (G3 q Hq0 H)|exact (Hne H)].
  - rewrite D. exact G4.
  - intros po H. destruct (Po po H) as [H0 Hne]. apply filter_In. split; [exact (G5 po H0)|].
    cbn [snd]. apply negb_true_iff. apply N.eqb_neq. exact Hne.
  - intros po H. exact (G6 po (proj1 (Po po H))).
  - rewrite PF. apply NoDup_map_filter. exact G7.
  - rewrite <- (app_nil_r (g_live g)).
    apply (fut_clause_keep s s1 g o tr []); [exact I'|apply FutsKeep_same; exact F|intros x Hx; left; exact (A x Hx)|exact G8].
  - intros f Hf. rewrite F in Hf. exact (G9 f Hf).
  - intros x Hx. apply filter_In in Hx. exact (G10 x (proj1 Hx)).
Qed.

(* after the entry found under a substream id was dropped, no entry with that id is left *)
Lemma drop_po_no_sid s sid po po' :
  NoDup (map po_sid (pouts s)) -> find_po sid (pouts s) = Some po ->
  In po' (drop_po po (pouts s)) -> In po' (pouts s) /\ po_sid po' <> sid.
Proof.
  intros N F H. apply find_some in F. destruct F as [Hin E]. apply N.eqb_eq in E.
  unfold drop_po in H. apply filter_In in H. destruct H as [H Hr]. split; [exact H|].
  intros E'. assert (po' = po) by (apply (NoDup_map_inj po_sid (pouts s)); auto; congruence).
  subst po'. rewrite N.eqb_refl in Hr. discriminate.
Qed.
Lemma find_po_none sid l po : find_po sid l = None -> In po l -> po_sid po <> sid.
Proof. intros F H E. pose proof (find_none _ _ F po H) as X. cbn in X. rewrite E, N.eqb_refl in X. discriminate. Qed.

Lemma gstep_answer_open cf e o sid g :
  (exists k u, e = EOpenFail k u) \/ (exists k a b, e = EOpened k a b) ->
  gstep cf e o (Some sid) g =
  mkG (g_now g) (g_conn g) (g_dials g ++ o_dials o)
      (filter (fun x => negb (fst x =? sid)) (g_opens g) ++ o_opens o)
      (filter (fun x => negb (memN (snd (fst x)) (o_terms o)))
              (g_live g ++ map (fun b => (fst b, snd b, g_now g + tmo cf)) (o_binds o))).
Proof.
  intros [[k [u ->]]|[k [a [b ->]]]]; unfold gstep; cbn [memN existsb negb];
    rewrite (filter_all (fun _ => true)) by reflexivity; reflexivity.
Qed.

(* SubstreamOpenFailure *)
Lemma GI_openfail cf s en g tr k u sid q :
  GI cf s en g -> nth_mod k (opens en) = Some (sid, q) ->
  let r := step cf (s, en) (EOpenFail k u) in
  Inv (fst (fst (fst r))) (tr ++ snd (fst r)) ->
  GI cf (fst (fst (fst r))) (snd (fst (fst r))) (gstep cf (EOpenFail k u) (snd (fst r)) (snd r) g).
Proof.
  intros [G1 G2 G3 G4 G5 G6 G7 G8 G9 G10] Nm r I'. subst r. cbn [step] in *. rewrite Nm in *.
  pose proof (openfail_ncl s sid u) as NC. apply ncl_nocall in NC. destruct NC as (N1 & N2 & N3).
  pose proof (openfail_futs s sid u) as F. pose proof (openfail_peers s sid u) as Pe.
  assert (D : dials (fst (h_openfail s sid u)) = dials s) by (unfold h_openfail; destruct (find_po sid (pouts s)); reflexivity).
  assert (A : forall x, In x (active (fst (h_openfail s sid u))) -> In x (active s)).
  { unfold h_openfail. destruct (find_po sid (pouts s)); cbn [fst]; simp_sets; [intros x H; apply in_removeP in H; tauto|auto]. }
  assert (Po : forall po, In po (pouts (fst (h_openfail s sid u))) -> In po (pouts s) /\ po_sid po <> sid).
  { unfold h_openfail. destruct (find_po sid (pouts s)) as [po0|] eqn:Fp; cbn [fst]; simp_sets; intros po H.
    - exact (drop_po_no_sid s sid po0 po G7 Fp H).
    - split; [exact H|exact (find_po_none _ _ _ Fp H)]. }
  assert (PS : exists l, pouts (fst (h_openfail s sid u)) = filter l (pouts s)).
  { unfold h_openfail. destruct (find_po sid (pouts s)); cbn [fst]; simp_sets;
      [eexists; reflexivity|exists (fun _ => true); symmetry; apply filter_all; reflexivity]. }
  destruct (h_openfail s sid u) as [s1 o]. cbn [fst snd] in *.
  rewrite gstep_answer_open by (left; eauto). rewrite N1, N2, N3. cbn [map]. rewrite !app_nil_r.
  constructor; cbn [g_now g_conn g_dials g_opens g_live now next_sid conns].
  - exact G1.
  - intros p. rewrite G2. unfold conn_of. cbn [conns]. tauto.
  - intros p Hp. rewrite Pe in Hp. specialize (G3 p Hp). unfold conn_of in *. cbn [conns]. exact G3.
  - rewrite D. exact G4.
  - intros po H. destruct (Po po H) as [H0 Hne]. apply filter_In. split; [exact (G5 po H0)|].
    cbn [fst]. apply negb_true_iff. apply N.eqb_neq. exact Hne.
  - intros po H. exact (G6 po (proj1 (Po po H))).
  - destruct PS as [l ->]. apply NoDup_map_filter. exact G7.
  - rewrite <- (app_nil_r (g_live g)).
    apply (fut_clause_keep s s1 g o tr []); [exact I'|apply FutsKeep_same; exact F|intros x Hx; left; exact (A x Hx)|exact G8].
  - intros f Hf. rewrite F in Hf. exact (G9 f Hf).
  - intros x Hx. apply filter_In in Hx. exact (G10 x (proj1 Hx)).
Qed.

Lemma opened_body_futs_dl cf0 s po c gate now neg g :
  In g (futs (fst (opened_body cf0 s po c gate now neg))) ->
  In g (futs s) \/ (f_chan g = c /\ rid_f g = rid_po po /\ f_peer g = po_peer po /\ f_dl g = now + tmo cf0).
Proof.
  unfold opened_body. cbn [q_rid q_len q_tag q_fb].
  assert (Hs : forall res, In g (futs (fst (settle (set_pouts s (drop_po po (pouts s))) (po_peer po) (q_rid (po_req po)) res))) -> In g (futs s)).
  { intros res. unfold settle. destruct (_ && _); cbn [fst]; simp_sets; auto. }
  destruct (max_size cf0 <? _); [intros H0; left; exact (Hs _ H0)|].
  destruct gate as [|[x|x|]]; try (intros H0; left; exact (Hs _ H0)); cbn [fst]; simp_sets; intros H0;
    apply in_app_or in H0; destruct H0 as [H0|[<-|[]]]; auto; right; repeat split.
Qed.
Lemma opened_body_active cf0 s po c gate now neg x :
  In x (active (fst (opened_body cf0 s po c gate now neg))) -> In x (active s).
Proof.
  unfold opened_body. cbn [q_rid q_len q_tag q_fb].
  assert (Hs : forall res, In x (active (fst (settle (set_pouts s (drop_po po (pouts s))) (po_peer po) (q_rid (po_req po)) res))) -> In x (active s))
    by (intros res; apply (settle_active (set_pouts s (drop_po po (pouts s))))).
  destruct (max_size cf0 <? _); [apply Hs|]. destruct gate as [|[y|y|]]; try apply Hs; auto.
Qed.

(* SubstreamOpened (outbound) *)
Lemma GI_opened cf s en g tr k gate neg sid q :
  0 < tmo cf -> GI cf s en g -> nth_mod k (opens en) = Some (sid, q) ->
  let r := step cf (s, en) (EOpened k gate neg) in
  Inv (fst (fst (fst r))) (tr ++ snd (fst r)) ->
  GI cf (fst (fst (fst r))) (snd (fst (fst r))) (gstep cf (EOpened k gate neg) (snd (fst r)) (snd r) g).
Proof.
  intros T [G1 G2 G3 G4 G5 G6 G7 G8 G9 G10] Nm r I'. subst r. cbn [step] in *. rewrite Nm in *.
  unfold h_opened in *. destruct (find_po sid (pouts s)) as [po0|] eqn:Fp.
  - set (c := N.of_nat (length (chans en))) in *.
    pose proof (opened_body_ncl cf s po0 c (N.min gate 2) (now en) neg) as NC. apply ncl_nocall in NC. destruct NC as (N1 & N2 & N3).
    pose proof (opened_body_dp cf s po0 c (N.min gate 2) (now en) neg) as (D & P & _).
    pose proof (opened_body_peers cf s po0 c (N.min gate 2) (now en) neg) as Pe.
    pose proof (opened_body_futs_dl cf s po0 c (N.min gate 2) (now en) neg) as F.
    pose proof (opened_body_active cf s po0 c (N.min gate 2) (now en) neg) as A.
    destruct (opened_body cf s po0 c (N.min gate 2) (now en) neg) as [s1 o]. cbn [fst snd] in *.
    rewrite gstep_answer_open by (right; eauto).
    change (o_dials (OBind c (q_rid (po_req po0)) :: o)) with (o_dials o).
    change (o_opens (OBind c (q_rid (po_req po0)) :: o)) with (o_opens o).
    change (o_binds (OBind c (q_rid (po_req po0)) :: o)) with ((c, q_rid (po_req po0)) :: o_binds o).
    change (o_terms (OBind c (q_rid (po_req po0)) :: o)) with (o_terms o).
    rewrite N1, N2, N3. cbn [map fst snd]. rewrite !app_nil_r.
    constructor; cbn [g_now g_conn g_dials g_opens g_live now next_sid conns].
    + exact G1.
    + intros p. rewrite G2. unfold conn_of. cbn [conns]. tauto.
    + intros p Hp. rewrite Pe in Hp. specialize (G3 p Hp). unfold conn_of in *. cbn [conns]. exact G3.
    + rewrite D. exact G4.
    + rewrite P. intros po H. destruct (drop_po_no_sid s sid po0 po G7 Fp H) as [H0 Hne].
      apply filter_In. split; [exact (G5 po H0)|]. cbn [fst]. apply negb_true_iff. apply N.eqb_neq. exact Hne.
    + rewrite P. intros po H. exact (G6 po (proj1 (drop_po_no_sid s sid po0 po G7 Fp H))).
    + rewrite P. apply NoDup_map_filter. exact G7.
    + intros f' Hf Ha. destruct (F f' Hf) as [Hold|(E1 & E2 & E3 & E4)].
      * (* a future that was there before *)
        destruct (G8 f' Hold (A _ Ha)) as [dl [Hl Hd]]. exists dl. split; [|exact Hd].
        apply keep_live; [exact Hl|]. cbn [fst snd].
        destruct (memN (rid_f f') (o_terms o)) eqn:M; [|reflexivity]. apply memN_in in M.
        exfalso. apply (active_not_term _ _ (OBind c (q_rid (po_req po0)) :: o) _ _ I' Ha). exact M.
      * (* the new one: its ledger entry is the binding made in this step *)
        exists (g_now g + tmo cf). split; [|rewrite E4, G1; lia].
        apply filter_In. split.
        -- apply in_or_app. right. left. rewrite E1, E2. reflexivity.
        -- cbn [fst snd]. destruct (memN (rid_f f') (o_terms o)) eqn:M; [|reflexivity]. apply memN_in in M.
           exfalso. apply (active_not_term _ _ (OBind c (q_rid (po_req po0)) :: o) _ _ I' Ha). exact M.
    + intros f' Hf. destruct (F f' Hf) as [Hold|(_ & _ & _ & E4)]; [exact (G9 f' Hold)|rewrite E4; lia].
    + intros x Hx. apply filter_In in Hx. destruct Hx as [Hx _]. apply in_app_or in Hx.
      destruct Hx as [Hx|[<-|[]]]; [exact (G10 x Hx)|cbn [snd]; lia].
  - (* no pending_outbound entry under that id: nothing happens *)
    cbn [fst snd] in *. rewrite gstep_answer_open by (right; eauto). cbn [o_dials o_opens o_binds o_terms flat_map map memN existsb negb].
    rewrite !app_nil_r. rewrite (filter_all (fun _ => true)) by reflexivity.
    constructor; cbn [g_now g_conn g_dials g_opens g_live now next_sid conns];
      [exact G1| | |exact G4| |exact G6|exact G7|exact G8|exact G9|exact G10].
    + intros p. rewrite G2. unfold conn_of. cbn [conns]. tauto.
    + intros p Hp. specialize (G3 p Hp). unfold conn_of in *. cbn [conns]. exact G3.
    + intros po H. apply filter_In. split; [exact (G5 po H)|]. cbn [fst]. apply negb_true_iff. apply N.eqb_neq.
      exact (find_po_none _ _ _ Fp H).
Qed.

Lemma o_wired_app c a b : o_wired c (a ++ b) = o_wired c a || o_wired c b.
Proof. unfold o_wired. apply existsb_app. Qed.

Lemma unblock_futs_dl cf0 s c now g :
  In g (futs (fst (fut_unblock cf0 s c now))) ->
  exists f, In f (futs s) /\ f_chan f = f_chan g /\ rid_f f = rid_f g /\ f_peer f = f_peer g /\
            (f_dl g = f_dl f \/
             (f_chan g = c /\ f_dl g = now + tmo cf0 /\ o_wired c (snd (fut_unblock cf0 s c now)) = true)).
Proof.
  unfold fut_unblock. destruct (find_fut c (futs s)) as [f|]; [|cbn [fst]; intros H; exists g; auto 6].
  destruct (f_wait f); [cbn [fst]; intros H; exists g; auto 6|]. destruct (f_cancel f).
  - pose proof (complete_futs_sub s f (RErr E_CANCELED) g) as S. destruct (complete s f _) as [s1 o].
    cbn [fst] in *. intros H. exists g. auto 6.
  - cbn [fst snd]. simp_sets. intros H. unfold to_wait in H. apply in_map_iff in H. destruct H as [f0 [<- H0]].
    exists f0. destruct (f_chan f0 =? c) eqn:E; cbn [f_chan f_req f_peer f_dl rid_f]; repeat split; auto.
    right. apply N.eqb_eq in E. repeat split; auto. unfold o_wired. cbn [existsb]. rewrite N.eqb_refl. reflexivity.
Qed.

Lemma unblock_active cf0 s c now x : In x (active (fst (fut_unblock cf0 s c now))) -> In x (active s).
Proof.
  unfold fut_unblock. destruct (find_fut c (futs s)) as [f|]; [|auto].
  destruct (f_wait f); [auto|]. destruct (f_cancel f); [|auto].
  pose proof (complete_active s f (RErr E_CANCELED) x) as H. destruct (complete s f _) as [s1 o]. exact H.
Qed.

Lemma gstep_unblock cf k o c g :
  gstep cf (EUnblock k) o (Some c) g =
  mkG (g_now g) (g_conn g) (g_dials g ++ o_dials o) (g_opens g ++ o_opens o)
      (filter (fun x => negb (memN (snd (fst x)) (o_terms o)))
              ((if o_wired c o
                then map (fun x => if fst (fst x) =? c then (c, snd (fst x), g_now g + tmo cf) else x) (g_live g)
                else g_live g) ++ map (fun b => (fst b, snd b, g_now g + tmo cf)) (o_binds o))).
Proof. unfold gstep. cbn [memN existsb negb]. rewrite (filter_all (fun _ => true)) by reflexivity. reflexivity. Qed.

(* the carrier starts accepting bytes *)
Lemma GI_unblock cf s en g tr k ch0 chs ch :
  0 < tmo cf -> GI cf s en g -> chans en = ch0 :: chs ->
  nth_error (ch0 :: chs) (N.to_nat (k mod N.of_nat (length (ch0 :: chs)))) = Some ch -> c_gate ch =? 0 = true ->
  let r := step cf (s, en) (EUnblock k) in
  Inv (fst (fst (fst r))) (tr ++ snd (fst r)) ->
  GI cf (fst (fst (fst r))) (snd (fst (fst r))) (gstep cf (EUnblock k) (snd (fst r)) (snd r) g).
Proof.
  intros T [G1 G2 G3 G4 G5 G6 G7 G8 G9 G10] CH NE GT r I'. subst r. cbn [step] in *. rewrite CH, NE, GT in *.
  set (c := k mod N.of_nat (length (ch0 :: chs))) in *.
  pose proof (unblock_ncl cf s c (now en)) as NC1. pose proof (unblock_Keep3 cf s c (now en)) as (D1 & P1 & _).
  pose proof (unblock_peers cf s c (now en)) as Pe1. pose proof (unblock_futs_dl cf s c (now en)) as F1.
  pose proof (unblock_active cf s c (now en)) as A1.
  destruct (fut_unblock cf s c (now en)) as [s1 o1]. cbn [fst snd] in *.
  pose proof (rsp_gate_ncl s1 c true) as NC2. pose proof (rsp_gate_same s1 c true) as [(D2 & A2 & P2 & F2 & _ & Pe2) _].
  destruct (rsp_gate s1 c true) as [s2 o2]. cbn [fst snd] in *.
  pose proof (ncl_nocall _ (ncl_app _ _ NC1 NC2)) as (N1 & N2 & N3).
  rewrite gstep_unblock. rewrite N1, N2, N3. cbn [map]. rewrite !app_nil_r.
  constructor; cbn [g_now g_conn g_dials g_opens g_live now next_sid conns].
  - exact G1.
  - intros p. rewrite G2. unfold conn_of. cbn [conns]. tauto.
  - intros p Hp. rewrite Pe2, Pe1 in Hp. specialize (G3 p Hp). unfold conn_of in *. cbn [conns]. exact G3.
  - rewrite D2, D1. exact G4.
  - rewrite P2, P1. exact G5.
  - rewrite P2, P1. exact G6.
  - rewrite P2, P1. exact G7.
  - intros f' Hf Ha. rewrite F2 in Hf. rewrite A2 in Ha.
    destruct (F1 f' Hf) as [f [Hf0 [E1 [E2 [E3 Hdl]]]]].
    assert (Ha0 : In (f_peer f, rid_f f) (active s)) by (rewrite E2, E3; apply A1; exact Ha).
    destruct (G8 f Hf0 Ha0) as [dl [Hl Hd]]. specialize (G10 _ Hl). cbn [snd] in G10.
    assert (Hnt : negb (memN (rid_f f') (o_terms (o1 ++ o2))) = true).
    { destruct (memN (rid_f f') (o_terms (o1 ++ o2))) eqn:M; [|reflexivity]. apply memN_in in M.
      exfalso. assert (Ha2 : In (f_peer f', rid_f f') (active s2)) by (rewrite A2; exact Ha).
      exact (active_not_term _ _ _ _ _ I' Ha2 M). }
    destruct (o_wired c (o1 ++ o2)) eqn:W.
    + (* the entries of carrier c were re-armed *)
      exists (if f_chan f =? c then g_now g + tmo cf else dl). split.
      * apply filter_In. split; [|cbn [fst snd]; destruct (f_chan f =? c); exact Hnt].
        apply in_map_iff. exists (f_chan f, rid_f f, dl). split; [|exact Hl]. cbn [fst snd].
        destruct (N.eqb_spec (f_chan f) c) as [Ec|Ec]; rewrite <- E1, <- E2; [rewrite Ec|]; reflexivity.
      * destruct Hdl as [Hdl|(Ec & Hdl & _)].
        -- rewrite Hdl. destruct (f_chan f =? c); lia.
        -- rewrite Hdl, E1, Ec, N.eqb_refl, G1. lia.
    + exists dl. split; [apply filter_In; split; [rewrite <- E1, <- E2; exact Hl|exact Hnt]|].
      destruct Hdl as [Hdl|(_ & _ & W1)]; [rewrite Hdl; exact Hd|].
      rewrite o_wired_app, W1 in W. discriminate.
  - intros f' Hf. rewrite F2 in Hf. destruct (F1 f' Hf) as [f [Hf0 [_ [_ [_ Hdl]]]]].
    destruct Hdl as [Hdl|(_ & Hdl & _)]; [rewrite Hdl; exact (G9 f Hf0)|rewrite Hdl; lia].
  - intros x Hx. apply filter_In in Hx. destruct Hx as [Hx _].
    destruct (o_wired c (o1 ++ o2)); [|exact (G10 x Hx)].
    apply in_map_iff in Hx. destruct Hx as [y [<- Hy]]. specialize (G10 y Hy).
    destruct (fst (fst y) =? c); cbn [snd]; [lia|exact G10].
Qed.

Lemma complete_drops s f res g : In g (futs (fst (complete s f res))) -> rid_f g <> rid_f f.
Proof.
  unfold complete, settle. destruct (_ && _); cbn [fst]; simp_sets; intros H; unfold drop_fut in H;
    apply filter_In in H; destruct H as [_ H]; apply negb_true_iff in H; apply N.eqb_neq in H; exact H.
Qed.
Lemma complete_all_drops l : forall s res f g,
  In f l -> In g (futs (fst (complete_all s l res))) -> rid_f g <> rid_f f.
Proof.
  induction l as [|a l IH]; intros s res f g Hf; [destruct Hf|]. cbn [complete_all fst].
  pose proof (complete_drops s a res) as A. pose proof (complete_futs_sub s a res) as S.
  destruct (complete s a res) as [s1 o1]. cbn [fst] in *.
  pose proof (IH s1 res) as B. pose proof (complete_all_futs_sub l s1 res) as S2.
  destruct (complete_all s1 l res) as [s2 o2]. cbn [fst] in *.
  intros Hg. destruct Hf as [<-|Hf]; [apply A; apply S2; exact Hg|exact (B f g Hf Hg)].
Qed.
Lemma advance_remaining s t g : In g (futs (fst (fut_advance s t))) -> t < f_dl g.
Proof.
  unfold fut_advance. intros H. destruct (N.lt_ge_cases t (f_dl g)) as [L|L]; [exact L|exfalso].
  pose proof (complete_all_futs_sub _ _ _ _ H) as H0.
  apply (complete_all_drops (filter (fun f => f_dl f <=? t) (futs s)) s (RErr E_TIMEOUT) g g); [|exact H|reflexivity].
  apply filter_In. split; [exact H0|]. apply N.leb_le. exact L.
Qed.

Lemma gstep_advance cf dt o tg g :
  gstep cf (EAdvance dt) o tg g =
  mkG (g_now g + dt) (g_conn g) (g_dials g ++ o_dials o) (g_opens g ++ o_opens o)
      (filter (fun x => negb (memN (snd (fst x)) (o_terms o)))
              (g_live g ++ map (fun b => (fst b, snd b, g_now g + tmo cf)) (o_binds o))).
Proof. unfold gstep. cbn [memN existsb negb]. rewrite (filter_all (fun _ => true)) by reflexivity. reflexivity. Qed.

(* the clock advances *)
Lemma GI_advance cf s en g tr dt :
  GI cf s en g ->
  let r := step cf (s, en) (EAdvance dt) in
  Inv (fst (fst (fst r))) (tr ++ snd (fst r)) ->
  GI cf (fst (fst (fst r))) (snd (fst (fst r))) (gstep cf (EAdvance dt) (snd (fst r)) (snd r) g).
Proof.
  intros [G1 G2 G3 G4 G5 G6 G7 G8 G9 G10] r I'. subst r. cbn [step] in *.
  pose proof (advance_ncl s (now en + dt)) as NC1. pose proof (complete_all_Keep3 (filter (fun f => f_dl f <=? now en + dt) (futs s)) s (RErr E_TIMEOUT)) as (D1 & P1 & _).
  pose proof (advance_peers s (now en + dt)) as Pe1. pose proof (advance_remaining s (now en + dt)) as R1.
  pose proof (complete_all_futs_sub (filter (fun f => f_dl f <=? now en + dt) (futs s)) s (RErr E_TIMEOUT)) as S1.
  pose proof (complete_all_active (filter (fun f => f_dl f <=? now en + dt) (futs s)) s (RErr E_TIMEOUT)) as A1.
  unfold fut_advance in *. destruct (complete_all s _ (RErr E_TIMEOUT)) as [s1 o1]. cbn [fst snd] in *.
  pose proof (ncl_nocall _ (ncl_app _ _ NC1 (adv_out_ncl s1 (now en + dt)))) as (N1 & N2 & N3).
  rewrite gstep_advance. rewrite N1, N2, N3. cbn [map]. rewrite !app_nil_r.
  constructor; cbn [g_now g_conn g_dials g_opens g_live now next_sid conns]; unfold rsp_advance; simp_sets.
  - rewrite G1. reflexivity.
  - intros p. rewrite G2. unfold conn_of. cbn [conns]. tauto.
  - intros p Hp. rewrite Pe1 in Hp. specialize (G3 p Hp). unfold conn_of in *. cbn [conns]. exact G3.
  - rewrite D1. exact G4.
  - rewrite P1. exact G5.
  - rewrite P1. exact G6.
  - rewrite P1. exact G7.
  - rewrite <- (app_nil_r (g_live g)).
    match type of I' with Inv ?sx _ => apply (fut_clause_keep s sx g _ tr []) end;
      [exact I'|apply FutsKeep_sub; exact S1|intros x Hx; left; exact (A1 _ Hx)|exact G8].
  - intros f Hf. exact (R1 f Hf).
  - intros x Hx. apply filter_In in Hx. specialize (G10 x (proj1 Hx)). lia.
Qed.

Lemma o_dials_app a b : o_dials (a ++ b) = o_dials a ++ o_dials b.
Proof. apply flat_map_app. Qed.
Lemma o_opens_app a b : o_opens (a ++ b) = o_opens a ++ o_opens b.
Proof. apply flat_map_app. Qed.
Lemma o_binds_app a b : o_binds (a ++ b) = o_binds a ++ o_binds b.
Proof. apply flat_map_app. Qed.
Lemma o_dials_map_open p l : o_dials (map (fun po => OOpen (po_sid po) p) l) = [].
Proof. induction l; [reflexivity|exact IHl]. Qed.
Lemma o_binds_map_open p l : o_binds (map (fun po => OOpen (po_sid po) p) l) = [].
Proof. induction l; [reflexivity|exact IHl]. Qed.

Lemma conn_of_snoc p b q en en' :
  conns en' = conns en ++ [(p, b)] ->
  (conn_of q en' = None <-> conn_of q en = None /\ q <> p).
Proof.
  intros E. rewrite !conn_of_none. rewrite E. split.
  - intros H. split.
    + intros x Hx. apply H. apply in_or_app. left. exact Hx.
    + intros ->. apply (H (p, b)); [apply in_or_app; right; left; reflexivity|reflexivity].
  - intros [H Hne] x Hx. apply in_app_or in Hx. destruct Hx as [Hx|[<-|[]]]; [exact (H x Hx)|].
    cbn [fst]. intros Ep. apply Hne. symmetry. exact Ep.
Qed.

Lemma gstep_established cf p b cap o tg g :
  memN p (g_conn g) = false ->
  gstep cf (EEstablished p b cap) o tg g =
  mkG (g_now g) (g_conn g ++ [p]) (filter (fun x => negb (x =? p)) (g_dials g) ++ o_dials o) (g_opens g ++ o_opens o)
      (filter (fun x => negb (memN (snd (fst x)) (o_terms o)))
              (g_live g ++ map (fun b => (fst b, snd b, g_now g + tmo cf)) (o_binds o))).
Proof.
  intros H. unfold gstep. rewrite H. cbn [memN existsb].
  f_equal. f_equal. apply filter_ext. intros x. rewrite orb_false_r. reflexivity.
Qed.

(* ConnectionEstablished for a peer that was not connected *)
Lemma GI_established cf s en g tr p broken cap :
  GI cf s en g -> Inv s tr -> conn_of p en = None ->
  let r := step cf (s, en) (EEstablished p broken cap) in
  Inv (fst (fst (fst r))) (tr ++ snd (fst r)) ->
  GI cf (fst (fst (fst r))) (snd (fst (fst r))) (gstep cf (EEstablished p broken cap) (snd (fst r)) (snd r) g).
Proof.
  intros [G1 G2 G3 G4 G5 G6 G7 G8 G9 G10] I Cp r I'. subst r. cbn [step] in *. rewrite Cp in *.
  assert (Hp : memN p (peers s) = false).
  { destruct (memN p (peers s)) eqn:M; [|reflexivity]. apply memN_in in M. destruct (G3 p M Cp). }
  assert (Hg : memN p (g_conn g) = false).
  { destruct (memN p (g_conn g)) eqn:M; [|reflexivity]. apply memN_in in M. apply G2 in M. destruct (M Cp). }
  rewrite Hp in *. unfold h_established in *. rewrite Hp in *. simp_sets.
  set (nok := est_nok broken cap (length (filter (fun d : N * req => fst d =? p) (dials s)))) in *.
  rewrite (gstep_established _ _ _ _ _ _ _ Hg).
  assert (HC : forall en1 q, conns en1 = conns en ++ [(p, negb broken)] ->
                             (conn_of q en1 = None <-> conn_of q en = None /\ q <> p))
    by (intros en1 q E; apply (conn_of_snoc p (negb broken) q en en1 E)).
  assert (Gconn : forall en1, conns en1 = conns en ++ [(p, negb broken)] ->
                              forall q, In q (g_conn g ++ [p]) <-> conn_of q en1 <> None).
  { intros en1 E q. rewrite (HC en1 q E). split.
    - intros H [H1 H2]. apply in_app_or in H. destruct H as [H|[<-|[]]]; [apply (proj1 (G2 q) H H1)|exact (H2 eq_refl)].
    - intros H. apply in_or_app. destruct (N.eq_dec q p) as [->|Hne]; [right; left; reflexivity|left].
      apply G2. intros H1. apply H. split; assumption. }
  assert (Gdial : forall d, In d (filter (fun d : N * req => negb (fst d =? p)) (dials s)) ->
                            In (fst d) (filter (fun x => negb (x =? p)) (g_dials g))).
  { intros d H. apply filter_In in H. destruct H as [H Hd]. apply filter_In. split; [exact (G4 d H)|exact Hd]. }
  assert (Gfut : forall s1 o1 E act', futs s1 = futs s -> active s1 = act' -> Inv s1 (tr ++ o1) ->
            (forall x, In x act' -> In x (active s) \/ (1 <= cd (snd x) s)%nat) ->
            forall f', In f' (futs s1) -> In (f_peer f', rid_f f') (active s1) ->
            exists dl, In (f_chan f', rid_f f', dl)
                          (filter (fun y => negb (memN (snd (fst y)) (o_terms o1))) (g_live g ++ E)) /\ f_dl f' <= dl).
  { intros s1 o1 E act' F A Is Hact. apply (fut_clause_keep s s1 g o1 tr E Is); [apply FutsKeep_same; exact F| |exact G8].
    intros x Hx. rewrite A in Hx. destruct (Hact x Hx) as [H|H]; [left; exact H|right].
    intros f Hf Ef. destruct (fut_rid_known _ _ _ I Hf) as [_ Z]. rewrite Ef in Z. lia. }
  destruct (filter (fun d : N * req => fst d =? p) (dials s)) as [|d0 mine] eqn:M; cbn [fst snd] in *.
  - (* nobody waited for this peer *)
    cbn [o_dials o_opens o_binds o_terms flat_map map]. rewrite !app_nil_r.
    constructor; cbn [g_now g_conn g_dials g_opens g_live now next_sid conns]; simp_sets.
    + exact G1.
    + apply Gconn. reflexivity.
    + intros q Hq. apply in_app_or in Hq. match goal with |- context [conn_of q ?e1] => rewrite (HC e1 q eq_refl) end.
      intros [H1 H2]. destruct Hq as [Hq|[<-|[]]]; [exact (G3 q Hq H1)|exact (H2 eq_refl)].
    + exact Gdial.
    + exact G5.
    + intros po H. specialize (G6 po H). lia.
    + exact G7.
    + rewrite <- (app_nil_r (g_live g)). cbn [memN existsb negb]. 
      match type of I' with Inv ?sx _ => apply (Gfut sx [] [] (active s) eq_refl eq_refl I') end. intros x Hx. left. exact Hx.
    + exact G9.
    + intros x Hx. apply filter_In in Hx. exact (G10 x (proj1 Hx)).
  - change (fun d : N * req => OFail (q_rid (snd d)) E_SUBSTREAM) with (fun d : N * req => OFail (rid_d d) E_SUBSTREAM) in *.
    destruct (o_quiet_map_fail rid_d E_SUBSTREAM (skipn nok (d0 :: mine))) as (N1 & N2 & N3).
    assert (Hmine : forall d, In d (d0 :: mine) -> In d (dials s) /\ fst d = p).
    { intros d Hd. rewrite <- M in Hd. apply filter_In in Hd. destruct Hd as [Hd E]. split; [exact Hd|apply N.eqb_eq; exact E]. }
    destruct (firstn nok (d0 :: mine)) as [|x okl] eqn:Fo; cbn [fst snd] in *.
    + (* every open_substream failed: the peer is not registered *)
      rewrite N1, N2, N3. cbn [map]. rewrite !app_nil_r.
      constructor; cbn [g_now g_conn g_dials g_opens g_live now next_sid conns]; simp_sets.
      * exact G1.
      * apply Gconn. reflexivity.
      * intros q Hq. match goal with |- context [conn_of q ?e1] => rewrite (HC e1 q eq_refl) end. intros [H1 H2]. exact (G3 q Hq H1).
      * exact Gdial.
      * exact G5.
      * intros po H. specialize (G6 po H). lia.
      * exact G7.
      * rewrite <- (app_nil_r (g_live g)).
        match type of I' with Inv ?sx _ => apply (Gfut sx _ [] (active s) eq_refl eq_refl I') end. intros y Hy. left. exact Hy.
      * exact G9.
      * intros y Hy. apply filter_In in Hy. exact (G10 y (proj1 Hy)).
    + (* at least one substream is being opened *)
      assert (Hokl : forall d, In d (x :: okl) -> In d (d0 :: mine)).
      { intros d Hd. rewrite <- Fo in Hd. rewrite <- (firstn_skipn nok (d0 :: mine)). apply in_or_app. left. exact Hd. }
      assert (Hlen : (length (x :: okl) <= length (d0 :: mine))%nat) by (rewrite <- Fo, firstn_length; lia).
      rewrite o_dials_app, o_opens_app, o_binds_app, N1, N2, N3, o_opens_map_open, o_dials_map_open, o_binds_map_open.
      cbn [app map]. rewrite !app_nil_r.
      constructor; cbn [g_now g_conn g_dials g_opens g_live now next_sid conns]; simp_sets.
      * exact G1.
      * apply Gconn. reflexivity.
      * intros q Hq. apply in_app_or in Hq. match goal with |- context [conn_of q ?e1] => rewrite (HC e1 q eq_refl) end.
        intros [H1 H2]. destruct Hq as [Hq|[<-|[]]]; [exact (G3 q Hq H1)|exact (H2 eq_refl)].
      * exact Gdial.
      * intros po H. apply in_app_or in H. apply in_or_app. destruct H as [H|H]; [left; exact (G5 po H)|right].
        destruct (number_pouts_in _ _ _ _ H) as [E _]. rewrite E. apply in_map_iff. exists po. split; [reflexivity|exact H].
      * intros po H. apply in_app_or in H. destruct H as [H|H]; [specialize (G6 po H); lia|].
        apply number_pouts_sids in H. lia.
      * rewrite map_app. (* old ids are below next_sid, new ones start there *)
        assert (ND : forall l1 l2 : list N, NoDup l1 -> NoDup l2 -> (forall a, In a l1 -> In a l2 -> False) -> NoDup (l1 ++ l2)).
        { induction l1 as [|a l1 IH]; intros l2 H1 H2 H3; [exact H2|]. inversion H1; subst. cbn. constructor.
          - intros Hin. apply in_app_or in Hin. destruct Hin as [Hin|Hin]; [contradiction|]. apply (H3 a); [left; reflexivity|exact Hin].
          - apply IH; auto. intros b Hb1 Hb2. apply (H3 b); [right; exact Hb1|exact Hb2]. }
        apply ND; [exact G7|apply number_pouts_nodup|].
        intros a H1 H2. apply in_map_iff in H1. destruct H1 as [po1 [<- Hp1]]. specialize (G6 po1 Hp1).
        apply in_map_iff in H2. destruct H2 as [po2 [E Hp2]]. apply number_pouts_sids in Hp2. lia.
      * rewrite <- (app_nil_r (g_live g)).
        match type of I' with Inv ?sx _ =>
          apply (Gfut sx _ [] (active s ++ map (fun d : N * req => (p, q_rid (snd d))) (x :: okl)) eq_refl eq_refl I') end.
        intros y Hy. apply in_app_or in Hy. destruct Hy as [Hy|Hy]; [left; exact Hy|right].
        apply in_map_iff in Hy. destruct Hy as [d [<- Hd]]. cbn [snd].
        apply cnt_pos_in. apply in_map_iff. exists d. split; [reflexivity|exact (proj1 (Hmine d (Hokl d Hd)))].
      * exact G9.
      * intros y Hy. apply filter_In in Hy. destruct Hy as [Hy _]. exact (G10 y Hy).
Qed.

(* stimuli that do nothing leave the ghost alone *)
Lemma ghost_eta g : mkG (g_now g) (g_conn g) (g_dials g) (g_opens g) (g_live g) = g.
Proof. destruct g. reflexivity. Qed.

Lemma gstep_est_noop cf p b c tg g : memN p (g_conn g) = true -> gstep cf (EEstablished p b c) [] tg g = g.
Proof.
  intros H. unfold gstep. rewrite H. cbn [o_dials o_opens o_binds o_terms flat_map map memN existsb negb].
  rewrite !app_nil_r, !(filter_all (fun _ => true)) by reflexivity. apply ghost_eta.
Qed.
Lemma gstep_closed_noop cf p tg g : memN p (g_conn g) = false -> gstep cf (EClosed p) [] tg g = g.
Proof.
  intros H. unfold gstep. rewrite H. cbn [o_dials o_opens o_binds o_terms flat_map map memN existsb negb].
  rewrite !app_nil_r, !(filter_all (fun _ => true)) by reflexivity.
  rewrite (filter_all (fun x => negb (x =? p))); [apply ghost_eta|].
  intros x Hx. apply negb_true_iff. apply N.eqb_neq. intros ->. apply memN_in in Hx. congruence.
Qed.
Lemma gstep_unblock_noop cf k tg g : gstep cf (EUnblock k) [] tg g = g.
Proof.
  unfold gstep. destruct tg; cbn [o_wired existsb o_dials o_opens o_binds o_terms flat_map map memN negb];
    rewrite !app_nil_r, !(filter_all (fun _ => true)) by reflexivity; apply ghost_eta.
Qed.

Lemma conn_of_map_keys p q en en' :
  conns en' = map (fun x => if fst x =? p then (p, false) else x) (conns en) ->
  (conn_of q en' = None <-> conn_of q en = None).
Proof.
  intros E. rewrite !conn_of_none, E. split.
  - intros H x Hx Ex. apply (H (if fst x =? p then (p, false) else x));
      [exact (in_map (fun x0 : N * bool => if fst x0 =? p then (p, false) else x0) _ _ Hx)|].
    destruct (N.eqb_spec (fst x) p); cbn [fst]; congruence.
  - intros H y Hy Ey. apply in_map_iff in Hy. destruct Hy as [x [<- Hx]].
    destruct (N.eqb_spec (fst x) p) as [Ep|Ep]; cbn [fst] in Ey; apply (H x Hx); congruence.
Qed.

Lemma conn_same_conns en en' : conns en' = conns en -> forall p, conn_of p en' = None <-> conn_of p en = None.
Proof. intros E p. unfold conn_of. rewrite E. tauto. Qed.

Ltac gi_inert G I' HI HN :=
  eapply GI_inert; [exact G|exact I'|exact HI|exact HN|reflexivity|reflexivity|(apply conn_same_conns; reflexivity)|(cbn; lia)].

Lemma step_GI cf s en g tr e :
  0 < tmo cf -> GI cf s en g -> Inv s tr ->
  let r := step cf (s, en) e in
  Inv (fst (fst (fst r))) (tr ++ snd (fst r)) ->
  GI cf (fst (fst (fst r))) (snd (fst (fst r))) (gstep cf e (snd (fst r)) (snd r) g).
Proof.
  intros T G I r I'. subst r. destruct e.
  - apply (GI_send cf s en g tr); assumption.
  - (* cancel *)
    cbn [step] in *. pose proof (cancel_Inert s rid) as In0. pose proof (cancel_ncl s rid) as NC.
    destruct (h_cancel s rid) as [s1 o]. cbn [fst snd] in *.
    gi_inert G I' In0 (ncl_nocall _ NC).
  - (* established *)
    destruct (conn_of p en) as [b0|] eqn:Cp.
    + cbn [step] in *. rewrite Cp in *. cbn [fst snd] in *. rewrite gstep_est_noop; [exact G|].
      apply memN_in. apply (gi_conn _ _ _ _ G). rewrite Cp. discriminate.
    + apply (GI_established cf s en g tr); assumption.
  - (* closed *)
    destruct (conn_of p en) as [b0|] eqn:Cp.
    + apply (GI_closed cf s en g tr p b0); assumption.
    + cbn [step] in *. rewrite Cp in *. cbn [fst snd] in *. rewrite gstep_closed_noop; [exact G|].
      destruct (memN p (g_conn g)) eqn:M; [|reflexivity]. apply memN_in in M. apply (gi_conn _ _ _ _ G) in M. destruct (M Cp).
  - apply (GI_dialfail cf s en g tr); assumption.
  - (* opened *)
    destruct (nth_mod k (opens en)) as [[sid q]|] eqn:Nm.
    + apply (GI_opened cf s en g tr k gate neg sid q); assumption.
    + cbn [step] in *. rewrite Nm in *. cbn [fst snd] in *.
      gi_inert G I' (Inert_refl s) nocall_nil.
  - destruct (nth_mod k (opens en)) as [[sid q]|] eqn:Nm.
    + apply (GI_openfail cf s en g tr k unsupported sid q); assumption.
    + cbn [step] in *. rewrite Nm in *. cbn [fst snd] in *.
      gi_inert G I' (Inert_refl s) nocall_nil.
  - (* unblock *)
    destruct (chans en) as [|ch0 chs] eqn:CH.
    + cbn [step] in *. rewrite CH in *. cbn [fst snd] in *. rewrite gstep_unblock_noop. exact G.
    + destruct (nth_error (ch0 :: chs) (N.to_nat (k mod N.of_nat (length (ch0 :: chs))))) as [ch|] eqn:NE.
      * destruct (c_gate ch =? 0) eqn:GT.
        -- apply (GI_unblock cf s en g tr k ch0 chs ch); assumption.
        -- cbn [step] in *. rewrite CH, NE, GT in *. cbn [fst snd] in *. rewrite gstep_unblock_noop. exact G.
      * cbn [step] in *. rewrite CH, NE in *. cbn [fst snd] in *. rewrite gstep_unblock_noop. exact G.
  - (* write side breaks *)
    cbn [step] in *. destruct (chans en) as [|ch0 chs] eqn:CH; cbn [fst snd] in *;
      [gi_inert G I' (Inert_refl s) nocall_nil|].
    destruct (nth_error _ _) as [ch|]; cbn [fst snd] in *;
      [|gi_inert G I' (Inert_refl s) nocall_nil].
    destruct (c_gate ch =? 2); cbn [fst snd] in *;
      [gi_inert G I' (Inert_refl s) nocall_nil|].
    pose proof (breakw_Inert s (k mod N.of_nat (length (ch0 :: chs)))) as In1.
    pose proof (breakw_ncl s (k mod N.of_nat (length (ch0 :: chs)))) as NC1.
    destruct (fut_breakw _ _) as [s1 o1]. cbn [fst snd] in *.
    pose proof (rsp_gate_same s1 (k mod N.of_nat (length (ch0 :: chs))) false) as [SL _].
    pose proof (rsp_gate_ncl s1 (k mod N.of_nat (length (ch0 :: chs))) false) as NC2.
    destruct (rsp_gate _ _ _) as [s2 o2]. cbn [fst snd] in *.
    eapply (GI_inert cf s en g s2 _ _ (o1 ++ o2) _ tr); [exact G|exact I'| | |reflexivity|reflexivity| |cbn; lia].
    + exact (Inert_trans _ _ _ In1 (same_ledger_Inert _ _ SL)).
    + apply ncl_nocall. apply ncl_app; assumption.
    + apply conn_same_conns. reflexivity.
  - (* the remote answers *)
    cbn [step] in *. destruct (chans en) as [|ch0 chs] eqn:CH; cbn [fst snd] in *;
      [gi_inert G I' (Inert_refl s) nocall_nil|].
    destruct (nth_error _ _) as [ch|]; cbn [fst snd] in *;
      [|gi_inert G I' (Inert_refl s) nocall_nil].
    destruct (c_out ch && c_seen ch); cbn [fst snd] in *;
      [|gi_inert G I' (Inert_refl s) nocall_nil].
    match goal with |- context [fut_read s ?c ?r] =>
      pose proof (read_Inert s c r) as In1; pose proof (read_ncl s c r) as NC1; destruct (fut_read s c r) as [s1 o] end.
    cbn [fst snd] in *.
    gi_inert G I' In1 (ncl_nocall _ NC1).
  - (* end of stream *)
    cbn [step] in *. destruct (chans en) as [|ch0 chs] eqn:CH; cbn [fst snd] in *;
      [gi_inert G I' (Inert_refl s) nocall_nil|].
    destruct (nth_error _ _) as [ch|]; cbn [fst snd] in *;
      [|gi_inert G I' (Inert_refl s) nocall_nil].
    destruct (c_out ch); [destruct (c_seen ch)|]; cbn [fst snd] in *;
      try (gi_inert G I' (Inert_refl s) nocall_nil).
    + match goal with |- context [fut_read s ?c ?r] =>
        pose proof (read_Inert s c r) as In1; pose proof (read_ncl s c r) as NC1; destruct (fut_read s c r) as [s1 o] end.
      cbn [fst snd] in *. gi_inert G I' In1 (ncl_nocall _ NC1).
    + match goal with |- context [h_inread s ?c ?gd ?l ?t] =>
        pose proof (inread_same s c gd l t) as [SL _]; pose proof (inread_ncl s c gd l t) as NC1;
        destruct (h_inread s c gd l t) as [s1 o] end.
      cbn [fst snd] in *.
      gi_inert G I' (same_ledger_Inert _ _ SL) (ncl_nocall _ NC1).
  - (* read error *)
    cbn [step] in *. destruct (chans en) as [|ch0 chs] eqn:CH; cbn [fst snd] in *;
      [gi_inert G I' (Inert_refl s) nocall_nil|].
    destruct (nth_error _ _) as [ch|]; cbn [fst snd] in *;
      [|gi_inert G I' (Inert_refl s) nocall_nil].
    destruct (c_out ch); [destruct (c_seen ch)|]; cbn [fst snd] in *;
      try (gi_inert G I' (Inert_refl s) nocall_nil).
    + match goal with |- context [fut_read s ?c ?r] =>
        pose proof (read_Inert s c r) as In1; pose proof (read_ncl s c r) as NC1; destruct (fut_read s c r) as [s1 o] end.
      cbn [fst snd] in *. gi_inert G I' In1 (ncl_nocall _ NC1).
    + match goal with |- context [h_inread s ?c ?gd ?l ?t] =>
        pose proof (inread_same s c gd l t) as [SL _]; pose proof (inread_ncl s c gd l t) as NC1;
        destruct (h_inread s c gd l t) as [s1 o] end.
      cbn [fst snd] in *.
      gi_inert G I' (same_ledger_Inert _ _ SL) (ncl_nocall _ NC1).
  - apply (GI_advance cf s en g tr); assumption.
  - (* inbound substream *)
    cbn [step] in *. destruct (conn_of p en); cbn [fst snd] in *;
      [|gi_inert G I' (Inert_refl s) nocall_nil].
    pose proof (inopen_same cf s p (N.of_nat (length (chans en))) neg) as [SL O].
    destruct (h_inopen _ _ _ _ _) as [s1 o]. cbn [fst snd] in *. subst o.
    eapply (GI_inert cf s en g s1 _ _ [] _ tr); [exact G|exact I'|apply same_ledger_Inert; exact SL|apply nocall_nil|reflexivity|reflexivity| |cbn; lia].
    apply conn_same_conns. reflexivity.
  - (* inbound request *)
    cbn [step] in *. destruct (chans en) as [|ch0 chs] eqn:CH; cbn [fst snd] in *;
      [gi_inert G I' (Inert_refl s) nocall_nil|].
    destruct (nth_error _ _) as [ch|]; cbn [fst snd] in *;
      [|gi_inert G I' (Inert_refl s) nocall_nil].
    destruct (negb (c_out ch)); cbn [fst snd] in *;
      [|gi_inert G I' (Inert_refl s) nocall_nil].
    match goal with |- context [h_inread s ?c ?gd ?l ?t] =>
      pose proof (inread_same s c gd l t) as [SL _]; pose proof (inread_ncl s c gd l t) as NC1;
      destruct (h_inread s c gd l t) as [s1 o] end.
    cbn [fst snd] in *.
    eapply (GI_inert cf s en g s1 _ _ o _ tr); [exact G|exact I'|apply same_ledger_Inert; exact SL|apply ncl_nocall; exact NC1|reflexivity|reflexivity| |cbn; lia].
    apply conn_same_conns. reflexivity.
  - (* send_response *)
    cbn [step] in *. destruct (nth_mod k (hpend en)) as [irid|]; cbn [fst snd] in *;
      [|gi_inert G I' (Inert_refl s) nocall_nil].
    match goal with |- context [h_uresp cf s ?a ?b ?c ?f ?d ?e0] =>
      pose proof (uresp_same cf s a b c f d e0) as [SL _]; pose proof (uresp_ncl cf s a b c f d e0) as NC1;
      destruct (h_uresp cf s a b c f d e0) as [s1 o] end.
    cbn [fst snd] in *.
    eapply (GI_inert cf s en g s1 _ _ o _ tr); [exact G|exact I'|apply same_ledger_Inert; exact SL|apply ncl_nocall; exact NC1|reflexivity|reflexivity| |cbn; lia].
    apply conn_same_conns. reflexivity.
  - (* reject_request *)
    cbn [step] in *. destruct (nth_mod k (hpend en)) as [irid|]; cbn [fst snd] in *;
      [|gi_inert G I' (Inert_refl s) nocall_nil].
    unfold h_urej in *. cbn [fst snd] in *.
    eapply (GI_inert cf s en g _ _ _ [] _ tr); [exact G|exact I'| |apply nocall_nil|reflexivity|reflexivity| |cbn; lia].
    + repeat split; auto. apply FutsKeep_same. reflexivity.
    + apply conn_same_conns. reflexivity.
  - (* the connection stops reading commands *)
    cbn [step] in *. cbn [fst snd] in *.
    eapply (GI_inert cf s en g s _ _ [] _ tr); [exact G|exact I'|apply Inert_refl|apply nocall_nil|reflexivity|reflexivity| |cbn; lia].
    intros q. apply (conn_of_map_keys p q en). reflexivity.
  - (* a request id burned by a clogged try_send_request *)
    cbn [step] in *. unfold h_burn in *. cbn [fst snd] in *.
    eapply (GI_inert cf s en g _ en _ [] _ tr); [exact G|exact I'| |apply nocall_nil|reflexivity|reflexivity|tauto|lia].
    repeat split; auto. apply FutsKeep_same. reflexivity.
  - cbn [step] in *. cbn [fst snd] in *.
    eapply (GI_inert cf s en g s _ _ [] _ tr); [exact G|exact I'|apply Inert_refl|apply nocall_nil|reflexivity|reflexivity| |cbn; lia].
    apply conn_same_conns. reflexivity.
  - cbn [step] in *. cbn [fst snd] in *.
    eapply (GI_inert cf s en g s _ _ [] _ tr); [exact G|exact I'|apply Inert_refl|apply nocall_nil|reflexivity|reflexivity| |cbn; lia].
    apply conn_same_conns. reflexivity.
  - cbn [step] in *. cbn [fst snd] in *.
    eapply (GI_inert cf s en g s _ _ [] _ tr); [exact G|exact I'|apply Inert_refl|apply nocall_nil|reflexivity|reflexivity| |cbn; lia].
    apply conn_same_conns. reflexivity.
  - cbn [step] in *. cbn [fst snd] in *.
    eapply (GI_inert cf s en g s _ _ [] _ tr); [exact G|exact I'|apply Inert_refl|apply nocall_nil|reflexivity|reflexivity| |cbn; lia].
    apply conn_same_conns. reflexivity.
Qed.

Lemma run_GI cf evs : forall s en g tr,
  0 < tmo cf -> GI cf s en g -> Inv s tr ->
  GI cf (fst (fst (run cf (s, en) evs))) (snd (fst (run cf (s, en) evs)))
        (grun cf g (run_steps cf (s, en) evs)).
Proof.
  induction evs as [|e evs IH]; intros s en g tr T G I; cbn [run run_steps grun fst snd]; [exact G|].
  pose proof (step_Inv cf s en e tr I) as I'. pose proof (step_GI cf s en g tr e T G I) as G'. cbn zeta in G'.
  specialize (G' I').
  destruct (step cf (s, en) e) as [[[s1 en1] o] tg]. cbn [fst snd] in *.
  specialize (IH s1 en1 _ (tr ++ o) T G' I').
  destruct (run cf (s1, en1) evs) as [[s2 en2] o2]. cbn [fst snd grun] in *. exact IH.
Qed.

(* when the environment has discharged what it owes, nothing is owed by the protocol *)
Lemma discharged_settled cf s en g tr :
  GI cf s en g -> Inv3 s -> Inv s tr -> discharged g -> settled s.
Proof.
  intros G [C _] I (Dd & Do & Dl). split.
  - destruct (dials s) as [|d l] eqn:E; [reflexivity|].
    assert (H : In (fst d) (g_dials g)) by (apply (gi_dial _ _ _ _ G); rewrite E; left; reflexivity).
    rewrite Dd in H. destruct H.
  - assert (Hno : forall x, In x (active s) -> False).
    { intros x Hx. destruct (C x Hx) as [[po [Hpo _]]|[f [Hf Ef]]].
      - pose proof (gi_po _ _ _ _ G po Hpo) as H. rewrite Do in H. destruct H.
      - rewrite <- Ef in Hx. destruct (gi_fut _ _ _ _ G f Hf Hx) as [dl [Hl Hd]].
        specialize (Dl _ Hl). cbn [snd] in Dl. pose proof (gi_dl _ _ _ _ G f Hf) as L.
        rewrite (gi_now _ _ _ _ G) in Dl. lia. }
    destruct (active s) as [|x l]; [reflexivity|]. destruct (Hno x (or_introl eq_refl)).
Qed.

(* Exactly one terminal event per accepted request once the environment has discharged
   everything it owes — the premise is the transport contract, not a property of the
   protocol's final state. *)
Theorem exactly_one_contract cf evs r :
  0 < tmo cf ->
  let res := run cf (init_pst, init_env) evs in
  discharged (grun cf g0 (run_steps cf (init_pst, init_env) evs)) ->
  In (OSent r) (snd res) ->
  terms r (snd res) = 1%nat \/ In r (cancel_reqs evs).
Proof.
  intros T res D. apply exactly_one_settled.
  pose proof (run_GI cf evs init_pst init_env g0 [] T (GI_init cf) Inv_init) as G.
  pose proof (run_Inv3 cf evs (init_pst, init_env) [] Inv_init Inv3_init) as I3.
  pose proof (run_Inv cf evs (init_pst, init_env) [] Inv_init) as I. cbn [app fst] in *.
  exact (discharged_settled cf _ _ _ _ G I3 I D).
Qed.

(* ------------------------------------------------------------------ output alphabets, generically *)

Section Alphabet.
  Variable P : out -> bool.
  Hypothesis P_sent : forall r, P (OSent r) = true.
  Hypothesis P_fail : forall r c, P (OFail r c) = true.
  Hypothesis P_resp : forall r l t, P (OResp r l t) = true.
  Hypothesis P_fbresp : forall r n, P (OFbResp r n) = true.
  Hypothesis P_dial : forall p, P (ODial p) = true.
  Hypothesis P_open : forall sid p, P (OOpen sid p) = true.

  Definition Pl (o : list out) : Prop := forallb P o = true.

  Lemma Pl_app a b : Pl a -> Pl b -> Pl (a ++ b).
  Proof. unfold Pl. rewrite forallb_app. intros -> ->. reflexivity. Qed.
  Lemma Pl_map_fail {A} (g : A -> N) code l : Pl (map (fun a => OFail (g a) code) l).
  Proof. unfold Pl. induction l; cbn; rewrite ?P_fail; auto. Qed.
  Lemma Pl_verdict rid res : Pl (verdict rid res).
  Proof.
    unfold verdict, Pl. destruct res as [l t|c]; [cbn; rewrite P_resp; reflexivity|].
    destruct (c =? E_CANCELED); cbn; rewrite ?P_fail; reflexivity.
  Qed.
  Lemma Pl_settle s p rid res : Pl (snd (settle s p rid res)).
  Proof. unfold settle. destruct (_ && _); cbn [snd]; [apply Pl_verdict|reflexivity]. Qed.
  Lemma Pl_complete s f res : Pl (snd (complete s f res)).
  Proof. unfold complete. apply Pl_settle. Qed.
  Lemma Pl_complete_all l : forall s res, Pl (snd (complete_all s l res)).
  Proof.
    induction l as [|f l IH]; intros s res; cbn [complete_all snd]; [reflexivity|].
    pose proof (Pl_complete s f res) as H. destruct (complete s f res) as [s1 o1].
    pose proof (IH s1 res) as H2. destruct (complete_all s1 l res) as [s2 o2]. cbn [snd] in *.
    apply Pl_app; assumption.
  Qed.
  Lemma Pl_send s p dial len tag fb ok dok sid : Pl (snd (h_send s p dial len tag fb ok dok sid)).
  Proof.
    unfold h_send, Pl. repeat match goal with |- context [if ?x then _ else _] => destruct x end;
      cbn; rewrite ?P_sent, ?P_fail, ?P_dial, ?P_open; reflexivity.
  Qed.
  Lemma Pl_established s p ok sid : Pl (snd (h_established s p ok sid)).
  Proof.
    unfold h_established. destruct (memN p (peers s)); [reflexivity|].
    destruct (filter _ (dials s)) as [|d0 mine]; [reflexivity|].
    destruct (firstn ok (d0 :: mine)); cbn [snd]; [apply (Pl_map_fail (fun d : N * req => q_rid (snd d)))|].
    apply Pl_app; [apply (Pl_map_fail (fun d : N * req => q_rid (snd d)))|].
    unfold Pl. induction (number_pouts p sid (p0 :: l)); cbn; rewrite ?P_open; auto.
  Qed.
  Lemma Pl_closed s p : Pl (snd (h_closed s p)).
  Proof. unfold h_closed. destruct (memN p _); cbn [snd]; [apply (Pl_map_fail snd)|reflexivity]. Qed.
  Lemma Pl_dialfail s p : Pl (snd (h_dialfail s p)).
  Proof. unfold h_dialfail. cbn [snd]. apply (Pl_map_fail (fun d : N * req => q_rid (snd d))). Qed.
  Lemma Pl_openfail s sid u : Pl (snd (h_openfail s sid u)).
  Proof. unfold h_openfail, Pl. destruct (find_po sid (pouts s)); cbn; rewrite ?P_fail; reflexivity. Qed.
  Lemma Pl_breakw s c : Pl (snd (fut_breakw s c)).
  Proof.
    unfold fut_breakw. destruct (find_fut c (futs s)) as [f|]; [|reflexivity].
    destruct (f_wait f); [reflexivity|apply Pl_complete].
  Qed.
  Lemma Pl_fb_resp f o : Pl (fb_resp f o).
  Proof.
    unfold fb_resp, Pl. destruct (f_neg f =? 0); [reflexivity|].
    induction o as [|x o IH]; [reflexivity|]. cbn [flat_map]. rewrite forallb_app, IH, andb_true_r.
    destruct x; cbn; rewrite ?P_fbresp; reflexivity.
  Qed.
  Lemma Pl_read s c res : Pl (snd (fut_read s c res)).
  Proof.
    unfold fut_read. destruct (find_fut c (futs s)) as [f|]; [|reflexivity].
    destruct (f_wait f); [|reflexivity].
    pose proof (Pl_complete s f res) as H. destruct (complete s f res) as [s1 o]. cbn [snd] in *.
    apply Pl_app; [exact H|apply Pl_fb_resp].
  Qed.
  Lemma Pl_advance s now : Pl (snd (fut_advance s now)).
  Proof. unfold fut_advance. apply Pl_complete_all. Qed.
  Lemma Pl_cancel s rid : Pl (snd (h_cancel s rid)).
  Proof.
    unfold h_cancel. destruct (find _ (futs s)) as [f|]; [|reflexivity].
    destruct (f_wait f); [apply Pl_complete|reflexivity].
  Qed.
  Lemma Pl_in o x : Pl o -> In x o -> P x = true.
  Proof. unfold Pl. rewrite forallb_forall. auto. Qed.
End Alphabet.

(* no feedback / no frame on the wire *)
Definition nfd (x : out) : bool := match x with OFeed _ _ => false | _ => true end.
Definition nwr (x : out) : bool := match x with OWire _ _ _ => false | _ => true end.

Definition nfdl := Pl nfd.
Lemma nfd_no_feed o i b : nfdl o -> ~ In (OFeed i b) o.
Proof. intros H Hin. pose proof (Pl_in nfd o _ H Hin). discriminate. Qed.
Lemma nfdl_app a b : nfdl a -> nfdl b -> nfdl (a ++ b).
Proof. apply Pl_app. Qed.

Lemma opened_body_nfd cf0 s po c gate now neg : nfdl (snd (opened_body cf0 s po c gate now neg)).
Proof.
  unfold opened_body. cbn [q_rid q_len q_tag q_fb].
  destruct (max_size cf0 <? _); [apply Pl_settle; reflexivity|].
  destruct gate as [|[g|g|]]; try (apply Pl_settle; reflexivity); reflexivity.
Qed.
Lemma unblock_nfd cf0 s c now : nfdl (snd (fut_unblock cf0 s c now)).
Proof.
  unfold fut_unblock. destruct (find_fut c (futs s)) as [f|]; [|reflexivity].
  destruct (f_wait f); [reflexivity|]. destruct (f_cancel f); [|reflexivity].
  pose proof (Pl_complete nfd (fun _ _ => eq_refl) (fun _ _ _ => eq_refl) s f (RErr E_CANCELED)) as H.
  destruct (complete s f _) as [s1 o]. cbn [snd] in *. unfold nfdl, Pl in *. cbn [forallb nfd]. exact H.
Qed.
Lemma inread_nfd s c good len tag : nfdl (snd (h_inread s c good len tag)).
Proof.
  unfold h_inread. destruct (find_rd c (rdrs s)) as [rd|]; [|reflexivity].
  destruct (_ && _); [destruct good; [destruct (r_neg rd =? 0)|]|]; reflexivity.
Qed.

Definition wired (o : list out) : Prop := exists c l t, In (OWireR c l t) o.

Lemma uresp_feed cf0 s irid len tag fb gate now i :
  In (OFeed i true) (snd (h_uresp cf0 s irid len tag fb gate now)) -> wired (snd (h_uresp cf0 s irid len tag fb gate now)).
Proof.
  unfold h_uresp, feed. destruct (find_rs irid (rsps s)) as [rs|]; [|intros []].
  destruct (s_w rs); [intros []|].
  destruct fb; (destruct (max_size cf0 <? len); [cbn; intros H; repeat destruct H as [H|H]; try discriminate; tauto|]);
    destruct gate as [|[g|g|]]; cbn [snd]; intros H; cbn in H; repeat destruct H as [H|H]; try discriminate; try tauto;
    eexists; eexists; eexists; left; reflexivity.
Qed.
Lemma rsp_gate_feed s c ok i :
  In (OFeed i true) (snd (rsp_gate s c ok)) -> wired (snd (rsp_gate s c ok)).
Proof.
  unfold rsp_gate, feed. destruct (find _ (rsps s)) as [rs|]; [|intros []].
  destruct (s_w rs) as [[[l t] d]|]; [|intros []]. cbn [snd].
  destruct ok; destruct (s_fb rs); cbn; intros H; repeat destruct H as [H|H]; try discriminate; try tauto;
    eexists; eexists; eexists; left; reflexivity.
Qed.
Lemma adv_out_feed s now i : ~ In (OFeed i true) (rsp_advance_out s now).
Proof.
  unfold rsp_advance_out. intros H. apply in_flat_map in H. destruct H as [a [_ H]].
  destruct (s_w a) as [[[x y] d]|]; [|destruct H]. destruct (d <=? now); [|destruct H].
  unfold feed in H. destruct (s_fb a); [|destruct H]. destruct H as [H|[]]. discriminate.
Qed.

Lemma wired_app_l a b : wired a -> wired (a ++ b).
Proof. intros [c [l [t H]]]. exists c, l, t. apply in_or_app. left. exact H. Qed.
Lemma wired_app_r a b : wired b -> wired (a ++ b).
Proof. intros [c [l [t H]]]. exists c, l, t. apply in_or_app. right. exact H. Qed.

(* feedback () is sent only in a step in which a frame went out *)
Lemma step_feed cf0 s en e i :
  In (OFeed i true) (snd (fst (step cf0 (s, en) e))) -> wired (snd (fst (step cf0 (s, en) e))).
Proof.
  assert (B := fun o (H : nfdl o) (Hin : In (OFeed i true) o) => False_ind (wired o) (nfd_no_feed o i true H Hin)).
  destruct e; cbn [step].
  - match goal with |- context [h_send s p dial len tag ?fb0 ?a0 ?b0 ?c0] =>
      pose proof (Pl_send nfd (fun _ => eq_refl) (fun _ _ => eq_refl) (fun _ => eq_refl) (fun _ _ => eq_refl) s p dial len tag fb0 a0 b0 c0) as H end.
    destruct (h_send _ _ _ _ _ _ _ _ _) as [s1 o]. apply B. exact H.
  - pose proof (Pl_cancel nfd (fun _ _ => eq_refl) (fun _ _ _ => eq_refl) s rid) as H. destruct (h_cancel s rid) as [s1 o]. apply B. exact H.
  - destruct (conn_of p en); cbn [fst snd]; [intros []|].
    match goal with |- context [h_established s p ?n ?sd] =>
      pose proof (Pl_established nfd (fun _ _ => eq_refl) (fun _ _ => eq_refl) s p n sd) as H end.
    destruct (h_established _ _ _ _) as [s1 o]. apply B. exact H.
  - destruct (conn_of p en); cbn [fst snd]; [|intros []].
    pose proof (Pl_closed nfd (fun _ _ => eq_refl) s p) as H. destruct (h_closed s p) as [s1 o]. apply B. exact H.
  - pose proof (Pl_dialfail nfd (fun _ _ => eq_refl) s p) as H. destruct (h_dialfail s p) as [s1 o]. apply B. exact H.
  - destruct (nth_mod k (opens en)) as [[sid q]|]; cbn [fst snd]; [|intros []].
    unfold h_opened. destruct (find_po sid (pouts s)) as [po|]; [|intros []].
    pose proof (opened_body_nfd cf0 s po (N.of_nat (length (chans en))) (N.min gate 2) (now en) neg) as H.
    destruct (opened_body _ _ _ _ _ _ _) as [s1 o]. cbn [fst snd] in *. intros [Hin|Hin]; [discriminate|].
    destruct (nfd_no_feed _ _ _ H Hin).
  - destruct (nth_mod k (opens en)) as [[sid q]|]; cbn [fst snd]; [|intros []].
    pose proof (Pl_openfail nfd (fun _ _ => eq_refl) s sid unsupported) as H. destruct (h_openfail _ _ _) as [s1 o]. apply B. exact H.
  - destruct (chans en) as [|ch0 chs]; cbn [fst snd]; [intros []|].
    destruct (nth_error _ _) as [ch|]; cbn [fst snd]; [|intros []].
    destruct (c_gate ch =? 0); cbn [fst snd]; [|intros []].
    pose proof (unblock_nfd cf0 s (k mod N.of_nat (length (ch0 :: chs))) (now en)) as H1.
    destruct (fut_unblock _ _ _ _) as [s1 o1]. cbn [fst snd] in *.
    pose proof (rsp_gate_feed s1 (k mod N.of_nat (length (ch0 :: chs))) true i) as H2.
    destruct (rsp_gate _ _ _) as [s2 o2]. cbn [fst snd] in *.
    intros Hin. apply in_app_or in Hin. destruct Hin as [Hin|Hin]; [destruct (nfd_no_feed _ _ _ H1 Hin)|].
    apply wired_app_r. exact (H2 Hin).
  - destruct (chans en) as [|ch0 chs]; cbn [fst snd]; [intros []|].
    destruct (nth_error _ _) as [ch|]; cbn [fst snd]; [|intros []].
    destruct (c_gate ch =? 2); cbn [fst snd]; [intros []|].
    pose proof (Pl_breakw nfd (fun _ _ => eq_refl) (fun _ _ _ => eq_refl) s (k mod N.of_nat (length (ch0 :: chs)))) as H1.
    destruct (fut_breakw _ _) as [s1 o1]. cbn [fst snd] in *.
    pose proof (rsp_gate_feed s1 (k mod N.of_nat (length (ch0 :: chs))) false i) as H2.
    destruct (rsp_gate _ _ _) as [s2 o2]. cbn [fst snd] in *.
    intros Hin. apply in_app_or in Hin. destruct Hin as [Hin|Hin]; [destruct (nfd_no_feed _ _ _ H1 Hin)|].
    apply wired_app_r. exact (H2 Hin).
  - destruct (chans en) as [|ch0 chs]; cbn [fst snd]; [intros []|].
    destruct (nth_error _ _) as [ch|]; cbn [fst snd]; [|intros []].
    destruct (c_out ch && c_seen ch); cbn [fst snd]; [|intros []].
    match goal with |- context [fut_read s ?c ?r] =>
      pose proof (Pl_read nfd (fun _ _ => eq_refl) (fun _ _ _ => eq_refl) (fun _ _ => eq_refl) s c r) as H; destruct (fut_read s c r) as [s1 o] end.
    apply B. exact H.
  - destruct (chans en) as [|ch0 chs]; cbn [fst snd]; [intros []|].
    destruct (nth_error _ _) as [ch|]; cbn [fst snd]; [|intros []].
    destruct (c_out ch); [destruct (c_seen ch)|]; cbn [fst snd]; try (intros []).
    + match goal with |- context [fut_read s ?c ?r] =>
        pose proof (Pl_read nfd (fun _ _ => eq_refl) (fun _ _ _ => eq_refl) (fun _ _ => eq_refl) s c r) as H; destruct (fut_read s c r) as [s1 o] end.
      apply B. exact H.
    + match goal with |- context [h_inread s ?c ?g ?l ?t] =>
        pose proof (inread_nfd s c g l t) as H; destruct (h_inread s c g l t) as [s1 o] end. apply B. exact H.
  - destruct (chans en) as [|ch0 chs]; cbn [fst snd]; [intros []|].
    destruct (nth_error _ _) as [ch|]; cbn [fst snd]; [|intros []].
    destruct (c_out ch); [destruct (c_seen ch)|]; cbn [fst snd]; try (intros []).
    + match goal with |- context [fut_read s ?c ?r] =>
        pose proof (Pl_read nfd (fun _ _ => eq_refl) (fun _ _ _ => eq_refl) (fun _ _ => eq_refl) s c r) as H; destruct (fut_read s c r) as [s1 o] end.
      apply B. exact H.
    + match goal with |- context [h_inread s ?c ?g ?l ?t] =>
        pose proof (inread_nfd s c g l t) as H; destruct (h_inread s c g l t) as [s1 o] end. apply B. exact H.
  - pose proof (Pl_advance nfd (fun _ _ => eq_refl) (fun _ _ _ => eq_refl) s (now en + dt)) as H.
    destruct (fut_advance s (now en + dt)) as [s1 o]. cbn [fst snd] in *.
    intros Hin. apply in_app_or in Hin. destruct Hin as [Hin|Hin]; [destruct (nfd_no_feed _ _ _ H Hin)|destruct (adv_out_feed _ _ _ Hin)].
  - destruct (conn_of p en); cbn [fst snd]; [|intros []].
    pose proof (inopen_shape cf0 s p (N.of_nat (length (chans en))) neg) as (O & _).
    destruct (h_inopen _ _ _ _ _) as [s1 o]. cbn [fst snd] in *. subst o. intros [].
  - destruct (chans en) as [|ch0 chs]; cbn [fst snd]; [intros []|].
    destruct (nth_error _ _) as [ch|]; cbn [fst snd]; [|intros []].
    destruct (negb (c_out ch)); cbn [fst snd]; [|intros []].
    match goal with |- context [h_inread s ?c ?g ?l ?t] =>
      pose proof (inread_nfd s c g l t) as H; destruct (h_inread s c g l t) as [s1 o] end. apply B. exact H.
  - destruct (nth_mod k (hpend en)) as [irid|]; cbn [fst snd]; [|intros []].
    match goal with |- context [h_uresp cf0 s ?a ?b ?c ?f ?d ?e0] =>
      pose proof (uresp_feed cf0 s a b c f d e0 i) as H; destruct (h_uresp cf0 s a b c f d e0) as [s1 o] end. exact H.
  - destruct (nth_mod k (hpend en)) as [irid|]; cbn [fst snd]; intros [].
  - cbn [fst snd]. intros [].
  - cbn [fst snd]. intros [].
  - cbn [fst snd]. intros [].
  - cbn [fst snd]. intros [].
  - cbn [fst snd]. intros [].
  - cbn [fst snd]. intros [].
Qed.

Theorem feedback_only_after_wire cf0 evs e o tg i :
  In (e, o, tg) (run_steps cf0 (init_pst, init_env) evs) -> In (OFeed i true) o ->
  exists c l t, In (OWireR c l t) o.
Proof.
  intros Hin Hf. destruct (steps_are_steps cf0 evs _ _ Hin) as [s [en [Eo _]]]. cbn [fst snd] in Eo.
  rewrite Eo in *. exact (step_feed cf0 s en e i Hf).
Qed.

(* ------------------------------------------------------------------ the request frame on the wire *)

Definition nwrl := Pl nwr.
Lemma nwr_no_wire o c l t : nwrl o -> ~ In (OWire c l t) o.
Proof. intros H Hin. pose proof (Pl_in nwr o _ H Hin). discriminate. Qed.

Lemma uresp_nwr cf0 s irid len tag fb gate now : nwrl (snd (h_uresp cf0 s irid len tag fb gate now)).
Proof.
  unfold h_uresp, feed. destruct (find_rs irid (rsps s)) as [rs|]; [|reflexivity].
  destruct (s_w rs); [reflexivity|]. destruct fb; (destruct (max_size cf0 <? len); [reflexivity|]);
  destruct gate as [|[g|g|]]; reflexivity.
Qed.
Lemma rsp_gate_nwr s c ok : nwrl (snd (rsp_gate s c ok)).
Proof.
  unfold rsp_gate. destruct (find _ (rsps s)) as [rs|]; [|reflexivity].
  destruct (s_w rs) as [[[l t] d]|]; [|reflexivity]. unfold feed. destruct ok; destruct (s_fb rs); reflexivity.
Qed.
Lemma adv_out_nwr s now : nwrl (rsp_advance_out s now).
Proof.
  unfold rsp_advance_out, nwrl, Pl. induction (rsps s) as [|a l IH]; [reflexivity|].
  cbn [flat_map]. rewrite forallb_app, IH, andb_true_r. destruct (s_w a) as [[[x y] d]|]; [|reflexivity].
  destruct (d <=? now); [|reflexivity]. unfold feed. destruct (s_fb a); reflexivity.
Qed.
Lemma inread_nwr s c good len tag : nwrl (snd (h_inread s c good len tag)).
Proof.
  unfold h_inread. destruct (find_rd c (rdrs s)) as [rd|]; [|reflexivity].
  destruct (_ && _); [destruct good; [destruct (r_neg rd =? 0)|]|]; reflexivity.
Qed.

(* the request contexts held by the protocol *)
Definition reqs (s : pst) : list req := map snd (dials s) ++ map po_req (pouts s) ++ map f_req (futs s).
Definition ReqsSub (s s' : pst) : Prop := forall q, In q (reqs s') -> In q (reqs s).

Lemma in_reqs s q :
  In q (reqs s) <-> (exists d, In d (dials s) /\ snd d = q) \/ (exists po, In po (pouts s) /\ po_req po = q) \/
                    (exists f, In f (futs s) /\ f_req f = q).
Proof.
  unfold reqs. rewrite !in_app_iff, !in_map_iff. firstorder.
Qed.

Definition FutsReq (s s' : pst) : Prop := forall g, In g (futs s') -> exists f, In f (futs s) /\ f_req f = f_req g.

Lemma ReqsSub_keep s s' : dials s' = dials s -> pouts s' = pouts s -> FutsReq s s' -> ReqsSub s s'.
Proof.
  intros D P F q. rewrite !in_reqs, D, P. intros [H|[H|[g [Hg E]]]]; [left; exact H|right; left; exact H|].
  right. right. destruct (F g Hg) as [f [Hf Ef]]. exists f. split; [exact Hf|congruence].
Qed.
Lemma ReqsSub_refl s : ReqsSub s s.
Proof. intros q H. exact H. Qed.
Lemma ReqsSub_trans s s1 s2 : ReqsSub s s1 -> ReqsSub s1 s2 -> ReqsSub s s2.
Proof. intros A B q H. apply A, B, H. Qed.
Lemma FutsReq_sub s s' : (forall g, In g (futs s') -> In g (futs s)) -> FutsReq s s'.
Proof. intros H g Hg. exists g. auto. Qed.

Lemma complete_ReqsSub s f res : ReqsSub s (fst (complete s f res)).
Proof.
  pose proof (complete_Keep3 s f res) as (D & P & _).
  apply ReqsSub_keep; auto. apply FutsReq_sub. apply complete_futs_sub.
Qed.
Lemma complete_all_ReqsSub l s res : ReqsSub s (fst (complete_all s l res)).
Proof.
  pose proof (complete_all_Keep3 l s res) as (D & P & _).
  apply ReqsSub_keep; auto. apply FutsReq_sub. apply complete_all_futs_sub.
Qed.
Lemma unblock_ReqsSub cf0 s c now : ReqsSub s (fst (fut_unblock cf0 s c now)).
Proof.
  pose proof (unblock_Keep3 cf0 s c now) as (D & P & _). apply ReqsSub_keep; auto.
  unfold fut_unblock. destruct (find_fut c (futs s)) as [f|]; [|apply FutsReq_sub; auto].
  destruct (f_wait f); [apply FutsReq_sub; auto|]. destruct (f_cancel f).
  - pose proof (complete_futs_sub s f (RErr E_CANCELED)) as H. destruct (complete s f _) as [s1 o]. apply FutsReq_sub. exact H.
  - cbn [fst]. intros g Hg. simp_sets. unfold to_wait in Hg. apply in_map_iff in Hg. destruct Hg as [f0 [<- H0]].
    exists f0. split; [exact H0|]. destruct (f_chan f0 =? c); reflexivity.
Qed.
Lemma breakw_ReqsSub s c : ReqsSub s (fst (fut_breakw s c)).
Proof.
  unfold fut_breakw. destruct (find_fut c (futs s)) as [f|]; [|apply ReqsSub_refl].
  destruct (f_wait f); [apply ReqsSub_refl|apply complete_ReqsSub].
Qed.
Lemma read_ReqsSub s c res : ReqsSub s (fst (fut_read s c res)).
Proof.
  unfold fut_read. destruct (find_fut c (futs s)) as [f|]; [|apply ReqsSub_refl].
  destruct (f_wait f); [|apply ReqsSub_refl].
  pose proof (complete_ReqsSub s f res) as H. destruct (complete s f res) as [s1 o]. exact H.
Qed.
Lemma cancel_ReqsSub s rid : ReqsSub s (fst (h_cancel s rid)).
Proof.
  unfold h_cancel. destruct (find _ (futs s)) as [f|]; [|apply ReqsSub_refl].
  destruct (f_wait f); [apply complete_ReqsSub|].
  cbn [fst]. apply ReqsSub_keep; [reflexivity|reflexivity|].
  intros g Hg. simp_sets. unfold mark_cancel in Hg. apply in_map_iff in Hg. destruct Hg as [f0 [<- H0]].
  exists f0. split; [exact H0|]. destruct (q_rid (f_req f0) =? rid); reflexivity.
Qed.
Lemma same_ledger_ReqsSub s s' : same_ledger s s' -> ReqsSub s s'.
Proof. intros (D & _ & P & F & _). apply ReqsSub_keep; auto. apply FutsReq_sub. rewrite F. auto. Qed.
Lemma closed_ReqsSub s p : ReqsSub s (fst (h_closed s p)).
Proof.
  intros q. rewrite !in_reqs. unfold h_closed. simp_sets. destruct (memN p (peers s)); cbn [fst]; simp_sets;
    (intros [H|[[po [Hpo E]]|H]]; [left; exact H|right; left; exists po; apply filter_In in Hpo; destruct Hpo; split; assumption|right; right; exact H]).
Qed.
Lemma dialfail_ReqsSub s p : ReqsSub s (fst (h_dialfail s p)).
Proof.
  intros q. rewrite !in_reqs. unfold h_dialfail. cbn [fst]. simp_sets.
  intros [[d [Hd E]]|H]; [left; exists d; apply filter_In in Hd; tauto|right; exact H].
Qed.
Lemma openfail_ReqsSub s sid u : ReqsSub s (fst (h_openfail s sid u)).
Proof.
  intros q. rewrite !in_reqs. unfold h_openfail. destruct (find_po sid (pouts s)); cbn [fst]; simp_sets; [|auto].
  intros [H|[[po [Hpo E]]|H]]; [left; exact H|right; left; exists po; unfold drop_po in Hpo; apply filter_In in Hpo; tauto|right; right; exact H].
Qed.
Lemma number_pouts_reqs p sid l po : In po (number_pouts p sid l) -> exists d, In d l /\ snd d = po_req po.
Proof.
  revert sid. induction l as [|[a q] l IH]; intros sid; [intros []|].
  cbn [number_pouts In]. intros [<-|H]; [exists (a, q); auto|]. destruct (IH _ H) as [d [Hd E]]. exists d. auto.
Qed.
Lemma established_ReqsSub s p ok sid : ReqsSub s (fst (h_established s p ok sid)).
Proof.
  intros q. rewrite !in_reqs. unfold h_established. destruct (memN p (peers s)); cbn [fst]; [auto|]. simp_sets.
  assert (HD : forall d, In d (filter (fun d : N * req => negb (fst d =? p)) (dials s)) -> In d (dials s))
    by (intros d H; apply filter_In in H; tauto).
  destruct (filter (fun d : N * req => fst d =? p) (dials s)) as [|d0 mine] eqn:M; cbn [fst]; simp_sets.
  - intros [[d [Hd E]]|H]; [left; exists d; auto|right; exact H].
  - assert (Hm : forall d, In d (d0 :: mine) -> In d (dials s)).
    { intros d Hd. rewrite <- M in Hd. apply filter_In in Hd. tauto. }
    destruct (firstn ok (d0 :: mine)) as [|x okl] eqn:Fo; cbn [fst]; simp_sets.
    + intros [[d [Hd E]]|H]; [left; exists d; auto|right; exact H].
    + intros [[d [Hd E]]|[[po [Hpo E]]|H]]; [left; exists d; auto| |right; right; exact H].
      apply in_app_or in Hpo. destruct Hpo as [Hpo|Hpo]; [right; left; exists po; auto|].
      left. destruct (number_pouts_reqs _ _ _ _ Hpo) as [d [Hd Ed]]. exists d. split; [|congruence].
      apply Hm. rewrite <- (firstn_skipn ok (d0 :: mine)), Fo. apply in_or_app. left. exact Hd.
Qed.

Lemma unblock_wire cf0 s c now c' l t :
  In (OWire c' l t) (snd (fut_unblock cf0 s c now)) ->
  exists f, In f (futs s) /\ f_chan f = c' /\ l = q_len (f_req f) /\ t = q_tag (f_req f).
Proof.
  unfold fut_unblock. destruct (find_fut c (futs s)) as [f|] eqn:F; [|intros []].
  apply find_some in F. destruct F as [Hf Ec]. apply N.eqb_eq in Ec.
  destruct (f_wait f); [intros []|]. destruct (f_cancel f).
  - pose proof (Pl_complete nwr (fun _ _ => eq_refl) (fun _ _ _ => eq_refl) s f (RErr E_CANCELED)) as H.
    destruct (complete s f _) as [s1 o]. cbn [snd] in *. intros [Hin|Hin]; [|destruct (nwr_no_wire _ _ _ _ H Hin)].
    injection Hin as <- <- <-. exists f. auto.
  - cbn [snd]. intros [Hin|[]]. injection Hin as <- <- <-. exists f. auto.
Qed.
Lemma opened_body_wire cf0 s po c gate now neg c' l t :
  In (OWire c' l t) (snd (opened_body cf0 s po c gate now neg)) ->
  c' = c /\ l = fst (chosen (po_req po) neg) /\ t = snd (chosen (po_req po) neg).
Proof.
  unfold opened_body. cbn [q_rid q_len q_tag q_fb].
  assert (H : forall res, ~ In (OWire c' l t) (snd (settle (set_pouts s (drop_po po (pouts s))) (po_peer po) (q_rid (po_req po)) res))).
  { intros res. apply nwr_no_wire. apply Pl_settle; reflexivity. }
  destruct (max_size cf0 <? _); [intros Hin; destruct (H _ Hin)|].
  destruct gate as [|[g|g|]]; try (intros Hin; destruct (H _ Hin)); cbn [snd]; [intros []|].
  intros [Hin|[]]. injection Hin as <- <- <-. auto.
Qed.

(* where a request frame on the wire comes from *)
Lemma step_wire cf0 s en e c l t :
  In (OWire c l t) (snd (fst (step cf0 (s, en) e))) ->
  (exists f, In f (futs s) /\ f_chan f = c /\ l = q_len (f_req f) /\ t = q_tag (f_req f) /\
             forall c' r, ~ In (OBind c' r) (snd (fst (step cf0 (s, en) e)))) \/
  (exists k g ng po, e = EOpened k g ng /\ In po (pouts s) /\ c = nch en /\
                     l = fst (chosen (po_req po) ng) /\ t = snd (chosen (po_req po) ng) /\
                     forall c' r, In (OBind c' r) (snd (fst (step cf0 (s, en) e))) -> c' = c /\ r = rid_po po).
Proof.
  assert (B := fun o (H : nwrl o) (Hin : In (OWire c l t) o) => False_ind
     ((exists f, In f (futs s) /\ f_chan f = c /\ l = q_len (f_req f) /\ t = q_tag (f_req f) /\
                 forall c' r, ~ In (OBind c' r) o) \/
      (exists k g ng po, e = EOpened k g ng /\ In po (pouts s) /\ c = nch en /\
                     l = fst (chosen (po_req po) ng) /\ t = snd (chosen (po_req po) ng) /\
                     forall c' r, In (OBind c' r) o -> c' = c /\ r = rid_po po)) (nwr_no_wire o c l t H Hin)).
  destruct e; cbn [step].
  - match goal with |- context [h_send s p dial len tag ?fb0 ?a0 ?b0 ?c0] =>
      pose proof (Pl_send nwr (fun _ => eq_refl) (fun _ _ => eq_refl) (fun _ => eq_refl) (fun _ _ => eq_refl) s p dial len tag fb0 a0 b0 c0) as H end.
    destruct (h_send _ _ _ _ _ _ _ _ _) as [s1 o]. apply B. exact H.
  - pose proof (Pl_cancel nwr (fun _ _ => eq_refl) (fun _ _ _ => eq_refl) s rid) as H. destruct (h_cancel s rid) as [s1 o]. apply B. exact H.
  - destruct (conn_of p en); cbn [fst snd]; [intros []|].
    match goal with |- context [h_established s p ?n ?sd] =>
      pose proof (Pl_established nwr (fun _ _ => eq_refl) (fun _ _ => eq_refl) s p n sd) as H end.
    destruct (h_established _ _ _ _) as [s1 o]. apply B. exact H.
  - destruct (conn_of p en); cbn [fst snd]; [|intros []].
    pose proof (Pl_closed nwr (fun _ _ => eq_refl) s p) as H. destruct (h_closed s p) as [s1 o]. apply B. exact H.
  - pose proof (Pl_dialfail nwr (fun _ _ => eq_refl) s p) as H. destruct (h_dialfail s p) as [s1 o]. apply B. exact H.
  - (* opened *)
    destruct (nth_mod k (opens en)) as [[sid q]|]; cbn [fst snd]; [|intros []].
    unfold h_opened. destruct (find_po sid (pouts s)) as [po|] eqn:Fp; [|intros []].
    pose proof (opened_body_wire cf0 s po (N.of_nat (length (chans en))) (N.min gate 2) (now en) neg c l t) as W.
    pose proof (opened_body_ncl cf0 s po (N.of_nat (length (chans en))) (N.min gate 2) (now en) neg) as NC.
    destruct (opened_body _ _ _ _ _ _ _) as [s1 o]. cbn [fst snd] in *.
    intros [Hin|Hin]; [discriminate|]. destruct (W Hin) as (-> & -> & ->).
    right. exists k, gate, neg, po. split; [reflexivity|]. split; [exact (proj1 (find_in _ _ _ Fp))|].
    repeat split; try reflexivity.
    + destruct H as [H|H]; [injection H as <- _; reflexivity|].
      apply ncl_nocall in NC. destruct NC as (_ & _ & N3). exfalso.
      assert (In (c', r) (o_binds o)) by (unfold o_binds; apply in_flat_map; exists (OBind c' r); split; [exact H|left; reflexivity]).
      rewrite N3 in H0. destruct H0.
    + destruct H as [H|H]; [injection H as _ <-; reflexivity|].
      apply ncl_nocall in NC. destruct NC as (_ & _ & N3). exfalso.
      assert (In (c', r) (o_binds o)) by (unfold o_binds; apply in_flat_map; exists (OBind c' r); split; [exact H|left; reflexivity]).
      rewrite N3 in H0. destruct H0.
  - destruct (nth_mod k (opens en)) as [[sid q]|]; cbn [fst snd]; [|intros []].
    pose proof (Pl_openfail nwr (fun _ _ => eq_refl) s sid unsupported) as H. destruct (h_openfail _ _ _) as [s1 o]. apply B. exact H.
  - (* unblock *)
    destruct (chans en) as [|ch0 chs]; cbn [fst snd]; [intros []|].
    destruct (nth_error _ _) as [ch|]; cbn [fst snd]; [|intros []].
    destruct (c_gate ch =? 0); cbn [fst snd]; [|intros []].
    pose proof (unblock_wire cf0 s (k mod N.of_nat (length (ch0 :: chs))) (now en) c l t) as W.
    pose proof (unblock_ncl cf0 s (k mod N.of_nat (length (ch0 :: chs))) (now en)) as NC1.
    destruct (fut_unblock _ _ _ _) as [s1 o1]. cbn [fst snd] in *.
    pose proof (rsp_gate_nwr s1 (k mod N.of_nat (length (ch0 :: chs))) true) as H2.
    pose proof (rsp_gate_ncl s1 (k mod N.of_nat (length (ch0 :: chs))) true) as NC2.
    destruct (rsp_gate _ _ _) as [s2 o2]. cbn [fst snd] in *.
    intros Hin. apply in_app_or in Hin. destruct Hin as [Hin|Hin]; [|destruct (nwr_no_wire _ _ _ _ H2 Hin)].
    destruct (W Hin) as [f [Hf [E1 [E2 E3]]]]. left. exists f. repeat split; auto.
    intros c' r Hb. pose proof (ncl_nocall _ (ncl_app _ _ NC1 NC2)) as (_ & _ & N3).
    assert (In (c', r) (o_binds (o1 ++ o2))) by (unfold o_binds; apply in_flat_map; exists (OBind c' r); split; [exact Hb|left; reflexivity]).
    rewrite N3 in H. destruct H.
  - destruct (chans en) as [|ch0 chs]; cbn [fst snd]; [intros []|].
    destruct (nth_error _ _) as [ch|]; cbn [fst snd]; [|intros []].
    destruct (c_gate ch =? 2); cbn [fst snd]; [intros []|].
    pose proof (Pl_breakw nwr (fun _ _ => eq_refl) (fun _ _ _ => eq_refl) s (k mod N.of_nat (length (ch0 :: chs)))) as H1.
    destruct (fut_breakw _ _) as [s1 o1]. cbn [fst snd] in *.
    pose proof (rsp_gate_nwr s1 (k mod N.of_nat (length (ch0 :: chs))) false) as H2.
    destruct (rsp_gate _ _ _) as [s2 o2]. cbn [fst snd] in *. apply B. apply Pl_app; assumption.
  - destruct (chans en) as [|ch0 chs]; cbn [fst snd]; [intros []|].
    destruct (nth_error _ _) as [ch|]; cbn [fst snd]; [|intros []].
    destruct (c_out ch && c_seen ch); cbn [fst snd]; [|intros []].
    match goal with |- context [fut_read s ?c0 ?r] =>
      pose proof (Pl_read nwr (fun _ _ => eq_refl) (fun _ _ _ => eq_refl) (fun _ _ => eq_refl) s c0 r) as H; destruct (fut_read s c0 r) as [s1 o] end.
    apply B. exact H.
  - destruct (chans en) as [|ch0 chs]; cbn [fst snd]; [intros []|].
    destruct (nth_error _ _) as [ch|]; cbn [fst snd]; [|intros []].
    destruct (c_out ch); [destruct (c_seen ch)|]; cbn [fst snd]; try (intros []).
    + match goal with |- context [fut_read s ?c0 ?r] =>
        pose proof (Pl_read nwr (fun _ _ => eq_refl) (fun _ _ _ => eq_refl) (fun _ _ => eq_refl) s c0 r) as H; destruct (fut_read s c0 r) as [s1 o] end.
      apply B. exact H.
    + match goal with |- context [h_inread s ?c0 ?g ?l0 ?t0] =>
        pose proof (inread_nwr s c0 g l0 t0) as H; destruct (h_inread s c0 g l0 t0) as [s1 o] end. apply B. exact H.
  - destruct (chans en) as [|ch0 chs]; cbn [fst snd]; [intros []|].
    destruct (nth_error _ _) as [ch|]; cbn [fst snd]; [|intros []].
    destruct (c_out ch); [destruct (c_seen ch)|]; cbn [fst snd]; try (intros []).
    + match goal with |- context [fut_read s ?c0 ?r] =>
        pose proof (Pl_read nwr (fun _ _ => eq_refl) (fun _ _ _ => eq_refl) (fun _ _ => eq_refl) s c0 r) as H; destruct (fut_read s c0 r) as [s1 o] end.
      apply B. exact H.
    + match goal with |- context [h_inread s ?c0 ?g ?l0 ?t0] =>
        pose proof (inread_nwr s c0 g l0 t0) as H; destruct (h_inread s c0 g l0 t0) as [s1 o] end. apply B. exact H.
  - pose proof (Pl_advance nwr (fun _ _ => eq_refl) (fun _ _ _ => eq_refl) s (now en + dt)) as H.
    destruct (fut_advance s (now en + dt)) as [s1 o]. cbn [fst snd] in *. apply B. apply Pl_app; [exact H|apply adv_out_nwr].
  - destruct (conn_of p en); cbn [fst snd]; [|intros []].
    pose proof (inopen_shape cf0 s p (N.of_nat (length (chans en))) neg) as (O & _).
    destruct (h_inopen _ _ _ _ _) as [s1 o]. cbn [fst snd] in *. subst o. intros [].
  - destruct (chans en) as [|ch0 chs]; cbn [fst snd]; [intros []|].
    destruct (nth_error _ _) as [ch|]; cbn [fst snd]; [|intros []].
    destruct (negb (c_out ch)); cbn [fst snd]; [|intros []].
    match goal with |- context [h_inread s ?c0 ?g ?l0 ?t0] =>
      pose proof (inread_nwr s c0 g l0 t0) as H; destruct (h_inread s c0 g l0 t0) as [s1 o] end. apply B. exact H.
  - destruct (nth_mod k (hpend en)) as [irid|]; cbn [fst snd]; [|intros []].
    match goal with |- context [h_uresp cf0 s ?a ?b ?c0 ?f ?d ?e0] =>
      pose proof (uresp_nwr cf0 s a b c0 f d e0) as H; destruct (h_uresp cf0 s a b c0 f d e0) as [s1 o] end. apply B. exact H.
  - destruct (nth_mod k (hpend en)) as [irid|]; cbn [fst snd]; intros [].
  - cbn [fst snd]. intros [].
  - cbn [fst snd]. intros [].
  - cbn [fst snd]. intros [].
  - cbn [fst snd]. intros [].
  - cbn [fst snd]. intros [].
  - cbn [fst snd]. intros [].
Qed.

Definition sent_ids (o : list out) : list N := flat_map (fun x => match x with OSent r => [r] | _ => [] end) o.

Lemma send_reqs s p dial len tag fb ok dok sid q :
  In q (reqs (fst (h_send s p dial len tag fb ok dok sid))) -> In q (reqs s) \/ q = mkReq (next_rid s) len tag fb.
Proof.
  rewrite !in_reqs. unfold h_send. simp_sets.
  destruct (memN p (peers s)); [destruct ok|destruct dial; cbn [negb]; [destruct (dial_accepted dok)|]]; cbn [fst]; simp_sets;
    try (intros H; left; exact H).
  - intros [H|[[po [Hpo E]]|H]]; [left; left; exact H| |left; right; right; exact H].
    apply in_app_or in Hpo. destruct Hpo as [Hpo|[<-|[]]]; [left; right; left; exists po; auto|right; symmetry; exact E].
  - intros [[d [Hd E]]|H]; [|left; right; exact H].
    apply in_app_or in Hd. destruct Hd as [Hd|[<-|[]]]; [left; left; exists d; auto|right; symmetry; exact E].
Qed.
Lemma send_sent s p dial len tag fb ok dok sid :
  sent_ids (snd (h_send s p dial len tag fb ok dok sid)) = [next_rid s].
Proof. unfold h_send. repeat match goal with |- context [if ?x then _ else _] => destruct x end; reflexivity. Qed.

Lemma opened_body_reqs cf0 s po c gate now neg q :
  In po (pouts s) ->
  In q (reqs (fst (opened_body cf0 s po c gate now neg))) ->
  In q (reqs s) \/ q = mkReq (q_rid (po_req po)) (fst (chosen (po_req po) neg)) (snd (chosen (po_req po) neg)) (q_fb (po_req po)).
Proof.
  intros Hin. unfold opened_body. cbn [q_rid q_len q_tag q_fb].
  assert (HS : forall res, In q (reqs (fst (settle (set_pouts s (drop_po po (pouts s))) (po_peer po) (q_rid (po_req po)) res))) -> In q (reqs s)).
  { intros res. rewrite !in_reqs. unfold settle. destruct (_ && _); cbn [fst]; simp_sets;
      (intros [H|[[po' [Hpo E]]|H]]; [left; exact H|right; left; exists po'; unfold drop_po in Hpo; apply filter_In in Hpo; destruct Hpo; auto|right; right; exact H]). }
  destruct (max_size cf0 <? _); [intros H; left; exact (HS _ H)|].
  destruct gate as [|[g|g|]]; try (intros H; left; exact (HS _ H)); rewrite !in_reqs; cbn [fst]; simp_sets;
    (intros [H|[[po' [Hpo E]]|[f [Hf E]]]];
     [left; left; exact H
     |left; right; left; exists po'; unfold drop_po in Hpo; apply filter_In in Hpo; destruct Hpo; auto
     |apply in_app_or in Hf; destruct Hf as [Hf|[<-|[]]]; [left; right; right; exists f; auto|right; symmetry; exact E]]).
Qed.

(* where a request context comes from *)
Lemma step_reqs cf0 s en e q :
  In q (reqs (fst (fst (fst (step cf0 (s, en) e))))) ->
  In q (reqs s) \/
  (exists p d l t fb, e = ESend p d l t fb /\ q = mkReq (next_rid s) l t fb) \/
  (exists k g ng po, e = EOpened k g ng /\ In po (pouts s) /\
                     q = mkReq (q_rid (po_req po)) (fst (chosen (po_req po) ng)) (snd (chosen (po_req po) ng)) (q_fb (po_req po))).
Proof.
  destruct e; cbn [step].
  - match goal with |- context [h_send s p dial len tag ?fb0 ?a0 ?b0 ?c0] =>
      pose proof (send_reqs s p dial len tag fb0 a0 b0 c0 q) as H end.
    destruct (h_send _ _ _ _ _ _ _ _ _) as [s1 o]. cbn [fst] in *. intros Hq. destruct (H Hq) as [A|A]; [left; exact A|].
    right. left. exists p, dial, len, tag, fb. auto.
  - pose proof (cancel_ReqsSub s rid q) as H. destruct (h_cancel s rid) as [s1 o]. intros Hq. left. exact (H Hq).
  - destruct (conn_of p en); cbn [fst]; [auto|].
    match goal with |- context [h_established s p ?n ?sd] => pose proof (established_ReqsSub s p n sd q) as H end.
    destruct (h_established _ _ _ _) as [s1 o]. intros Hq. left. exact (H Hq).
  - destruct (conn_of p en); cbn [fst]; [|auto].
    pose proof (closed_ReqsSub s p q) as H. destruct (h_closed s p) as [s1 o]. intros Hq. left. exact (H Hq).
  - pose proof (dialfail_ReqsSub s p q) as H. destruct (h_dialfail s p) as [s1 o]. intros Hq. left. exact (H Hq).
  - destruct (nth_mod k (opens en)) as [[sid q0]|]; cbn [fst]; [|auto].
    unfold h_opened. destruct (find_po sid (pouts s)) as [po|] eqn:Fp; [|auto].
    pose proof (opened_body_reqs cf0 s po (N.of_nat (length (chans en))) (N.min gate 2) (now en) neg q (proj1 (find_in _ _ _ Fp))) as H.
    destruct (opened_body _ _ _ _ _ _ _) as [s1 o]. cbn [fst] in *. intros Hq. destruct (H Hq) as [A|A]; [left; exact A|].
    right. right. exists k, gate, neg, po. split; [reflexivity|]. split; [exact (proj1 (find_in _ _ _ Fp))|exact A].
  - destruct (nth_mod k (opens en)) as [[sid q0]|]; cbn [fst]; [|auto].
    pose proof (openfail_ReqsSub s sid unsupported q) as H. destruct (h_openfail _ _ _) as [s1 o]. intros Hq. left. exact (H Hq).
  - destruct (chans en) as [|ch0 chs]; cbn [fst]; [auto|].
    destruct (nth_error _ _) as [ch|]; cbn [fst]; [|auto].
    destruct (c_gate ch =? 0); cbn [fst]; [|auto].
    pose proof (unblock_ReqsSub cf0 s (k mod N.of_nat (length (ch0 :: chs))) (now en)) as H.
    destruct (fut_unblock _ _ _ _) as [s1 o1]. cbn [fst] in *.
    pose proof (rsp_gate_same s1 (k mod N.of_nat (length (ch0 :: chs))) true) as [H2 _].
    destruct (rsp_gate _ _ _) as [s2 o2]. cbn [fst] in *. intros Hq. left. apply H. exact (same_ledger_ReqsSub _ _ H2 q Hq).
  - destruct (chans en) as [|ch0 chs]; cbn [fst]; [auto|].
    destruct (nth_error _ _) as [ch|]; cbn [fst]; [|auto].
    destruct (c_gate ch =? 2); cbn [fst]; [auto|].
    pose proof (breakw_ReqsSub s (k mod N.of_nat (length (ch0 :: chs)))) as H.
    destruct (fut_breakw _ _) as [s1 o1]. cbn [fst] in *.
    pose proof (rsp_gate_same s1 (k mod N.of_nat (length (ch0 :: chs))) false) as [H2 _].
    destruct (rsp_gate _ _ _) as [s2 o2]. cbn [fst] in *. intros Hq. left. apply H. exact (same_ledger_ReqsSub _ _ H2 q Hq).
  - destruct (chans en) as [|ch0 chs]; cbn [fst]; [auto|].
    destruct (nth_error _ _) as [ch|]; cbn [fst]; [|auto].
    destruct (c_out ch && c_seen ch); cbn [fst]; [|auto].
    match goal with |- context [fut_read s ?c0 ?r] =>
      pose proof (read_ReqsSub s c0 r q) as H; destruct (fut_read s c0 r) as [s1 o] end. intros Hq. left. exact (H Hq).
  - destruct (chans en) as [|ch0 chs]; cbn [fst]; [auto|].
    destruct (nth_error _ _) as [ch|]; cbn [fst]; [|auto].
    destruct (c_out ch); [destruct (c_seen ch)|]; cbn [fst]; auto.
    + match goal with |- context [fut_read s ?c0 ?r] =>
        pose proof (read_ReqsSub s c0 r q) as H; destruct (fut_read s c0 r) as [s1 o] end. intros Hq. left. exact (H Hq).
    + match goal with |- context [h_inread s ?c0 ?g ?l0 ?t0] =>
        pose proof (inread_same s c0 g l0 t0) as [H _]; destruct (h_inread s c0 g l0 t0) as [s1 o] end.
      intros Hq. left. exact (same_ledger_ReqsSub _ _ H q Hq).
  - destruct (chans en) as [|ch0 chs]; cbn [fst]; [auto|].
    destruct (nth_error _ _) as [ch|]; cbn [fst]; [|auto].
    destruct (c_out ch); [destruct (c_seen ch)|]; cbn [fst]; auto.
    + match goal with |- context [fut_read s ?c0 ?r] =>
        pose proof (read_ReqsSub s c0 r q) as H; destruct (fut_read s c0 r) as [s1 o] end. intros Hq. left. exact (H Hq).
    + match goal with |- context [h_inread s ?c0 ?g ?l0 ?t0] =>
        pose proof (inread_same s c0 g l0 t0) as [H _]; destruct (h_inread s c0 g l0 t0) as [s1 o] end.
      intros Hq. left. exact (same_ledger_ReqsSub _ _ H q Hq).
  - pose proof (complete_all_ReqsSub (filter (fun f => f_dl f <=? now en + dt) (futs s)) s (RErr E_TIMEOUT) q) as H.
    unfold fut_advance. destruct (complete_all _ _ _) as [s1 o]. cbn [fst] in *. intros Hq. left. apply H. exact Hq.
  - destruct (conn_of p en); cbn [fst]; [|auto].
    pose proof (inopen_same cf0 s p (N.of_nat (length (chans en))) neg) as [H _].
    destruct (h_inopen _ _ _ _ _) as [s1 o]. intros Hq. left. exact (same_ledger_ReqsSub _ _ H q Hq).
  - destruct (chans en) as [|ch0 chs]; cbn [fst]; [auto|].
    destruct (nth_error _ _) as [ch|]; cbn [fst]; [|auto].
    destruct (negb (c_out ch)); cbn [fst]; [|auto].
    match goal with |- context [h_inread s ?c0 ?g ?l0 ?t0] =>
      pose proof (inread_same s c0 g l0 t0) as [H _]; destruct (h_inread s c0 g l0 t0) as [s1 o] end.
    intros Hq. left. exact (same_ledger_ReqsSub _ _ H q Hq).
  - destruct (nth_mod k (hpend en)) as [irid|]; cbn [fst]; [|auto].
    match goal with |- context [h_uresp cf0 s ?a ?b ?c0 ?f ?d ?e0] =>
      pose proof (uresp_same cf0 s a b c0 f d e0) as [H _]; destruct (h_uresp cf0 s a b c0 f d e0) as [s1 o] end.
    intros Hq. left. exact (same_ledger_ReqsSub _ _ H q Hq).
  - destruct (nth_mod k (hpend en)) as [irid|]; cbn [fst]; auto.
  - cbn [fst]. auto.
  - cbn [fst]. auto.
  - cbn [fst]. auto.
  - cbn [fst]. auto.
  - cbn [fst]. auto.
  - cbn [fst]. auto.
Qed.

(* what send_request was given for each request id: (length, tag, fallback variant) *)
Definition payinfo := (N * N * option (N * N * N))%type.
Definition pay_ok (x : payinfo) (l t : N) : Prop :=
  (l, t) = (fst (fst x), snd (fst x)) \/ exists n fl ft, snd x = Some (n, fl, ft) /\ (l, t) = (fl, ft).
Definition okreq (sp : list (N * payinfo)) (q : req) : Prop :=
  exists l t, In (q_rid q, (l, t, q_fb q)) sp /\ pay_ok (l, t, q_fb q) (q_len q) (q_tag q).
Definition sp_step (e : ev) (o : list out) (sp : list (N * payinfo)) : list (N * payinfo) :=
  sp ++ match e with ESend _ _ l t fb => map (fun r => (r, (l, t, fb))) (sent_ids o) | _ => [] end.

Record Inv7 (sp : list (N * payinfo)) (s : pst) (en : env) (tr : list out) : Prop := mkInv7 {
  w_req : forall q, In q (reqs s) -> okreq sp q;
  w_fun : forall r x y, In (r, x) sp -> In (r, y) sp -> x = y;
  w_lt : forall r x, In (r, x) sp -> r < next_rid s;
  w_wire : forall c rid l t, In (OBind c rid) tr -> In (OWire c l t) tr -> exists x, In (rid, x) sp /\ pay_ok x l t;
  w_wlt : forall c l t, In (OWire c l t) tr -> c < nch en
}.

Lemma Inv7_init : Inv7 [] init_pst init_env [].
Proof. constructor; cbn; intros; contradiction. Qed.

Lemma chosen_ok l t fb q ng :
  q_fb q = fb -> pay_ok (l, t, fb) (q_len q) (q_tag q) ->
  pay_ok (l, t, fb) (fst (chosen q ng)) (snd (chosen q ng)).
Proof.
  intros E H. unfold chosen. rewrite E. destruct fb as [[[n fl] ft]|]; [|exact H].
  destruct (negb (ng =? 0) && (n =? ng)); [|exact H]. right. exists n, fl, ft. split; reflexivity.
Qed.

Lemma step_next_rid cf0 s en e : next_rid s <= next_rid (fst (fst (fst (step cf0 (s, en) e)))).
Proof. exact (proj1 (step_DP cf0 s en e)). Qed.

Lemma step_Inv7 cf0 s en e tr used sp :
  Inv s tr -> Inv4 s en tr used -> Inv7 sp s en tr ->
  let r := step cf0 (s, en) e in
  Inv7 (sp_step e (snd (fst r)) sp) (fst (fst (fst r))) (snd (fst (fst r))) (tr ++ snd (fst r)).
Proof.
  intros I I4 [W1 W2 W3 W4 W5] r.
  pose proof (step_reqs cf0 s en e) as SR. pose proof (step_wire cf0 s en e) as SW.
  pose proof (step_facts cf0 s en e) as SF. pose proof (step_next_rid cf0 s en e) as NR. cbn zeta in SF. fold r in SR, SW, SF, NR.
  assert (Hsent : forall p d l t fb, e = ESend p d l t fb -> sent_ids (snd (fst r)) = [next_rid s] /\
                                      next_rid s < next_rid (fst (fst (fst r)))).
  { intros p d l t fb ->. subst r. cbn [step].
    match goal with |- context [h_send s p d l t fb ?a0 ?b0 ?c0] => pose proof (send_sent s p d l t fb a0 b0 c0) as H end.
    unfold h_send in *. simp_sets.
    repeat match goal with |- context [if ?x then _ else _] => destruct x end; cbn [fst snd] in *; simp_sets; split; try exact H; lia. }
  assert (Hmono : forall x, In x sp -> In x (sp_step e (snd (fst r)) sp)) by (intros x H; apply in_or_app; left; exact H).
  assert (Hok : forall q, okreq sp q -> okreq (sp_step e (snd (fst r)) sp) q).
  { intros q [l [t [H1 H2]]]. exists l, t. split; [apply Hmono; exact H1|exact H2]. }
  destruct SF as [L F B R Q0].
  constructor.
  - (* every context carries what send_request was given *)
    intros q Hq. destruct (SR q Hq) as [Hold|[Hs0|Ho0]];
      [|destruct Hs0 as [p [d [l [t [fb [Ee Eq]]]]]]|destruct Ho0 as [k [g [ng [po [Ee [Hpo Eq]]]]]]].
    + apply Hok. exact (W1 q Hold).
    + destruct (Hsent p d l t fb Ee) as [Hs _]. subst q. exists l, t. cbn [q_rid q_fb q_len q_tag]. split; [|left; reflexivity].
      unfold sp_step. rewrite Ee at 1. apply in_or_app. right. rewrite Hs. left. reflexivity.
    + assert (Hq0 : In (po_req po) (reqs s)) by (apply in_reqs; right; left; exists po; auto).
      destruct (W1 _ Hq0) as [l [t [H1 H2]]]. subst q. exists l, t. cbn [q_rid q_fb q_len q_tag]. split; [apply Hmono; exact H1|].
      apply chosen_ok; [reflexivity|exact H2].
  - intros r0 x y Hx Hy. unfold sp_step in Hx, Hy. apply in_app_or in Hx. apply in_app_or in Hy.
    destruct e; try (destruct Hx as [Hx|[]]; destruct Hy as [Hy|[]]; exact (W2 r0 x y Hx Hy)).
    destruct (Hsent p dial len tag fb eq_refl) as [Hs _]. rewrite Hs in Hx, Hy. cbn [map In] in Hx, Hy.
    destruct Hx as [Hx|[Hx|[]]], Hy as [Hy|[Hy|[]]].
    + exact (W2 r0 x y Hx Hy).
    + injection Hy as <- <-. specialize (W3 _ _ Hx). lia.
    + injection Hx as <- <-. specialize (W3 _ _ Hy). lia.
    + congruence.
  - intros r0 x Hx. unfold sp_step in Hx. apply in_app_or in Hx. destruct Hx as [Hx|Hx]; [specialize (W3 _ _ Hx); lia|].
    destruct e; try destruct Hx. destruct (Hsent p dial len tag fb eq_refl) as [Hs Hn]. rewrite Hs in Hx.
    destruct Hx as [Hx|[]]. injection Hx as <- _. exact Hn.
  - (* a frame on a bound carrier is that request's payload *)
    intros c rid l t Hb Hw. apply in_app_or in Hb. apply in_app_or in Hw.
    destruct Hb as [Hb|Hb], Hw as [Hw|Hw].
    + destruct (W4 c rid l t Hb Hw) as [x [Hx Hp]]. exists x. split; [apply Hmono; exact Hx|exact Hp].
    + destruct (SW c l t Hw) as [[f [Hf [Ec [El [Et _]]]]]|[k [g [ng [po [_ [_ [Ec _]]]]]]]].
      * pose proof (b_fut _ _ _ _ I4 f Hf) as Hbf. rewrite Ec in Hbf.
        pose proof (b_fun _ _ _ _ I4 c rid (rid_f f) Hb Hbf) as Er.
        assert (Hq : In (f_req f) (reqs s)) by (apply in_reqs; right; right; exists f; auto).
        destruct (W1 _ Hq) as [l0 [t0 [H1 H2]]]. exists (l0, t0, q_fb (f_req f)).
        split; [apply Hmono; rewrite Er; exact H1|rewrite El, Et; exact H2].
      * pose proof (b_lt _ _ _ _ I4 c rid Hb). lia.
    + destruct (B c rid Hb) as [Ec _]. specialize (W5 c l t Hw). lia.
    + destruct (SW c l t Hw) as [[f [_ [_ [_ [_ Nb]]]]]|[k [g [ng [po [Ee [Hpo [Ec [El [Et Hb1]]]]]]]]]]; [destruct (Nb c rid Hb)|].
      destruct (Hb1 c rid Hb) as [_ Er].
      assert (Hq0 : In (po_req po) (reqs s)) by (apply in_reqs; right; left; exists po; auto).
      destruct (W1 _ Hq0) as [l0 [t0 [H1 H2]]]. exists (l0, t0, q_fb (po_req po)).
      split; [apply Hmono; rewrite Er; exact H1|]. rewrite El, Et. apply chosen_ok; [reflexivity|exact H2].
  - intros c l t Hw. apply in_app_or in Hw. destruct Hw as [Hw|Hw]; [specialize (W5 c l t Hw); lia|].
    destruct (SW c l t Hw) as [[f [Hf [Ec _]]]|[k [g [ng [po [Ee [_ [Ec [_ [_ Hb1]]]]]]]]]].
    + pose proof (b_fut _ _ _ _ I4 f Hf) as Hbf. pose proof (b_lt _ _ _ _ I4 _ _ Hbf). lia.
    + (* the new carrier: the binding of this step gives nch en < nch en' *)
      subst c.
      assert (Hex : exists rid, In (OBind (nch en) rid) (snd (fst r))).
      { clear - Hw Ee. subst r e. cbn [step] in *. destruct (nth_mod k (opens en)) as [[sid q0]|]; cbn [fst snd] in *; [|destruct Hw].
        unfold h_opened in *. destruct (find_po sid (pouts s)) as [po0|]; [|destruct Hw].
        destruct (opened_body _ _ _ _ _ _ _) as [s1 o]. cbn [fst snd] in *. eexists. left. reflexivity. }
      destruct Hex as [rid Hb]. destruct (B _ _ Hb) as [_ [Hlt _]]. exact Hlt.
Qed.

Definition sp_of (steps : list (ev * list out * option N)) : list (N * payinfo) :=
  flat_map (fun x => match fst (fst x) with
                     | ESend _ _ l t fb => map (fun r => (r, (l, t, fb))) (sent_ids (snd (fst x)))
                     | _ => [] end) steps.

Lemma steps_Inv7 cf0 evs : forall s en tr used sp,
  Inv s tr -> Inv4 s en tr used -> Inv7 sp s en tr ->
  exists s' en', Inv7 (sp ++ sp_of (run_steps cf0 (s, en) evs)) s' en' (tr ++ outs_of (run_steps cf0 (s, en) evs)).
Proof.
  induction evs as [|e evs IH]; intros s en tr used sp I I4 I7; cbn [run_steps].
  - exists s, en. cbn. rewrite !app_nil_r. exact I7.
  - pose proof (step_Inv cf0 s en e tr I) as I'. pose proof (step_Inv4 cf0 s en e tr used I4) as I4'.
    pose proof (step_Inv7 cf0 s en e tr used sp I I4 I7) as I7'. cbn zeta in *.
    destruct (step cf0 (s, en) e) as [[[s1 en1] o] tg]. cbn [fst snd] in *.
    destruct (IH s1 en1 _ _ _ I' I4' I7') as [s2 [en2 J]]. exists s2, en2.
    rewrite outs_of_cons. cbn [fst snd]. unfold sp_of in *. cbn [flat_map fst snd]. unfold sp_step in J.
    rewrite !app_assoc. rewrite <- !app_assoc in J. rewrite <- !app_assoc. exact J.
Qed.

(* The frame written on the carrier that was handed to request rid is the request given to
   send_request for rid (or its fallback variant). *)
Theorem request_wire cf0 evs pre p d len tag fb o tg post rid c l t :
  run_steps cf0 (init_pst, init_env) evs = pre ++ (ESend p d len tag fb, o, tg) :: post ->
  In (OSent rid) o ->
  In (OBind c rid) (outs_of (run_steps cf0 (init_pst, init_env) evs)) ->
  In (OWire c l t) (outs_of (run_steps cf0 (init_pst, init_env) evs)) ->
  (l, t) = (len, tag) \/ exists n fl ft, fb = Some (n, fl, ft) /\ (l, t) = (fl, ft).
Proof.
  intros E Hs Hb Hw.
  destruct (steps_Inv7 cf0 evs _ _ _ _ _ Inv_init Inv4_init Inv7_init) as [s' [en' J]]. cbn [app] in J.
  destruct (w_wire _ _ _ _ J c rid l t Hb Hw) as [x [Hx Hp]].
  assert (Hin : In (rid, (len, tag, fb)) (sp_of (run_steps cf0 (init_pst, init_env) evs))).
  { rewrite E. unfold sp_of. rewrite flat_map_app. apply in_or_app. right. cbn [flat_map fst snd]. apply in_or_app. left.
    apply in_map_iff. exists rid. split; [reflexivity|]. unfold sent_ids. apply in_flat_map. exists (OSent rid). split; [exact Hs|left; reflexivity]. }
  rewrite (w_fun _ _ _ _ J rid x _ Hx Hin) in Hp. exact Hp.
Qed.

(* ------------------------------------------------------------------ bounded event channel *)
Lemma relay_step_keeps cap st m :
  rl_delivered (relay_step cap st m) ++ rl_queue (relay_step cap st m) ++ rl_pending (relay_step cap st m)
  = rl_delivered st ++ rl_queue st ++ rl_pending st /\
  (length (rl_queue st) <= cap -> length (rl_queue (relay_step cap st m)) <= cap)%nat.
Proof.
  destruct st as [p q d]. destruct m; cbn [relay_step rl_pending rl_queue rl_delivered].
  - destruct p as [|x p]; [auto|]. destruct (Nat.ltb (length q) cap) eqn:E; cbn [rl_pending rl_queue rl_delivered]; [|auto].
    apply Nat.ltb_lt in E. split; [rewrite <- !app_assoc; reflexivity|]. intros _. rewrite app_length. cbn [length]. lia.
  - destruct q as [|x q]; [auto|]. cbn [rl_pending rl_queue rl_delivered]. split; [rewrite <- !app_assoc; reflexivity|].
    cbn [length]. lia.
Qed.

Theorem relay_nothing_lost cap o ms :
  let st := relay_run cap o ms in
  rl_delivered st ++ rl_queue st ++ rl_pending st = o /\ (length (rl_queue st) <= cap)%nat.
Proof.
  unfold relay_run.
  assert (H : forall st, (length (rl_queue st) <= cap)%nat ->
     let st' := fold_left (relay_step cap) ms st in
     rl_delivered st' ++ rl_queue st' ++ rl_pending st' = rl_delivered st ++ rl_queue st ++ rl_pending st /\
     (length (rl_queue st') <= cap)%nat).
  { induction ms as [|m ms IH]; intros st L; cbn [fold_left]; [auto|].
    destruct (relay_step_keeps cap st m) as [E L']. destruct (IH (relay_step cap st m) (L' L)) as [E2 L2].
    split; [rewrite E2; exact E|exact L2]. }
  destruct (H (mkRelay o [] []) (Nat.le_0_l _)) as [E L]. cbn [rl_delivered rl_queue rl_pending app] in E. auto.
Qed.

(* dial() refused at once, whatever the refusal (every ImmediateDialError variant: any result
   code that is not one of the two Ok flavours): exactly one RequestFailed naming the variant, and
   the request is parked nowhere. *)
Lemma dial_refused_one_failure s p len tag fb ok dres sid :
  memN p (peers s) = false -> dial_accepted dres = false ->
  let r := h_send s p true len tag fb ok dres sid in
  snd r = [OSent (next_rid s); OFail (next_rid s) (E_DIAL_IMM dres)] /\ dials (fst r) = dials s /\ active (fst r) = active s /\ pouts (fst r) = pouts s /\ futs (fst r) = futs s.
Proof. intros H D. unfold h_send. simp_sets. rewrite H, D. cbn. auto. Qed.

(* the same at the level of a step of the whole system: whatever the environment (the manager's
   belief about the peer, a clogged or closed command channel, the local peer id), a send_request
   with DialOptions::Dial to a peer the protocol does not know either parks the request behind an
   accepted dial, or fails it at once with the dial error — never both, never neither *)
Lemma send_dial_step cf s en p len tag fb :
  memN p (peers s) = false ->
  let r := step cf (s, en) (ESend p true len tag fb) in
  let rid := next_rid s in
  (dial_accepted (dial_res cf en p) = true /\ snd (fst r) = [OSent rid; ODial p] /\ dials (fst (fst (fst r))) = dials s ++ [(p, mkReq rid len tag fb)]) \/
  (dial_accepted (dial_res cf en p) = false /\ snd (fst r) = [OSent rid; OFail rid (E_DIAL_IMM (dial_res cf en p))] /\ dials (fst (fst (fst r))) = dials s /\ active (fst (fst (fst r))) = active s /\ pouts (fst (fst (fst r))) = pouts s /\ futs (fst (fst (fst r))) = futs s).
Proof.
  intros H. cbn [step]. unfold h_send. simp_sets. rewrite H. cbn [negb].
  destruct (dial_accepted (dial_res cf en p)); cbn [fst snd]; [left|right]; simp_sets; auto 10.
Qed.

(* which refusal: the checks of TransportManagerHandle::dial in their order *)
Lemma dial_res_cases cf en p :
  let r := dial_res cf en p in
  (r = D_SELF /\ selfp cf && (p =? SELF_PEER) = true) \/
  (selfp cf && (p =? SELF_PEER) = false /\
   ((r = D_NOADDR /\ (mview cf en p = 0 \/ mview cf en p = 4)) \/
    (r = D_CONNECTED /\ mview cf en p = 2) \/
    (r = D_INPROGRESS /\ (mview cf en p = 3 \/ mview cf en p = 5 \/ mview cf en p = 6)) \/
    (mview cf en p <> 0 /\ mview cf en p <> 2 /\ mview cf en p <> 3 /\ mview cf en p <> 4 /\
     mview cf en p <> 5 /\ mview cf en p <> 6 /\
     ((r = D_TASKCLOSED /\ mgr en = false) \/
      (r = D_CLOGGED /\ mgr en = true /\ a_clog (aux_of en) = true) \/
      (r = D_OK /\ mgr en = true /\ a_clog (aux_of en) = false))))).
Proof.
  unfold dial_res. destruct (selfp cf && (p =? SELF_PEER)); [left; auto|right; split; [reflexivity|]].
  destruct (mview cf en p) as [|[[[q|q|]|[q|q|]|]|[[q|q|]|[q|q|]|]|]] eqn:V;
    try (left; split; [reflexivity|]; auto; fail);
    try (right; left; split; reflexivity);
    try (right; right; left; split; [reflexivity|]; auto; fail);
    (right; right; right; repeat (split; [discriminate|]);
     destruct (mgr en); cbn [negb]; [destruct (a_clog (aux_of en)); [right; left|right; right]|left]; auto).
Qed.
