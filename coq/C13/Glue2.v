(* C13 — two real nodes: wire format, runner of the composed model (TwoNode.step2) and the
   end-to-end oracle prop_ok2. Definitions only.

   case  = 1000002  max_inb_A ndial_A ccap_A  max_inb_B ndial_B ccap_B  max_size flags  n  move_1 .. move_n
           (fields as in Glue1.v; both nodes share max_size and flags; the selfp bit must be 0)
   move  = 40 x op            a stimulus of node x's own environment / user, op as in Glue1.v (the
                              racing stimuli 19, 20, 21 are not used here); read-side stimuli that
                              resolve to a linked carrier are ignored
         | 41 a k gq gr neg   the k-th substream-open command of node a is answered: SubstreamOpened
                              outbound at a (carrier gate gq), and — when it went to peer 0 and the
                              other node has a connection to its peer 0 — inbound at the other node
                              (gate gr): the two carriers are linked
         | 42 i cut script    the request bytes of link i travel: the first cut bytes of what the
                              requester wrote, under the fragmentation script, then the stream ends
         | 43 i cut script    the same for the response bytes
   script = n ev_1 .. ev_n,   ev = 0 (the read stalls) | 1 k (at most k bytes arrive) | 2 (end of
                              stream) | 3 (read error)
   trace = 1 rec_A rec_B .. (two records per move, format of Glue1.v) *)
From Coq Require Import List NArith Bool.
From V.common Require Import Wire.
From V.gen Require Import Consts.
From V.C13 Require Import Model Glue1 TwoNode.
Import ListNotations.
Open Scope N_scope.

Definition TWO_NODE : N := 1000002.

Inductive gmv :=
| GLoc (x : bool) (op : gop)
| GOpen (a : bool) (k gq gr neg : N)
| GReq (i cut : N) (script : list V.C04.Model.rdev)
| GResp (i cut : N) (script : list V.C04.Model.rdev).

Definition p_rdev : parser V.C04.Model.rdev :=
  let* t := pN in
  match t with
  | 0 => pret V.C04.Model.EvPending
  | 1 => let* n := pN in pret (V.C04.Model.EvChunk n)
  | 2 => pret V.C04.Model.EvEof
  | 3 => pret V.C04.Model.EvErr
  | _ => pfail
  end.

Definition p_move (ccA ccB : N) : parser gmv :=
  let* tag := pN in
  match tag with
  | 40 => let* x := pN in
          if 1 <? x then pfail else
          (fun l => match l with
                    | 19 :: _ | 20 :: _ | 21 :: _ => None
                    | _ => (let* op := p_op (if x =? 0 then ccA else ccB) in pret (GLoc (negb (x =? 0)) op)) l
                    end)
  | 41 => let* a := pN in let* k := pN in let* gq := pN in let* gr := pN in let* ng := pN in
          if (1 <? a) || (2 <? ng) then pfail else pret (GOpen (negb (a =? 0)) k gq gr ng)
  | 42 => let* i := pN in let* cut := pN in let* sc := plist p_rdev in pret (GReq i cut sc)
  | 43 => let* i := pN in let* cut := pN in let* sc := plist p_rdev in pret (GResp i cut sc)
  | _ => pfail
  end.

Definition gmv_ok (m : gmv) : bool :=
  match m with
  | GLoc _ op => gop_ok op
  | GReq _ cut sc | GResp _ cut sc => (cut <=? 4194304) && (N.of_nat (length sc) <=? 64)
  | _ => true
  end.

Definition decode_case2 (l : list N) : option (cfg * cfg * list gmv) :=
  match l with
  | mk :: miA :: ndA :: ccA :: miB :: ndB :: ccB :: ms :: fl :: rest =>
    let cA := if ccA =? 0 then DEFAULT_CHANNEL else ccA in
    let cB := if ccB =? 0 then DEFAULT_CHANNEL else ccB in
    if negb (mk =? TWO_NODE) || (4096 <? ccA) || (4096 <? ccB) || (63 <? fl) || N.odd fl || (1048576 <? ms) then None else
    match pall (plist (p_move cA cB)) rest with
    | Some mvs =>
      if forallb gmv_ok mvs
      then Some (mkCfg (dec_opt miA) (N.min ndA NPEERS) ms (tmo_of fl) false,
                 mkCfg (dec_opt miB) (N.min ndB NPEERS) ms (tmo_of fl) false, mvs)
      else None
    | None => None
    end
  | _ => None
  end.

(* ------------------------------------------------------------------ the runner *)

(* the model events of a local stimulus at node x, one after the other, with the dial calls *)
Fixpoint loc_run (s : sys) (x : bool) (es : list ev) : sys * list (list N) :=
  match es with
  | [] => (s, [])
  | e :: t =>
    let n := nd x s in
    let calls := if n_dead n || blocked s x e then [] else dial_call (n_cf n) (n_st n) e in
    let '(s', c') := loc_run (step2 s (MLoc x e)) x t in (s', calls ++ c')
  end.

Definition gfold (cf : cfg) (g : ghost) (new : hist) : ghost :=
  fold_left (fun g x => gstep cf (fst (fst x)) (snd (fst x)) (snd x) g) new g.

Definition first_target (new : hist) : option N :=
  match flat_map (fun x => match snd x with Some t => [t] | None => [] end) new with
  | t :: _ => Some t
  | [] => None
  end.

(* the record of node x for a move that took the system from s0 to s1 *)
Definition node_rec (s0 s1 : sys) (x : bool) (calls marks : list (list N)) (soft : bool) : list N :=
  if n_dead (nd x s0) then 0 :: 0 :: EMPTY_DUMP else
  let new := skipn (length (log x s0)) (log x s1) in
  let o := outs_of new in
  enc_opt (if soft then None else first_target new)
    :: N.of_nat (length (filter printed o) + length calls + length marks)
    :: concat (sort_by ekey (map enc_out (filter printed o) ++ calls ++ marks))
    ++ (if n_dead (nd x s1) then EMPTY_DUMP else dump (fst (n_st (nd x s1)))).

(* after every move the scripted connections of both nodes read their command channels *)
Definition drain (s : sys) : sys := step2 (step2 s (MLoc false EDrain)) (MLoc true EDrain).

Definition run_move (s : sys) (gA gB : ghost) (m : gmv) : sys * ghost * ghost * list N :=
  let '(s1, calls, marks, soft, who) :=
    match m with
    | GLoc x op =>
      let n := nd x s in
      if n_dead n then (s, [], [], false, x) else
      let g := if x then gB else gA in
      match op with
      | GExit _ => (step2 s (MExit x), [], mark_of op, false, x)
      | _ => let '(s1, calls) := loc_run s x (expand (n_cf n) (n_st n) g op) in
             (s1, calls, mark_of op, match op with GFlushSoft => true | _ => false end, x)
      end
    | GOpen a k gq gr neg => (step2 s (MOpen a k gq gr neg), [], [], false, a)
    | GReq i cut sc => (step2 s (MReq i cut sc), [], [], false, false)
    | GResp i cut sc => (step2 s (MResp i cut sc), [], [], false, false)
    end in
  (* the ledgers follow the new log entries (before the drain, which owes nothing) *)
  let gA1 := gfold (n_cf (nA s)) gA (skipn (length (log false s)) (log false s1)) in
  let gB1 := gfold (n_cf (nB s)) gB (skipn (length (log true s)) (log true s1)) in
  let recA := node_rec s s1 false (if who then [] else calls) (if who then [] else marks) (soft && negb who) in
  let recB := node_rec s s1 true (if who then calls else []) (if who then marks else []) (soft && who) in
  (drain s1, gA1, gB1, recA ++ recB).

Fixpoint run_trace2 (s : sys) (gA gB : ghost) (l : list gmv) : list N :=
  match l with
  | [] => []
  | m :: t => let '(s1, gA1, gB1, r) := run_move s gA gB m in r ++ run_trace2 s1 gA1 gB1 t
  end.

Definition run_case2 (l : list N) : list N :=
  match decode_case2 l with
  | Some (cA, cB, mvs) => 1 :: run_trace2 (sys0 cA cB) g0 g0 mvs
  | None => [0]
  end.

(* ------------------------------------------------------------------ the end-to-end oracle

   Judges the property text on the implementation's trace of two real nodes:
   - at most one terminal event per request id at either node, every terminal event answers an id
     that was handed out there, the inbound bound holds at either node;
   - a RequestReceived that comes out of a delivery over a link is, byte for byte, the request the
     requester's user gave to send_request for the id that substream was opened for (its fallback
     variant iff the substream was negotiated with that fallback name), and a link yields at most one;
   - a ResponseReceived that comes out of a delivery over a link carries the id that substream was
     opened for and is, byte for byte, what the responder's user supplied with send_response for
     the inbound request id that this link delivered;
   - when both nodes end flushed and quiescent, every request of either node has its one outcome
     unless the user cancelled it. *)

Record olink := mkOL { l_a : bool; l_rid : option N; l_neg : N; l_irid : option N; l_reqd : bool; l_respd : bool;
                       l_cq : N; l_cr : N }.
(* on_binds: (carrier, request id, negotiated name) of the outbound carriers; on_inreqs: (carrier, inbound
   request id) of the inbound carriers that delivered a request; on_supplied: (inbound request id, len, tag)
   of the responses the user handed in *)
Record onode := mkON { on_hist : list out; on_spn : list (N * N * N * N); on_prev : dsum; on_nch : N;
                       on_supplied : list (N * N * N); on_cancels : list N; on_dead : bool; on_conn0 : bool;
                       on_binds : list (N * N * N); on_inreqs : list (N * N) }.
Definition on0 : onode := mkON [] [] d0 0 [] [] false false [] [].

Definition set_nth {A} (i : nat) (x : A) (l : list A) : list A := firstn i l ++ [x] ++ skipn (S i) l.

Definition evs_of_gop (op : gop) : list ev :=
  match op with GEvs l _ => l | GRespRaw _ l t fb => [EURespond 0 l t fb] | _ => [] end.

(* is peer 0 connected, by the environment's own script (EEstablished / EClosed / the flush) *)
Definition conn0_after (c : bool) (op : gop) : bool :=
  match op with
  | GEvs l _ => fold_left (fun c e => match e with EEstablished 0 _ _ => true | EClosed 0 => false | _ => c end) l c
  | GFlush => false
  | _ => c
  end.

(* the carrier a SubstreamOpened (outbound) of this record was handed to, with the request id that
   pending_outbound held for the substream id (read from the bookkeeping before the stimulus) *)
Definition bind_of (n : onode) (s : ostep) (neg : N) : list (N * N * N) :=
  match o_target s with
  | Some sid => match find (fun x => fst (fst x) =? sid) (d_pouts (on_prev n)) with
                | Some x => [(on_nch n, snd x, neg)]
                | None => []
                end
  | None => []
  end.

Definition upd_node (n : onode) (s : ostep) (o : list out) (es : list ev) (newch : N) (dead : bool) (conn0 : bool)
           (binds : list (N * N * N)) : onode :=
  mkON (on_hist n ++ o) (on_spn n ++ sent_variants es o) (if dead then d0 else o_dump s) (on_nch n + newch)
       (on_supplied n ++ match o_target s with
                         | Some irid => flat_map (fun e => match e with
                                                           | EURespond _ l t _ => if existsb (fun x => fst (fst x) =? irid) (on_supplied n)
                                                                                  then [] else [(irid, l, canon_tag l t)]
                                                           | _ => [] end) es
                         | None => [] end)
       (on_cancels n ++ flat_map (fun e => match e with ECancel r => [r] | _ => [] end) es)
       dead conn0
       (on_binds n ++ binds)
       (on_inreqs n ++ match reqs o, o_target s with (irid, _, _) :: _, Some ch => [(ch, irid)] | _, _ => [] end).

(* n' = the node after the record: every frame this record shows on the wire is the right one
   (Glue1.frames_ok: the request variant sent for the id the carrier was handed to; the response the
   user supplied for the request that arrived on the carrier) *)
Definition generic_ok (cf : cfg) (n n' : onode) (s : ostep) (o : list out) (sent : list N) : bool :=
  match max_inb cf with Some m => d_nrd (o_dump s) + d_nrs (o_dump s) <=? m | None => true end &&
  forallb (fun r => memN r (sent_ids (on_hist n)) || memN r sent) (term_ids o) &&
  frames_ok (on_spn n') (mkCar (on_binds n') (on_inreqs n') (on_supplied n')) o.

Fixpoint steps_ok2 (cA cB : cfg) (mvs : list gmv) (tr : list ostep) (nA nB : onode) (links : list olink) : bool * onode * onode :=
  match mvs, tr with
  | [], [] => (true, nA, nB)
  | m :: mvs', sA :: sB :: tr' =>
    let oA := o_outs sA in let oB := o_outs sB in
    let quietA := match o_evs sA with [] => true | _ => false end in
    let quietB := match o_evs sB with [] => true | _ => false end in
    let deadok := (if on_dead nA then quietA else true) && (if on_dead nB then quietB else true) in
    let gen (nA' nB' : onode) := generic_ok cA nA nA' sA oA (sent_ids oA) && generic_ok cB nB nB' sB oB (sent_ids oB) in
    let idleA := upd_node nA sA oA [] 0 (on_dead nA) (on_conn0 nA) [] in
    let idleB := upd_node nB sB oB [] 0 (on_dead nB) (on_conn0 nB) [] in
    match m with
    | GLoc x op =>
      let es := evs_of_gop op in
      let exits := match op with GExit _ => true | _ => false end in
      let sx := if x then sB else sA in
      let nx := if x then nB else nA in
      let newch := if on_dead nx then 0 else new_chans es sx in
      (* time passes for both nodes (timeouts may fire at the other one), but nothing is handed to the
         other node's user; a request / response handed to the user here came from this node's own
         environment: not a linked carrier's business *)
      let oo := if x then oA else oB in
      let other_quiet := match reqs oo, resps oo with [], [] => true | _, _ => false end in
      let binds := match es with [EOpened _ _ neg] => if on_dead nx then [] else bind_of nx sx neg | _ => [] end in
      let nx' := upd_node nx sx (if x then oB else oA) es newch (on_dead nx || exits)
                          (if on_dead nx then on_conn0 nx else conn0_after (on_conn0 nx) op) binds in
      let nA' := if x then idleA else nx' in
      let nB' := if x then nx' else idleB in
      let '(b, fa, fb) := steps_ok2 cA cB mvs' tr' nA' nB' links in
      (deadok && gen nA' nB' && other_quiet && b, fa, fb)
    | GOpen a k gq gr neg =>
      let sq := if a then sB else sA in let sr := if a then sA else sB in
      let nq := if a then nB else nA in let nr := if a then nA else nB in
      let opened := match o_target sq with Some _ => negb (on_dead nq) | None => false end in
      let inopened := match o_target sr with Some _ => negb (on_dead nr) | None => false end in
      let binds := if opened then bind_of nq sq neg else [] in
      let rid := match binds with (_, r, _) :: _ => Some r | [] => None end in
      let links' := if opened && inopened then links ++ [mkOL a rid neg None false false (on_nch nq) (on_nch nr)] else links in
      let nq' := upd_node nq sq (o_outs sq) [] (if opened then 1 else 0) (on_dead nq) (on_conn0 nq) binds in
      let nr' := upd_node nr sr (o_outs sr) [] (if inopened then 1 else 0) (on_dead nr) (on_conn0 nr) [] in
      let ok := (* the inbound side appears only together with the outbound side *)
                (if inopened then opened else true) &&
                (* nothing is handed to either user by an open *)
                match reqs (o_outs sr), resps (o_outs sr), resps (o_outs sq), reqs (o_outs sq) with [], [], [], [] => true | _, _, _, _ => false end in
      let nA' := if a then nr' else nq' in
      let nB' := if a then nq' else nr' in
      let '(b, fa, fb) := steps_ok2 cA cB mvs' tr' nA' nB' links' in
      (deadok && gen nA' nB' && ok && b, fa, fb)
    | GReq i cut sc =>
      match links with
      | [] => let '(b, fa, fb) := steps_ok2 cA cB mvs' tr' idleA idleB links in
              (deadok && gen idleA idleB && quietA && quietB && b, fa, fb)
      | _ =>
        let j := N.to_nat (i mod N.of_nat (length links)) in
        match nth_error links j with
        | None => (false, nA, nB)
        | Some lk =>
          let b_is := negb (l_a lk) in          (* the responder node *)
          let sr := if b_is then sB else sA in let sq := if b_is then sA else sB in
          let nq := if b_is then nA else nB in
          let quiet_q := match o_evs sq with [] => true | _ => false end in
          let ok :=
            quiet_q &&
            match reqs (o_outs sr) with
            | [] => true
            | [(irid, l, t)] =>
              negb (l_reqd lk) &&
              match l_rid lk with
              | Some rid => match expected_request (on_spn nq) rid (l_neg lk) with
                            | Some (el, et) => (l =? el) && (t =? et)
                            | None => false
                            end
              | None => false
              end
            | _ => false
            end &&
            match resps (o_outs sr) with [] => true | _ => false end in
          let lk' := mkOL (l_a lk) (l_rid lk) (l_neg lk)
                          (match reqs (o_outs sr) with (irid, _, _) :: _ => Some irid | [] => l_irid lk end)
                          true (l_respd lk) (l_cq lk) (l_cr lk) in
          let '(b, fa, fb) := steps_ok2 cA cB mvs' tr' idleA idleB (set_nth j lk' links) in
          (deadok && gen idleA idleB && ok && b, fa, fb)
        end
      end
    | GResp i cut sc =>
      match links with
      | [] => let '(b, fa, fb) := steps_ok2 cA cB mvs' tr' idleA idleB links in
              (deadok && gen idleA idleB && quietA && quietB && b, fa, fb)
      | _ =>
        let j := N.to_nat (i mod N.of_nat (length links)) in
        match nth_error links j with
        | None => (false, nA, nB)
        | Some lk =>
          let a_is := l_a lk in                 (* the requester node *)
          let sq := if a_is then sB else sA in let sr := if a_is then sA else sB in
          let nr := if a_is then nA else nB in
          let quiet_r := match o_evs sr with [] => true | _ => false end in
          let ok :=
            quiet_r &&
            match resps (o_outs sq) with
            | [] => true
            | [(rid, l, t)] =>
              negb (l_respd lk) &&
              match l_rid lk, l_irid lk with
              | Some rid0, Some irid =>
                (rid =? rid0) &&
                match find (fun x => fst (fst x) =? irid) (on_supplied nr) with
                | Some x => (l =? snd (fst x)) && (t =? snd x)
                | None => false
                end
              | _, _ => false
              end
            | _ => false
            end &&
            match reqs (o_outs sq) with [] => true | _ => false end in
          let touched := match o_evs sq with [] => false | _ => true end in
          let lk' := mkOL (l_a lk) (l_rid lk) (l_neg lk) (l_irid lk) (l_reqd lk) (l_respd lk || touched) (l_cq lk) (l_cr lk) in
          let '(b, fa, fb) := steps_ok2 cA cB mvs' tr' idleA idleB (set_nth j lk' links) in
          (deadok && gen idleA idleB && ok && b, fa, fb)
        end
      end
    end
  | _, _ => (false, nA, nB)
  end.

Definition ends_flushed (x : bool) (mvs : list gmv) : bool :=
  match find (fun m => match m with GLoc y _ => Bool.eqb x y | _ => false end) (rev mvs) with
  | Some (GLoc _ GFlush) => true
  | _ => false
  end.

Definition node_final_ok (n : onode) (flushed : bool) : bool :=
  nodup_b (term_ids (on_hist n)) &&
  (if flushed && negb (on_dead n) && (d_ndials (on_prev n) =? 0) && (d_npouts (on_prev n) =? 0) && (d_nfuts (on_prev n) =? 0)
   then forallb (fun r => memN r (term_ids (on_hist n)) || memN r (on_cancels n)) (sent_ids (on_hist n))
   else true).

Definition prop_ok2 (case trace : list N) : bool :=
  match decode_case2 case, trace with
  | Some (cA, cB, mvs), 1 :: body =>
    match pall (p_steps (2 * length mvs)) body with
    | Some tr =>
      let '(ok, fa, fb) := steps_ok2 cA cB mvs tr on0 on0 [] in
      ok && node_final_ok fa (ends_flushed false mvs) && node_final_ok fb (ends_flushed true mvs)
    | None => false
    end
  | None, [0] => true
  | _, _ => false
  end.
