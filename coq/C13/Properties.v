(* C13 — Every request gets exactly one terminal outcome with the matching payload.
   Pinned theorem statements; the proofs are in Proofs.v. *)
From Coq Require Import List NArith Bool.
From V.C04 Require Model.
From V.C13 Require Import Model Proofs Flush Inbound Tables TwoNode TwoNodeProofs.
From V.Ts Require Model Proofs Answers Extra.
From V.Link Require Ts_C13.
Import ListNotations.
Open Scope N_scope.

(* For every configuration and every sequence of stimuli (user commands, transport-service
   events in any order, carrier events of the remote side, clock advances), the run of the
   event-loop model from the initial state emits at most one terminal event
   (ResponseReceived | RequestFailed) carrying a given request id. *)
Theorem C13_at_most_one :
  forall (cf : cfg) (evs : list ev) (r : N),
    (terms r (snd (run cf (init_pst, init_env) evs)) <= 1)%nat.
Proof. exact at_most_one. Qed.
Print Assumptions C13_at_most_one.

(* Exactly one: after any sequence of stimuli, once nothing is outstanding (no pending dial, no
   substream being opened, no request future in flight), every request id that send_request handed
   out has exactly one terminal event, unless the user asked to cancel it.  The ledger behind it:
   an accepted, unanswered, uncancelled id waits for a dial or is active at a peer, and an id that
   is active at a peer has a pending_outbound entry or an in-flight future. *)
Theorem C13_exactly_one :
  forall (cf : cfg) (evs : list ev) (r : N),
    let res := run cf (init_pst, init_env) evs in
    quiescent (fst (fst res)) ->
    In (OSent r) (snd res) ->
    terms r (snd res) = 1%nat \/ In r (cancel_reqs evs).
Proof. exact exactly_one. Qed.
Print Assumptions C13_exactly_one.

(* Exactly one, with the premise stated as a transport contract instead of a property of the
   protocol's final state.  grun computes, from the stimuli, the resolved targets and the calls
   the protocol made (dial accepted, open_substream accepted, carrier handed to a request future),
   what the environment still owes: an answer to every accepted dial (ConnectionEstablished or
   DialFailure), an answer to every accepted open_substream (SubstreamOpened, SubstreamOpenFailure,
   or the ConnectionClosed of that peer), and for every carrier handed over either a terminal event
   of its request or the passing of the request timeout since the hand-over / since the request
   frame went out.  Once all of that is discharged, every accepted send_request has produced
   exactly one terminal event carrying its id (unless the user asked to cancel it). *)
Theorem C13_exactly_one_contract :
  forall (cf : cfg) (evs : list ev) (r : N),
    0 < tmo cf ->
    let res := run cf (init_pst, init_env) evs in
    discharged (grun cf g0 (run_steps cf (init_pst, init_env) evs)) ->
    In (OSent r) (snd res) ->
    terms r (snd res) = 1%nat \/ In r (cancel_reqs evs).
Proof. exact exactly_one_contract. Qed.
Print Assumptions C13_exactly_one_contract.

(* Exactly one WITHOUT a premise on the final state.  Take any history whatsoever (any stimuli, any
   dial results, faults, races).  Let the environment then discharge what it owes by its own books
   — flush_evs: a DialFailure for every peer whose dial it accepted and has not answered, a
   ConnectionClosed for every connection it reported, and more than twice the request timeout
   passes.  Then every send_request of the history has produced exactly one terminal event carrying
   its id, unless the user asked to cancel it.  A request that the protocol parked although the
   environment owes nothing for it (e.g. behind a dial that was refused) would have no event:
   the theorem rules that out.  The harness ends most histories with exactly these stimuli and
   the oracle checks exactly this on the implementation's trace. *)
Theorem C13_exactly_one_flushed :
  forall (cf : cfg) (evs : list ev) (r : N),
    0 < tmo cf ->
    let g := grun cf g0 (run_steps cf (init_pst, init_env) evs) in
    let res := run cf (init_pst, init_env) (evs ++ flush_evs cf g) in
    In (OSent r) (snd res) ->
    terms r (snd res) = 1%nat \/ In r (cancel_reqs evs).
Proof. exact exactly_one_flush_evs. Qed.
Print Assumptions C13_exactly_one_flushed.

(* The discharge itself, for any lists covering the ledger and any advance beyond the timeout:
   after ANY history followed by these stimuli the environment owes nothing. *)
Theorem C13_flush_discharges :
  forall (cf : cfg) (evs : list ev) (ds cs : list N) (dt : N),
    0 < tmo cf -> tmo cf < dt ->
    let g := grun cf g0 (run_steps cf (init_pst, init_env) evs) in
    (forall p, In p (g_dials g) -> In p ds) -> (forall p, In p (g_conn g) -> In p cs) ->
    discharged (grun cf g0 (run_steps cf (init_pst, init_env) (evs ++ flush_of ds cs dt))).
Proof. exact flush_discharges. Qed.
Print Assumptions C13_flush_discharges.

(* Ledger invariant behind it: every accepted, unanswered open_substream of the environment's
   ledger is on a connection the ledger has (so closing the connections answers every open). *)
Theorem C13_opens_on_connections :
  forall (cf : cfg) (evs : list ev) (sid p : N),
    0 < tmo cf ->
    let g := grun cf g0 (run_steps cf (init_pst, init_env) evs) in
    In (sid, p) (g_opens g) -> In p (g_conn g).
Proof.
  intros cf evs sid p T g H.
  destruct (run_GI_OP cf evs init_pst init_env g0 [] T (GI_init cf) Inv_init OP_init) as (_ & O & _).
  rewrite grun_from_ghost in O. exact (O (sid, p) H).
Qed.
Print Assumptions C13_opens_on_connections.

(* The same under the weaker-looking premise "nothing is owed" (pending_dials and every
   peers[..].active empty); quiescent implies settled (Proofs.quiescent_settled). *)
Theorem C13_exactly_one_settled :
  forall (cf : cfg) (evs : list ev) (r : N),
    let res := run cf (init_pst, init_env) evs in
    settled (fst (fst res)) ->
    In (OSent r) (snd res) ->
    terms r (snd res) = 1%nat \/ In r (cancel_reqs evs).
Proof. exact exactly_one_settled. Qed.
Print Assumptions C13_exactly_one_settled.

(* The configured bound on concurrent inbound requests (substreams being read + requests waiting
   for / sending their response) holds after every sequence of stimuli. *)
Theorem C13_inbound_bound :
  forall (cf : cfg) (evs : list ev),
    match max_inb cf with
    | Some m => inbound_load (fst (fst (run cf (init_pst, init_env) evs))) <= m
    | None => True
    end.
Proof. exact inbound_bound. Qed.
Print Assumptions C13_inbound_bound.

(* run_steps is the same run, recorded stimulus by stimulus. *)
Theorem C13_steps_flatten :
  forall (cf : cfg) (evs : list ev),
    snd (run cf (init_pst, init_env) evs) = outs_of (run_steps cf (init_pst, init_env) evs).
Proof. intros. apply run_outs. Qed.
Print Assumptions C13_steps_flatten.

(* Payload pairing, no cross-talk.  OBind c rid is the (unprinted) record that
   on_outbound_substream handed carrier c to the future of request rid.  If some stimulus makes
   the model deliver ResponseReceived rid (len, tag), then that stimulus is the remote side
   answering (len, tag) on a carrier c that had been handed to rid before; c is never handed to
   any other request, and rid is never handed any other carrier, in the whole run. *)
Theorem C13_payload :
  forall (cf : cfg) (evs : list ev) pre e o tg post (rid len tag : N),
    run_steps cf (init_pst, init_env) evs = pre ++ (e, o, tg) :: post ->
    In (OResp rid len tag) o ->
    exists k c,
      e = ERespond k len tag /\ tg = Some c /\
      In (OBind c rid) (outs_of pre) /\
      (forall rid', In (OBind c rid') (outs_of (run_steps cf (init_pst, init_env) evs)) -> rid' = rid) /\
      (forall c', In (OBind c' rid) (outs_of (run_steps cf (init_pst, init_env) evs)) -> c' = c).
Proof.
  intros cf evs pre e o tg post rid len tag E H.
  destruct (payload_pairing cf evs pre e o tg post rid len tag E H) as [k [c [A [B [C D]]]]].
  exists k, c. repeat split; auto.
  intros c' H'. apply (bind_injective cf evs c' c rid H').
  rewrite E. unfold outs_of. rewrite flat_map_app. apply in_or_app. left. exact C.
Qed.
Print Assumptions C13_payload.

(* Matching payload, request direction.  If send_request(.., (len, tag), fallback fb) returned rid,
   carrier c was handed to rid's future and a request frame (l, t) reached the remote end of c,
   then that frame is the request given to send_request — or the fallback request when the
   substream was negotiated with the fallback name.  Together with C13_payload: the response
   delivered with rid is the one the remote supplied on the very carrier that carried rid's request. *)
Theorem C13_request_wire :
  forall (cf : cfg) (evs : list ev) pre p d (len tag : N) fb o tg post (rid c l t : N),
    run_steps cf (init_pst, init_env) evs = pre ++ (ESend p d len tag fb, o, tg) :: post ->
    In (OSent rid) o ->
    In (OBind c rid) (outs_of (run_steps cf (init_pst, init_env) evs)) ->
    In (OWire c l t) (outs_of (run_steps cf (init_pst, init_env) evs)) ->
    (l, t) = (len, tag) \/ exists n fl ft, fb = Some (n, fl, ft) /\ (l, t) = (fl, ft).
Proof. exact request_wire. Qed.
Print Assumptions C13_request_wire.

(* send_response_with_feedback: the feedback receiver gets () only in a step in which a response
   frame went out on an inbound carrier. *)
Theorem C13_feedback :
  forall (cf : cfg) (evs : list ev) e o tg (irid : N),
    In (e, o, tg) (run_steps cf (init_pst, init_env) evs) -> In (OFeed irid true) o ->
    exists c l t, In (OWireR c l t) o.
Proof. exact feedback_only_after_wire. Qed.
Print Assumptions C13_feedback.

(* The responder sees each inbound substream once: a stimulus that yields a RequestReceived is an
   inbound request frame (len, tag) arriving on a carrier, it yields exactly that one RequestReceived (possibly followed by the
   note which fallback name was negotiated) with exactly those bytes, and no two such stimuli of a run are on the same carrier. *)
Theorem C13_responder_once :
  forall (cf : cfg) (evs : list ev),
    let steps := run_steps cf (init_pst, init_env) evs in
    NoDup (req_chans steps) /\
    forall e o tg irid p len tag,
      In (e, o, tg) steps -> In (OReq irid p len tag) o ->
      exists k c rest, e = EInReq k len tag /\ tg = Some c /\ o = OReq irid p len tag :: rest /\ has_req rest = false.
Proof. exact responder_once. Qed.
Print Assumptions C13_responder_once.

(* The bounded event channel loses nothing: for every capacity and every interleaving of pushes
   (only while there is room — otherwise the event loop stays parked) and pops by the user, the
   events delivered, queued and still pending are, in this order, exactly the events produced, and
   the queue never exceeds its capacity. *)
Theorem C13_channel_nothing_lost :
  forall (cap : nat) (o : list out) (ms : list rmove),
    let st := relay_run cap o ms in
    rl_delivered st ++ rl_queue st ++ rl_pending st = o /\ (length (rl_queue st) <= cap)%nat.
Proof. exact relay_nothing_lost. Qed.
Print Assumptions C13_channel_nothing_lost.

(* dial() refused at once, for EVERY refusal: dres is the result of TransportService::dial, an
   arbitrary choice of the environment; every code other than the two Ok flavours (D_OK, D_INPROGRESS)
   — TriedToDialSelf, AlreadyConnected, NoAddressAvailable, TaskClosed, ChannelClogged,
   PeerIdMissing, or anything else — gives the request its single
   RequestFailed(Rejected(DialFailed(Some(variant)))) in the same step, and the request is parked
   nowhere (not behind a dial, not active at a peer, no substream being opened, no future). *)
Theorem C13_dial_refused_one_failure :
  forall (s : pst) (p len tag : N) fb (ok : bool) (dres sid : N),
    memN p (peers s) = false -> dial_accepted dres = false ->
    let r := h_send s p true len tag fb ok dres sid in
    snd r = [OSent (next_rid s); OFail (next_rid s) (E_DIAL_IMM dres)] /\
    dials (fst r) = dials s /\ active (fst r) = active s /\ pouts (fst r) = pouts s /\ futs (fst r) = futs s.
Proof. exact dial_refused_one_failure. Qed.
Print Assumptions C13_dial_refused_one_failure.

(* The same for a step of the whole system, whatever the environment is at that moment (the
   manager's belief about the peer — it may lag behind or run ahead of what the protocol was told —,
   a clogged or closed command channel, the local peer id): send_request with DialOptions::Dial to
   a peer the protocol does not know EITHER parks the request behind a dial the environment
   accepted (ghost call ODial: the environment now owes ConnectionEstablished or DialFailure) OR
   fails it at once with the dial error and parks it nowhere. *)
Theorem C13_send_dial_step :
  forall (cf : cfg) (s : pst) (en : env) (p len tag : N) fb,
    memN p (peers s) = false ->
    let r := step cf (s, en) (ESend p true len tag fb) in
    let rid := next_rid s in
    (dial_accepted (dial_res cf en p) = true /\ snd (fst r) = [OSent rid; ODial p] /\
     dials (fst (fst (fst r))) = dials s ++ [(p, mkReq rid len tag fb)]) \/
    (dial_accepted (dial_res cf en p) = false /\
     snd (fst r) = [OSent rid; OFail rid (E_DIAL_IMM (dial_res cf en p))] /\
     dials (fst (fst (fst r))) = dials s /\ active (fst (fst (fst r))) = active s /\
     pouts (fst (fst (fst r))) = pouts s /\ futs (fst (fst (fst r))) = futs s).
Proof. exact send_dial_step. Qed.
Print Assumptions C13_send_dial_step.

(* The environment's answer to dial(), in the order of the checks of TransportManagerHandle::dial:
   own peer id; unknown peer or empty address store; connected; a dial in progress (Dialing, Opening,
   Disconnected with a dial record); else the command goes to the manager — TaskClosed when the
   manager is gone, ChannelClogged when its command channel is full, Ok otherwise. *)
Theorem C13_dial_res_cases :
  forall (cf : cfg) (en : env) (p : N),
    let r := dial_res cf en p in
    (r = D_SELF /\ selfp cf && (p =? SELF_PEER) = true) \/
    (selfp cf && (p =? SELF_PEER) = false /\
     ((r = D_NOADDR /\ (mview cf en p = 0 \/ mview cf en p = 4)) \/
      (r = D_CONNECTED /\ mview cf en p = 2) \/
      (r = D_INPROGRESS /\ (mview cf en p = 3 \/ mview cf en p = 5 \/ mview cf en p = 6)) \/
      (mview cf en p <> 0 /\ mview cf en p <> 2 /\ mview cf en p <> 3 /\ mview cf en p <> 4 /\
       mview cf en p <> 5 /\ mview cf en p <> 6 /\
       ((r = D_TASKCLOSED /\ mgr en = false) \/
        (r = D_CLOGGED /\ mgr en = true /\ a_clog (aux_of en) = true) \/
        (r = D_OK /\ mgr en = true /\ a_clog (aux_of en) = false))))).
Proof. exact dial_res_cases. Qed.
Print Assumptions C13_dial_res_cases.

(* F-C13a on the unrepaired handler: two requests to peer 0 while it is being dialed, then the
   connection is established. Request 0 was handed out, is owed nowhere, was never answered and
   was never cancelled — the ledger clause inv_sent fails (repaired by the fix: commit). *)
Theorem C13_unrepaired_refuted :
  exists s o,
    (let '(s1, o1) := h_send_unrepaired init_pst 0 true 3 10 false true 0 in
     let '(s2, o2) := h_send_unrepaired s1 0 true 2 20 false true 0 in
     let '(s3, o3) := h_established s2 0 2 0 in (s3, o1 ++ o2 ++ o3)) = (s, o) /\
    In (OSent 0) o /\ dials s = [] /\ active s = [(0, 1)] /\ terms 0 o = 0%nat.
Proof. eexists. eexists. split; [vm_compute; reflexivity|]. vm_compute. repeat split; auto. Qed.
Print Assumptions C13_unrepaired_refuted.

(* Non-vacuity: the same scenario on the model proper (repaired handler) opens a substream for
   both requests, both get their own response — supplied in the opposite order, each on its own
   carrier — and the run ends quiescent. *)
Definition demo : list ev :=
  [ESend 0 true 3 10 None; ESend 0 true 2 20 (Some (1, 5, 50)); EEstablished 0 false 0; EOpened 0 1 0; EOpened 0 1 1;
   ERespond 1 3 9; ERespond 0 2 7; EInOpen 0 1 2; EInReq 2 4 5].
Example demo_two_responses :
  let res := run (mkCfg None 4 16 5000 false) (init_pst, init_env) demo in
  filter (fun x => match x with OResp _ _ _ | OBind _ _ | OReq _ _ _ _ | OWire _ _ _ | OFbResp _ _ | OFbReq _ _ => true
                                | _ => false end) (snd res)
    = [OBind 0 0; OWire 0 3 10; OBind 1 1; OWire 1 5 50; OResp 1 3 9; OFbResp 1 1; OResp 0 2 7; OReq 2 0 4 5; OFbReq 2 2] /\
  dials (fst (fst res)) = [] /\ pouts (fst (fst res)) = [] /\ futs (fst (fst res)) = [] /\
  req_chans (run_steps (mkCfg None 4 16 5000 false) (init_pst, init_env) demo) = [2].
Proof. vm_compute. repeat split. Qed.

(* Non-vacuity of the mixed case at connection establishment: three requests wait for the dial,
   the connection's command channel takes two substream-open commands, the third attempt fails at
   once; then the connection closes. Every request gets its single failure. *)
Example demo_partial_open :
  let res := run (mkCfg None 4 16 5000 false) (init_pst, init_env)
                 [ESend 0 true 1 1 None; ESend 0 true 1 2 None; ESend 0 true 1 3 None; EEstablished 0 false 2; EClosed 0] in
  filter (fun x => match x with OFail _ _ => true | _ => false end) (snd res)
    = [OFail 2 E_SUBSTREAM; OFail 0 E_CONN_CLOSED; OFail 1 E_CONN_CLOSED] /\
  quiescent (fst (fst res)).
Proof. vm_compute. repeat split. Qed.

(* Non-vacuity of the refused dial (the scenario of the third seeded change): the connection is
   reported, the manager believes the peer connected, the protocol is told ConnectionClosed while
   the manager lags behind; a request with DialOptions::Dial gets AlreadyConnected from dial() and
   fails at once with that error; nothing is parked, and after the flush nothing is owed.  Second
   history: the connection is reported with a dead command channel, no substream can be opened
   for the request waiting for the dial, the peer is not registered although the manager has
   the connection; the next Dial request fails at once with AlreadyConnected as well. *)
Example demo_already_connected :
  let cf := mkCfg None 4 16 5000 false in
  let evs := [EEstablished 0 false 0; EMgrPeer 0 2; EClosed 0; ESend 0 true 3 10 None; EMgrPeer 0 1] in
  let g := grun cf g0 (run_steps cf (init_pst, init_env) evs) in
  let res := run cf (init_pst, init_env) (evs ++ flush_evs cf g) in
  snd res = [OSent 0; OFail 0 (E_DIAL_IMM D_CONNECTED)] /\ dials (fst (fst res)) = [] /\
  let evs2 := [ESend 0 true 3 10 None; EEstablished 0 true 0; EMgrPeer 0 2; ESend 0 true 2 20 None] in
  let g2 := grun cf g0 (run_steps cf (init_pst, init_env) evs2) in
  let res2 := run cf (init_pst, init_env) (evs2 ++ flush_evs cf g2) in
  filter (fun x => match x with OFail _ _ => true | _ => false end) (snd res2)
    = [OFail 0 E_SUBSTREAM; OFail 1 (E_DIAL_IMM D_CONNECTED)] /\
  peers (fst (fst res2)) = [] /\ dials (fst (fst res2)) = [].
Proof. vm_compute. repeat split. Qed.

(* Non-vacuity of the contract premise: after the demo dialogue the environment owes nothing;
   after its first five stimuli it still owes two answers (or the timeout). *)
Example demo_discharged :
  discharged (grun (mkCfg None 4 16 5000 false) g0 (run_steps (mkCfg None 4 16 5000 false) (init_pst, init_env) demo)) /\
  g_live (grun (mkCfg None 4 16 5000 false) g0
               (run_steps (mkCfg None 4 16 5000 false) (init_pst, init_env) (firstn 5 demo)))
    = [(0, 0, 5000); (1, 1, 5000)].
Proof. split; [|vm_compute; reflexivity]. vm_compute. repeat split. intros x []. Qed.

(* ======================================================================================
   Extension round: the inbound side and the user's handle, the tables extracted from the source,
   and two nodes composed over the C04 substream contract.
   ====================================================================================== *)

(* Matching payload, response direction, at the responder: a response frame that reached the remote
   end of inbound carrier c is the payload the user gave to send_response(_with_feedback) for an
   inbound request id irid that the handle still knew (target = Some irid), and irid is the id under
   which a RequestReceived read from that very carrier was handed to the user. *)
Theorem C13_response_wire :
  forall (cf : cfg) (evs : list ev) (c l t : N),
    let steps := run_steps cf (init_pst, init_env) evs in
    In (OWireR c l t) (outs_of steps) ->
    exists irid,
      (exists e o p lq tq, In (e, o, Some c) steps /\ In (OReq irid p lq tq) o) /\
      (exists k fb o, In (EURespond k l t fb, o, Some irid) steps).
Proof. exact response_wire. Qed.
Print Assumptions C13_response_wire.

(* RequestResponseHandle::pending_responses: of all the send_response / send_response_with_feedback /
   reject_request calls the user makes for an inbound request id, at most one finds the oneshot
   sender (the others are no-ops): the ids for which a call took effect are pairwise distinct. *)
Theorem C13_respond_once :
  forall (cf : cfg) (evs : list ev), NoDup (answer_ids (run_steps cf (init_pst, init_env) evs)).
Proof. exact respond_once. Qed.
Print Assumptions C13_respond_once.

(* No timeout on the inbound side (what the code does): nothing but a stimulus on its own carrier —
   a request frame, the end of the stream, a read error — takes a reader out of
   pending_inbound_requests; not the clock, not the ConnectionClosed of its peer, not the user. *)
Theorem C13_reader_leaves_only_on_carrier_event :
  forall (cf : cfg) (s : pst) (en : env) (e : ev) (rd : rdr),
    let r := step cf (s, en) e in
    In rd (rdrs s) -> ~ In rd (rdrs (fst (fst (fst r)))) ->
    carrier_read e = true /\ snd r = Some (r_chan rd).
Proof. exact reader_leaves_only_on_carrier_event. Qed.
Print Assumptions C13_reader_leaves_only_on_carrier_event.

(* ... hence, with the bound configured and every slot taken by a substream whose remote side stays
   silent, the slots stay taken whatever else happens (any amount of time, connections closing,
   user calls, inbound substreams from any peer), and no RequestReceived is produced at all: the
   bound is respected, and silent remotes starve every other peer for as long as their substreams
   stay open. *)
Theorem C13_silent_remotes_pin_slots :
  forall (cf : cfg) (m : N) (evs : list ev) (s : pst) (en : env),
    max_inb cf = Some m -> m <= N.of_nat (length (rdrs s)) ->
    let steps := run_steps cf (s, en) evs in
    forallb (fun x => negb (touches (map r_chan (rdrs s)) x)) steps = true ->
    rdrs (fst (fst (run cf (s, en) evs))) = rdrs s /\
    forall x, In x steps -> has_req (snd (fst x)) = false.
Proof. exact silent_remotes_pin_slots. Qed.
Print Assumptions C13_silent_remotes_pin_slots.

Theorem C13_full_refuses :
  forall (cf : cfg) (m : N) (s : pst) (p c neg : N),
    max_inb cf = Some m -> m <= inbound_load s -> h_inopen cf s p c neg = (s, []).
Proof. exact full_refuses. Qed.
Print Assumptions C13_full_refuses.

(* The shared request-id allocator wraps at 2^64: the implementation's id of the model's i-th id is
   (r0 + i) mod 2^64; the renaming is injective below 2^64 allocations and has period 2^64. *)
Theorem C13_alloc_wrap :
  (forall r0 i j, i < USIZE -> j < USIZE -> impl_id r0 i = impl_id r0 j -> i = j) /\
  (forall r0 i, impl_id r0 (i + USIZE) = impl_id r0 i).
Proof. split; [exact alloc_wrap_injective|exact alloc_wrap_period]. Qed.
Print Assumptions C13_alloc_wrap.

(* The tables extracted from handle.rs / mod.rs / config.rs / error.rs on every check are the ones
   the model was written for; every error the source can produce has exactly one code of the model,
   codes are distinct; the SubstreamOpenFailure kinds of the harness map as on_substream_open_failure
   and RejectReason::from map them. *)
Theorem C13_tables_in_sync :
  (V.gen.C13Tables.enums = x_enums /\ V.gen.C13Tables.inner_to_outer = x_inner_to_outer /\
   V.gen.C13Tables.poll_next = x_poll_next /\ V.gen.C13Tables.reject_from = x_reject_from /\
   V.gen.C13Tables.handle_fns = x_handle_fns /\ V.gen.C13Tables.select_arms = x_select_arms /\
   V.gen.C13Tables.select_biased = x_select_biased /\ V.gen.C13Tables.service_arms = x_service_arms /\
   V.gen.C13Tables.command_arms = x_command_arms /\ V.gen.C13Tables.open_failure = x_open_failure /\
   V.gen.C13Tables.outbound_future = x_outbound_future /\ V.gen.C13Tables.inbound_future = x_inbound_future /\
   V.gen.C13Tables.inbound_bound = x_inbound_bound /\ V.gen.C13Tables.send_request = x_send_request /\
   V.gen.C13Tables.codec = x_codec /\ V.gen.C13Tables.channels = x_channels /\
   V.gen.C13Tables.builder_defaults = x_builder_defaults /\ V.gen.C13Tables.setters = x_setters /\
   V.gen.C13Tables.allocator = x_allocator /\ V.gen.C13Tables.build = x_build) /\
  map fst dial_codes = variants_of IMMEDIATE_DIAL_ERROR /\
  nodupN (map snd error_codes ++ map (fun x => E_DIAL_IMM (snd x)) dial_codes) = true /\
  forallb (fun x => N.eqb (openfail_code (fst (fst x))) (snd x)) open_failure_kinds = true.
Proof.
  split; [repeat split; reflexivity|]. repeat split; reflexivity.
Qed.
Print Assumptions C13_tables_in_sync.

(* The carrier contract, from C04_reader_roundtrip: whatever prefix of the frame of payload (l, t)
   has arrived (a fault at any byte offset), under whatever fragmentation, stalls, end of stream or
   read errors — if the substream reader returns a frame at all, it is exactly that payload. *)
Theorem C13_carrier_contract :
  forall (cf : cfg) (l t : N) (cut : nat) (script : list V.C04.Model.rdev) (m : list N),
    deliver (codec_of cf) (firstn cut (frame_for cf l t)) script = RxFrame m -> m = bytes_of l t.
Proof. exact deliver_contract. Qed.
Print Assumptions C13_carrier_contract.

(* Each node of the two-node system is a run of the single-node model: every theorem above holds
   for either node (instances below: at most one, exactly one, the request on the wire). *)
Theorem C13_two_node_projection :
  forall (cfA cfB : cfg) (ms : list mv) (x : bool),
    let s := run2 (sys0 cfA cfB) ms in
    log x s = run_steps (if x then cfB else cfA) (init_pst, init_env) (evs_of (log x s)).
Proof. exact node_projection. Qed.
Print Assumptions C13_two_node_projection.

Theorem C13_two_node_at_most_one :
  forall (cfA cfB : cfg) (ms : list mv) (x : bool) (r : N),
    (terms r (outs x (run2 (sys0 cfA cfB) ms)) <= 1)%nat.
Proof. exact two_node_at_most_one. Qed.
Print Assumptions C13_two_node_at_most_one.

Theorem C13_two_node_exactly_one :
  forall (cfA cfB : cfg) (ms : list mv) (x : bool) (r : N),
    let s := run2 (sys0 cfA cfB) ms in
    settled (fst (n_st (nd x s))) -> In (OSent r) (outs x s) ->
    terms r (outs x s) = 1%nat \/ In r (cancel_reqs (evs_of (log x s))).
Proof. exact two_node_exactly_one_settled. Qed.
Print Assumptions C13_two_node_exactly_one.

Theorem C13_two_node_responder_once :
  forall (cfA cfB : cfg) (ms : list mv) (x : bool), NoDup (req_chans (log x (run2 (sys0 cfA cfB) ms))).
Proof. exact two_node_responder_once. Qed.
Print Assumptions C13_two_node_responder_once.

(* The responder sees what the requester sent: a RequestReceived handed to the user at node b from
   a linked carrier carries, byte for byte, the request frame the other node wrote on the other end
   of that substream. *)
Theorem C13_two_node_request_identical :
  forall (cfA cfB : cfg) (ms : list mv) (b : bool) e o (cr irid p lq tq : N),
    let s := run2 (sys0 cfA cfB) ms in
    In (e, o, Some cr) (log b s) -> In (OReq irid p lq tq) o -> linked s b cr = true ->
    exists k l t, In k (lks s) /\ k_a k = negb b /\ k_cr k = cr /\
                  In (OWire (k_cq k) l t) (outs (negb b) s) /\ bytes_of lq tq = bytes_of l t.
Proof. exact two_node_request_identical. Qed.
Print Assumptions C13_two_node_request_identical.

(* THE COMPOSITION THEOREM (requester model || responder model over the C04 carrier contract).
   For every history of the two-node system — any stimuli of either node's own environment and
   user, substreams opened and linked in any order, bytes delivered in either direction cut at any
   offset and fragmented in any way, either event loop ending at any point: a response delivered at
   node a for request id rid whose substream (carrier c, the one carrier ever handed to rid) is
   linked to the other node is byte-identical to the payload (l', t') that the OTHER node's user
   supplied with send_response for the inbound request id irid; irid is the request that the other
   node read from the other end of that very substream; and what its user was handed as that request
   is byte-identical to the request frame node a wrote for rid (which C13_two_node_request_wire ties
   to the payload given to send_request). *)
Theorem C13_two_node_response_identical :
  forall (cfA cfB : cfg) (ms : list mv) (a : bool) (rid len tag c : N),
    let s := run2 (sys0 cfA cfB) ms in
    In (OResp rid len tag) (outs a s) -> In (OBind c rid) (outs a s) -> linked s a c = true ->
    exists k irid l' t' p lq tq l t,
      In k (lks s) /\ k_a k = a /\ k_cq k = c /\
      supplied (log (negb a) s) irid l' t' /\ bytes_of len tag = bytes_of l' t' /\
      origin (log (negb a) s) irid (k_cr k) /\
      In (OReq irid p lq tq) (outs (negb a) s) /\
      In (OWire c l t) (outs a s) /\ bytes_of lq tq = bytes_of l t.
Proof. exact two_node_response_identical. Qed.
Print Assumptions C13_two_node_response_identical.

Theorem C13_two_node_request_wire :
  forall (cfA cfB : cfg) (ms : list mv) (a : bool) pre p d (len tag : N) fb o tg post (rid c l t : N),
    let s := run2 (sys0 cfA cfB) ms in
    log a s = pre ++ (ESend p d len tag fb, o, tg) :: post ->
    In (OSent rid) o -> In (OBind c rid) (outs a s) -> In (OWire c l t) (outs a s) ->
    (l, t) = (len, tag) \/ exists n fl ft, fb = Some (n, fl, ft) /\ (l, t) = (fl, ft).
Proof. exact two_node_request_wire. Qed.
Print Assumptions C13_two_node_request_wire.

(* Non-vacuity of the composition: node A sends (3, 10) to node B; the substream is opened and
   linked; the request bytes arrive in three fragments with a stall; B's user answers (5, 77) with
   feedback; the response bytes arrive after a stall: A's user gets exactly (5, 77) for request 0.
   Second history: the request bytes are cut after 3 of 4 bytes — B sees the stream end, A gets
   Rejected(SubstreamClosed). *)
Definition demo2 : list mv :=
  [MLoc false (EEstablished 0 false 0); MLoc true (EEstablished 0 false 0);
   MLoc false (ESend 0 false 3 10 None); MLoc false EDrain; MOpen false 0 1 1 0;
   MReq 0 100 [V.C04.Model.EvChunk 1; V.C04.Model.EvPending; V.C04.Model.EvChunk 2];
   MLoc true (EURespond 0 5 77 true); MResp 0 100 [V.C04.Model.EvPending]].
Example demo_two_nodes :
  let cf := mkCfg None 4 16 5000 false in
  let s := run2 (sys0 cf cf) demo2 in
  outs false s = [OSent 0; OOpen 0 0; OBind 0 0; OWire 0 3 10; OResp 0 5 77] /\
  outs true s = [OReq 0 0 3 10; OWireR 0 5 77; OFeed 0 true] /\
  lks s = [mkLink false 0 0] /\ linked s false 0 = true /\
  let s' := run2 (sys0 cf cf) (firstn 5 demo2 ++ [MReq 0 3 []; MResp 0 100 []]) in
  outs false s' = [OSent 0; OOpen 0 0; OBind 0 0; OWire 0 3 10; OFail 0 E_SUB_CLOSED] /\ outs true s' = [].
Proof. vm_compute. repeat split. Qed.

(* Non-vacuity of the pinned slots: bound 2, two silent inbound substreams of peer 0; an hour
   passes, the connection of peer 0 is reported closed, peer 1 opens a substream and sends a
   request: nothing is read, nothing is handed to the user, the two readers are still there. *)
Example demo_pinned :
  let cf := mkCfg (Some 2) 4 16 5000 false in
  let res := run cf (init_pst, init_env)
                 [EEstablished 0 false 0; EEstablished 1 false 0; EInOpen 0 1 0; EInOpen 0 1 0;
                  EAdvance 3600000; EClosed 0; EInOpen 1 1 0; EInReq 2 3 7] in
  length (rdrs (fst (fst res))) = 2%nat /\ snd res = [].
Proof. vm_compute. split; reflexivity. Qed.

(* ---- request-response ON the TransportService model (coq/Link/Ts_C13.v) ----
   The contract premise of C13_exactly_one_contract is a ledger of what the environment owes. Here the
   environment is no longer abstract for its part (o) "every accepted open_substream is answered": the
   protocol model (Model.step, unchanged) is composed with the TransportService model coq/Ts of C08 / C09
   (V.Link.Ts_C13.jmove / jnext / jok): the service handles an environment input and the one
   protocol-visible event it emits is handed to the protocol as the stimulus of the same kind (and the
   protocol sees such stimuli ONLY that way); every open_substream call of a handler (OOpen sid p) is
   executed on the service (EOpen p / EOpenFull p) and the accepted calls are exactly those, with the same
   ids. `evs_of ms` are the protocol's stimuli, `tr_of ms` the service's history. *)

(* The coupling, for every joint history: an entry of the protocol-side ledger g_opens is an open in
   flight at the service or was lost (its connection closed with the open in flight while the protocol
   was not told ConnectionClosed: the peer keeps another connection); the ledger's connected peers are
   the peers with a connection context at the service. *)
Theorem C13_ledger_is_service_ledger :
  forall (cf : cfg) (ka : bool) (T0 n0 : N) (ms : list V.Link.Ts_C13.jmove),
  V.Link.Ts_C13.jtrace cf (V.Link.Ts_C13.j0 ka T0 n0) ms ->
  let g := grun cf g0 (run_steps cf (init_pst, init_env) (V.Link.Ts_C13.evs_of ms)) in
  let s := V.Ts.Model.final (V.Ts.Model.init ka T0 n0) (V.Link.Ts_C13.tr_of ms) in
  (forall sid p, In (sid, p) (g_opens g) ->
     (exists c, In (sid, (p, c)) (V.Ts.Model.s_pend s)) \/
     In (sid, p) (V.Link.Ts_C13.lost_run (V.Ts.Model.init ka T0 n0) (V.Link.Ts_C13.tr_of ms))) /\
  (forall q, In q (g_conn g) <-> V.Ts.Extra.hc (V.Ts.Model.s_ctxs s) q = true).
Proof. exact V.Link.Ts_C13.ledger_is_service_ledger. Qed.
Print Assumptions C13_ledger_is_service_ledger.

(* Part (o) of the contract premise from the service's own books: nothing in flight at the end (the
   hypothesis of C08_open_answered: the connection task answered every OpenSubstream command, or the
   connection was closed) and nothing lost. *)
Theorem C13_opens_discharged_on_service :
  forall (cf : cfg) (ka : bool) (T0 n0 : N) (ms : list V.Link.Ts_C13.jmove),
  V.Link.Ts_C13.jtrace cf (V.Link.Ts_C13.j0 ka T0 n0) ms ->
  V.Ts.Model.s_pend (V.Ts.Model.final (V.Ts.Model.init ka T0 n0) (V.Link.Ts_C13.tr_of ms)) = [] ->
  V.Link.Ts_C13.lost_run (V.Ts.Model.init ka T0 n0) (V.Link.Ts_C13.tr_of ms) = [] ->
  g_opens (grun cf g0 (run_steps cf (init_pst, init_env) (V.Link.Ts_C13.evs_of ms))) = [].
Proof. exact V.Link.Ts_C13.opens_discharged_on_service. Qed.
Print Assumptions C13_opens_discharged_on_service.

(* EXACTLY ONE for request-response running on the service model. Left as assumptions: the connection
   tasks answer or close (nothing in flight at the service), no open is lost by a close the protocol is
   not told about, the manager answers every accepted dial (C05's side; the service only forwards
   DialFailure), and the request timeout passes for carriers that stay silent. *)
Theorem C13_exactly_one_on_service_model :
  forall (cf : cfg) (ka : bool) (T0 n0 : N) (ms : list V.Link.Ts_C13.jmove) (r : N),
  0 < tmo cf ->
  V.Link.Ts_C13.jtrace cf (V.Link.Ts_C13.j0 ka T0 n0) ms ->
  V.Ts.Model.s_pend (V.Ts.Model.final (V.Ts.Model.init ka T0 n0) (V.Link.Ts_C13.tr_of ms)) = [] ->
  V.Link.Ts_C13.lost_run (V.Ts.Model.init ka T0 n0) (V.Link.Ts_C13.tr_of ms) = [] ->
  let g := grun cf g0 (run_steps cf (init_pst, init_env) (V.Link.Ts_C13.evs_of ms)) in
  g_dials g = [] ->
  (forall x, In x (g_live g) -> snd x <= g_now g) ->
  let res := run cf (init_pst, init_env) (V.Link.Ts_C13.evs_of ms) in
  In (OSent r) (snd res) ->
  terms r (snd res) = 1%nat \/ In r (cancel_reqs (V.Link.Ts_C13.evs_of ms)).
Proof. exact V.Link.Ts_C13.exactly_one_on_service_model. Qed.
Print Assumptions C13_exactly_one_on_service_model.

(* With one connection per peer at a time (`feasible 1`: C08's environment assumption with the cap at
   one) nothing is ever lost, and the no-loss hypothesis goes away. *)
Theorem C13_exactly_one_on_service_model_single :
  forall (cf : cfg) (ka : bool) (T0 n0 : N) (ms : list V.Link.Ts_C13.jmove) (r : N),
  0 < tmo cf ->
  V.Link.Ts_C13.jtrace cf (V.Link.Ts_C13.j0 ka T0 n0) ms ->
  V.Ts.Model.feasible 1 V.Ts.Model.env0 (V.Ts.Model.init ka T0 n0) (V.Link.Ts_C13.tr_of ms) = true ->
  V.Ts.Model.s_pend (V.Ts.Model.final (V.Ts.Model.init ka T0 n0) (V.Link.Ts_C13.tr_of ms)) = [] ->
  let g := grun cf g0 (run_steps cf (init_pst, init_env) (V.Link.Ts_C13.evs_of ms)) in
  g_dials g = [] ->
  (forall x, In x (g_live g) -> snd x <= g_now g) ->
  let res := run cf (init_pst, init_env) (V.Link.Ts_C13.evs_of ms) in
  In (OSent r) (snd res) ->
  terms r (snd res) = 1%nat \/ In r (cancel_reqs (V.Link.Ts_C13.evs_of ms)).
Proof. exact V.Link.Ts_C13.exactly_one_on_service_model_single. Qed.
Print Assumptions C13_exactly_one_on_service_model_single.

(* WHAT THE LINK FOUND. C08_open_answered's alternative "or its connection was closed" is about the
   CONNECTION; the protocol is told ConnectionClosed only for a peer's LAST connection. With two
   connections per peer (inside C08's contract, `feasible 2`): the request's open is in flight on the
   primary, the primary closes while the secondary lives. The service forgets the open, emits neither an
   answer nor ConnectionClosed; nothing is in flight at the service, yet the protocol-side ledger keeps the
   open owed and the request has no terminal event (until something else ends it). So C08's guarantee
   does not imply C13's premise for such histories: `lost_run = []` is a real hypothesis. *)
Theorem C13_service_silent_close_loses_open :
  let ms := V.Link.Ts_C13.ms_lost in
  let cf := V.Link.Ts_C13.cf_ex in
  V.Link.Ts_C13.jtrace cf (V.Link.Ts_C13.j0 true 1000 0) ms /\
  V.Ts.Model.feasible 2 V.Ts.Model.env0 (V.Ts.Model.init true 1000 0) (V.Link.Ts_C13.tr_of ms) = true /\
  V.Ts.Model.s_pend (V.Ts.Model.final (V.Ts.Model.init true 1000 0) (V.Link.Ts_C13.tr_of ms)) = [] /\
  V.Link.Ts_C13.lost_run (V.Ts.Model.init true 1000 0) (V.Link.Ts_C13.tr_of ms) = [(0, 7)] /\
  g_opens (grun cf g0 (run_steps cf (init_pst, init_env) (V.Link.Ts_C13.evs_of ms))) = [(0, 7)] /\
  terms 0 (snd (run cf (init_pst, init_env) (V.Link.Ts_C13.evs_of ms))) = 0%nat.
Proof. exact V.Link.Ts_C13.joint_history_silent_loss. Qed.
Print Assumptions C13_service_silent_close_loses_open.

(* non-vacuity of the composition: a connection, a request answered over an opened substream, a second
   request whose open fails, the connection closes — a joint history; both ledgers end empty and each
   request has its one terminal event *)
Theorem C13_service_joint_history_nonvacuous :
  let ms := V.Link.Ts_C13.ms_ok in
  let cf := V.Link.Ts_C13.cf_ex in
  V.Link.Ts_C13.jtrace cf (V.Link.Ts_C13.j0 true 1000 0) ms /\
  V.Ts.Model.s_pend (V.Ts.Model.final (V.Ts.Model.init true 1000 0) (V.Link.Ts_C13.tr_of ms)) = [] /\
  V.Link.Ts_C13.lost_run (V.Ts.Model.init true 1000 0) (V.Link.Ts_C13.tr_of ms) = [] /\
  grun cf g0 (run_steps cf (init_pst, init_env) (V.Link.Ts_C13.evs_of ms)) = mkG 0 [] [] [] [] /\
  snd (run cf (init_pst, init_env) (V.Link.Ts_C13.evs_of ms)) =
    [OSent 0; OOpen 0 5; OBind 0 0; OWire 0 3 9; OResp 0 4 8; OSent 1; OOpen 1 5; OFail 1 4].
Proof. exact V.Link.Ts_C13.joint_history_nonvacuous. Qed.
Print Assumptions C13_service_joint_history_nonvacuous.

(* The connection-task contract as a statement about the tasks' behaviour (not about the service's final
   state): every OpenSubstream command a connection task received (OCmd c id) is LATER answered — the
   service is handed SubstreamOpened / SubstreamOpenFailure for that id — or the task's connection is
   reported closed to the service (`task_contract`). Then nothing is in flight at the end, for every
   history in which the usize id counter does not wrap. *)
Theorem C13_task_contract_empties_service :
  forall (s0 : V.Ts.Model.st) (tr : list (N * V.Ts.Model.ev)),
  V.Ts.Answers.pend_inv s0 -> V.Ts.Model.s_pend s0 = [] -> V.Ts.Proofs.nowrap s0 tr ->
  V.Link.Ts_C13.task_contract s0 tr ->
  V.Ts.Model.s_pend (V.Ts.Model.final s0 tr) = [].
Proof. exact V.Link.Ts_C13.contract_empties_pend. Qed.
Print Assumptions C13_task_contract_empties_service.

(* EXACTLY ONE on the service model with the contracts spelled out: connection tasks (task_contract),
   no silent loss (lost_run; a theorem under one connection per peer), the manager (g_dials), the clock. *)
Theorem C13_exactly_one_on_service_model_contract :
  forall (cf : cfg) (ka : bool) (T0 n0 : N) (ms : list V.Link.Ts_C13.jmove) (r : N),
  0 < tmo cf ->
  V.Link.Ts_C13.jtrace cf (V.Link.Ts_C13.j0 ka T0 n0) ms ->
  V.Ts.Proofs.nowrap (V.Ts.Model.init ka T0 n0) (V.Link.Ts_C13.tr_of ms) ->
  V.Link.Ts_C13.task_contract (V.Ts.Model.init ka T0 n0) (V.Link.Ts_C13.tr_of ms) ->
  V.Link.Ts_C13.lost_run (V.Ts.Model.init ka T0 n0) (V.Link.Ts_C13.tr_of ms) = [] ->
  let g := grun cf g0 (run_steps cf (init_pst, init_env) (V.Link.Ts_C13.evs_of ms)) in
  g_dials g = [] ->
  (forall x, In x (g_live g) -> snd x <= g_now g) ->
  let res := run cf (init_pst, init_env) (V.Link.Ts_C13.evs_of ms) in
  In (OSent r) (snd res) ->
  terms r (snd res) = 1%nat \/ In r (cancel_reqs (V.Link.Ts_C13.evs_of ms)).
Proof. exact V.Link.Ts_C13.exactly_one_on_service_model_contract. Qed.
Print Assumptions C13_exactly_one_on_service_model_contract.

(* the contract hypotheses are satisfiable: they hold in the non-vacuity history *)
Theorem C13_service_contract_nonvacuous :
  V.Link.Ts_C13.task_contract (V.Ts.Model.init true 1000 0) (V.Link.Ts_C13.tr_of V.Link.Ts_C13.ms_ok) /\
  V.Ts.Proofs.nowrap (V.Ts.Model.init true 1000 0) (V.Link.Ts_C13.tr_of V.Link.Ts_C13.ms_ok).
Proof. exact V.Link.Ts_C13.ms_ok_contract. Qed.
Print Assumptions C13_service_contract_nonvacuous.
