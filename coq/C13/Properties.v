(* C13 — Every request gets exactly one terminal outcome with the matching payload.
   Pinned theorem statements; the proofs are in Proofs.v. *)
From Coq Require Import List NArith Bool.
From V.C13 Require Import Model Proofs.
Import ListNotations.
Open Scope N_scope.

(* For every configuration and every sequence of stimuli (user commands, transport-service
   events in any order, carrier events of the remote side, clock advances), the run of the
   event-loop model from the initial state emits at most one terminal event
   (ResponseReceived | RequestFailed) carrying a given request id. *)
Theorem C13_at_most_one :
  forall (cf : cfg) (evs : list ev) (r : N),
    (terms r (snd (run cf (init_pst, init_env) evs)) <= 1)%nat.
Proof. exact at_most_one. Qed.
Print Assumptions C13_at_most_one.

(* Exactly one: after any sequence of stimuli, if nothing is owed any more (no request waits for a
   dial, no request is active at any peer), every request id that send_request handed out has
   exactly one terminal event, unless the user asked to cancel it.
   PARTIAL with respect to the design's statement: the premise is "settled" (pending_dials and all
   peers[..].active empty) rather than "quiescent" (pending_dials, pending_outbound and the set of
   in-flight futures empty). The missing link — an active request always has a pending_outbound
   entry or a future — is not proved; it is checked on every dump of the real bookkeeping by
   Glue.prop_ok. Full statement:
     quiescent (fst (fst res)) -> In (OSent r) (snd res) -> terms r (snd res) = 1 \/ In r (cancel_reqs evs). *)
Theorem C13_exactly_one_settled_partial :
  forall (cf : cfg) (evs : list ev) (r : N),
    let res := run cf (init_pst, init_env) evs in
    settled (fst (fst res)) ->
    In (OSent r) (snd res) ->
    terms r (snd res) = 1%nat \/ In r (cancel_reqs evs).
Proof. exact exactly_one_settled. Qed.
Print Assumptions C13_exactly_one_settled_partial.

(* The configured bound on concurrent inbound requests (substreams being read + requests waiting
   for / sending their response) holds after every sequence of stimuli. *)
Theorem C13_inbound_bound :
  forall (cf : cfg) (evs : list ev),
    match max_inb cf with
    | Some m => inbound_load (fst (fst (run cf (init_pst, init_env) evs))) <= m
    | None => True
    end.
Proof. exact inbound_bound. Qed.
Print Assumptions C13_inbound_bound.

(* F-C13a on the unrepaired handler: two requests to peer 0 while it is being dialed, then the
   connection is established. Request 0 was handed out, is owed nowhere, was never answered and
   was never cancelled — the ledger clause inv_sent fails (repaired by the fix: commit). *)
Theorem C13_unrepaired_refuted :
  exists s o,
    (let '(s1, o1) := h_send_unrepaired init_pst 0 true 3 10 false true 0 in
     let '(s2, o2) := h_send_unrepaired s1 0 true 2 20 false true 0 in
     let '(s3, o3) := h_established s2 0 true 0 in (s3, o1 ++ o2 ++ o3)) = (s, o) /\
    In (OSent 0) o /\ dials s = [] /\ active s = [(0, 1)] /\ terms 0 o = 0%nat.
Proof. eexists. eexists. split; [vm_compute; reflexivity|]. vm_compute. repeat split; auto. Qed.
Print Assumptions C13_unrepaired_refuted.

(* Non-vacuity: the same scenario on the model proper (repaired handler) opens a substream for
   both requests, both get their own response, and the run ends settled. *)
Definition demo : list ev :=
  [ESend 0 true 3 10; ESend 0 true 2 20; EEstablished 0 false; EOpened 0 1; EOpened 0 1;
   ERespond 0 2 7; ERespond 1 3 9].
Example demo_two_responses :
  let res := run (mkCfg None 4 16 5000) (init_pst, init_env) demo in
  filter (fun x => match x with OResp _ _ _ => true | _ => false end) (snd res)
    = [OResp 0 2 7; OResp 1 3 9] /\
  dials (fst (fst res)) = [] /\ active (fst (fst res)) = [].
Proof. vm_compute. repeat split. Qed.
