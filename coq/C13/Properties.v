(* C13 — Every request gets exactly one terminal outcome with the matching payload.
   Pinned theorem statements; the proofs are in Proofs.v. *)
From Coq Require Import List NArith Bool.
From V.C13 Require Import Model Proofs.
Import ListNotations.
Open Scope N_scope.

(* For every configuration and every sequence of stimuli (user commands, transport-service
   events in any order, carrier events of the remote side, clock advances), the run of the
   event-loop model from the initial state emits at most one terminal event
   (ResponseReceived | RequestFailed) carrying a given request id. *)
Theorem C13_at_most_one :
  forall (cf : cfg) (evs : list ev) (r : N),
    (terms r (snd (run cf (init_pst, init_env) evs)) <= 1)%nat.
Proof. exact at_most_one. Qed.
Print Assumptions C13_at_most_one.
