(* C13 — wire format, model runner and the trace oracle prop_ok. Definitions only.

   case  = max_inb(0 = unlimited, k+1 = Some k)  ndial  max_size  flags  ccap  n  op_1 .. op_n
           (flags = selfp + 2*tmo_sel + 8*rid_sel + 32*ka;
            selfp: peer 3 is the local peer id;
            tmo_sel: 0 = ConfigBuilder's default timeout (REQUEST_TIMEOUT), 1 = the same value given
                     to with_timeout, 2 = with_timeout(1001 ms), 3 = with_timeout(7777 ms);
            rid_sel: start value of the shared request-id allocator: 0 = 0, 1 = usize::MAX - 2,
                     2 = usize::MAX - 17, 3 = usize::MAX (ids are printed relative to it, modulo 2^64:
                     Inbound.alloc_wrap_injective);
            ka: the TransportService's keep-alive timeout is 1 ns (connection handles are downgraded
                as soon as time passes and open_substream upgrades them again) instead of 10^9 s —
                neither rid_sel nor ka is visible to the model;
            ccap: capacity of the command channel, 0 = default;
            ndial: the transport manager initially knows an address of peers 0..ndial-1)
   op    = one stimulus of the harness = zero or more model events (a burst of try_send_request
           calls, two stimuli made ready at the same instant in the order the implementation chose,
           the discharge of everything the environment owes, ...)
   trace = 1  step_1 .. step_n        (or [0] when the case does not parse)
   step  = target(0 = none, t+1)  nevents  event*  dump
   event = 1 rid | 2 rid len tag | 3 rid code | 4 irid peer len tag | 5 chan len tag | 7 irid ok |
           8 sid peer | 9 rid name | 10 irid name | 11 peer dial_result | 12 pending | 13 1   (sorted)
           11: a call of TransportService::dial and what it returned (D_* of Model.v);
           12: the async send_request had to wait for room in the command channel (1) or not (0);
           13: the event loop (the run future) has ended
   dump  = peers (p, active ids, inbound ids)*  dials (p, ids)*  pending_outbound (sid p rid)*
           cancel ids  #request futures  #inbound readers  #responders
           (published by the real run loop every time it comes back to its select!) *)
From Coq Require Import List NArith Bool.
From V.common Require Import Wire.
From V.gen Require Import Consts.
From V.C13 Require Import Model.
Import ListNotations.
Open Scope N_scope.

Definition TMO : N := REQUEST_TIMEOUT_SECS * 1000.
(* the request timeout a case configures *)
Definition tmo_of (flags : N) : N :=
  match (flags / 2) mod 4 with 2 => 1001 | 3 => 7777 | _ => TMO end.

Definition NPEERS : N := 4.
Definition DEFAULT_CHANNEL : N := DEFAULT_CHANNEL_SIZE.

Fixpoint burst (n : nat) (room : nat) (mk : ev) : list ev :=
  match n with
  | O => []
  | S n' => match room with
            | O => EBurn :: burst n' O mk
            | S r' => mk :: burst n' r' mk
            end
  end.

(* one stimulus of the harness *)
Inductive gop :=
| GEvs (l : list ev) (mark : list N)          (* model events; mark: an extra event printed as it is *)
| GFlush                                      (* the environment discharges everything it owes: DialFailure for
                                                 every accepted, unanswered dial; ConnectionClosed for every
                                                 connection; the clock passes every deadline *)
| GFlushSoft                                  (* the same, but the connections stay: every unanswered open_substream
                                                 gets a SubstreamOpenFailure instead (silent peers must time out) *)
| GRespRaw (irid len tag : N) (fb : bool)     (* send_response(_with_feedback) with an arbitrary request id *)
| GRejRaw (irid : N)                          (* reject_request with an arbitrary request id *)
| GExit (kind : N).                           (* 0: the user drops the RequestResponseHandle; 1: the transport
                                                 service's event channel closes.  The event loop ends. *)

(* ccap: capacity of the command channel (already resolved: > 0) *)
Definition p_op (ccap : N) : parser gop :=
  let evs (l : list ev) : parser gop := pret (GEvs l []) in
  let* tag := pN in
  match tag with
  | 0 => let* p := pN in let* d := pBool in let* l := pN in let* t := pN in
         let* fn := pN in let* fl := pN in let* ft := pN in
         evs [ESend p d l t (if fn =? 0 then None else Some (fn, fl, ft))]
  | 1 => let* r := pN in evs [ECancel r]
  | 2 => let* p := pN in let* b := pBool in let* cap := pN in evs [EEstablished p b cap]
  | 3 => let* p := pN in evs [EClosed p]
  | 4 => let* p := pN in evs [EDialFail p]
  | 5 => let* k := pN in let* g := pN in let* ng := pN in evs [EOpened k g ng]
  | 6 => let* k := pN in let* u := pN in evs [EOpenFail k u]
  | 7 => let* k := pN in evs [EUnblock k]
  | 8 => let* k := pN in evs [EBreakW k]
  | 9 => let* k := pN in let* l := pN in let* t := pN in evs [ERespond k l t]
  | 10 => let* k := pN in evs [EEof k]
  | 11 => let* k := pN in evs [EErr k]
  | 12 => let* d := pN in evs [EAdvance d]
  | 13 => let* p := pN in let* g := pN in let* ng := pN in evs [EInOpen p g ng]
  | 14 => let* k := pN in let* l := pN in let* t := pN in evs [EInReq k l t]
  | 15 => let* k := pN in let* l := pN in let* t := pN in let* fb := pBool in evs [EURespond k l t fb]
  | 16 => let* k := pN in evs [EUReject k]
  | 17 => let* p := pN in evs [EBreakConn p]
  (* n try_send_request calls back to back: the command channel takes the first ccap, the others
     fail with ChannelClogged after having drawn their request id *)
  | 18 => let* p := pN in let* d := pBool in let* n := pN in let* l := pN in let* t := pN in
          if 64 <? n then pfail else evs (burst (N.to_nat n) (N.to_nat ccap) (ESend p d l t None))
  (* two things become ready at the same instant; `first` is the order in which the implementation
     looked at them (its select! is unbiased), observed by the harness *)
  | 19 => let* k := pN in let* l := pN in let* t := pN in let* d := pN in let* first := pBool in
          evs (if first then [EAdvance d; ERespond k l t] else [ERespond k l t; EAdvance d])
  | 20 => let* k := pN in let* l := pN in let* t := pN in let* r := pN in let* first := pBool in
          evs (if first then [ECancel r; ERespond k l t] else [ERespond k l t; ECancel r])
  | 21 => let* r := pN in let* d := pN in let* first := pBool in
          evs (if first then [EAdvance d; ECancel r] else [ECancel r; EAdvance d])
  | 22 => evs [EDropManager]
  (* the async send_request / send_request_with_fallback: same command, the call waits for room *)
  | 23 => let* p := pN in let* d := pBool in let* l := pN in let* t := pN in
          let* fn := pN in let* fl := pN in let* ft := pN in
          pret (GEvs [ESend p d l t (if fn =? 0 then None else Some (fn, fl, ft))] [12; 0])
  (* n try_send_request calls, then an async send_request: it has to wait iff the channel is full,
     and gets through once the event loop has taken the commands before it
     (dr: the user drops the waiting call instead — the id it drew is gone, nothing was sent) *)
  | 24 => let* p := pN in let* d := pBool in let* n := pN in let* l := pN in let* t := pN in let* dr := pBool in
          if 64 <? n then pfail
          else pret (GEvs (burst (N.to_nat n) (N.to_nat ccap) (ESend p d l t None) ++
                           [if (ccap <=? n) && dr then EBurn else ESend p d l t None])
                          [12; b2n (ccap <=? n)])
  | 25 => let* r := pN in let* l := pN in let* t := pN in let* fb := pBool in pret (GRespRaw r l t fb)
  | 26 => let* r := pN in pret (GRejRaw r)
  | 27 => let* k := pN in if 1 <? k then pfail else pret (GExit k)
  | 28 => let* p := pN in let* v := pN in evs [EMgrPeer p v]
  | 29 => let* b := pBool in evs [EClog b]
  | 30 => pret GFlush
  | 31 => pret GFlushSoft
  | _ => pfail
  end.

Definition ev_peer_ok (e : ev) : bool :=
  match e with
  | EEstablished p _ cap => (p <? NPEERS) && (cap <=? 4096)
  | EOpened _ _ ng | EInOpen _ _ ng => ng <=? 2
  | ESend p _ _ _ fb => (p <? NPEERS) && match fb with Some (fn, _, _) => fn <=? 2 | None => true end
  | EClosed p | EDialFail p | EBreakConn p => p <? NPEERS
  | EMgrPeer p v => (p <? NPEERS) && (v <=? 6)
  | EOpenFail _ u => u <=? 14
  | _ => true
  end.
Definition ev_ok (e : ev) : bool :=
  ev_peer_ok e && match e with EInOpen p _ _ => p <? NPEERS | _ => true end.

Definition gop_ok (op : gop) : bool :=
  match op with GEvs l _ => forallb ev_ok l | _ => true end.

Definition decode_case (l : list N) : option (cfg * list gop) :=
  match l with
  | mi :: nd :: ms :: sp :: cc :: rest =>
    let ccap := if cc =? 0 then DEFAULT_CHANNEL else cc in
    if (4096 <? cc) || (63 <? sp) then None else
    match pall (plist (p_op ccap)) rest with
    | Some ops =>
      if forallb gop_ok ops
      then Some (mkCfg (dec_opt mi) (N.min nd NPEERS) ms (tmo_of sp) (N.odd sp), ops)
      else None
    | None => None
    end
  | _ => None
  end.

(* ---- encoders ---- *)
Definition canon_tag (len tag : N) : N := if len =? 0 then 0 else tag mod 256.

Definition out_key (o : out) : N :=
  match o with
  | OSent r => 1 * 1099511627776 + r
  | OResp r _ _ => 2 * 1099511627776 + r
  | OFail r _ => 3 * 1099511627776 + r
  | OReq r _ _ _ => 4 * 1099511627776 + r
  | OWire c _ _ => 5 * 1099511627776 + c
  | OWireR c _ _ => 5 * 1099511627776 + c
  | OBind c _ => 6 * 1099511627776 + c
  | OFeed r _ => 7 * 1099511627776 + r
  | OOpen sid _ => 8 * 1099511627776 + sid
  | OFbResp r _ => 9 * 1099511627776 + r
  | OFbReq r _ => 10 * 1099511627776 + r
  | ODial p => 11 * 1099511627776 + p
  end.
Definition enc_out (o : out) : list N :=
  match o with
  | OSent r => [1; r]
  | OResp r l t => [2; r; l; canon_tag l t]
  | OFail r c => [3; r; c]
  | OReq r p l t => [4; r; p; l; canon_tag l t]
  | OWire c l t => [5; c; l; canon_tag l t]
  | OWireR c l t => [5; c; l; canon_tag l t]
  | OBind _ _ => []
  | OFeed r ok => [7; r; b2n ok]
  | OOpen sid p => [8; sid; p]
  | OFbResp r n => [9; r; n]
  | OFbReq r n => [10; r; n]
  | ODial _ => []
  end.
Definition printed (o : out) : bool := match o with OBind _ _ | ODial _ => false | _ => true end.

Definition idN (x : N) : N := x.
Definition ids_of (p : N) (l : list (N * N)) : list N :=
  sort_by idN (map snd (filter (fun a => fst a =? p) l)).

Definition dump (s : pst) : list N :=
  enc_list (fun p => p :: enc_list (fun x => [x]) (ids_of p (active s)) ++ enc_list (fun x => [x]) (ids_of p (inb s)))
           (sort_by idN (peers s)) ++
  enc_list (fun p => p :: enc_list (fun d : N * req => [q_rid (snd d)]) (filter (fun d => fst d =? p) (dials s)))
           (sort_by idN (dedup (map fst (dials s)))) ++
  enc_list (fun po => [po_sid po; po_peer po; q_rid (po_req po)]) (sort_by po_sid (pouts s)) ++
  enc_list (fun x => [x]) (sort_by idN (map (fun f => q_rid (f_req f)) (filter (fun f => negb (f_cancel f)) (futs s)))) ++
  [N.of_nat (length (futs s)); N.of_nat (length (rdrs s)); N.of_nat (length (rsps s))].

(* sorting key of a printed event: its kind and its first argument *)
Definition ekey (l : list N) : N :=
  match l with
  | a :: b :: _ => a * 1099511627776 + b
  | [a] => a * 1099511627776
  | [] => 0
  end.

Fixpoint index_of (x : N) (l : list N) (i : N) : option N :=
  match l with
  | [] => None
  | y :: t => if y =? x then Some i else index_of x t (i + 1)
  end.

(* the model events of one harness stimulus; g = the environment's ledger so far *)
Definition expand (c : cfg) (st : pst * env) (g : ghost) (op : gop) : list ev :=
  match op with
  | GEvs l _ => l
  | GFlush => flush_evs c g
  | GFlushSoft => map EDialFail (sort_by idN (dedup (g_dials g))) ++
                  map (fun _ => EOpenFail 0 0) (opens (snd st)) ++ [EAdvance (2 * tmo c + 1)]
  | GRespRaw irid len tag fb =>
    match index_of irid (hpend (snd st)) 0 with Some k => [EURespond k len tag fb] | None => [] end
  | GRejRaw irid =>
    match index_of irid (hpend (snd st)) 0 with Some k => [EUReject k] | None => [] end
  | GExit _ => []
  end.
Definition mark_of (op : gop) : list (list N) :=
  match op with
  | GEvs _ [] => []
  | GEvs _ m => [m]
  | GExit _ => [[13; 1]]
  | _ => []
  end.

(* the call of TransportService::dial made while handling e, and its result *)
Definition dial_call (c : cfg) (st : pst * env) (e : ev) : list (list N) :=
  match e with
  | ESend p true _ _ _ => if memN p (peers (fst st)) then [] else [[11; p; dial_res c (snd st) p]]
  | _ => []
  end.

(* one harness stimulus = the model events of that stimulus in a row: outputs concatenated,
   target of the first event that has one, the dial calls, the environment's ledger *)
Fixpoint run_op (c : cfg) (st : pst * env) (g : ghost) (es : list ev)
  : (pst * env) * list out * option N * list (list N) * ghost :=
  match es with
  | [] => (fst (fst (step c st EDrain)), [], None, [], g)   (* the harness drains the command channels *)
  | e :: t => let '(st1, o, tg) := step c st e in
              let '(st2, o2, tg2, calls, g2) := run_op c st1 (gstep c e o tg g) t in
              (st2, o ++ o2, match tg with Some x => Some x | None => tg2 end, dial_call c st e ++ calls, g2)
  end.

Definition EMPTY_DUMP : list N := [0; 0; 0; 0; 0; 0; 0].

Fixpoint run_trace (c : cfg) (st : pst * env) (g : ghost) (dead : bool) (l : list gop) : list N :=
  match l with
  | [] => []
  | op :: t =>
    if dead then 0 :: 0 :: EMPTY_DUMP ++ run_trace c st g true t
    else
      let '(st1, o, tg, calls, g1) := run_op c st g (expand c st g op) in
      let exits := match op with GExit _ => true | _ => false end in
      enc_opt (match op with GFlushSoft => None | _ => tg end)
                 :: N.of_nat (length (filter printed o) + length calls + length (mark_of op))
                 :: concat (sort_by ekey (map enc_out (filter printed o) ++ calls ++ mark_of op))
                 ++ (if exits then EMPTY_DUMP else dump (fst st1)) ++ run_trace c st1 g1 exits t
  end.

Definition run_case (l : list N) : list N :=
  match decode_case l with
  | Some (c, ops) => 1 :: run_trace c (init_pst, init_env) g0 false ops
  | None => [0]
  end.

(* ---- decoding a trace ---- *)
(* count-prefixed list with a constant-time guard on the count (Wire.plist measures the rest of
   the input for every list, which is quadratic on long traces) *)
Definition plistb {A} (p : parser A) : parser (list A) :=
  fun l => match l with
           | [] => None
           | n :: t => if 100000 <? n then None else prep (N.to_nat n) p t
           end.

(* an observed event: something the model's alphabet has, a dial call, or a harness marker *)
Inductive oev :=
| VOut (o : out)
| VDial (p res : N)
| VMark (kind arg : N).     (* 12 pending | 13 1 | 99 which *)

Definition p_oev : parser oev :=
  let* k := pN in
  match k with
  | 1 => let* r := pN in pret (VOut (OSent r))
  | 2 => let* r := pN in let* l := pN in let* t := pN in pret (VOut (OResp r l t))
  | 3 => let* r := pN in let* c := pN in pret (VOut (OFail r c))
  | 4 => let* r := pN in let* p := pN in let* l := pN in let* t := pN in pret (VOut (OReq r p l t))
  | 5 => let* c := pN in let* l := pN in let* t := pN in pret (VOut (OWire c l t))
  | 7 => let* r := pN in let* ok := pBool in pret (VOut (OFeed r ok))
  | 8 => let* sid := pN in let* p := pN in pret (VOut (OOpen sid p))
  | 9 => let* r := pN in let* n := pN in pret (VOut (OFbResp r n))
  | 10 => let* r := pN in let* n := pN in pret (VOut (OFbReq r n))
  | 11 => let* q := pN in let* r := pN in pret (VDial q r)
  | 12 => let* b := pN in pret (VMark 12 b)
  | 13 => let* b := pN in pret (VMark 13 b)
  (* harness marker "the run of the event loop with capacity-1 channels saw something else than
     the run with roomy channels at this stimulus": accepted and ignored by the oracle (which
     judges the events printed); the model never prints it, so the case disagrees *)
  | 99 => let* w := pN in pret (VMark 99 w)
  | _ => pfail
  end.

(* what the oracle needs of a dump *)
Record dsum := mkD { d_peers : list N; d_pouts : list (N * N * N); d_ndials : N; d_npouts : N; d_nfuts : N;
                     d_nrd : N; d_nrs : N; d_nactive : N }.
Definition p_dump : parser dsum :=
  let* ps := plistb (let* p := pN in let* a := plistb pN in let* i := plistb pN in pret (p, N.of_nat (length a))) in
  let* ds := plistb (let* p := pN in let* r := plistb pN in pret p) in
  let* po := plistb (let* a := pN in let* b := pN in let* c := pN in pret (a, b, c)) in
  let* cs := plistb pN in
  let* nf := pN in let* nrd := pN in let* nrs := pN in
  pret (mkD (map fst ps) po (N.of_nat (length ds)) (N.of_nat (length po)) nf nrd nrs (fold_right N.add 0 (map snd ps))).
Definition d0 : dsum := mkD [] [] 0 0 0 0 0 0.

Record ostep := mkS { o_target : option N; o_evs : list oev; o_dump : dsum }.
Definition o_outs (s : ostep) : list out :=
  flat_map (fun x => match x with VOut o => [o] | _ => [] end) (o_evs s).
Definition o_calls (s : ostep) : list (N * N) :=
  flat_map (fun x => match x with VDial p r => [(p, r)] | _ => [] end) (o_evs s).
Definition p_steps (n : nat) : parser (list ostep) :=
  prep n (let* t := pN in let* o := plistb p_oev in let* d := p_dump in pret (mkS (dec_opt t) o d)).

(* ---- the oracle: the property text judged on an observed run ---- *)
Fixpoint nodup_b (l : list N) : bool :=
  match l with [] => true | x :: t => negb (memN x t) && nodup_b t end.

Definition term_ids (o : list out) : list N :=
  flat_map (fun x => match x with OResp r _ _ => [r] | OFail r _ => [r] | _ => [] end) o.
Definition sent_ids (o : list out) : list N :=
  flat_map (fun x => match x with OSent r => [r] | _ => [] end) o.
Definition resps (o : list out) : list (N * N * N) :=
  flat_map (fun x => match x with OResp r l t => [(r, l, t)] | _ => [] end) o.
Definition reqs (o : list out) : list (N * N * N) :=
  flat_map (fun x => match x with OReq r _ l t => [(r, l, t)] | _ => [] end) o.

(* the request payloads (main and fallback) of every id handed out so far: (rid, len, canonical tag) *)
Definition sent_payloads (es : list ev) (o : list out) : list (N * N * N) :=
  match find (fun e => match e with ESend _ _ _ _ _ => true | _ => false end) es with
  | Some (ESend _ _ l t fb) =>
    flat_map (fun r => (r, l, canon_tag l t) ::
                       match fb with Some (_, fl, ft) => [(r, fl, canon_tag fl ft)] | None => [] end) (sent_ids o)
  | _ => []
  end.

(* the same with the protocol name each variant goes with: (rid, name (0 = the main protocol), len, tag) *)
Definition sent_variants (es : list ev) (o : list out) : list (N * N * N * N) :=
  match find (fun e => match e with ESend _ _ _ _ _ => true | _ => false end) es with
  | Some (ESend _ _ l t fb) =>
    flat_map (fun r => (r, 0, l, canon_tag l t) ::
                       match fb with Some (fn, fl, ft) => [(r, fn, fl, canon_tag fl ft)] | None => [] end) (sent_ids o)
  | _ => []
  end.
(* the request that must go out for rid on a substream negotiated with name neg *)
Definition expected_request (spn : list (N * N * N * N)) (rid neg : N) : option (N * N) :=
  match find (fun x => (fst (fst (fst x)) =? rid) && negb (neg =? 0) && (snd (fst (fst x)) =? neg)) spn with
  | Some x => Some (snd (fst x), snd x)
  | None =>
    match find (fun x => (fst (fst (fst x)) =? rid) && (snd (fst (fst x)) =? 0)) spn with
    | Some x => Some (snd (fst x), snd x)
    | None => None
    end
  end.

(* what the oracle remembers about carriers: binds (carrier, request id, negotiated name) for the
   outbound ones, inreqs (carrier, inbound request id) for the inbound ones that delivered a
   request, supplied (inbound request id, len, tag) for the responses the user handed in *)
Record carriers := mkCar { k_binds : list (N * N * N); k_inreqs : list (N * N); k_supplied : list (N * N * N) }.

(* every frame that reached the remote end is the right one: on an outbound carrier the request
   given to send_request for the id the carrier was handed to (its fallback variant iff the
   substream was negotiated with that fallback name); on an inbound carrier the response the user
   supplied for the request that arrived on it *)
Definition frames_ok (spn : list (N * N * N * N)) (k : carriers) (o : list out) : bool :=
  forallb (fun x => match x with
                    | OWire c l t =>
                      match find (fun b => fst (fst b) =? c) (k_binds k) with
                      | Some b =>
                        match expected_request spn (snd (fst b)) (snd b) with
                        | Some (el, et) => (l =? el) && (t =? et)
                        | None => false
                        end
                      | None =>
                        match find (fun b => fst b =? c) (k_inreqs k) with
                        | Some b =>
                          match find (fun r => fst (fst r) =? snd b) (k_supplied k) with
                          | Some r => (l =? snd (fst r)) && (t =? snd r)
                          | None => false
                          end
                        | None => false
                        end
                      end
                    | _ => true end) o.

Definition wire_seen (c len tag : N) (hist : list out) : bool :=
  existsb (fun x => match x with OWire c' l t => (c' =? c) && (l =? len) && (t =? tag) | _ => false end) hist.

(* The environment's ledger (Model.gstep, the one of C13_exactly_one_contract) recomputed from what
   was OBSERVED: the stimuli, the resolved targets, the dial calls and their results (an accepted
   dial is owed an answer), the OpenSubstream commands the connections received, and the hand-over
   of a carrier to a request (the request id that pending_outbound held for the substream id, read
   from the loop's own bookkeeping before the stimulus; the carrier is the next fresh one).
   The events of a stimulus are applied in a row; what was observed is attributed to the last. *)
Fixpoint gstep_op (c : cfg) (es : list (ev * option N)) (o : list out) (g : ghost) : ghost :=
  match es with
  | [] => gstep c EDrain o None g
  | [(e, tg)] => gstep c e o tg g
  | (e, tg) :: t => gstep_op c t o (gstep c e [] tg g)
  end.

(* the events of a stimulus as far as the oracle needs them (indices into the user's pending
   responses do not matter to it) *)
Definition oexpand (c : cfg) (g : ghost) (op : gop) : list ev :=
  match op with
  | GEvs l _ => l
  | GFlush => flush_evs c g
  | GFlushSoft => map EDialFail (sort_by idN (dedup (g_dials g))) ++
                  map (fun _ => EOpenFail 0 0) (g_opens g) ++ [EAdvance (2 * tmo c + 1)]
  | GRespRaw _ len tag fb => [EURespond 0 len tag fb]
  | GRejRaw _ => [EUReject 0]
  | GExit _ => []
  end.

(* the events with the targets they resolve to, as far as the ledger needs them: the single event
   of a stimulus has the observed target; the SubstreamOpenFailures of a soft flush answer the
   opens of the ledger one by one *)
Definition otargets (g : ghost) (op : gop) (es : list ev) (tg : option N) : list (ev * option N) :=
  match op, es with
  | GFlushSoft, _ =>
    map (fun p => (EDialFail p, None)) (sort_by idN (dedup (g_dials g))) ++
    map (fun x => (EOpenFail 0 0, Some (fst x))) (g_opens g) ++
    match rev es with e :: _ => [(e, None)] | [] => [] end
  | _, [e] => [(e, tg)]
  | _, _ => map (fun e => (e, None)) es
  end.

Definition ghost_outs (es : list ev) (s : ostep) (prev : dsum) (nch : N) : list out :=
  o_outs s ++
  flat_map (fun x => if dial_accepted (snd x) then [ODial (fst x)] else []) (o_calls s) ++
  match es, o_target s with
  | [EOpened _ _ _], Some sid =>
    match find (fun x => fst (fst x) =? sid) (d_pouts prev) with
    | Some x => [OBind nch (snd x)]
    | None => []
    end
  | _, _ => []
  end.
Definition new_chans (es : list ev) (s : ostep) : N :=
  match es, o_target s with
  | [EOpened _ _ _], Some _ | [EInOpen _ _ _], Some _ => 1
  | _, _ => 0
  end.

Definition discharged_b (g : ghost) : bool :=
  match g_dials g, g_opens g with
  | [], [] => forallb (fun x => snd x <=? g_now g) (g_live g)
  | _, _ => false
  end.

(* hist: everything observed before this step; sp: request payloads by id; used: inbound
   channels that already produced a RequestReceived; g: the environment's ledger; prev: the
   bookkeeping before the stimulus; nch: carriers handed out so far; dead: the loop has ended.
   Returns the verdict on the steps and the final ledger. *)
Fixpoint steps_ok (c : cfg) (ops : list gop) (tr : list ostep)
         (hist : list out) (sp : list (N * N * N)) (used : list N)
         (g : ghost) (prev : dsum) (nch : N) (dead : bool) (cancels : list N)
         (spn : list (N * N * N * N)) (k : carriers) : bool * ghost * list N :=
  match ops, tr with
  | [], [] => (true, g, cancels)
  | op :: ops', s :: tr' =>
    if dead then
      (* nothing happens once the event loop has ended *)
      let '(b, g', cs) := steps_ok c ops' tr' hist sp used g prev nch true cancels spn k in
      (match o_evs s with [] => b | _ => false end, g', cs)
    else
    let mi := max_inb c in
    let es := oexpand c g op in
    let o := o_outs s in
    let sp' := sp ++ sent_payloads es o in
    let g' := gstep_op c (otargets g op es (o_target s)) (ghost_outs es s prev nch) g in
    let spn' := spn ++ sent_variants es o in
    let k' := mkCar
      (k_binds k ++ match es with
                    | [EOpened _ _ neg] =>
                      flat_map (fun x => match x with OBind ch rid => [(ch, rid, neg)] | _ => [] end) (ghost_outs es s prev nch)
                    | _ => [] end)
      (k_inreqs k ++ match reqs o, o_target s with (irid, _, _) :: _, Some ch => [(ch, irid)] | _, _ => [] end)
      (k_supplied k ++ match o_target s with
                       | Some irid => flat_map (fun e => match e with
                                                         | EURespond _ l t _ => [(irid, l, canon_tag l t)]
                                                         | _ => [] end) es
                       | None => [] end) in
    let ok :=
    frames_ok spn' k' o &&
    (* ledger (Proofs.inv_cov, proved for the model; re-checked here on the real bookkeeping): a
       request that is active at a peer has a substream being opened or a future in flight, so
       "nothing outstanding" implies "nothing owed" *)
    (if (d_npouts (o_dump s) =? 0) && (d_nfuts (o_dump s) =? 0) then d_nactive (o_dump s) =? 0 else true) &&
    (* a dial refused at once — whatever the ImmediateDialError — fails its request in the same
       step, naming the error: as many RequestFailed(DialFailed(Some(e))) for fresh ids as refusals *)
    forallb (fun x => dial_accepted (snd x) ||
                      (N.of_nat (length (filter (fun y => snd y =? snd x) (filter (fun y => negb (dial_accepted (snd y))) (o_calls s))))
                       <=? N.of_nat (length (filter (fun y => match y with
                                                    | OFail r code => (code =? E_DIAL_IMM (snd x)) && memN r (sent_ids o)
                                                    | _ => false end) o)))) (o_calls s) &&
    (* feedback: () is sent only when the response frame went out in the same step, and only for
       a send_response_with_feedback *)
    forallb (fun x => match x with
                      | OFeed _ true => existsb (fun y => match y with OWire _ _ _ => true | _ => false end) o
                      | _ => true end) o &&
    (if existsb (fun x => match x with OFeed _ _ => true | _ => false end) o
     then existsb (fun e => match e with EURespond _ _ _ _ | EUnblock _ | EBreakW _ | EAdvance _ => true | _ => false end) es
     else true) &&
    (* inbound bound *)
    match mi with Some m => d_nrd (o_dump s) + d_nrs (o_dump s) <=? m | None => true end &&
    (* every terminal event answers an id that was handed out *)
    forallb (fun r => existsb (fun x => fst (fst x) =? r) sp') (term_ids o) &&
    (* a response is what the responder supplied, on the substream that carried this request
       (its main or its fallback variant) *)
    match resps o with
    | [] => true
    | [(r, l, t)] =>
      match o_target s with
      | Some ch =>
        existsb (fun e => match e with
                          | ERespond _ l' t' => (l =? l') && (t =? canon_tag l' t')
                          | _ => false end) es &&
        existsb (fun x => (fst (fst x) =? r) && wire_seen ch (snd (fst x)) (snd x) hist) sp'
      | None => false
      end
    | _ => false
    end &&
    (* the responder sees a request once per inbound substream, with the bytes that were sent *)
    match reqs o with
    | [] => true
    | [(_, l, t)] =>
      match o_target s with
      | Some ch =>
        existsb (fun e => match e with
                          | EInReq _ l' t' => (l =? l') && (t =? canon_tag l' t')
                          | _ => false end) es && negb (memN ch used)
      | None => false
      end
    | _ => false
    end in
    let exits := match op with GExit _ => true | _ => false end in
    let '(b, gf, cs) :=
        steps_ok c ops' tr' (hist ++ o) sp'
                 (match reqs o, o_target s with _ :: _, Some ch => ch :: used | _, _ => used end)
                 g' (o_dump s) (nch + new_chans es s) exits
                 (cancels ++ flat_map (fun e => match e with ECancel r => [r] | _ => [] end) es) spn' k' in
    (ok && b, gf, cs)
  | _, _ => (false, g, cancels)
  end.

Definition final_quiescent (tr : list ostep) : bool :=
  match rev tr with
  | [] => true
  | s :: _ => (d_ndials (o_dump s) =? 0) && (d_npouts (o_dump s) =? 0) && (d_nfuts (o_dump s) =? 0)
  end.
Definition exited (ops : list gop) : bool :=
  existsb (fun op => match op with GExit _ => true | _ => false end) ops.

Definition prop_ok (case trace : list N) : bool :=
  match decode_case case, trace with
  | Some (c, ops), 1 :: body =>
    match pall (p_steps (length ops)) body with
    | Some tr =>
      let all := flat_map o_outs tr in
      let '(ok, gf, cancels) := steps_ok c ops tr [] [] [] g0 d0 0 false [] [] (mkCar [] [] []) in
      let answered := forallb (fun r => memN r (term_ids all) || memN r cancels) (sent_ids all) in
      (* at most one terminal event per request id *)
      nodup_b (term_ids all) && ok &&
      (* exactly one, unless the user cancelled the request (or ended the loop):
         once the protocol's own books say that nothing is outstanding ... *)
      (if final_quiescent tr && negb (exited ops) then answered else true) &&
      (* ... and once the ENVIRONMENT has discharged everything it owes (C13_exactly_one_contract:
         every accepted dial answered, every accepted open_substream answered or its connection
         closed, every carrier's deadline passed) — whatever the protocol's books say *)
      (if discharged_b gf && negb (exited ops) then answered else true)
    | None => false
    end
  | None, [0] => true
  | _, _ => false
  end.

(* No known-finding classes for C13 (F-C13a is repaired by a fix: commit): every failing case is a violation. *)
Definition known_class (case trace : list N) : N := 0.
