(* C13 — executable model of litep2p's request-response protocol
   (src/protocol/request_response/mod.rs, handle.rs).  Definitions only; proofs are in Proofs.v.

   The event loop of RequestResponseProtocol is a labelled transition system with atomic
   handlers: one loop iteration handles one event to completion.  A model step is one external
   stimulus (user command, transport-service event, byte-carrier event of the remote side, clock
   advance) followed by the loop iterations that become ready because of it, so that every
   in-flight future is blocked again when the step ends.

   Representation choices (all diffed against the real bookkeeping by the harness):
   - peers, request ids, substream ids, channel (substream carrier) ids are numbers;
   - `peers: HashMap<PeerId, PeerContext{active, active_inbound}>` is the list `peers` of
     connected peers plus the flat lists `active` / `inb` of (peer, request id) pairs;
   - `pending_dials: HashMap<PeerId, Vec<RequestContext>>` (after the fix of F-C13a) is the flat
     list `dials` of (peer, request) in arrival order;
   - payloads are (length, tag): the harness uses the byte pattern tag, tag+1, ... of that length;
   - the per-request future is the little state machine Sending (f_wait = false) -> Waiting
     (f_wait = true) -> done, with the cancel signal latched in f_cancel;
   - `pending_outbound_cancels` is derived: the ids of the futures whose cancel signal has not
     been used;
   - time is a logical clock in milliseconds. *)
From Coq Require Import List NArith Bool.
From V.common Require Import Wire.   (* sort_by *)
Import ListNotations.
Open Scope N_scope.

Record cfg := mkCfg {
  max_inb : option N;     (* max_concurrent_inbound_requests *)
  ndial : N;              (* initially the transport manager knows an address of peers 0..ndial-1 (disconnected);
                             the other peers are unknown to it *)
  max_size : N;           (* codec: UnsignedVarint(Some(max_size)) *)
  tmo : N;                (* request timeout, ms *)
  selfp : bool            (* peer SELF_PEER is the local peer id: dial() fails with TriedToDialSelf *)
}.
Definition SELF_PEER : N := 3.

(* q_fb: the alternative request (fallback protocol name, length, tag) of send_request_with_fallback *)
Record req := mkReq { q_rid : N; q_len : N; q_tag : N; q_fb : option (N * N * N) }.
Record pout := mkPo { po_sid : N; po_peer : N; po_req : req }.
Record fut := mkFut {
  f_peer : N; f_req : req; f_chan : N;
  f_wait : bool;          (* false: sending the request; true: waiting for the response *)
  f_dl : N;               (* deadline of the current phase *)
  f_cancel : bool;        (* cancel signal sent, not yet looked at *)
  f_neg : N               (* fallback name the substream was negotiated with (0 = the main protocol) *)
}.
Record rdr := mkRd { r_peer : N; r_irid : N; r_chan : N; r_neg : N (* negotiated fallback name, 0 = none *) }.
Record rsp := mkRs { s_irid : N; s_chan : N; s_w : option (N * N * N) (* len, tag, deadline *);
                     s_fb : bool (* send_response_with_feedback *) }.

(* protocol state *)
Record pst := mkP {
  peers : list N;
  active : list (N * N);        (* (peer, request id): peers[peer].active *)
  inb : list (N * N);           (* (peer, inbound request id): peers[peer].active_inbound *)
  dials : list (N * req);       (* pending_dials *)
  pouts : list pout;            (* pending_outbound *)
  futs : list fut;              (* pending_inbound: in-flight request futures *)
  rdrs : list rdr;              (* pending_inbound_requests *)
  rsps : list rsp;              (* pending_outbound_responses *)
  next_rid : N                  (* shared request id allocator *)
}.

Definition init_pst : pst := mkP [] [] [] [] [] [] [] [] 0.

Definition set_peers s v := mkP v (active s) (inb s) (dials s) (pouts s) (futs s) (rdrs s) (rsps s) (next_rid s).
Definition set_active s v := mkP (peers s) v (inb s) (dials s) (pouts s) (futs s) (rdrs s) (rsps s) (next_rid s).
Definition set_inb s v := mkP (peers s) (active s) v (dials s) (pouts s) (futs s) (rdrs s) (rsps s) (next_rid s).
Definition set_dials s v := mkP (peers s) (active s) (inb s) v (pouts s) (futs s) (rdrs s) (rsps s) (next_rid s).
Definition set_pouts s v := mkP (peers s) (active s) (inb s) (dials s) v (futs s) (rdrs s) (rsps s) (next_rid s).
Definition set_futs s v := mkP (peers s) (active s) (inb s) (dials s) (pouts s) v (rdrs s) (rsps s) (next_rid s).
Definition set_rdrs s v := mkP (peers s) (active s) (inb s) (dials s) (pouts s) (futs s) v (rsps s) (next_rid s).
Definition set_rsps s v := mkP (peers s) (active s) (inb s) (dials s) (pouts s) (futs s) (rdrs s) v (next_rid s).
Definition set_next_rid s v := mkP (peers s) (active s) (inb s) (dials s) (pouts s) (futs s) (rdrs s) (rsps s) v.

(* what the user / the remote side can observe *)
Inductive out :=
| OSent (rid : N)                       (* id returned by send_request *)
| OResp (rid len tag : N)               (* RequestResponseEvent::ResponseReceived *)
| OFail (rid code : N)                  (* RequestResponseEvent::RequestFailed *)
| OReq (irid peer len tag : N)          (* RequestResponseEvent::RequestReceived *)
| OWire (chan len tag : N)              (* a whole request frame arrived at the remote end of an outbound carrier *)
| OWireR (chan len tag : N)             (* a whole response frame arrived at the remote end of an inbound carrier *)
| OFeed (irid : N) (ok : bool)          (* feedback channel of send_response_with_feedback: () / dropped *)
| OBind (chan rid : N)                  (* ghost (not printed): on_outbound_substream handed carrier
                                           chan to the future of request rid *)
| ODial (p : N)                         (* ghost (not printed): TransportService::dial(p) was called and accepted *)
| OOpen (sid p : N)                     (* TransportService::open_substream(p) returned substream id sid
                                           (seen by the connection as an OpenSubstream command) *)
| OFbResp (rid name : N)                (* the ResponseReceived of rid names fallback protocol `name` *)
| OFbReq (irid name : N).               (* the RequestReceived of irid names fallback protocol `name` *)

(* error codes of RequestFailed *)
Definition E_CONN_CLOSED : N := 0.      (* Rejected(ConnectionClosed) *)
Definition E_SUB_CLOSED : N := 1.       (* Rejected(SubstreamClosed) *)
Definition E_DIAL_FAILED : N := 2.      (* Rejected(DialFailed(None)) *)
Definition E_DIAL_IMMEDIATE : N := 3.   (* Rejected(DialFailed(Some(_))), before round 4; now E_DIAL_IMM r *)
Definition E_SUBSTREAM : N := 4.        (* Rejected(SubstreamOpenError(_)) *)
Definition E_CANCELED : N := 5.         (* Canceled (never reported) *)
Definition E_TIMEOUT : N := 6.
Definition E_NOT_CONNECTED : N := 7.
Definition E_TOO_LARGE : N := 8.
Definition E_UNSUPPORTED : N := 9.

(* Every result of TransportService::dial(peer) (= TransportManagerHandle::dial).  Ok(()) comes in
   two flavours the protocol cannot tell apart: a DialPeer command was sent to the manager, or a
   dial of that peer was already in progress.  The errors are the variants of ImmediateDialError
   (src/error.rs); PeerIdMissing is only ever produced by dial_address but has a code all the same. *)
Definition D_OK : N := 0.            (* Ok(()): DialPeer command queued *)
Definition D_INPROGRESS : N := 1.    (* Ok(()): Dialing / Opening / Disconnected with a dial record *)
Definition D_SELF : N := 2.          (* TriedToDialSelf *)
Definition D_CONNECTED : N := 3.     (* AlreadyConnected *)
Definition D_NOADDR : N := 4.        (* NoAddressAvailable *)
Definition D_TASKCLOSED : N := 5.    (* TaskClosed *)
Definition D_CLOGGED : N := 6.       (* ChannelClogged *)
Definition D_NOPEERID : N := 7.      (* PeerIdMissing *)
Definition dial_accepted (r : N) : bool := r <? 2.
(* RequestFailed code of Rejected(DialFailed(Some(variant))) *)
Definition E_DIAL_IMM (r : N) : N := 10 + r.

Definition memN (x : N) (l : list N) : bool := existsb (N.eqb x) l.
Definition pair_eqb (a b : N * N) : bool := (fst a =? fst b) && (snd a =? snd b).
Definition memP (x : N * N) (l : list (N * N)) : bool := existsb (pair_eqb x) l.
Definition removeP (x : N * N) (l : list (N * N)) : list (N * N) :=
  filter (fun y => negb (pair_eqb x y)) l.

(* result of a finished request future *)
Inductive fres := ROk (len tag : N) | RErr (code : N).

(* ------------------------------------------------------------------ outbound side *)

(* handle_user_command(SendRequest) after RequestResponseHandle::send_request allocated the id.
   open_ok / sid: result of TransportService::open_substream; dres: result of dial() (D_* above),
   an arbitrary choice of the environment. *)
Definition h_send (s : pst) (p : N) (dial : bool) (len tag : N) (fb : option (N * N * N))
           (open_ok : bool) (dres : N) (sid : N)
  : pst * list out :=
  let rid := next_rid s in
  let q := mkReq rid len tag fb in
  let s := set_next_rid s (rid + 1) in
  if memN p (peers s) then
    if open_ok then
      (set_pouts (set_active s (active s ++ [(p, rid)])) (pouts s ++ [mkPo sid p q]), [OSent rid; OOpen sid p])
    else (s, [OSent rid; OFail rid E_SUBSTREAM])
  else if negb dial then (s, [OSent rid; OFail rid E_NOT_CONNECTED])
  else if dial_accepted dres then (set_dials s (dials s ++ [(p, q)]), [OSent rid; ODial p])
  else (s, [OSent rid; OFail rid (E_DIAL_IMM dres)]).

(* RequestResponseHandle::try_send_request drew a request id but the command channel was full
   (ChannelClogged): the id is gone, nothing was handed to the protocol *)
Definition h_burn (s : pst) : pst * list out := (set_next_rid s (next_rid s + 1), []).

(* The handler as it was before the repair of F-C13a (pending_dials.insert(peer, ctx) overwrote the
   entry of a peer that was already being dialed). Used only by the refutation witness in
   Properties.v; the model proper uses h_send. *)
Definition h_send_unrepaired (s : pst) (p : N) (dial : bool) (len tag : N) (open_ok dial_ok : bool) (sid : N)
  : pst * list out :=
  let rid := next_rid s in
  let q := mkReq rid len tag None in
  let s := set_next_rid s (rid + 1) in
  if memN p (peers s) then
    if open_ok then
      (set_pouts (set_active s (active s ++ [(p, rid)])) (pouts s ++ [mkPo sid p q]), [OSent rid])
    else (s, [OSent rid; OFail rid E_SUBSTREAM])
  else if negb dial then (s, [OSent rid; OFail rid E_NOT_CONNECTED])
  else if dial_ok then (set_dials s (filter (fun d => negb (fst d =? p)) (dials s) ++ [(p, q)]), [OSent rid])
  else (s, [OSent rid; OFail rid E_DIAL_IMMEDIATE]).

Fixpoint number_pouts (p : N) (sid : N) (l : list (N * req)) : list pout :=
  match l with
  | [] => []
  | (_, q) :: t => mkPo sid p q :: number_pouts p (sid + 1) t
  end.

(* on_connection_established: every request waiting for the dial gets a substream (repaired
   code; the unrepaired code kept only the last one).  open_substream is attempted for each
   queued request in order; nok = how many of these attempts succeed (the connection's command
   channel accepts the first nok commands, the rest fail with ChannelClogged / ConnectionClosed).
   A request enters the peer's active set only when its substream is being opened; the peer is
   registered unless every attempt failed. *)
Definition h_established (s : pst) (p : N) (nok : nat) (sid0 : N) : pst * list out :=
  if memN p (peers s) then (s, []) else
  let mine := filter (fun d => fst d =? p) (dials s) in
  let s := set_dials s (filter (fun d => negb (fst d =? p)) (dials s)) in
  match mine with
  | [] => (set_peers s (peers s ++ [p]), [])
  | _ =>
    let bad := map (fun d => OFail (q_rid (snd d)) E_SUBSTREAM) (skipn nok mine) in
    match firstn nok mine with
    | [] => (s, bad)
    | okl =>
      (set_pouts (set_active (set_peers s (peers s ++ [p]))
                    (active s ++ map (fun d => (p, q_rid (snd d))) okl))
                 (pouts s ++ number_pouts p sid0 okl),
       bad ++ map (fun po => OOpen (po_sid po) p) (number_pouts p sid0 okl))
    end
  end.

(* how many open_substream calls succeed when a connection is reported: none on a dead command
   channel, all on a roomy one (cap = 0), otherwise as many as the channel has room for *)
Definition est_nok (broken : bool) (cap : N) (n : nat) : nat :=
  if broken then O else if cap =? 0 then n else N.to_nat cap.

(* on_connection_closed *)
Definition h_closed (s : pst) (p : N) : pst * list out :=
  let s := set_pouts s (filter (fun po => negb (po_peer po =? p)) (pouts s)) in
  if memN p (peers s) then
    (set_inb (set_active (set_peers s (filter (fun x => negb (x =? p)) (peers s)))
                (filter (fun a => negb (fst a =? p)) (active s)))
       (filter (fun a => negb (fst a =? p)) (inb s)),
     map (fun a => OFail (snd a) E_CONN_CLOSED) (filter (fun a => fst a =? p) (active s)))
  else (s, []).

(* on_dial_failure *)
Definition h_dialfail (s : pst) (p : N) : pst * list out :=
  (set_dials s (filter (fun d => negb (fst d =? p)) (dials s)),
   map (fun d => OFail (q_rid (snd d)) E_DIAL_FAILED) (filter (fun d => fst d =? p) (dials s))).

Definition find_po (sid : N) (l : list pout) : option pout := find (fun po => po_sid po =? sid) l.
(* HashMap::remove of the entry that was found: request ids are unique among the entries *)
Definition drop_po (po : pout) (l : list pout) : list pout :=
  filter (fun x => negb (q_rid (po_req x) =? q_rid (po_req po))) l.

(* on_substream_open_failure *)
(* the error of the SubstreamOpenFailure (the kinds of the hook verif_open_failure_error, listed in
   Tables.open_failure_kinds): 1 = multistream-select says the protocol is not supported
   (UnsupportedProtocol); 2, 10, 11, 12 = the four shapes of an i/o error of kind NotConnected that
   RejectReason::from turns into Rejected(ConnectionClosed); every other substream error, including
   the same shapes with another i/o error kind, is Rejected(SubstreamOpenError(_)) *)
Definition openfail_code (kind : N) : N :=
  match kind with 1 => E_UNSUPPORTED | 2 | 10 | 11 | 12 => E_CONN_CLOSED | _ => E_SUBSTREAM end.
Definition h_openfail (s : pst) (sid : N) (unsupported : N) : pst * list out :=
  match find_po sid (pouts s) with
  | None => (s, [])
  | Some po =>
    let rid := q_rid (po_req po) in
    (set_active (set_pouts s (drop_po po (pouts s))) (removeP (po_peer po, rid) (active s)),
     [OFail rid (openfail_code unsupported)])
  end.

(* on_substream_event: the verdict of a request future reaches the user only while the request
   is still in the peer's active set; Canceled is swallowed. *)
Definition verdict (rid : N) (r : fres) : list out :=
  match r with
  | ROk len tag => [OResp rid len tag]
  | RErr code => if code =? E_CANCELED then [] else [OFail rid code]
  end.

Definition settle (s : pst) (p rid : N) (r : fres) : pst * list out :=
  if memN p (peers s) && memP (p, rid) (active s) then
    (set_active s (removeP (p, rid) (active s)), verdict rid r)
  else (s, []).

(* the finished future leaves FuturesUnordered: request ids are unique among the futures *)
Definition drop_fut (f : fut) (l : list fut) : list fut :=
  filter (fun g => negb (q_rid (f_req g) =? q_rid (f_req f))) l.

(* a request future finishes: it leaves pending_inbound, then on_substream_event *)
Definition complete (s : pst) (f : fut) (r : fres) : pst * list out :=
  settle (set_futs s (drop_fut f (futs s))) (f_peer f) (q_rid (f_req f)) r.

(* on_outbound_substream on carrier c, followed by the first poll of the new future.
   gate: 0 = the carrier does not accept bytes yet, 1 = it does, 2 = writing fails. *)
(* on_outbound_substream picks the fallback request when the substream was negotiated with the
   fallback name given to send_request_with_fallback *)
Definition chosen (q : req) (neg : N) : N * N :=
  match q_fb q with
  | Some (name, l, t) => if negb (neg =? 0) && (name =? neg) then (l, t) else (q_len q, q_tag q)
  | None => (q_len q, q_tag q)
  end.

Definition opened_body (cf : cfg) (s : pst) (po : pout) (c gate now neg : N) : pst * list out :=
  let s := set_pouts s (drop_po po (pouts s)) in
  let q0 := po_req po in
  let q := mkReq (q_rid q0) (fst (chosen q0 neg)) (snd (chosen q0 neg)) (q_fb q0) in
  let p := po_peer po in
  if max_size cf <? q_len q then settle s p (q_rid q) (RErr E_TOO_LARGE)
  else match gate with
       | 0 => (set_futs s (futs s ++ [mkFut p q c false (now + tmo cf) false neg]), [])
       | 1 => (set_futs s (futs s ++ [mkFut p q c true (now + tmo cf) false neg]),
               [OWire c (q_len q) (q_tag q)])
       | _ => settle s p (q_rid q) (RErr E_SUBSTREAM)
       end.

Definition h_opened (cf : cfg) (s : pst) (sid c gate now neg : N) : pst * list out :=
  match find_po sid (pouts s) with
  | None => (s, [])
  | Some po =>
    let '(s1, o) := opened_body cf s po c gate now neg in
    (s1, OBind c (q_rid (po_req po)) :: o)
  end.

Definition find_fut (c : N) (l : list fut) : option fut := find (fun f => f_chan f =? c) l.
(* the future on carrier c finished sending and now waits until dl *)
Definition to_wait (c dl : N) (l : list fut) : list fut :=
  map (fun f => if f_chan f =? c then mkFut (f_peer f) (f_req f) (f_chan f) true dl false (f_neg f) else f) l.
(* the cancel signal for the future of request rid is latched *)
Definition mark_cancel (rid : N) (l : list fut) : list fut :=
  map (fun f => if q_rid (f_req f) =? rid then mkFut (f_peer f) (f_req f) (f_chan f) (f_wait f) (f_dl f) true (f_neg f) else f) l.

(* the carrier starts accepting bytes *)
Definition fut_unblock (cf : cfg) (s : pst) (c now : N) : pst * list out :=
  match find_fut c (futs s) with
  | Some f =>
    if f_wait f then (s, []) else
    let w := OWire c (q_len (f_req f)) (q_tag (f_req f)) in
    if f_cancel f then let '(s1, o) := complete s f (RErr E_CANCELED) in (s1, w :: o)
    else (set_futs s (to_wait c (now + tmo cf) (futs s)), [w])
  | None => (s, [])
  end.

(* writing on the carrier fails *)
Definition fut_breakw (s : pst) (c : N) : pst * list out :=
  match find_fut c (futs s) with
  | Some f => if f_wait f then (s, []) else complete s f (RErr E_SUBSTREAM)
  | None => (s, [])
  end.

(* something arrives on the read side of an outbound carrier *)
(* ResponseReceived carries the fallback name the substream was negotiated with *)
Definition fb_resp (f : fut) (o : list out) : list out :=
  if f_neg f =? 0 then []
  else flat_map (fun x => match x with OResp rid _ _ => [OFbResp rid (f_neg f)] | _ => [] end) o.

Definition fut_read (s : pst) (c : N) (r : fres) : pst * list out :=
  match find_fut c (futs s) with
  | Some f => if f_wait f then let '(s1, o) := complete s f r in (s1, o ++ fb_resp f o) else (s, [])
  | None => (s, [])
  end.

Fixpoint complete_all (s : pst) (l : list fut) (r : fres) : pst * list out :=
  match l with
  | [] => (s, [])
  | f :: t => let '(s1, o1) := complete s f r in
              let '(s2, o2) := complete_all s1 t r in (s2, o1 ++ o2)
  end.

(* the clock reaches `now`: every future whose deadline passed times out *)
Definition fut_advance (s : pst) (now : N) : pst * list out :=
  complete_all s (filter (fun f => f_dl f <=? now) (futs s)) (RErr E_TIMEOUT).

(* on_cancel_request *)
Definition h_cancel (s : pst) (rid : N) : pst * list out :=
  match find (fun f => (q_rid (f_req f) =? rid) && negb (f_cancel f)) (futs s) with
  | Some f =>
    if f_wait f then complete s f (RErr E_CANCELED)
    else (set_futs s (mark_cancel rid (futs s)), [])
  | None => (s, [])
  end.

(* ------------------------------------------------------------------ inbound side *)

Definition inbound_load (s : pst) : N := N.of_nat (length (rdrs s)) + N.of_nat (length (rsps s)).

(* on_inbound_substream *)
Definition h_inopen (cf : cfg) (s : pst) (p c neg : N) : pst * list out :=
  let full := match max_inb cf with Some m => m <=? inbound_load s | None => false end in
  if full then (s, []) else
  let irid := next_rid s in
  let s := set_next_rid s (irid + 1) in
  if memN p (peers s) then
    (set_rdrs (set_inb s (inb s ++ [(p, irid)])) (rdrs s ++ [mkRd p irid c neg]), [])
  else (s, []).

Definition find_rd (c : N) (l : list rdr) : option rdr := find (fun r => r_chan r =? c) l.
Definition drop_rd (c : N) (l : list rdr) : list rdr := filter (fun r => negb (r_chan r =? c)) l.

(* the reader future finishes and on_inbound_request runs; good = a whole request frame *)
Definition h_inread (s : pst) (c : N) (good : bool) (len tag : N) : pst * list out :=
  match find_rd c (rdrs s) with
  | None => (s, [])
  | Some r =>
    let s := set_rdrs s (drop_rd c (rdrs s)) in
    let key := (r_peer r, r_irid r) in
    if memN (r_peer r) (peers s) && memP key (inb s) then
      let s := set_inb s (removeP key (inb s)) in
      if good then (set_rsps s (rsps s ++ [mkRs (r_irid r) c None false]),
                    OReq (r_irid r) (r_peer r) len tag ::
                    (if r_neg r =? 0 then [] else [OFbReq (r_irid r) (r_neg r)]))
      else (s, [])
    else (s, [])
  end.

Definition find_rs (irid : N) (l : list rsp) : option rsp := find (fun r => s_irid r =? irid) l.
Definition drop_rs (irid : N) (l : list rsp) : list rsp := filter (fun r => negb (s_irid r =? irid)) l.

(* what the feedback receiver of send_response_with_feedback sees when the response future ends *)
Definition feed (fb : bool) (irid : N) (ok : bool) : list out := if fb then [OFeed irid ok] else [].

(* send_response / send_response_with_feedback: the response future writes the frame (or gives up) *)
Definition h_uresp (cf : cfg) (s : pst) (irid len tag : N) (fb : bool) (gate now : N) : pst * list out :=
  match find_rs irid (rsps s) with
  | None => (s, [])
  | Some r =>
    match s_w r with
    | Some _ => (s, [])
    | None =>
      if max_size cf <? len then (set_rsps s (drop_rs irid (rsps s)), feed fb irid false)
      else match gate with
           | 0 => (set_rsps s (map (fun x => if s_irid x =? irid
                                             then mkRs irid (s_chan r) (Some (len, tag, now + tmo cf)) fb else x)
                                   (rsps s)), [])
           | 1 => (set_rsps s (drop_rs irid (rsps s)), OWireR (s_chan r) len tag :: feed fb irid true)
           | _ => (set_rsps s (drop_rs irid (rsps s)), feed fb irid false)
           end
    end
  end.

(* reject_request *)
Definition h_urej (s : pst) (irid : N) : pst * list out :=
  (set_rsps s (drop_rs irid (rsps s)), []).

(* a blocked response write gets through (ok) or fails *)
Definition rsp_gate (s : pst) (c : N) (ok : bool) : pst * list out :=
  match find (fun r => s_chan r =? c) (rsps s) with
  | Some r =>
    match s_w r with
    | Some (len, tag, _) =>
      (set_rsps s (drop_rs (s_irid r) (rsps s)),
       (if ok then [OWireR c len tag] else []) ++ feed (s_fb r) (s_irid r) ok)
    | None => (s, [])
    end
  | None => (s, [])
  end.

Definition rsp_advance (s : pst) (now : N) : pst :=
  set_rsps s (filter (fun r => match s_w r with Some (_, _, dl) => negb (dl <=? now) | None => true end) (rsps s)).
(* the writes that time out drop their feedback sender *)
Definition rsp_advance_out (s : pst) (now : N) : list out :=
  flat_map (fun r => match s_w r with
                     | Some (_, _, dl) => if dl <=? now then feed (s_fb r) (s_irid r) false else []
                     | None => [] end) (rsps s).

(* ------------------------------------------------------------------ environment *)

Record chan := mkCh { c_gate : N; c_seen : bool; c_out : bool }.

(* mgr: the transport manager is alive (else dial() fails with TaskClosed);
   caps: capacity of each scripted connection's command channel (0 = roomy);
   cused: one entry per OpenSubstream command that sits in a connection's command channel
          (the transport reads them only after the protocol has run: EDrain) *)
(* a_view: what the transport manager believes about a peer, when it differs from the initial
          belief (it lags behind or runs ahead of what the protocol was told): 0 unknown peer,
          1 disconnected with an address, 2 connected, 3 dialing, 4 disconnected with an empty
          address store, 5 disconnected with a dial record, 6 opening;
   a_clog: the command channel to the manager is full *)
Record aux := mkAux { a_mgr : bool; a_caps : list (N * N); a_cused : list N;
                      a_view : list (N * N); a_clog : bool }.

Record env := mkE {
  aux_of : aux;
  next_sid : N;
  conns : list (N * bool);      (* scripted connections: (peer, command channel still read) *)
  opens : list (N * N);         (* substream-open commands not answered yet: (sid, peer) *)
  chans : list chan;            (* carriers, index = channel id *)
  now : N;
  hpend : list N                (* RequestResponseHandle::pending_responses *)
}.

Definition init_env : env := mkE (mkAux true [] [] [] false) 0 [] [] [] 0 [].
Definition mgr (e : env) : bool := a_mgr (aux_of e).

Definition conn_of (p : N) (e : env) : option bool :=
  match find (fun x => fst x =? p) (conns e) with Some x => Some (snd x) | None => None end.
Definition cap_of (p : N) (e : env) : N :=
  match find (fun x => fst x =? p) (a_caps (aux_of e)) with Some x => snd x | None => 0 end.
(* open_substream succeeds: the connection reads commands and its channel has room *)
Definition open_ok (p : N) (e : env) : bool :=
  match conn_of p e with
  | Some ok => ok && ((cap_of p e =? 0) ||
                      (N.of_nat (length (filter (N.eqb p) (a_cused (aux_of e)))) <? cap_of p e))
  | None => false
  end.
(* the manager's belief about peer p *)
Definition mview (cf : cfg) (e : env) (p : N) : N :=
  match find (fun x => fst x =? p) (a_view (aux_of e)) with
  | Some x => snd x
  | None => if p <? ndial cf then 1 else 0
  end.
(* TransportManagerHandle::dial, in the order of its checks *)
Definition dial_res (cf : cfg) (e : env) (p : N) : N :=
  if selfp cf && (p =? SELF_PEER) then D_SELF
  else match mview cf e p with
       | 0 => D_NOADDR
       | 2 => D_CONNECTED
       | 3 | 5 | 6 => D_INPROGRESS
       | 4 => D_NOADDR
       | _ => if negb (mgr e) then D_TASKCLOSED else if a_clog (aux_of e) then D_CLOGGED else D_OK
       end.
Definition with_aux (e : env) (a : aux) : env :=
  mkE a (next_sid e) (conns e) (opens e) (chans e) (now e) (hpend e).

Definition nth_mod {A} (k : N) (l : list A) : option A :=
  match l with
  | [] => None
  | _ => nth_error l (N.to_nat (k mod N.of_nat (length l)))
  end.

Definition set_chan (c : N) (ch : chan) (l : list chan) : list chan :=
  firstn (N.to_nat c) l ++ [ch] ++ skipn (S (N.to_nat c)) l.

Inductive ev :=
| ESend (p : N) (dial : bool) (len tag : N) (fb : option (N * N * N))
| ECancel (rid : N)
| EEstablished (p : N) (broken : bool) (cap : N)
| EClosed (p : N)
| EDialFail (p : N)
| EOpened (k gate neg : N)
| EOpenFail (k : N) (unsupported : N)
| EUnblock (k : N)
| EBreakW (k : N)
| ERespond (k len tag : N)
| EEof (k : N)
| EErr (k : N)
| EAdvance (dt : N)
| EInOpen (p gate neg : N)
| EInReq (k len tag : N)
| EURespond (k len tag : N) (fb : bool)
| EUReject (k : N)
| EBreakConn (p : N)
| EBurn
| EDropManager
| EMgrPeer (p v : N)   (* the manager's belief about peer p becomes v *)
| EClog (b : bool)     (* the command channel to the manager fills up / is emptied *)
| EDrain.              (* the scripted connections read their command channels *)

Definition sent_of (o : list out) : list N :=
  flat_map (fun x => match x with OReq irid _ _ _ => [irid] | _ => [] end) o.

(* One step.  The third component is the resolved target (channel / substream / inbound request
   id) of the stimulus, if it has one: an echo of environment bookkeeping for the oracle. *)
Definition step (cf : cfg) (st : pst * env) (e : ev) : (pst * env) * list out * option N :=
  let '(s, en) := st in
  match e with
  | ESend p dial len tag fb =>
    let connected := memN p (peers s) in
    let ok := open_ok p en in
    let '(s1, o) := h_send s p dial len tag fb ok (dial_res cf en p) (next_sid en) in
    (* open_substream draws a substream id before it talks to the connection *)
    let en1 := if connected
               then match conn_of p en with
                    | Some _ =>
                      if ok then mkE (mkAux (mgr en) (a_caps (aux_of en)) (a_cused (aux_of en) ++ [p]) (a_view (aux_of en)) (a_clog (aux_of en)))
                                     (next_sid en + 1) (conns en) (opens en ++ [(next_sid en, p)]) (chans en) (now en) (hpend en)
                      else mkE (aux_of en) (next_sid en + 1) (conns en) (opens en) (chans en) (now en) (hpend en)
                    | None => en
                    end
               else en in
    (s1, en1, o, None)
  | ECancel rid =>
    let '(s1, o) := h_cancel s rid in (s1, en, o, None)
  | EEstablished p broken cap =>
    match conn_of p en with
    | Some _ => (s, en, [], None)
    | None =>
      let mine := filter (fun d => fst d =? p) (dials s) in
      let tried := if memN p (peers s) then [] else mine in
      let nok := est_nok broken cap (length mine) in
      let opened := firstn nok tried in
      let '(s1, o) := h_established s p nok (next_sid en) in
      (* every attempt draws a substream id, also the failing ones *)
      let en1 := mkE (mkAux (mgr en) (filter (fun x => negb (fst x =? p)) (a_caps (aux_of en)) ++ [(p, cap)])
                            (a_cused (aux_of en) ++ map (fun _ => p) opened) (a_view (aux_of en)) (a_clog (aux_of en)))
                     (next_sid en + N.of_nat (length tried)) (conns en ++ [(p, negb broken)])
                     (opens en ++ map (fun po => (po_sid po, p)) (number_pouts p (next_sid en) opened))
                     (chans en) (now en) (hpend en) in
      (s1, en1, o, None)
    end
  | EClosed p =>
    match conn_of p en with
    | None => (s, en, [], None)
    | Some _ =>
      let '(s1, o) := h_closed s p in
      let en1 := mkE (aux_of en) (next_sid en) (filter (fun x => negb (fst x =? p)) (conns en))
                     (filter (fun x => negb (snd x =? p)) (opens en)) (chans en) (now en) (hpend en) in
      (s1, en1, o, None)
    end
  | EDialFail p =>
    let '(s1, o) := h_dialfail s p in (s1, en, o, None)
  | EOpened k gate neg =>
    match nth_mod k (opens en) with
    | None => (s, en, [], None)
    | Some (sid, _) =>
      let c := N.of_nat (length (chans en)) in
      let g := N.min gate 2 in
      let '(s1, o) := h_opened cf s sid c g (now en) neg in
      let seen := existsb (fun x => match x with OWire _ _ _ => true | _ => false end) o in
      let en1 := mkE (aux_of en) (next_sid en) (conns en) (filter (fun x => negb (fst x =? sid)) (opens en))
                     (chans en ++ [mkCh g seen true]) (now en) (hpend en) in
      (s1, en1, o, Some sid)
    end
  | EOpenFail k unsupported =>
    match nth_mod k (opens en) with
    | None => (s, en, [], None)
    | Some (sid, _) =>
      let '(s1, o) := h_openfail s sid unsupported in
      let en1 := mkE (aux_of en) (next_sid en) (conns en) (filter (fun x => negb (fst x =? sid)) (opens en))
                     (chans en) (now en) (hpend en) in
      (s1, en1, o, Some sid)
    end
  | EUnblock k =>
    match chans en with
    | [] => (s, en, [], None)
    | _ =>
      let c := k mod N.of_nat (length (chans en)) in
      match nth_error (chans en) (N.to_nat c) with
      | Some ch =>
        if c_gate ch =? 0 then
          let '(s1, o1) := fut_unblock cf s c (now en) in
          let '(s2, o2) := rsp_gate s1 c true in
          let seen := c_seen ch || (c_out ch && negb (match o1 with [] => true | _ => false end)) in
          let en1 := mkE (aux_of en) (next_sid en) (conns en) (opens en) (set_chan c (mkCh 1 seen (c_out ch)) (chans en))
                         (now en) (hpend en) in
          (s2, en1, o1 ++ o2, Some c)
        else (s, en, [], Some c)
      | None => (s, en, [], None)
      end
    end
  | EBreakW k =>
    match chans en with
    | [] => (s, en, [], None)
    | _ =>
      let c := k mod N.of_nat (length (chans en)) in
      match nth_error (chans en) (N.to_nat c) with
      | Some ch =>
        if c_gate ch =? 2 then (s, en, [], Some c) else
        let '(s1, o1) := fut_breakw s c in
        let '(s2, o2) := rsp_gate s1 c false in
        let en1 := mkE (aux_of en) (next_sid en) (conns en) (opens en) (set_chan c (mkCh 2 (c_seen ch) (c_out ch)) (chans en))
                       (now en) (hpend en) in
        (s2, en1, o1 ++ o2, Some c)
      | None => (s, en, [], None)
      end
    end
  | ERespond k len tag =>
    match chans en with
    | [] => (s, en, [], None)
    | _ =>
      let c := k mod N.of_nat (length (chans en)) in
      match nth_error (chans en) (N.to_nat c) with
      | Some ch =>
        if c_out ch && c_seen ch then
          (* a frame longer than the codec allows is a read failure *)
          let '(s1, o) := fut_read s c (if len <=? max_size cf then ROk len tag else RErr E_SUBSTREAM) in
          (s1, en, o, Some c)
        else (s, en, [], Some c)
      | None => (s, en, [], None)
      end
    end
  | EEof k =>
    match chans en with
    | [] => (s, en, [], None)
    | _ =>
      let c := k mod N.of_nat (length (chans en)) in
      match nth_error (chans en) (N.to_nat c) with
      | Some ch =>
        if c_out ch then
          if c_seen ch then let '(s1, o) := fut_read s c (RErr E_SUB_CLOSED) in (s1, en, o, Some c)
          else (s, en, [], Some c)
        else let '(s1, o) := h_inread s c false 0 0 in (s1, en, o, Some c)
      | None => (s, en, [], None)
      end
    end
  | EErr k =>
    match chans en with
    | [] => (s, en, [], None)
    | _ =>
      let c := k mod N.of_nat (length (chans en)) in
      match nth_error (chans en) (N.to_nat c) with
      | Some ch =>
        if c_out ch then
          (* a read error ends the stream just like EOF (Substream::poll_next returns None) *)
          if c_seen ch then let '(s1, o) := fut_read s c (RErr E_SUB_CLOSED) in (s1, en, o, Some c)
          else (s, en, [], Some c)
        else let '(s1, o) := h_inread s c false 0 0 in (s1, en, o, Some c)
      | None => (s, en, [], None)
      end
    end
  | EAdvance dt =>
    let t := now en + dt in
    let '(s1, o) := fut_advance s t in
    (rsp_advance s1 t, mkE (aux_of en) (next_sid en) (conns en) (opens en) (chans en) t (hpend en), o ++ rsp_advance_out s1 t, None)
  | EInOpen p gate neg =>
    match conn_of p en with
    | None => (s, en, [], None)
    | Some _ =>
      let c := N.of_nat (length (chans en)) in
      let g := N.min gate 2 in
      let '(s1, o) := h_inopen cf s p c neg in
      (s1, mkE (aux_of en) (next_sid en) (conns en) (opens en) (chans en ++ [mkCh g false false]) (now en) (hpend en), o, Some c)
    end
  | EInReq k len tag =>
    match chans en with
    | [] => (s, en, [], None)
    | _ =>
      let c := k mod N.of_nat (length (chans en)) in
      match nth_error (chans en) (N.to_nat c) with
      | Some ch =>
        if negb (c_out ch) then
          let '(s1, o) := h_inread s c (len <=? max_size cf) len tag in
          (s1, mkE (aux_of en) (next_sid en) (conns en) (opens en) (set_chan c (mkCh (c_gate ch) true false) (chans en))
                   (now en) (hpend en ++ sent_of o), o, Some c)
        else (s, en, [], Some c)
      | None => (s, en, [], None)
      end
    end
  | EURespond k len tag fb =>
    match nth_mod k (hpend en) with
    | None => (s, en, [], None)
    | Some irid =>
      let gate := match find_rs irid (rsps s) with
                  | Some r => match nth_error (chans en) (N.to_nat (s_chan r)) with
                              | Some ch => c_gate ch | None => 2 end
                  | None => 2 end in
      let '(s1, o) := h_uresp cf s irid len tag fb gate (now en) in
      (s1, mkE (aux_of en) (next_sid en) (conns en) (opens en) (chans en) (now en)
               (filter (fun x => negb (x =? irid)) (hpend en)), o, Some irid)
    end
  | EUReject k =>
    match nth_mod k (hpend en) with
    | None => (s, en, [], None)
    | Some irid =>
      let '(s1, o) := h_urej s irid in
      (s1, mkE (aux_of en) (next_sid en) (conns en) (opens en) (chans en) (now en)
               (filter (fun x => negb (x =? irid)) (hpend en)), o, Some irid)
    end
  | EBreakConn p =>
    (s, mkE (aux_of en) (next_sid en) (map (fun x => if fst x =? p then (p, false) else x) (conns en))
            (opens en) (chans en) (now en) (hpend en), [], None)
  | EBurn => let '(s1, o) := h_burn s in (s1, en, o, None)
  | EDropManager =>
    (s, with_aux en (mkAux false (a_caps (aux_of en)) (a_cused (aux_of en)) (a_view (aux_of en)) (a_clog (aux_of en))), [], None)
  | EMgrPeer p v =>
    (s, with_aux en (mkAux (mgr en) (a_caps (aux_of en)) (a_cused (aux_of en))
                           ((p, v) :: filter (fun x => negb (fst x =? p)) (a_view (aux_of en))) (a_clog (aux_of en))), [], None)
  | EClog b =>
    (s, with_aux en (mkAux (mgr en) (a_caps (aux_of en)) (a_cused (aux_of en)) (a_view (aux_of en)) b), [], None)
  | EDrain =>
    (s, with_aux en (mkAux (mgr en) (a_caps (aux_of en)) [] (a_view (aux_of en)) (a_clog (aux_of en))), [], None)
  end.

(* the whole run: flat list of everything observed *)
Fixpoint run (cf : cfg) (st : pst * env) (l : list ev) : (pst * env) * list out :=
  match l with
  | [] => (st, [])
  | e :: t => let '(st1, o, _) := step cf st e in
              let '(st2, o2) := run cf st1 t in (st2, o ++ o2)
  end.

(* the same run, stimulus by stimulus: (stimulus, what was observed, resolved target) *)
Fixpoint run_steps (cf : cfg) (st : pst * env) (l : list ev) : list (ev * list out * option N) :=
  match l with
  | [] => []
  | e :: t => let '(st1, o, tg) := step cf st e in (e, o, tg) :: run_steps cf st1 t
  end.
Definition outs_of (l : list (ev * list out * option N)) : list out :=
  flat_map (fun x => snd (fst x)) l.

(* carriers (resolved targets) of the stimuli that produced a RequestReceived *)
Definition has_req (o : list out) : bool :=
  existsb (fun x => match x with OReq _ _ _ _ => true | _ => false end) o.
Definition req_chans (l : list (ev * list out * option N)) : list N :=
  flat_map (fun x => match snd x with Some c => if has_req (snd (fst x)) then [c] else [] | None => [] end) l.

(* terminal events carrying request id r *)
Definition is_term (r : N) (o : out) : bool :=
  match o with
  | OResp rid _ _ => rid =? r
  | OFail rid _ => rid =? r
  | _ => false
  end.
Definition terms (r : N) (tr : list out) : nat := length (filter (is_term r) tr).

(* nothing is owed any more: no pending dial, no substream being opened, no future in flight *)
Definition quiescent (s : pst) : Prop := dials s = [] /\ pouts s = [] /\ futs s = [].

(* ------------------------------------------------------------------ the transport contract

   What the environment (transport service, connections, remote peers, the clock) still owes the
   protocol, computed from the stimuli, the resolved targets and the CALLS the protocol made
   (ODial, OOpen, OBind) — never from the protocol's private maps:
   - a dial that was accepted is owed ConnectionEstablished or DialFailure;
   - an accepted open_substream is owed SubstreamOpened or SubstreamOpenFailure (a
     ConnectionClosed of that peer discharges all of its opens);
   - a carrier handed to a request future is owed an answer, an end of stream, or the passing of
     the request timeout (counted from the hand-over, and again from the moment the request frame
     went out); it is discharged once a terminal event for its request was seen. *)
Record ghost := mkG {
  g_now : N;
  g_conn : list N;                 (* peers reported connected *)
  g_dials : list N;                (* peers with an accepted, unanswered dial *)
  g_opens : list (N * N);          (* (substream id, peer): accepted, unanswered open_substream *)
  g_live : list (N * N * N)        (* (carrier, request id, deadline) *)
}.
Definition g0 : ghost := mkG 0 [] [] [] [].

Definition o_dials (o : list out) : list N :=
  flat_map (fun x => match x with ODial p => [p] | _ => [] end) o.
Definition o_opens (o : list out) : list (N * N) :=
  flat_map (fun x => match x with OOpen sid p => [(sid, p)] | _ => [] end) o.
Definition o_binds (o : list out) : list (N * N) :=
  flat_map (fun x => match x with OBind c rid => [(c, rid)] | _ => [] end) o.
Definition o_terms (o : list out) : list N :=
  flat_map (fun x => match x with OResp r _ _ => [r] | OFail r _ => [r] | _ => [] end) o.
Definition o_wired (c : N) (o : list out) : bool :=
  existsb (fun x => match x with OWire c' _ _ => c' =? c | _ => false end) o.

Definition gstep (cf : cfg) (e : ev) (o : list out) (tg : option N) (g : ghost) : ghost :=
  let now' := match e with EAdvance dt => g_now g + dt | _ => g_now g end in
  let conn' := match e with
               | EEstablished p _ _ => if memN p (g_conn g) then g_conn g else g_conn g ++ [p]
               | EClosed p => filter (fun x => negb (x =? p)) (g_conn g)
               | _ => g_conn g end in
  let answered_dial := match e with
                       | EDialFail p => [p]
                       | EEstablished p _ _ => if memN p (g_conn g) then [] else [p]
                       | _ => [] end in
  let dials' := filter (fun x => negb (memN x answered_dial)) (g_dials g) ++ o_dials o in
  let opens0 := match e, tg with
                | EOpened _ _ _, Some sid | EOpenFail _ _, Some sid =>
                    filter (fun x => negb (fst x =? sid)) (g_opens g)
                | EClosed p, _ => if memN p (g_conn g) then filter (fun x => negb (snd x =? p)) (g_opens g)
                                  else g_opens g
                | _, _ => g_opens g end in
  let opens' := opens0 ++ o_opens o in
  let rearmed := match e, tg with
                 | EUnblock _, Some c =>
                     if o_wired c o
                     then map (fun x => if fst (fst x) =? c then (c, snd (fst x), g_now g + tmo cf) else x) (g_live g)
                     else g_live g
                 | _, _ => g_live g end in
  let live' := filter (fun x => negb (memN (snd (fst x)) (o_terms o)))
                      (rearmed ++ map (fun b => (fst b, snd b, g_now g + tmo cf)) (o_binds o)) in
  mkG now' conn' dials' opens' live'.

Fixpoint grun (cf : cfg) (g : ghost) (l : list (ev * list out * option N)) : ghost :=
  match l with
  | [] => g
  | (e, o, tg) :: t => grun cf (gstep cf e o tg g) t
  end.

(* the environment has discharged everything it owes *)
Definition discharged (g : ghost) : Prop :=
  g_dials g = [] /\ g_opens g = [] /\ forall x, In x (g_live g) -> snd x <= g_now g.

(* The environment discharges everything it owes, by its own books: a DialFailure for each peer of
   ds, a ConnectionClosed for each peer of cs, then the clock advances by dt. *)
Definition flush_of (ds cs : list N) (dt : N) : list ev :=
  map EDialFail ds ++ map EClosed cs ++ [EAdvance dt].
Fixpoint dedup (l : list N) : list N :=
  match l with
  | [] => []
  | x :: t => if memN x t then dedup t else x :: dedup t
  end.
(* ... for the ledger g: every peer with an accepted, unanswered dial, every connected peer (in
   ascending order, the order in which the harness injects the events), and more than the
   request timeout *)
Definition flush_evs (cf : cfg) (g : ghost) : list ev :=
  flush_of (sort_by (fun x : N => x) (dedup (g_dials g))) (sort_by (fun x : N => x) (dedup (g_conn g))) (2 * tmo cf + 1).

(* ------------------------------------------------------------------ the bounded event channel

   The model hands the user an unbounded list of events per step.  The implementation pushes
   them through a bounded mpsc channel: `event_tx.send(..).await` parks the event loop in the
   middle of a handler while the channel is full and resumes when the user has taken an event.
   This little relay says why that is the same thing: whatever the interleaving of pushes (only
   when there is room) and pops, nothing is lost, duplicated or reordered. *)
Record relay := mkRelay { rl_pending : list out; rl_queue : list out; rl_delivered : list out }.
Inductive rmove := RPush | RPop.
Definition relay_step (cap : nat) (st : relay) (m : rmove) : relay :=
  match m with
  | RPush => match rl_pending st with
             | x :: p => if Nat.ltb (length (rl_queue st)) cap
                         then mkRelay p (rl_queue st ++ [x]) (rl_delivered st) else st
             | [] => st
             end
  | RPop => match rl_queue st with
            | x :: q => mkRelay (rl_pending st) q (rl_delivered st ++ [x])
            | [] => st
            end
  end.
Definition relay_run (cap : nat) (o : list out) (ms : list rmove) : relay :=
  fold_left (relay_step cap) ms (mkRelay o [] []).
