From Coq Require Import ExtrOcamlBasic.
From V.C13 Require Import Glue.
Extraction "c13_model.ml" run_case prop_ok known_class.
