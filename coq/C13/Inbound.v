(* C13 — the inbound side and the user's handle (src/protocol/request_response/handle.rs:
   pending_responses, send_response / send_response_with_feedback / reject_request).

   Provenance of what goes out on an inbound substream: a response frame that reaches the remote
   end of an inbound carrier is the payload the user supplied with send_response for the inbound
   request id that was read from that very carrier (response_wire); the user's answer to an inbound
   request takes effect at most once (respond_once: pending_responses.remove); nothing but an event
   on its own carrier takes a reader out of pending_inbound_requests, and nothing but the user's
   answer takes a waiting request out of pending_outbound_responses — there is no timeout on either
   (reader_leaves_only_on_carrier_event, waiting_leaves_only_on_user_action): with the bound
   configured, silent remotes pin the inbound slots for as long as their substreams stay open
   (silent_remotes_pin_slots). *)
From Coq Require Import List NArith Bool Lia.
From V.C13 Require Import Model Proofs.
Import ListNotations.
Open Scope N_scope.

(* ------------------------------------------------------------------ no response frame *)

Definition nwb (x : out) : bool := match x with OWireR _ _ _ => false | _ => true end.
Definition nwl (o : list out) : Prop := forallb nwb o = true.

Lemma nwl_app a b : nwl a -> nwl b -> nwl (a ++ b).
Proof. unfold nwl. rewrite forallb_app. intros -> ->. reflexivity. Qed.
Lemma nwl_cons x o : nwb x = true -> nwl o -> nwl (x :: o).
Proof. unfold nwl. cbn [forallb]. intros -> ->. reflexivity. Qed.
Lemma nwl_map_fail {A} (g : A -> N) code l : nwl (map (fun a => OFail (g a) code) l).
Proof. unfold nwl. induction l; cbn; auto. Qed.
Lemma nwl_in o c l t : nwl o -> ~ In (OWireR c l t) o.
Proof. unfold nwl. rewrite forallb_forall. intros H Hin. specialize (H _ Hin). discriminate. Qed.

Lemma verdict_nwl rid r : nwl (verdict rid r).
Proof. unfold verdict. destruct r; [reflexivity|]. destruct (code =? E_CANCELED); reflexivity. Qed.
Lemma settle_nwl s p rid r : nwl (snd (settle s p rid r)).
Proof. unfold settle. destruct (_ && _); cbn [snd]; [apply verdict_nwl|reflexivity]. Qed.
Lemma complete_nwl s f r : nwl (snd (complete s f r)).
Proof. unfold complete. apply settle_nwl. Qed.
Lemma complete_all_nwl l : forall s r, nwl (snd (complete_all s l r)).
Proof.
  induction l as [|f l IH]; intros s r; cbn [complete_all snd]; [reflexivity|].
  pose proof (complete_nwl s f r) as H. destruct (complete s f r) as [s1 o1].
  pose proof (IH s1 r) as H2. destruct (complete_all s1 l r) as [s2 o2]. cbn [snd] in *.
  apply nwl_app; assumption.
Qed.
Lemma send_nwl s p dial len tag fb ok dok sid : nwl (snd (h_send s p dial len tag fb ok dok sid)).
Proof. unfold h_send. repeat match goal with |- context [if ?x then _ else _] => destruct x end; reflexivity. Qed.
Lemma established_nwl s p ok sid : nwl (snd (h_established s p ok sid)).
Proof.
  unfold h_established. destruct (memN p (peers s)); [reflexivity|].
  destruct (filter _ (dials s)) as [|d0 mine]; [reflexivity|].
  destruct (firstn ok (d0 :: mine)); cbn [snd]; [apply (nwl_map_fail (fun d : N * req => q_rid (snd d)))|].
  apply nwl_app; [apply (nwl_map_fail (fun d : N * req => q_rid (snd d)))|].
  unfold nwl. induction (number_pouts p sid (p0 :: l)); cbn; auto.
Qed.
Lemma closed_nwl s p : nwl (snd (h_closed s p)).
Proof. unfold h_closed. destruct (memN p _); cbn [snd]; [apply (nwl_map_fail snd)|reflexivity]. Qed.
Lemma dialfail_nwl s p : nwl (snd (h_dialfail s p)).
Proof. unfold h_dialfail. cbn [snd]. apply (nwl_map_fail (fun d : N * req => q_rid (snd d))). Qed.
Lemma openfail_nwl s sid u : nwl (snd (h_openfail s sid u)).
Proof. unfold h_openfail. destruct (find_po sid (pouts s)); reflexivity. Qed.
Lemma opened_body_nwl cf0 s po c gate now neg : nwl (snd (opened_body cf0 s po c gate now neg)).
Proof.
  unfold opened_body. cbn [q_rid q_len q_tag q_fb]. destruct (max_size cf0 <? _); [apply settle_nwl|].
  destruct gate as [|[g|g|]]; try apply settle_nwl; reflexivity.
Qed.
Lemma opened_nwl cf0 s sid c gate now neg : nwl (snd (h_opened cf0 s sid c gate now neg)).
Proof.
  unfold h_opened. destruct (find_po sid (pouts s)) as [po|]; [|reflexivity].
  pose proof (opened_body_nwl cf0 s po c gate now neg) as H.
  destruct (opened_body _ _ _ _ _ _ _) as [s1 o]. cbn [snd] in *. apply nwl_cons; [reflexivity|exact H].
Qed.
Lemma unblock_nwl cf0 s c now : nwl (snd (fut_unblock cf0 s c now)).
Proof.
  unfold fut_unblock. destruct (find_fut c (futs s)) as [f|]; [|reflexivity].
  destruct (f_wait f); [reflexivity|]. destruct (f_cancel f); [|reflexivity].
  pose proof (complete_nwl s f (RErr E_CANCELED)) as H. destruct (complete s f _) as [s1 o]. cbn [snd] in *.
  apply nwl_cons; [reflexivity|exact H].
Qed.
Lemma breakw_nwl s c : nwl (snd (fut_breakw s c)).
Proof.
  unfold fut_breakw. destruct (find_fut c (futs s)) as [f|]; [|reflexivity].
  destruct (f_wait f); [reflexivity|apply complete_nwl].
Qed.
Lemma fb_resp_nwl f o : nwl (fb_resp f o).
Proof.
  unfold fb_resp. destruct (f_neg f =? 0); [reflexivity|].
  unfold nwl. induction o as [|x o IH]; [reflexivity|]. cbn [flat_map]. rewrite forallb_app, IH, andb_true_r.
  destruct x; reflexivity.
Qed.
Lemma read_nwl s c r : nwl (snd (fut_read s c r)).
Proof.
  unfold fut_read. destruct (find_fut c (futs s)) as [f|]; [|reflexivity].
  destruct (f_wait f); [|reflexivity].
  pose proof (complete_nwl s f r) as H. destruct (complete s f r) as [s1 o]. cbn [snd] in *.
  apply nwl_app; [exact H|apply fb_resp_nwl].
Qed.
Lemma advance_nwl s now : nwl (snd (fut_advance s now)).
Proof. unfold fut_advance. apply complete_all_nwl. Qed.
Lemma cancel_nwl s rid : nwl (snd (h_cancel s rid)).
Proof.
  unfold h_cancel. destruct (find _ (futs s)) as [f|]; [|reflexivity].
  destruct (f_wait f); [apply complete_nwl|reflexivity].
Qed.
Lemma inread_nwl s c good len tag : nwl (snd (h_inread s c good len tag)).
Proof.
  unfold h_inread. destruct (find_rd c (rdrs s)) as [rd|]; [|reflexivity].
  destruct (_ && _); [|reflexivity]. destruct good; [|reflexivity]. cbn [snd].
  destruct (r_neg rd =? 0); reflexivity.
Qed.
Lemma adv_out_nwl s now : nwl (rsp_advance_out s now).
Proof.
  unfold rsp_advance_out, nwl. induction (rsps s) as [|a l IH]; [reflexivity|].
  cbn [flat_map]. rewrite forallb_app, IH, andb_true_r. destruct (s_w a) as [[[x y] d]|]; [|reflexivity].
  destruct (d <=? now); [|reflexivity]. unfold feed. destruct (s_fb a); reflexivity.
Qed.

(* ------------------------------------------------------------------ how pending_outbound_responses evolves in one step *)

Record RFacts (s s' : pst) (e : ev) (o : list out) (tg : option N) : Prop := mkRF {
  rf_rsp : forall r', In r' (rsps s') ->
     In r' (rsps s) \/
     (exists r k l t fb dl, In r (rsps s) /\ s_irid r' = s_irid r /\ s_chan r' = s_chan r /\
                            s_w r' = Some (l, t, dl) /\ e = EURespond k l t fb /\ tg = Some (s_irid r)) \/
     (exists k l t p, e = EInReq k l t /\ tg = Some (s_chan r') /\ In (OReq (s_irid r') p l t) o /\ s_w r' = None);
  rf_wire : forall c l t, In (OWireR c l t) o ->
     (exists r k fb, In r (rsps s) /\ s_chan r = c /\ e = EURespond k l t fb /\ tg = Some (s_irid r)) \/
     (exists r dl, In r (rsps s) /\ s_chan r = c /\ s_w r = Some (l, t, dl))
}.

Lemma quiet_rfacts s s' e o tg : rsps s' = rsps s -> nwl o -> RFacts s s' e o tg.
Proof.
  intros R W. constructor.
  - intros r' H. left. rewrite <- R. exact H.
  - intros c l t H. destruct (nwl_in _ _ _ _ W H).
Qed.

Lemma rfacts_trans_quiet s s1 s' e o1 o tg :
  rsps s1 = rsps s -> nwl o1 -> RFacts s1 s' e o tg -> RFacts s s' e (o1 ++ o) tg.
Proof.
  intros R W [A B]. constructor.
  - intros r' H. destruct (A r' H) as [H1|[H1|(k & l & t & p & E1 & E2 & E3 & E4)]].
    + left. rewrite <- R. exact H1.
    + right. left. rewrite <- R. exact H1.
    + right. right. exists k, l, t, p. repeat split; auto. apply in_or_app. right. exact E3.
  - intros c l t H. apply in_app_or in H. destruct H as [H|H]; [destruct (nwl_in _ _ _ _ W H)|].
    rewrite <- R. exact (B c l t H).
Qed.

Lemma find_rs_in irid l r : find_rs irid l = Some r -> In r l /\ s_irid r = irid.
Proof. unfold find_rs. intros H. apply find_some in H. destruct H as [A B]. apply N.eqb_eq in B. auto. Qed.

(* rsp_gate: a blocked response write gets through or fails *)
Lemma rsp_gate_rfacts s c ok e tg :
  RFacts s (fst (rsp_gate s c ok)) e (snd (rsp_gate s c ok)) tg.
Proof.
  unfold rsp_gate. destruct (find _ (rsps s)) as [r|] eqn:F; [|apply quiet_rfacts; reflexivity].
  apply find_some in F. destruct F as [Hr Hc]. apply N.eqb_eq in Hc.
  destruct (s_w r) as [[[l t] dl]|] eqn:W; [|apply quiet_rfacts; reflexivity].
  cbn [fst snd]. constructor.
  - intros r' H. left. cbn [rsps set_rsps] in H. unfold drop_rs in H. apply filter_In in H. tauto.
  - intros c' l' t' H. right. exists r, dl. apply in_app_or in H. destruct H as [H|H].
    + destruct ok; [|destruct H]. destruct H as [H|[]]. injection H as <- <- <-. auto.
    + unfold feed in H. destruct (s_fb r); [destruct H as [H|[]]; discriminate|destruct H].
Qed.

Lemma uresp_rfacts cf0 s irid k len tag fb gate now :
  RFacts s (fst (h_uresp cf0 s irid len tag fb gate now)) (EURespond k len tag fb)
         (snd (h_uresp cf0 s irid len tag fb gate now)) (Some irid).
Proof.
  unfold h_uresp. destruct (find_rs irid (rsps s)) as [r|] eqn:F; [|apply quiet_rfacts; reflexivity].
  destruct (find_rs_in _ _ _ F) as [Hr Hi].
  destruct (s_w r) eqn:W; [apply quiet_rfacts; reflexivity|].
  assert (D : forall o, nwl o -> RFacts s (set_rsps s (drop_rs irid (rsps s))) (EURespond k len tag fb) o (Some irid)).
  { intros o Ho. constructor.
    - intros r' H. left. cbn [rsps set_rsps] in H. unfold drop_rs in H. apply filter_In in H. tauto.
    - intros c l t H. destruct (nwl_in _ _ _ _ Ho H). }
  assert (Fd : forall b, nwl (feed fb irid b)) by (intros b; unfold feed; destruct fb; reflexivity).
  destruct (max_size cf0 <? len); cbn [fst snd]; [apply D, Fd|].
  destruct gate as [|[g|g|]]; cbn [fst snd]; try (apply D, Fd).
  - (* the write blocks: the payload is remembered *)
    constructor; [|intros c l t []].
    intros r' H. cbn [rsps set_rsps] in H. apply in_map_iff in H. destruct H as [x [E Hx]].
    destruct (s_irid x =? irid) eqn:Ex; [|left; subst r'; exact Hx].
    right. left. subst r'. exists r, k, len, tag, fb, (now + tmo cf0). cbn [s_irid s_chan s_w].
    rewrite Hi. repeat split; auto.
  - (* the frame goes out at once *)
    constructor.
    + intros r' H. left. cbn [rsps set_rsps] in H. unfold drop_rs in H. apply filter_In in H. tauto.
    + intros c l t [H|H]; [|destruct (nwl_in _ _ _ _ (Fd true) H)].
      injection H as <- <- <-. left. exists r, k, fb. rewrite Hi. auto.
Qed.


Lemma inread_rfacts_req s c good len tag k :
  RFacts s (fst (h_inread s c good len tag)) (EInReq k len tag) (snd (h_inread s c good len tag)) (Some c).
Proof.
  unfold h_inread. destruct (find_rd c (rdrs s)) as [rd|] eqn:F; [|apply quiet_rfacts; reflexivity].
  destruct (_ && _); [|apply quiet_rfacts; reflexivity].
  destruct good; [|apply quiet_rfacts; reflexivity]. cbn [fst snd]. constructor.
  - intros r' H. cbn [rsps set_rsps set_inb set_rdrs] in H. apply in_app_or in H. destruct H as [H|[<-|[]]]; [left; exact H|].
    right. right. exists k, len, tag, (r_peer rd). cbn [s_irid s_chan s_w]. repeat split; auto. left. reflexivity.
  - intros c' l t [H|H]; [discriminate|]. destruct (r_neg rd =? 0); [destruct H|destruct H as [H|[]]; discriminate].
Qed.

Lemma inread_bad_rfacts s c len tag e tg :
  RFacts s (fst (h_inread s c false len tag)) e (snd (h_inread s c false len tag)) tg.
Proof.
  unfold h_inread. destruct (find_rd c (rdrs s)) as [rd|] eqn:F; [|apply quiet_rfacts; reflexivity].
  destruct (_ && _); apply quiet_rfacts; reflexivity.
Qed.

Lemma rsps_of_io s s' : same_io s s' -> rsps s' = rsps s.
Proof. intros [_ H]. exact H. Qed.

Lemma step_rfacts cf0 s en e :
  let r := step cf0 (s, en) e in
  RFacts s (fst (fst (fst r))) e (snd (fst r)) (snd r).
Proof.
  destruct e; cbn [step].
  - match goal with |- context [h_send s p dial len tag ?fb0 ?a0 ?b0 ?c0] =>
      pose proof (send_io s p dial len tag fb0 a0 b0 c0) as H; pose proof (send_nwl s p dial len tag fb0 a0 b0 c0) as W end.
    destruct (h_send _ _ _ _ _ _ _ _ _) as [s1 o]. cbn [fst snd] in *. apply quiet_rfacts; [exact (rsps_of_io _ _ H)|exact W].
  - pose proof (cancel_io s rid) as H. pose proof (cancel_nwl s rid) as W. destruct (h_cancel s rid) as [s1 o].
    cbn [fst snd] in *. apply quiet_rfacts; [exact (rsps_of_io _ _ H)|exact W].
  - destruct (conn_of p en); cbn [fst snd]; [apply quiet_rfacts; reflexivity|].
    match goal with |- context [h_established s p ?n ?sd] =>
      pose proof (established_io s p n sd) as H; pose proof (established_nwl s p n sd) as W end.
    destruct (h_established _ _ _ _) as [s1 o]. cbn [fst snd] in *. apply quiet_rfacts; [exact (rsps_of_io _ _ H)|exact W].
  - destruct (conn_of p en); cbn [fst snd]; [|apply quiet_rfacts; reflexivity].
    pose proof (closed_io s p) as H. pose proof (closed_nwl s p) as W. destruct (h_closed s p) as [s1 o].
    cbn [fst snd] in *. apply quiet_rfacts; [exact (rsps_of_io _ _ H)|exact W].
  - pose proof (dialfail_io s p) as H. pose proof (dialfail_nwl s p) as W. destruct (h_dialfail s p) as [s1 o].
    cbn [fst snd] in *. apply quiet_rfacts; [exact (rsps_of_io _ _ H)|exact W].
  - destruct (nth_mod k (opens en)) as [[sid q]|]; cbn [fst snd]; [|apply quiet_rfacts; reflexivity].
    pose proof (opened_io cf0 s sid (N.of_nat (length (chans en))) (N.min gate 2) (now en) neg) as H.
    pose proof (opened_nwl cf0 s sid (N.of_nat (length (chans en))) (N.min gate 2) (now en) neg) as W.
    destruct (h_opened _ _ _ _ _ _ _) as [s1 o]. cbn [fst snd] in *. apply quiet_rfacts; [exact (rsps_of_io _ _ H)|exact W].
  - destruct (nth_mod k (opens en)) as [[sid q]|]; cbn [fst snd]; [|apply quiet_rfacts; reflexivity].
    pose proof (openfail_io s sid unsupported) as H. pose proof (openfail_nwl s sid unsupported) as W.
    destruct (h_openfail _ _ _) as [s1 o]. cbn [fst snd] in *. apply quiet_rfacts; [exact (rsps_of_io _ _ H)|exact W].
  - (* unblock *)
    destruct (chans en) as [|ch0 chs] eqn:CH; cbn [fst snd]; [apply quiet_rfacts; reflexivity|].
    destruct (nth_error _ _) as [ch|]; cbn [fst snd]; [|apply quiet_rfacts; reflexivity].
    destruct (c_gate ch =? 0); cbn [fst snd]; [|apply quiet_rfacts; reflexivity].
    pose proof (unblock_io cf0 s (k mod N.of_nat (length (ch0 :: chs))) (now en)) as H.
    pose proof (unblock_nwl cf0 s (k mod N.of_nat (length (ch0 :: chs))) (now en)) as W.
    destruct (fut_unblock _ _ _ _) as [s1 o1]. cbn [fst snd] in *.
    match goal with |- context [rsp_gate s1 ?c ?b] =>
      pose proof (rsp_gate_rfacts s1 c b (EUnblock k) (Some c)) as G; destruct (rsp_gate s1 c b) as [s2 o2] end.
    cbn [fst snd] in *. exact (rfacts_trans_quiet _ _ _ _ _ _ _ (rsps_of_io _ _ H) W G).
  - destruct (chans en) as [|ch0 chs] eqn:CH; cbn [fst snd]; [apply quiet_rfacts; reflexivity|].
    destruct (nth_error _ _) as [ch|]; cbn [fst snd]; [|apply quiet_rfacts; reflexivity].
    destruct (c_gate ch =? 2); cbn [fst snd]; [apply quiet_rfacts; reflexivity|].
    pose proof (breakw_io s (k mod N.of_nat (length (ch0 :: chs)))) as H.
    pose proof (breakw_nwl s (k mod N.of_nat (length (ch0 :: chs)))) as W.
    destruct (fut_breakw _ _) as [s1 o1]. cbn [fst snd] in *.
    match goal with |- context [rsp_gate s1 ?c ?b] =>
      pose proof (rsp_gate_rfacts s1 c b (EBreakW k) (Some c)) as G; destruct (rsp_gate s1 c b) as [s2 o2] end.
    cbn [fst snd] in *. exact (rfacts_trans_quiet _ _ _ _ _ _ _ (rsps_of_io _ _ H) W G).
  - destruct (chans en) as [|ch0 chs] eqn:CH; cbn [fst snd]; [apply quiet_rfacts; reflexivity|].
    destruct (nth_error _ _) as [ch|]; cbn [fst snd]; [|apply quiet_rfacts; reflexivity].
    destruct (c_out ch && c_seen ch); cbn [fst snd]; [|apply quiet_rfacts; reflexivity].
    match goal with |- context [fut_read s ?c ?r] =>
      pose proof (read_io s c r) as H; pose proof (read_nwl s c r) as W; destruct (fut_read s c r) as [s1 o] end.
    cbn [fst snd] in *. apply quiet_rfacts; [exact (rsps_of_io _ _ H)|exact W].
  - destruct (chans en) as [|ch0 chs] eqn:CH; cbn [fst snd]; [apply quiet_rfacts; reflexivity|].
    destruct (nth_error _ _) as [ch|]; cbn [fst snd]; [|apply quiet_rfacts; reflexivity].
    destruct (c_out ch); [destruct (c_seen ch)|]; cbn [fst snd]; try (apply quiet_rfacts; reflexivity).
    + match goal with |- context [fut_read s ?c ?r] =>
        pose proof (read_io s c r) as H; pose proof (read_nwl s c r) as W; destruct (fut_read s c r) as [s1 o] end.
      cbn [fst snd] in *. apply quiet_rfacts; [exact (rsps_of_io _ _ H)|exact W].
    + match goal with |- context [h_inread s ?c false ?l ?t] =>
        pose proof (inread_bad_rfacts s c l t (EEof k) (Some c)) as G; destruct (h_inread s c false l t) as [s1 o] end.
      exact G.
  - destruct (chans en) as [|ch0 chs] eqn:CH; cbn [fst snd]; [apply quiet_rfacts; reflexivity|].
    destruct (nth_error _ _) as [ch|]; cbn [fst snd]; [|apply quiet_rfacts; reflexivity].
    destruct (c_out ch); [destruct (c_seen ch)|]; cbn [fst snd]; try (apply quiet_rfacts; reflexivity).
    + match goal with |- context [fut_read s ?c ?r] =>
        pose proof (read_io s c r) as H; pose proof (read_nwl s c r) as W; destruct (fut_read s c r) as [s1 o] end.
      cbn [fst snd] in *. apply quiet_rfacts; [exact (rsps_of_io _ _ H)|exact W].
    + match goal with |- context [h_inread s ?c false ?l ?t] =>
        pose proof (inread_bad_rfacts s c l t (EErr k) (Some c)) as G; destruct (h_inread s c false l t) as [s1 o] end.
      exact G.
  - (* advance *)
    pose proof (complete_all_io (filter (fun f => f_dl f <=? now en + dt) (futs s)) s (RErr E_TIMEOUT)) as H.
    pose proof (advance_nwl s (now en + dt)) as W.
    unfold fut_advance in *. destruct (complete_all _ _ _) as [s1 o]. cbn [fst snd] in *.
    constructor.
    + intros r' Hr. left. unfold rsp_advance in Hr. cbn [rsps set_rsps] in Hr. apply filter_In in Hr.
      rewrite <- (rsps_of_io _ _ H). tauto.
    + intros c l t Hin. apply in_app_or in Hin. destruct Hin as [Hin|Hin];
        [destruct (nwl_in _ _ _ _ W Hin)|destruct (nwl_in _ _ _ _ (adv_out_nwl s1 (now en + dt)) Hin)].
  - destruct (conn_of p en); cbn [fst snd]; [|apply quiet_rfacts; reflexivity].
    assert (H : rsps (fst (h_inopen cf0 s p (N.of_nat (length (chans en))) neg)) = rsps s /\
                snd (h_inopen cf0 s p (N.of_nat (length (chans en))) neg) = []).
    { unfold h_inopen. destruct (match max_inb cf0 with Some m => _ | None => _ end); cbn [fst snd]; [auto|].
      destruct (memN p _); cbn [fst snd]; auto. }
    destruct (h_inopen _ _ _ _ _) as [s1 o]. cbn [fst snd] in *. destruct H as [H ->]. apply quiet_rfacts; [exact H|reflexivity].
  - (* inbound request *)
    destruct (chans en) as [|ch0 chs] eqn:CH; cbn [fst snd]; [apply quiet_rfacts; reflexivity|].
    destruct (nth_error _ _) as [ch|]; cbn [fst snd]; [|apply quiet_rfacts; reflexivity].
    destruct (negb (c_out ch)); cbn [fst snd]; [|apply quiet_rfacts; reflexivity].
    match goal with |- context [h_inread s ?c ?g ?l ?t] =>
      pose proof (inread_rfacts_req s c g l t k) as G; destruct (h_inread s c g l t) as [s1 o] end.
    exact G.
  - destruct (nth_mod k (hpend en)) as [irid|]; cbn [fst snd]; [|apply quiet_rfacts; reflexivity].
    match goal with |- context [h_uresp cf0 s ?a ?b ?c ?f ?d ?e] =>
      pose proof (uresp_rfacts cf0 s a k b c f d e) as G; destruct (h_uresp cf0 s a b c f d e) as [s1 o] end.
    exact G.
  - destruct (nth_mod k (hpend en)) as [irid|]; cbn [fst snd]; [|apply quiet_rfacts; reflexivity].
    unfold h_urej. cbn [fst snd]. constructor; [|intros c l t []].
    intros r' H. left. cbn [rsps set_rsps] in H. unfold drop_rs in H. apply filter_In in H. tauto.
  - cbn [fst snd]. apply quiet_rfacts; reflexivity.
  - unfold h_burn. cbn [fst snd]. apply quiet_rfacts; reflexivity.
  - cbn [fst snd]. apply quiet_rfacts; reflexivity.
  - cbn [fst snd]. apply quiet_rfacts; reflexivity.
  - cbn [fst snd]. apply quiet_rfacts; reflexivity.
  - cbn [fst snd]. apply quiet_rfacts; reflexivity.
Qed.

(* ------------------------------------------------------------------ provenance of response frames *)

Definition hist := list (ev * list out * option N).

(* inbound request irid was read from carrier c *)
Definition origin (h : hist) (irid c : N) : Prop :=
  exists e o p l t, In (e, o, Some c) h /\ In (OReq irid p l t) o.
(* the user answered inbound request irid with payload (l, t), and the handle still knew irid *)
Definition supplied (h : hist) (irid l t : N) : Prop :=
  exists k fb o, In (EURespond k l t fb, o, Some irid) h.

Lemma origin_mono h x irid c : origin h irid c -> origin (h ++ x) irid c.
Proof. intros (e & o & p & l & t & A & B). exists e, o, p, l, t. split; [apply in_or_app; left; exact A|exact B]. Qed.
Lemma supplied_mono h x irid l t : supplied h irid l t -> supplied (h ++ x) irid l t.
Proof. intros (k & fb & o & A). exists k, fb, o. apply in_or_app. left. exact A. Qed.

Record InvR (s : pst) (h : hist) : Prop := mkIR {
  ir_origin : forall r, In r (rsps s) -> origin h (s_irid r) (s_chan r);
  ir_w : forall r l t dl, In r (rsps s) -> s_w r = Some (l, t, dl) -> supplied h (s_irid r) l t;
  ir_wire : forall c l t, In (OWireR c l t) (outs_of h) -> exists irid, origin h irid c /\ supplied h irid l t
}.

Lemma InvR_init : InvR init_pst [].
Proof. constructor; cbn; intros; contradiction. Qed.

Lemma outs_of_snoc h e o tg : outs_of (h ++ [(e, o, tg)]) = outs_of h ++ o.
Proof. unfold outs_of. rewrite flat_map_app. cbn. rewrite app_nil_r. reflexivity. Qed.

Lemma InvR_step s h s' e o tg : InvR s h -> RFacts s s' e o tg -> InvR s' (h ++ [(e, o, tg)]).
Proof.
  intros [O W Wi] [A B].
  assert (Here : In (e, o, tg) (h ++ [(e, o, tg)])) by (apply in_or_app; right; left; reflexivity).
  constructor.
  - intros r' H. destruct (A r' H) as [H1|[(r & k & l & t & fb & dl & H1 & E1 & E2 & _)|(k & l & t & p & E1 & E2 & E3 & _)]].
    + apply origin_mono. exact (O r' H1).
    + rewrite E1, E2. apply origin_mono. exact (O r H1).
    + exists e, o, p, l, t. rewrite <- E2. split; [exact Here|exact E3].
  - intros r' l t dl H Hw. destruct (A r' H) as [H1|[(r & k & l0 & t0 & fb & dl0 & H1 & E1 & E2 & E3 & E4 & E5)|(k & l0 & t0 & p & _ & _ & _ & E4)]].
    + apply supplied_mono. exact (W r' l t dl H1 Hw).
    + rewrite E3 in Hw. injection Hw as <- <- <-. exists k, fb, o. rewrite E1. subst e tg. exact Here.
    + rewrite E4 in Hw. discriminate.
  - intros c l t H. rewrite outs_of_snoc in H. apply in_app_or in H. destruct H as [H|H].
    + destruct (Wi c l t H) as [irid [X Y]]. exists irid. split; [apply origin_mono; exact X|apply supplied_mono; exact Y].
    + destruct (B c l t H) as [(r & k & fb & H1 & E1 & E2 & E3)|(r & dl & H1 & E1 & E2)].
      * exists (s_irid r). split; [rewrite <- E1; apply origin_mono; exact (O r H1)|].
        exists k, fb, o. subst e tg. exact Here.
      * exists (s_irid r). split; [rewrite <- E1; apply origin_mono; exact (O r H1)|].
        apply supplied_mono. exact (W r l t dl H1 E2).
Qed.

Lemma steps_InvR cf0 evs : forall s en h,
  InvR s h -> exists s', InvR s' (h ++ run_steps cf0 (s, en) evs).
Proof.
  induction evs as [|e evs IH]; intros s en h I; cbn [run_steps].
  - exists s. rewrite app_nil_r. exact I.
  - pose proof (step_rfacts cf0 s en e) as F. cbn zeta in F.
    destruct (step cf0 (s, en) e) as [[[s1 en1] o] tg]. cbn [fst snd] in F.
    destruct (IH s1 en1 _ (InvR_step _ _ _ _ _ _ I F)) as [s2 J]. exists s2.
    rewrite <- app_assoc in J. exact J.
Qed.

(* A response frame that reached the remote end of inbound carrier c is the payload the user gave
   to send_response for an inbound request id that was read from that very carrier. *)
Theorem response_wire cf0 evs c l t :
  let steps := run_steps cf0 (init_pst, init_env) evs in
  In (OWireR c l t) (outs_of steps) ->
  exists irid, origin steps irid c /\ supplied steps irid l t.
Proof.
  intros steps H. destruct (steps_InvR cf0 evs init_pst init_env [] InvR_init) as [s' J]. cbn [app] in J.
  exact (ir_wire _ _ J c l t H).
Qed.

(* ------------------------------------------------------------------ readers, the handle's pending_responses, the allocator *)

(* the inbound request id the user's call took out of pending_responses *)
Definition answer_of (e : ev) (tg : option N) : list N :=
  match e, tg with
  | EURespond _ _ _ _, Some i | EUReject _, Some i => [i]
  | _, _ => []
  end.
(* a stimulus on the read side of a carrier *)
Definition carrier_read (e : ev) : bool :=
  match e with EInReq _ _ _ | EEof _ | EErr _ => true | _ => false end.

Record HFacts (cf0 : cfg) (s : pst) (en : env) (s' : pst) (en' : env) (e : ev) (o : list out) (tg : option N) : Prop := mkHF {
  hf_rd : rdrs s' = rdrs s \/
          (exists c, rdrs s' = drop_rd c (rdrs s) /\ tg = Some c /\ carrier_read e = true) \/
          (exists p c neg, rdrs s' = rdrs s ++ [mkRd p (next_rid s) c neg] /\ next_rid s < next_rid s' /\
                           match max_inb cf0 with Some m => inbound_load s < m | None => True end);
  hf_hp : (hpend en' = hpend en /\ answer_of e tg = []) \/
          (exists rd, In rd (rdrs s) /\ rdrs s' = drop_rd (r_chan rd) (rdrs s) /\
                      hpend en' = hpend en ++ [r_irid rd] /\ answer_of e tg = []) \/
          (exists i, In i (hpend en) /\ hpend en' = filter (fun x => negb (x =? i)) (hpend en) /\ answer_of e tg = [i])
}.

Lemma quiet_h cf0 s en s' en' e o tg :
  rdrs s' = rdrs s -> hpend en' = hpend en -> answer_of e tg = [] -> HFacts cf0 s en s' en' e o tg.
Proof. intros A B C. constructor; left; auto. Qed.

Lemma rdrs_of_io s s' : same_io s s' -> rdrs s' = rdrs s.
Proof. intros [H _]. exact H. Qed.

Lemma nth_mod_in {A} k (l : list A) x : nth_mod k l = Some x -> In x l.
Proof. unfold nth_mod. destruct l; [discriminate|]. apply nth_error_In. Qed.

Lemma sent_of_fbl rd : sent_of (fbl_req rd) = [].
Proof. unfold fbl_req. destruct (r_neg rd =? 0); reflexivity. Qed.

Lemma inread_h s c good len tag :
  rdrs (fst (h_inread s c good len tag)) = drop_rd c (rdrs s) /\
  (sent_of (snd (h_inread s c good len tag)) = [] \/
   exists rd, In rd (rdrs s) /\ r_chan rd = c /\ sent_of (snd (h_inread s c good len tag)) = [r_irid rd]).
Proof.
  split; [apply inread_rdrs|].
  unfold h_inread. destruct (find_rd c (rdrs s)) as [rd|] eqn:F; [|left; reflexivity].
  apply find_some in F. destruct F as [Hin Hc]. apply N.eqb_eq in Hc.
  destruct (_ && _); [|left; reflexivity]. destruct good; [|left; reflexivity].
  right. exists rd. cbn [snd sent_of flat_map]. fold (fbl_req rd).
  change (flat_map _ (fbl_req rd)) with (sent_of (fbl_req rd)). rewrite sent_of_fbl. auto.
Qed.

Lemma step_hfacts cf0 s en e :
  let r := step cf0 (s, en) e in
  HFacts cf0 s en (fst (fst (fst r))) (snd (fst (fst r))) e (snd (fst r)) (snd r).
Proof.
  destruct e; cbn [step].
  - match goal with |- context [h_send s p dial len tag ?fb0 ?a0 ?b0 ?c0] =>
      pose proof (send_io s p dial len tag fb0 a0 b0 c0) as H end.
    destruct (h_send _ _ _ _ _ _ _ _ _) as [s1 o]. cbn [fst snd] in *.
    apply quiet_h; [exact (rdrs_of_io _ _ H)| |reflexivity].
    destruct (memN p (peers s)); [destruct (conn_of p en); [destruct (open_ok p en)|]|]; reflexivity.
  - pose proof (cancel_io s rid) as H. destruct (h_cancel s rid) as [s1 o].
    cbn [fst snd] in *. apply quiet_h; [exact (rdrs_of_io _ _ H)|reflexivity|reflexivity].
  - destruct (conn_of p en); cbn [fst snd]; [apply quiet_h; reflexivity|].
    match goal with |- context [h_established s p ?n ?sd] => pose proof (established_io s p n sd) as H end.
    destruct (h_established _ _ _ _) as [s1 o]. cbn [fst snd] in *. apply quiet_h; [exact (rdrs_of_io _ _ H)|reflexivity|reflexivity].
  - destruct (conn_of p en); cbn [fst snd]; [|apply quiet_h; reflexivity].
    pose proof (closed_io s p) as H. destruct (h_closed s p) as [s1 o].
    cbn [fst snd] in *. apply quiet_h; [exact (rdrs_of_io _ _ H)|reflexivity|reflexivity].
  - pose proof (dialfail_io s p) as H. destruct (h_dialfail s p) as [s1 o].
    cbn [fst snd] in *. apply quiet_h; [exact (rdrs_of_io _ _ H)|reflexivity|reflexivity].
  - destruct (nth_mod k (opens en)) as [[sid q]|]; cbn [fst snd]; [|apply quiet_h; reflexivity].
    pose proof (opened_io cf0 s sid (N.of_nat (length (chans en))) (N.min gate 2) (now en) neg) as H.
    destruct (h_opened _ _ _ _ _ _ _) as [s1 o]. cbn [fst snd] in *. apply quiet_h; [exact (rdrs_of_io _ _ H)|reflexivity|reflexivity].
  - destruct (nth_mod k (opens en)) as [[sid q]|]; cbn [fst snd]; [|apply quiet_h; reflexivity].
    pose proof (openfail_io s sid unsupported) as H.
    destruct (h_openfail _ _ _) as [s1 o]. cbn [fst snd] in *. apply quiet_h; [exact (rdrs_of_io _ _ H)|reflexivity|reflexivity].
  - destruct (chans en) as [|ch0 chs] eqn:CH; cbn [fst snd]; [apply quiet_h; reflexivity|].
    destruct (nth_error _ _) as [ch|]; cbn [fst snd]; [|apply quiet_h; reflexivity].
    destruct (c_gate ch =? 0); cbn [fst snd]; [|apply quiet_h; reflexivity].
    pose proof (unblock_io cf0 s (k mod N.of_nat (length (ch0 :: chs))) (now en)) as H.
    destruct (fut_unblock _ _ _ _) as [s1 o1]. cbn [fst snd] in *.
    match goal with |- context [rsp_gate s1 ?c ?b] =>
      pose proof (rsp_gate_rdrs s1 c b) as G; destruct (rsp_gate s1 c b) as [s2 o2] end.
    cbn [fst snd] in *. apply quiet_h; [rewrite G; exact (rdrs_of_io _ _ H)|reflexivity|reflexivity].
  - destruct (chans en) as [|ch0 chs] eqn:CH; cbn [fst snd]; [apply quiet_h; reflexivity|].
    destruct (nth_error _ _) as [ch|]; cbn [fst snd]; [|apply quiet_h; reflexivity].
    destruct (c_gate ch =? 2); cbn [fst snd]; [apply quiet_h; reflexivity|].
    pose proof (breakw_io s (k mod N.of_nat (length (ch0 :: chs)))) as H.
    destruct (fut_breakw _ _) as [s1 o1]. cbn [fst snd] in *.
    match goal with |- context [rsp_gate s1 ?c ?b] =>
      pose proof (rsp_gate_rdrs s1 c b) as G; destruct (rsp_gate s1 c b) as [s2 o2] end.
    cbn [fst snd] in *. apply quiet_h; [rewrite G; exact (rdrs_of_io _ _ H)|reflexivity|reflexivity].
  - destruct (chans en) as [|ch0 chs] eqn:CH; cbn [fst snd]; [apply quiet_h; reflexivity|].
    destruct (nth_error _ _) as [ch|]; cbn [fst snd]; [|apply quiet_h; reflexivity].
    destruct (c_out ch && c_seen ch); cbn [fst snd]; [|apply quiet_h; reflexivity].
    match goal with |- context [fut_read s ?c ?r] =>
      pose proof (read_io s c r) as H; destruct (fut_read s c r) as [s1 o] end.
    cbn [fst snd] in *. apply quiet_h; [exact (rdrs_of_io _ _ H)|reflexivity|reflexivity].
  - destruct (chans en) as [|ch0 chs] eqn:CH; cbn [fst snd]; [apply quiet_h; reflexivity|].
    destruct (nth_error _ _) as [ch|]; cbn [fst snd]; [|apply quiet_h; reflexivity].
    destruct (c_out ch); [destruct (c_seen ch)|]; cbn [fst snd]; try (apply quiet_h; reflexivity).
    + match goal with |- context [fut_read s ?c ?r] =>
        pose proof (read_io s c r) as H; destruct (fut_read s c r) as [s1 o] end.
      cbn [fst snd] in *. apply quiet_h; [exact (rdrs_of_io _ _ H)|reflexivity|reflexivity].
    + match goal with |- context [h_inread s ?c false ?l ?t] =>
        pose proof (inread_rdrs s c false l t) as G; destruct (h_inread s c false l t) as [s1 o] end.
      cbn [fst snd] in *. constructor; [|left; split; reflexivity].
      right. left. eexists. split; [exact G|split; reflexivity].
  - destruct (chans en) as [|ch0 chs] eqn:CH; cbn [fst snd]; [apply quiet_h; reflexivity|].
    destruct (nth_error _ _) as [ch|]; cbn [fst snd]; [|apply quiet_h; reflexivity].
    destruct (c_out ch); [destruct (c_seen ch)|]; cbn [fst snd]; try (apply quiet_h; reflexivity).
    + match goal with |- context [fut_read s ?c ?r] =>
        pose proof (read_io s c r) as H; destruct (fut_read s c r) as [s1 o] end.
      cbn [fst snd] in *. apply quiet_h; [exact (rdrs_of_io _ _ H)|reflexivity|reflexivity].
    + match goal with |- context [h_inread s ?c false ?l ?t] =>
        pose proof (inread_rdrs s c false l t) as G; destruct (h_inread s c false l t) as [s1 o] end.
      cbn [fst snd] in *. constructor; [|left; split; reflexivity].
      right. left. eexists. split; [exact G|split; reflexivity].
  - pose proof (complete_all_io (filter (fun f => f_dl f <=? now en + dt) (futs s)) s (RErr E_TIMEOUT)) as H.
    unfold fut_advance in *. destruct (complete_all _ _ _) as [s1 o]. cbn [fst snd] in *.
    apply quiet_h; [|reflexivity|reflexivity]. unfold rsp_advance. cbn [rdrs set_rsps]. exact (rdrs_of_io _ _ H).
  - (* inbound substream *)
    destruct (conn_of p en); cbn [fst snd]; [|apply quiet_h; reflexivity].
    unfold h_inopen.
    destruct (max_inb cf0) as [m|] eqn:M.
    + destruct (m <=? inbound_load s) eqn:L; cbn [fst snd]; [apply quiet_h; reflexivity|].
      destruct (memN p _); cbn [fst snd]; [|apply quiet_h; reflexivity].
      constructor; [|left; split; reflexivity]. right. right. exists p, (N.of_nat (length (chans en))), neg.
      cbn [rdrs set_rdrs set_inb set_next_rid next_rid]. split; [reflexivity|]. apply N.leb_gt in L. split; [lia|rewrite M; exact L].
    + cbn [fst snd]. destruct (memN p _); cbn [fst snd]; [|apply quiet_h; reflexivity].
      constructor; [|left; split; reflexivity]. right. right. exists p, (N.of_nat (length (chans en))), neg.
      cbn [rdrs set_rdrs set_inb set_next_rid next_rid]. split; [reflexivity|]. split; [lia|rewrite M; exact I].
  - (* inbound request *)
    destruct (chans en) as [|ch0 chs] eqn:CH; cbn [fst snd]; [apply quiet_h; reflexivity|].
    destruct (nth_error _ _) as [ch|]; cbn [fst snd]; [|apply quiet_h; reflexivity].
    destruct (negb (c_out ch)); cbn [fst snd]; [|apply quiet_h; reflexivity].
    match goal with |- context [h_inread s ?c ?g ?l ?t] =>
      pose proof (inread_h s c g l t) as [G1 G2]; destruct (h_inread s c g l t) as [s1 o] end.
    cbn [fst snd] in *. constructor.
    + right. left. eexists. split; [exact G1|split; reflexivity].
    + cbn [hpend]. destruct G2 as [G2|(rd & A & B & C)]; rewrite ?G2, ?C.
      * left. rewrite app_nil_r. split; reflexivity.
      * right. left. exists rd. rewrite B. auto.
  - destruct (nth_mod k (hpend en)) as [irid|] eqn:NM; cbn [fst snd]; [|apply quiet_h; reflexivity].
    match goal with |- context [h_uresp cf0 s ?a ?b ?c ?f ?d ?e] =>
      pose proof (uresp_rdrs cf0 s a b c f d e) as G; destruct (h_uresp cf0 s a b c f d e) as [s1 o] end.
    cbn [fst snd] in *. constructor; [left; exact G|].
    right. right. exists irid. split; [exact (nth_mod_in _ _ _ NM)|split; reflexivity].
  - destruct (nth_mod k (hpend en)) as [irid|] eqn:NM; cbn [fst snd]; [|apply quiet_h; reflexivity].
    unfold h_urej. cbn [fst snd]. constructor; [left; reflexivity|].
    right. right. exists irid. split; [exact (nth_mod_in _ _ _ NM)|split; reflexivity].
  - cbn [fst snd]. apply quiet_h; reflexivity.
  - unfold h_burn. cbn [fst snd]. apply quiet_h; reflexivity.
  - cbn [fst snd]. apply quiet_h; reflexivity.
  - cbn [fst snd]. apply quiet_h; reflexivity.
  - cbn [fst snd]. apply quiet_h; reflexivity.
  - cbn [fst snd]. apply quiet_h; reflexivity.
Qed.

Definition answer_ids (h : hist) : list N := flat_map (fun x => answer_of (fst (fst x)) (snd x)) h.

(* fresh ids: readers, the handle's pending responses and the answers already given never share an id *)
Record InvH (s : pst) (en : env) (h : hist) : Prop := mkIH {
  ih_hp_nd : NoDup (hpend en);
  ih_hp_lt : forall i, In i (hpend en) -> i < next_rid s;
  ih_rd_lt : forall rd, In rd (rdrs s) -> r_irid rd < next_rid s;
  ih_rd_nd : NoDup (map r_irid (rdrs s));
  ih_rd_hp : forall rd, In rd (rdrs s) -> ~ In (r_irid rd) (hpend en);
  ih_an : forall i, In i (answer_ids h) -> i < next_rid s /\ ~ In i (hpend en) /\ forall rd, In rd (rdrs s) -> r_irid rd <> i;
  ih_an_nd : NoDup (answer_ids h)
}.

Lemma InvH_init : InvH init_pst init_env [].
Proof. constructor; cbn; try (intros; contradiction); constructor. Qed.

Lemma answer_ids_snoc h e o tg : answer_ids (h ++ [(e, o, tg)]) = answer_ids h ++ answer_of e tg.
Proof. unfold answer_ids. rewrite flat_map_app. cbn. rewrite app_nil_r. reflexivity. Qed.

Lemma NoDup_map_filter_r {A} (f : A -> N) (g : A -> bool) l : NoDup (map f l) -> NoDup (map f (filter g l)).
Proof.
  induction l as [|a l IH]; cbn; intros H; [constructor|]. inversion H; subst.
  destruct (g a); cbn; [constructor; [|apply IH; assumption]|apply IH; assumption].
  intros Hin. apply H2. apply in_map_iff in Hin. destruct Hin as [x [E Hx]]. apply filter_In in Hx.
  apply in_map_iff. exists x. tauto.
Qed.

Lemma NoDup_filter {A} (g : A -> bool) l : NoDup l -> NoDup (filter g l).
Proof.
  induction l as [|a l IH]; cbn; intros H; [constructor|]. inversion H; subst.
  destruct (g a); [constructor; [|apply IH; assumption]|apply IH; assumption].
  intros Hin. apply filter_In in Hin. tauto.
Qed.

Lemma InvH_step cf0 s en h s' en' e o tg :
  InvH s en h -> next_rid s <= next_rid s' -> HFacts cf0 s en s' en' e o tg -> InvH s' en' (h ++ [(e, o, tg)]).
Proof.
  intros [H1 H2 H3 H4 H5 H6 H7] Mono [R P].
  (* readers of s' are readers of s, or the one fresh reader *)
  assert (Rsub : forall rd, In rd (rdrs s') -> In rd (rdrs s) \/ (r_irid rd = next_rid s /\ next_rid s < next_rid s')).
  { intros rd Hrd. destruct R as [R|[(c & R & _)|(p & c & neg & R & L & _)]]; rewrite R in Hrd.
    - left. exact Hrd.
    - left. unfold drop_rd in Hrd. apply filter_In in Hrd. tauto.
    - apply in_app_or in Hrd. destruct Hrd as [Hrd|[<-|[]]]; [left; exact Hrd|right; split; [reflexivity|exact L]]. }
  assert (Rnd : NoDup (map r_irid (rdrs s'))).
  { destruct R as [R|[(c & R & _)|(p & c & neg & R & L & _)]]; rewrite R.
    - exact H4.
    - apply NoDup_map_filter_r. exact H4.
    - rewrite map_app. cbn [map r_irid]. apply NoDup_snoc; [exact H4|].
      intros Hin. apply in_map_iff in Hin. destruct Hin as [x [E Hx]]. specialize (H3 x Hx). lia. }
  pose proof (answer_ids_snoc h e o tg) as AE.
  destruct P as [(P & A)|[(rd0 & Hrd0 & R0 & P & A)|(i0 & Hi0 & P & A)]]; rewrite A in AE; rewrite ?app_nil_r in AE.
  - (* the handle's table is unchanged *)
    constructor; rewrite ?AE, ?P; auto.
    + intros i Hi. specialize (H2 i Hi). lia.
    + intros rd Hrd. destruct (Rsub rd Hrd) as [Ho|[E L]]; [specialize (H3 rd Ho); lia|lia].
    + intros rd Hrd Hin. destruct (Rsub rd Hrd) as [Ho|[E L]]; [exact (H5 rd Ho Hin)|]. specialize (H2 _ Hin). lia.
    + intros i Hi. destruct (H6 i Hi) as (A1 & A2 & A3). split; [lia|]. split; [exact A2|].
      intros rd Hrd. destruct (Rsub rd Hrd) as [Ho|[E L]]; [exact (A3 rd Ho)|lia].
  - (* a request was handed to the user *)
    assert (Rsub0 : forall rd, In rd (rdrs s') -> In rd (rdrs s) /\ r_chan rd <> r_chan rd0).
    { intros rd Hrd. rewrite R0 in Hrd. unfold drop_rd in Hrd. apply filter_In in Hrd. destruct Hrd as [X Y].
      split; [exact X|]. intros E. rewrite E, N.eqb_refl in Y. discriminate. }
    assert (Rne : forall rd, In rd (rdrs s') -> r_irid rd <> r_irid rd0).
    { intros rd Hrd E. destruct (Rsub0 rd Hrd) as [X Y]. apply Y.
      clear - H4 X Hrd0 E. induction (rdrs s) as [|a l IH]; [destruct X|]. cbn [map] in H4. inversion H4; subst.
      destruct X as [->|X], Hrd0 as [->|Y0]; auto.
      - exfalso. apply H1. rewrite E. apply in_map. exact Y0.
      - exfalso. apply H1. rewrite <- E. apply in_map. exact X. }
    constructor; rewrite ?AE, ?P; auto.
    + apply NoDup_snoc; [exact H1|exact (H5 rd0 Hrd0)].
    + intros i Hi. apply in_app_or in Hi. destruct Hi as [Hi|[<-|[]]]; [specialize (H2 i Hi); lia|specialize (H3 rd0 Hrd0); lia].
    + intros rd Hrd. destruct (Rsub0 rd Hrd) as [X _]. specialize (H3 rd X). lia.
    + intros rd Hrd Hin. apply in_app_or in Hin. destruct Hin as [Hin|[E|[]]].
      * destruct (Rsub0 rd Hrd) as [X _]. exact (H5 rd X Hin).
      * exact (Rne rd Hrd (eq_sym E)).
    + intros i Hi. destruct (H6 i Hi) as (A1 & A2 & A3). split; [lia|]. split.
      * intros Hin. apply in_app_or in Hin. destruct Hin as [Hin|[E|[]]]; [exact (A2 Hin)|exact (A3 rd0 Hrd0 E)].
      * intros rd Hrd. destruct (Rsub0 rd Hrd) as [X _]. exact (A3 rd X).
  - (* the user answered i0 *)
    constructor; rewrite ?AE, ?P; auto.
    + apply NoDup_filter. exact H1.
    + intros i Hi. apply filter_In in Hi. destruct Hi as [Hi _]. specialize (H2 i Hi). lia.
    + intros rd Hrd. destruct (Rsub rd Hrd) as [Ho|[E L]]; [specialize (H3 rd Ho); lia|lia].
    + intros rd Hrd Hin. apply filter_In in Hin. destruct Hin as [Hin _].
      destruct (Rsub rd Hrd) as [Ho|[E L]]; [exact (H5 rd Ho Hin)|]. specialize (H2 _ Hin). lia.
    + intros i Hi. apply in_app_or in Hi. destruct Hi as [Hi|[<-|[]]].
      * destruct (H6 i Hi) as (A1 & A2 & A3). split; [lia|]. split.
        -- intros Hin. apply filter_In in Hin. tauto.
        -- intros rd Hrd. destruct (Rsub rd Hrd) as [Ho|[E L]]; [exact (A3 rd Ho)|lia].
      * split; [specialize (H2 _ Hi0); lia|]. split.
        -- intros Hin. apply filter_In in Hin. destruct Hin as [_ Hin]. rewrite N.eqb_refl in Hin. discriminate.
        -- intros rd Hrd E. destruct (Rsub rd Hrd) as [Ho|[E' L]]; [apply (H5 rd Ho); rewrite E; exact Hi0|].
           specialize (H2 _ Hi0). lia.
    + apply NoDup_snoc; [exact H7|]. intros Hin. destruct (H6 _ Hin) as (_ & A2 & _). exact (A2 Hi0).
Qed.

Lemma step_next cf0 s en e : next_rid s <= next_rid (fst (fst (fst (step cf0 (s, en) e)))).
Proof. exact (proj1 (step_DP cf0 s en e)). Qed.

Lemma steps_InvH cf0 evs : forall s en h,
  InvH s en h -> exists s' en', InvH s' en' (h ++ run_steps cf0 (s, en) evs).
Proof.
  induction evs as [|e evs IH]; intros s en h I; cbn [run_steps].
  - exists s, en. rewrite app_nil_r. exact I.
  - pose proof (step_hfacts cf0 s en e) as F. pose proof (step_next cf0 s en e) as M. cbn zeta in F.
    destruct (step cf0 (s, en) e) as [[[s1 en1] o] tg]. cbn [fst snd] in F, M.
    destruct (IH s1 en1 _ (InvH_step _ _ _ _ _ _ _ _ _ I M F)) as [s2 [en2 J]]. exists s2, en2.
    rewrite <- app_assoc in J. exact J.
Qed.

(* RequestResponseHandle::send_response / send_response_with_feedback / reject_request take the
   oneshot sender out of pending_responses: of all the calls the user makes for an inbound request
   id, at most one finds the entry (the others are no-ops, target = None). *)
Theorem respond_once cf0 evs : NoDup (answer_ids (run_steps cf0 (init_pst, init_env) evs)).
Proof.
  destruct (steps_InvH cf0 evs init_pst init_env [] InvH_init) as [s' [en' J]]. cbn [app] in J.
  exact (ih_an_nd _ _ _ J).
Qed.

(* ------------------------------------------------------------------ no timeout on the inbound side *)

(* Nothing but an event on its own carrier (a request frame, the end of the stream, a read error)
   takes a reader out of pending_inbound_requests: not the clock, not the ConnectionClosed of its
   peer, not the user. *)
Theorem reader_leaves_only_on_carrier_event cf0 s en e rd :
  let r := step cf0 (s, en) e in
  In rd (rdrs s) -> ~ In rd (rdrs (fst (fst (fst r)))) ->
  carrier_read e = true /\ snd r = Some (r_chan rd).
Proof.
  intros r Hin Hout. pose proof (step_hfacts cf0 s en e) as [R _]. fold r in R.
  destruct R as [R|[(c & R & T & C)|(p & c & neg & R & _)]]; rewrite R in Hout.
  - contradiction.
  - split; [exact C|]. rewrite T. f_equal. unfold drop_rd in Hout.
    destruct (r_chan rd =? c) eqn:E; [apply N.eqb_eq in E; auto|].
    exfalso. apply Hout. apply filter_In. split; [exact Hin|rewrite E; reflexivity].
  - exfalso. apply Hout. apply in_or_app. left. exact Hin.
Qed.

Definition touches (cs : list N) (x : ev * list out * option N) : bool :=
  carrier_read (fst (fst x)) && match snd x with Some c => memN c cs | None => false end.

Lemma drop_rd_untouched c l : memN c (map r_chan l) = false -> drop_rd c l = l.
Proof.
  intros H. unfold drop_rd. apply filter_all. intros x Hx.
  destruct (r_chan x =? c) eqn:E; [|reflexivity]. apply N.eqb_eq in E.
  assert (memN c (map r_chan l) = true) by (apply memN_in; rewrite <- E; apply in_map; exact Hx). congruence.
Qed.

(* With the bound configured and every slot taken by a substream whose remote side stays silent
   (no request frame, no end of stream, no read error on those carriers), the slots stay taken
   whatever else happens — any amount of time passing, connections closing, the user's calls,
   further inbound substreams from any peer — and no RequestReceived is produced at all: every
   further inbound substream is refused. *)
Theorem silent_remotes_pin_slots cf0 m evs : forall s en,
  max_inb cf0 = Some m -> m <= N.of_nat (length (rdrs s)) ->
  let steps := run_steps cf0 (s, en) evs in
  forallb (fun x => negb (touches (map r_chan (rdrs s)) x)) steps = true ->
  rdrs (fst (fst (run cf0 (s, en) evs))) = rdrs s /\
  forall x, In x steps -> has_req (snd (fst x)) = false.
Proof.
  induction evs as [|e evs IH]; intros s en M Full steps Hq; subst steps; cbn [run run_steps] in *.
  - split; [reflexivity|intros x []].
  - pose proof (step_hfacts cf0 s en e) as [R _]. pose proof (step_shape cf0 s en e) as Sh. cbn zeta in *.
    destruct (step cf0 (s, en) e) as [[[s1 en1] o] tg] eqn:ST. cbn [fst snd] in *.
    cbn [forallb] in Hq. apply andb_prop in Hq. destruct Hq as [Hq1 Hq].
    unfold touches in Hq1. cbn [fst snd] in Hq1. apply negb_true_iff in Hq1.
    assert (R1 : rdrs s1 = rdrs s).
    { destruct R as [R|[(c & R & T & C)|(p & c & neg & R & _ & L)]].
      - exact R.
      - rewrite R. apply drop_rd_untouched. rewrite T, C in Hq1. exact Hq1.
      - exfalso. rewrite M in L. unfold inbound_load in L. lia. }
    assert (Hreq : has_req o = false).
    { destruct Sh as [P|[(k0 & g0 & n0 & c & po & o' & _ & Eo & P & _)|[(k & l & t & c & f & _ & _ & _ & Eo)|(k & l & t & c & rd & Ee & Et & F & _)]]].
      - exact (calml_noreq _ (plain_calm _ P)).
      - rewrite Eo. cbn [has_req existsb]. exact (calml_noreq _ (plain_calm _ P)).
      - rewrite Eo. cbn [has_req existsb]. exact (calml_noreq _ (plain_calm _ (fbl_resp_plain f))).
      - exfalso. subst e tg. cbn [carrier_read andb] in Hq1.
        apply find_some in F. destruct F as [Hin Hc]. apply N.eqb_eq in Hc.
        assert (memN c (map r_chan (rdrs s)) = true) by (apply memN_in; rewrite <- Hc; apply in_map; exact Hin).
        congruence. }
    rewrite <- R1 in Hq, Full. destruct (IH s1 en1 M Full Hq) as [A B].
    destruct (run cf0 (s1, en1) evs) as [st2 o2]. cbn [fst snd] in *. split; [congruence|].
    intros x [<-|Hx]; [exact Hreq|exact (B x Hx)].
Qed.

(* the refusal itself: at the bound, on_inbound_substream closes the substream and registers nothing *)
Theorem full_refuses cf0 m s p c neg :
  max_inb cf0 = Some m -> m <= inbound_load s -> h_inopen cf0 s p c neg = (s, []).
Proof. intros M L. unfold h_inopen. rewrite M. apply N.leb_le in L. rewrite L. reflexivity. Qed.

(* ------------------------------------------------------------------ the request-id allocator

   next_request_id is an AtomicUsize shared by the handle (outbound ids) and the protocol (inbound
   ids); fetch_add wraps at 2^64.  The model counts from 0 without a bound; the implementation's
   id of the model's id i is (r0 + i) mod 2^64, r0 being the counter's start value (0 in
   production; the harness also starts it just below 2^64).  The renaming is injective below 2^64
   allocations, and the (2^64 + 1)-th id is the first one again. *)
Definition USIZE : N := 18446744073709551616.
Definition impl_id (r0 i : N) : N := (r0 + i) mod USIZE.

Theorem alloc_wrap_injective r0 i j :
  i < USIZE -> j < USIZE -> impl_id r0 i = impl_id r0 j -> i = j.
Proof.
  unfold impl_id, USIZE. intros Hi Hj E.
  assert (G : forall a b, a < 18446744073709551616 -> b < 18446744073709551616 -> a <= b ->
              (r0 + a) mod 18446744073709551616 = (r0 + b) mod 18446744073709551616 -> a = b).
  { intros a b Ha Hb L E'.
    pose proof (N.div_mod (r0 + a) 18446744073709551616) as D1.
    pose proof (N.div_mod (r0 + b) 18446744073709551616) as D2.
    rewrite E' in D1.
    pose proof (N.mod_lt (r0 + b) 18446744073709551616) as Lt.
    set (q1 := (r0 + a) / 18446744073709551616) in *. set (q2 := (r0 + b) / 18446744073709551616) in *.
    set (m0 := (r0 + b) mod 18446744073709551616) in *. lia. }
  destruct (N.le_ge_cases i j) as [L|L]; [apply G; auto|symmetry; apply G; auto].
Qed.

Theorem alloc_wrap_period r0 i : impl_id r0 (i + USIZE) = impl_id r0 i.
Proof.
  unfold impl_id, USIZE. replace (r0 + (i + 18446744073709551616)) with ((r0 + i) + 1 * 18446744073709551616) by lia.
  apply N.mod_add. lia.
Qed.
