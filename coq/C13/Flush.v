(* C13 — the environment discharges what it owes: after ANY history, a DialFailure for every
   accepted and unanswered dial, a ConnectionClosed for every connection and a clock advance
   past the request timeout leave the transport contract ledger discharged.  With
   exactly_one_contract this gives an exactly-one statement without a premise on the final state. *)
From Coq Require Import List NArith Bool Lia Arith.
From V.common Require Import Wire.
From V.C13 Require Import Model Proofs.
Import ListNotations.
Open Scope N_scope.

Arguments N.add : simpl never.
Arguments N.sub : simpl never.
Arguments N.eqb : simpl never.
Arguments N.ltb : simpl never.
Arguments N.leb : simpl never.
Arguments N.of_nat : simpl never.

(* ------------------------------------------------------------------ the run with its ledger *)

Fixpoint grun_from (cf : cfg) (st : pst * env) (g : ghost) (l : list ev) : (pst * env) * ghost :=
  match l with
  | [] => (st, g)
  | e :: t => let '(st1, o, tg) := step cf st e in grun_from cf st1 (gstep cf e o tg g) t
  end.

Lemma grun_from_ghost cf l : forall st g, snd (grun_from cf st g l) = grun cf g (run_steps cf st l).
Proof.
  induction l as [|e l IH]; intros st g; cbn [grun_from run_steps grun]; [reflexivity|].
  destruct (step cf st e) as [[st1 o] tg]. cbn [grun]. apply IH.
Qed.

Lemma grun_from_state cf l : forall st g, fst (grun_from cf st g l) = fst (run cf st l).
Proof.
  induction l as [|e l IH]; intros st g; cbn [grun_from run]; [reflexivity|].
  destruct (step cf st e) as [[st1 o] tg]. rewrite IH. destruct (run cf st1 l). reflexivity.
Qed.

Lemma grun_from_app cf a : forall b st g,
  grun_from cf st g (a ++ b) = grun_from cf (fst (grun_from cf st g a)) (snd (grun_from cf st g a)) b.
Proof.
  induction a as [|e a IH]; intros b st g; cbn [app grun_from fst snd]; [reflexivity|].
  destruct (step cf st e) as [[st1 o] tg]. apply IH.
Qed.

(* ------------------------------------------------------------------ which steps open substreams *)

Lemma ncl_no_open o x : ncl o -> In x (o_opens o) -> False.
Proof. intros H. destruct (ncl_nocall _ H) as (_ & E & _). rewrite E. intros []. Qed.

Lemma established_opens s p nok sid x : In x (o_opens (snd (h_established s p nok sid))) -> snd x = p.
Proof.
  unfold h_established. destruct (memN p (peers s)); [intros []|].
  destruct (filter _ (dials s)) as [|d0 mine]; [intros []|].
  destruct (firstn nok (d0 :: mine)); cbn [snd].
  - destruct (o_quiet_map_fail (fun d : N * req => q_rid (snd d)) E_SUBSTREAM (skipn nok (d0 :: mine))) as (_ & E & _).
    rewrite E. intros [].
  - rewrite o_opens_app.
    destruct (o_quiet_map_fail (fun d : N * req => q_rid (snd d)) E_SUBSTREAM (skipn nok (d0 :: mine))) as (_ & E & _).
    rewrite E, o_opens_map_open. cbn [app]. intros H. apply in_map_iff in H. destruct H as [po [<- _]]. reflexivity.
Qed.

Lemma step_opens cf s en e x :
  In x (o_opens (snd (fst (step cf (s, en) e)))) ->
  (exists d l t fb, e = ESend (snd x) d l t fb /\ memN (snd x) (peers s) = true) \/
  (exists b c, e = EEstablished (snd x) b c /\ conn_of (snd x) en = None).
Proof.
  destruct e; cbn [step].
  - (* send *)
    destruct (h_send s p dial len tag fb (open_ok p en) (dial_res cf en p) (next_sid en)) as [s1 o] eqn:E.
    cbn [fst snd]. apply (f_equal snd) in E. cbn [snd] in E. subst o. unfold h_send. simp_sets.
    destruct (memN p (peers s)) eqn:Mp; [destruct (open_ok p en)|destruct dial; cbn [negb]; [destruct (dial_accepted _)|]];
      cbn [snd o_opens flat_map app]; intros Hx; try (destruct Hx; fail).
    destruct Hx as [<-|[]]. cbn [snd]. left. eauto 6.
  - pose proof (cancel_ncl s rid) as H. destruct (h_cancel s rid) as [s1 o]. cbn [fst snd] in *.
    intros Hx. destruct (ncl_no_open _ _ H Hx).
  - destruct (conn_of p en) eqn:Cp; cbn [fst snd]; [intros []|].
    match goal with |- context [h_established s p ?n ?sd] =>
      pose proof (established_opens s p n sd x) as H; destruct (h_established s p n sd) as [s1 o] end.
    cbn [fst snd] in *. intros Hx. rewrite (H Hx). right. eauto.
  - destruct (conn_of p en); cbn [fst snd]; [|intros []].
    pose proof (closed_ncl s p) as H. destruct (h_closed s p) as [s1 o]. cbn [fst snd] in *.
    intros Hx. destruct (ncl_no_open _ _ H Hx).
  - pose proof (dialfail_ncl s p) as H. destruct (h_dialfail s p) as [s1 o]. cbn [fst snd] in *.
    intros Hx. destruct (ncl_no_open _ _ H Hx).
  - destruct (nth_mod k (opens en)) as [[sid q]|]; cbn [fst snd]; [|intros []].
    unfold h_opened. destruct (find_po sid (pouts s)) as [po|]; cbn [fst snd]; [|intros []].
    pose proof (opened_body_ncl cf s po (N.of_nat (length (chans en))) (N.min gate 2) (now en) neg) as H.
    destruct (opened_body _ _ _ _ _ _ _) as [s1 o]. cbn [fst snd] in *.
    change (o_opens (OBind (N.of_nat (length (chans en))) (q_rid (po_req po)) :: o)) with (o_opens o).
    intros Hx. destruct (ncl_no_open _ _ H Hx).
  - destruct (nth_mod k (opens en)) as [[sid q]|]; cbn [fst snd]; [|intros []].
    pose proof (openfail_ncl s sid unsupported) as H. destruct (h_openfail _ _ _) as [s1 o]. cbn [fst snd] in *.
    intros Hx. destruct (ncl_no_open _ _ H Hx).
  - destruct (chans en) as [|ch0 chs]; cbn [fst snd]; [intros []|].
    destruct (nth_error _ _) as [ch|]; cbn [fst snd]; [|intros []].
    destruct (c_gate ch =? 0); cbn [fst snd]; [|intros []].
    match goal with |- context [fut_unblock cf s ?c ?n] =>
      pose proof (unblock_ncl cf s c n) as H1; destruct (fut_unblock cf s c n) as [s1 o1] end.
    match goal with |- context [rsp_gate s1 ?c ?b] =>
      pose proof (rsp_gate_ncl s1 c b) as H2; destruct (rsp_gate s1 c b) as [s2 o2] end.
    cbn [fst snd] in *. intros Hx. destruct (ncl_no_open _ _ (ncl_app _ _ H1 H2) Hx).
  - destruct (chans en) as [|ch0 chs]; cbn [fst snd]; [intros []|].
    destruct (nth_error _ _) as [ch|]; cbn [fst snd]; [|intros []].
    destruct (c_gate ch =? 2); cbn [fst snd]; [intros []|].
    match goal with |- context [fut_breakw s ?c] =>
      pose proof (breakw_ncl s c) as H1; destruct (fut_breakw s c) as [s1 o1] end.
    match goal with |- context [rsp_gate s1 ?c ?b] =>
      pose proof (rsp_gate_ncl s1 c b) as H2; destruct (rsp_gate s1 c b) as [s2 o2] end.
    cbn [fst snd] in *. intros Hx. destruct (ncl_no_open _ _ (ncl_app _ _ H1 H2) Hx).
  - destruct (chans en) as [|ch0 chs]; cbn [fst snd]; [intros []|].
    destruct (nth_error _ _) as [ch|]; cbn [fst snd]; [|intros []].
    destruct (c_out ch && c_seen ch); cbn [fst snd]; [|intros []].
    match goal with |- context [fut_read s ?c ?r] =>
      pose proof (read_ncl s c r) as H1; destruct (fut_read s c r) as [s1 o] end.
    cbn [fst snd] in *. intros Hx. destruct (ncl_no_open _ _ H1 Hx).
  - destruct (chans en) as [|ch0 chs]; cbn [fst snd]; [intros []|].
    destruct (nth_error _ _) as [ch|]; cbn [fst snd]; [|intros []].
    destruct (c_out ch); [destruct (c_seen ch)|]; cbn [fst snd]; try (intros []).
    + match goal with |- context [fut_read s ?c ?r] =>
        pose proof (read_ncl s c r) as H1; destruct (fut_read s c r) as [s1 o] end.
      cbn [fst snd] in *. intros Hx. destruct (ncl_no_open _ _ H1 Hx).
    + match goal with |- context [h_inread s ?c ?gd ?l ?t] =>
        pose proof (inread_ncl s c gd l t) as H1; destruct (h_inread s c gd l t) as [s1 o] end.
      cbn [fst snd] in *. intros Hx. destruct (ncl_no_open _ _ H1 Hx).
  - destruct (chans en) as [|ch0 chs]; cbn [fst snd]; [intros []|].
    destruct (nth_error _ _) as [ch|]; cbn [fst snd]; [|intros []].
    destruct (c_out ch); [destruct (c_seen ch)|]; cbn [fst snd]; try (intros []).
    + match goal with |- context [fut_read s ?c ?r] =>
        pose proof (read_ncl s c r) as H1; destruct (fut_read s c r) as [s1 o] end.
      cbn [fst snd] in *. intros Hx. destruct (ncl_no_open _ _ H1 Hx).
    + match goal with |- context [h_inread s ?c ?gd ?l ?t] =>
        pose proof (inread_ncl s c gd l t) as H1; destruct (h_inread s c gd l t) as [s1 o] end.
      cbn [fst snd] in *. intros Hx. destruct (ncl_no_open _ _ H1 Hx).
  - pose proof (advance_ncl s (now en + dt)) as H1. destruct (fut_advance s (now en + dt)) as [s1 o]. cbn [fst snd] in *.
    pose proof (adv_out_ncl s1 (now en + dt)) as H2.
    intros Hx. destruct (ncl_no_open _ _ (ncl_app _ _ H1 H2) Hx).
  - destruct (conn_of p en); cbn [fst snd]; [|intros []].
    pose proof (inopen_same cf s p (N.of_nat (length (chans en))) neg) as [_ O].
    destruct (h_inopen _ _ _ _ _) as [s1 o]. cbn [fst snd] in *. subst o. intros [].
  - destruct (chans en) as [|ch0 chs]; cbn [fst snd]; [intros []|].
    destruct (nth_error _ _) as [ch|]; cbn [fst snd]; [|intros []].
    destruct (negb (c_out ch)); cbn [fst snd]; [|intros []].
    match goal with |- context [h_inread s ?c ?gd ?l ?t] =>
      pose proof (inread_ncl s c gd l t) as H1; destruct (h_inread s c gd l t) as [s1 o] end.
    cbn [fst snd] in *. intros Hx. destruct (ncl_no_open _ _ H1 Hx).
  - destruct (nth_mod k (hpend en)) as [irid|]; cbn [fst snd]; [|intros []].
    match goal with |- context [h_uresp cf s ?a ?b ?c ?f ?d ?e0] =>
      pose proof (uresp_ncl cf s a b c f d e0) as H1; destruct (h_uresp cf s a b c f d e0) as [s1 o] end.
    cbn [fst snd] in *. intros Hx. destruct (ncl_no_open _ _ H1 Hx).
  - destruct (nth_mod k (hpend en)) as [irid|]; cbn [fst snd]; intros [].
  - cbn [fst snd]. intros [].
  - cbn [fst snd]. intros [].
  - cbn [fst snd]. intros [].
  - cbn [fst snd]. intros [].
  - cbn [fst snd]. intros [].
  - cbn [fst snd]. intros [].
Qed.

(* ------------------------------------------------------------------ opens belong to connected peers *)

(* every accepted, unanswered open_substream of the ledger is on a connection the ledger knows *)
Definition OP (g : ghost) : Prop := forall x, In x (g_opens g) -> In (snd x) (g_conn g).

Lemma OP_init : OP g0.
Proof. intros x []. Qed.

Lemma in_filter_neq (p q : N) l : In q l -> q <> p -> In q (filter (fun x => negb (x =? p)) l).
Proof. intros H Hn. apply filter_In. split; [exact H|]. apply negb_true_iff. apply N.eqb_neq. exact Hn. Qed.

Lemma step_OP cf s en g e :
  GI cf s en g -> OP g ->
  let r := step cf (s, en) e in
  OP (gstep cf e (snd (fst r)) (snd r) g).
Proof.
  intros G O r x Hx. subst r.
  pose proof (step_opens cf s en e x) as SO.
  destruct (step cf (s, en) e) as [[st1 o] tg]. cbn [fst snd] in *.
  unfold gstep in *. cbn [g_opens g_conn] in *.
  apply in_app_or in Hx. destruct Hx as [Hx|Hx].
  - (* an older open *)
    destruct e; try (destruct tg); cbn [memN existsb] in *;
      try (apply filter_In in Hx; destruct Hx as [Hx _]);
      try (exact (O x Hx));
      try (destruct (memN p (g_conn g)); [exact (O x Hx)|apply in_or_app; left; exact (O x Hx)]).
    + (* closed, tg = Some *)
      destruct (memN p (g_conn g)) eqn:M.
      * apply filter_In in Hx. destruct Hx as [Hx Hn]. apply in_filter_neq; [exact (O x Hx)|].
        apply negb_true_iff in Hn. apply N.eqb_neq in Hn. exact Hn.
      * apply in_filter_neq; [exact (O x Hx)|]. intros E. rewrite <- E in M.
        assert (memN (snd x) (g_conn g) = true) by (apply memN_in; exact (O x Hx)). congruence.
    + destruct (memN p (g_conn g)) eqn:M.
      * apply filter_In in Hx. destruct Hx as [Hx Hn]. apply in_filter_neq; [exact (O x Hx)|].
        apply negb_true_iff in Hn. apply N.eqb_neq in Hn. exact Hn.
      * apply in_filter_neq; [exact (O x Hx)|]. intros E. rewrite <- E in M.
        assert (memN (snd x) (g_conn g) = true) by (apply memN_in; exact (O x Hx)). congruence.
  - (* an open made in this step *)
    destruct (SO Hx) as [(d & l & t & fb & -> & Mp)|(b & c & -> & Cp)].
    + apply memN_in in Mp. apply (gi_conn _ _ _ _ G). exact (gi_pc _ _ _ _ G _ Mp).
    + assert (M : memN (snd x) (g_conn g) = false).
      { destruct (memN (snd x) (g_conn g)) eqn:M; [|reflexivity]. apply memN_in in M.
        apply (gi_conn _ _ _ _ G) in M. congruence. }
      rewrite M. apply in_or_app. right. left. reflexivity.
Qed.

Lemma run_GI_OP cf evs : forall s en g tr,
  0 < tmo cf -> GI cf s en g -> Inv s tr -> OP g ->
  let r := grun_from cf (s, en) g evs in
  GI cf (fst (fst r)) (snd (fst r)) (snd r) /\ OP (snd r) /\
  exists tr', Inv (fst (fst r)) tr'.
Proof.
  induction evs as [|e evs IH]; intros s en g tr T G I O; cbn [grun_from fst snd].
  - split; [exact G|split; [exact O|exists tr; exact I]].
  - pose proof (step_Inv cf s en e tr I) as I'. pose proof (step_GI cf s en g tr e T G I) as G'. cbn zeta in G'.
    specialize (G' I'). pose proof (step_OP cf s en g e G O) as O'. cbn zeta in O'.
    destruct (step cf (s, en) e) as [[[s1 en1] o] tg]. cbn [fst snd] in *.
    exact (IH s1 en1 _ (tr ++ o) T G' I' O').
Qed.

(* ------------------------------------------------------------------ the three kinds of discharging stimuli *)

Definition flushing (e : ev) : bool :=
  match e with EDialFail _ | EClosed _ | EAdvance _ => true | _ => false end.

Lemma flushing_nocall cf st e : flushing e = true -> nocall (snd (fst (step cf st e))).
Proof.
  destruct st as [s en]. destruct e; try discriminate; intros _; cbn [step].
  - destruct (conn_of p en); cbn [fst snd]; [|apply nocall_nil].
    pose proof (closed_ncl s p) as H. destruct (h_closed s p) as [s1 o]. cbn [fst snd] in *. apply ncl_nocall. exact H.
  - pose proof (dialfail_ncl s p) as H. destruct (h_dialfail s p) as [s1 o]. cbn [fst snd] in *. apply ncl_nocall. exact H.
  - pose proof (advance_ncl s (now en + dt)) as H1. destruct (fut_advance s (now en + dt)) as [s1 o]. cbn [fst snd] in *.
    pose proof (adv_out_ncl s1 (now en + dt)) as H2. apply ncl_nocall. apply ncl_app; assumption.
Qed.

Lemma filter_true {A} (l : list A) : filter (fun _ => true) l = l.
Proof. apply filter_all. reflexivity. Qed.

(* what such a stimulus does to the ledger *)
Lemma gstep_flush cf e o tg g :
  flushing e = true -> nocall o ->
  g_now (gstep cf e o tg g) = match e with EAdvance dt => g_now g + dt | _ => g_now g end /\
  g_conn (gstep cf e o tg g) = match e with EClosed p => filter (fun x => negb (x =? p)) (g_conn g) | _ => g_conn g end /\
  g_dials (gstep cf e o tg g) = match e with EDialFail p => filter (fun x => negb (memN x [p])) (g_dials g) | _ => g_dials g end /\
  g_opens (gstep cf e o tg g) = match e with
                                | EClosed p => if memN p (g_conn g) then filter (fun x => negb (snd x =? p)) (g_opens g) else g_opens g
                                | _ => g_opens g end /\
  incl (g_live (gstep cf e o tg g)) (g_live g).
Proof.
  intros F (N1 & N2 & N3). unfold gstep. rewrite N1, N2, N3. cbn [map]. rewrite !app_nil_r.
  destruct e; try discriminate; cbn [g_now g_conn g_dials g_opens g_live memN existsb negb];
    rewrite ?filter_true; repeat split; try reflexivity;
    try (destruct tg; reflexivity);
    try (intros y Hy; apply filter_In in Hy; exact (proj1 Hy)).
Qed.

Lemma phase_dials cf ds : forall st g,
  let r := grun_from cf st g (map EDialFail ds) in
  g_now (snd r) = g_now g /\ g_conn (snd r) = g_conn g /\ g_opens (snd r) = g_opens g /\
  incl (g_live (snd r)) (g_live g) /\
  (forall p, In p (g_dials (snd r)) -> In p (g_dials g) /\ ~ In p ds).
Proof.
  induction ds as [|d ds IH]; intros st g; cbn [map grun_from snd].
  - repeat split; auto. apply incl_refl.
  - pose proof (flushing_nocall cf st (EDialFail d) eq_refl) as NC.
    destruct (step cf st (EDialFail d)) as [[st1 o] tg]. cbn [fst snd] in NC.
    destruct (gstep_flush cf (EDialFail d) o tg g eq_refl NC) as (A1 & A2 & A3 & A4 & A5).
    destruct (IH st1 (gstep cf (EDialFail d) o tg g)) as (B1 & B2 & B3 & B4 & B5).
    repeat split; try congruence.
    + exact (incl_tran B4 A5).
    + destruct (B5 p H) as [H1 _]. rewrite A3 in H1. apply filter_In in H1. tauto.
    + intros [<-|Hin].
      * destruct (B5 d H) as [H1 _]. rewrite A3 in H1. apply filter_In in H1. destruct H1 as [_ H1].
        cbn [memN existsb] in H1. rewrite N.eqb_refl in H1. discriminate.
      * destruct (B5 p H) as [_ H2]. contradiction.
Qed.

Lemma phase_closed cf cs : forall st g,
  OP g ->
  let r := grun_from cf st g (map EClosed cs) in
  g_now (snd r) = g_now g /\ g_dials (snd r) = g_dials g /\ OP (snd r) /\
  incl (g_live (snd r)) (g_live g) /\
  (forall p, In p (g_conn (snd r)) -> In p (g_conn g) /\ ~ In p cs).
Proof.
  induction cs as [|c cs IH]; intros st g O; cbn [map grun_from snd].
  - repeat split; auto. apply incl_refl.
  - pose proof (flushing_nocall cf st (EClosed c) eq_refl) as NC.
    destruct (step cf st (EClosed c)) as [[st1 o] tg]. cbn [fst snd] in NC.
    destruct (gstep_flush cf (EClosed c) o tg g eq_refl NC) as (A1 & A2 & A3 & A4 & A5).
    assert (O1 : OP (gstep cf (EClosed c) o tg g)).
    { intros x Hx. rewrite A2. rewrite A4 in Hx. destruct (memN c (g_conn g)) eqn:M.
      - apply filter_In in Hx. destruct Hx as [Hx Hn]. apply in_filter_neq; [exact (O x Hx)|].
        apply negb_true_iff in Hn. apply N.eqb_neq in Hn. exact Hn.
      - apply in_filter_neq; [exact (O x Hx)|]. intros E. rewrite <- E in M.
        assert (memN (snd x) (g_conn g) = true) by (apply memN_in; exact (O x Hx)). congruence. }
    destruct (IH st1 (gstep cf (EClosed c) o tg g) O1) as (B1 & B2 & B3 & B4 & B5).
    repeat split; try congruence; try exact B3.
    + exact (incl_tran B4 A5).
    + destruct (B5 p H) as [H1 _]. rewrite A2 in H1. apply filter_In in H1. tauto.
    + intros [<-|Hin].
      * destruct (B5 c H) as [H1 _]. rewrite A2 in H1. apply filter_In in H1. destruct H1 as [_ H1].
        rewrite N.eqb_refl in H1. discriminate.
      * destruct (B5 p H) as [_ H2]. contradiction.
Qed.

(* ------------------------------------------------------------------ the theorem *)

Lemma cancel_reqs_app a b : cancel_reqs (a ++ b) = cancel_reqs a ++ cancel_reqs b.
Proof. unfold cancel_reqs. apply flat_map_app. Qed.

Lemma cancel_reqs_flush ds cs dt : cancel_reqs (flush_of ds cs dt) = [].
Proof.
  unfold flush_of. rewrite !cancel_reqs_app.
  assert (A : forall l, cancel_reqs (map EDialFail l) = []) by (induction l; auto).
  assert (B : forall l, cancel_reqs (map EClosed l) = []) by (induction l; auto).
  rewrite A, B. reflexivity.
Qed.

Theorem flush_discharges cf evs ds cs dt :
  0 < tmo cf -> tmo cf < dt ->
  let g := grun cf g0 (run_steps cf (init_pst, init_env) evs) in
  (forall p, In p (g_dials g) -> In p ds) -> (forall p, In p (g_conn g) -> In p cs) ->
  discharged (grun cf g0 (run_steps cf (init_pst, init_env) (evs ++ flush_of ds cs dt))).
Proof.
  intros T Tdt g Hd Hc. subst g.
  rewrite <- !grun_from_ghost in *. unfold flush_of. rewrite !grun_from_app.
  destruct (run_GI_OP cf evs init_pst init_env g0 [] T (GI_init cf) Inv_init OP_init) as (G & O & _).
  destruct (grun_from cf (init_pst, init_env) g0 evs) as [[s1 en1] g1]. cbn [fst snd] in *.
  destruct (phase_dials cf ds (s1, en1) g1) as (A1 & A2 & A3 & A4 & A5).
  destruct (grun_from cf (s1, en1) g1 (map EDialFail ds)) as [st2 g2]. cbn [fst snd] in *.
  assert (O2 : OP g2) by (intros x Hx; rewrite A2; rewrite A3 in Hx; exact (O x Hx)).
  destruct (phase_closed cf cs st2 g2 O2) as (B1 & B2 & B3 & B4 & B5).
  destruct (grun_from cf st2 g2 (map EClosed cs)) as [st3 g3]. cbn [fst snd] in *.
  cbn [grun_from].
  pose proof (flushing_nocall cf st3 (EAdvance dt) eq_refl) as NC.
  destruct (step cf st3 (EAdvance dt)) as [[st4 o] tg]. cbn [fst snd] in *.
  destruct (gstep_flush cf (EAdvance dt) o tg g3 eq_refl NC) as (C1 & C2 & C3 & C4 & C5).
  assert (D2 : g_dials g2 = []).
  { destruct (g_dials g2) as [|p l] eqn:E; [reflexivity|]. destruct (A5 p (or_introl eq_refl)) as [H1 H2].
    destruct (H2 (Hd p H1)). }
  assert (K3 : g_conn g3 = []).
  { destruct (g_conn g3) as [|p l] eqn:E; [reflexivity|]. destruct (B5 p (or_introl eq_refl)) as [H1 H2].
    rewrite A2 in H1. destruct (H2 (Hc p H1)). }
  assert (P3 : g_opens g3 = []).
  { destruct (g_opens g3) as [|x l] eqn:E; [reflexivity|].
    assert (H : In (snd x) (g_conn g3)) by (apply B3; rewrite E; left; reflexivity).
    rewrite K3 in H. destruct H. }
  repeat split.
  - rewrite C3, B2. exact D2.
  - rewrite C4. exact P3.
  - intros x Hx. apply C5, B4, A4 in Hx. pose proof (gi_live_le _ _ _ _ G x Hx) as L.
    rewrite C1, B1, A1. lia.
Qed.

(* Exactly one, without a premise on the final state: take ANY history, let the environment then
   answer every dial it accepted (ds covers the ledger's owed dials), close every connection
   (cs covers the ledger's connections) and let more than the request timeout pass — every
   send_request of the history has exactly one terminal event, unless the user asked to cancel it. *)
Theorem exactly_one_flushed cf evs ds cs dt r :
  0 < tmo cf -> tmo cf < dt ->
  let g := grun cf g0 (run_steps cf (init_pst, init_env) evs) in
  (forall p, In p (g_dials g) -> In p ds) -> (forall p, In p (g_conn g) -> In p cs) ->
  let res := run cf (init_pst, init_env) (evs ++ flush_of ds cs dt) in
  In (OSent r) (snd res) ->
  terms r (snd res) = 1%nat \/ In r (cancel_reqs evs).
Proof.
  intros T Tdt g Hd Hc res Hs.
  pose proof (flush_discharges cf evs ds cs dt T Tdt Hd Hc) as D.
  destruct (exactly_one_contract cf (evs ++ flush_of ds cs dt) r T D Hs) as [H|H]; [left; exact H|right].
  rewrite cancel_reqs_app, cancel_reqs_flush, app_nil_r in H. exact H.
Qed.

(* the lists flush_evs takes from the ledger cover it *)
Lemma in_ins_by {A} (key : A -> N) a x l : In x (ins_by key a l) <-> x = a \/ In x l.
Proof.
  induction l as [|h t IH]; cbn [ins_by In]; [intuition|].
  destruct (key a <? key h); cbn [In]; [intuition|]. rewrite IH. intuition.
Qed.
Lemma in_sort_by {A} (key : A -> N) x l : In x (sort_by key l) <-> In x l.
Proof.
  unfold sort_by. induction l as [|a l IH]; cbn [fold_right In]; [tauto|].
  rewrite in_ins_by, IH. intuition.
Qed.
Lemma in_dedup x l : In x (dedup l) <-> In x l.
Proof.
  induction l as [|a l IH]; cbn [dedup In]; [tauto|].
  destruct (memN a l) eqn:M.
  - rewrite IH. split; [auto|]. intros [<-|H]; [apply memN_in; exact M|exact H].
  - cbn [In]. rewrite IH. tauto.
Qed.

Theorem exactly_one_flush_evs cf evs r :
  0 < tmo cf ->
  let g := grun cf g0 (run_steps cf (init_pst, init_env) evs) in
  let res := run cf (init_pst, init_env) (evs ++ flush_evs cf g) in
  In (OSent r) (snd res) ->
  terms r (snd res) = 1%nat \/ In r (cancel_reqs evs).
Proof.
  intros T g res. unfold flush_evs in res. subst res.
  apply exactly_one_flushed; [exact T|lia| |].
  - intros p H. apply in_sort_by, in_dedup. exact H.
  - intros p H. apply in_sort_by, in_dedup. exact H.
Qed.

Lemma flush_evs_discharges cf evs :
  0 < tmo cf ->
  let g := grun cf g0 (run_steps cf (init_pst, init_env) evs) in
  discharged (grun cf g0 (run_steps cf (init_pst, init_env) (evs ++ flush_evs cf g))).
Proof.
  intros T g. unfold flush_evs. apply flush_discharges; [exact T|lia| |].
  - intros p H. apply in_sort_by, in_dedup. exact H.
  - intros p H. apply in_sort_by, in_dedup. exact H.
Qed.
