(* C13 — wire format, model runner and the trace oracle prop_ok. Definitions only.

   case  = max_inb(0 = unlimited, k+1 = Some k)  ndial  max_size  n  op_1 .. op_n
   trace = 1  step_1 .. step_n        (or [0] when the case does not parse)
   step  = target(0 = none, t+1)  nevents  event*  dump
   event = 1 rid | 2 rid len tag | 3 rid code | 4 irid peer len tag | 5 chan len tag | 7 irid ok   (sorted)
   dump  = peers (p, active ids, inbound ids)*  dials (p, ids)*  pending_outbound (sid p rid)*
           cancel ids  #request futures  #inbound readers  #responders *)
From Coq Require Import List NArith Bool.
From V.common Require Import Wire.
From V.gen Require Import Consts.
From V.C13 Require Import Model.
Import ListNotations.
Open Scope N_scope.

Definition TMO : N := REQUEST_TIMEOUT_SECS * 1000.

Definition p_ev : parser ev :=
  let* tag := pN in
  match tag with
  | 0 => let* p := pN in let* d := pBool in let* l := pN in let* t := pN in pret (ESend p d l t)
  | 1 => let* r := pN in pret (ECancel r)
  | 2 => let* p := pN in let* b := pBool in let* cap := pN in pret (EEstablished p b cap)
  | 3 => let* p := pN in pret (EClosed p)
  | 4 => let* p := pN in pret (EDialFail p)
  | 5 => let* k := pN in let* g := pN in pret (EOpened k g)
  | 6 => let* k := pN in let* u := pBool in pret (EOpenFail k u)
  | 7 => let* k := pN in pret (EUnblock k)
  | 8 => let* k := pN in pret (EBreakW k)
  | 9 => let* k := pN in let* l := pN in let* t := pN in pret (ERespond k l t)
  | 10 => let* k := pN in pret (EEof k)
  | 11 => let* k := pN in pret (EErr k)
  | 12 => let* d := pN in pret (EAdvance d)
  | 13 => let* p := pN in let* g := pN in pret (EInOpen p g)
  | 14 => let* k := pN in let* l := pN in let* t := pN in pret (EInReq k l t)
  | 15 => let* k := pN in let* l := pN in let* t := pN in let* fb := pBool in pret (EURespond k l t fb)
  | 16 => let* k := pN in pret (EUReject k)
  | 17 => let* p := pN in pret (EBreakConn p)
  | _ => pfail
  end.

Definition NPEERS : N := 4.
Definition ev_peer_ok (e : ev) : bool :=
  match e with
  | EEstablished p _ cap => (p <? NPEERS) && (cap <=? 4096)
  | ESend p _ _ _ | EClosed p | EDialFail p | EInOpen p _ | EBreakConn p => p <? NPEERS
  | _ => true
  end.

Definition decode_case (l : list N) : option (cfg * list ev) :=
  match pall (let* mi := pN in let* nd := pN in let* ms := pN in let* evs := plist p_ev in
              pret (mkCfg (dec_opt mi) (N.min nd NPEERS) ms TMO, evs)) l with
  | Some (c, evs) => if forallb ev_peer_ok evs then Some (c, evs) else None
  | None => None
  end.

(* ---- encoders ---- *)
Definition canon_tag (len tag : N) : N := if len =? 0 then 0 else tag mod 256.

Definition out_key (o : out) : N :=
  match o with
  | OSent r => 1 * 1099511627776 + r
  | OResp r _ _ => 2 * 1099511627776 + r
  | OFail r _ => 3 * 1099511627776 + r
  | OReq r _ _ _ => 4 * 1099511627776 + r
  | OWire c _ _ => 5 * 1099511627776 + c
  | OBind c _ => 6 * 1099511627776 + c
  | OFeed r _ => 7 * 1099511627776 + r
  end.
Definition enc_out (o : out) : list N :=
  match o with
  | OSent r => [1; r]
  | OResp r l t => [2; r; l; canon_tag l t]
  | OFail r c => [3; r; c]
  | OReq r p l t => [4; r; p; l; canon_tag l t]
  | OWire c l t => [5; c; l; canon_tag l t]
  | OBind _ _ => []
  | OFeed r ok => [7; r; b2n ok]
  end.
Definition printed (o : out) : bool := match o with OBind _ _ => false | _ => true end.

Fixpoint dedup (l : list N) : list N :=
  match l with
  | [] => []
  | x :: t => if memN x t then dedup t else x :: dedup t
  end.
Definition idN (x : N) : N := x.
Definition ids_of (p : N) (l : list (N * N)) : list N :=
  sort_by idN (map snd (filter (fun a => fst a =? p) l)).

Definition dump (s : pst) : list N :=
  enc_list (fun p => p :: enc_list (fun x => [x]) (ids_of p (active s)) ++ enc_list (fun x => [x]) (ids_of p (inb s)))
           (sort_by idN (peers s)) ++
  enc_list (fun p => p :: enc_list (fun d : N * req => [q_rid (snd d)]) (filter (fun d => fst d =? p) (dials s)))
           (sort_by idN (dedup (map fst (dials s)))) ++
  enc_list (fun po => [po_sid po; po_peer po; q_rid (po_req po)]) (sort_by po_sid (pouts s)) ++
  enc_list (fun x => [x]) (sort_by idN (map (fun f => q_rid (f_req f)) (filter (fun f => negb (f_cancel f)) (futs s)))) ++
  [N.of_nat (length (futs s)); N.of_nat (length (rdrs s)); N.of_nat (length (rsps s))].

Fixpoint run_trace (c : cfg) (st : pst * env) (l : list ev) : list N :=
  match l with
  | [] => []
  | e :: t => let '(st1, o, tg) := step c st e in
              enc_opt tg :: enc_list enc_out (sort_by out_key (filter printed o)) ++ dump (fst st1) ++ run_trace c st1 t
  end.

Definition run_case (l : list N) : list N :=
  match decode_case l with
  | Some (c, evs) => 1 :: run_trace c (init_pst, init_env) evs
  | None => [0]
  end.

(* ---- decoding a trace ---- *)
(* count-prefixed list with a constant-time guard on the count (Wire.plist measures the rest of
   the input for every list, which is quadratic on long traces) *)
Definition plistb {A} (p : parser A) : parser (list A) :=
  fun l => match l with
           | [] => None
           | n :: t => if 100000 <? n then None else prep (N.to_nat n) p t
           end.
Definition p_out : parser out :=
  let* k := pN in
  match k with
  | 1 => let* r := pN in pret (OSent r)
  | 2 => let* r := pN in let* l := pN in let* t := pN in pret (OResp r l t)
  | 3 => let* r := pN in let* c := pN in pret (OFail r c)
  | 4 => let* r := pN in let* p := pN in let* l := pN in let* t := pN in pret (OReq r p l t)
  | 5 => let* c := pN in let* l := pN in let* t := pN in pret (OWire c l t)
  | 7 => let* r := pN in let* ok := pBool in pret (OFeed r ok)
  (* harness marker "the single-stepped copy (1) / the small-channel run (2) of the event loop saw
     something else than the real run at this stimulus": accepted and ignored by the oracle (the
     events printed are the real loop's); the model never prints it, so the case disagrees *)
  | 99 => let* w := pN in pret (OBind w 0)
  | _ => pfail
  end.

(* what the oracle needs of a dump *)
Record dsum := mkD { d_ndials : N; d_npouts : N; d_nfuts : N; d_nrd : N; d_nrs : N; d_nactive : N }.
Definition p_dump : parser dsum :=
  let* ps := plistb (let* p := pN in let* a := plistb pN in let* i := plistb pN in pret (N.of_nat (length a))) in
  let* ds := plistb (let* p := pN in let* r := plistb pN in pret p) in
  let* po := plistb (let* a := pN in let* b := pN in let* c := pN in pret a) in
  let* cs := plistb pN in
  let* nf := pN in let* nrd := pN in let* nrs := pN in
  pret (mkD (N.of_nat (length ds)) (N.of_nat (length po)) nf nrd nrs (fold_right N.add 0 ps)).

Record ostep := mkS { o_target : option N; o_outs : list out; o_dump : dsum }.
Definition p_steps (n : nat) : parser (list ostep) :=
  prep n (let* t := pN in let* o := plistb p_out in let* d := p_dump in pret (mkS (dec_opt t) o d)).

(* ---- the oracle: the property text judged on an observed run ---- *)
Fixpoint nodup_b (l : list N) : bool :=
  match l with [] => true | x :: t => negb (memN x t) && nodup_b t end.

Definition term_ids (o : list out) : list N :=
  flat_map (fun x => match x with OResp r _ _ => [r] | OFail r _ => [r] | _ => [] end) o.
Definition sent_ids (o : list out) : list N :=
  flat_map (fun x => match x with OSent r => [r] | _ => [] end) o.
Definition resps (o : list out) : list (N * N * N) :=
  flat_map (fun x => match x with OResp r l t => [(r, l, t)] | _ => [] end) o.
Definition reqs (o : list out) : list (N * N * N) :=
  flat_map (fun x => match x with OReq r _ l t => [(r, l, t)] | _ => [] end) o.

(* the request payload of every id handed out so far: (rid, len, canonical tag) *)
Definition sent_payloads (e : ev) (o : list out) : list (N * N * N) :=
  match e with
  | ESend _ _ l t => map (fun r => (r, l, canon_tag l t)) (sent_ids o)
  | _ => []
  end.

Definition wire_seen (c len tag : N) (hist : list out) : bool :=
  existsb (fun x => match x with OWire c' l t => (c' =? c) && (l =? len) && (t =? tag) | _ => false end) hist.

(* hist: everything observed before this step; sp: request payloads by id; used: inbound
   channels that already produced a RequestReceived *)
Fixpoint steps_ok (mi : option N) (evs : list ev) (tr : list ostep)
         (hist : list out) (sp : list (N * N * N)) (used : list N) : bool :=
  match evs, tr with
  | [], [] => true
  | e :: evs', s :: tr' =>
    let o := o_outs s in
    let sp' := sp ++ sent_payloads e o in
    (* ledger (Proofs.inv_cov, proved for the model; re-checked here on the real bookkeeping): a
       request that is active at a peer has a substream being opened or a future in flight, so
       "nothing outstanding" implies "nothing owed" *)
    (if (d_npouts (o_dump s) =? 0) && (d_nfuts (o_dump s) =? 0) then d_nactive (o_dump s) =? 0 else true) &&
    (* feedback: () is sent only when the response frame went out in the same step, and only for
       a send_response_with_feedback *)
    forallb (fun x => match x with
                      | OFeed _ true => existsb (fun y => match y with OWire _ _ _ => true | _ => false end) o
                      | _ => true end) o &&
    (if existsb (fun x => match x with OFeed _ _ => true | _ => false end) o
     then match e with EURespond _ _ _ _ | EUnblock _ | EBreakW _ | EAdvance _ => true | _ => false end
     else true) &&
    (* inbound bound *)
    match mi with Some m => d_nrd (o_dump s) + d_nrs (o_dump s) <=? m | None => true end &&
    (* every terminal event answers an id that was handed out *)
    forallb (fun r => existsb (fun x => fst (fst x) =? r) sp') (term_ids o) &&
    (* a response is what the responder supplied, on the substream that carried this request *)
    match resps o with
    | [] => true
    | [(r, l, t)] =>
      match e, o_target s with
      | ERespond _ l' t', Some c =>
        (l =? l') && (t =? canon_tag l' t') &&
        existsb (fun x => (fst (fst x) =? r) && wire_seen c (snd (fst x)) (snd x) hist) sp'
      | _, _ => false
      end
    | _ => false
    end &&
    (* the responder sees a request once per inbound substream, with the bytes that were sent *)
    match reqs o with
    | [] => true
    | [(_, l, t)] =>
      match e, o_target s with
      | EInReq _ l' t', Some c => (l =? l') && (t =? canon_tag l' t') && negb (memN c used)
      | _, _ => false
      end
    | _ => false
    end &&
    steps_ok mi evs' tr' (hist ++ o) sp'
             (match reqs o, o_target s with _ :: _, Some c => c :: used | _, _ => used end)
  | _, _ => false
  end.

Definition cancel_ids (evs : list ev) : list N :=
  flat_map (fun e => match e with ECancel r => [r] | _ => [] end) evs.

Definition final_quiescent (tr : list ostep) : bool :=
  match rev tr with
  | [] => true
  | s :: _ => (d_ndials (o_dump s) =? 0) && (d_npouts (o_dump s) =? 0) && (d_nfuts (o_dump s) =? 0)
  end.

Definition prop_ok (case trace : list N) : bool :=
  match decode_case case, trace with
  | Some (c, evs), 1 :: body =>
    match pall (p_steps (length evs)) body with
    | Some tr =>
      let all := flat_map o_outs tr in
      (* at most one terminal event per request id *)
      nodup_b (term_ids all) &&
      steps_ok (max_inb c) evs tr [] [] [] &&
      (* exactly one once nothing is owed, unless the user cancelled the request *)
      (if final_quiescent tr
       then forallb (fun r => memN r (term_ids all) || memN r (cancel_ids evs)) (sent_ids all)
       else true)
    | None => false
    end
  | None, [0] => true
  | _, _ => false
  end.

(* No known-finding classes for C13 (F-C13a is repaired by a fix: commit): every failing case is a violation. *)
Definition known_class (case trace : list N) : N := 0.
