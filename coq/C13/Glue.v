(* C13 — wire format, model runner and the trace oracle prop_ok. Definitions only.

   case  = max_inb(0 = unlimited, k+1 = Some k)  ndial  max_size  selfp  ccap  n  op_1 .. op_n
           (selfp: peer 3 is the local peer id; ccap: capacity of the command channel, 0 = default)
   op    = one stimulus of the harness = one or more model events (a burst of try_send_request
           calls, two stimuli made ready at the same instant in the order the implementation chose)
   trace = 1  step_1 .. step_n        (or [0] when the case does not parse)
   step  = target(0 = none, t+1)  nevents  event*  dump
   event = 1 rid | 2 rid len tag | 3 rid code | 4 irid peer len tag | 5 chan len tag | 7 irid ok |
           8 sid peer | 9 rid name | 10 irid name   (sorted)
   dump  = peers (p, active ids, inbound ids)*  dials (p, ids)*  pending_outbound (sid p rid)*
           cancel ids  #request futures  #inbound readers  #responders *)
From Coq Require Import List NArith Bool.
From V.common Require Import Wire.
From V.gen Require Import Consts.
From V.C13 Require Import Model.
Import ListNotations.
Open Scope N_scope.

Definition TMO : N := REQUEST_TIMEOUT_SECS * 1000.

Definition NPEERS : N := 4.
Definition DEFAULT_CHANNEL : N := 4096.

Fixpoint burst (n : nat) (room : nat) (mk : ev) : list ev :=
  match n with
  | O => []
  | S n' => match room with
            | O => EBurn :: burst n' O mk
            | S r' => mk :: burst n' r' mk
            end
  end.

(* ccap: capacity of the command channel (already resolved: > 0) *)
Definition p_op (ccap : N) : parser (list ev) :=
  let* tag := pN in
  match tag with
  | 0 => let* p := pN in let* d := pBool in let* l := pN in let* t := pN in
         let* fn := pN in let* fl := pN in let* ft := pN in
         pret [ESend p d l t (if fn =? 0 then None else Some (fn, fl, ft))]
  | 1 => let* r := pN in pret [ECancel r]
  | 2 => let* p := pN in let* b := pBool in let* cap := pN in pret [EEstablished p b cap]
  | 3 => let* p := pN in pret [EClosed p]
  | 4 => let* p := pN in pret [EDialFail p]
  | 5 => let* k := pN in let* g := pN in let* ng := pN in pret [EOpened k g ng]
  | 6 => let* k := pN in let* u := pBool in pret [EOpenFail k u]
  | 7 => let* k := pN in pret [EUnblock k]
  | 8 => let* k := pN in pret [EBreakW k]
  | 9 => let* k := pN in let* l := pN in let* t := pN in pret [ERespond k l t]
  | 10 => let* k := pN in pret [EEof k]
  | 11 => let* k := pN in pret [EErr k]
  | 12 => let* d := pN in pret [EAdvance d]
  | 13 => let* p := pN in let* g := pN in let* ng := pN in pret [EInOpen p g ng]
  | 14 => let* k := pN in let* l := pN in let* t := pN in pret [EInReq k l t]
  | 15 => let* k := pN in let* l := pN in let* t := pN in let* fb := pBool in pret [EURespond k l t fb]
  | 16 => let* k := pN in pret [EUReject k]
  | 17 => let* p := pN in pret [EBreakConn p]
  (* n try_send_request calls back to back: the command channel takes the first ccap, the others
     fail with ChannelClogged after having drawn their request id *)
  | 18 => let* p := pN in let* d := pBool in let* n := pN in let* l := pN in let* t := pN in
          if 64 <? n then pfail else pret (burst (N.to_nat n) (N.to_nat ccap) (ESend p d l t None))
  (* two things become ready at the same instant; `first` is the order in which the implementation
     looked at them (its select! is unbiased), observed by the harness *)
  | 19 => let* k := pN in let* l := pN in let* t := pN in let* d := pN in let* first := pBool in
          pret (if first then [EAdvance d; ERespond k l t] else [ERespond k l t; EAdvance d])
  | 20 => let* k := pN in let* l := pN in let* t := pN in let* r := pN in let* first := pBool in
          pret (if first then [ECancel r; ERespond k l t] else [ERespond k l t; ECancel r])
  | 21 => let* r := pN in let* d := pN in let* first := pBool in
          pret (if first then [EAdvance d; ECancel r] else [ECancel r; EAdvance d])
  | 22 => pret [EDropManager]
  | _ => pfail
  end.

Definition ev_peer_ok (e : ev) : bool :=
  match e with
  | EEstablished p _ cap => (p <? NPEERS) && (cap <=? 4096)
  | EOpened _ _ ng | EInOpen _ _ ng => ng <=? 2
  | ESend p _ _ _ fb => (p <? NPEERS) && match fb with Some (fn, _, _) => fn <=? 2 | None => true end
  | EClosed p | EDialFail p | EBreakConn p => p <? NPEERS
  | _ => true
  end.
Definition ev_ok (e : ev) : bool :=
  ev_peer_ok e && match e with EInOpen p _ _ => p <? NPEERS | _ => true end.

Definition decode_case (l : list N) : option (cfg * list (list ev)) :=
  match l with
  | mi :: nd :: ms :: sp :: cc :: rest =>
    let ccap := if cc =? 0 then DEFAULT_CHANNEL else cc in
    if 4096 <? cc then None else
    match pall (plist (p_op ccap)) rest with
    | Some ops =>
      if forallb (forallb ev_ok) ops
      then Some (mkCfg (dec_opt mi) (N.min nd NPEERS) ms TMO (negb (sp =? 0)), ops)
      else None
    | None => None
    end
  | _ => None
  end.

(* ---- encoders ---- *)
Definition canon_tag (len tag : N) : N := if len =? 0 then 0 else tag mod 256.

Definition out_key (o : out) : N :=
  match o with
  | OSent r => 1 * 1099511627776 + r
  | OResp r _ _ => 2 * 1099511627776 + r
  | OFail r _ => 3 * 1099511627776 + r
  | OReq r _ _ _ => 4 * 1099511627776 + r
  | OWire c _ _ => 5 * 1099511627776 + c
  | OWireR c _ _ => 5 * 1099511627776 + c
  | OBind c _ => 6 * 1099511627776 + c
  | OFeed r _ => 7 * 1099511627776 + r
  | OOpen sid _ => 8 * 1099511627776 + sid
  | OFbResp r _ => 9 * 1099511627776 + r
  | OFbReq r _ => 10 * 1099511627776 + r
  | ODial p => 11 * 1099511627776 + p
  end.
Definition enc_out (o : out) : list N :=
  match o with
  | OSent r => [1; r]
  | OResp r l t => [2; r; l; canon_tag l t]
  | OFail r c => [3; r; c]
  | OReq r p l t => [4; r; p; l; canon_tag l t]
  | OWire c l t => [5; c; l; canon_tag l t]
  | OWireR c l t => [5; c; l; canon_tag l t]
  | OBind _ _ => []
  | OFeed r ok => [7; r; b2n ok]
  | OOpen sid p => [8; sid; p]
  | OFbResp r n => [9; r; n]
  | OFbReq r n => [10; r; n]
  | ODial _ => []
  end.
Definition printed (o : out) : bool := match o with OBind _ _ | ODial _ => false | _ => true end.

Fixpoint dedup (l : list N) : list N :=
  match l with
  | [] => []
  | x :: t => if memN x t then dedup t else x :: dedup t
  end.
Definition idN (x : N) : N := x.
Definition ids_of (p : N) (l : list (N * N)) : list N :=
  sort_by idN (map snd (filter (fun a => fst a =? p) l)).

Definition dump (s : pst) : list N :=
  enc_list (fun p => p :: enc_list (fun x => [x]) (ids_of p (active s)) ++ enc_list (fun x => [x]) (ids_of p (inb s)))
           (sort_by idN (peers s)) ++
  enc_list (fun p => p :: enc_list (fun d : N * req => [q_rid (snd d)]) (filter (fun d => fst d =? p) (dials s)))
           (sort_by idN (dedup (map fst (dials s)))) ++
  enc_list (fun po => [po_sid po; po_peer po; q_rid (po_req po)]) (sort_by po_sid (pouts s)) ++
  enc_list (fun x => [x]) (sort_by idN (map (fun f => q_rid (f_req f)) (filter (fun f => negb (f_cancel f)) (futs s)))) ++
  [N.of_nat (length (futs s)); N.of_nat (length (rdrs s)); N.of_nat (length (rsps s))].

(* one harness stimulus = the model events of that stimulus in a row: outputs concatenated,
   target of the first event that has one *)
Fixpoint run_op (c : cfg) (st : pst * env) (es : list ev) : (pst * env) * list out * option N :=
  match es with
  | [] => (fst (fst (step c st EDrain)), [], None)   (* the harness drains the command channels *)
  | e :: t => let '(st1, o, tg) := step c st e in
              let '(st2, o2, tg2) := run_op c st1 t in
              (st2, o ++ o2, match tg with Some x => Some x | None => tg2 end)
  end.

Fixpoint run_trace (c : cfg) (st : pst * env) (l : list (list ev)) : list N :=
  match l with
  | [] => []
  | es :: t => let '(st1, o, tg) := run_op c st es in
               enc_opt tg :: enc_list enc_out (sort_by out_key (filter printed o)) ++ dump (fst st1) ++ run_trace c st1 t
  end.

Definition run_case (l : list N) : list N :=
  match decode_case l with
  | Some (c, ops) => 1 :: run_trace c (init_pst, init_env) ops
  | None => [0]
  end.

(* ---- decoding a trace ---- *)
(* count-prefixed list with a constant-time guard on the count (Wire.plist measures the rest of
   the input for every list, which is quadratic on long traces) *)
Definition plistb {A} (p : parser A) : parser (list A) :=
  fun l => match l with
           | [] => None
           | n :: t => if 100000 <? n then None else prep (N.to_nat n) p t
           end.
Definition p_out : parser out :=
  let* k := pN in
  match k with
  | 1 => let* r := pN in pret (OSent r)
  | 2 => let* r := pN in let* l := pN in let* t := pN in pret (OResp r l t)
  | 3 => let* r := pN in let* c := pN in pret (OFail r c)
  | 4 => let* r := pN in let* p := pN in let* l := pN in let* t := pN in pret (OReq r p l t)
  | 5 => let* c := pN in let* l := pN in let* t := pN in pret (OWire c l t)
  | 7 => let* r := pN in let* ok := pBool in pret (OFeed r ok)
  | 8 => let* sid := pN in let* p := pN in pret (OOpen sid p)
  | 9 => let* r := pN in let* n := pN in pret (OFbResp r n)
  | 10 => let* r := pN in let* n := pN in pret (OFbReq r n)
  (* harness marker "the single-stepped copy (1) / the small-channel run (2) of the event loop saw
     something else than the real run at this stimulus": accepted and ignored by the oracle (the
     events printed are the real loop's); the model never prints it, so the case disagrees *)
  | 99 => let* w := pN in pret (OBind w 0)
  | _ => pfail
  end.

(* what the oracle needs of a dump *)
Record dsum := mkD { d_ndials : N; d_npouts : N; d_nfuts : N; d_nrd : N; d_nrs : N; d_nactive : N }.
Definition p_dump : parser dsum :=
  let* ps := plistb (let* p := pN in let* a := plistb pN in let* i := plistb pN in pret (N.of_nat (length a))) in
  let* ds := plistb (let* p := pN in let* r := plistb pN in pret p) in
  let* po := plistb (let* a := pN in let* b := pN in let* c := pN in pret a) in
  let* cs := plistb pN in
  let* nf := pN in let* nrd := pN in let* nrs := pN in
  pret (mkD (N.of_nat (length ds)) (N.of_nat (length po)) nf nrd nrs (fold_right N.add 0 ps)).

Record ostep := mkS { o_target : option N; o_outs : list out; o_dump : dsum }.
Definition p_steps (n : nat) : parser (list ostep) :=
  prep n (let* t := pN in let* o := plistb p_out in let* d := p_dump in pret (mkS (dec_opt t) o d)).

(* ---- the oracle: the property text judged on an observed run ---- *)
Fixpoint nodup_b (l : list N) : bool :=
  match l with [] => true | x :: t => negb (memN x t) && nodup_b t end.

Definition term_ids (o : list out) : list N :=
  flat_map (fun x => match x with OResp r _ _ => [r] | OFail r _ => [r] | _ => [] end) o.
Definition sent_ids (o : list out) : list N :=
  flat_map (fun x => match x with OSent r => [r] | _ => [] end) o.
Definition resps (o : list out) : list (N * N * N) :=
  flat_map (fun x => match x with OResp r l t => [(r, l, t)] | _ => [] end) o.
Definition reqs (o : list out) : list (N * N * N) :=
  flat_map (fun x => match x with OReq r _ l t => [(r, l, t)] | _ => [] end) o.

(* the request payloads (main and fallback) of every id handed out so far: (rid, len, canonical tag) *)
Definition sent_payloads (es : list ev) (o : list out) : list (N * N * N) :=
  match find (fun e => match e with ESend _ _ _ _ _ => true | _ => false end) es with
  | Some (ESend _ _ l t fb) =>
    flat_map (fun r => (r, l, canon_tag l t) ::
                       match fb with Some (_, fl, ft) => [(r, fl, canon_tag fl ft)] | None => [] end) (sent_ids o)
  | _ => []
  end.

Definition wire_seen (c len tag : N) (hist : list out) : bool :=
  existsb (fun x => match x with OWire c' l t => (c' =? c) && (l =? len) && (t =? tag) | _ => false end) hist.

(* hist: everything observed before this step; sp: request payloads by id; used: inbound
   channels that already produced a RequestReceived *)
Fixpoint steps_ok (mi : option N) (ops : list (list ev)) (tr : list ostep)
         (hist : list out) (sp : list (N * N * N)) (used : list N) : bool :=
  match ops, tr with
  | [], [] => true
  | es :: ops', s :: tr' =>
    let o := o_outs s in
    let sp' := sp ++ sent_payloads es o in
    (* ledger (Proofs.inv_cov, proved for the model; re-checked here on the real bookkeeping): a
       request that is active at a peer has a substream being opened or a future in flight, so
       "nothing outstanding" implies "nothing owed" *)
    (if (d_npouts (o_dump s) =? 0) && (d_nfuts (o_dump s) =? 0) then d_nactive (o_dump s) =? 0 else true) &&
    (* feedback: () is sent only when the response frame went out in the same step, and only for
       a send_response_with_feedback *)
    forallb (fun x => match x with
                      | OFeed _ true => existsb (fun y => match y with OWire _ _ _ => true | _ => false end) o
                      | _ => true end) o &&
    (if existsb (fun x => match x with OFeed _ _ => true | _ => false end) o
     then existsb (fun e => match e with EURespond _ _ _ _ | EUnblock _ | EBreakW _ | EAdvance _ => true | _ => false end) es
     else true) &&
    (* inbound bound *)
    match mi with Some m => d_nrd (o_dump s) + d_nrs (o_dump s) <=? m | None => true end &&
    (* every terminal event answers an id that was handed out *)
    forallb (fun r => existsb (fun x => fst (fst x) =? r) sp') (term_ids o) &&
    (* a response is what the responder supplied, on the substream that carried this request
       (its main or its fallback variant) *)
    match resps o with
    | [] => true
    | [(r, l, t)] =>
      match o_target s with
      | Some c =>
        existsb (fun e => match e with
                          | ERespond _ l' t' => (l =? l') && (t =? canon_tag l' t')
                          | _ => false end) es &&
        existsb (fun x => (fst (fst x) =? r) && wire_seen c (snd (fst x)) (snd x) hist) sp'
      | None => false
      end
    | _ => false
    end &&
    (* the responder sees a request once per inbound substream, with the bytes that were sent *)
    match reqs o with
    | [] => true
    | [(_, l, t)] =>
      match o_target s with
      | Some c =>
        existsb (fun e => match e with
                          | EInReq _ l' t' => (l =? l') && (t =? canon_tag l' t')
                          | _ => false end) es && negb (memN c used)
      | None => false
      end
    | _ => false
    end &&
    steps_ok mi ops' tr' (hist ++ o) sp'
             (match reqs o, o_target s with _ :: _, Some c => c :: used | _, _ => used end)
  | _, _ => false
  end.

Definition cancel_ids (ops : list (list ev)) : list N :=
  flat_map (flat_map (fun e => match e with ECancel r => [r] | _ => [] end)) ops.

Definition final_quiescent (tr : list ostep) : bool :=
  match rev tr with
  | [] => true
  | s :: _ => (d_ndials (o_dump s) =? 0) && (d_npouts (o_dump s) =? 0) && (d_nfuts (o_dump s) =? 0)
  end.

Definition prop_ok (case trace : list N) : bool :=
  match decode_case case, trace with
  | Some (c, evs), 1 :: body =>
    match pall (p_steps (length evs)) body with
    | Some tr =>
      let all := flat_map o_outs tr in
      (* at most one terminal event per request id *)
      nodup_b (term_ids all) &&
      steps_ok (max_inb c) evs tr [] [] [] &&
      (* exactly one once nothing is owed, unless the user cancelled the request *)
      (if final_quiescent tr
       then forallb (fun r => memN r (term_ids all) || memN r (cancel_ids evs)) (sent_ids all)
       else true)
    | None => false
    end
  | None, [0] => true
  | _, _ => false
  end.

(* No known-finding classes for C13 (F-C13a is repaired by a fix: commit): every failing case is a violation. *)
Definition known_class (case trace : list N) : N := 0.
