(* C13 — entry points of the extracted model: single-node cases (Glue1.v) and two-node cases
   (Glue2.v, first number 1000002). *)
From Coq Require Import List NArith Bool.
From V.C13 Require Import Model Glue1 Glue2.
Import ListNotations.
Open Scope N_scope.

Definition is_two (l : list N) : bool := match l with x :: _ => x =? TWO_NODE | [] => false end.

Definition run_case (l : list N) : list N := if is_two l then Glue2.run_case2 l else Glue1.run_case l.
Definition prop_ok (case trace : list N) : bool :=
  if is_two case then Glue2.prop_ok2 case trace else Glue1.prop_ok case trace.
Definition known_class (case trace : list N) : N := 0.
