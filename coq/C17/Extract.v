From Coq Require Import ExtrOcamlBasic.
From V.C17 Require Import Glue.
Extraction Language OCaml.
Extraction "c17_model.ml" run_case prop_ok known_class.
