(* C17 — what the Kademlia event loop (kademlia/mod.rs) lets into the MemoryStore and what it serves
   from it.  Definitions only; proofs are in IngressProofs.v.  Every access to the maps is an
   operation of Model.v / Timed.v: this file models the *callers* of the store:

   - inbound PUT_VALUE request: stored only under IncomingRecordValidationMode::Automatic, with the
     publisher taken from the wire and `expires = now + ttl` computed on receipt (ttl 0: no expiry);
     always acknowledged;
   - inbound ADD_PROVIDER: the decoded provider list (cut to the replication factor by
     `KademliaMessage::from_bytes`) must have exactly one entry and that entry must be the sender;
     its address list is `KademliaPeer::addresses()` (at most MAX_ADDRESSES of types.rs), truncated
     again by the store to `max_provider_addresses`;
   - inbound GET_VALUE / GET_PROVIDERS: `store.get` / `store.get_providers`; in a GET_PROVIDERS
     answer the addresses of the local node are replaced by its public addresses;
   - commands PutRecord (publisher := local peer), PutRecordToPeers (optionally), StoreRecord: a
     missing expiry becomes `now + record_ttl`; StartProviding / StopProviding; GetRecord /
     GetProviders read through `get` / `get_providers`;
   - the refresh arm of the loop: every `RefreshProvider` action re-runs `put_local_provider`.
     After every event the loop polls `store.next_action()` again (modelled by `settle`).

   Publisher of a record: Model.v's records have no publisher field; at this level the value id of
   a record is `val + PUB_SHIFT * pub` (pub = 0: none, p + 1: peer p), so that the publisher is
   part of what is stored, compared and served.  Time is counted in ticks (10 s in the harness). *)
From Coq Require Import List NArith Bool.
From V.gen Require Consts.
From V.C17 Require Import Model Timed.
Import ListNotations.
Open Scope N_scope.

Record kcfg := mkK {
  k_scfg : cfg;
  k_interval : N;     (* provider_refresh_interval *)
  k_auto : bool;      (* IncomingRecordValidationMode::Automatic *)
  k_rttl : N;         (* record_ttl *)
  k_repl : N;         (* replication factor *)
  k_npub : N          (* number of public addresses of the local node *)
}.

Definition WIRE_MAX_ADDRS : N := V.gen.Consts.KAD_MAX_ADDRESSES.
Definition PUB_SHIFT : N := 256.
Definition LOCAL_PUB : N := LOCAL_ID + 1.
(* publisher bytes that are not a peer id: `record_from_schema` fails, the message is dropped *)
Definition PUB_INVALID : N := 255.

(* `KademliaMessage::from_bytes`: provider entries whose peer id or connection type does not
   decode are skipped (validity 1 = decodes), then the list is cut to the replication factor *)
Definition decoded_provs (repl : N) (provs : list (N * N * N * N)) : list (N * N * N) :=
  firstn (N.to_nat repl) (map fst (filter (fun x : N * N * N * N => snd x =? 1) provs)).

Definition rec_of (key val len pub : N) (exp : option N) : record :=
  mkRec key (val + PUB_SHIFT * pub) len exp.

Record kstate := mkKS { ks_t : tstore; ks_now : N; ks_dead : bool }.
Definition kstate0 : kstate := mkKS empty_tstore 0 false.

Inductive kev :=
| KPutValue (from key val len pub ttl : N)
| KAddProvider (from key : N) (provs : list (N * N * N * N))  (* (peer, distance, addresses, validity) as sent *)
| KGetValue (from key : N)
| KGetProviders (from key : N)
| KCmdPutRecord (key val len : N) (exp : option N)
| KCmdPutToPeers (key val len pub : N) (exp : option N) (update_local : bool)
| KCmdStoreRecord (key val len pub : N) (exp : option N)
| KCmdStartProviding (key dist q : N)
| KCmdStopProviding (key dist : N)
| KCmdGetRecord (key : N)
| KCmdGetProviders (key : N)
| KAge (d : N) (order : list (N * N)).  (* time passes; (key, distance) of the refreshes in the order the loop handled them *)

Inductive kout :=
| KNone
| KAck
| KRec (o : option (record * option N))      (* record and its remaining ttl *)
| KProvs (l : list (N * N))                  (* (provider, addresses) as served *)
| KBool (b : bool)
| KDead.

Definition with_ts (st : kstate) (ts : tstore) : kstate := mkKS ts (ks_now st) (ks_dead st).

(* `store.next_action()` polled by the select! after the event: arms the new refresh futures. *)
Definition settle (kc : kcfg) (st : kstate) : kstate :=
  with_ts st (fst (tstep (k_scfg kc) (k_interval kc) (ks_t st) TPoll (ks_now st))).

Definition do_top (kc : kcfg) (st : kstate) (o : top) : kstate * tout :=
  let '(ts, r) := tstep (k_scfg kc) (k_interval kc) (ks_t st) o (ks_now st) in (with_ts st ts, r).

Definition default_exp (kc : kcfg) (st : kstate) (exp : option N) : option N :=
  match exp with Some t => Some t | None => Some (ks_now st + k_rttl kc) end.

Definition remaining (now : N) (r : record) : option N :=
  match r_exp r with Some t => Some (t - now) | None => None end.

Definition serve_addrs (kc : kcfg) (p : prov) : N :=
  if p_id p =? LOCAL_ID then N.min (k_npub kc) WIRE_MAX_ADDRS else N.min (p_naddr p) WIRE_MAX_ADDRS.

Fixpoint count_key (k : N) (l : list N) : nat :=
  match l with [] => O | x :: t => if x =? k then S (count_key k t) else count_key k t end.
(* same multiset of keys *)
Definition same_keys (a b : list N) : bool :=
  Nat.eqb (length a) (length b) && forallb (fun k => Nat.eqb (count_key k a) (count_key k b)) a.

Fixpoint refresh_all (kc : kcfg) (st : kstate) (order : list (N * N)) : kstate :=
  match order with
  | [] => st
  | (k, dist) :: t =>
      match find_q k (ts_quorum (ks_t st)) with
      | Some q => refresh_all kc (fst (do_top kc st (TPutLocal k dist q))) t
      | None => refresh_all kc st t
      end
  end.

Definition kstep (kc : kcfg) (st : kstate) (e : kev) : kstate * kout :=
  if ks_dead st then (st, KDead) else
  match e with
  | KPutValue from key val len pub ttl =>
      let r := rec_of key val len pub (if ttl =? 0 then None else Some (ks_now st + ttl)) in
      if pub =? PUB_INVALID then (settle kc st, KNone) else
      if k_auto kc
      then (settle kc (fst (do_top kc st (TOp (OPut r)))), KAck)
      else (settle kc st, KAck)
  | KAddProvider from key provs =>
      match decoded_provs (k_repl kc) provs with
      | [(p, dist, na)] =>
          if p =? from
          then (settle kc (fst (do_top kc st (TOp (OPutProvider key p dist (N.min na WIRE_MAX_ADDRS))))), KNone)
          else (settle kc st, KNone)
      | _ => (settle kc st, KNone)
      end
  | KGetValue from key =>
      let '(st1, r) := do_top kc st (TOp (OGet key)) in
      (settle kc st1,
       match r with
       | TOut (RRec (Some r)) => KRec (Some (r, remaining (ks_now st) r))
       | _ => KRec None
       end)
  | KGetProviders from key =>
      let '(st1, r) := do_top kc st (TOp (OGetProviders key)) in
      (settle kc st1,
       match r with
       | TOut (RProvs l) => KProvs (map (fun p => (p_id p, serve_addrs kc p)) l)
       | _ => KProvs []
       end)
  | KCmdPutRecord key val len exp =>
      (settle kc (fst (do_top kc st (TOp (OPut (rec_of key val len LOCAL_PUB (default_exp kc st exp)))))), KNone)
  | KCmdPutToPeers key val len pub exp upd =>
      if upd
      then (settle kc (fst (do_top kc st (TOp (OPut (rec_of key val len pub (default_exp kc st exp)))))), KNone)
      else (settle kc st, KNone)
  | KCmdStoreRecord key val len pub exp =>
      (settle kc (fst (do_top kc st (TOp (OPut (rec_of key val len pub (default_exp kc st exp)))))), KNone)
  | KCmdStartProviding key dist q =>
      (settle kc (fst (do_top kc st (TPutLocal key dist q))), KNone)
  | KCmdStopProviding key dist =>
      let '(st1, r) := do_top kc st (TOp (ORemoveLocal key dist)) in
      match r with
      | TOut (RBool false) => (mkKS (ks_t st1) (ks_now st1) true, KBool false)   (* debug_assert!(false) *)
      | _ => (settle kc st1, KBool true)
      end
  | KCmdGetRecord key =>
      let '(st1, r) := do_top kc st (TOp (OGet key)) in
      (settle kc st1,
       match r with
       | TOut (RRec (Some r)) => KRec (Some (r, remaining (ks_now st) r))
       | _ => KRec None
       end)
  | KCmdGetProviders key =>
      (settle kc (fst (do_top kc st (TOp (OGetProviders key)))), KNone)
  | KAge d order =>
      let st1 := mkKS (ks_t st) (ks_now st + d) (ks_dead st) in
      let '(st2, r) := do_top kc st1 TPoll in
      match r with
      | TFired l =>
          let due := flat_map (fun x : N * option N => match snd x with Some _ => [fst x] | None => [] end) l in
          if same_keys (map fst order) due
          then (settle kc (refresh_all kc st2 order), KBool true)
          else (st2, KBool false)
      | _ => (st2, KBool false)
      end
  end.

Fixpoint krun (kc : kcfg) (st : kstate) (h : list kev) : kstate * list kout :=
  match h with
  | [] => (st, [])
  | e :: t =>
      let '(st1, r) := kstep kc st e in
      let '(st2, rs) := krun kc st1 t in (st2, r :: rs)
  end.

Definition kfinal (kc : kcfg) (h : list kev) : kstate := fst (krun kc kstate0 h).

(* events that come from the network (a remote peer), as opposed to the local user / the clock *)
Definition remote (e : kev) : bool :=
  match e with
  | KPutValue _ _ _ _ _ _ | KAddProvider _ _ _ | KGetValue _ _ | KGetProviders _ _ => true
  | _ => false
  end.
