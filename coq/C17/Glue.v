(* C17 — wire format, model runner and the trace oracle prop_ok. Definitions only. *)
From Coq Require Import List NArith Bool.
From V.common Require Import Wire.
From V.C17 Require Import Model.
Import ListNotations.
Open Scope N_scope.

Definition NOW_BASE : N := 5000.

Definition p_op : parser op :=
  let* tag := pN in
  match tag with
  | 0 => let* k := pN in pret (OGet k)
  | 1 => let* k := pN in let* v := pN in let* len := pN in let* e := pN in
         pret (OPut (mkRec k v len (dec_opt e)))
  | 2 => let* k := pN in pret (OGetProviders k)
  | 3 => let* k := pN in let* pid := pN in let* d := pN in let* na := pN in
         pret (OPutProvider k pid d na)
  | 4 => let* k := pN in let* d := pN in pret (OPutLocal k d)
  | 5 => let* k := pN in let* d := pN in pret (ORemoveLocal k d)
  | _ => pfail
  end.

Definition p_cfg : parser cfg :=
  let* a := pN in let* b := pN in let* c := pN in let* d := pN in let* e := pN in let* f := pN in
  pret (mkCfg a b c d e f).

Fixpoint stamp (i : N) (l : list op) : list (op * N) :=
  match l with [] => [] | o :: t => (o, NOW_BASE + i) :: stamp (i + 1) t end.

Definition decode_case (l : list N) : option (cfg * list (op * N)) :=
  pall (let* c := p_cfg in let* ops := plist p_op in pret (c, stamp 0 ops)) l.

(* ---- encoders ---- *)
Definition enc_rec (r : record) : list N := [r_key r; r_val r; r_len r; enc_opt (r_exp r)].
Definition enc_prov (p : prov) : list N := [p_id p; p_dist p; p_naddr p].
Definition enc_out (o : out) : list N :=
  match o with
  | RNone => [0]
  | RRec None => [1; 0]
  | RRec (Some r) => [1; 1] ++ enc_rec r
  | RProvs l => 2 :: enc_list (fun p => [p_id p; p_naddr p]) l
  | RBool b => [3; b2n b]
  end.
Definition dump (s : store) : list N :=
  enc_list enc_rec (sort_by r_key (recs s)) ++
  enc_list (fun kp => fst kp :: enc_list enc_prov (snd kp)) (sort_by fst (pkeys s)) ++
  enc_list (fun k => [k]) (sort_by (fun k => k) (locals s)).

Fixpoint run_trace (c : cfg) (s : store) (h : list (op * N)) : list N :=
  match h with
  | [] => []
  | (o, now) :: t => let '(s1, r) := step c s o now in enc_out r ++ dump s1 ++ run_trace c s1 t
  end.

Definition run_case (l : list N) : list N :=
  match decode_case l with
  | Some (c, h) => 1 :: run_trace c empty_store h
  | None => [0]
  end.

(* ---- decoding a trace (used by the oracle on the implementation's output) ---- *)
Definition p_rec : parser record :=
  let* k := pN in let* v := pN in let* len := pN in let* e := pN in pret (mkRec k v len (dec_opt e)).
Definition p_prov : parser prov :=
  let* i := pN in let* d := pN in let* na := pN in pret (mkProv i d na 0).
Definition p_dump : parser store :=
  let* rs := plist p_rec in
  let* pk := plist (let* k := pN in let* ps := plist p_prov in pret (k, ps)) in
  let* ls := plist pN in
  pret (mkStore rs pk ls).

(* observed result of an operation: providers come back as (id, naddr) pairs *)
Inductive obs :=
| ONone | ORec (o : option record) | OProvs (l : list (N * N)) | OBool (b : bool).
Definition p_obs : parser obs :=
  let* tag := pN in
  match tag with
  | 0 => pret ONone
  | 1 => let* f := pN in
         if f =? 0 then pret (ORec None) else let* r := p_rec in pret (ORec (Some r))
  | 2 => let* l := plist (let* i := pN in let* na := pN in pret (i, na)) in pret (OProvs l)
  | 3 => let* b := pBool in pret (OBool b)
  | _ => pfail
  end.

Definition p_steps (n : nat) : parser (list (obs * store)) :=
  prep n (let* o := p_obs in let* d := p_dump in pret (o, d)).

(* ---- the oracle ---- *)
Definition rec_eqb (a b : record) : bool :=
  (r_key a =? r_key b) && (r_val a =? r_val b) && (r_len a =? r_len b) &&
  opt_eqb N.eqb (r_exp a) (r_exp b).
Definition prov_eqb (a b : prov) : bool :=
  (p_id a =? p_id b) && (p_dist a =? p_dist b) && (p_naddr a =? p_naddr b).
Definition recs_eqb := list_eqb rec_eqb.
Definition provs_eqb := list_eqb prov_eqb.
Definition pkeys_eqb := list_eqb (fun a b : N * list prov => (fst a =? fst b) && provs_eqb (snd a) (snd b)).

Fixpoint nodup_b (l : list N) : bool :=
  match l with [] => true | x :: t => negb (existsb (N.eqb x) t) && nodup_b t end.
Fixpoint sorted_b (l : list prov) : bool :=
  match l with
  | [] => true
  | x :: t => forallb (fun y => p_dist x <? p_dist y) t && sorted_b t
  end.

(* boolean face of Proofs.Inv *)
Definition inv_b (c : cfg) (s : store) : bool :=
  (N.of_nat (length (recs s)) <=? max_records c) &&
  forallb (fun r => r_len r <? max_size c) (recs s) &&
  nodup_b (map r_key (recs s)) &&
  (N.of_nat (length (pkeys s)) <=? max_keys c) &&
  nodup_b (map fst (pkeys s)) &&
  forallb (fun kp : N * list prov =>
             (N.of_nat (length (snd kp)) <=? max_per_key c) &&
             negb (match snd kp with [] => true | _ => false end) &&
             sorted_b (snd kp) && nodup_b (map p_id (snd kp)) &&
             forallb (fun p => p_naddr p <=? max_addrs c) (snd kp)) (pkeys s).

Fixpoint ins_sorted (x : prov) (l : list prov) : list prov :=
  match l with
  | [] => [x]
  | h :: t => if p_dist x <? p_dist h then x :: l else h :: ins_sorted x t
  end.
Definition spec_put (maxpk : nat) (pr : prov) (ps : list prov) : list prov :=
  firstn maxpk (ins_sorted pr (filter (fun p => negb (p_dist p =? p_dist pr)) ps)).

Definition same_but_recs (a b : store) : bool :=
  pkeys_eqb (pkeys a) (pkeys b) && nlist_eqb (locals a) (locals b).
Definition same_but_pkeys (a b : store) : bool :=
  recs_eqb (recs a) (recs b) && nlist_eqb (locals a) (locals b).
Definition others_same_pk (k : N) (a b : store) : bool :=
  pkeys_eqb (filter (fun kp => negb (fst kp =? k)) (pkeys a))
            (filter (fun kp => negb (fst kp =? k)) (pkeys b)).
Definition others_same_rec (k : N) (a b : store) : bool :=
  recs_eqb (filter (fun r => negb (r_key r =? k)) (recs a))
           (filter (fun r => negb (r_key r =? k)) (recs b)).

(* One step of the property, judged on what the implementation showed:
   prev = state before, o = operation at time now, (ob, next) = observed result and state. *)
Definition step_ok (c : cfg) (prev : store) (o : op) (now : N) (ob : obs) (next : store) : bool :=
  inv_b c next &&
  match o, ob with
  | OGet k, ORec res =>
      same_but_recs prev next && others_same_rec k prev next &&
      match res with
      | Some r => (r_key r =? k) && negb (rec_expired r now) &&
                  opt_eqb rec_eqb (find_rec k (recs prev)) (Some r) &&
                  opt_eqb rec_eqb (find_rec k (recs next)) (Some r)
      | None =>
          (* nothing fresh was withheld, and only an expired record may disappear *)
          match find_rec k (recs prev) with
          | Some r0 => rec_expired r0 now
          | None => true
          end && match find_rec k (recs next) with Some _ => false | None => true end
      end
  | OPut r, ONone =>
      same_but_recs prev next && others_same_rec (r_key r) prev next &&
      match find_rec (r_key r) (recs prev), find_rec (r_key r) (recs next) with
      | Some old, Some cur =>
          (* TTL monotonicity: an earlier-expiring record never replaces the stored one;
             whatever is stored is the old or the new record *)
          match r_exp old, r_exp r with
          | Some t, Some t' => if t' <? t then rec_eqb cur old else rec_eqb cur old || rec_eqb cur r
          | _, _ => rec_eqb cur old || rec_eqb cur r
          end
      | None, Some cur => rec_eqb cur r
      | Some _, None => false
      | None, None => true
      end
  | OGetProviders k, OProvs l =>
      same_but_pkeys prev next && others_same_pk k prev next &&
      (* what is returned is what is now stored, a sub-list of what was stored *)
      match find_pk k (pkeys next) with
      | Some ps => list_eqb (fun a b : N * N => (fst a =? fst b) && (snd a =? snd b))
                            l (map (fun p => (p_id p, p_naddr p)) ps)
      | None => match l with [] => true | _ => false end
      end &&
      forallb (fun x : N * N => existsb (fun p => (p_id p =? fst x) && (p_naddr p =? snd x))
                                 (match find_pk k (pkeys prev) with Some ps => ps | None => [] end)) l
  | OPutProvider k pid dist naddr, OBool ok =>
      same_but_pkeys prev next && others_same_pk k prev next &&
      match find_pk k (pkeys prev) with
      | Some ps =>
          let want := spec_put (N.to_nat (max_per_key c)) (mkProv pid dist (N.min naddr (max_addrs c)) 0) ps in
          opt_eqb provs_eqb (find_pk k (pkeys next)) (Some want) &&
          Bool.eqb ok (existsb (fun p => p_id p =? pid) want)
      | None =>
          if ok then opt_eqb provs_eqb (find_pk k (pkeys next))
                       (Some [mkProv pid dist (N.min naddr (max_addrs c)) 0])
          else match find_pk k (pkeys next) with None => true | Some _ => false end
      end
  | OPutLocal k dist, OBool ok =>
      recs_eqb (recs prev) (recs next) && others_same_pk k prev next &&
      Bool.eqb ok (existsb (fun p => p_id p =? LOCAL_ID)
                     (match find_pk k (pkeys next) with Some ps => ps | None => [] end)
                   && existsb (N.eqb k) (locals next))
  | ORemoveLocal k dist, OBool _ =>
      recs_eqb (recs prev) (recs next) && others_same_pk k prev next &&
      negb (existsb (N.eqb k) (locals next))
  | _, _ => false
  end.

Fixpoint steps_ok (c : cfg) (prev : store) (h : list (op * N)) (tr : list (obs * store)) : bool :=
  match h, tr with
  | [], [] => true
  | (o, now) :: h', (ob, next) :: tr' => step_ok c prev o now ob next && steps_ok c next h' tr'
  | _, _ => false
  end.

(* prop_ok case trace: the trace (as printed by the implementation or by run_case) satisfies
   the property on this case. *)
Definition prop_ok (case trace : list N) : bool :=
  match decode_case case, trace with
  | Some (c, h), 1 :: body =>
      if 1 <=? max_per_key c then
        match pall (p_steps (length h)) body with
        | Some tr => steps_ok c empty_store h tr
        | None => false
        end
      else true   (* configurations with max_providers_per_key = 0 are outside the property *)
  | None, [0] => true
  | _, _ => false
  end.

(* No known-finding classes for C17: every failing case is a violation. *)
Definition known_class (case trace : list N) : N := 0.
