(* C17 — wire format, model runner and the trace oracle prop_ok. Definitions only. *)
From Coq Require Import List NArith Bool.
From V.common Require Import Wire.
From V.gen Require Consts.
From V.C17 Require Import Model Timed Ingress.
Import ListNotations.
Open Scope N_scope.

Definition NOW_BASE : N := 5000.

Definition p_op : parser op :=
  let* tag := pN in
  match tag with
  | 0 => let* k := pN in pret (OGet k)
  | 1 => let* k := pN in let* v := pN in let* len := pN in let* e := pN in
         pret (OPut (mkRec k v len (dec_opt e)))
  | 2 => let* k := pN in pret (OGetProviders k)
  | 3 => let* k := pN in let* pid := pN in let* d := pN in let* na := pN in
         pret (OPutProvider k pid d na)
  | 4 => let* k := pN in let* d := pN in pret (OPutLocal k d)
  | 5 => let* k := pN in let* d := pN in pret (ORemoveLocal k d)
  | _ => pfail
  end.

Definition p_cfg : parser cfg :=
  let* a := pN in let* b := pN in let* c := pN in let* d := pN in let* e := pN in let* f := pN in
  pret (mkCfg a b c d e f).

Fixpoint stamp (i : N) (l : list op) : list (op * N) :=
  match l with [] => [] | o :: t => (o, NOW_BASE + i) :: stamp (i + 1) t end.

Definition decode_case (l : list N) : option (cfg * list (op * N)) :=
  pall (let* c := p_cfg in let* ops := plist p_op in pret (c, stamp 0 ops)) l.

(* ---- encoders ---- *)
Definition enc_rec (r : record) : list N := [r_key r; r_val r; r_len r; enc_opt (r_exp r)].
Definition enc_prov (p : prov) : list N := [p_id p; p_dist p; p_naddr p].
Definition enc_out (o : out) : list N :=
  match o with
  | RNone => [0]
  | RRec None => [1; 0]
  | RRec (Some r) => [1; 1] ++ enc_rec r
  | RProvs l => 2 :: enc_list (fun p => [p_id p; p_naddr p]) l
  | RBool b => [3; b2n b]
  end.
Definition dump (s : store) : list N :=
  enc_list enc_rec (sort_by r_key (recs s)) ++
  enc_list (fun kp => fst kp :: enc_list enc_prov (snd kp)) (sort_by fst (pkeys s)) ++
  enc_list (fun k => [k]) (sort_by (fun k => k) (locals s)).

Fixpoint run_trace (c : cfg) (s : store) (h : list (op * N)) : list N :=
  match h with
  | [] => []
  | (o, now) :: t => let '(s1, r) := step c s o now in enc_out r ++ dump s1 ++ run_trace c s1 t
  end.

Definition run_case_v1 (l : list N) : list N :=
  match decode_case l with
  | Some (c, h) => 1 :: run_trace c empty_store h
  | None => [0]
  end.

(* ---- decoding a trace (used by the oracle on the implementation's output) ---- *)
Definition p_rec : parser record :=
  let* k := pN in let* v := pN in let* len := pN in let* e := pN in pret (mkRec k v len (dec_opt e)).
Definition p_prov : parser prov :=
  let* i := pN in let* d := pN in let* na := pN in pret (mkProv i d na 0).
Definition p_dump : parser store :=
  let* rs := plist p_rec in
  let* pk := plist (let* k := pN in let* ps := plist p_prov in pret (k, ps)) in
  let* ls := plist pN in
  pret (mkStore rs pk ls).

(* observed result of an operation: providers come back as (id, naddr) pairs *)
Inductive obs :=
| ONone | ORec (o : option record) | OProvs (l : list (N * N)) | OBool (b : bool).
Definition p_obs : parser obs :=
  let* tag := pN in
  match tag with
  | 0 => pret ONone
  | 1 => let* f := pN in
         if f =? 0 then pret (ORec None) else let* r := p_rec in pret (ORec (Some r))
  | 2 => let* l := plist (let* i := pN in let* na := pN in pret (i, na)) in pret (OProvs l)
  | 3 => let* b := pBool in pret (OBool b)
  | _ => pfail
  end.

Definition p_steps (n : nat) : parser (list (obs * store)) :=
  prep n (let* o := p_obs in let* d := p_dump in pret (o, d)).

(* ---- the oracle ---- *)
Definition rec_eqb (a b : record) : bool :=
  (r_key a =? r_key b) && (r_val a =? r_val b) && (r_len a =? r_len b) &&
  opt_eqb N.eqb (r_exp a) (r_exp b).
Definition prov_eqb (a b : prov) : bool :=
  (p_id a =? p_id b) && (p_dist a =? p_dist b) && (p_naddr a =? p_naddr b).
Definition recs_eqb := list_eqb rec_eqb.
Definition provs_eqb := list_eqb prov_eqb.
Definition pkeys_eqb := list_eqb (fun a b : N * list prov => (fst a =? fst b) && provs_eqb (snd a) (snd b)).

Fixpoint nodup_b (l : list N) : bool :=
  match l with [] => true | x :: t => negb (existsb (N.eqb x) t) && nodup_b t end.
Fixpoint sorted_b (l : list prov) : bool :=
  match l with
  | [] => true
  | x :: t => forallb (fun y => p_dist x <? p_dist y) t && sorted_b t
  end.

(* boolean face of Proofs.Inv *)
Definition inv_b (c : cfg) (s : store) : bool :=
  (N.of_nat (length (recs s)) <=? max_records c) &&
  forallb (fun r => r_len r <? max_size c) (recs s) &&
  nodup_b (map r_key (recs s)) &&
  (N.of_nat (length (pkeys s)) <=? max_keys c) &&
  nodup_b (map fst (pkeys s)) &&
  forallb (fun kp : N * list prov =>
             (N.of_nat (length (snd kp)) <=? max_per_key c) &&
             negb (match snd kp with [] => true | _ => false end) &&
             sorted_b (snd kp) && nodup_b (map p_id (snd kp)) &&
             forallb (fun p => p_naddr p <=? max_addrs c) (snd kp)) (pkeys s).

Fixpoint ins_sorted (x : prov) (l : list prov) : list prov :=
  match l with
  | [] => [x]
  | h :: t => if p_dist x <? p_dist h then x :: l else h :: ins_sorted x t
  end.
Definition spec_put (maxpk : nat) (pr : prov) (ps : list prov) : list prov :=
  firstn maxpk (ins_sorted pr (filter (fun p => negb (p_dist p =? p_dist pr)) ps)).

Definition same_but_recs (a b : store) : bool :=
  pkeys_eqb (pkeys a) (pkeys b) && nlist_eqb (locals a) (locals b).
Definition same_but_pkeys (a b : store) : bool :=
  recs_eqb (recs a) (recs b) && nlist_eqb (locals a) (locals b).
Definition others_same_pk (k : N) (a b : store) : bool :=
  pkeys_eqb (filter (fun kp => negb (fst kp =? k)) (pkeys a))
            (filter (fun kp => negb (fst kp =? k)) (pkeys b)).
Definition others_same_rec (k : N) (a b : store) : bool :=
  recs_eqb (filter (fun r => negb (r_key r =? k)) (recs a))
           (filter (fun r => negb (r_key r =? k)) (recs b)).

(* One step of the property, judged on what the implementation showed:
   prev = state before, o = operation at time now, (ob, next) = observed result and state. *)
Definition step_ok (c : cfg) (prev : store) (o : op) (now : N) (ob : obs) (next : store) : bool :=
  inv_b c next &&
  match o, ob with
  | OGet k, ORec res =>
      same_but_recs prev next && others_same_rec k prev next &&
      match res with
      | Some r => (r_key r =? k) && negb (rec_expired r now) &&
                  opt_eqb rec_eqb (find_rec k (recs prev)) (Some r) &&
                  opt_eqb rec_eqb (find_rec k (recs next)) (Some r)
      | None =>
          (* nothing fresh was withheld, and only an expired record may disappear *)
          match find_rec k (recs prev) with
          | Some r0 => rec_expired r0 now
          | None => true
          end && match find_rec k (recs next) with Some _ => false | None => true end
      end
  | OPut r, ONone =>
      same_but_recs prev next && others_same_rec (r_key r) prev next &&
      match find_rec (r_key r) (recs prev), find_rec (r_key r) (recs next) with
      | Some old, Some cur =>
          (* TTL monotonicity: an earlier-expiring record never replaces the stored one;
             whatever is stored is the old or the new record *)
          match r_exp old, r_exp r with
          | Some t, Some t' => if t' <? t then rec_eqb cur old else rec_eqb cur old || rec_eqb cur r
          | _, _ => rec_eqb cur old || rec_eqb cur r
          end
      | None, Some cur => rec_eqb cur r
      | Some _, None => false
      | None, None => true
      end
  | OGetProviders k, OProvs l =>
      same_but_pkeys prev next && others_same_pk k prev next &&
      (* what is returned is what is now stored, a sub-list of what was stored *)
      match find_pk k (pkeys next) with
      | Some ps => list_eqb (fun a b : N * N => (fst a =? fst b) && (snd a =? snd b))
                            l (map (fun p => (p_id p, p_naddr p)) ps)
      | None => match l with [] => true | _ => false end
      end &&
      forallb (fun x : N * N => existsb (fun p => (p_id p =? fst x) && (p_naddr p =? snd x))
                                 (match find_pk k (pkeys prev) with Some ps => ps | None => [] end)) l
  | OPutProvider k pid dist naddr, OBool ok =>
      same_but_pkeys prev next && others_same_pk k prev next &&
      match find_pk k (pkeys prev) with
      | Some ps =>
          let want := spec_put (N.to_nat (max_per_key c)) (mkProv pid dist (N.min naddr (max_addrs c)) 0) ps in
          opt_eqb provs_eqb (find_pk k (pkeys next)) (Some want) &&
          Bool.eqb ok (existsb (fun p => p_id p =? pid) want)
      | None =>
          if ok then opt_eqb provs_eqb (find_pk k (pkeys next))
                       (Some [mkProv pid dist (N.min naddr (max_addrs c)) 0])
          else match find_pk k (pkeys next) with None => true | Some _ => false end
      end
  | OPutLocal k dist, OBool ok =>
      recs_eqb (recs prev) (recs next) && others_same_pk k prev next &&
      Bool.eqb ok (existsb (fun p => p_id p =? LOCAL_ID)
                     (match find_pk k (pkeys next) with Some ps => ps | None => [] end)
                   && existsb (N.eqb k) (locals next))
  | ORemoveLocal k dist, OBool _ =>
      recs_eqb (recs prev) (recs next) && others_same_pk k prev next &&
      negb (existsb (N.eqb k) (locals next))
  | _, _ => false
  end.

Fixpoint steps_ok (c : cfg) (prev : store) (h : list (op * N)) (tr : list (obs * store)) : bool :=
  match h, tr with
  | [], [] => true
  | (o, now) :: h', (ob, next) :: tr' => step_ok c prev o now ob next && steps_ok c next h' tr'
  | _, _ => false
  end.

(* prop_ok case trace: the trace (as printed by the implementation or by run_case) satisfies
   the property on this case. *)
Definition prop_ok_v1 (case trace : list N) : bool :=
  match decode_case case, trace with
  | Some (c, h), 1 :: body =>
      if 1 <=? max_per_key c then
        match pall (p_steps (length h)) body with
        | Some tr => steps_ok c empty_store h tr
        | None => false
        end
      else true   (* configurations with max_providers_per_key = 0 are outside the property *)
  | None, [0] => true
  | _, _ => false
  end.

(* ================================================================================================
   Second stream (cases starting with TIMED_TAG): the store with explicit clock readings and the
   refresh machinery (Timed.v).  Case: TIMED_TAG cfg(6) interval n (tag now args..)*.
   ================================================================================================ *)
Definition TIMED_TAG : N := 9001.
Definition KAD_TAG : N := 9002.

Definition p_top : parser (top * N) :=
  let* tag := pN in
  let* now := pN in
  match tag with
  | 0 => let* k := pN in pret (TOp (OGet k), now)
  | 1 => let* k := pN in let* v := pN in let* len := pN in let* e := pN in
         pret (TOp (OPut (mkRec k v len (dec_opt e))), now)
  | 2 => let* k := pN in pret (TOp (OGetProviders k), now)
  | 3 => let* k := pN in let* pid := pN in let* d := pN in let* na := pN in
         pret (TOp (OPutProvider k pid d na), now)
  | 4 => let* k := pN in let* d := pN in let* q := pN in pret (TPutLocal k d q, now)
  | 5 => let* k := pN in let* d := pN in pret (TOp (ORemoveLocal k d), now)
  | 6 => pret (TPoll, now)
  | 7 => let* e := pN in pret (TExpRec (dec_opt e), now)
  | 8 => let* e := pN in pret (TExpProv e, now)
  | _ => pfail
  end.

Definition decode_timed (l : list N) : option (cfg * N * list (top * N)) :=
  pall (let* c := p_cfg in let* i := pN in let* ops := plist p_top in pret (c, i, ops)) l.

Definition pair_key (x : N * N) : N := fst x.
(* RefreshProvider actions (key, quorum) sorted by key, then the number of completed futures whose
   key is no longer provided (`next_action` returns None for them without naming the key) *)
Definition fired_some (l : list (N * option N)) : list (N * N) :=
  flat_map (fun x : N * option N => match snd x with Some q => [(fst x, q)] | None => [] end) l.
Definition fired_none (l : list (N * option N)) : N :=
  N.of_nat (length (filter (fun x : N * option N => match snd x with None => true | Some _ => false end) l)).
Definition enc_fired (l : list (N * option N)) : list N :=
  enc_list (fun x : N * N => [fst x; snd x]) (sort_by pair_key (fired_some l)) ++ [fired_none l].
Definition enc_tout (o : tout) : list N :=
  match o with
  | TOut o => enc_out o
  | TFired l => 4 :: enc_fired l
  | TFlag b => [5; b2n b]
  end.
Definition enc_quorum (l : list (N * N)) : list N :=
  enc_list (fun x : N * N => [fst x; snd x]) (sort_by pair_key l).
Definition tdump (ts : tstore) : list N :=
  dump (ts_store ts) ++ enc_quorum (ts_quorum ts) ++ [N.of_nat (length (ts_timers ts))].

Fixpoint trun_trace (c : cfg) (i : N) (ts : tstore) (h : list (top * N)) : list N :=
  match h with
  | [] => []
  | (o, now) :: t =>
      let '(ts1, r) := tstep c i ts o now in enc_tout r ++ tdump ts1 ++ trun_trace c i ts1 t
  end.

Definition run_timed (l : list N) : list N :=
  match decode_timed l with
  | Some (c, i, h) => 2 :: trun_trace c i empty_tstore h
  | None => [0]
  end.

(* ---- oracle for the timed stream ---- *)
Inductive tobs := TObs (o : obs) | TObsFired (l : list (N * N)) (gone : N) | TObsFlag (b : bool).
Definition p_tobs : parser tobs :=
  fun l =>
  match l with
  | 4 :: rest => (let* f := plist (let* k := pN in let* q := pN in pret (k, q)) in let* g := pN in pret (TObsFired f g)) rest
  | 5 :: rest => (let* b := pBool in pret (TObsFlag b)) rest
  | _ => (let* o := p_obs in pret (TObs o)) l
  end.
Definition p_tdump : parser (store * list (N * N) * N) :=
  let* s := p_dump in
  let* q := plist (let* k := pN in let* v := pN in pret (k, v)) in
  let* n := pN in
  pret (s, q, n).
Definition p_tsteps (n : nat) : parser (list (tobs * (store * list (N * N) * N))) :=
  prep n (let* o := p_tobs in let* d := p_tdump in pret (o, d)).

Definition same_store (a b : store) : bool :=
  recs_eqb (recs a) (recs b) && pkeys_eqb (pkeys a) (pkeys b) && nlist_eqb (locals a) (locals b).

(* local_providers as dumped: the keys of the quorum map are exactly `locals` *)
Definition quorum_sync (s : store) (q : list (N * N)) : bool :=
  nlist_eqb (map fst q) (locals s).

Definition tstep_ok (c : cfg) (prev : store) (pq : list (N * N)) (o : top) (now : N)
           (ob : tobs) (next : store) (nq : list (N * N)) : bool :=
  quorum_sync next nq &&
  match o, ob with
  | TOp o', TObs ob' => step_ok c prev o' now ob' next
  | TPutLocal k d q, TObs ob' =>
      step_ok c prev (OPutLocal k d) now ob' next &&
      match ob' with
      | OBool true => opt_eqb N.eqb (find_q k nq) (Some q)
      | _ => true
      end
  | TPoll, TObsFired l _ =>
      (* polling changes no map; a refresh is only ever announced for a key that is provided, with
         the quorum stored for it *)
      inv_b c next && same_store prev next &&
      forallb (fun x : N * N => opt_eqb N.eqb (find_q (fst x) pq) (Some (snd x))) l
  | TExpRec e, TObsFlag b =>
      same_store prev next && Bool.eqb b (match e with Some t => t <=? now | None => false end)
  | TExpProv e, TObsFlag b => same_store prev next && Bool.eqb b (e <=? now)
  | _, _ => false
  end.

Fixpoint tsteps_ok (c : cfg) (prev : store) (pq : list (N * N)) (h : list (top * N))
         (tr : list (tobs * (store * list (N * N) * N))) : bool :=
  match h, tr with
  | [], [] => true
  | (o, now) :: h', (ob, (next, nq, _)) :: tr' =>
      tstep_ok c prev pq o now ob next nq && tsteps_ok c next nq h' tr'
  | _, _ => false
  end.

Definition prop_ok_timed (case trace : list N) : bool :=
  match decode_timed case, trace with
  | Some (c, i, h), 2 :: body =>
      if 1 <=? max_per_key c then
        match pall (p_tsteps (length h)) body with
        | Some tr => tsteps_ok c empty_store [] h tr
        | None => false
        end
      else true
  | None, [0] => true
  | _, _ => false
  end.

(* ================================================================================================
   Third stream (cases starting with KAD_TAG): the Kademlia event loop around the store (Ingress.v).
   Case: KAD_TAG cfg(6) interval auto record_ttl repl npub n (tag args..)*.
   ================================================================================================ *)
Definition p_triple : parser (N * N * N) :=
  let* p := pN in let* d := pN in let* na := pN in pret (p, d, na).
Definition p_pair : parser (N * N) := let* a := pN in let* b := pN in pret (a, b).

Definition p_kev : parser kev :=
  let* tag := pN in
  match tag with
  | 0 => let* f := pN in let* k := pN in let* v := pN in let* len := pN in let* pb := pN in let* ttl := pN in
         pret (KPutValue f k v len pb ttl)
  | 1 => let* f := pN in let* k := pN in
         let* l := plist (let* t := p_triple in let* v := pN in pret (t, v)) in pret (KAddProvider f k l)
  | 2 => let* f := pN in let* k := pN in pret (KGetValue f k)
  | 3 => let* f := pN in let* k := pN in pret (KGetProviders f k)
  | 4 => let* k := pN in let* v := pN in let* len := pN in let* e := pN in
         pret (KCmdPutRecord k v len (dec_opt e))
  | 5 => let* k := pN in let* v := pN in let* len := pN in let* pb := pN in let* e := pN in let* u := pBool in
         pret (KCmdPutToPeers k v len pb (dec_opt e) u)
  | 6 => let* k := pN in let* v := pN in let* len := pN in let* pb := pN in let* e := pN in
         pret (KCmdStoreRecord k v len pb (dec_opt e))
  | 7 => let* k := pN in let* d := pN in let* q := pN in pret (KCmdStartProviding k d q)
  | 8 => let* k := pN in let* d := pN in pret (KCmdStopProviding k d)
  | 9 => let* k := pN in pret (KCmdGetRecord k)
  | 10 => let* k := pN in pret (KCmdGetProviders k)
  | 11 => let* d := pN in let* l := plist p_pair in pret (KAge d l)
  | _ => pfail
  end.

Definition decode_kad (l : list N) : option (kcfg * list kev) :=
  pall (let* c := p_cfg in let* i := pN in let* a := pBool in let* rt := pN in let* rp := pN in
        let* np := pN in let* evs := plist p_kev in pret (mkK c i a rt rp np, evs)) l.

(* expiry relative to the clock: [2;0] none, [0; now - t] expired, [1; t - now] fresh *)
Definition enc_rel (now : N) (e : option N) : list N :=
  match e with
  | None => [2; 0]
  | Some t => if t <=? now then [0; now - t] else [1; t - now]
  end.
Definition enc_krec (now : N) (r : record) : list N :=
  [r_key r; r_val r; r_len r] ++ enc_rel now (r_exp r).
Definition enc_kprov (now : N) (p : prov) : list N :=
  [p_id p; p_dist p; p_naddr p] ++ enc_rel now (Some (p_exp p)).
Definition kdump (st : kstate) : list N :=
  let s := ts_store (ks_t st) in
  enc_list (enc_krec (ks_now st)) (sort_by r_key (recs s)) ++
  enc_list (fun kp => fst kp :: enc_list (enc_kprov (ks_now st)) (snd kp)) (sort_by fst (pkeys s)) ++
  enc_quorum (ts_quorum (ks_t st)) ++ [N.of_nat (length (ts_timers (ks_t st)))].
Definition enc_kout (o : kout) : list N :=
  match o with
  | KNone => [0]
  | KAck => [1]
  | KRec None => [2; 0]
  | KRec (Some (r, ttl)) => [2; 1; r_key r; r_val r; r_len r; enc_opt ttl]
  | KProvs l => 3 :: enc_list (fun x : N * N => [fst x; snd x]) l
  | KBool b => [4; b2n b]
  | KDead => [5]
  end.

Fixpoint krun_trace (kc : kcfg) (st : kstate) (h : list kev) : list N :=
  match h with
  | [] => []
  | e :: t =>
      let '(st1, r) := kstep kc st e in
      enc_kout r ++ (if ks_dead st1 then [0] else 1 :: kdump st1) ++ krun_trace kc st1 t
  end.

Definition run_kad (l : list N) : list N :=
  match decode_kad l with
  | Some (kc, h) => 3 :: krun_trace kc kstate0 h
  | None => [0]
  end.

(* ---- oracle for the Kademlia stream: judged on the dumps and answers alone ---- *)
Record krec := mkKR { kr_rec : record; kr_flag : N; kr_delta : N }.    (* r_exp unused *)
Record kprov := mkKP { kp_prov : prov; kp_flag : N; kp_delta : N }.
Record kdumped := mkKD { kd_recs : list krec; kd_pk : list (N * list kprov); kd_q : list (N * N) }.

Definition p_krec : parser krec :=
  let* k := pN in let* v := pN in let* len := pN in let* f := pN in let* d := pN in
  pret (mkKR (mkRec k v len None) f d).
Definition p_kprov : parser kprov :=
  let* i := pN in let* d := pN in let* na := pN in let* f := pN in let* dl := pN in
  pret (mkKP (mkProv i d na 0) f dl).
Definition p_kdump : parser kdumped :=
  let* rs := plist p_krec in
  let* pk := plist (let* k := pN in let* ps := plist p_kprov in pret (k, ps)) in
  let* q := plist p_pair in
  let* _ := pN in
  pret (mkKD rs pk q).

Inductive kobs :=
| KONone | KOAck | KORec (o : option (N * N * N * option N)) | KOProvs (l : list (N * N))
| KOBool (b : bool) | KODead.
Definition p_kobs : parser kobs :=
  let* tag := pN in
  match tag with
  | 0 => pret KONone
  | 1 => pret KOAck
  | 2 => let* f := pN in
         if f =? 0 then pret (KORec None)
         else let* k := pN in let* v := pN in let* len := pN in let* t := pN in
              pret (KORec (Some (k, v, len, dec_opt t)))
  | 3 => let* l := plist p_pair in pret (KOProvs l)
  | 4 => let* b := pBool in pret (KOBool b)
  | 5 => pret KODead
  | _ => pfail
  end.

Definition kd_store (d : kdumped) : store :=
  mkStore (map kr_rec (kd_recs d)) (map (fun kp => (fst kp, map kp_prov (snd kp))) (kd_pk d)) (map fst (kd_q d)).

Definition kd_find_rec (k : N) (d : kdumped) : option krec :=
  find (fun r => r_key (kr_rec r) =? k) (kd_recs d).
Definition kd_provs (k : N) (d : kdumped) : list kprov :=
  match find (fun kp : N * list kprov => fst kp =? k) (kd_pk d) with Some kp => snd kp | None => [] end.

(* absolute ordering of two relative expiries taken at the same clock reading:
   a <= b ?  (flag 2 = never: the largest) *)
Definition rel_le (fa da fb db : N) : bool :=
  match fa, fb with
  | 2, 2 => true
  | 2, _ => false
  | _, 2 => true
  | 0, 0 => db <=? da
  | 0, _ => true
  | _, 0 => false
  | _, _ => da <=? db
  end.

Definition sender (e : kev) : N :=
  match e with
  | KPutValue f _ _ _ _ _ | KAddProvider f _ _ | KGetValue f _ | KGetProviders f _ => f
  | _ => 0
  end.

(* One event of the Kademlia stream, judged on what the implementation showed: the bounds hold in
   the dumped store; what is served was stored and fresh at that clock reading; a stored record
   with an expiry is not replaced by an earlier-expiring one; a remote event changes no local
   provider registration and, without automatic validation, adds no record. *)
Definition kstep_ok (kc : kcfg) (prev : kdumped) (e : kev) (ob : kobs) (next : kdumped) : bool :=
  inv_b (k_scfg kc) (kd_store next) &&
  match e, ob with
  | KGetValue _ k, KORec (Some (k', v, len, ttl))
  | KCmdGetRecord k, KORec (Some (k', v, len, ttl)) =>
      (k' =? k) &&
      match kd_find_rec k prev with
      | Some r => (r_val (kr_rec r) =? v) && (r_len (kr_rec r) =? len) && negb (kr_flag r =? 0)
      | None => false
      end
  | KGetValue _ k, KORec None
  | KCmdGetRecord k, KORec None =>
      match kd_find_rec k prev with
      | Some r => kr_flag r =? 0          (* only an expired record may be withheld *)
      | None => true
      end
  | KGetProviders _ k, KOProvs l =>
      forallb (fun x : N * N =>
                 existsb (fun p => (p_id (kp_prov p) =? fst x) && negb (kp_flag p =? 0)) (kd_provs k prev)) l &&
      forallb (fun p => (kp_flag p =? 0) || existsb (fun x : N * N => fst x =? p_id (kp_prov p)) l) (kd_provs k prev) &&
      forallb (fun x : N * N => snd x <=? WIRE_MAX_ADDRS) l
  | KAge _ _, KOBool _ => true
  | KCmdStopProviding _ _, KOBool _ => true
  | _, KODead => true
  | _, KORec _ => false
  | _, KOProvs _ => match e with KCmdGetProviders _ => true | _ => false end
  | _, _ => true
  end &&
  (* TTL monotonicity on every key present before and after (the clock does not move in the step) *)
  match e with
  | KAge _ _ => true
  | _ =>
      forallb (fun r =>
                 match kd_find_rec (r_key (kr_rec r)) next with
                 | Some r' =>
                     if (kr_flag r =? 2) || (kr_flag r' =? 2) then true
                     else rel_le (kr_flag r) (kr_delta r) (kr_flag r') (kr_delta r')
                 | None => true
                 end) (kd_recs prev)
  end &&
  if remote e then
    list_eqb (fun a b : N * N => (fst a =? fst b) && (snd a =? snd b)) (kd_q prev) (kd_q next) &&
    (* a remote peer adds nobody but itself as a provider *)
    forallb (fun kp : N * list kprov =>
               forallb (fun p => (p_id (kp_prov p) =? sender e) ||
                                 existsb (fun p0 => p_id (kp_prov p0) =? p_id (kp_prov p)) (kd_provs (fst kp) prev))
                       (snd kp)) (kd_pk next) &&
    (k_auto kc ||
     forallb (fun r' => match kd_find_rec (r_key (kr_rec r')) prev with
                        | Some r => (r_val (kr_rec r) =? r_val (kr_rec r')) && (r_len (kr_rec r) =? r_len (kr_rec r'))
                        | None => false
                        end) (kd_recs next))
  else true.

(* every step: answer, then 0 (the loop is gone: no dump) or 1 and the dump *)
Definition p_ksteps (n : nat) : parser (list (kobs * option kdumped)) :=
  prep n (let* o := p_kobs in
          let* f := pN in
          if f =? 0 then pret (o, None) else let* d := p_kdump in pret (o, Some d)).

Fixpoint ksteps_ok (kc : kcfg) (prev : kdumped) (h : list kev) (tr : list (kobs * option kdumped)) : bool :=
  match h, tr with
  | [], [] => true
  | e :: h', (ob, Some next) :: tr' => kstep_ok kc prev e ob next && ksteps_ok kc next h' tr'
  | e :: h', (ob, None) :: tr' =>
      (* the loop is gone (debug assertion of remove_local_provider): outside the property text *)
      match ob with KODead | KOBool false => ksteps_ok kc prev h' tr' | _ => false end
  | _, _ => false
  end.

Definition prop_ok_kad (case trace : list N) : bool :=
  match decode_kad case, trace with
  | Some (kc, h), 3 :: body =>
      if 1 <=? max_per_key (k_scfg kc) then
        match pall (p_ksteps (length h)) body with
        | Some tr => ksteps_ok kc (mkKD [] [] []) h tr
        | None => false
        end
      else true
  | None, [0] => true
  | _, _ => false
  end.

(* ---- DEFAULTS_TAG: `MemoryStoreConfig::default()` as compiled, against the constants the
   translator reads from config.rs (the ones C17_default_config is stated for) ---- *)
Definition run_defaults : list N :=
  [4; V.gen.Consts.DEFAULT_MAX_RECORDS; V.gen.Consts.DEFAULT_MAX_RECORD_SIZE_BYTES;
   V.gen.Consts.DEFAULT_MAX_PROVIDER_KEYS; V.gen.Consts.DEFAULT_MAX_PROVIDER_ADDRESSES;
   V.gen.Consts.DEFAULT_MAX_PROVIDERS_PER_KEY; V.gen.Consts.DEFAULT_PROVIDER_REFRESH_INTERVAL_SECS;
   V.gen.Consts.DEFAULT_PROVIDER_TTL_SECS].

(* ---- dispatch on the first number of the case ---- *)
Definition run_case (l : list N) : list N :=
  match l with
  | 9001 :: rest => run_timed rest
  | 9002 :: rest => run_kad rest
  | [9003] => run_defaults
  | _ => run_case_v1 l
  end.

Definition prop_ok (case trace : list N) : bool :=
  match case with
  | 9001 :: rest => prop_ok_timed rest trace
  | 9002 :: rest => prop_ok_kad rest trace
  | [9003] => true      (* other default values are a different configuration, not a violation *)
  | _ => prop_ok_v1 case trace
  end.

(* No known-finding classes for C17: every failing case is a violation. *)
Definition known_class (case trace : list N) : N := 0.
