(* C17 — the MemoryStore together with its refresh machinery (store.rs: `local_providers` with the
   stored quorum, `pending_provider_refresh`, `next_action`) and explicit clock readings.
   Definitions only; proofs are in TimedProofs.v.  The record / provider maps are the ones of
   Model.v and every map operation is Model.v's.

   What is added to Model.v:
   - `local_providers` is a map key -> (provider, quorum); the provider is always (local peer, no
     addresses), so the model keeps the quorum (`ts_quorum`, an association list, newest first);
   - every successful `put_local_provider` pushes a future `async { sleep(interval).await; key }`
     onto `pending_provider_refresh`.  The future is lazy: `sleep` computes its deadline when the
     future is polled for the first time, i.e. at the first poll of `next_action` after the push
     (`tm_due = None` until then).  `tm_born` is a ghost field (time of the push) used by the
     theorems only;
   - `TPoll`: `next_action()` polled until it is Pending, at clock reading `now`: first every future
     not polled before is armed with `now + interval`, then every armed future whose deadline is
     `<= now` completes; a completed future yields `RefreshProvider` with the stored quorum when its
     key is still in `local_providers`, and nothing otherwise;
   - `TExpRec` / `TExpProv`: `Record::is_expired` / `ProviderRecord::is_expired` called directly. *)
From Coq Require Import List NArith Bool.
From V.C17 Require Import Model.
Import ListNotations.
Open Scope N_scope.

Record timer := mkTimer { tm_key : N; tm_born : N; tm_due : option N }.

Record tstore := mkT {
  ts_store : store;
  ts_quorum : list (N * N);       (* local_providers: key -> quorum code *)
  ts_timers : list timer          (* pending_provider_refresh *)
}.

Definition empty_tstore : tstore := mkT empty_store [] [].

(* Quorum codes: 0 = All, 1 = One, n + 1 = N(n) for n >= 1 *)
Fixpoint find_q (k : N) (l : list (N * N)) : option N :=
  match l with
  | [] => None
  | (k', q) :: t => if k' =? k then Some q else find_q k t
  end.
Definition del_q (k : N) (l : list (N * N)) : list (N * N) :=
  filter (fun x => negb (fst x =? k)) l.
Definition set_q (k q : N) (l : list (N * N)) : list (N * N) := (k, q) :: del_q k l.

Inductive top :=
| TOp (o : op)                       (* an operation of Model.v (OPutLocal: quorum One) *)
| TPutLocal (k dist q : N)           (* put_local_provider(key, quorum) *)
| TPoll                              (* next_action() until Pending *)
| TExpRec (exp : option N)           (* Record { expires: exp, .. }.is_expired(now) *)
| TExpProv (exp : N).                (* ProviderRecord { expires: exp, .. }.is_expired(now) *)

Inductive tout :=
| TOut (o : out)
| TFired (l : list (N * option N))   (* completed refresh futures: key, Some quorum = RefreshProvider *)
| TFlag (b : bool).

Definition arm (interval now : N) (t : timer) : timer :=
  match tm_due t with
  | None => mkTimer (tm_key t) (tm_born t) (Some (now + interval))
  | Some _ => t
  end.

Definition is_due (now : N) (t : timer) : bool :=
  match tm_due t with Some d => d <=? now | None => false end.

Definition fire (q : list (N * N)) (t : timer) : N * option N := (tm_key t, find_q (tm_key t) q).

Definition put_local_q (c : cfg) (ts : tstore) (k dist q now : N) : tstore * bool :=
  let '(s1, ok) := put_local_provider c (ts_store ts) k dist now in
  if ok
  then (mkT s1 (set_q k q (ts_quorum ts)) (ts_timers ts ++ [mkTimer k now None]), true)
  else (mkT s1 (ts_quorum ts) (ts_timers ts), false).

Definition QUORUM_ONE : N := 1.

Definition tstep (c : cfg) (interval : N) (ts : tstore) (o : top) (now : N) : tstore * tout :=
  match o with
  | TOp (OPutLocal k dist) =>
      let '(ts', b) := put_local_q c ts k dist QUORUM_ONE now in (ts', TOut (RBool b))
  | TOp (ORemoveLocal k dist) =>
      let '(s', r) := step c (ts_store ts) (ORemoveLocal k dist) now in
      (mkT s' (del_q k (ts_quorum ts)) (ts_timers ts), TOut r)
  | TOp o =>
      let '(s', r) := step c (ts_store ts) o now in
      (mkT s' (ts_quorum ts) (ts_timers ts), TOut r)
  | TPutLocal k dist q =>
      let '(ts', b) := put_local_q c ts k dist q now in (ts', TOut (RBool b))
  | TPoll =>
      let armed := map (arm interval now) (ts_timers ts) in
      (mkT (ts_store ts) (ts_quorum ts) (filter (fun t => negb (is_due now t)) armed),
       TFired (map (fire (ts_quorum ts)) (filter (is_due now) armed)))
  | TExpRec exp => (ts, TFlag (rec_expired (mkRec 0 0 0 exp) now))
  | TExpProv exp => (ts, TFlag (prov_expired (mkProv 0 0 0 exp) now))
  end.

(* the Model.v operation an operation of this file performs on the maps, if any *)
Definition erase (o : top) : option op :=
  match o with
  | TOp o => Some o
  | TPutLocal k dist _ => Some (OPutLocal k dist)
  | _ => None
  end.

Fixpoint trun (c : cfg) (interval : N) (ts : tstore) (h : list (top * N)) : tstore * list tout :=
  match h with
  | [] => (ts, [])
  | (o, now) :: t =>
      let '(ts1, r) := tstep c interval ts o now in
      let '(ts2, rs) := trun c interval ts1 t in (ts2, r :: rs)
  end.

Definition tfinal (c : cfg) (interval : N) (h : list (top * N)) : tstore :=
  fst (trun c interval empty_tstore h).

(* the history of Model.v operations a timed history performs *)
Fixpoint erase_h (h : list (top * N)) : list (op * N) :=
  match h with
  | [] => []
  | (o, now) :: t =>
      match erase o with Some o' => (o', now) :: erase_h t | None => erase_h t end
  end.

(* clock readings never go back (std::time::Instant is monotonic) *)
Fixpoint mono (last : N) (h : list (top * N)) : Prop :=
  match h with
  | [] => True
  | (_, now) :: t => last <= now /\ mono now t
  end.
