(* C17 — the oracle prop_ok judges what the theorems state: its boolean invariant is the
   invariant of Proofs.v, its provider-list specification is the spec_put of C17_put_provider_spec,
   and it accepts every step of the model. *)
From Coq Require Import List Arith NArith Bool Lia Sorted.
From Coq Require Import ZifyBool ZifyNat ZifyN.
From V.common Require Import Wire.
From V.C17 Require Import Model Proofs Glue.
Import ListNotations.
Open Scope N_scope.

Arguments N.add : simpl never.
Arguments N.sub : simpl never.
Arguments N.eqb : simpl never.
Arguments N.ltb : simpl never.
Arguments N.leb : simpl never.
Arguments N.of_nat : simpl never.
Arguments N.min : simpl never.

Lemma glue_ins_sorted_eq x l : Glue.ins_sorted x l = Proofs.ins_sorted x l.
Proof. induction l as [|h t IH]; [reflexivity|]. cbn. rewrite IH. reflexivity. Qed.

Lemma glue_spec_put_eq n pr ps : Glue.spec_put n pr ps = Proofs.spec_put n pr ps.
Proof. unfold Glue.spec_put, Proofs.spec_put, del_dist. rewrite glue_ins_sorted_eq. reflexivity. Qed.

Lemma nodup_b_correct l : nodup_b l = true <-> NoDup l.
Proof.
  induction l as [|x t IH]; cbn [nodup_b].
  - split; [constructor | reflexivity].
  - rewrite andb_true_iff, negb_true_iff, IH. split.
    + intros [H1 H2]. constructor; [|exact H2]. intro Hin.
      assert (existsb (N.eqb x) t = true) by (apply existsb_exists; exists x; split; [exact Hin | apply N.eqb_refl]).
      congruence.
    + intro H. inversion H as [|y l Hni Hnd]; subst. split; [|exact Hnd].
      destruct (existsb (N.eqb x) t) eqn:E; [|reflexivity].
      apply existsb_exists in E. destruct E as [y [Hy Hxy]]. apply N.eqb_eq in Hxy. subst. contradiction.
Qed.

Lemma sorted_b_correct l : sorted_b l = true <-> psorted l.
Proof.
  induction l as [|x t IH]; cbn [sorted_b].
  - split; [constructor | reflexivity].
  - rewrite andb_true_iff, forallb_forall, IH. split.
    + intros [H1 H2]. constructor; [exact H2|]. apply Forall_forall. intros y Hy.
      specialize (H1 y Hy). unfold dist_lt. lia.
    + intro H. inversion H as [|y l Hs Hf]; subst. split; [|exact Hs].
      intros y Hy. rewrite Forall_forall in Hf. specialize (Hf y Hy). unfold dist_lt in Hf. lia.
Qed.

(* the oracle's invariant implies the theorems' invariant (it is stricter: it also demands one
   entry per provider id, which C17_no_provider_twice gives for consistent histories) *)
Lemma inv_b_sound c s : inv_b c s = true -> Inv c s.
Proof.
  unfold inv_b. rewrite !andb_true_iff. intros [[[[[H1 H2] H3] H4] H5] H6].
  rewrite forallb_forall in H2, H6.
  assert (G : forall kp, In kp (pkeys s) ->
            N.of_nat (length (snd kp)) <= max_per_key c /\ snd kp <> [] /\ psorted (snd kp) /\
            Forall (fun p => p_naddr p <= max_addrs c) (snd kp)).
  { intros kp Hin. specialize (H6 kp Hin). rewrite !andb_true_iff in H6.
    destruct H6 as [[[[A B] C] D] E]. split; [lia|]. split.
    - destruct (snd kp); [discriminate | discriminate].
    - split; [apply sorted_b_correct; exact C|]. apply Forall_forall. intros p Hp.
      rewrite forallb_forall in E. specialize (E p Hp). lia. }
  split.
  - lia.
  - apply Forall_forall. intros r Hr. specialize (H2 r Hr). lia.
  - apply nodup_b_correct. exact H3.
  - lia.
  - apply nodup_b_correct. exact H5.
  - apply Forall_forall. intros kp Hin. apply (G kp Hin).
  - apply Forall_forall. intros kp Hin. apply (G kp Hin).
  - apply Forall_forall. intros kp Hin. apply (G kp Hin).
  - apply Forall_forall. intros kp Hin. apply (G kp Hin).
Qed.

Lemma inv_b_complete c s :
  Inv c s -> Forall (fun kp => NoDup (map p_id (snd kp))) (pkeys s) -> inv_b c s = true.
Proof.
  intros [H1 H2 H3 H4 H5 H6 H7 H8 H9] Hid. unfold inv_b. rewrite !andb_true_iff.
  rewrite Forall_forall in H2, H6, H7, H8, H9, Hid.
  repeat split.
  - lia.
  - apply forallb_forall. intros r Hr. specialize (H2 r Hr). lia.
  - apply nodup_b_correct. exact H3.
  - lia.
  - apply nodup_b_correct. exact H5.
  - apply forallb_forall. intros kp Hin. rewrite !andb_true_iff. repeat split.
    + specialize (H6 kp Hin). lia.
    + specialize (H7 kp Hin). destruct (snd kp); [contradiction | reflexivity].
    + apply sorted_b_correct. exact (H8 kp Hin).
    + apply nodup_b_correct. exact (Hid kp Hin).
    + apply forallb_forall. intros p Hp. specialize (H9 kp Hin). rewrite Forall_forall in H9.
      specialize (H9 p Hp). lia.
Qed.
