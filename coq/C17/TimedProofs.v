(* C17 — proofs about Timed.v: the timed store performs exactly Model.v's operations on the maps
   (so every theorem of Proofs.v transfers), `local_providers` and its quorum map stay in sync,
   and the refresh futures fire only for provided keys, with the stored quorum, and never earlier
   than `interval` after the successful put_local_provider that created them. *)
From Coq Require Import List Arith NArith Bool Lia Sorted.
From Coq Require Import ZifyBool ZifyNat ZifyN.
From V.C17 Require Import Model Proofs Timed.
Import ListNotations.
Open Scope N_scope.
Arguments N.add : simpl never.
Arguments N.sub : simpl never.
Arguments N.eqb : simpl never.
Arguments N.ltb : simpl never.
Arguments N.leb : simpl never.
Arguments N.of_nat : simpl never.
Arguments N.min : simpl never.

(* ---- the maps: a timed step is a Model.v step ---- *)

Lemma put_local_q_store c ts k dist q now :
  ts_store (fst (put_local_q c ts k dist q now)) = fst (put_local_provider c (ts_store ts) k dist now) /\
  snd (put_local_q c ts k dist q now) = snd (put_local_provider c (ts_store ts) k dist now).
Proof.
  unfold put_local_q. destruct (put_local_provider c (ts_store ts) k dist now) as [s1 ok].
  destruct ok; cbn; auto.
Qed.

Lemma step_put_local c s k dist now :
  step c s (OPutLocal k dist) now =
  (fst (put_local_provider c s k dist now), RBool (snd (put_local_provider c s k dist now))).
Proof. cbn [step]. destruct (put_local_provider c s k dist now); reflexivity. Qed.

Lemma tstep_store c i ts o now :
  ts_store (fst (tstep c i ts o now)) =
  match erase o with
  | Some o' => fst (step c (ts_store ts) o' now)
  | None => ts_store ts
  end.
Proof.
  destruct o as [o | k dist q | | e | e]; cbn [erase].
  - destruct o as [k | r | k | k pid dist naddr | k dist | k dist].
    + cbn [tstep]. destruct (step c (ts_store ts) (OGet k) now); reflexivity.
    + cbn [tstep]. destruct (step c (ts_store ts) (OPut r) now); reflexivity.
    + cbn [tstep]. destruct (step c (ts_store ts) (OGetProviders k) now); reflexivity.
    + cbn [tstep]. destruct (step c (ts_store ts) (OPutProvider k pid dist naddr) now); reflexivity.
    + cbn [tstep]. rewrite step_put_local. cbn [fst].
      pose proof (put_local_q_store c ts k dist QUORUM_ONE now) as [H _].
      destruct (put_local_q c ts k dist QUORUM_ONE now). exact H.
    + cbn [tstep]. destruct (step c (ts_store ts) (ORemoveLocal k dist) now); reflexivity.
  - cbn [tstep]. rewrite step_put_local. cbn [fst].
    pose proof (put_local_q_store c ts k dist q now) as [H _].
    destruct (put_local_q c ts k dist q now). exact H.
  - reflexivity.
  - reflexivity.
  - reflexivity.
Qed.

Lemma trun_store c i h : forall ts,
  ts_store (fst (trun c i ts h)) = fst (run c (ts_store ts) (erase_h h)).
Proof.
  induction h as [|[o now] h IH]; intro ts; [reflexivity|].
  cbn [trun erase_h].
  pose proof (tstep_store c i ts o now) as Hs.
  destruct (tstep c i ts o now) as [ts1 r] eqn:E. cbn [fst] in Hs.
  specialize (IH ts1). destruct (trun c i ts1 h) as [ts2 rs] eqn:E2. cbn [fst] in *.
  destruct (erase o) as [o'|].
  - cbn [run]. destruct (step c (ts_store ts) o' now) as [s1 r'] eqn:E3. cbn [fst] in Hs. subst s1.
    destruct (run c (ts_store ts1) (erase_h h)) as [s2 rs'] eqn:E4. cbn [fst] in *. exact IH.
  - rewrite <- Hs. exact IH.
Qed.

Lemma tstep_inv c i ts o now :
  1 <= max_per_key c -> Inv c (ts_store ts) -> Inv c (ts_store (fst (tstep c i ts o now))).
Proof.
  intros Hc HI. rewrite tstep_store. destruct (erase o); [apply step_inv; assumption | exact HI].
Qed.

Lemma tfinal_inv c i h : 1 <= max_per_key c -> Inv c (ts_store (tfinal c i h)).
Proof.
  intro Hc. unfold tfinal. rewrite trun_store. apply (run_inv c Hc). apply inv_empty; exact Hc.
Qed.

(* ---- local_providers: the quorum map has exactly the keys of `locals` ---- *)

Definition QSync (ts : tstore) : Prop :=
  forall k, (exists q, find_q k (ts_quorum ts) = Some q) <-> In k (locals (ts_store ts)).

Lemma find_q_del_same k l : find_q k (del_q k l) = None.
Proof.
  induction l as [|[k' q] l IH]; [reflexivity|]. unfold del_q in *. cbn [filter fst].
  destruct (k' =? k) eqn:E; cbn [negb]; [exact IH|]. cbn [find_q]. rewrite E. exact IH.
Qed.

Lemma find_q_del_other k k' l : k' <> k -> find_q k' (del_q k l) = find_q k' l.
Proof.
  intro Hne. induction l as [|[k0 q] l IH]; [reflexivity|]. unfold del_q in *. cbn [filter fst].
  destruct (k0 =? k) eqn:E; cbn [negb].
  - cbn [find_q]. destruct (k0 =? k') eqn:E2; [lia | exact IH].
  - cbn [find_q]. rewrite IH. reflexivity.
Qed.

Lemma find_q_set k q l k' :
  find_q k' (set_q k q l) = if k =? k' then Some q else find_q k' l.
Proof.
  unfold set_q. cbn [find_q]. destruct (k =? k') eqn:E; [reflexivity|].
  apply find_q_del_other. lia.
Qed.

Lemma existsb_eqb_in k l : existsb (N.eqb k) l = true <-> In k l.
Proof.
  rewrite existsb_exists. split.
  - intros [x [Hin Hx]]. apply N.eqb_eq in Hx. subst. exact Hin.
  - intro Hin. exists k. split; [exact Hin | apply N.eqb_refl].
Qed.

Lemma in_add_local k x l : In x (add_local k l) <-> x = k \/ In x l.
Proof.
  unfold add_local. destruct (existsb (N.eqb k) l) eqn:E.
  - apply existsb_eqb_in in E. split; [auto | intros [->|H]; assumption].
  - rewrite in_app_iff. cbn [In]. split; [intros [H|[H|[]]]; auto | intros [H|H]; auto].
Qed.

Lemma put_provider_locals c s k pid dist naddr now :
  locals (fst (put_provider c s k pid dist naddr now)) = locals s.
Proof.
  unfold put_provider. destruct (find_pk k (pkeys s)).
  - destruct (put_list _ _ _); reflexivity.
  - destruct (_ <? _); reflexivity.
Qed.

Lemma put_local_locals c s k dist now x :
  In x (locals (fst (put_local_provider c s k dist now))) <->
  (snd (put_local_provider c s k dist now) = true /\ x = k) \/ In x (locals s).
Proof.
  unfold put_local_provider.
  pose proof (put_provider_locals c s k LOCAL_ID dist 0 now) as Hl.
  destruct (put_provider c s k LOCAL_ID dist 0 now) as [s1 ok]. cbn [fst] in Hl.
  destruct ok; cbn [fst snd locals].
  - rewrite in_add_local, Hl. split; [intros [H|H]; auto | intros [[_ H]|H]; auto].
  - rewrite Hl. split; [auto | intros [[H _]|H]; [discriminate | exact H]].
Qed.

Lemma step_locals_same c s o now :
  match o with OPutLocal _ _ | ORemoveLocal _ _ => False | _ => True end ->
  locals (fst (step c s o now)) = locals s.
Proof.
  destruct o as [k | r | k | k pid dist naddr | k dist | k dist]; intro H; try contradiction; cbn [step].
  - unfold get. destruct (find_rec k (recs s)) as [r|]; [destruct (rec_expired r now)|]; reflexivity.
  - unfold put. destruct (max_size c <=? r_len r); [reflexivity|].
    destruct (find_rec (r_key r) (recs s)) as [old|].
    + destruct (r_exp old), (r_exp r); try reflexivity. destruct (_ <? _); reflexivity.
    + destruct (_ <=? _); reflexivity.
  - unfold get_providers. destruct (find_pk k (pkeys s)) as [ps|]; [|reflexivity].
    destruct (filter _ ps); reflexivity.
  - pose proof (put_provider_locals c s k pid dist naddr now) as Hl.
    destruct (put_provider c s k pid dist naddr now). exact Hl.
Qed.

Lemma remove_local_locals s k dist x :
  In x (locals (fst (remove_local_provider s k dist))) <-> In x (locals s) /\ x <> k.
Proof.
  unfold remove_local_provider.
  destruct (negb (existsb (N.eqb k) (locals s))) eqn:E.
  - cbn [fst]. apply negb_true_iff in E.
    split; [|tauto]. intro H. split; [exact H|]. intro; subst.
    apply existsb_eqb_in in H. congruence.
  - assert (Hf : forall y, In y (filter (fun x0 => negb (k =? x0)) (locals s)) <-> In y (locals s) /\ y <> k).
    { intro y. rewrite filter_In. split; intros [H1 H2]; split; auto; [intro; subst; rewrite N.eqb_refl in H2; discriminate|].
      destruct (k =? y) eqn:E2; [apply N.eqb_eq in E2; congruence | reflexivity]. }
    destruct (find_pk k (pkeys s)) as [ps|]; [|cbn [fst locals]; apply Hf].
    destruct (search dist ps); [|cbn [fst locals]; apply Hf].
    destruct (remove_nth i ps); cbn [fst locals]; apply Hf.
Qed.

Lemma put_local_q_sync c ts k dist q now :
  QSync ts -> QSync (fst (put_local_q c ts k dist q now)).
Proof.
  intros HS k'. unfold put_local_q.
  pose proof (put_local_locals c (ts_store ts) k dist now k') as Hl.
  destruct (put_local_provider c (ts_store ts) k dist now) as [s1 ok]. cbn [fst snd] in Hl.
  destruct ok; cbn [fst ts_quorum ts_store]; rewrite Hl.
  - rewrite find_q_set. destruct (k =? k') eqn:E.
    + split; [intros _; left; split; [reflexivity | lia] | intros _; eauto].
    + rewrite (HS k'). split; [auto | intros [[_ H]|H]; [lia | exact H]].
  - rewrite (HS k'). split; [auto | intros [[H _]|H]; [discriminate | exact H]].
Qed.

Lemma tstep_sync c i ts o now : QSync ts -> QSync (fst (tstep c i ts o now)).
Proof.
  intro HS.
  assert (Hsame : forall o', match o' with OPutLocal _ _ | ORemoveLocal _ _ => False | _ => True end ->
            QSync (mkT (fst (step c (ts_store ts) o' now)) (ts_quorum ts) (ts_timers ts))).
  { intros o' Ho k. cbn [ts_quorum ts_store]. rewrite (step_locals_same c (ts_store ts) o' now Ho). apply HS. }
  destruct o as [o | k dist q | | e | e].
  - destruct o as [k | r | k | k pid dist naddr | k dist | k dist].
    + cbn [tstep]. specialize (Hsame (OGet k) I). destruct (step c (ts_store ts) (OGet k) now). exact Hsame.
    + cbn [tstep]. specialize (Hsame (OPut r) I). destruct (step c (ts_store ts) (OPut r) now). exact Hsame.
    + cbn [tstep]. specialize (Hsame (OGetProviders k) I). destruct (step c (ts_store ts) (OGetProviders k) now). exact Hsame.
    + cbn [tstep]. specialize (Hsame (OPutProvider k pid dist naddr) I).
      destruct (step c (ts_store ts) (OPutProvider k pid dist naddr) now). exact Hsame.
    + cbn [tstep]. pose proof (put_local_q_sync c ts k dist QUORUM_ONE now HS) as H.
      destruct (put_local_q c ts k dist QUORUM_ONE now). exact H.
    + cbn [tstep step].
      pose proof (fun x => remove_local_locals (ts_store ts) k dist x) as Hl.
      destruct (remove_local_provider (ts_store ts) k dist) as [s' b]. cbn [fst] in *.
      intro k'. cbn [ts_quorum ts_store]. rewrite Hl.
      destruct (N.eq_dec k' k) as [->|Hne].
      * rewrite find_q_del_same. split; [intros [q Hq]; discriminate | intros [_ H]; congruence].
      * rewrite find_q_del_other by exact Hne. rewrite (HS k'). tauto.
  - cbn [tstep]. pose proof (put_local_q_sync c ts k dist q now HS) as H.
    destruct (put_local_q c ts k dist q now). exact H.
  - exact HS.
  - exact HS.
  - exact HS.
Qed.

Lemma sync_empty : QSync empty_tstore.
Proof. intro k. cbn. split; [intros [q H]; discriminate | tauto]. Qed.

Lemma trun_sync c i h : forall ts, QSync ts -> QSync (fst (trun c i ts h)).
Proof.
  induction h as [|[o now] h IH]; intros ts HS; [exact HS|].
  cbn [trun]. pose proof (tstep_sync c i ts o now HS) as H1.
  destruct (tstep c i ts o now) as [ts1 r]. cbn [fst] in H1.
  specialize (IH ts1 H1). destruct (trun c i ts1 h). exact IH.
Qed.

(* ---- what a poll yields ---- *)

(* A RefreshProvider action names a key that is provided right now, with the stored quorum; a
   completed future whose key is not provided any more yields nothing. *)
Lemma poll_fired_sound c i ts now ts' l :
  QSync ts -> tstep c i ts TPoll now = (ts', TFired l) ->
  forall k r, In (k, r) l ->
    match r with
    | Some q => In k (locals (ts_store ts)) /\ find_q k (ts_quorum ts) = Some q
    | None => ~ In k (locals (ts_store ts))
    end.
Proof.
  intros HS E k r Hin. cbn [tstep] in E. inversion E; subst; clear E.
  apply in_map_iff in Hin. destruct Hin as [t [Ht _]]. unfold fire in Ht. inversion Ht; subst; clear Ht.
  destruct (find_q (tm_key t) (ts_quorum ts)) as [q|] eqn:Eq.
  - split; [apply HS; eauto | reflexivity].
  - intro Hl. apply HS in Hl. destruct Hl as [q Hq]. congruence.
Qed.

(* polling touches neither the maps nor local_providers *)
Lemma poll_pure c i ts now :
  ts_store (fst (tstep c i ts TPoll now)) = ts_store ts /\
  ts_quorum (fst (tstep c i ts TPoll now)) = ts_quorum ts.
Proof. split; reflexivity. Qed.

(* after a poll every remaining future is armed and not yet due *)
Lemma poll_rest_armed c i ts now :
  Forall (fun t => exists d, tm_due t = Some d /\ now < d) (ts_timers (fst (tstep c i ts TPoll now))).
Proof.
  cbn [tstep fst ts_timers]. apply Forall_forall. intros t Hin.
  apply filter_In in Hin. destruct Hin as [Hin Hd]. apply in_map_iff in Hin.
  destruct Hin as [t0 [Ht0 _]]. subst t. unfold is_due, arm in *.
  destruct (tm_due t0) as [d|] eqn:E.
  - rewrite E in *. exists d. split; [reflexivity|]. destruct (d <=? now) eqn:E2; [discriminate | lia].
  - cbn [tm_due] in *. exists (now + i). split; [reflexivity|].
    destruct (now + i <=? now) eqn:E2; [discriminate | lia].
Qed.

(* ---- timing: ghost invariant over monotone histories ---- *)

(* every future was created not after `last`, and an armed one is due no earlier than
   `interval` after its creation *)
Definition TmInv (i last : N) (ts : tstore) : Prop :=
  Forall (fun t => tm_born t <= last /\
                   match tm_due t with Some d => tm_born t + i <= d | None => True end) (ts_timers ts).

Lemma tminv_mono i a b ts : a <= b -> TmInv i a ts -> TmInv i b ts.
Proof.
  intros Hab H. unfold TmInv in *. eapply Forall_impl; [|exact H].
  intros t [H1 H2]. split; [lia | exact H2].
Qed.

Lemma put_local_q_timers c ts k dist q now :
  ts_timers (fst (put_local_q c ts k dist q now)) =
  if snd (put_local_q c ts k dist q now) then ts_timers ts ++ [mkTimer k now None] else ts_timers ts.
Proof.
  unfold put_local_q. destruct (put_local_provider c (ts_store ts) k dist now) as [s1 ok].
  destruct ok; reflexivity.
Qed.

Lemma tstep_tminv c i ts o now last :
  last <= now -> TmInv i last ts -> TmInv i now (fst (tstep c i ts o now)).
Proof.
  intros Hle HT. apply (tminv_mono i last now ts Hle) in HT.
  assert (Hpl : forall k dist q, TmInv i now (fst (put_local_q c ts k dist q now))).
  { intros k dist q. unfold TmInv. rewrite put_local_q_timers.
    destruct (snd (put_local_q c ts k dist q now)); [|exact HT].
    apply Forall_app. split; [exact HT|]. constructor; [|constructor]. cbn. split; [lia | exact I]. }
  destruct o as [o | k dist q | | e | e].
  - destruct o as [k | r | k | k pid dist naddr | k dist | k dist]; cbn [tstep].
    + destruct (step c (ts_store ts) (OGet k) now). exact HT.
    + destruct (step c (ts_store ts) (OPut r) now). exact HT.
    + destruct (step c (ts_store ts) (OGetProviders k) now). exact HT.
    + destruct (step c (ts_store ts) (OPutProvider k pid dist naddr) now). exact HT.
    + specialize (Hpl k dist QUORUM_ONE). destruct (put_local_q c ts k dist QUORUM_ONE now). exact Hpl.
    + destruct (step c (ts_store ts) (ORemoveLocal k dist) now). exact HT.
  - cbn [tstep]. specialize (Hpl k dist q). destruct (put_local_q c ts k dist q now). exact Hpl.
  - cbn [tstep fst]. unfold TmInv. cbn [ts_timers].
    apply Forall_forall. intros t Hin. apply filter_In in Hin. destruct Hin as [Hin _].
    apply in_map_iff in Hin. destruct Hin as [t0 [<- Hin0]].
    unfold TmInv in HT. rewrite Forall_forall in HT. specialize (HT t0 Hin0). destruct HT as [H1 H2].
    unfold arm. destruct (tm_due t0) as [d|] eqn:E.
    + rewrite E. split; [exact H1 | exact H2].
    + cbn [tm_born tm_due]. split; [exact H1 | lia].
  - exact HT.
  - exact HT.
Qed.

(* the futures that complete in a poll *)
Definition fired_timers (i : N) (ts : tstore) (now : N) : list timer :=
  filter (is_due now) (map (arm i now) (ts_timers ts)).

Lemma poll_fired_keys c i ts now :
  snd (tstep c i ts TPoll now) = TFired (map (fire (ts_quorum ts)) (fired_timers i ts now)).
Proof. reflexivity. Qed.

(* no refresh earlier than `interval` after the put_local_provider that scheduled it *)
Lemma fired_not_early i ts now last :
  last <= now -> TmInv i last ts ->
  Forall (fun t => tm_born t + i <= now) (fired_timers i ts now).
Proof.
  intros Hle HT. apply Forall_forall. intros t Hin. unfold fired_timers in Hin.
  apply filter_In in Hin. destruct Hin as [Hin Hd]. apply in_map_iff in Hin.
  destruct Hin as [t0 [<- Hin0]]. unfold TmInv in HT. rewrite Forall_forall in HT.
  specialize (HT t0 Hin0). destruct HT as [H1 H2]. unfold is_due, arm in *.
  destruct (tm_due t0) as [d|] eqn:E.
  - rewrite E in Hd. destruct (d <=? now) eqn:E2; [lia | discriminate].
  - cbn [tm_due tm_born] in *. destruct (now + i <=? now) eqn:E2; [lia | discriminate].
Qed.

(* a future exists only because a put_local_provider of its key succeeded at its birth time:
   the futures of the next state are those of the previous one (possibly armed, possibly fewer)
   plus the one the step created *)
Lemma tstep_timers_origin c i ts o now t :
  In t (ts_timers (fst (tstep c i ts o now))) ->
  (exists t0, In t0 (ts_timers ts) /\ tm_key t0 = tm_key t /\ tm_born t0 = tm_born t) \/
  (tm_born t = now /\ tm_due t = None /\
   exists dist, erase o = Some (OPutLocal (tm_key t) dist) /\
                snd (step c (ts_store ts) (OPutLocal (tm_key t) dist) now) = RBool true).
Proof.
  assert (Hpl : forall k dist q,
    In t (ts_timers (fst (put_local_q c ts k dist q now))) ->
    (exists t0, In t0 (ts_timers ts) /\ tm_key t0 = tm_key t /\ tm_born t0 = tm_born t) \/
    (tm_born t = now /\ tm_due t = None /\ tm_key t = k /\
     snd (step c (ts_store ts) (OPutLocal k dist) now) = RBool true)).
  { intros k dist q Hin. rewrite put_local_q_timers in Hin.
    pose proof (put_local_q_store c ts k dist q now) as [_ Hb].
    destruct (snd (put_local_q c ts k dist q now)) eqn:E.
    - apply in_app_iff in Hin. destruct Hin as [Hin|[<-|[]]]; [left; eauto|].
      right. split; [reflexivity|]. split; [reflexivity|]. split; [reflexivity|].
      rewrite step_put_local. cbn [snd]. rewrite <- Hb. reflexivity.
    - left; eauto. }
  intro Hin.
  destruct o as [o | k dist q | | e | e].
  - destruct o as [k | r | k | k pid dist naddr | k dist | k dist]; cbn [tstep] in Hin.
    + destruct (step c (ts_store ts) (OGet k) now). left; eauto.
    + destruct (step c (ts_store ts) (OPut r) now). left; eauto.
    + destruct (step c (ts_store ts) (OGetProviders k) now). left; eauto.
    + destruct (step c (ts_store ts) (OPutProvider k pid dist naddr) now). left; eauto.
    + specialize (Hpl k dist QUORUM_ONE). destruct (put_local_q c ts k dist QUORUM_ONE now).
      destruct (Hpl Hin) as [H|[H1 [H2 [H3 H4]]]]; [left; exact H|]. right. subst k. cbn [erase]. eauto.
    + destruct (step c (ts_store ts) (ORemoveLocal k dist) now). left; eauto.
  - cbn [tstep] in Hin. specialize (Hpl k dist q). destruct (put_local_q c ts k dist q now).
    destruct (Hpl Hin) as [H|[H1 [H2 [H3 H4]]]]; [left; exact H|]. right. subst k. cbn [erase]. eauto.
  - cbn [tstep fst ts_timers] in Hin. apply filter_In in Hin. destruct Hin as [Hin _].
    apply in_map_iff in Hin. destruct Hin as [t0 [<- Hin0]]. left. exists t0.
    unfold arm. destruct (tm_due t0); auto.
  - left; eauto.
  - left; eauto.
Qed.

(* ---- the number of pending refresh futures ---- *)
Lemma tstep_timers_count c i ts o now :
  length (ts_timers (fst (tstep c i ts o now))) =
  match o with
  | TPoll => (length (ts_timers ts) - length (fired_timers i ts now))%nat
  | _ =>
      match erase o with
      | Some (OPutLocal k dist) =>
          if snd (put_local_provider c (ts_store ts) k dist now)
          then S (length (ts_timers ts)) else length (ts_timers ts)
      | _ => length (ts_timers ts)
      end
  end.
Proof.
  assert (Hpl : forall k dist q,
    length (ts_timers (fst (put_local_q c ts k dist q now))) =
    if snd (put_local_provider c (ts_store ts) k dist now)
    then S (length (ts_timers ts)) else length (ts_timers ts)).
  { intros k dist q. rewrite put_local_q_timers.
    pose proof (put_local_q_store c ts k dist q now) as [_ Hb]. rewrite <- Hb.
    destruct (snd (put_local_q c ts k dist q now)); [rewrite app_length; cbn; lia | reflexivity]. }
  destruct o as [o | k dist q | | e | e].
  - destruct o as [k | r | k | k pid dist naddr | k dist | k dist]; cbn [tstep erase].
    + destruct (step c (ts_store ts) (OGet k) now); reflexivity.
    + destruct (step c (ts_store ts) (OPut r) now); reflexivity.
    + destruct (step c (ts_store ts) (OGetProviders k) now); reflexivity.
    + destruct (step c (ts_store ts) (OPutProvider k pid dist naddr) now); reflexivity.
    + specialize (Hpl k dist QUORUM_ONE). destruct (put_local_q c ts k dist QUORUM_ONE now). exact Hpl.
    + destruct (step c (ts_store ts) (ORemoveLocal k dist) now); reflexivity.
  - cbn [tstep erase]. specialize (Hpl k dist q). destruct (put_local_q c ts k dist q now). exact Hpl.
  - cbn [tstep fst ts_timers]. unfold fired_timers.
    set (l := map (arm i now) (ts_timers ts)).
    assert (Hl : length l = length (ts_timers ts)) by apply map_length. rewrite <- Hl.
    clear Hl. induction l as [|x l IH]; [reflexivity|]. cbn [filter].
    destruct (is_due now x); cbn [negb length].
    + rewrite IH. pose proof (filter_length_le (is_due now) l). lia.
    + rewrite IH. pose proof (filter_length_le (is_due now) l). lia.
  - reflexivity.
  - reflexivity.
Qed.

(* ---- expiry at the exact boundary ---- *)
Lemma rec_expired_iff r now :
  rec_expired r now = true <-> exists t, r_exp r = Some t /\ t <= now.
Proof.
  unfold rec_expired. destruct (r_exp r) as [t|].
  - split; [intro H; exists t; split; [reflexivity | lia] | intros [t' [H1 H2]]; inversion H1; subst; lia].
  - split; [discriminate | intros [t [H _]]; discriminate].
Qed.

Lemma prov_expired_iff p now : prov_expired p now = true <-> p_exp p <= now.
Proof. unfold prov_expired. lia. Qed.

(* complete characterisation of what the reads return *)
Lemma get_complete s k now r :
  snd (get s k now) = Some r <->
  find_rec k (recs s) = Some r /\ (forall t, r_exp r = Some t -> now < t).
Proof.
  unfold get. destruct (find_rec k (recs s)) as [r0|] eqn:E.
  - destruct (rec_expired r0 now) eqn:Ee; cbn [snd].
    + split; [discriminate|]. intros [H1 H2]. inversion H1; subst.
      apply rec_expired_iff in Ee. destruct Ee as [t [Ht Hle]]. specialize (H2 t Ht). lia.
    + split.
      * intro H. inversion H; subst. split; [reflexivity|]. intros t Ht.
        unfold rec_expired in Ee. rewrite Ht in Ee. lia.
      * intros [H _]. exact H.
  - cbn [snd]. split; [discriminate | intros [H _]; discriminate].
Qed.

Lemma get_providers_complete s k now p :
  In p (snd (get_providers s k now)) <->
  exists ps, find_pk k (pkeys s) = Some ps /\ In p ps /\ now < p_exp p.
Proof.
  unfold get_providers. destruct (find_pk k (pkeys s)) as [ps|] eqn:E.
  - assert (Hf : In p (filter (fun p0 => negb (prov_expired p0 now)) ps) <-> In p ps /\ now < p_exp p).
    { rewrite filter_In. unfold prov_expired. split; intros [H1 H2]; split; auto; lia. }
    destruct (filter (fun p0 => negb (prov_expired p0 now)) ps) as [|x l] eqn:Ef; cbn [snd].
    + split; [intros []|]. intros [ps' [H1 [H2 H3]]]. inversion H1; subst. apply Hf. auto.
    + rewrite Hf. split; [intros [H1 H2]; eauto | intros [ps' [H1 H2]]; inversion H1; subst; exact H2].
  - cbn [snd]. split; [intros [] | intros [ps [H _]]; discriminate].
Qed.

(* a provider record lives for exactly `ttl`: announced at t0 it is stored with expiry t0 + ttl *)
Lemma put_provider_expiry c s k pid dist naddr now ps' p :
  find_pk k (pkeys (fst (put_provider c s k pid dist naddr now))) = Some ps' ->
  In p ps' -> p_dist p = dist ->
  snd (put_provider c s k pid dist naddr now) = true ->
  Inv c s -> 1 <= max_per_key c ->
  p = mkProv pid dist (N.min naddr (max_addrs c)) (now + ttl c).
Proof.
  intros Hf Hin Hd Hok HI Hc.
  destruct (find_pk k (pkeys s)) as [ps|] eqn:E.
  - pose proof (put_provider_spec c s k pid dist naddr now ps HI Hc E) as Hsp. cbn zeta in Hsp.
    destruct (put_provider c s k pid dist naddr now) as [s' ok]. cbn [fst snd] in *.
    destruct Hsp as [H1 _]. rewrite H1 in Hf. inversion Hf; subst ps'. clear Hf.
    unfold spec_put in Hin. apply firstn_In in Hin. apply in_ins_sorted in Hin.
    destruct Hin as [->|Hin]; [reflexivity|].
    pose proof (del_dist_ne dist ps) as Hne. rewrite Forall_forall in Hne.
    cbn [p_dist] in Hin. specialize (Hne p Hin). congruence.
  - unfold put_provider in *. rewrite E in *.
    destruct (N.of_nat (length (pkeys s)) <? max_keys c); cbn [fst snd] in *; [|discriminate].
    cbn [pkeys] in Hf.
    assert (Hfa : find_pk k (pkeys s ++ [(k, [mkProv pid dist (N.min naddr (max_addrs c)) (now + ttl c)])]) =
                  Some [mkProv pid dist (N.min naddr (max_addrs c)) (now + ttl c)]).
    { clear -E. induction (pkeys s) as [|[k' ps0] l IH]; cbn [app find_pk].
      - rewrite N.eqb_refl. reflexivity.
      - cbn [find_pk] in E. destruct (k' =? k); [discriminate | apply IH; exact E]. }
    rewrite Hfa in Hf. inversion Hf; subst ps'. destruct Hin as [<-|[]]. reflexivity.
Qed.

(* ---- freshness along whole histories ---- *)
Definition out_fresh (now : N) (o : tout) : Prop :=
  match o with
  | TOut (RRec (Some r)) => rec_expired r now = false
  | TOut (RProvs l) => Forall (fun p => prov_expired p now = false) l
  | _ => True
  end.

Lemma tstep_out_fresh c i ts o now : out_fresh now (snd (tstep c i ts o now)).
Proof.
  assert (Hg : forall k, out_fresh now (TOut (snd (step c (ts_store ts) (OGet k) now)))).
  { intro k. cbn [step]. pose proof (get_fresh (ts_store ts) k now) as H.
    destruct (get (ts_store ts) k now) as [s' r]. cbn [snd] in *. destruct r as [r|]; [|exact I].
    cbn. destruct (H r eq_refl) as [_ [H2 _]]. exact H2. }
  assert (Hp : forall k, out_fresh now (TOut (snd (step c (ts_store ts) (OGetProviders k) now)))).
  { intro k. cbn [step]. pose proof (get_providers_fresh (ts_store ts) k now) as H.
    destruct (get_providers (ts_store ts) k now) as [s' l]. exact H. }
  destruct o as [o | k dist q | | e | e].
  - destruct o as [k | r | k | k pid dist naddr | k dist | k dist]; cbn [tstep].
    + specialize (Hg k). destruct (step c (ts_store ts) (OGet k) now). exact Hg.
    + destruct (step c (ts_store ts) (OPut r) now) as [s' r'] eqn:E. cbn [step] in E. inversion E. exact I.
    + specialize (Hp k). destruct (step c (ts_store ts) (OGetProviders k) now). exact Hp.
    + cbn [step]. destruct (put_provider c (ts_store ts) k pid dist naddr now). exact I.
    + destruct (put_local_q c ts k dist QUORUM_ONE now). exact I.
    + cbn [step]. destruct (remove_local_provider (ts_store ts) k dist). exact I.
  - cbn [tstep]. destruct (put_local_q c ts k dist q now). exact I.
  - exact I.
  - exact I.
  - exact I.
Qed.

Lemma trun_out_fresh c i h : forall ts n o now x,
  nth_error h n = Some (o, now) -> nth_error (snd (trun c i ts h)) n = Some x -> out_fresh now x.
Proof.
  induction h as [|[o0 now0] h IH]; intros ts n o now x Hn Hx; [destruct n; discriminate|].
  cbn [trun] in Hx. pose proof (tstep_out_fresh c i ts o0 now0) as Hf.
  destruct (tstep c i ts o0 now0) as [ts1 r]. cbn [snd] in Hf.
  specialize (IH ts1). destruct (trun c i ts1 h) as [ts2 rs]. cbn [snd] in *.
  destruct n as [|n]; cbn [nth_error] in *.
  - inversion Hn; inversion Hx; subst. exact Hf.
  - eapply IH; eassumption.
Qed.

(* ---- history level: every refresh is justified by an earlier successful put_local_provider of
   the same key, at least `interval` before ---- *)
Lemma tstep_out_erase c i ts o now o' :
  erase o = Some o' -> snd (tstep c i ts o now) = TOut (snd (step c (ts_store ts) o' now)).
Proof.
  destruct o as [o | k dist q | | e | e]; cbn [erase]; intro H; inversion H; subst; clear H.
  - destruct o' as [k | r | k | k pid dist naddr | k dist | k dist]; cbn [tstep].
    + destruct (step c (ts_store ts) (OGet k) now); reflexivity.
    + destruct (step c (ts_store ts) (OPut r) now); reflexivity.
    + destruct (step c (ts_store ts) (OGetProviders k) now); reflexivity.
    + destruct (step c (ts_store ts) (OPutProvider k pid dist naddr) now); reflexivity.
    + rewrite step_put_local. cbn [snd].
      pose proof (put_local_q_store c ts k dist QUORUM_ONE now) as [_ Hb].
      destruct (put_local_q c ts k dist QUORUM_ONE now). cbn [snd] in *. rewrite Hb. reflexivity.
    + destruct (step c (ts_store ts) (ORemoveLocal k dist) now); reflexivity.
  - cbn [tstep]. rewrite step_put_local. cbn [snd].
    pose proof (put_local_q_store c ts k dist q now) as [_ Hb].
    destruct (put_local_q c ts k dist q now). cbn [snd] in *. rewrite Hb. reflexivity.
Qed.

Lemma fired_justified c i : forall h ts last (P : N -> N -> Prop),
  mono last h -> TmInv i last ts ->
  Forall (fun t => P (tm_key t) (tm_born t)) (ts_timers ts) ->
  forall n now l, nth_error h n = Some (TPoll, now) ->
  nth_error (snd (trun c i ts h)) n = Some (TFired l) ->
  forall k r, In (k, r) l ->
  exists b, b + i <= now /\
    (P k b \/
     exists m o dist, (m < n)%nat /\ nth_error h m = Some (o, b) /\
       erase o = Some (OPutLocal k dist) /\
       nth_error (snd (trun c i ts h)) m = Some (TOut (RBool true))).
Proof.
  induction h as [|[o0 now0] h IH]; intros ts last P Hm HT HP n now l Hn Hx k r Hin;
    [destruct n; discriminate|].
  cbn [mono] in Hm. destruct Hm as [Hle Hm].
  cbn [trun] in *.
  pose proof (tstep_tminv c i ts o0 now0 last Hle HT) as HT1.
  pose proof (fun t => tstep_timers_origin c i ts o0 now0 t) as Hor.
  pose proof (tstep_out_erase c i ts o0 now0) as Hoe.
  pose proof (poll_fired_keys c i ts now0) as Hpk.
  destruct (tstep c i ts o0 now0) as [ts1 r0] eqn:E. cbn [fst snd] in *.
  specialize (IH ts1 now0).
  destruct (trun c i ts1 h) as [ts2 rs] eqn:E2. cbn [snd] in *.
  destruct n as [|n]; cbn [nth_error] in *.
  - inversion Hn; subst o0 now0. clear Hn. inversion Hx; subst r0. clear Hx.
    rewrite E in Hpk. cbn [snd] in Hpk. inversion Hpk as [Hl]. rewrite Hl in Hin.
    apply in_map_iff in Hin. destruct Hin as [t [Ht Hin]]. unfold fire in Ht. inversion Ht; subst k r. clear Ht.
    pose proof (fired_not_early i ts now last Hle HT) as Hne. rewrite Forall_forall in Hne.
    specialize (Hne t Hin). exists (tm_born t). split; [exact Hne|]. left.
    unfold fired_timers in Hin. apply filter_In in Hin. destruct Hin as [Hin _].
    apply in_map_iff in Hin. destruct Hin as [t0 [<- Hin0]].
    rewrite Forall_forall in HP. specialize (HP t0 Hin0).
    unfold arm. destruct (tm_due t0); exact HP.
  - set (P' := fun k b => P k b \/ (b = now0 /\ exists dist, erase o0 = Some (OPutLocal k dist) /\ r0 = TOut (RBool true))).
    assert (HP' : Forall (fun t => P' (tm_key t) (tm_born t)) (ts_timers ts1)).
    { apply Forall_forall. intros t Hin'. destruct (Hor t Hin') as [[t0 [H0 [Hk Hb]]]|[Hb [_ [dist [He Hs]]]]].
      - left. rewrite Forall_forall in HP. specialize (HP t0 H0). rewrite <- Hk, <- Hb. exact HP.
      - right. split; [exact Hb|]. exists dist. split; [exact He|]. rewrite (Hoe _ He). rewrite Hs. reflexivity. }
    destruct (IH P' Hm HT1 HP' n now l Hn Hx k r Hin) as [b [Hb [HPb|[m [o [dist [Hlt [Hnm [He Hxm]]]]]]]]].
    + destruct HPb as [HPb|[-> [dist [He Hr]]]].
      * exists b. split; [exact Hb|]. left. exact HPb.
      * exists now0. split; [exact Hb|]. right. exists O, o0, dist.
        split; [lia|]. split; [reflexivity|]. split; [exact He|]. cbn [nth_error]. rewrite Hr. reflexivity.
    + exists b. split; [exact Hb|]. right. exists (S m), o, dist.
      split; [lia|]. split; [exact Hnm|]. split; [exact He|]. exact Hxm.
Qed.

Theorem refresh_after_interval c i h n now l k r :
  mono 0 h ->
  nth_error h n = Some (TPoll, now) ->
  nth_error (snd (trun c i empty_tstore h)) n = Some (TFired l) ->
  In (k, r) l ->
  exists m o dist b, (m < n)%nat /\ nth_error h m = Some (o, b) /\
    erase o = Some (OPutLocal k dist) /\
    nth_error (snd (trun c i empty_tstore h)) m = Some (TOut (RBool true)) /\
    b + i <= now.
Proof.
  intros Hm Hn Hx Hin.
  destruct (fired_justified c i h empty_tstore 0 (fun _ _ => False) Hm) with (n := n) (now := now) (l := l) (k := k) (r := r)
    as [b [Hb [[]|[m [o [dist [H1 [H2 [H3 H4]]]]]]]]]; try assumption.
  - constructor.
  - constructor.
  - exists m, o, dist, b. auto.
Qed.

(* the same, for what a fired future announces: provided key, stored quorum *)
Lemma trun_poll_sound c i h : forall ts, QSync ts ->
  forall n now l, nth_error h n = Some (TPoll, now) ->
  nth_error (snd (trun c i ts h)) n = Some (TFired l) ->
  forall k q, In (k, Some q) l ->
  exists tsn, In k (locals (ts_store tsn)) /\ find_q k (ts_quorum tsn) = Some q /\
              tsn = fst (trun c i ts (firstn n h)).
Proof.
  induction h as [|[o0 now0] h IH]; intros ts HS n now l Hn Hx k q Hin; [destruct n; discriminate|].
  cbn [trun] in Hx.
  pose proof (tstep_sync c i ts o0 now0 HS) as HS1.
  destruct (tstep c i ts o0 now0) as [ts1 r0] eqn:E. cbn [fst] in HS1.
  destruct n as [|n].
  - cbn [nth_error firstn trun fst] in *. inversion Hn; subst o0 now0.
    destruct (trun c i ts1 h) as [ts2 rs]. cbn [snd nth_error] in Hx. inversion Hx; subst r0.
    pose proof (poll_fired_sound c i ts now ts1 l HS E k (Some q) Hin) as [H1 H2].
    exists ts. auto.
  - cbn [firstn trun]. rewrite E.
    specialize (IH ts1 HS1 n now l). cbn [nth_error] in Hn.
    destruct (trun c i ts1 h) as [ts2 rs] eqn:E2. cbn [snd nth_error] in Hx.
    destruct (IH Hn Hx k q Hin) as [tsn [H1 [H2 H3]]].
    exists tsn. split; [exact H1|]. split; [exact H2|].
    destruct (trun c i ts1 (firstn n h)) as [a b]. exact H3.
Qed.

(* the pending refresh futures are not bounded by any configured limit: n successful
   put_local_provider calls for one and the same key leave n futures behind *)
Lemma search_set_nth d pr : p_dist pr = d -> forall ps j,
  search d ps = Found j -> search d (set_nth j pr ps) = Found j.
Proof.
  intro Hd. induction ps as [|p ps IH]; intros j Hj; cbn [search] in *; [discriminate|].
  destruct (p_dist p =? d) eqn:E1.
  - inversion Hj; subst. cbn [set_nth search]. rewrite N.eqb_refl. reflexivity.
  - destruct (d <? p_dist p) eqn:E2; [discriminate|].
    destruct (search d ps) as [j'|j'] eqn:E3; [|discriminate]. inversion Hj; subst.
    cbn [set_nth search]. rewrite E1, E2. rewrite (IH j' eq_refl). reflexivity.
Qed.

Definition has_local (k dist : N) (s : store) : Prop :=
  exists ps j, find_pk k (pkeys s) = Some ps /\ search dist ps = Found j.

Lemma put_local_again c s k dist now :
  has_local k dist s ->
  snd (put_local_provider c s k dist now) = true /\
  has_local k dist (fst (put_local_provider c s k dist now)).
Proof.
  intros [ps [j [Hf Hj]]]. unfold put_local_provider, put_provider. rewrite Hf.
  unfold put_list. cbn [p_dist]. rewrite Hj. cbn [fst snd]. split; [reflexivity|].
  eexists. exists j. cbn [pkeys]. split.
  - rewrite find_replace_pk. rewrite N.eqb_refl. rewrite Hf. reflexivity.
  - apply search_set_nth; [reflexivity | exact Hj].
Qed.

Lemma put_local_first c s k dist now :
  pkeys s = [] -> 1 <= max_keys c ->
  snd (put_local_provider c s k dist now) = true /\
  has_local k dist (fst (put_local_provider c s k dist now)).
Proof.
  intros He Hk. unfold put_local_provider, put_provider. rewrite He. cbn [find_pk length].
  assert (E : N.ltb (N.of_nat O) (max_keys c) = true) by lia. rewrite E. cbn [fst snd]. split; [reflexivity|].
  eexists. exists O. cbn [pkeys app find_pk]. rewrite N.eqb_refl. split; [reflexivity|].
  cbn [search p_dist]. rewrite N.eqb_refl. reflexivity.
Qed.

Lemma timers_unbounded c i k dist q :
  1 <= max_keys c ->
  forall n, length (ts_timers (tfinal c i (repeat (TPutLocal k dist q, 0) n))) = n.
Proof.
  intros Hk n.
  assert (G : forall n ts,
    has_local k dist (ts_store ts) \/ pkeys (ts_store ts) = [] ->
    length (ts_timers (fst (trun c i ts (repeat (TPutLocal k dist q, 0) n)))) =
    (length (ts_timers ts) + n)%nat).
  { clear n. induction n as [|n IH]; intros ts Hst; cbn [repeat trun]; [cbn [fst]; lia|].
    pose proof (tstep_timers_count c i ts (TPutLocal k dist q) 0) as Hc.
    pose proof (tstep_store c i ts (TPutLocal k dist q) 0) as Hs.
    cbn [erase] in Hc, Hs. rewrite step_put_local in Hs. cbn [fst] in Hs.
    assert (Hok : snd (put_local_provider c (ts_store ts) k dist 0) = true /\
                  has_local k dist (fst (put_local_provider c (ts_store ts) k dist 0))).
    { destruct Hst as [H|H]; [apply put_local_again; exact H | apply put_local_first; assumption]. }
    destruct Hok as [Hok Hgood]. rewrite Hok in Hc.
    destruct (tstep c i ts (TPutLocal k dist q) 0) as [ts1 r]. cbn [fst] in *.
    specialize (IH ts1). rewrite Hs in IH. specialize (IH (or_introl Hgood)).
    destruct (trun c i ts1 (repeat (TPutLocal k dist q, 0) n)) as [ts2 rs]. cbn [fst] in *.
    rewrite IH. lia. }
  unfold tfinal. rewrite (G n empty_tstore); [reflexivity | right; reflexivity].
Qed.

Lemma tfinal_sync c i h : QSync (tfinal c i h).
Proof. unfold tfinal. apply trun_sync. exact sync_empty. Qed.

Lemma refresh_only_provided c i h n now l k q :
  nth_error h n = Some (TPoll, now) ->
  nth_error (snd (trun c i empty_tstore h)) n = Some (TFired l) ->
  In (k, Some q) l ->
  exists tsn, In k (locals (ts_store tsn)) /\ find_q k (ts_quorum tsn) = Some q /\
              tsn = fst (trun c i empty_tstore (firstn n h)).
Proof.
  intros H1 H2 H3. exact (trun_poll_sound c i h empty_tstore sync_empty n now l H1 H2 k q H3).
Qed.

(* observation (outside the property text): `local_providers` is not bounded by max_provider_keys —
   a key whose provider record expired and was pruned stays registered as provided *)
Lemma local_registrations_outlive_provider_keys :
  exists c i h,
    1 <= max_per_key c /\ max_keys c = 1 /\ mono 0 h /\
    length (pkeys (ts_store (tfinal c i h))) = 1%nat /\
    length (locals (ts_store (tfinal c i h))) = 2%nat /\
    length (ts_quorum (tfinal c i h)) = 2%nat.
Proof.
  exists (mkCfg 2 10 1 1 2 1), 50,
         [(TPutLocal 0 1 1, 0); (TPoll, 0); (TOp (OGetProviders 0), 5); (TPutLocal 1 1 1, 5)].
  vm_compute. repeat split; try reflexivity; discriminate.
Qed.
