(* C17 — lemmas about the MemoryStore model. *)
From Coq Require Import List Arith NArith Bool Lia Sorted Permutation.
From Coq Require Import ZifyBool ZifyNat ZifyN.
From V.gen Require Consts.
From V.C17 Require Import Model.
Import ListNotations.
Open Scope N_scope.

Arguments N.add : simpl never.
Arguments N.sub : simpl never.
Arguments N.eqb : simpl never.
Arguments N.ltb : simpl never.
Arguments N.leb : simpl never.
Arguments N.of_nat : simpl never.
Arguments N.min : simpl never.

Definition dist_lt (a b : prov) : Prop := p_dist a < p_dist b.
Definition psorted (l : list prov) : Prop := StronglySorted dist_lt l.

Definition rec_keys (l : list record) : list N := map r_key l.
Definition pk_keys (l : list (N * list prov)) : list N := map fst l.

(* The store invariant: everything C17 states about sizes and order. *)
Record Inv (c : cfg) (s : store) : Prop := {
  inv_nrecs : N.of_nat (length (recs s)) <= max_records c;
  inv_rsize : Forall (fun r => r_len r < max_size c) (recs s);
  inv_rnodup : NoDup (rec_keys (recs s));
  inv_nkeys : N.of_nat (length (pkeys s)) <= max_keys c;
  inv_knodup : NoDup (pk_keys (pkeys s));
  inv_perkey : Forall (fun kp => N.of_nat (length (snd kp)) <= max_per_key c) (pkeys s);
  inv_nonempty : Forall (fun kp => snd kp <> []) (pkeys s);
  inv_sorted : Forall (fun kp => psorted (snd kp)) (pkeys s);
  inv_addrs : Forall (fun kp => Forall (fun p => p_naddr p <= max_addrs c) (snd kp)) (pkeys s)
}.

(* ---------- records ---------- *)

Lemma find_rec_key k l r : find_rec k l = Some r -> r_key r = k.
Proof.
  induction l as [|h t IH]; cbn [find_rec]; [discriminate|].
  destruct (r_key h =? k) eqn:E; [intros [= <-]; lia | exact IH].
Qed.

Lemma find_rec_in k l r : find_rec k l = Some r -> In r l.
Proof.
  induction l as [|h t IH]; cbn [find_rec]; [discriminate|].
  destruct (r_key h =? k); [intros [= <-]; now left | right; auto].
Qed.

Lemma find_rec_none k l : find_rec k l = None -> ~ In k (rec_keys l).
Proof.
  induction l as [|h t IH]; cbn [find_rec rec_keys map]; [intros _ []|].
  destruct (r_key h =? k) eqn:E; [discriminate|].
  intros H [Hk|Hk]; [lia | exact (IH H Hk)].
Qed.

Lemma remove_rec_keys_incl k l x : In x (rec_keys (remove_rec k l)) -> In x (rec_keys l) /\ x <> k.
Proof.
  induction l as [|h t IH]; cbn [remove_rec rec_keys map]; [intros []|].
  destruct (r_key h =? k) eqn:E.
  - intros H; destruct (IH H); split; [right|]; assumption.
  - cbn [rec_keys map In]. intros [H|H]; [split; [now left | lia]|].
    destruct (IH H); split; [right|]; assumption.
Qed.

Lemma remove_rec_nodup k l : NoDup (rec_keys l) -> NoDup (rec_keys (remove_rec k l)).
Proof.
  induction l as [|h t IH]; cbn [remove_rec rec_keys map]; [auto|].
  intros H; inversion H as [|? ? Hn Hd]; subst.
  destruct (r_key h =? k); [auto|].
  cbn [rec_keys map]. constructor; [|auto].
  intros Hin. apply remove_rec_keys_incl in Hin. now destruct Hin.
Qed.

Lemma remove_rec_length k l : (length (remove_rec k l) <= length l)%nat.
Proof.
  induction l as [|h t IH]; cbn [remove_rec length]; [lia|].
  destruct (r_key h =? k); cbn [length]; lia.
Qed.

Lemma remove_rec_forall (P : record -> Prop) k l : Forall P l -> Forall P (remove_rec k l).
Proof.
  induction 1 as [|h t Hh Ht IH]; cbn [remove_rec]; [constructor|].
  destruct (r_key h =? k); [assumption | constructor; assumption].
Qed.

Lemma find_remove_rec k k' l :
  find_rec k' (remove_rec k l) = if k' =? k then None else find_rec k' l.
Proof.
  induction l as [|h t IH]; cbn [remove_rec find_rec].
  - now destruct (k' =? k).
  - destruct (r_key h =? k) eqn:E.
    + rewrite IH. destruct (k' =? k) eqn:E2; [reflexivity|].
      destruct (r_key h =? k') eqn:E3; [lia | reflexivity].
    + cbn [find_rec]. destruct (r_key h =? k') eqn:E3.
      * destruct (k' =? k) eqn:E2; [lia | reflexivity].
      * exact IH.
Qed.

Lemma replace_rec_length r l : length (replace_rec r l) = length l.
Proof.
  induction l as [|h t IH]; cbn [replace_rec length]; [reflexivity|].
  destruct (r_key h =? r_key r); cbn [length]; [reflexivity | now rewrite IH].
Qed.

Lemma replace_rec_keys r l : rec_keys (replace_rec r l) = rec_keys l.
Proof.
  induction l as [|h t IH]; cbn [replace_rec rec_keys map]; [reflexivity|].
  destruct (r_key h =? r_key r) eqn:E; cbn [rec_keys map].
  - f_equal. lia.
  - f_equal. exact IH.
Qed.

Lemma replace_rec_forall (P : record -> Prop) r l : P r -> Forall P l -> Forall P (replace_rec r l).
Proof.
  intros Hr; induction 1 as [|h t Hh Ht IH]; cbn [replace_rec]; [constructor|].
  destruct (r_key h =? r_key r); constructor; assumption.
Qed.

Lemma find_replace_rec r l k :
  find_rec k (replace_rec r l) =
  if (k =? r_key r) then (match find_rec k l with Some _ => Some r | None => None end)
  else find_rec k l.
Proof.
  induction l as [|h t IH]; cbn [replace_rec find_rec].
  - now destruct (k =? r_key r).
  - destruct (r_key h =? r_key r) eqn:E; cbn [find_rec].
    + destruct (k =? r_key r) eqn:E2.
      * assert (r_key r =? k = true) as -> by lia. assert (r_key h =? k = true) as -> by lia. reflexivity.
      * assert (r_key r =? k = false) as -> by lia. assert (r_key h =? k = false) as -> by lia. reflexivity.
    + destruct (r_key h =? k) eqn:E3.
      * assert (k =? r_key r = false) as -> by lia. reflexivity.
      * exact IH.
Qed.

(* ---------- provider keys ---------- *)

Lemma find_pk_in k l ps : find_pk k l = Some ps -> In (k, ps) l.
Proof.
  induction l as [|[k' ps'] t IH]; cbn [find_pk]; [discriminate|].
  destruct (k' =? k) eqn:E; [intros [= <-]; left; f_equal; lia | right; auto].
Qed.

Lemma find_pk_none k l : find_pk k l = None -> ~ In k (pk_keys l).
Proof.
  induction l as [|[k' ps'] t IH]; cbn [find_pk pk_keys map fst]; [intros _ []|].
  destruct (k' =? k) eqn:E; [discriminate|].
  intros H [Hk|Hk]; [lia | exact (IH H Hk)].
Qed.

Lemma remove_pk_keys_incl k l x : In x (pk_keys (remove_pk k l)) -> In x (pk_keys l) /\ x <> k.
Proof.
  induction l as [|[k' ps'] t IH]; cbn [remove_pk pk_keys map fst]; [intros []|].
  destruct (k' =? k) eqn:E.
  - intros H; destruct (IH H); split; [right|]; assumption.
  - cbn [pk_keys map fst In]. intros [H|H]; [split; [now left | lia]|].
    destruct (IH H); split; [right|]; assumption.
Qed.

Lemma remove_pk_nodup k l : NoDup (pk_keys l) -> NoDup (pk_keys (remove_pk k l)).
Proof.
  induction l as [|[k' ps'] t IH]; cbn [remove_pk pk_keys map fst]; [auto|].
  intros H; inversion H as [|? ? Hn Hd]; subst.
  destruct (k' =? k); [auto|].
  cbn [pk_keys map fst]. constructor; [|auto].
  intros Hin. apply remove_pk_keys_incl in Hin. now destruct Hin.
Qed.

Lemma remove_pk_length k l : (length (remove_pk k l) <= length l)%nat.
Proof.
  induction l as [|[k' ps'] t IH]; cbn [remove_pk length]; [lia|].
  destruct (k' =? k); cbn [length]; lia.
Qed.

Lemma remove_pk_forall (P : N * list prov -> Prop) k l : Forall P l -> Forall P (remove_pk k l).
Proof.
  induction 1 as [|[k' ps'] t Hh Ht IH]; cbn [remove_pk]; [constructor|].
  destruct (k' =? k); [assumption | constructor; assumption].
Qed.

Lemma find_remove_pk k k' l :
  find_pk k' (remove_pk k l) = if k' =? k then None else find_pk k' l.
Proof.
  induction l as [|[k0 ps0] t IH]; cbn [remove_pk find_pk].
  - now destruct (k' =? k).
  - destruct (k0 =? k) eqn:E.
    + rewrite IH. destruct (k' =? k) eqn:E2; [reflexivity|].
      destruct (k0 =? k') eqn:E3; [lia | reflexivity].
    + cbn [find_pk]. destruct (k0 =? k') eqn:E3.
      * destruct (k' =? k) eqn:E2; [lia | reflexivity].
      * exact IH.
Qed.

Lemma replace_pk_length k ps l : length (replace_pk k ps l) = length l.
Proof.
  induction l as [|[k' ps'] t IH]; cbn [replace_pk length]; [reflexivity|].
  destruct (k' =? k); cbn [length]; [reflexivity | now rewrite IH].
Qed.

Lemma replace_pk_keys k ps l : pk_keys (replace_pk k ps l) = pk_keys l.
Proof.
  induction l as [|[k' ps'] t IH]; cbn [replace_pk pk_keys map fst]; [reflexivity|].
  destruct (k' =? k) eqn:E; cbn [pk_keys map fst]; f_equal; exact IH.
Qed.

Lemma replace_pk_forall (P : N * list prov -> Prop) k ps l :
  (forall k', P (k', ps)) -> Forall P l -> Forall P (replace_pk k ps l).
Proof.
  intros Hr; induction 1 as [|[k' ps'] t Hh Ht IH]; cbn [replace_pk]; [constructor|].
  destruct (k' =? k); constructor; auto.
Qed.

Lemma find_replace_pk k ps l k' :
  find_pk k' (replace_pk k ps l) =
  if (k' =? k) then (match find_pk k' l with Some _ => Some ps | None => None end)
  else find_pk k' l.
Proof.
  induction l as [|[k0 ps0] t IH]; cbn [replace_pk find_pk].
  - now destruct (k' =? k).
  - destruct (k0 =? k) eqn:E; cbn [find_pk].
    + destruct (k' =? k) eqn:E2.
      * assert (k0 =? k' = true) as -> by lia. reflexivity.
      * assert (k0 =? k' = false) as -> by lia. reflexivity.
    + destruct (k0 =? k') eqn:E3.
      * assert (k' =? k = false) as -> by lia. reflexivity.
      * exact IH.
Qed.

(* ---------- sorted provider lists ---------- *)

(* Specification of put_list on sorted lists: delete any record at the same distance, insert
   in order, keep the `max` closest. *)
Fixpoint ins_sorted (x : prov) (l : list prov) : list prov :=
  match l with
  | [] => [x]
  | h :: t => if p_dist x <? p_dist h then x :: l else h :: ins_sorted x t
  end.

Definition del_dist (d : N) (l : list prov) : list prov :=
  filter (fun p => negb (p_dist p =? d)) l.

Definition spec_put (maxpk : nat) (pr : prov) (ps : list prov) : list prov :=
  firstn maxpk (ins_sorted pr (del_dist (p_dist pr) ps)).

Lemma psorted_cons_inv h t : psorted (h :: t) -> psorted t /\ Forall (dist_lt h) t.
Proof. intros H; inversion H; subst; split; assumption. Qed.

Lemma del_dist_id d l : Forall (fun p => p_dist p <> d) l -> del_dist d l = l.
Proof.
  induction 1 as [|h t Hh Ht IH]; cbn [del_dist filter]; [reflexivity|].
  assert (p_dist h =? d = false) as -> by lia. cbn [negb]. f_equal. exact IH.
Qed.

Lemma forall_lt_ne x t d : Forall (dist_lt x) t -> d <= p_dist x -> Forall (fun p => p_dist p <> d) t.
Proof.
  intros H Hd; eapply Forall_impl; [|exact H]. unfold dist_lt; cbn beta. intros; lia.
Qed.

(* search on a sorted list, characterised *)
Lemma search_found d l i :
  psorted l -> search d l = Found i ->
  exists a x b, l = a ++ x :: b /\ length a = i /\ p_dist x = d /\
                Forall (fun p => p_dist p < d) a /\ Forall (fun p => d < p_dist p) b.
Proof.
  revert i; induction l as [|h t IH]; cbn [search]; intros i Hs; [discriminate|].
  destruct (psorted_cons_inv _ _ Hs) as [Hst Hall].
  destruct (p_dist h =? d) eqn:E1.
  - intros [= <-]. exists [], h, t. repeat split; [lia | constructor |].
    eapply Forall_impl; [|exact Hall]. unfold dist_lt; cbn beta; intros; lia.
  - destruct (d <? p_dist h) eqn:E2; [discriminate|].
    destruct (search d t) as [j|j] eqn:Es; [|discriminate].
    intros [= <-]. destruct (IH j Hst eq_refl) as (a & x & b & -> & Hl & Hx & Ha & Hb).
    exists (h :: a), x, b. repeat split; cbn [length app]; [congruence | assumption | | assumption].
    constructor; [lia | assumption].
Qed.

Lemma search_insert d l i :
  psorted l -> search d l = Insert i ->
  exists a b, l = a ++ b /\ length a = i /\
              Forall (fun p => p_dist p < d) a /\ Forall (fun p => d < p_dist p) b.
Proof.
  revert i; induction l as [|h t IH]; cbn [search]; intros i Hs.
  - intros [= <-]. exists [], []. repeat split; constructor.
  - destruct (psorted_cons_inv _ _ Hs) as [Hst Hall].
    destruct (p_dist h =? d) eqn:E1; [discriminate|].
    destruct (d <? p_dist h) eqn:E2.
    + intros [= <-]. exists [], (h :: t). repeat split; [constructor|].
      constructor; [lia|]. eapply Forall_impl; [|exact Hall]. unfold dist_lt; cbn beta; intros; lia.
    + destruct (search d t) as [j|j] eqn:Es; [discriminate|].
      intros [= <-]. destruct (IH j Hst eq_refl) as (a & b & -> & Hl & Ha & Hb).
      exists (h :: a), b. repeat split; cbn [length app]; [congruence | | assumption].
      constructor; [lia | assumption].
Qed.

Lemma set_nth_app a x b y : set_nth (length a) y (a ++ x :: b) = a ++ y :: b.
Proof. induction a as [|h t IH]; cbn [length app set_nth]; [reflexivity | now rewrite IH]. Qed.

Lemma insert_at_app a b y : insert_at (length a) y (a ++ b) = a ++ y :: b.
Proof. induction a as [|h t IH]; cbn [length app insert_at]; [reflexivity | now rewrite IH]. Qed.

Lemma remove_nth_app a x b : remove_nth (length a) (a ++ x :: b) = a ++ b.
Proof. induction a as [|h t IH]; cbn [length app remove_nth]; [reflexivity | now rewrite IH]. Qed.

Lemma ins_sorted_app a b y :
  Forall (fun p => p_dist p < p_dist y) a -> Forall (fun p => p_dist y < p_dist p) b ->
  ins_sorted y (a ++ b) = a ++ y :: b.
Proof.
  induction 1 as [|h t Hh Ht IH]; intros Hb; cbn [app ins_sorted].
  - destruct b as [|h t]; cbn [ins_sorted]; [reflexivity|].
    inversion Hb; subst. assert (p_dist y <? p_dist h = true) as -> by lia. reflexivity.
  - assert (p_dist y <? p_dist h = false) as -> by lia. f_equal. auto.
Qed.

Lemma del_dist_app d a b : del_dist d (a ++ b) = del_dist d a ++ del_dist d b.
Proof. unfold del_dist. apply filter_app. Qed.

Lemma del_dist_lt d a : Forall (fun p => p_dist p < d) a -> del_dist d a = a.
Proof. intros H; apply del_dist_id. eapply Forall_impl; [|exact H]. cbn beta; intros; lia. Qed.

Lemma del_dist_gt d a : Forall (fun p => d < p_dist p) a -> del_dist d a = a.
Proof. intros H; apply del_dist_id. eapply Forall_impl; [|exact H]. cbn beta; intros; lia. Qed.

Lemma psorted_app_mid a y b :
  psorted (a ++ b) -> Forall (fun p => p_dist p < p_dist y) a -> Forall (fun p => p_dist y < p_dist p) b ->
  psorted (a ++ y :: b).
Proof.
  induction a as [|h t IH]; cbn [app]; intros Hs Ha Hb.
  - constructor; [assumption|]. eapply Forall_impl; [|exact Hb]. now unfold dist_lt.
  - destruct (psorted_cons_inv _ _ Hs) as [Hst Hall]. inversion Ha as [|? ? Hh Ht]; subst.
    constructor; [apply IH; assumption|].
    apply Forall_app in Hall. destruct Hall as [G1 G2].
    apply Forall_app; split; [assumption|]. constructor; [unfold dist_lt; lia | assumption].
Qed.

Lemma psorted_app_drop a x b : psorted (a ++ x :: b) -> psorted (a ++ b).
Proof.
  induction a as [|h t IH]; cbn [app]; intros Hs.
  - now destruct (psorted_cons_inv _ _ Hs).
  - destruct (psorted_cons_inv _ _ Hs) as [Hst Hall]. constructor; [apply IH; assumption|].
    apply Forall_app in Hall. destruct Hall as [G1 G2]. inversion G2; subst.
    apply Forall_app; split; assumption.
Qed.

Lemma firstn_In {A} n (l : list A) x : In x (firstn n l) -> In x l.
Proof.
  revert l; induction n as [|n IH]; intros [|h t]; cbn [firstn In]; try tauto.
  intros [H|H]; [now left | right; auto].
Qed.

Lemma Forall_firstn {A} (P : A -> Prop) n l : Forall P l -> Forall P (firstn n l).
Proof.
  intros H. apply Forall_forall. intros y Hy. apply firstn_In in Hy.
  rewrite Forall_forall in H. auto.
Qed.

Lemma psorted_firstn n l : psorted l -> psorted (firstn n l).
Proof.
  revert l; induction n as [|n IH]; intros l Hs; cbn [firstn]; [constructor|].
  destruct l as [|h t]; [constructor|].
  destruct (psorted_cons_inv _ _ Hs) as [Hst Hall]. constructor; [apply IH; assumption|].
  now apply Forall_firstn.
Qed.

Lemma psorted_removelast l : psorted l -> psorted (removelast l).
Proof.
  intros H. destruct l as [|h t] using rev_ind; [exact H|].
  rewrite removelast_last. clear IHt. replace t with (t ++ []) by apply app_nil_r.
  eapply psorted_app_drop. exact H.
Qed.

Lemma removelast_firstn_len1 (l : list prov) : removelast l = firstn (length l - 1) l.
Proof.
  destruct l as [|h t] using rev_ind; [reflexivity|].
  rewrite removelast_last, app_length. cbn [length].
  replace (length t + 1 - 1)%nat with (length t) by lia.
  now rewrite firstn_app, firstn_all, Nat.sub_diag, app_nil_r.
Qed.

(* The refinement theorem for the per-key list. *)
Lemma put_list_spec maxpk pr ps :
  psorted ps -> (1 <= maxpk)%nat -> (length ps <= maxpk)%nat ->
  match put_list (N.of_nat maxpk) pr ps with
  | Some ps' => ps' = spec_put maxpk pr ps /\ In pr ps'
  | None => spec_put maxpk pr ps = ps /\ ~ In pr (spec_put maxpk pr ps) /\ length ps = maxpk
  end.
Proof.
  intros Hs Hm Hl. unfold put_list, spec_put.
  destruct (search (p_dist pr) ps) as [i|i] eqn:Es.
  - destruct (search_found _ _ _ Hs Es) as (a & x & b & -> & Hi & Hx & Ha & Hb). subst i.
    rewrite set_nth_app. split; [|apply in_or_app; right; now left].
    rewrite del_dist_app. cbn [del_dist filter]. fold (del_dist (p_dist pr) b).
    assert (p_dist x =? p_dist pr = true) as -> by lia. cbn [negb].
    rewrite del_dist_lt, del_dist_gt by assumption.
    rewrite ins_sorted_app by assumption.
    symmetry. apply firstn_all2. rewrite app_length in *. cbn [length] in *. lia.
  - destruct (search_insert _ _ _ Hs Es) as (a & b & -> & Hi & Ha & Hb). subst i.
    rewrite del_dist_app, del_dist_lt, del_dist_gt by assumption.
    rewrite ins_sorted_app by assumption.
    rewrite app_length in Hl.
    destruct (N.of_nat (length a) =? N.of_nat maxpk) eqn:E.
    + assert (length a = maxpk) by lia. assert (length b = 0%nat) by lia.
      destruct b; [|discriminate]. rewrite app_nil_r.
      rewrite firstn_app. replace (maxpk - length a)%nat with 0%nat by lia.
      cbn [firstn]. rewrite app_nil_r, firstn_all2 by lia.
      repeat split; [|lia].
      intros Hin. rewrite Forall_forall in Ha. specialize (Ha _ Hin). lia.
    + assert (length a <> maxpk) by lia.
      destruct (N.of_nat (length (a ++ b)) =? N.of_nat maxpk) eqn:E2.
      * rewrite app_length in E2. assert (length a + length b = maxpk)%nat by lia.
        unfold pop. rewrite removelast_firstn_len1, app_length.
        rewrite firstn_app, firstn_all2 by lia.
        rewrite insert_at_app. split.
        -- rewrite firstn_app. rewrite (firstn_all2 a) by lia.
           f_equal. replace (maxpk - length a)%nat with (S (length b - 1)) by lia.
           cbn [firstn]. f_equal. f_equal. lia.
        -- apply in_or_app; right; now left.
      * rewrite app_length in E2. rewrite insert_at_app. split.
        -- symmetry. apply firstn_all2. rewrite app_length. cbn [length]. lia.
        -- apply in_or_app; right; now left.
Qed.

Lemma ins_sorted_length x l : length (ins_sorted x l) = S (length l).
Proof.
  induction l as [|h t IH]; cbn [ins_sorted length]; [reflexivity|].
  destruct (p_dist x <? p_dist h); cbn [length]; lia.
Qed.

Lemma ins_sorted_sorted x l :
  psorted l -> Forall (fun p => p_dist p <> p_dist x) l -> psorted (ins_sorted x l).
Proof.
  induction l as [|h t IH]; cbn [ins_sorted]; intros Hs Hne.
  - constructor; constructor.
  - destruct (psorted_cons_inv _ _ Hs) as [Hst Hall]. inversion Hne; subst.
    destruct (p_dist x <? p_dist h) eqn:E.
    + constructor; [assumption|]. constructor; [unfold dist_lt; lia|].
      eapply Forall_impl; [|exact Hall]. unfold dist_lt; cbn beta; intros; lia.
    + constructor; [apply IH; assumption|].
      assert (Hin : forall y, In y (ins_sorted x t) -> y = x \/ In y t).
      { clear. induction t as [|h t IH]; cbn [ins_sorted]; intros y.
        - intros [<-|[]]; now left.
        - destruct (p_dist x <? p_dist h).
          + intros [<-|H]; [now left | now right].
          + intros [<-|H]; [right; now left|]. destruct (IH _ H); [now left | right; now right]. }
      apply Forall_forall. intros y Hy. destruct (Hin _ Hy) as [->|Hy'].
      * unfold dist_lt; lia.
      * rewrite Forall_forall in Hall. auto.
Qed.

Lemma del_dist_sorted d l : psorted l -> psorted (del_dist d l).
Proof.
  induction l as [|h t IH]; cbn [del_dist filter]; intros Hs; [constructor|].
  destruct (psorted_cons_inv _ _ Hs) as [Hst Hall].
  destruct (negb (p_dist h =? d)); [|apply IH; assumption].
  constructor; [apply IH; assumption|]. fold (del_dist d t).
  apply Forall_forall. intros y Hy. unfold del_dist in Hy. apply filter_In in Hy.
  rewrite Forall_forall in Hall. apply Hall. tauto.
Qed.

Lemma del_dist_ne d l : Forall (fun p => p_dist p <> d) (del_dist d l).
Proof.
  apply Forall_forall. intros y Hy. unfold del_dist in Hy. apply filter_In in Hy.
  destruct Hy as [_ Hy]. lia.
Qed.

Lemma spec_put_sorted maxpk pr ps : psorted ps -> psorted (spec_put maxpk pr ps).
Proof.
  intros Hs. unfold spec_put. apply psorted_firstn. apply ins_sorted_sorted.
  - now apply del_dist_sorted.
  - apply del_dist_ne.
Qed.

Lemma spec_put_length maxpk pr ps : (length (spec_put maxpk pr ps) <= maxpk)%nat.
Proof. unfold spec_put. rewrite firstn_length. lia. Qed.

Lemma in_ins_sorted y x l : In y (ins_sorted x l) -> y = x \/ In y l.
Proof.
  induction l as [|h t IH]; cbn [ins_sorted].
  - intros [<-|[]]; now left.
  - destruct (p_dist x <? p_dist h).
    + intros [<-|H]; [now left | now right].
    + intros [<-|H]; [right; now left|]. destruct (IH H); [now left | right; now right].
Qed.

Lemma spec_put_in maxpk pr ps y : In y (spec_put maxpk pr ps) -> y = pr \/ In y ps.
Proof.
  unfold spec_put. intros H. apply firstn_In in H. apply in_ins_sorted in H.
  destruct H as [H|H]; [now left|right]. unfold del_dist in H. apply filter_In in H. tauto.
Qed.

(* put_list preserves per-list invariants *)
Lemma put_list_inv maxpk pr ps ps' :
  psorted ps -> (1 <= maxpk)%nat -> (length ps <= maxpk)%nat ->
  put_list (N.of_nat maxpk) pr ps = Some ps' ->
  psorted ps' /\ (length ps' <= maxpk)%nat /\ ps' <> [] /\
  (forall y, In y ps' -> y = pr \/ In y ps).
Proof.
  intros Hs Hm Hl Hp. pose proof (put_list_spec maxpk pr ps Hs Hm Hl) as H.
  rewrite Hp in H. destruct H as [-> Hin]. repeat split.
  - now apply spec_put_sorted.
  - apply spec_put_length.
  - intros E. rewrite E in Hin. destruct Hin.
  - apply spec_put_in.
Qed.

(* ---------- filter (expiry) ---------- *)

Lemma psorted_filter f l : psorted l -> psorted (filter f l).
Proof.
  induction l as [|h t IH]; cbn [filter]; intros Hs; [constructor|].
  destruct (psorted_cons_inv _ _ Hs) as [Hst Hall].
  destruct (f h); [|apply IH; assumption]. constructor; [apply IH; assumption|].
  apply Forall_forall. intros y Hy. apply filter_In in Hy.
  rewrite Forall_forall in Hall. apply Hall. tauto.
Qed.

Lemma filter_length_le {A} (f : A -> bool) l : (length (filter f l) <= length l)%nat.
Proof. induction l as [|h t IH]; cbn [filter length]; [lia|]. destruct (f h); cbn [length]; lia. Qed.

Lemma forall_filter {A} (P : A -> Prop) f l : Forall P l -> Forall P (filter f l).
Proof.
  intros H. apply Forall_forall. intros y Hy. apply filter_In in Hy.
  rewrite Forall_forall in H. apply H. tauto.
Qed.

Lemma remove_nth_forall (P : prov -> Prop) i l : Forall P l -> Forall P (remove_nth i l).
Proof.
  intros H; revert i. induction H as [|x t Hx Ht IHt]; intros [|j]; cbn [remove_nth]; auto.
Qed.

Lemma psorted_remove_nth i l : psorted l -> psorted (remove_nth i l).
Proof.
  revert i; induction l as [|h t IH]; intros i Hs; cbn [remove_nth]; [destruct i; constructor|].
  destruct (psorted_cons_inv _ _ Hs) as [Hst Hall].
  destruct i as [|j]; [assumption|].
  constructor; [apply IH; assumption|]. now apply remove_nth_forall.
Qed.

Lemma remove_nth_length i (l : list prov) : (length (remove_nth i l) <= length l)%nat.
Proof.
  revert i; induction l as [|h t IH]; intros [|j]; cbn [remove_nth length]; try lia.
  specialize (IH j). lia.
Qed.

(* ---------- the invariant is preserved by every operation ---------- *)

Section Preservation.
Variable c : cfg.
Hypothesis Hmax : 1 <= max_per_key c.

Lemma inv_empty : Inv c empty_store.
Proof. split; cbn; try constructor; lia. Qed.

Lemma get_inv s k now : Inv c s -> Inv c (fst (get s k now)).
Proof.
  intros [H1 H2 H3 H4 H5 H6 H7 H8 H9]. unfold get.
  destruct (find_rec k (recs s)) as [r|]; [|split; assumption].
  destruct (rec_expired r now); [|split; assumption].
  split; cbn [fst recs pkeys locals]; try assumption.
  - pose proof (remove_rec_length k (recs s)). lia.
  - now apply remove_rec_forall.
  - now apply remove_rec_nodup.
Qed.

Lemma put_inv s r : Inv c s -> Inv c (put c s r).
Proof.
  intros I. destruct I as [H1 H2 H3 H4 H5 H6 H7 H8 H9]. unfold put.
  destruct (max_size c <=? r_len r) eqn:Esz; [split; assumption|].
  assert (Hrep : Inv c (mkStore (replace_rec r (recs s)) (pkeys s) (locals s))).
  { split; cbn [recs pkeys locals]; try assumption.
    - rewrite replace_rec_length. assumption.
    - apply replace_rec_forall; [lia | assumption].
    - rewrite replace_rec_keys. assumption. }
  destruct (find_rec (r_key r) (recs s)) as [old|] eqn:Ef.
  - destruct (r_exp old), (r_exp r); try exact Hrep.
    destruct (n0 <? n); [split; assumption | exact Hrep].
  - destruct (max_records c <=? N.of_nat (length (recs s))) eqn:Em; [split; assumption|].
    split; cbn [recs pkeys locals]; try assumption.
    + rewrite app_length. cbn [length]. lia.
    + apply Forall_app; split; [assumption|]. constructor; [lia | constructor].
    + unfold rec_keys. rewrite map_app. cbn [map].
      apply find_rec_none in Ef.
      apply Permutation_NoDup with (l := r_key r :: map r_key (recs s)).
      * apply Permutation_cons_append.
      * constructor; assumption.
Qed.

Lemma get_providers_inv s k now : Inv c s -> Inv c (fst (get_providers s k now)).
Proof.
  intros I. pose proof I as [H1 H2 H3 H4 H5 H6 H7 H8 H9]. unfold get_providers.
  destruct (find_pk k (pkeys s)) as [ps|] eqn:Ef; [|exact I].
  apply find_pk_in in Ef.
  pose proof (proj1 (Forall_forall _ _) H6 _ Ef) as L6.
  pose proof (proj1 (Forall_forall _ _) H8 _ Ef) as L8.
  pose proof (proj1 (Forall_forall _ _) H9 _ Ef) as L9. cbn [snd] in *.
  destruct (filter _ ps) as [|p ps'] eqn:Efl.
  - split; cbn [fst recs pkeys locals]; try assumption.
    + pose proof (remove_pk_length k (pkeys s)). lia.
    + now apply remove_pk_nodup.
    + now apply remove_pk_forall.
    + now apply remove_pk_forall.
    + now apply remove_pk_forall.
    + now apply remove_pk_forall.
  - split; cbn [fst recs pkeys locals]; try assumption.
    + now rewrite replace_pk_length.
    + now rewrite replace_pk_keys.
    + apply replace_pk_forall; [|assumption]. intros ?; cbn [snd]. cbn [snd]. rewrite <- Efl.
      pose proof (filter_length_le (fun p0 => negb (prov_expired p0 now)) ps). lia.
    + apply replace_pk_forall; [|assumption]. intros ?; cbn [snd]. cbn [snd]. discriminate.
    + apply replace_pk_forall; [|assumption]. intros ?; cbn [snd]. cbn [snd]. rewrite <- Efl.
      now apply psorted_filter.
    + apply replace_pk_forall; [|assumption]. intros ?; cbn [snd]. cbn [snd]. rewrite <- Efl.
      now apply forall_filter.
Qed.

Lemma put_provider_inv s k pid dist naddr now :
  Inv c s -> Inv c (fst (put_provider c s k pid dist naddr now)).
Proof.
  intros I. pose proof I as [H1 H2 H3 H4 H5 H6 H7 H8 H9]. unfold put_provider.
  set (pr := mkProv pid dist (N.min naddr (max_addrs c)) (now + ttl c)).
  destruct (find_pk k (pkeys s)) as [ps|] eqn:Ef.
  - pose proof (find_pk_in _ _ _ Ef) as Hin.
    pose proof (proj1 (Forall_forall _ _) H6 _ Hin) as L6.
    pose proof (proj1 (Forall_forall _ _) H8 _ Hin) as L8.
    pose proof (proj1 (Forall_forall _ _) H9 _ Hin) as L9. cbn [snd] in *.
    destruct (put_list (max_per_key c) pr ps) as [ps'|] eqn:Ep; [|exact I].
    replace (max_per_key c) with (N.of_nat (N.to_nat (max_per_key c))) in Ep by lia.
    apply put_list_inv in Ep; [|assumption|lia|lia].
    destruct Ep as (S1 & S2 & S3 & S4).
    split; cbn [fst recs pkeys locals]; try assumption.
    + now rewrite replace_pk_length.
    + now rewrite replace_pk_keys.
    + apply replace_pk_forall; [|assumption]. intros ?; cbn [snd]. cbn [snd]. lia.
    + apply replace_pk_forall; [|assumption]. intros ?; cbn [snd]. assumption.
    + apply replace_pk_forall; [|assumption]. intros ?; cbn [snd]. assumption.
    + apply replace_pk_forall; [|assumption]. intros ?; cbn [snd]. cbn [snd].
      apply Forall_forall. intros y Hy. destruct (S4 _ Hy) as [->|Hy'].
      * subst pr. cbn [p_naddr]. lia.
      * rewrite Forall_forall in L9. auto.
  - destruct (N.of_nat (length (pkeys s)) <? max_keys c) eqn:El; [|exact I].
    split; cbn [fst recs pkeys locals]; try assumption.
    + rewrite app_length. cbn [length]. lia.
    + unfold pk_keys. rewrite map_app. cbn [map fst].
      apply find_pk_none in Ef.
      apply Permutation_NoDup with (l := k :: map fst (pkeys s)).
      * apply Permutation_cons_append.
      * constructor; assumption.
    + apply Forall_app; split; [assumption|]. constructor; [cbn; lia | constructor].
    + apply Forall_app; split; [assumption|]. constructor; [cbn; discriminate | constructor].
    + apply Forall_app; split; [assumption|]. constructor; [|constructor].
      cbn [snd]. constructor; constructor.
    + apply Forall_app; split; [assumption|]. constructor; [|constructor].
      cbn [snd]. constructor; [subst pr; cbn [p_naddr]; lia | constructor].
Qed.

Lemma put_local_provider_inv s k dist now :
  Inv c s -> Inv c (fst (put_local_provider c s k dist now)).
Proof.
  intros I. unfold put_local_provider.
  pose proof (put_provider_inv s k LOCAL_ID dist 0 now I) as I1.
  destruct (put_provider c s k LOCAL_ID dist 0 now) as [s1 ok]. cbn [fst] in I1.
  destruct ok; cbn [fst]; [|exact I1].
  destruct I1; split; assumption.
Qed.

Lemma remove_local_provider_inv s k dist :
  Inv c s -> Inv c (fst (remove_local_provider s k dist)).
Proof.
  intros I. pose proof I as [H1 H2 H3 H4 H5 H6 H7 H8 H9]. unfold remove_local_provider.
  destruct (negb (existsb (N.eqb k) (locals s))); [exact I|].
  destruct (find_pk k (pkeys s)) as [ps|] eqn:Ef; [|split; assumption].
  pose proof (find_pk_in _ _ _ Ef) as Hin.
  pose proof (proj1 (Forall_forall _ _) H6 _ Hin) as L6.
  pose proof (proj1 (Forall_forall _ _) H8 _ Hin) as L8.
  pose proof (proj1 (Forall_forall _ _) H9 _ Hin) as L9. cbn [snd] in *.
  destruct (search dist ps) as [i|i]; [|split; assumption].
  destruct (remove_nth i ps) as [|p ps'] eqn:Er.
  - split; cbn [fst recs pkeys locals]; try assumption.
    + pose proof (remove_pk_length k (pkeys s)). lia.
    + now apply remove_pk_nodup.
    + now apply remove_pk_forall.
    + now apply remove_pk_forall.
    + now apply remove_pk_forall.
    + now apply remove_pk_forall.
  - split; cbn [fst recs pkeys locals]; try assumption.
    + now rewrite replace_pk_length.
    + now rewrite replace_pk_keys.
    + apply replace_pk_forall; [|assumption]. intros ?; cbn [snd]. cbn [snd]. rewrite <- Er.
      pose proof (remove_nth_length i ps). lia.
    + apply replace_pk_forall; [|assumption]. intros ?; cbn [snd]. cbn [snd]. discriminate.
    + apply replace_pk_forall; [|assumption]. intros ?; cbn [snd]. cbn [snd]. rewrite <- Er.
      now apply psorted_remove_nth.
    + apply replace_pk_forall; [|assumption]. intros ?; cbn [snd]. cbn [snd]. rewrite <- Er.
      now apply remove_nth_forall.
Qed.

Lemma step_inv s o now : Inv c s -> Inv c (fst (step c s o now)).
Proof.
  intros I. destruct o; cbn [step].
  - pose proof (get_inv s k now I). destruct (get s k now); assumption.
  - cbn [fst]. now apply put_inv.
  - pose proof (get_providers_inv s k now I). destruct (get_providers s k now); assumption.
  - pose proof (put_provider_inv s k pid dist naddr now I).
    destruct (put_provider c s k pid dist naddr now); assumption.
  - pose proof (put_local_provider_inv s k dist now I).
    destruct (put_local_provider c s k dist now); assumption.
  - pose proof (remove_local_provider_inv s k dist I).
    destruct (remove_local_provider s k dist); assumption.
Qed.

Lemma run_inv h : forall s, Inv c s -> Inv c (fst (run c s h)).
Proof.
  induction h as [|[o now] t IH]; intros s I; cbn [run fst]; [exact I|].
  pose proof (step_inv s o now I) as I1. destruct (step c s o now) as [s1 r]. cbn [fst] in I1.
  specialize (IH s1 I1). destruct (run c s1 t) as [s2 rs]. exact IH.
Qed.

Lemma final_inv h : Inv c (final c h).
Proof. unfold final. apply run_inv. apply inv_empty. Qed.

End Preservation.

(* ---------- freshness ---------- *)

Lemma get_fresh s k now r :
  snd (get s k now) = Some r -> r_key r = k /\ rec_expired r now = false /\ In r (recs s).
Proof.
  unfold get. destruct (find_rec k (recs s)) as [r0|] eqn:Ef; [|discriminate].
  destruct (rec_expired r0 now) eqn:Ex; cbn [snd]; [discriminate|].
  intros [= <-]. repeat split; [eapply find_rec_key | | eapply find_rec_in]; eassumption.
Qed.

Lemma get_providers_fresh s k now :
  Forall (fun p => prov_expired p now = false) (snd (get_providers s k now)).
Proof.
  unfold get_providers. destruct (find_pk k (pkeys s)) as [ps|]; [|constructor].
  destruct (filter _ ps) as [|p ps'] eqn:Efl; cbn [snd]; [constructor|].
  rewrite <- Efl. apply Forall_forall. intros y Hy. apply filter_In in Hy.
  destruct Hy as [_ Hy]. now destruct (prov_expired y now).
Qed.

(* get removes nothing but an expired record under the requested key *)
Lemma get_pure s k now :
  let s' := fst (get s k now) in
  pkeys s' = pkeys s /\ locals s' = locals s /\
  forall k', find_rec k' (recs s') =
             match find_rec k' (recs s) with
             | Some r => if (k' =? k) && rec_expired r now then None else Some r
             | None => None
             end.
Proof.
  unfold get. destruct (find_rec k (recs s)) as [r|] eqn:Ef.
  - destruct (rec_expired r now) eqn:Ex; cbn [fst recs pkeys locals].
    + repeat split. intros k'. rewrite find_remove_rec.
      destruct (k' =? k) eqn:E.
      * assert (k' = k) as -> by lia. rewrite Ef, Ex. reflexivity.
      * destruct (find_rec k' (recs s)); reflexivity.
    + repeat split. intros k'. destruct (find_rec k' (recs s)) as [r'|] eqn:Ef'; [|reflexivity].
      destruct (k' =? k) eqn:E; [|reflexivity].
      assert (k' = k) as -> by lia. rewrite Ef in Ef'. injection Ef' as <-. now rewrite Ex.
  - cbn [fst]. repeat split. intros k'. destruct (find_rec k' (recs s)) as [r'|] eqn:Ef'; [|reflexivity].
    destruct (k' =? k) eqn:E; [|reflexivity].
    assert (k' = k) as -> by lia. congruence.
Qed.

Lemma get_providers_pure s k now :
  let s' := fst (get_providers s k now) in
  recs s' = recs s /\ locals s' = locals s /\
  forall k', find_pk k' (pkeys s') =
             match find_pk k' (pkeys s) with
             | Some ps =>
                 if k' =? k
                 then match filter (fun p => negb (prov_expired p now)) ps with
                      | [] => None | ps' => Some ps' end
                 else Some ps
             | None => None
             end.
Proof.
  unfold get_providers. destruct (find_pk k (pkeys s)) as [ps|] eqn:Ef.
  - destruct (filter _ ps) as [|p ps'] eqn:Efl; cbn [fst recs pkeys locals].
    + repeat split. intros k'. rewrite find_remove_pk.
      destruct (k' =? k) eqn:E.
      * assert (k' = k) as -> by lia. rewrite Ef, Efl. reflexivity.
      * destruct (find_pk k' (pkeys s)); reflexivity.
    + repeat split. intros k'. rewrite find_replace_pk.
      destruct (k' =? k) eqn:E.
      * assert (k' = k) as -> by lia. rewrite Ef, Efl. reflexivity.
      * destruct (find_pk k' (pkeys s)); reflexivity.
  - cbn [fst]. repeat split. intros k'. destruct (find_pk k' (pkeys s)) as [ps'|] eqn:Ef'; [|reflexivity].
    destruct (k' =? k) eqn:E; [|reflexivity].
    assert (k' = k) as -> by lia. congruence.
Qed.

(* TTL monotonicity: an older-expiring record never replaces a stored one *)
Lemma put_ttl_monotone c s r old t t' :
  find_rec (r_key r) (recs s) = Some old -> r_exp old = Some t -> r_exp r = Some t' ->
  t' < t -> put c s r = s.
Proof.
  intros Hf Ho Hr Hlt. unfold put. destruct (max_size c <=? r_len r); [reflexivity|].
  rewrite Hf, Ho, Hr. assert (t' <? t = true) as -> by lia. reflexivity.
Qed.

(* What put does to the record map, as a lookup function *)
Lemma put_lookup c s r :
  find_rec (r_key r) (recs (put c s r)) =
    (if max_size c <=? r_len r then find_rec (r_key r) (recs s)
     else match find_rec (r_key r) (recs s) with
          | Some old =>
              match r_exp old, r_exp r with
              | Some t_old, Some t_new => if t_new <? t_old then Some old else Some r
              | _, _ => Some r
              end
          | None => if max_records c <=? N.of_nat (length (recs s)) then None else Some r
          end).
Proof.
  unfold put.
  destruct (max_size c <=? r_len r); [reflexivity|].
  destruct (find_rec (r_key r) (recs s)) as [old|] eqn:Ef.
  - assert (Hrep : find_rec (r_key r) (replace_rec r (recs s)) = Some r).
    { rewrite find_replace_rec. assert (r_key r =? r_key r = true) as -> by lia. now rewrite Ef. }
    destruct (r_exp old), (r_exp r); cbn [recs]; try exact Hrep.
    destruct (n0 <? n); [exact Ef | exact Hrep].
  - destruct (max_records c <=? N.of_nat (length (recs s))); [exact Ef|].
    cbn [recs]. clear -Ef. induction (recs s) as [|h t IH]; cbn [app find_rec] in *.
    + assert (r_key r =? r_key r = true) as -> by lia. reflexivity.
    + destruct (r_key h =? r_key r); [discriminate | auto].
Qed.

Lemma find_rec_app_other k l r : k <> r_key r -> find_rec k (l ++ [r]) = find_rec k l.
Proof.
  intros Hk. induction l as [|h t IH]; cbn [app find_rec].
  - assert (r_key r =? k = false) as -> by lia. reflexivity.
  - destruct (r_key h =? k); [reflexivity | exact IH].
Qed.

Lemma put_other c s r k :
  k <> r_key r -> find_rec k (recs (put c s r)) = find_rec k (recs s) /\
  pkeys (put c s r) = pkeys s /\ locals (put c s r) = locals s.
Proof.
  intros Hk. unfold put.
  destruct (max_size c <=? r_len r); [repeat split|].
  assert (Hrep : find_rec k (replace_rec r (recs s)) = find_rec k (recs s)).
  { rewrite find_replace_rec. assert (k =? r_key r = false) as -> by lia. reflexivity. }
  destruct (find_rec (r_key r) (recs s)) as [old|] eqn:Ef.
  - destruct (r_exp old), (r_exp r); cbn [recs pkeys locals]; try (repeat split; exact Hrep).
    destruct (n0 <? n); repeat split. exact Hrep.
  - destruct (max_records c <=? N.of_nat (length (recs s))); [repeat split|].
    cbn [recs pkeys locals]. repeat split. now apply find_rec_app_other.
Qed.

(* The refinement of put_provider at the store level *)
Lemma put_provider_spec c s k pid dist naddr now ps :
  Inv c s -> 1 <= max_per_key c -> find_pk k (pkeys s) = Some ps ->
  let pr := mkProv pid dist (N.min naddr (max_addrs c)) (now + ttl c) in
  let '(s', ok) := put_provider c s k pid dist naddr now in
  find_pk k (pkeys s') = Some (spec_put (N.to_nat (max_per_key c)) pr ps) /\
  ok = existsb (fun p => (p_dist p =? dist) && (p_id p =? pid))
               (spec_put (N.to_nat (max_per_key c)) pr ps) /\
  (forall k', k' <> k -> find_pk k' (pkeys s') = find_pk k' (pkeys s)) /\
  recs s' = recs s /\ locals s' = locals s.
Proof.
  intros I Hm Hf pr. unfold put_provider. fold pr. rewrite Hf.
  pose proof (find_pk_in _ _ _ Hf) as Hin. destruct I as [H1 H2 H3 H4 H5 H6 H7 H8 H9].
  pose proof (proj1 (Forall_forall _ _) H6 _ Hin) as L6.
  pose proof (proj1 (Forall_forall _ _) H8 _ Hin) as L8. cbn [snd] in *.
  pose proof (put_list_spec (N.to_nat (max_per_key c)) pr ps L8 ltac:(lia) ltac:(lia)) as Hs.
  replace (N.of_nat (N.to_nat (max_per_key c))) with (max_per_key c) in Hs by lia.
  destruct (put_list (max_per_key c) pr ps) as [ps'|] eqn:Ep.
  - destruct Hs as [-> Hi]. cbn [pkeys recs locals]. repeat split.
    + rewrite find_replace_pk. assert (k =? k = true) as -> by lia. now rewrite Hf.
    + symmetry. apply existsb_exists. exists pr. split; [assumption|]. subst pr; cbn [p_dist p_id]. lia.
    + intros k' Hk. rewrite find_replace_pk. assert (k' =? k = false) as -> by lia. reflexivity.
  - destruct Hs as (Heq & Hni & _). repeat split.
    + now rewrite Heq.
    + symmetry. apply not_true_is_false. intros He. apply existsb_exists in He.
      destruct He as (y & Hy & Hyy). rewrite Heq in Hy.
      (* y is in ps at distance dist: impossible, spec_put deletes that distance unless it is pr *)
      pose proof Hy as Hy0. rewrite <- Heq in Hy. apply spec_put_in in Hy. destruct Hy as [->|Hy].
      * apply Hni. rewrite Heq. exact Hy0.
      * rewrite <- Heq in Hy0. unfold spec_put in Hy0. apply firstn_In in Hy0.
        apply in_ins_sorted in Hy0. destruct Hy0 as [->|Hy0].
        -- apply Hni. rewrite Heq. assumption.
        -- pose proof (del_dist_ne (p_dist pr) ps) as Hne. rewrite Forall_forall in Hne.
           specialize (Hne _ Hy0). subst pr. cbn [p_dist] in Hne. lia.
Qed.

Lemma default_config_inv ttl h :
  let c := mkCfg V.gen.Consts.DEFAULT_MAX_RECORDS V.gen.Consts.DEFAULT_MAX_RECORD_SIZE_BYTES
             V.gen.Consts.DEFAULT_MAX_PROVIDER_KEYS V.gen.Consts.DEFAULT_MAX_PROVIDER_ADDRESSES
             V.gen.Consts.DEFAULT_MAX_PROVIDERS_PER_KEY ttl in
  Inv c (final c h).
Proof. intros c. apply final_inv. subst c. cbn [max_per_key]. vm_compute. discriminate. Qed.

(* ---------- one entry per provider ---------- *)
(* The distance of a provider to a key is a function d of (key, provider): the harness computes
   it from the SHA-256 hashes. When every operation of a history carries the distance d
   prescribes, every stored entry does, and since a list is strictly sorted by distance, an
   injective d (distinct peers have distinct hashes) gives: no provider is stored twice. *)
Section OnePerProvider.
Variable d : N -> N -> N.

Definition op_consistent (o : op) : Prop :=
  match o with
  | OPutProvider k pid dist _ => dist = d k pid
  | OPutLocal k dist => dist = d k LOCAL_ID
  | ORemoveLocal k dist => dist = d k LOCAL_ID
  | _ => True
  end.

Definition entry_ok (k : N) (p : prov) : Prop := p_dist p = d k (p_id p).
Definition Cons (s : store) : Prop :=
  Forall (fun kp => Forall (entry_ok (fst kp)) (snd kp)) (pkeys s).

Lemma cons_replace_pk k ps l :
  Forall (entry_ok k) ps ->
  Forall (fun kp => Forall (entry_ok (fst kp)) (snd kp)) l ->
  (forall k', In k' (pk_keys l) -> True) ->
  Forall (fun kp => Forall (entry_ok (fst kp)) (snd kp)) (replace_pk k ps l).
Proof.
  intros Hps H _. induction H as [|[k' ps'] t Hh Ht IH]; cbn [replace_pk]; [constructor|].
  destruct (k' =? k) eqn:E.
  - constructor; [|assumption]. cbn [fst snd]. assert (k' = k) by lia. now subst.
  - constructor; assumption.
Qed.

Lemma find_pk_cons k l ps :
  Forall (fun kp => Forall (entry_ok (fst kp)) (snd kp)) l -> find_pk k l = Some ps -> Forall (entry_ok k) ps.
Proof.
  intros H Hf. apply find_pk_in in Hf. rewrite Forall_forall in H. exact (H _ Hf).
Qed.

Lemma cons_step c s o now :
  1 <= max_per_key c -> Inv c s -> Cons s -> op_consistent o -> Cons (fst (step c s o now)).
Proof.
  intros Hm I C Ho. unfold Cons in *. destruct o; cbn [step op_consistent] in *.
  - unfold get. destruct (find_rec k (recs s)); [destruct (rec_expired r now)|]; exact C.
  - cbn [fst]. unfold put. destruct (max_size c <=? r_len r); [exact C|].
    destruct (find_rec (r_key r) (recs s)) as [old|].
    + destruct (r_exp old), (r_exp r); try exact C. destruct (n0 <? n); exact C.
    + destruct (max_records c <=? N.of_nat (length (recs s))); exact C.
  - unfold get_providers. destruct (find_pk k (pkeys s)) as [ps|] eqn:Ef; [|exact C].
    pose proof (find_pk_cons _ _ _ C Ef) as Hps.
    destruct (filter _ ps) as [|p ps'] eqn:Efl; cbn [fst pkeys].
    + now apply remove_pk_forall.
    + apply cons_replace_pk; [|exact C|trivial]. rewrite <- Efl. now apply forall_filter.
  - unfold put_provider. destruct (find_pk k (pkeys s)) as [ps|] eqn:Ef.
    + pose proof (find_pk_cons _ _ _ C Ef) as Hps.
      pose proof (find_pk_in _ _ _ Ef) as Hin. destruct I as [H1 H2 H3 H4 H5 H6 H7 H8 H9].
      pose proof (proj1 (Forall_forall _ _) H6 _ Hin) as L6.
      pose proof (proj1 (Forall_forall _ _) H8 _ Hin) as L8. cbn [snd] in *.
      destruct (put_list _ _ ps) as [ps'|] eqn:Ep; cbn [fst pkeys]; [|exact C].
      replace (max_per_key c) with (N.of_nat (N.to_nat (max_per_key c))) in Ep by lia.
      apply put_list_inv in Ep; [|assumption|lia|lia]. destruct Ep as (_ & _ & _ & S4).
      apply cons_replace_pk; [|exact C|trivial]. apply Forall_forall. intros y Hy.
      destruct (S4 _ Hy) as [->|Hy']; [unfold entry_ok; cbn [p_dist p_id]; exact Ho|].
      rewrite Forall_forall in Hps. auto.
    + destruct (N.of_nat (length (pkeys s)) <? max_keys c); cbn [fst pkeys]; [|exact C].
      apply Forall_app; split; [exact C|]. constructor; [|constructor]. cbn [fst snd].
      constructor; [|constructor]. unfold entry_ok. cbn [p_dist p_id]. exact Ho.
  - unfold put_local_provider.
    assert (K : Forall (fun kp => Forall (entry_ok (fst kp)) (snd kp))
                  (pkeys (fst (put_provider c s k LOCAL_ID dist 0 now)))).
    { unfold put_provider. destruct (find_pk k (pkeys s)) as [ps|] eqn:Ef.
      + pose proof (find_pk_cons _ _ _ C Ef) as Hps.
        pose proof (find_pk_in _ _ _ Ef) as Hin. destruct I as [H1 H2 H3 H4 H5 H6 H7 H8 H9].
        pose proof (proj1 (Forall_forall _ _) H6 _ Hin) as L6.
        pose proof (proj1 (Forall_forall _ _) H8 _ Hin) as L8. cbn [snd] in *.
        destruct (put_list _ _ ps) as [ps'|] eqn:Ep; cbn [fst pkeys]; [|exact C].
        replace (max_per_key c) with (N.of_nat (N.to_nat (max_per_key c))) in Ep by lia.
        apply put_list_inv in Ep; [|assumption|lia|lia]. destruct Ep as (_ & _ & _ & S4).
        apply cons_replace_pk; [|exact C|trivial]. apply Forall_forall. intros y Hy.
        destruct (S4 _ Hy) as [->|Hy']; [unfold entry_ok; cbn [p_dist p_id]; exact Ho|].
        rewrite Forall_forall in Hps. auto.
      + destruct (N.of_nat (length (pkeys s)) <? max_keys c); cbn [fst pkeys]; [|exact C].
        apply Forall_app; split; [exact C|]. constructor; [|constructor]. cbn [fst snd].
        constructor; [|constructor]. unfold entry_ok. cbn [p_dist p_id]. exact Ho. }
    destruct (put_provider c s k LOCAL_ID dist 0 now) as [s1 ok]. cbn [fst] in K.
    destruct ok; cbn [fst pkeys]; exact K.
  - unfold remove_local_provider. destruct (negb (existsb (N.eqb k) (locals s))); [exact C|].
    destruct (find_pk k (pkeys s)) as [ps|] eqn:Ef; cbn [fst pkeys]; [|exact C].
    pose proof (find_pk_cons _ _ _ C Ef) as Hps.
    destruct (search dist ps) as [i|i]; cbn [fst pkeys]; [|exact C].
    destruct (remove_nth i ps) as [|p ps'] eqn:Er; cbn [fst pkeys].
    + now apply remove_pk_forall.
    + apply cons_replace_pk; [|exact C|trivial]. rewrite <- Er. now apply remove_nth_forall.
Qed.

Fixpoint history_consistent (h : list (op * N)) : Prop :=
  match h with [] => True | (o, _) :: t => op_consistent o /\ history_consistent t end.

Lemma cons_run c h : 1 <= max_per_key c -> forall s,
  Inv c s -> Cons s -> history_consistent h -> Cons (fst (run c s h)).
Proof.
  intros Hm. induction h as [|[o now] t IH]; intros s I C Hh; cbn [run fst]; [exact C|].
  destruct Hh as [Ho Ht].
  pose proof (cons_step c s o now Hm I C Ho) as C1. pose proof (step_inv c Hm s o now I) as I1.
  destruct (step c s o now) as [s1 r]. cbn [fst] in *.
  specialize (IH s1 I1 C1 Ht). destruct (run c s1 t) as [s2 rs]. exact IH.
Qed.

Lemma sorted_nodup_dist l : psorted l -> NoDup (map p_dist l).
Proof.
  induction 1 as [|h t Hs IH Hall]; cbn [map]; constructor; [|assumption].
  intros Hin. apply in_map_iff in Hin. destruct Hin as (y & Hy & Hyin).
  rewrite Forall_forall in Hall. specialize (Hall _ Hyin). unfold dist_lt in Hall. lia.
Qed.

Lemma one_entry_per_provider k l :
  (forall a b, d k a = d k b -> a = b) -> psorted l -> Forall (entry_ok k) l -> NoDup (map p_id l).
Proof.
  intros Hinj Hs Hok. pose proof (sorted_nodup_dist l Hs) as Hnd.
  induction l as [|h t IH]; cbn [map] in *; [constructor|].
  inversion Hnd as [|? ? Hn Hd]; subst. inversion Hok as [|? ? Hh Ht]; subst.
  inversion Hs as [|? ? Hst Hall]; subst.
  constructor; [|apply IH; assumption].
  intros Hin. apply Hn. apply in_map_iff in Hin. destruct Hin as (y & Hy & Hyin).
  apply in_map_iff. exists y. split; [|assumption].
  rewrite Forall_forall in Ht. specialize (Ht _ Hyin). unfold entry_ok in *. congruence.
Qed.

Theorem no_provider_twice c h :
  1 <= max_per_key c -> (forall k a b, d k a = d k b -> a = b) -> history_consistent h ->
  Forall (fun kp => NoDup (map p_id (snd kp))) (pkeys (final c h)).
Proof.
  intros Hm Hinj Hh. unfold final.
  pose proof (run_inv c Hm h empty_store (inv_empty c Hm)) as I.
  assert (C : Cons (fst (run c empty_store h))).
  { apply cons_run; [assumption|now apply inv_empty|constructor|assumption]. }
  destruct I as [_ _ _ _ _ _ _ H8 _]. unfold Cons in C.
  apply Forall_forall. intros kp Hkp. rewrite Forall_forall in H8, C.
  apply (one_entry_per_provider (fst kp)); [apply Hinj | apply H8; assumption | apply C; assumption].
Qed.

End OnePerProvider.
