(* C17 — proofs about Ingress.v: whatever the Kademlia event loop does to the store is a sequence of
   Model.v operations (so the store invariant holds after every event of every history); what remote
   peers can and cannot change; what is served is stored and fresh. *)
From Coq Require Import List Arith NArith Bool Lia Sorted.
From Coq Require Import ZifyBool ZifyNat ZifyN.
From V.gen Require Consts.
From V.C17 Require Import Model Proofs Timed TimedProofs Ingress.
Import ListNotations.
Open Scope N_scope.

Arguments N.add : simpl never.
Arguments N.sub : simpl never.
Arguments N.eqb : simpl never.
Arguments N.ltb : simpl never.
Arguments N.leb : simpl never.
Arguments N.of_nat : simpl never.
Arguments N.min : simpl never.

Definition kstore (st : kstate) : store := ts_store (ks_t st).

(* ---- the loop only ever applies Model.v operations ---- *)
Definition Reach (c : cfg) (s s' : store) : Prop := exists ops, s' = fst (run c s ops).

Lemma run_app c : forall a s b, fst (run c s (a ++ b)) = fst (run c (fst (run c s a)) b).
Proof.
  induction a as [|[o now] a IH]; intros s b; [reflexivity|].
  cbn [app run]. destruct (step c s o now) as [s1 r]. specialize (IH s1 b).
  destruct (run c s1 (a ++ b)) as [s2 rs]. destruct (run c s1 a) as [s3 rs3]. cbn [fst] in *. exact IH.
Qed.

Lemma reach_refl c s : Reach c s s.
Proof. exists []. reflexivity. Qed.

Lemma reach_trans c s1 s2 s3 : Reach c s1 s2 -> Reach c s2 s3 -> Reach c s1 s3.
Proof. intros [a ->] [b ->]. exists (a ++ b). symmetry. apply run_app. Qed.

Lemma reach_step c s o now : Reach c s (fst (step c s o now)).
Proof. exists [(o, now)]. cbn [run]. destruct (step c s o now). reflexivity. Qed.

Lemma reach_inv c s s' : 1 <= max_per_key c -> Reach c s s' -> Inv c s -> Inv c s'.
Proof. intros Hc [ops ->] HI. apply run_inv; assumption. Qed.

Lemma do_top_reach kc st o :
  Reach (k_scfg kc) (kstore st) (kstore (fst (do_top kc st o))).
Proof.
  unfold do_top, kstore.
  pose proof (tstep_store (k_scfg kc) (k_interval kc) (ks_t st) o (ks_now st)) as H.
  destruct (tstep (k_scfg kc) (k_interval kc) (ks_t st) o (ks_now st)) as [ts r].
  cbn [fst with_ts ks_t] in *. rewrite H. destruct (erase o); [apply reach_step | apply reach_refl].
Qed.

Lemma settle_store kc st : kstore (settle kc st) = kstore st.
Proof. reflexivity. Qed.

Lemma do_top_now kc st o : ks_now (fst (do_top kc st o)) = ks_now st /\ ks_dead (fst (do_top kc st o)) = ks_dead st.
Proof.
  unfold do_top. destruct (tstep (k_scfg kc) (k_interval kc) (ks_t st) o (ks_now st)). split; reflexivity.
Qed.

Lemma refresh_all_reach kc : forall order st,
  Reach (k_scfg kc) (kstore st) (kstore (refresh_all kc st order)).
Proof.
  induction order as [|[k dist] t IH]; intro st; cbn [refresh_all]; [apply reach_refl|].
  destruct (find_q k (ts_quorum (ks_t st))) as [q|]; [|apply IH].
  eapply reach_trans; [apply (do_top_reach kc st (TPutLocal k dist q)) | apply IH].
Qed.

Lemma kstep_reach kc st e :
  Reach (k_scfg kc) (kstore st) (kstore (fst (kstep kc st e))).
Proof.
  unfold kstep. destruct (ks_dead st); [apply reach_refl|].
  destruct e as [from key val len pub ttl | from key provs | from key | from key
                 | key val len exp | key val len pub exp upd | key val len pub exp
                 | key dist q | key dist | key | key | d order].
  - destruct (pub =? PUB_INVALID); [cbn [fst]; rewrite settle_store; apply reach_refl|].
    destruct (k_auto kc); cbn [fst]; rewrite settle_store; [apply do_top_reach | apply reach_refl].
  - destruct (decoded_provs (k_repl kc) provs) as [|[[p dist] na] [|x l]];
      cbn [fst]; try (rewrite settle_store; apply reach_refl).
    destruct (p =? from); cbn [fst]; rewrite settle_store; [apply do_top_reach | apply reach_refl].
  - pose proof (do_top_reach kc st (TOp (OGet key))) as H.
    destruct (do_top kc st (TOp (OGet key))) as [st1 r]. cbn [fst] in *. rewrite settle_store. exact H.
  - pose proof (do_top_reach kc st (TOp (OGetProviders key))) as H.
    destruct (do_top kc st (TOp (OGetProviders key))) as [st1 r]. cbn [fst] in *. rewrite settle_store. exact H.
  - cbn [fst]. rewrite settle_store. apply do_top_reach.
  - destruct upd; cbn [fst]; rewrite settle_store; [apply do_top_reach | apply reach_refl].
  - cbn [fst]. rewrite settle_store. apply do_top_reach.
  - cbn [fst]. rewrite settle_store. apply do_top_reach.
  - pose proof (do_top_reach kc st (TOp (ORemoveLocal key dist))) as H.
    destruct (do_top kc st (TOp (ORemoveLocal key dist))) as [st1 r]. cbn [fst] in H.
    destruct r as [o | l | b]; try (cbn [fst]; rewrite settle_store; exact H).
    destruct o as [ | o | l | b]; try (cbn [fst]; rewrite settle_store; exact H).
    destruct b; cbn [fst]; [rewrite settle_store; exact H | exact H].
  - pose proof (do_top_reach kc st (TOp (OGet key))) as H.
    destruct (do_top kc st (TOp (OGet key))) as [st1 r]. cbn [fst] in *. rewrite settle_store. exact H.
  - cbn [fst]. rewrite settle_store. apply do_top_reach.
  - set (st1 := mkKS (ks_t st) (ks_now st + d) false).
    pose proof (do_top_reach kc st1 TPoll) as H.
    destruct (do_top kc st1 TPoll) as [st2 r]. cbn [fst] in H. change (kstore st1) with (kstore st) in H.
    destruct r as [o | l | b]; cbn [fst]; try exact H.
    destruct (same_keys _ _); cbn [fst]; [|exact H].
    rewrite settle_store. eapply reach_trans; [exact H | apply refresh_all_reach].
Qed.

Lemma krun_reach kc : forall h st, Reach (k_scfg kc) (kstore st) (kstore (fst (krun kc st h))).
Proof.
  induction h as [|e h IH]; intro st; [apply reach_refl|].
  cbn [krun]. pose proof (kstep_reach kc st e) as H1.
  destruct (kstep kc st e) as [st1 r]. cbn [fst] in H1. specialize (IH st1).
  destruct (krun kc st1 h) as [st2 rs]. cbn [fst] in *. eapply reach_trans; eassumption.
Qed.

Theorem kfinal_inv kc h : 1 <= max_per_key (k_scfg kc) -> Inv (k_scfg kc) (kstore (kfinal kc h)).
Proof.
  intro Hc. unfold kfinal. eapply reach_inv; [exact Hc | apply krun_reach|].
  apply inv_empty; exact Hc.
Qed.

Theorem kstep_inv kc st e :
  1 <= max_per_key (k_scfg kc) -> Inv (k_scfg kc) (kstore st) -> Inv (k_scfg kc) (kstore (fst (kstep kc st e))).
Proof. intros Hc HI. eapply reach_inv; [exact Hc | apply kstep_reach | exact HI]. Qed.

(* ---- what a remote peer can change ---- *)

Lemma do_top_store kc st o' :
  kstore (fst (do_top kc st (TOp o'))) = fst (step (k_scfg kc) (kstore st) o' (ks_now st)).
Proof.
  unfold do_top, kstore.
  pose proof (tstep_store (k_scfg kc) (k_interval kc) (ks_t st) (TOp o') (ks_now st)) as H.
  destruct (tstep (k_scfg kc) (k_interval kc) (ks_t st) (TOp o') (ks_now st)). exact H.
Qed.

Lemma do_top_quorum_same kc st o' :
  match o' with OPutLocal _ _ | ORemoveLocal _ _ => False | _ => True end ->
  ts_quorum (ks_t (fst (do_top kc st (TOp o')))) = ts_quorum (ks_t st).
Proof.
  unfold do_top. destruct o' as [k | r | k | k pid dist naddr | k dist | k dist]; intro H; try contradiction; cbn [tstep].
  - destruct (step (k_scfg kc) (ts_store (ks_t st)) (OGet k) (ks_now st)); reflexivity.
  - destruct (step (k_scfg kc) (ts_store (ks_t st)) (OPut r) (ks_now st)); reflexivity.
  - destruct (step (k_scfg kc) (ts_store (ks_t st)) (OGetProviders k) (ks_now st)); reflexivity.
  - destruct (step (k_scfg kc) (ts_store (ks_t st)) (OPutProvider k pid dist naddr) (ks_now st)); reflexivity.
Qed.

Lemma settle_quorum kc st : ts_quorum (ks_t (settle kc st)) = ts_quorum (ks_t st).
Proof. reflexivity. Qed.

(* the store operation a remote event performs, if any: never a local-provider operation *)
Definition remote_op (kc : kcfg) (e : kev) : option op :=
  match e with
  | KPutValue from key val len pub ttl =>
      if k_auto kc then Some (OPut (rec_of key val len pub (if ttl =? 0 then None else Some 0))) else None
  | _ => None
  end.

(* Shape of a remote step: nothing, or exactly one of put / put_provider (of the sender) / get /
   get_providers at the current clock reading. *)
Lemma remote_step_shape kc st e :
  ks_dead st = false -> remote e = true ->
  let s := kstore st in
  let s' := kstore (fst (kstep kc st e)) in
  let now := ks_now st in
  ts_quorum (ks_t (fst (kstep kc st e))) = ts_quorum (ks_t st) /\
  (s' = s \/
   (exists r, k_auto kc = true /\ s' = put (k_scfg kc) s r) \/
   (exists from key provs dist na, e = KAddProvider from key provs /\
       s' = fst (put_provider (k_scfg kc) s key from dist (N.min na WIRE_MAX_ADDRS) now)) \/
   (exists k, s' = fst (get s k now)) \/
   (exists k, s' = fst (get_providers s k now))).
Proof.
  intros Hd Hr. cbn zeta. unfold kstep. rewrite Hd.
  destruct e as [from key val len pub ttl | from key provs | from key | from key
                 | key val len exp | key val len pub exp upd | key val len pub exp
                 | key dist q | key dist | key | key | d order]; try discriminate.
  - destruct (pub =? PUB_INVALID); [cbn [fst]; split; [reflexivity | left; reflexivity]|].
    destruct (k_auto kc) eqn:Ea; cbn [fst].
    + rewrite settle_quorum, settle_store, do_top_store, do_top_quorum_same by exact I.
      split; [reflexivity|]. right; left. eexists. split; [reflexivity|]. reflexivity.
    + split; [reflexivity | left; reflexivity].
  - destruct (decoded_provs (k_repl kc) provs) as [|[[p dist] na] [|x l]];
      cbn [fst]; try (split; [reflexivity | left; reflexivity]).
    destruct (p =? from) eqn:Ep; cbn [fst]; [|split; [reflexivity | left; reflexivity]].
    rewrite settle_quorum, settle_store, do_top_store, do_top_quorum_same by exact I.
    split; [reflexivity|]. right; right; left. apply N.eqb_eq in Ep. subst p.
    exists from, key, provs, dist, na. split; [reflexivity|]. cbn [step].
    destruct (put_provider (k_scfg kc) (kstore st) key from dist (N.min na WIRE_MAX_ADDRS) (ks_now st)). reflexivity.
  - pose proof (do_top_store kc st (OGet key)) as Hs.
    pose proof (do_top_quorum_same kc st (OGet key) I) as Hq.
    destruct (do_top kc st (TOp (OGet key))) as [st1 r]. cbn [fst] in *.
    rewrite settle_quorum, settle_store. split; [exact Hq|]. right; right; right; left.
    exists key. rewrite Hs. cbn [step]. destruct (get (kstore st) key (ks_now st)). reflexivity.
  - pose proof (do_top_store kc st (OGetProviders key)) as Hs.
    pose proof (do_top_quorum_same kc st (OGetProviders key) I) as Hq.
    destruct (do_top kc st (TOp (OGetProviders key))) as [st1 r]. cbn [fst] in *.
    rewrite settle_quorum, settle_store. split; [exact Hq|]. right; right; right; right.
    exists key. rewrite Hs. cbn [step]. destruct (get_providers (kstore st) key (ks_now st)). reflexivity.
Qed.

(* a remote event never changes which keys the node provides itself, nor with which quorum *)
Theorem remote_keeps_local_registrations kc st e :
  ks_dead st = false -> remote e = true ->
  ts_quorum (ks_t (fst (kstep kc st e))) = ts_quorum (ks_t st) /\
  locals (kstore (fst (kstep kc st e))) = locals (kstore st).
Proof.
  intros Hd Hr. destruct (remote_step_shape kc st e Hd Hr) as [Hq Hs]. split; [exact Hq|].
  destruct Hs as [->|[[r [_ ->]]|[[from [key [provs [dist [na [_ ->]]]]]]|[[k ->]|[k ->]]]]].
  - reflexivity.
  - exact (step_locals_same (k_scfg kc) (kstore st) (OPut r) 0 I).
  - apply put_provider_locals.
  - pose proof (step_locals_same (k_scfg kc) (kstore st) (OGet k) (ks_now st) I) as H. cbn [step] in H.
    destruct (get (kstore st) k (ks_now st)). exact H.
  - pose proof (step_locals_same (k_scfg kc) (kstore st) (OGetProviders k) (ks_now st) I) as H. cbn [step] in H.
    destruct (get_providers (kstore st) k (ks_now st)). exact H.
Qed.

Lemma put_provider_recs c s k pid dist naddr now :
  recs (fst (put_provider c s k pid dist naddr now)) = recs s.
Proof.
  unfold put_provider. destruct (find_pk k (pkeys s)).
  - destruct (put_list _ _ _); reflexivity.
  - destruct (_ <? _); reflexivity.
Qed.

(* IncomingRecordValidationMode::Manual: no remote event adds or alters a record *)
Theorem manual_mode_no_remote_record kc st e :
  ks_dead st = false -> remote e = true -> k_auto kc = false ->
  forall k r, find_rec k (recs (kstore (fst (kstep kc st e)))) = Some r ->
              find_rec k (recs (kstore st)) = Some r.
Proof.
  intros Hd Hr Ha k r. destruct (remote_step_shape kc st e Hd Hr) as [_ Hs].
  destruct Hs as [->|[[r0 [Ha' _]]|[[from [key [provs [dist [na [_ ->]]]]]]|[[k0 ->]|[k0 ->]]]]].
  - auto.
  - congruence.
  - rewrite put_provider_recs. auto.
  - destruct (get_pure (kstore st) k0 (ks_now st)) as [_ [_ H]]. rewrite (H k).
    destruct (find_rec k (recs (kstore st))) as [r1|]; [|discriminate].
    destruct ((k =? k0) && rec_expired r1 (ks_now st)); [discriminate | auto].
  - destruct (get_providers_pure (kstore st) k0 (ks_now st)) as [H _]. rewrite H. auto.
Qed.

(* membership after put_list, without any sortedness assumption *)
Lemma set_nth_in i x l y : In y (set_nth i x l) -> y = x \/ In y l.
Proof.
  revert i; induction l as [|h t IH]; intros [|i]; cbn [set_nth In]; try tauto.
  - intros [H|H]; auto.
  - intros [H|H]; [auto|]. destruct (IH i H); auto.
Qed.
Lemma insert_at_in i x l y : In y (insert_at i x l) -> y = x \/ In y l.
Proof.
  revert l; induction i as [|i IH]; intros l; cbn [insert_at].
  - cbn [In]. intros [H|H]; auto.
  - destruct l as [|h t]; cbn [In]; [intros [H|[]]; auto|].
    intros [H|H]; [auto|]. destruct (IH t H); auto.
Qed.
Lemma removelast_in {A} (l : list A) y : In y (removelast l) -> In y l.
Proof.
  induction l as [|h t IH]; [tauto|]. cbn [removelast]. destruct t as [|h2 t2]; [intros []|].
  cbn [In] in *. intros [H|H]; auto.
Qed.
Lemma put_list_in maxpk pr ps ps' y :
  put_list maxpk pr ps = Some ps' -> In y ps' -> y = pr \/ In y ps.
Proof.
  unfold put_list. destruct (search (p_dist pr) ps) as [i|i].
  - intro H; inversion H; subst. apply set_nth_in.
  - destruct (N.of_nat i =? maxpk); [discriminate|]. intro H; inversion H; subst. intro Hin.
    apply insert_at_in in Hin. destruct Hin as [->|Hin]; [auto|]. right.
    destruct (N.of_nat (length ps) =? maxpk); [apply removelast_in; exact Hin | exact Hin].
Qed.

Lemma find_pk_app_new k l ps k' :
  find_pk k l = None ->
  find_pk k' (l ++ [(k, ps)]) = if k' =? k then Some ps else find_pk k' l.
Proof.
  induction l as [|[k0 ps0] t IH]; cbn [app find_pk]; intro Hn.
  - destruct (k =? k') eqn:E; destruct (k' =? k) eqn:E2; try lia; reflexivity.
  - destruct (k0 =? k) eqn:E0; [discriminate|]. destruct (k0 =? k') eqn:E1.
    + destruct (k' =? k) eqn:E2; [lia | reflexivity].
    + apply IH. exact Hn.
Qed.

Lemma put_provider_members c s k pid dist naddr now k' ps' p :
  find_pk k' (pkeys (fst (put_provider c s k pid dist naddr now))) = Some ps' -> In p ps' ->
  (exists ps, find_pk k' (pkeys s) = Some ps /\ In p ps) \/
  (k' = k /\ p = mkProv pid dist (N.min naddr (max_addrs c)) (now + ttl c)).
Proof.
  unfold put_provider. destruct (find_pk k (pkeys s)) as [ps|] eqn:E.
  - destruct (put_list (max_per_key c) _ ps) as [ps1|] eqn:Ep; cbn [fst pkeys]; [|eauto].
    rewrite find_replace_pk. destruct (k' =? k) eqn:Ek.
    + apply N.eqb_eq in Ek. subst k'. rewrite E. intros H Hin. inversion H; subst.
      destruct (put_list_in _ _ _ _ _ Ep Hin) as [->|Hin']; [right; auto | left; eauto].
    + eauto.
  - destruct (N.of_nat (length (pkeys s)) <? max_keys c); cbn [fst pkeys]; [|eauto].
    rewrite (find_pk_app_new _ _ _ _ E). destruct (k' =? k) eqn:Ek; [|eauto].
    intros H Hin. inversion H; subst. destruct Hin as [<-|[]]. right. split; [lia | reflexivity].
Qed.

(* a remote event adds no provider other than its sender (no third-party announcements) and
   never under a key other than the announced one *)
Theorem remote_adds_only_sender kc st e from :
  ks_dead st = false ->
  match e with
  | KPutValue f _ _ _ _ _ | KAddProvider f _ _ | KGetValue f _ | KGetProviders f _ => f = from
  | _ => False
  end ->
  forall key ps' p, find_pk key (pkeys (kstore (fst (kstep kc st e)))) = Some ps' -> In p ps' ->
    (exists ps, find_pk key (pkeys (kstore st)) = Some ps /\ In p ps) \/ p_id p = from.
Proof.
  intros Hd Hf key ps' p.
  assert (Hr : remote e = true) by (destruct e; try contradiction; reflexivity).
  destruct (remote_step_shape kc st e Hd Hr) as [_ Hs].
  destruct Hs as [->|[[r [_ ->]]|[[f [k0 [provs [dist [na [He ->]]]]]]|[[k0 ->]|[k0 ->]]]]].
  - eauto.
  - intros H Hin. left. exists ps'. split; [|exact Hin]. rewrite <- H.
    unfold put. destruct (max_size (k_scfg kc) <=? r_len r); [reflexivity|].
    destruct (find_rec (r_key r) (recs (kstore st))) as [old|].
    + destruct (r_exp old), (r_exp r); try reflexivity. destruct (_ <? _); reflexivity.
    + destruct (_ <=? _); reflexivity.
  - subst e. subst f. intros H Hin.
    destruct (put_provider_members _ _ _ _ _ _ _ _ _ _ H Hin) as [Hl|[_ ->]]; [left; exact Hl | right; reflexivity].
  - destruct (get_pure (kstore st) k0 (ks_now st)) as [H _]. rewrite H. eauto.
  - destruct (get_providers_pure (kstore st) k0 (ks_now st)) as [_ [_ H]]. rewrite (H key).
    destruct (find_pk key (pkeys (kstore st))) as [ps|] eqn:E; [|discriminate].
    destruct (key =? k0).
    + destruct (filter (fun p0 => negb (prov_expired p0 (ks_now st))) ps) as [|x l] eqn:Ef; [discriminate|].
      intros Hx Hin. inversion Hx; subst. left. exists ps. split; [reflexivity|].
      rewrite <- Ef in Hin. apply filter_In in Hin. tauto.
    + intros Hx Hin. inversion Hx; subst. eauto.
Qed.

(* ---- what is served ---- *)

Lemma do_top_get kc st key :
  do_top kc st (TOp (OGet key)) =
  (with_ts st (mkT (fst (get (kstore st) key (ks_now st))) (ts_quorum (ks_t st)) (ts_timers (ks_t st))),
   TOut (RRec (snd (get (kstore st) key (ks_now st))))).
Proof.
  unfold do_top, kstore. cbn [tstep step]. destruct (get (ts_store (ks_t st)) key (ks_now st)). reflexivity.
Qed.

Lemma do_top_get_providers kc st key :
  do_top kc st (TOp (OGetProviders key)) =
  (with_ts st (mkT (fst (get_providers (kstore st) key (ks_now st))) (ts_quorum (ks_t st)) (ts_timers (ks_t st))),
   TOut (RProvs (snd (get_providers (kstore st) key (ks_now st))))).
Proof.
  unfold do_top, kstore. cbn [tstep step]. destruct (get_providers (ts_store (ks_t st)) key (ks_now st)). reflexivity.
Qed.

(* a GET_VALUE answer (and a local GetRecord hit) carries a stored, unexpired record under the
   asked key, with a positive remaining ttl when it has an expiry *)
Theorem served_record_fresh kc st e key r ttl :
  ks_dead st = false ->
  (exists from, e = KGetValue from key) \/ e = KCmdGetRecord key ->
  snd (kstep kc st e) = KRec (Some (r, ttl)) ->
  r_key r = key /\ In r (recs (kstore st)) /\ rec_expired r (ks_now st) = false /\
  match ttl with Some d => exists t, r_exp r = Some t /\ ks_now st < t /\ d = t - ks_now st
               | None => r_exp r = None end.
Proof.
  intros Hd He. unfold kstep. rewrite Hd.
  assert (G : snd (let '(st1, r0) := do_top kc st (TOp (OGet key)) in
                   (settle kc st1,
                    match r0 with
                    | TOut (RRec (Some r1)) => KRec (Some (r1, remaining (ks_now st) r1))
                    | _ => KRec None
                    end)) = KRec (Some (r, ttl)) ->
              r_key r = key /\ In r (recs (kstore st)) /\ rec_expired r (ks_now st) = false /\
              match ttl with Some d => exists t, r_exp r = Some t /\ ks_now st < t /\ d = t - ks_now st
                           | None => r_exp r = None end).
  { rewrite do_top_get. cbn [snd].
    destruct (snd (get (kstore st) key (ks_now st))) as [r1|] eqn:Eg; [|discriminate].
    intro H. inversion H; subst. clear H.
    destruct (get_fresh (kstore st) key (ks_now st) r Eg) as [H1 [H2 H3]].
    repeat split; try assumption. unfold remaining. unfold rec_expired in H2.
    destruct (r_exp r) as [t|]; [|reflexivity]. exists t. repeat split; lia. }
  destruct He as [[from ->]| ->]; exact G.
Qed.

(* a GET_PROVIDERS answer lists exactly the unexpired stored providers of the key, in stored
   (distance) order, each with at most MAX_ADDRESSES addresses *)
Theorem served_providers_fresh kc st from key l :
  ks_dead st = false ->
  snd (kstep kc st (KGetProviders from key)) = KProvs l ->
  exists ps, ps = snd (get_providers (kstore st) key (ks_now st)) /\
    l = map (fun p => (p_id p, serve_addrs kc p)) ps /\
    Forall (fun p => prov_expired p (ks_now st) = false) ps /\
    Forall (fun x : N * N => snd x <= WIRE_MAX_ADDRS) l.
Proof.
  intros Hd. unfold kstep. rewrite Hd. rewrite do_top_get_providers. cbn [snd].
  intro H. inversion H; subst. clear H. eexists. split; [reflexivity|]. split; [reflexivity|].
  split; [apply get_providers_fresh|].
  apply Forall_forall. intros x Hin. apply in_map_iff in Hin. destruct Hin as [p [<- _]].
  cbn [snd]. unfold serve_addrs. destruct (p_id p =? LOCAL_ID); lia.
Qed.

(* ---- at most MAX_ADDRESSES (types.rs) addresses per stored provider, whatever the store's own
   limit is: the loop cuts the list before the store does ---- *)
Definition AddrInv (s : store) : Prop :=
  Forall (fun kp : N * list prov => Forall (fun p => p_naddr p <= WIRE_MAX_ADDRS) (snd kp)) (pkeys s).

Lemma addrinv_find s k ps : AddrInv s -> find_pk k (pkeys s) = Some ps ->
  Forall (fun p => p_naddr p <= WIRE_MAX_ADDRS) ps.
Proof.
  intros HA Hf. apply find_pk_in in Hf. unfold AddrInv in HA. rewrite Forall_forall in HA.
  exact (HA _ Hf).
Qed.

Lemma addrinv_of_members s s' :
  (forall k' ps' p, find_pk k' (pkeys s') = Some ps' -> In p ps' ->
     (exists ps, find_pk k' (pkeys s) = Some ps /\ In p ps) \/ p_naddr p <= WIRE_MAX_ADDRS) ->
  NoDup (pk_keys (pkeys s')) -> AddrInv s -> AddrInv s'.
Proof.
  intros Hm Hnd HA. unfold AddrInv. apply Forall_forall. intros [k' ps'] Hin. cbn [snd].
  apply Forall_forall. intros p Hp.
  assert (Hf : find_pk k' (pkeys s') = Some ps').
  { clear -Hin Hnd. induction (pkeys s') as [|[k0 ps0] t IH]; [destruct Hin|].
    cbn [pk_keys map fst] in Hnd. inversion Hnd as [|x l Hni Hnd']; subst.
    cbn [find_pk]. destruct Hin as [H|H].
    - inversion H; subst. rewrite N.eqb_refl. reflexivity.
    - destruct (k0 =? k') eqn:E.
      + apply N.eqb_eq in E. subst k0. exfalso. apply Hni.
        change (In (fst (k', ps')) (map fst t)). apply in_map. exact H.
      + apply IH; assumption. }
  destruct (Hm k' ps' p Hf Hp) as [[ps [H1 H2]]|H]; [|exact H].
  pose proof (addrinv_find s k' ps HA H1) as Hall. rewrite Forall_forall in Hall. auto.
Qed.

Lemma step_addrinv c s o now :
  1 <= max_per_key c -> Inv c s ->
  match o with OPutProvider _ _ _ naddr => naddr <= WIRE_MAX_ADDRS | _ => True end ->
  AddrInv s -> AddrInv (fst (step c s o now)).
Proof.
  intros Hc HI Ho HA.
  pose proof (step_inv c Hc s o now HI) as HI'. pose proof (inv_knodup _ _ HI') as Hnd.
  apply (addrinv_of_members s); [ | exact Hnd | exact HA ]. clear Hnd HI'. intros k' ps' p.
  destruct o as [k | r | k | k pid dist naddr | k dist | k dist]; cbn [step].
  - destruct (get_pure s k now) as [H _]. destruct (get s k now) as [s' r']. cbn [fst] in *. rewrite H. eauto.
  - intros H Hin. left. exists ps'. split; [|exact Hin]. rewrite <- H.
    unfold put. destruct (max_size c <=? r_len r); [reflexivity|].
    destruct (find_rec (r_key r) (recs s)) as [old|].
    + destruct (r_exp old), (r_exp r); try reflexivity. destruct (_ <? _); reflexivity.
    + destruct (_ <=? _); reflexivity.
  - destruct (get_providers_pure s k now) as [_ [_ H]].
    destruct (get_providers s k now) as [s' l]. cbn [fst] in *. rewrite (H k').
    destruct (find_pk k' (pkeys s)) as [ps|] eqn:E; [|discriminate].
    destruct (k' =? k).
    + destruct (filter (fun p0 => negb (prov_expired p0 now)) ps) as [|x l0] eqn:Ef; [discriminate|].
      intros Hx Hin. inversion Hx; subst. left. exists ps. split; [reflexivity|].
      rewrite <- Ef in Hin. apply filter_In in Hin. tauto.
    + intros Hx Hin. inversion Hx; subst. eauto.
  - pose proof (put_provider_members c s k pid dist naddr now k' ps' p) as Hm.
    destruct (put_provider c s k pid dist naddr now) as [s' b]. cbn [fst] in *.
    intros H Hin. destruct (Hm H Hin) as [Hl|[_ ->]]; [left; exact Hl|]. right. cbn [p_naddr]. lia.
  - unfold put_local_provider.
    pose proof (put_provider_members c s k LOCAL_ID dist 0 now k' ps' p) as Hm.
    destruct (put_provider c s k LOCAL_ID dist 0 now) as [s' b]. cbn [fst] in *.
    destruct b; cbn [fst pkeys]; intros H Hin;
      (destruct (Hm H Hin) as [Hl|[_ ->]]; [left; exact Hl|]; right; cbn [p_naddr]; lia).
  - unfold remove_local_provider.
    destruct (negb (existsb (N.eqb k) (locals s))); cbn [fst]; [eauto|].
    destruct (find_pk k (pkeys s)) as [ps|] eqn:E; cbn [fst pkeys]; [|eauto].
    destruct (search dist ps) as [i|i]; cbn [fst pkeys]; [|eauto].
    assert (Hsub : forall y, In y (remove_nth i ps) -> In y ps).
    { clear. revert i. induction ps as [|h t IH]; intros [|i] y; cbn [remove_nth In]; try tauto.
      intros [H|H]; [auto | right; eapply IH; exact H]. }
    destruct (remove_nth i ps) as [|x l] eqn:Er; cbn [fst pkeys].
    + rewrite find_remove_pk. destruct (k' =? k); [discriminate | eauto].
    + rewrite find_replace_pk. destruct (k' =? k) eqn:Ek; [|eauto].
      apply N.eqb_eq in Ek. subst k'. rewrite E. intros H Hin. inversion H; subst.
      left. exists ps. split; [reflexivity | apply Hsub; exact Hin].
Qed.

Definition Good (c : cfg) (s : store) : Prop := Inv c s /\ AddrInv s.

Lemma do_top_erase kc st o :
  kstore (fst (do_top kc st o)) =
  match erase o with
  | Some o' => fst (step (k_scfg kc) (kstore st) o' (ks_now st))
  | None => kstore st
  end.
Proof.
  unfold do_top, kstore.
  pose proof (tstep_store (k_scfg kc) (k_interval kc) (ks_t st) o (ks_now st)) as H.
  destruct (tstep (k_scfg kc) (k_interval kc) (ks_t st) o (ks_now st)). exact H.
Qed.

Lemma do_top_good kc st o :
  1 <= max_per_key (k_scfg kc) ->
  match erase o with Some (OPutProvider _ _ _ na) => na <= WIRE_MAX_ADDRS | _ => True end ->
  Good (k_scfg kc) (kstore st) -> Good (k_scfg kc) (kstore (fst (do_top kc st o))).
Proof.
  intros Hc Ho [HI HA]. rewrite do_top_erase. destruct (erase o) as [o'|]; [|split; assumption].
  split; [apply step_inv; assumption | apply step_addrinv; assumption].
Qed.

Lemma refresh_all_good kc : 1 <= max_per_key (k_scfg kc) -> forall order st,
  Good (k_scfg kc) (kstore st) -> Good (k_scfg kc) (kstore (refresh_all kc st order)).
Proof.
  intro Hc. induction order as [|[k dist] t IH]; intros st HG; cbn [refresh_all]; [exact HG|].
  destruct (find_q k (ts_quorum (ks_t st))) as [q|]; [|apply IH; exact HG].
  apply IH. apply do_top_good; [exact Hc | exact I | exact HG].
Qed.

Lemma kstep_good kc st e :
  1 <= max_per_key (k_scfg kc) ->
  Good (k_scfg kc) (kstore st) -> Good (k_scfg kc) (kstore (fst (kstep kc st e))).
Proof.
  intros Hc HG. unfold kstep. destruct (ks_dead st); [exact HG|].
  destruct e as [from key val len pub ttl | from key provs | from key | from key
                 | key val len exp | key val len pub exp upd | key val len pub exp
                 | key dist q | key dist | key | key | d order].
  - destruct (pub =? PUB_INVALID); [cbn [fst]; rewrite settle_store; exact HG|].
    destruct (k_auto kc); cbn [fst]; rewrite settle_store; [apply do_top_good; [exact Hc | exact I | exact HG] | exact HG].
  - destruct (decoded_provs (k_repl kc) provs) as [|[[p dist] na] [|x l]];
      cbn [fst]; try (rewrite settle_store; exact HG).
    destruct (p =? from); cbn [fst]; rewrite settle_store; [|exact HG].
    apply do_top_good; [exact Hc | cbn [erase]; lia | exact HG].
  - pose proof (do_top_good kc st (TOp (OGet key)) Hc I HG) as H.
    destruct (do_top kc st (TOp (OGet key))) as [st1 r]. cbn [fst] in *. rewrite settle_store. exact H.
  - pose proof (do_top_good kc st (TOp (OGetProviders key)) Hc I HG) as H.
    destruct (do_top kc st (TOp (OGetProviders key))) as [st1 r]. cbn [fst] in *. rewrite settle_store. exact H.
  - cbn [fst]. rewrite settle_store. apply do_top_good; [exact Hc | exact I | exact HG].
  - destruct upd; cbn [fst]; rewrite settle_store; [apply do_top_good; [exact Hc | exact I | exact HG] | exact HG].
  - cbn [fst]. rewrite settle_store. apply do_top_good; [exact Hc | exact I | exact HG].
  - cbn [fst]. rewrite settle_store. apply do_top_good; [exact Hc | exact I | exact HG].
  - pose proof (do_top_good kc st (TOp (ORemoveLocal key dist)) Hc I HG) as H.
    destruct (do_top kc st (TOp (ORemoveLocal key dist))) as [st1 r]. cbn [fst] in H.
    destruct r as [o | l | b]; try (cbn [fst]; rewrite settle_store; exact H).
    destruct o as [ | o | l | b]; try (cbn [fst]; rewrite settle_store; exact H).
    destruct b; cbn [fst]; [rewrite settle_store; exact H | exact H].
  - pose proof (do_top_good kc st (TOp (OGet key)) Hc I HG) as H.
    destruct (do_top kc st (TOp (OGet key))) as [st1 r]. cbn [fst] in *. rewrite settle_store. exact H.
  - cbn [fst]. rewrite settle_store. apply do_top_good; [exact Hc | exact I | exact HG].
  - set (st1 := mkKS (ks_t st) (ks_now st + d) false).
    pose proof (do_top_good kc st1 TPoll Hc I HG) as H.
    destruct (do_top kc st1 TPoll) as [st2 r]. cbn [fst] in H.
    destruct r as [o | l | b]; cbn [fst]; try exact H.
    destruct (same_keys _ _); cbn [fst]; [|exact H].
    rewrite settle_store. apply refresh_all_good; assumption.
Qed.

Theorem kfinal_good kc h :
  1 <= max_per_key (k_scfg kc) -> Good (k_scfg kc) (kstore (kfinal kc h)).
Proof.
  intro Hc. unfold kfinal.
  assert (G : forall h st, Good (k_scfg kc) (kstore st) -> Good (k_scfg kc) (kstore (fst (krun kc st h)))).
  { clear h. induction h as [|e h IH]; intros st HG; [exact HG|].
    cbn [krun]. pose proof (kstep_good kc st e Hc HG) as H1.
    destruct (kstep kc st e) as [st1 r]. cbn [fst] in H1. specialize (IH st1 H1).
    destruct (krun kc st1 h). exact IH. }
  apply G. split; [apply inv_empty; exact Hc | constructor].
Qed.

(* ---- after every event every pending refresh future is armed and lies in the future ---- *)
Definition KArmed (st : kstate) : Prop :=
  Forall (fun t => exists d, tm_due t = Some d /\ ks_now st < d) (ts_timers (ks_t st)).

Lemma settle_armed kc st : KArmed (settle kc st).
Proof.
  unfold KArmed, settle. cbn [ks_t with_ts ks_now].
  apply (poll_rest_armed (k_scfg kc) (k_interval kc) (ks_t st) (ks_now st)).
Qed.

Theorem kstep_armed kc st e :
  ks_dead st = false -> ks_dead (fst (kstep kc st e)) = false -> KArmed (fst (kstep kc st e)).
Proof.
  intros Hd. unfold kstep. rewrite Hd.
  destruct e as [from key val len pub ttl | from key provs | from key | from key
                 | key val len exp | key val len pub exp upd | key val len pub exp
                 | key dist q | key dist | key | key | d order]; intro Hd'.
  - destruct (pub =? PUB_INVALID); [apply settle_armed|]. destruct (k_auto kc); apply settle_armed.
  - destruct (decoded_provs (k_repl kc) provs) as [|[[p dist] na] [|x l]]; try apply settle_armed.
    destruct (p =? from); apply settle_armed.
  - destruct (do_top kc st (TOp (OGet key))). apply settle_armed.
  - destruct (do_top kc st (TOp (OGetProviders key))). apply settle_armed.
  - apply settle_armed.
  - destruct upd; apply settle_armed.
  - apply settle_armed.
  - apply settle_armed.
  - destruct (do_top kc st (TOp (ORemoveLocal key dist))) as [st1 r].
    destruct r as [o | l | b]; try apply settle_armed.
    destruct o as [ | o | l | b]; try apply settle_armed.
    destruct b; [apply settle_armed | cbn [fst ks_dead] in Hd'; discriminate].
  - destruct (do_top kc st (TOp (OGet key))). apply settle_armed.
  - apply settle_armed.
  - set (st1 := mkKS (ks_t st) (ks_now st + d) false) in *.
    assert (H2 : KArmed (fst (do_top kc st1 TPoll))).
    { unfold do_top, KArmed.
      pose proof (poll_rest_armed (k_scfg kc) (k_interval kc) (ks_t st1) (ks_now st1)) as H.
      destruct (tstep (k_scfg kc) (k_interval kc) (ks_t st1) TPoll (ks_now st1)). exact H. }
    destruct (do_top kc st1 TPoll) as [st2 r]. cbn [fst] in H2.
    destruct r as [o | l | b]; cbn [fst]; try exact H2.
    destruct (same_keys _ _); cbn [fst]; [apply settle_armed | exact H2].
Qed.

(* ---- the distance argument of the model: XOR of hashes ---- *)
Lemma lxor_cancel_l k a b : N.lxor a k = N.lxor b k -> a = b.
Proof.
  intro H.
  assert (E : forall x, N.lxor (N.lxor x k) k = x).
  { intro x. rewrite N.lxor_assoc, N.lxor_nilpotent, N.lxor_0_r. reflexivity. }
  rewrite <- (E a), <- (E b), H. reflexivity.
Qed.

(* one entry per provider with the real metric: distance(key, peer) = H(peer) xor H(key); the only
   assumption left is that distinct peers have distinct hashes *)
Theorem no_provider_twice_xor (hk hp : N -> N) c h :
  1 <= max_per_key c -> (forall a b, hp a = hp b -> a = b) ->
  history_consistent (fun k p => N.lxor (hp p) (hk k)) h ->
  Forall (fun kp => NoDup (map p_id (snd kp))) (pkeys (final c h)).
Proof.
  intros Hc Hinj Hh. apply (no_provider_twice (fun k p => N.lxor (hp p) (hk k))); try assumption.
  intros k a b H. apply Hinj. eapply lxor_cancel_l. exact H.
Qed.

(* the default configuration refreshes a local provider before its record expires, and the
   default per-provider address limit is the effective one (it is below MAX_ADDRESSES of types.rs) *)
Lemma default_refresh_before_expiry :
  V.gen.Consts.DEFAULT_PROVIDER_REFRESH_INTERVAL_SECS < V.gen.Consts.DEFAULT_PROVIDER_TTL_SECS /\
  V.gen.Consts.DEFAULT_MAX_PROVIDER_ADDRESSES <= V.gen.Consts.KAD_MAX_ADDRESSES.
Proof. split; vm_compute; congruence. Qed.

Lemma kfinal_addr_bound kc h : 1 <= max_per_key (k_scfg kc) ->
  Forall (fun kp : N * list prov => Forall (fun p => p_naddr p <= WIRE_MAX_ADDRS) (snd kp))
         (pkeys (kstore (kfinal kc h))).
Proof. intro Hc. exact (proj2 (kfinal_good kc h Hc)). Qed.

(* ---- the source tables the model was written for (regenerated from the Rust source on every
   check by tools/gen_c17_tables.py): a new public method of MemoryStore, a new call of the store
   in kademlia/mod.rs, a new Quorum / validation-mode / store-action variant, a new configuration
   field, a builder setter writing another field, or a clock read outside the helper makes one
   of these equalities false ---- *)
From V.gen Require C17Tables.

(* with_config get put get_providers put_provider put_local_provider remove_local_provider next_action *)
Definition model_store_methods : list N := [0; 1; 2; 3; 4; 5; 6; 7].
(* (arm, method): the store operation of every event of Ingress.v's `kev`, plus the select! arm *)
Definition model_call_sites : list (N * N) :=
  [(1, 2);     (* KPutValue            -> put                   *)
   (2, 1);     (* KGetValue            -> get                   *)
   (3, 4);     (* KAddProvider         -> put_provider          *)
   (4, 3);     (* KGetProviders        -> get_providers         *)
   (6, 2);     (* KCmdPutRecord        -> put                   *)
   (7, 2);     (* KCmdPutToPeers       -> put                   *)
   (8, 5);     (* KCmdStartProviding   -> put_local_provider    *)
   (9, 6);     (* KCmdStopProviding    -> remove_local_provider *)
   (10, 1);    (* KCmdGetRecord        -> get                   *)
   (11, 3);    (* KCmdGetProviders     -> get_providers         *)
   (13, 2);    (* KCmdStoreRecord      -> put                   *)
   (14, 5);    (* KAge / refresh_all   -> put_local_provider    *)
   (15, 7)].   (* settle / KAge        -> next_action           *)

Lemma tables_match :
  V.gen.C17Tables.store_methods = model_store_methods /\
  V.gen.C17Tables.store_call_sites = model_call_sites /\
  V.gen.C17Tables.store_actions = [0] /\
  V.gen.C17Tables.quorum_variants = [0; 1; 2] /\
  V.gen.C17Tables.validation_modes = [0; 1] /\
  V.gen.C17Tables.config_fields = [0; 1; 2; 3; 4; 5; 6] /\
  V.gen.C17Tables.config_defaults = [(0, 0); (1, 1); (2, 2); (3, 3); (4, 4); (5, 5); (6, 6)] /\
  V.gen.C17Tables.builder_setters = [(0, 0); (1, 1); (2, 2); (3, 3); (4, 4); (5, 5); (6, 6)] /\
  V.gen.C17Tables.clock_reads = [1; 3].
Proof. repeat split; reflexivity. Qed.
