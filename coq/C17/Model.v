(* C17 — executable model of litep2p's Kademlia MemoryStore
   (src/protocol/libp2p/kademlia/store.rs, record.rs).  Definitions only; proofs are in Proofs.v.

   Abstractions (all diffed by the correspondence harness):
   - record keys, provider ids and record values are numbers (N); a value is (id, length);
   - time is a logical clock in N (microseconds in the harness);
   - HashMaps are association lists in insertion order; every observable output that depends
     on HashMap iteration order is sorted by key before it is compared;
   - the XOR distance between sha256(provider) and sha256(key) is supplied with the operation
     (the harness computes it with the real code and sends its rank among the provider pool). *)
From Coq Require Import List NArith Bool.
Import ListNotations.
Open Scope N_scope.

Record cfg := mkCfg {
  max_records : N;        (* MemoryStoreConfig::max_records *)
  max_size : N;           (* max_record_size_bytes: a value of length >= max_size is refused *)
  max_keys : N;           (* max_provider_keys *)
  max_addrs : N;          (* max_provider_addresses *)
  max_per_key : N;        (* max_providers_per_key *)
  ttl : N                 (* provider_ttl *)
}.

Record record := mkRec {
  r_key : N; r_val : N; r_len : N; r_exp : option N
}.

Record prov := mkProv {
  p_id : N; p_dist : N; p_naddr : N; p_exp : N
}.

Record store := mkStore {
  recs : list record;
  pkeys : list (N * list prov);
  locals : list N
}.

Definition empty_store : store := mkStore [] [] [].

(* Record::is_expired: expires.is_some_and(|t| now >= t) *)
Definition rec_expired (r : record) (now : N) : bool :=
  match r_exp r with Some t => t <=? now | None => false end.
(* ProviderRecord::is_expired: now >= expires *)
Definition prov_expired (p : prov) (now : N) : bool := p_exp p <=? now.

Fixpoint find_rec (k : N) (l : list record) : option record :=
  match l with
  | [] => None
  | r :: t => if r_key r =? k then Some r else find_rec k t
  end.

Fixpoint remove_rec (k : N) (l : list record) : list record :=
  match l with
  | [] => []
  | r :: t => if r_key r =? k then remove_rec k t else r :: remove_rec k t
  end.

Fixpoint replace_rec (r' : record) (l : list record) : list record :=
  match l with
  | [] => []
  | r :: t => if r_key r =? r_key r' then r' :: t else r :: replace_rec r' t
  end.

(* MemoryStore::get *)
Definition get (s : store) (k : N) (now : N) : store * option record :=
  match find_rec k (recs s) with
  | Some r =>
      if rec_expired r now
      then (mkStore (remove_rec k (recs s)) (pkeys s) (locals s), None)
      else (s, Some r)
  | None => (s, None)
  end.

(* MemoryStore::put *)
Definition put (c : cfg) (s : store) (r : record) : store :=
  if max_size c <=? r_len r then s
  else
    match find_rec (r_key r) (recs s) with
    | Some old =>
        match r_exp old, r_exp r with
        | Some t_old, Some t_new =>
            if t_new <? t_old then s
            else mkStore (replace_rec r (recs s)) (pkeys s) (locals s)
        | _, _ => mkStore (replace_rec r (recs s)) (pkeys s) (locals s)
        end
    | None =>
        if max_records c <=? N.of_nat (length (recs s)) then s
        else mkStore (recs s ++ [r]) (pkeys s) (locals s)
    end.

Fixpoint find_pk (k : N) (l : list (N * list prov)) : option (list prov) :=
  match l with
  | [] => None
  | (k', ps) :: t => if k' =? k then Some ps else find_pk k t
  end.

Fixpoint remove_pk (k : N) (l : list (N * list prov)) : list (N * list prov) :=
  match l with
  | [] => []
  | (k', ps) :: t => if k' =? k then remove_pk k t else (k', ps) :: remove_pk k t
  end.

Fixpoint replace_pk (k : N) (ps' : list prov) (l : list (N * list prov)) : list (N * list prov) :=
  match l with
  | [] => []
  | (k', ps) :: t => if k' =? k then (k', ps') :: t else (k', ps) :: replace_pk k ps' t
  end.

(* MemoryStore::get_providers *)
Definition get_providers (s : store) (k : N) (now : N) : store * list prov :=
  match find_pk k (pkeys s) with
  | None => (s, [])
  | Some ps =>
      let ps' := filter (fun p => negb (prov_expired p now)) ps in
      match ps' with
      | [] => (mkStore (recs s) (remove_pk k (pkeys s)) (locals s), [])
      | _ => (mkStore (recs s) (replace_pk k ps' (pkeys s)) (locals s), ps')
      end
  end.

(* slice::binary_search_by on a list sorted by strictly increasing distance:
   Found i (Ok(i)) when element i has the same distance, Insert i (Err(i)) otherwise,
   i = number of elements with a smaller distance. *)
Inductive pos := Found (i : nat) | Insert (i : nat).

Fixpoint search (d : N) (l : list prov) : pos :=
  match l with
  | [] => Insert 0
  | p :: t =>
      if p_dist p =? d then Found 0
      else if d <? p_dist p then Insert 0
      else match search d t with Found i => Found (S i) | Insert i => Insert (S i) end
  end.

Fixpoint set_nth (i : nat) (x : prov) (l : list prov) : list prov :=
  match l, i with
  | [], _ => []
  | _ :: t, O => x :: t
  | h :: t, S j => h :: set_nth j x t
  end.

Fixpoint insert_at (i : nat) (x : prov) (l : list prov) : list prov :=
  match i, l with
  | O, _ => x :: l
  | S j, [] => [x]
  | S j, h :: t => h :: insert_at j x t
  end.

Fixpoint remove_nth (i : nat) (l : list prov) : list prov :=
  match l, i with
  | [], _ => []
  | _ :: t, O => t
  | h :: t, S j => h :: remove_nth j t
  end.

Definition pop (l : list prov) : list prov := removelast l.

(* The per-key part of put_provider: None = refused (further than max_per_key closer ones). *)
Definition put_list (maxpk : N) (pr : prov) (ps : list prov) : option (list prov) :=
  match search (p_dist pr) ps with
  | Found i => Some (set_nth i pr ps)
  | Insert i =>
      if N.of_nat i =? maxpk then None
      else
        let ps1 := if N.of_nat (length ps) =? maxpk then pop ps else ps in
        Some (insert_at i pr ps1)
  end.

(* MemoryStore::put_provider *)
Definition put_provider (c : cfg) (s : store) (k pid dist naddr now : N) : store * bool :=
  let pr := mkProv pid dist (N.min naddr (max_addrs c)) (now + ttl c) in
  let can_insert_new_key := N.of_nat (length (pkeys s)) <? max_keys c in
  match find_pk k (pkeys s) with
  | None =>
      if can_insert_new_key
      then (mkStore (recs s) (pkeys s ++ [(k, [pr])]) (locals s), true)
      else (s, false)
  | Some ps =>
      match put_list (max_per_key c) pr ps with
      | Some ps' => (mkStore (recs s) (replace_pk k ps' (pkeys s)) (locals s), true)
      | None => (s, false)
      end
  end.

Definition add_local (k : N) (l : list N) : list N :=
  if existsb (N.eqb k) l then l else l ++ [k].

Definition LOCAL_ID : N := 0.

(* MemoryStore::put_local_provider (the refresh timer is not modelled) *)
Definition put_local_provider (c : cfg) (s : store) (k dist now : N) : store * bool :=
  let '(s1, ok) := put_provider c s k LOCAL_ID dist 0 now in
  if ok then (mkStore (recs s1) (pkeys s1) (add_local k (locals s1)), true) else (s1, false).

(* MemoryStore::remove_local_provider; the bool is false when the code reaches one of its
   `debug_assert!(false)` branches (a panic in debug builds). *)
Definition remove_local_provider (s : store) (k dist : N) : store * bool :=
  if negb (existsb (N.eqb k) (locals s)) then (s, true)
  else
    let locals' := filter (fun x => negb (N.eqb k x)) (locals s) in
    match find_pk k (pkeys s) with
    | None => (mkStore (recs s) (pkeys s) locals', false)
    | Some ps =>
        match search dist ps with
        | Found i =>
            let ps' := remove_nth i ps in
            match ps' with
            | [] => (mkStore (recs s) (remove_pk k (pkeys s)) locals', true)
            | _ => (mkStore (recs s) (replace_pk k ps' (pkeys s)) locals', true)
            end
        | Insert _ => (mkStore (recs s) (pkeys s) locals', false)
        end
    end.

(* ---- operations and histories ---- *)

Inductive op :=
| OGet (k : N)
| OPut (r : record)
| OGetProviders (k : N)
| OPutProvider (k pid dist naddr : N)
| OPutLocal (k dist : N)
| ORemoveLocal (k dist : N).

Inductive out :=
| RNone
| RRec (o : option record)
| RProvs (l : list prov)
| RBool (b : bool).

Definition step (c : cfg) (s : store) (o : op) (now : N) : store * out :=
  match o with
  | OGet k => let '(s', r) := get s k now in (s', RRec r)
  | OPut r => (put c s r, RNone)
  | OGetProviders k => let '(s', l) := get_providers s k now in (s', RProvs l)
  | OPutProvider k pid dist naddr =>
      let '(s', b) := put_provider c s k pid dist naddr now in (s', RBool b)
  | OPutLocal k dist => let '(s', b) := put_local_provider c s k dist now in (s', RBool b)
  | ORemoveLocal k dist => let '(s', b) := remove_local_provider s k dist in (s', RBool b)
  end.

(* A history is a list of (operation, time) pairs. *)
Fixpoint run (c : cfg) (s : store) (h : list (op * N)) : store * list out :=
  match h with
  | [] => (s, [])
  | (o, now) :: t =>
      let '(s1, r) := step c s o now in
      let '(s2, rs) := run c s1 t in (s2, r :: rs)
  end.

Definition final (c : cfg) (h : list (op * N)) : store := fst (run c empty_store h).
