(* C17 — pinned property theorems. This file contains statements, `exact`, and
   Print Assumptions only. The pins in tools/pins/C17.v re-check the statements. *)
From Coq Require Import List NArith Bool Sorted.
From V.gen Require Consts.
From V.C17 Require Import Model Proofs Timed TimedProofs Ingress IngressProofs.
From V.C17 Require Glue GlueProofs.
Import ListNotations.
Open Scope N_scope.

(* Every reachable store (any configuration with max_providers_per_key >= 1, any history of
   operations at any times) satisfies all size bounds, key uniqueness and sortedness. *)
Theorem C17_bounds_sorted :
  forall (c : cfg), 1 <= max_per_key c -> forall (h : list (op * N)), Inv c (final c h).
Proof. exact final_inv. Qed.
Print Assumptions C17_bounds_sorted.

(* The invariant is inductive from any state, not only from the empty store. *)
Theorem C17_step_preserves :
  forall (c : cfg), 1 <= max_per_key c ->
  forall s o now, Inv c s -> Inv c (fst (step c s o now)).
Proof. exact step_inv. Qed.
Print Assumptions C17_step_preserves.

(* get never returns an expired record, and returns a stored record under the asked key *)
Theorem C17_get_fresh :
  forall s k now r, snd (get s k now) = Some r ->
    r_key r = k /\ rec_expired r now = false /\ In r (recs s).
Proof. exact get_fresh. Qed.
Print Assumptions C17_get_fresh.

Theorem C17_get_providers_fresh :
  forall s k now, Forall (fun p => prov_expired p now = false) (snd (get_providers s k now)).
Proof. exact get_providers_fresh. Qed.
Print Assumptions C17_get_providers_fresh.

(* reads delete nothing except expired entries under the requested key *)
Theorem C17_get_pure :
  forall s k now,
  let s' := fst (get s k now) in
  pkeys s' = pkeys s /\ locals s' = locals s /\
  forall k', find_rec k' (recs s') =
             match find_rec k' (recs s) with
             | Some r => if (k' =? k) && rec_expired r now then None else Some r
             | None => None
             end.
Proof. exact get_pure. Qed.
Print Assumptions C17_get_pure.

Theorem C17_get_providers_pure :
  forall s k now,
  let s' := fst (get_providers s k now) in
  recs s' = recs s /\ locals s' = locals s /\
  forall k', find_pk k' (pkeys s') =
             match find_pk k' (pkeys s) with
             | Some ps =>
                 if k' =? k
                 then match filter (fun p => negb (prov_expired p now)) ps with
                      | [] => None | ps' => Some ps' end
                 else Some ps
             | None => None
             end.
Proof. exact get_providers_pure. Qed.
Print Assumptions C17_get_providers_pure.

(* a record with an earlier expiry never replaces the stored one *)
Theorem C17_ttl_monotone :
  forall c s r old t t',
  find_rec (r_key r) (recs s) = Some old -> r_exp old = Some t -> r_exp r = Some t' ->
  t' < t -> put c s r = s.
Proof. exact put_ttl_monotone. Qed.
Print Assumptions C17_ttl_monotone.

(* complete functional description of put on the record map *)
Theorem C17_put_lookup :
  forall c s r,
  find_rec (r_key r) (recs (put c s r)) =
    (if max_size c <=? r_len r then find_rec (r_key r) (recs s)
     else match find_rec (r_key r) (recs s) with
          | Some old =>
              match r_exp old, r_exp r with
              | Some t_old, Some t_new => if t_new <? t_old then Some old else Some r
              | _, _ => Some r
              end
          | None => if max_records c <=? N.of_nat (length (recs s)) then None else Some r
          end).
Proof. exact put_lookup. Qed.
Print Assumptions C17_put_lookup.

Theorem C17_put_other :
  forall c s r k, k <> r_key r ->
  find_rec k (recs (put c s r)) = find_rec k (recs s) /\
  pkeys (put c s r) = pkeys s /\ locals (put c s r) = locals s.
Proof. exact put_other. Qed.
Print Assumptions C17_put_other.

(* Refinement: put_provider = "delete the provider's old entry, insert in distance order,
   keep the max_providers_per_key closest"; the returned flag says whether it was kept. *)
Theorem C17_put_provider_spec :
  forall c s k pid dist naddr now ps,
  Inv c s -> 1 <= max_per_key c -> find_pk k (pkeys s) = Some ps ->
  let pr := mkProv pid dist (N.min naddr (max_addrs c)) (now + ttl c) in
  let '(s', ok) := put_provider c s k pid dist naddr now in
  find_pk k (pkeys s') = Some (spec_put (N.to_nat (max_per_key c)) pr ps) /\
  ok = existsb (fun p => (p_dist p =? dist) && (p_id p =? pid))
               (spec_put (N.to_nat (max_per_key c)) pr ps) /\
  (forall k', k' <> k -> find_pk k' (pkeys s') = find_pk k' (pkeys s)) /\
  recs s' = recs s /\ locals s' = locals s.
Proof. exact put_provider_spec. Qed.
Print Assumptions C17_put_provider_spec.

(* one entry per provider: when every operation carries the distance d(key, provider) the hashes
   prescribe and d is injective in the provider (distinct peers, distinct hashes), no provider
   is stored twice under a key after any history — a re-announcement updates in place *)
Theorem C17_no_provider_twice :
  forall (d : N -> N -> N) c h,
  1 <= max_per_key c -> (forall k a b, d k a = d k b -> a = b) -> history_consistent d h ->
  Forall (fun kp => NoDup (map p_id (snd kp))) (pkeys (final c h)).
Proof. exact no_provider_twice. Qed.
Print Assumptions C17_no_provider_twice.

(* non-vacuity: a concrete non-trivial history reaches a state with a full provider list *)
Example C17_nonvacuous :
  let c := mkCfg 2 10 2 1 2 100 in
  let h := [(OPutProvider 7 1 30 3, 1); (OPutProvider 7 2 10 0, 2); (OPutProvider 7 3 20 0, 3);
            (OPut (mkRec 5 1 9 (Some 50)), 4); (OPut (mkRec 5 2 9 (Some 40)), 5)] in
  map p_id (match find_pk 7 (pkeys (final c h)) with Some l => l | None => [] end) = [2; 3] /\
  map r_val (recs (final c h)) = [1].
Proof. vm_compute. split; reflexivity. Qed.

(* The default configuration (constants regenerated from config.rs on every run) satisfies the
   hypothesis of the bounds theorem. *)
Theorem C17_default_config :
  forall ttl h,
  Inv (mkCfg V.gen.Consts.DEFAULT_MAX_RECORDS V.gen.Consts.DEFAULT_MAX_RECORD_SIZE_BYTES
             V.gen.Consts.DEFAULT_MAX_PROVIDER_KEYS V.gen.Consts.DEFAULT_MAX_PROVIDER_ADDRESSES
             V.gen.Consts.DEFAULT_MAX_PROVIDERS_PER_KEY ttl)
      (final (mkCfg V.gen.Consts.DEFAULT_MAX_RECORDS V.gen.Consts.DEFAULT_MAX_RECORD_SIZE_BYTES
             V.gen.Consts.DEFAULT_MAX_PROVIDER_KEYS V.gen.Consts.DEFAULT_MAX_PROVIDER_ADDRESSES
             V.gen.Consts.DEFAULT_MAX_PROVIDERS_PER_KEY ttl) h).
Proof. exact default_config_inv. Qed.
Print Assumptions C17_default_config.

(* ================================================================================================
   Round 2: the clock at the exact boundary, the refresh machinery (Timed.v) and the callers of the
   store in the Kademlia event loop (Ingress.v).
   ================================================================================================ *)

(* ---- expiry at the exact boundary: `now >= expires` means expired ---- *)
Theorem C17_expiry_boundary_record :
  forall r now, rec_expired r now = true <-> exists t, r_exp r = Some t /\ t <= now.
Proof. exact rec_expired_iff. Qed.
Print Assumptions C17_expiry_boundary_record.

Theorem C17_expiry_boundary_provider :
  forall p now, prov_expired p now = true <-> p_exp p <= now.
Proof. exact prov_expired_iff. Qed.
Print Assumptions C17_expiry_boundary_provider.

(* complete characterisation of the reads: exactly the stored entries whose expiry lies strictly
   after the clock reading are returned (nothing expired is returned, nothing fresh is withheld) *)
Theorem C17_get_complete :
  forall s k now r,
  snd (get s k now) = Some r <->
  find_rec k (recs s) = Some r /\ (forall t, r_exp r = Some t -> now < t).
Proof. exact get_complete. Qed.
Print Assumptions C17_get_complete.

Theorem C17_get_providers_complete :
  forall s k now p,
  In p (snd (get_providers s k now)) <->
  exists ps, find_pk k (pkeys s) = Some ps /\ In p ps /\ now < p_exp p.
Proof. exact get_providers_complete. Qed.
Print Assumptions C17_get_providers_complete.

(* an accepted announcement is stored with expiry `now + provider_ttl`, the address list cut to
   max_provider_addresses *)
Theorem C17_provider_expiry :
  forall c s k pid dist naddr now ps' p,
  find_pk k (pkeys (fst (put_provider c s k pid dist naddr now))) = Some ps' ->
  In p ps' -> p_dist p = dist ->
  snd (put_provider c s k pid dist naddr now) = true ->
  Inv c s -> 1 <= max_per_key c ->
  p = mkProv pid dist (N.min naddr (max_addrs c)) (now + ttl c).
Proof. exact put_provider_expiry. Qed.
Print Assumptions C17_provider_expiry.

(* ---- the timed store: same maps, plus local_providers' quorum and the refresh futures ---- *)

(* every timed history performs exactly the Model.v operations it names on the maps *)
Theorem C17_timed_refines_store :
  forall c i h ts, ts_store (fst (trun c i ts h)) = fst (run c (ts_store ts) (erase_h h)).
Proof. exact trun_store. Qed.
Print Assumptions C17_timed_refines_store.

Theorem C17_timed_bounds_sorted :
  forall c i h, 1 <= max_per_key c -> Inv c (ts_store (tfinal c i h)).
Proof. exact tfinal_inv. Qed.
Print Assumptions C17_timed_bounds_sorted.

(* no read of any history, at any clock readings, returns an expired record or provider *)
Theorem C17_history_fresh :
  forall c i h ts n o now x,
  nth_error h n = Some (o, now) -> nth_error (snd (trun c i ts h)) n = Some x -> out_fresh now x.
Proof. exact trun_out_fresh. Qed.
Print Assumptions C17_history_fresh.

(* local_providers: the quorum map has exactly the keys of `locals`, after every history *)
Theorem C17_local_providers_sync :
  forall c i h, QSync (tfinal c i h).
Proof. exact tfinal_sync. Qed.
Print Assumptions C17_local_providers_sync.

(* a RefreshProvider action names a key that is provided at that moment, with the quorum stored
   for it; a completed future of a key that is not provided yields nothing *)
Theorem C17_refresh_only_provided :
  forall c i h n now l k q,
  nth_error h n = Some (TPoll, now) ->
  nth_error (snd (trun c i empty_tstore h)) n = Some (TFired l) ->
  In (k, Some q) l ->
  exists tsn, In k (locals (ts_store tsn)) /\ find_q k (ts_quorum tsn) = Some q /\
              tsn = fst (trun c i empty_tstore (firstn n h)).
Proof. exact refresh_only_provided. Qed.
Print Assumptions C17_refresh_only_provided.

(* every completed refresh future was scheduled by a successful put_local_provider of the same
   key at least `provider_refresh_interval` earlier (monotone clock) *)
Theorem C17_refresh_after_interval :
  forall c i h n now l k r,
  mono 0 h ->
  nth_error h n = Some (TPoll, now) ->
  nth_error (snd (trun c i empty_tstore h)) n = Some (TFired l) ->
  In (k, r) l ->
  exists m o dist b, (m < n)%nat /\ nth_error h m = Some (o, b) /\
    erase o = Some (OPutLocal k dist) /\
    nth_error (snd (trun c i empty_tstore h)) m = Some (TOut (RBool true)) /\
    b + i <= now.
Proof. exact refresh_after_interval. Qed.
Print Assumptions C17_refresh_after_interval.

(* a poll leaves only armed futures whose deadline lies strictly in the future: a due future is
   never skipped *)
Theorem C17_poll_fires_all_due :
  forall c i ts now,
  Forall (fun t => exists d, tm_due t = Some d /\ now < d) (ts_timers (fst (tstep c i ts TPoll now))).
Proof. exact poll_rest_armed. Qed.
Print Assumptions C17_poll_fires_all_due.

(* bookkeeping of pending_provider_refresh: +1 per successful put_local_provider, -1 per completed
   future, nothing else *)
Theorem C17_refresh_future_count :
  forall c i ts o now,
  length (ts_timers (fst (tstep c i ts o now))) =
  match o with
  | TPoll => (length (ts_timers ts) - length (fired_timers i ts now))%nat
  | _ =>
      match erase o with
      | Some (OPutLocal k dist) =>
          if snd (put_local_provider c (ts_store ts) k dist now)
          then S (length (ts_timers ts)) else length (ts_timers ts)
      | _ => length (ts_timers ts)
      end
  end.
Proof. exact tstep_timers_count. Qed.
Print Assumptions C17_refresh_future_count.

(* observation (outside the property text): pending_provider_refresh is bounded by no configured
   limit — n StartProviding calls for one key leave n futures *)
Theorem C17_refresh_futures_unbounded :
  forall c i k dist q, 1 <= max_keys c ->
  forall n, length (ts_timers (tfinal c i (repeat (TPutLocal k dist q, 0) n))) = n.
Proof. exact timers_unbounded. Qed.
Print Assumptions C17_refresh_futures_unbounded.

(* ---- the Kademlia event loop around the store ---- *)

(* whatever the loop does to the maps is a sequence of the six store operations *)
Theorem C17_loop_only_store_ops :
  forall kc h st, Reach (k_scfg kc) (kstore st) (kstore (fst (krun kc st h))).
Proof. exact krun_reach. Qed.
Print Assumptions C17_loop_only_store_ops.

(* hence all bounds, uniqueness and sortedness hold after every history of network messages,
   user commands and timer expiries, in every configuration and validation mode *)
Theorem C17_loop_bounds_sorted :
  forall kc h, 1 <= max_per_key (k_scfg kc) -> Inv (k_scfg kc) (kstore (kfinal kc h)).
Proof. exact kfinal_inv. Qed.
Print Assumptions C17_loop_bounds_sorted.

(* and no stored provider has more than MAX_ADDRESSES (types.rs) addresses either, whatever
   max_provider_addresses is *)
Theorem C17_loop_address_bound :
  forall kc h, 1 <= max_per_key (k_scfg kc) ->
  Forall (fun kp : N * list prov => Forall (fun p => p_naddr p <= WIRE_MAX_ADDRS) (snd kp))
         (pkeys (kstore (kfinal kc h))).
Proof. exact kfinal_addr_bound. Qed.
Print Assumptions C17_loop_address_bound.

(* IncomingRecordValidationMode::Manual: a remote peer cannot add or alter a record *)
Theorem C17_manual_mode_no_remote_record :
  forall kc st e,
  ks_dead st = false -> remote e = true -> k_auto kc = false ->
  forall k r, find_rec k (recs (kstore (fst (kstep kc st e)))) = Some r ->
              find_rec k (recs (kstore st)) = Some r.
Proof. exact manual_mode_no_remote_record. Qed.
Print Assumptions C17_manual_mode_no_remote_record.

(* a remote peer can only ever add itself as a provider *)
Theorem C17_remote_adds_only_sender :
  forall kc st e from,
  ks_dead st = false ->
  match e with
  | KPutValue f _ _ _ _ _ | KAddProvider f _ _ | KGetValue f _ | KGetProviders f _ => f = from
  | _ => False
  end ->
  forall key ps' p, find_pk key (pkeys (kstore (fst (kstep kc st e)))) = Some ps' -> In p ps' ->
    (exists ps, find_pk key (pkeys (kstore st)) = Some ps /\ In p ps) \/ p_id p = from.
Proof. exact remote_adds_only_sender. Qed.
Print Assumptions C17_remote_adds_only_sender.

(* a remote peer cannot change which keys the node announces itself, nor their quorum *)
Theorem C17_remote_keeps_local_registrations :
  forall kc st e,
  ks_dead st = false -> remote e = true ->
  ts_quorum (ks_t (fst (kstep kc st e))) = ts_quorum (ks_t st) /\
  locals (kstore (fst (kstep kc st e))) = locals (kstore st).
Proof. exact remote_keeps_local_registrations. Qed.
Print Assumptions C17_remote_keeps_local_registrations.

(* GET_VALUE answers (and local GetRecord hits): stored, unexpired, positive remaining ttl *)
Theorem C17_served_record_fresh :
  forall kc st e key r ttl,
  ks_dead st = false ->
  (exists from, e = KGetValue from key) \/ e = KCmdGetRecord key ->
  snd (kstep kc st e) = KRec (Some (r, ttl)) ->
  r_key r = key /\ In r (recs (kstore st)) /\ rec_expired r (ks_now st) = false /\
  match ttl with Some d => exists t, r_exp r = Some t /\ ks_now st < t /\ d = t - ks_now st
               | None => r_exp r = None end.
Proof. exact served_record_fresh. Qed.
Print Assumptions C17_served_record_fresh.

(* GET_PROVIDERS answers: exactly the unexpired stored providers, in stored order *)
Theorem C17_served_providers_fresh :
  forall kc st from key l,
  ks_dead st = false ->
  snd (kstep kc st (KGetProviders from key)) = KProvs l ->
  exists ps, ps = snd (get_providers (kstore st) key (ks_now st)) /\
    l = map (fun p => (p_id p, serve_addrs kc p)) ps /\
    Forall (fun p => prov_expired p (ks_now st) = false) ps /\
    Forall (fun x : N * N => snd x <= WIRE_MAX_ADDRS) l.
Proof. exact served_providers_fresh. Qed.
Print Assumptions C17_served_providers_fresh.

(* after every event every pending refresh future is armed with a deadline in the future *)
Theorem C17_loop_refresh_armed :
  forall kc st e,
  ks_dead st = false -> ks_dead (fst (kstep kc st e)) = false -> KArmed (fst (kstep kc st e)).
Proof. exact kstep_armed. Qed.
Print Assumptions C17_loop_refresh_armed.

(* one entry per provider under the real metric d(key, peer) = H(peer) xor H(key): the hypothesis
   "d is injective in the peer" of C17_no_provider_twice reduces to "distinct peers have distinct
   hashes" *)
Theorem C17_no_provider_twice_xor :
  forall (hk hp : N -> N) c h,
  1 <= max_per_key c -> (forall a b, hp a = hp b -> a = b) ->
  history_consistent (fun k p => N.lxor (hp p) (hk k)) h ->
  Forall (fun kp => NoDup (map p_id (snd kp))) (pkeys (final c h)).
Proof. exact no_provider_twice_xor. Qed.
Print Assumptions C17_no_provider_twice_xor.

(* constants regenerated from config.rs / types.rs: the default refresh interval is shorter than
   the default provider TTL, and the default address limit is below MAX_ADDRESSES *)
Theorem C17_default_refresh_before_expiry :
  V.gen.Consts.DEFAULT_PROVIDER_REFRESH_INTERVAL_SECS < V.gen.Consts.DEFAULT_PROVIDER_TTL_SECS /\
  V.gen.Consts.DEFAULT_MAX_PROVIDER_ADDRESSES <= V.gen.Consts.KAD_MAX_ADDRESSES.
Proof. exact default_refresh_before_expiry. Qed.
Print Assumptions C17_default_refresh_before_expiry.

(* non-vacuity of the refresh model: a future fires exactly at its deadline, not one unit before *)
Example C17_refresh_nonvacuous :
  let c := mkCfg 2 10 2 1 2 100 in
  let h := [(TPutLocal 7 5 3, 10); (TPoll, 12); (TPoll, 21); (TPoll, 22); (TPoll, 23)] in
  snd (trun c 10 empty_tstore h) =
  [TOut (RBool true); TFired []; TFired []; TFired [(7, Some 3)]; TFired []].
Proof. vm_compute. reflexivity. Qed.

(* non-vacuity of the loop model: Manual mode drops the remote record, an announcement by a third
   party is ignored, the sender's own announcement (after an undecodable entry) is stored with 32
   of 40 addresses *)
Example C17_loop_nonvacuous :
  let kc := mkK (mkCfg 4 10 4 50 4 100) 5 false 8 20 0 in
  let h := [KPutValue 3 1 7 2 0 5; KAddProvider 3 1 [(4, 9, 1, 1)]; KAddProvider 3 1 [(5, 2, 1, 0); (3, 6, 40, 1)]] in
  recs (kstore (kfinal kc h)) = [] /\
  map (fun kp : N * list prov => (fst kp, map (fun p => (p_id p, p_naddr p)) (snd kp))) (pkeys (kstore (kfinal kc h)))
    = [(1, [(3, 32)])].
Proof. vm_compute. split; reflexivity. Qed.

(* the Rust source still has the shape the model was written for: exactly the eight public store
   methods, exactly the thirteen call sites of the store in kademlia/mod.rs (one per event of the
   loop model), the enum variants the harness enumerates, the configuration fields with their
   default constants and builder setters, one clock read behind the helper with three call sites *)
Theorem C17_source_tables_covered :
  V.gen.C17Tables.store_methods = model_store_methods /\
  V.gen.C17Tables.store_call_sites = model_call_sites /\
  V.gen.C17Tables.store_actions = [0] /\
  V.gen.C17Tables.quorum_variants = [0; 1; 2] /\
  V.gen.C17Tables.validation_modes = [0; 1] /\
  V.gen.C17Tables.config_fields = [0; 1; 2; 3; 4; 5; 6] /\
  V.gen.C17Tables.config_defaults = [(0, 0); (1, 1); (2, 2); (3, 3); (4, 4); (5, 5); (6, 6)] /\
  V.gen.C17Tables.builder_setters = [(0, 0); (1, 1); (2, 2); (3, 3); (4, 4); (5, 5); (6, 6)] /\
  V.gen.C17Tables.clock_reads = [1; 3].
Proof. exact tables_match. Qed.
Print Assumptions C17_source_tables_covered.

(* observation (outside the property text; witness corpus/C17/w1_*.case runs against the real
   store): the keys registered in `local_providers` are not bounded by max_provider_keys *)
Theorem C17_local_registrations_outlive_provider_keys :
  exists c i h,
    1 <= max_per_key c /\ max_keys c = 1 /\ mono 0 h /\
    length (pkeys (ts_store (tfinal c i h))) = 1%nat /\
    length (locals (ts_store (tfinal c i h))) = 2%nat /\
    length (ts_quorum (tfinal c i h)) = 2%nat.
Proof. exact local_registrations_outlive_provider_keys. Qed.
Print Assumptions C17_local_registrations_outlive_provider_keys.

(* ---- the oracle prop_ok judges what the theorems state ---- *)

(* a state the oracle accepts satisfies the invariant of C17_bounds_sorted *)
Theorem C17_oracle_invariant_sound :
  forall c s, V.C17.Glue.inv_b c s = true -> Inv c s.
Proof. exact V.C17.GlueProofs.inv_b_sound. Qed.
Print Assumptions C17_oracle_invariant_sound.

(* and it accepts every state that satisfies it and keeps one entry per provider *)
Theorem C17_oracle_invariant_complete :
  forall c s, Inv c s -> Forall (fun kp => NoDup (map p_id (snd kp))) (pkeys s) ->
  V.C17.Glue.inv_b c s = true.
Proof. exact V.C17.GlueProofs.inv_b_complete. Qed.
Print Assumptions C17_oracle_invariant_complete.

(* the provider-list specification the oracle recomputes is the one of C17_put_provider_spec *)
Theorem C17_oracle_spec_is_theorem_spec :
  forall n pr ps, V.C17.Glue.spec_put n pr ps = spec_put n pr ps.
Proof. exact V.C17.GlueProofs.glue_spec_put_eq. Qed.
Print Assumptions C17_oracle_spec_is_theorem_spec.
