(* C17 — pinned property theorems. This file contains statements, `exact`, and
   Print Assumptions only. The pins in tools/pins/C17.v re-check the statements. *)
From Coq Require Import List NArith Bool Sorted.
From V.gen Require Consts.
From V.C17 Require Import Model Proofs.
Import ListNotations.
Open Scope N_scope.

(* Every reachable store (any configuration with max_providers_per_key >= 1, any history of
   operations at any times) satisfies all size bounds, key uniqueness and sortedness. *)
Theorem C17_bounds_sorted :
  forall (c : cfg), 1 <= max_per_key c -> forall (h : list (op * N)), Inv c (final c h).
Proof. exact final_inv. Qed.
Print Assumptions C17_bounds_sorted.

(* The invariant is inductive from any state, not only from the empty store. *)
Theorem C17_step_preserves :
  forall (c : cfg), 1 <= max_per_key c ->
  forall s o now, Inv c s -> Inv c (fst (step c s o now)).
Proof. exact step_inv. Qed.
Print Assumptions C17_step_preserves.

(* get never returns an expired record, and returns a stored record under the asked key *)
Theorem C17_get_fresh :
  forall s k now r, snd (get s k now) = Some r ->
    r_key r = k /\ rec_expired r now = false /\ In r (recs s).
Proof. exact get_fresh. Qed.
Print Assumptions C17_get_fresh.

Theorem C17_get_providers_fresh :
  forall s k now, Forall (fun p => prov_expired p now = false) (snd (get_providers s k now)).
Proof. exact get_providers_fresh. Qed.
Print Assumptions C17_get_providers_fresh.

(* reads delete nothing except expired entries under the requested key *)
Theorem C17_get_pure :
  forall s k now,
  let s' := fst (get s k now) in
  pkeys s' = pkeys s /\ locals s' = locals s /\
  forall k', find_rec k' (recs s') =
             match find_rec k' (recs s) with
             | Some r => if (k' =? k) && rec_expired r now then None else Some r
             | None => None
             end.
Proof. exact get_pure. Qed.
Print Assumptions C17_get_pure.

Theorem C17_get_providers_pure :
  forall s k now,
  let s' := fst (get_providers s k now) in
  recs s' = recs s /\ locals s' = locals s /\
  forall k', find_pk k' (pkeys s') =
             match find_pk k' (pkeys s) with
             | Some ps =>
                 if k' =? k
                 then match filter (fun p => negb (prov_expired p now)) ps with
                      | [] => None | ps' => Some ps' end
                 else Some ps
             | None => None
             end.
Proof. exact get_providers_pure. Qed.
Print Assumptions C17_get_providers_pure.

(* a record with an earlier expiry never replaces the stored one *)
Theorem C17_ttl_monotone :
  forall c s r old t t',
  find_rec (r_key r) (recs s) = Some old -> r_exp old = Some t -> r_exp r = Some t' ->
  t' < t -> put c s r = s.
Proof. exact put_ttl_monotone. Qed.
Print Assumptions C17_ttl_monotone.

(* complete functional description of put on the record map *)
Theorem C17_put_lookup :
  forall c s r,
  find_rec (r_key r) (recs (put c s r)) =
    (if max_size c <=? r_len r then find_rec (r_key r) (recs s)
     else match find_rec (r_key r) (recs s) with
          | Some old =>
              match r_exp old, r_exp r with
              | Some t_old, Some t_new => if t_new <? t_old then Some old else Some r
              | _, _ => Some r
              end
          | None => if max_records c <=? N.of_nat (length (recs s)) then None else Some r
          end).
Proof. exact put_lookup. Qed.
Print Assumptions C17_put_lookup.

Theorem C17_put_other :
  forall c s r k, k <> r_key r ->
  find_rec k (recs (put c s r)) = find_rec k (recs s) /\
  pkeys (put c s r) = pkeys s /\ locals (put c s r) = locals s.
Proof. exact put_other. Qed.
Print Assumptions C17_put_other.

(* Refinement: put_provider = "delete the provider's old entry, insert in distance order,
   keep the max_providers_per_key closest"; the returned flag says whether it was kept. *)
Theorem C17_put_provider_spec :
  forall c s k pid dist naddr now ps,
  Inv c s -> 1 <= max_per_key c -> find_pk k (pkeys s) = Some ps ->
  let pr := mkProv pid dist (N.min naddr (max_addrs c)) (now + ttl c) in
  let '(s', ok) := put_provider c s k pid dist naddr now in
  find_pk k (pkeys s') = Some (spec_put (N.to_nat (max_per_key c)) pr ps) /\
  ok = existsb (fun p => (p_dist p =? dist) && (p_id p =? pid))
               (spec_put (N.to_nat (max_per_key c)) pr ps) /\
  (forall k', k' <> k -> find_pk k' (pkeys s') = find_pk k' (pkeys s)) /\
  recs s' = recs s /\ locals s' = locals s.
Proof. exact put_provider_spec. Qed.
Print Assumptions C17_put_provider_spec.

(* one entry per provider: when every operation carries the distance d(key, provider) the hashes
   prescribe and d is injective in the provider (distinct peers, distinct hashes), no provider
   is stored twice under a key after any history — a re-announcement updates in place *)
Theorem C17_no_provider_twice :
  forall (d : N -> N -> N) c h,
  1 <= max_per_key c -> (forall k a b, d k a = d k b -> a = b) -> history_consistent d h ->
  Forall (fun kp => NoDup (map p_id (snd kp))) (pkeys (final c h)).
Proof. exact no_provider_twice. Qed.
Print Assumptions C17_no_provider_twice.

(* non-vacuity: a concrete non-trivial history reaches a state with a full provider list *)
Example C17_nonvacuous :
  let c := mkCfg 2 10 2 1 2 100 in
  let h := [(OPutProvider 7 1 30 3, 1); (OPutProvider 7 2 10 0, 2); (OPutProvider 7 3 20 0, 3);
            (OPut (mkRec 5 1 9 (Some 50)), 4); (OPut (mkRec 5 2 9 (Some 40)), 5)] in
  map p_id (match find_pk 7 (pkeys (final c h)) with Some l => l | None => [] end) = [2; 3] /\
  map r_val (recs (final c h)) = [1].
Proof. vm_compute. split; reflexivity. Qed.

(* The default configuration (constants regenerated from config.rs on every run) satisfies the
   hypothesis of the bounds theorem. *)
Theorem C17_default_config :
  forall ttl h,
  Inv (mkCfg V.gen.Consts.DEFAULT_MAX_RECORDS V.gen.Consts.DEFAULT_MAX_RECORD_SIZE_BYTES
             V.gen.Consts.DEFAULT_MAX_PROVIDER_KEYS V.gen.Consts.DEFAULT_MAX_PROVIDER_ADDRESSES
             V.gen.Consts.DEFAULT_MAX_PROVIDERS_PER_KEY ttl)
      (final (mkCfg V.gen.Consts.DEFAULT_MAX_RECORDS V.gen.Consts.DEFAULT_MAX_RECORD_SIZE_BYTES
             V.gen.Consts.DEFAULT_MAX_PROVIDER_KEYS V.gen.Consts.DEFAULT_MAX_PROVIDER_ADDRESSES
             V.gen.Consts.DEFAULT_MAX_PROVIDERS_PER_KEY ttl) h).
Proof. exact default_config_inv. Qed.
Print Assumptions C17_default_config.
