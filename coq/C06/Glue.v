(* C06 — wire formats and oracles. Six kinds of cases, told apart by the first number:

     (no tag)  a history of the shared manager model (coq/Mgr/Glue.v), C06 oracle;
     9600      the ConnectionLimits object alone (coq/Mgr/Limits.v): a configuration built by a
               sequence of builder calls, then any sequence of method calls;
     9601      PeerState alone (coq/Mgr/PeerTable.v): any start state, any sequence of method calls;
     9602      a history of the manager model, with the log of the calls the manager makes on its
               ConnectionLimits after every step (Limits.lim_ops / lim_log) and environment
               choices the manager must ignore (results of reject / accept_pending /
               reject_pending);
     9603      real loopback sockets: what the real TcpTransport / WebSocketTransport do with a
               connection the owner accepts or rejects, seen from the remote end;
     9604      complete Litep2p nodes over real sockets, configured and observed through the public
               API; expected answers computed by the manager model.

   prop_ok judges what the property text demands on the trace alone; the agreement of trace and
   model (including the call log) is the correspondence check. Definitions only. *)
From Coq Require Import List NArith Bool.
From V.common Require Import Wire.
From V.Mgr Require Import DialShape Model Glue Limits PeerTable.
Import ListNotations.
Open Scope N_scope.

Definition TAG_LIMITS : N := 9600.
Definition TAG_PEER : N := 9601.
Definition TAG_WRAPPED : N := 9602.
Definition TAG_SOCK : N := 9603.
Definition TAG_E2E : N := 9604.

(* ======================= 9600: the ConnectionLimits object ======================= *)
Definition p_cfg_call : parser cfg_call :=
  let* side := pN in let* v := pN in
  if side =? 0 then pret (SetIn (dec_opt v)) else if side =? 1 then pret (SetOut (dec_opt v)) else pfail.

Definition p_lop : parser lop :=
  let* tag := pN in
  match tag with
  | 0 => pret LDial
  | 1 => pret LIncoming
  | 2 => let* b := pBool in pret (LCan b)
  | 3 => let* c := pN in let* b := pBool in pret (LAccept c b)
  | 4 => let* c := pN in pret (LClosed c)
  | _ => pfail
  end.

Definition decode_limits (l : list N) : option (list cfg_call * list lop) :=
  pall (let* ks := plist p_cfg_call in let* ops := plist p_lop in pret (ks, ops)) l.

Definition enc_lres (r : lres) : list N :=
  match r with
  | LOk => [0; 0] | LCap None => [1; 0] | LCap (Some k) => [2; k] | LErrIn => [3; 0] | LErrOut => [4; 0]
  end.
Definition enc_lop (o : lop) : list N :=
  match o with
  | LDial => [0; 0; 0] | LIncoming => [1; 0; 0] | LCan b => [2; Wire.b2n b; 0]
  | LAccept c b => [3; c; Wire.b2n b] | LClosed c => [4; c; 0]
  end.
Definition enc_set (s : list N) : list N := enc_list (fun k => [k]) (sort_by (fun k => k) s).
Definition enc_lim (l : lim) : list N := enc_set (lin l) ++ enc_set (lout l).

Fixpoint limits_trace (l : lim) (ops : list lop) : list N :=
  match ops with
  | [] => []
  | o :: t => let '(l', r) := lim_step l o in enc_lres r ++ enc_lim l' ++ limits_trace l' t
  end.

Definition run_limits (body : list N) : list N :=
  match decode_limits body with
  | Some (ks, ops) =>
      let c := cfg_build ks in
      1 :: enc_opt (fst c) :: enc_opt (snd c) :: limits_trace (lim_new c) ops
  | None => [0]
  end.

(* oracle: the observed object (configuration read back, result and both sets after every call) *)
Record lobs := mkLobs { lo_res : N * N; lo_in : list N; lo_out : list N }.
Definition p_lobs : parser lobs :=
  let* a := pN in let* b := pN in let* i := plist pN in let* o := plist pN in pret (mkLobs (a, b) i o).

Definition sub_of (a b : list N) : bool := forallb (fun x => mem x b) a.
Definition same_set (a b : list N) : bool := sub_of a b && sub_of b a.
Definition len (l : list N) : N := N.of_nat (length l).

(* one call judged on what was observed before and after it; `g`: the call sequence so far follows
   the calling discipline (an accept right after a successful check of the same direction) *)
Definition lstep_ok (mi mo : option N) (pi po : list N) (prev_can : option bool) (o : lop) (x : lobs) : bool :=
  let i := lo_in x in let u := lo_out x in
  nodupb i && nodupb u &&
  (* an unlimited direction is never counted *)
  (match mi with None => is_nil i | Some _ => true end) &&
  (match mo with None => is_nil u | Some _ => true end) &&
  match o with
  | LDial =>
      same_set i pi && same_set u po &&
      match mo, lo_res x with
      | None, (1, _) => true
      | Some mx, (2, k) => (1 <=? k) && (k + len po =? mx)
      | Some mx, (4, _) => mx <=? len po
      | _, _ => false
      end
  | LIncoming | LCan true =>
      same_set i pi && same_set u po &&
      match mi, lo_res x with
      | None, (0, _) => true
      | Some mx, (0, _) => len pi <? mx
      | Some mx, (3, _) => mx <=? len pi
      | _, _ => false
      end
  | LCan false =>
      same_set i pi && same_set u po &&
      match mo, lo_res x with
      | None, (0, _) => true
      | Some mx, (0, _) => len po <? mx
      | Some mx, (4, _) => mx <=? len po
      | _, _ => false
      end
  | LAccept c lst =>
      (* only the set of its direction may change, and only by c *)
      (if lst then same_set u po && sub_of pi i && sub_of i (c :: pi)
       else same_set i pi && sub_of po u && sub_of u (c :: po)) &&
      (* after a successful check the maximum holds and the connection is counted *)
      match prev_can with
      | Some d =>
          if Bool.eqb d lst then
            (if lst then match mi with Some mx => mem c i && (len i <=? mx) | None => true end
             else match mo with Some mx => mem c u && (len u <=? mx) | None => true end)
          else true
      | None => true
      end
  | LClosed c =>
      (* exactly c leaves, from both sets *)
      same_set i (set_remove c pi) && same_set u (set_remove c po)
  end.

Fixpoint limits_ok (mi mo : option N) (pi po : list N) (prev_can : option bool) (ops : list lop) (xs : list lobs) : bool :=
  match ops, xs with
  | [], [] => true
  | o :: ops', x :: xs' =>
      lstep_ok mi mo pi po prev_can o x &&
      limits_ok mi mo (lo_in x) (lo_out x)
                (match o, lo_res x with LCan d, (0, _) => Some d | _, _ => None end) ops' xs'
  | _, _ => false
  end.

Definition prop_ok_limits (body trace : list N) : bool :=
  match decode_limits body with
  | Some (ks, ops) =>
      match trace with
      | 1 :: ci :: co :: rest =>
          (* the builder: a side holds the argument of the last call for it *)
          (ci =? enc_opt (fst (cfg_build ks))) && (co =? enc_opt (snd (cfg_build ks))) &&
          match pall (prep (length ops) p_lobs) rest with
          | Some xs => limits_ok (dec_opt ci) (dec_opt co) [] [] None ops xs
          | None => false
          end
      | _ => false
      end
  | None => match trace with [0] => true | _ => false end
  end.

(* ======================= 9601: PeerState ======================= *)
Definition p_addr : parser addr := let* b := pN in let* s := pN in pret (b, dec_opt s).
Definition p_rrec : parser rrec := let* c := pN in let* a := p_addr in pret (c, a).

Definition p_rstate : parser rstate :=
  let* tag := pN in
  match tag with
  | 0 => pret (RDisconnected None)
  | 1 => let* r := p_rrec in pret (RDisconnected (Some r))
  | 2 => let* r := p_rrec in pret (RDialing r)
  | 3 => let* c := pN in let* k := pN in let* a := plist p_addr in
         if k <? 4 then pret (ROpening a c (inst_of_mask k)) else pfail
  | 4 => let* r := p_rrec in pret (RConnected r None)
  | 5 => let* r := p_rrec in let* s := p_rrec in pret (RConnected r (Some (RSecEst s)))
  | 6 => let* r := p_rrec in let* d := p_rrec in pret (RConnected r (Some (RSecDial d)))
  | _ => pfail
  end.

(* records handed in by the manager go through ConnectionRecord::new / from_endpoint for peer p *)
Definition p_pop (p : peer) : parser pop :=
  let* tag := pN in
  match tag with
  | 0 => pret PCanDial
  | 1 => let* c := pN in let* a := p_addr in pret (PDialSingle (rec_new p a c))
  | 2 => let* c := pN in let* k := pN in let* a := plist p_addr in
         if k <? 4 then pret (PDialAddrs c a (inst_of_mask k)) else pfail
  | 3 => let* c := pN in pret (PDialFailure c)
  | 4 => let* c := pN in let* a := p_addr in let* via := pN in pret (PEstablished (rec_new p a c))
  | 5 => let* c := pN in pret (PClosed c)
  | 6 => let* t := pN in if t <? 2 then pret (POpenFailure t) else pfail
  | 7 => let* c := pN in let* a := p_addr in pret (POpened (rec_new p a c))
  | _ => pfail
  end.

Definition decode_peer (l : list N) : option (peer * rstate * list pop) :=
  pall (let* p := pN in let* s := p_rstate in let* ops := plist (p_pop p) in pret (p, s, ops)) l.

Definition enc_addr (a : addr) : list N := [fst a; enc_opt (snd a)].
Definition enc_rrec (r : rrec) : list N := fst r :: enc_addr (snd r).
Definition addr_key (a : addr) : N := fst a * 1000 + enc_opt (snd a).
Fixpoint dedup_adj (l : list addr) : list addr :=
  match l with
  | a :: ((b :: _) as t) => if addr_key a =? addr_key b then dedup_adj t else a :: dedup_adj t
  | _ => l
  end.
Definition enc_rstate (s : rstate) : list N :=
  match s with
  | RDisconnected None => [0]
  | RDisconnected (Some r) => 1 :: enc_rrec r
  | RDialing r => 2 :: enc_rrec r
  | ROpening a c ts => [3; c; tr_mask ts] ++ enc_list enc_addr (dedup_adj (sort_by addr_key a))
  | RConnected r None => 4 :: enc_rrec r
  | RConnected r (Some (RSecEst s2)) => 5 :: enc_rrec r ++ enc_rrec s2
  | RConnected r (Some (RSecDial d)) => 6 :: enc_rrec r ++ enc_rrec d
  end.

Fixpoint peer_trace (s : rstate) (ops : list pop) : list N :=
  match ops with
  | [] => []
  | o :: t => let '(s', r) := pstep s o in r :: enc_rstate s' ++ peer_trace s' t
  end.

Definition run_peer (body : list N) : list N :=
  match decode_peer body with
  | Some (p, s, ops) => 1 :: peer_trace s ops
  | None => [0]
  end.

(* oracle on the observed states: the slots (established records, primary first) *)
Fixpoint rrec_list_eqb (a b : list rrec) : bool :=
  match a, b with
  | [], [] => true
  | x :: a', y :: b' => nlist_eqb (enc_rrec x) (enc_rrec y) && rrec_list_eqb a' b'
  | _, _ => false
  end.

Definition pstep_ok (prev : rstate) (o : pop) (res : N) (cur : rstate) : bool :=
  (* never more than two slots (by construction of the state) and: *)
  match o with
  | PEstablished n =>
      if res =? 1 then
        (* accepted: the record is stored in the first free slot, the others are untouched *)
        rrec_list_eqb (slots cur) (slots prev ++ [n])
      else
        (* refused: only when both slots are taken, or one is taken and the other is reserved for a
           dial in flight with another id; nothing changes *)
        nlist_eqb (enc_rstate cur) (enc_rstate prev) &&
        ((N.of_nat (length (slots prev)) =? 2) ||
         ((N.of_nat (length (slots prev)) =? 1) &&
          match dial_of prev with Some d => negb (fst d =? fst n) | None => false end))
  | PClosed c =>
      rrec_list_eqb (slots cur) (remove_first_rec c (slots prev)) &&
      (* ConnectionClosed is reported exactly when the last connection goes *)
      Bool.eqb (res =? 1)
               (match slots prev with [r] => fst r =? c | _ => false end)
  | _ => rrec_list_eqb (slots cur) (slots prev)
  end.

Fixpoint p_ptrace (n : nat) : parser (list (N * rstate)) :=
  match n with
  | O => pret []
  | S k => let* r := pN in let* s := p_rstate in let* t := p_ptrace k in pret ((r, s) :: t)
  end.

Fixpoint peer_ok (prev : rstate) (ops : list pop) (xs : list (N * rstate)) : bool :=
  match ops, xs with
  | [], [] => true
  | o :: ops', (r, s) :: xs' => pstep_ok prev o r s && peer_ok s ops' xs'
  | _, _ => false
  end.

Definition prop_ok_peer (body trace : list N) : bool :=
  match decode_peer body with
  | Some (p, s, ops) =>
      match trace with
      | 1 :: rest =>
          match pall (p_ptrace (length ops)) rest with
          | Some xs => peer_ok s ops xs
          | None => false
          end
      | _ => false
      end
  | None => match trace with [0] => true | _ => false end
  end.

(* ======================= 9602: manager history with the limits call log ======================= *)
Definition enc_lentry (x : lop * lres) : list N := enc_lop (fst x) ++ enc_lres (snd x).

Fixpoint run_trace6 (L : limits) (m : mgr) (es : list ev) : list N :=
  match es with
  | [] => []
  | e :: t =>
      let '(m1, os) := step L m e in
      enc_outs os ++ dump m1 ++ enc_list enc_lentry (lim_log (lim_of L m) (lim_ops L m e)) ++
      (if stuck_of os =? 0 then run_trace6 L m1 t else [])
  end.

(* body = environment mask :: manager case *)
Definition run_wrapped (body : list N) : list N :=
  match body with
  | _ :: mcase =>
      match decode_case mcase with
      | Some (L, es) => 1 :: run_trace6 L init es
      | None => [0]
      end
  | [] => [0]
  end.

Definition p_lentry : parser (list N) :=
  let* a := pN in let* b := pN in let* c := pN in let* d := pN in let* e := pN in pret [a; b; c; d; e].

Fixpoint p_trace6 (n : nat) : parser (list obs) :=
  match n with
  | O => pret []
  | S k => fun l => match l with
                    | [] => Some ([], [])
                    | _ => (let* o := p_obs in let* lg := plist p_lentry in let* t := p_trace6 k in pret (o :: t)) l
                    end
  end.

(* every established connection delivered by an installed transport is answered by exactly one of
   accept(c) / reject(c), every pending inbound socket by exactly one of accept_pending(c) /
   reject_pending(c) (a step that panicked is not judged) *)
Fixpoint answered_ok (L : limits) (es : list ev) (tr : list obs) : bool :=
  match es, tr with
  | e :: es', o :: tr' =>
      (if o_stuck o =? 0 then
         match e with
         | TrEstablished _ c t _ _ =>
             if installed L t then xorb (has_call 5 c o) (has_call 6 c o)
             else negb (has_call 5 c o) && negb (has_call 6 c o)
         | TrPendingInbound c t =>
             if installed L t then xorb (has_call 7 c o) (has_call 8 c o) else true
         | _ => true
         end
       else true) && answered_ok L es' tr'
  | _, _ => true
  end.

Definition prop_ok_wrapped (body trace : list N) : bool :=
  match body with
  | _ :: mcase =>
      match decode_case mcase with
      | Some (L, es) =>
          match trace with
          | 1 :: rest =>
              match pall (p_trace6 (length es)) rest with
              | Some tr => c06_ok L None es tr [] [] [] && answered_ok L es tr
              | None => false
              end
          | _ => false
          end
      | None => match trace with [0] => true | _ => false end
      end
  | [] => match trace with [0] => true | _ => false end
  end.

(* ======================= 9603: real sockets: what accept / reject do to a connection ==========
   case body: transport (0 tcp, 1 websocket, 2 quic), then per connection (kind, d1, d2):
     kind 0 inbound (remote node dials):  d1: 1 accept_pending / 0 reject_pending; d2: 1 accept / 0 reject
     kind 1 outbound (local dial):        d2 likewise
     kind 2 bare inbound socket:          reject_pending
   trace per connection: pending seen, result of the first call (d1 call; dial for kind 1),
   established seen, result of the d2 call, `again` (number of Ok among a further reject_pending(c)
   and reject(c)), remote end saw the connection go away, events emitted for c after the decision *)
Definition sock_accepted (kind d1 d2 : N) : bool :=
  match kind with
  | 0 => negb (d1 =? 0) && negb (d2 =? 0)
  | 1 => negb (d2 =? 0)
  | _ => false
  end.
Definition sock_expect (kind d1 d2 : N) : list N :=
  let pend := if kind =? 1 then 0 else 1 in
  let est := if kind =? 1 then 1 else if kind =? 0 then (if d1 =? 0 then 0 else 1) else 0 in
  [pend; 1; est; est; 0; if sock_accepted kind d1 d2 then 0 else 1; 0].

Definition p_sock_conn : parser (N * N * N) :=
  let* k := pN in let* a := pN in let* b := pN in
  if (k <? 3) && (a <? 2) && (b <? 2) && negb ((k =? 2) && negb (a =? 0)) then pret (k, a, b) else pfail.
(* transport 2 = QUIC (harness built with the quic feature): no bare sockets there *)
Definition decode_sock (l : list N) : option (N * list (N * N * N)) :=
  pall (let* tr := pN in let* cs := plist p_sock_conn in
        if (tr <? 2) || ((tr =? 2) && forallb (fun x : N * N * N => negb (fst (fst x) =? 2)) cs)
        then pret (tr, cs) else pfail) l.

Definition run_sock (body : list N) : list N :=
  match decode_sock body with
  | Some (_, cs) => 1 :: flat_map (fun x : N * N * N => sock_expect (fst (fst x)) (snd (fst x)) (snd x)) cs ++ [0]
  | None => [0]
  end.

Definition p_sock_obs : parser (list N) :=
  let* a := pN in let* b := pN in let* c := pN in let* d := pN in let* e := pN in let* f := pN in let* g := pN in
  pret [a; b; c; d; e; f; g].

(* a rejected connection is gone for the remote end, its entry is consumed, and nothing more is
   reported about it; an accepted one is not disturbed *)
Definition sock_conn_ok (x : N * N * N) (o : list N) : bool :=
  let '(k, d1, d2) := x in
  match o with
  | [pend; r1; est; r2; again; closed; later] =>
      (* judged when the environment delivered the events the script waits for *)
      if nlist_eqb [pend; r1; est; r2] (firstn 4 (sock_expect k d1 d2)) then
        (later =? 0) && (again =? 0) &&
        (if sock_accepted k d1 d2 then closed =? 0 else closed =? 1)
      else true
  | _ => false
  end.

Fixpoint sock_ok (cs : list (N * N * N)) (os : list (list N)) : bool :=
  match cs, os with
  | [], [] => true
  | x :: cs', o :: os' => sock_conn_ok x o && sock_ok cs' os'
  | _, _ => false
  end.

Definition prop_ok_sock (body trace : list N) : bool :=
  match decode_sock body with
  | Some (_, cs) =>
      match trace with
      | 1 :: rest =>
          (* the last number: accepted connections that were seen closing by the end of the case *)
          match pall (let* os := prep (length cs) p_sock_obs in let* disturbed := pN in pret (os, disturbed)) rest with
          | Some (os, disturbed) => sock_ok cs os && (disturbed =? 0)
          | None => false
          end
      | _ => false
      end
  | None => match trace with [0] => true | _ => false end
  end.

(* ======================= 9604: complete nodes over real sockets =======================
   case body: max_in, max_out (enc_opt), then operations (kind, p) on remote nodes p = 1..4:
     0 p  remote p dials the node   -> [node reports ConnectionEstablished(p); what the remote saw:
                                        1 open, 2 established then closed, 3 its dial failed]
     1 p  the node dials remote p   -> [result of Litep2p::dial_address (0 Ok, 1 ConnectionLimit, ..);
                                        node reports ConnectionEstablished(p)]
     2 p  remote p is killed        -> [node reports ConnectionClosed(p); 0]
   The expected answers are those of the MANAGER MODEL on the translation of each operation into
   manager events (only TCP installed; the remote's address is the canonical one). *)
Definition e2e_L (mi mo : N) : limits := mkLimits (dec_opt mi) (dec_opt mo) [TCP].

Definition has_out (f : out -> bool) (os : list out) : bool := existsb f os.
Definition is_reject_pending (o : out) : bool := match o with CallRejectPending _ _ => true | _ => false end.
Definition is_reject (o : out) : bool := match o with CallReject _ _ => true | _ => false end.
Definition is_established (o : out) : bool := match o with EvEstablished _ _ => true | _ => false end.
Definition is_closed (o : out) : bool := match o with EvClosed _ _ => true | _ => false end.

(* one operation on the model: new manager state, the connections the node has (peer -> id), answer *)
Definition e2e_op (L : limits) (m : mgr) (conns : list (N * N)) (kind p : N) : mgr * list (N * N) * list N :=
  match kind with
  | 0 =>
      let c := next_conn m in
      let '(m1, _) := step L m AllocConn in
      let '(m2, o2) := step L m1 (TrPendingInbound c TCP) in
      if has_out is_reject_pending o2 then (m2, conns, [0; 3])
      else
        let '(m3, o3) := step L m2 (TrEstablished p c TCP true false) in
        if has_out is_reject o3 then (m3, conns, [0; 2])
        else
          let '(m4, o4) := step L m3 (AcceptDone c true) in
          if has_out is_established o4 then (m4, insert_key p c conns, [1; 1]) else (m4, conns, [0; 1])
  | 1 =>
      let c := next_conn m in
      let '(m1, o1) := step L m (CmdDialAddr p TCP false) in
      let code := ret_of o1 - 1 in
      if code =? RET_OK then
        let '(m2, o2) := step L m1 (TrEstablished p c TCP false false) in
        if has_out is_reject o2 then (m2, conns, [code; 0])
        else
          let '(m3, o3) := step L m2 (AcceptDone c true) in
          if has_out is_established o3 then (m3, insert_key p c conns, [code; 1]) else (m3, conns, [code; 0])
      else (m1, conns, [code; 0])
  | _ =>
      match lookup p conns with
      | Some c =>
          let '(m1, o1) := step L m (Closed p c) in
          (m1, remove_key p conns, [if has_out is_closed o1 then 1 else 0; 0])
      | None => (m, conns, [0; 0])
      end
  end.

Fixpoint e2e_trace (L : limits) (m : mgr) (conns : list (N * N)) (ops : list (N * N)) : list N :=
  match ops with
  | [] => []
  | (k, p) :: t => let '(m', conns', ans) := e2e_op L m conns k p in ans ++ e2e_trace L m' conns' t
  end.

Definition p_e2e_op : parser (N * N) :=
  let* k := pN in let* p := pN in if (k <? 3) && (1 <=? p) && (p <=? 4) then pret (k, p) else pfail.
Definition decode_e2e (l : list N) : option (N * N * list (N * N)) :=
  pall (let* mi := pN in let* mo := pN in let* ops := plist p_e2e_op in pret (mi, mo, ops)) l.

Definition run_e2e (body : list N) : list N :=
  match decode_e2e body with
  | Some (mi, mo, ops) => 1 :: e2e_trace (e2e_L mi mo) init [] ops
  | None => [0]
  end.

(* the property judged on what the public API showed: `cin` / `cout` = peers with an inbound /
   outbound connection according to the node's own ConnectionEstablished / ConnectionClosed events *)
Fixpoint e2e_ok (mi mo : option N) (cin cout : list N) (ops : list (N * N)) (obs : list (N * N)) : bool :=
  match ops, obs with
  | [], [] => true
  | (k, p) :: ops', (a, b) :: obs' =>
      let connected := mem p cin || mem p cout in
      match k with
      | 0 =>
          (* never above the maximum; below it a new peer gets in; a turned-away remote sees its
             connection go (closed, or its dial fails) *)
          (if a =? 1 then strictly_under mi (len cin) && (b =? 1)
           else (negb (strictly_under mi (len cin)) || connected) && ((b =? 2) || (b =? 3))) &&
          e2e_ok mi mo (if a =? 1 then p :: cin else cin) cout ops' obs'
      | 1 =>
          (* ConnectionLimit exactly when the outbound connections have reached the maximum *)
          (if connected then true
           else if strictly_under mo (len cout) then (a =? 0) && (b =? 1) else (a =? 1) && (b =? 0)) &&
          e2e_ok mi mo cin (if b =? 1 then p :: cout else cout) ops' obs'
      | _ =>
          Bool.eqb (a =? 1) connected &&
          e2e_ok mi mo (set_remove p cin) (set_remove p cout) ops' obs'
      end
  | _, _ => false
  end.

Definition prop_ok_e2e (body trace : list N) : bool :=
  match decode_e2e body with
  | Some (mi, mo, ops) =>
      match trace with
      | 1 :: rest =>
          match pall (prep (length ops) (let* a := pN in let* b := pN in pret (a, b))) rest with
          | Some obs => e2e_ok (dec_opt mi) (dec_opt mo) [] [] ops obs
          | None => false
          end
      | _ => false
      end
  | None => match trace with [0] => true | _ => false end
  end.

(* ======================= dispatch ======================= *)
Definition run_case (l : list N) : list N :=
  match l with
  | t :: body =>
      if t =? TAG_LIMITS then run_limits body
      else if t =? TAG_PEER then run_peer body
      else if t =? TAG_WRAPPED then run_wrapped body
      else if t =? TAG_SOCK then run_sock body
      else if t =? TAG_E2E then run_e2e body
      else V.Mgr.Glue.run_case l
  | [] => V.Mgr.Glue.run_case l
  end.

Definition prop_ok (case trace : list N) : bool :=
  match case with
  | t :: body =>
      if t =? TAG_LIMITS then prop_ok_limits body trace
      else if t =? TAG_PEER then prop_ok_peer body trace
      else if t =? TAG_WRAPPED then prop_ok_wrapped body trace
      else if t =? TAG_SOCK then prop_ok_sock body trace
      else if t =? TAG_E2E then prop_ok_e2e body trace
      else prop_ok_C06 case trace
  | [] => prop_ok_C06 case trace
  end.

Definition known_class (case trace : list N) : N := 0%N.
