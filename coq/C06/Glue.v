(* C06 — the shared manager model with the C06 oracle. *)
From Coq Require Import List NArith.
From V.Mgr Require Import Model Glue.
Definition run_case := V.Mgr.Glue.run_case.
Definition prop_ok := prop_ok_C06.
Definition known_class (case trace : list N) : N := 0%N.
