From Coq Require Import ExtrOcamlBasic.
From V.C06 Require Import Glue.
Extraction Language OCaml.
Extraction "c06_model.ml" run_case prop_ok known_class.
