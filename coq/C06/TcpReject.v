(* C06/TcpReject — what the TCP transport does with a connection the manager rejects, in the model
   of `TcpTransport` that C05 ties to the real transport (coq/Tcp): the entry is dropped (and with
   it the socket it owns), nothing is reported, and no future is left that could report about the
   connection later. New lemmas over coq/Tcp/Model.v; nothing there is changed. *)
From Coq Require Import List NArith Bool Lia.
From V.Tcp Require Import Model Proofs Theorems.
Import ListNotations.
Open Scope N_scope.

Lemma in_del x y l : In x (del y l) <-> In x l /\ x <> y.
Proof.
  unfold del. rewrite filter_In. split; intros [H1 H2]; split; auto.
  - intros ->. rewrite N.eqb_refl in H2. discriminate.
  - destruct (x =? y) eqn:E; [|reflexivity]. apply N.eqb_eq in E. contradiction.
Qed.

Definition no_event (os : list outp) : Prop := forall e, ~ In (OEv e) os.

(* reject(c): Ok exactly when a negotiated connection c was waiting for the manager's decision; the
   entry is gone afterwards, every other map and the future counter are untouched, no event *)
Theorem tcp_reject_forgets s c :
  let s' := fst (step s (EReject c)) in
  let os := snd (step s (EReject c)) in
  os = [ORet (mem c (pending_open s))] /\ no_event os /\
  ~ In c (pending_open s') /\
  (forall d, d <> c -> (In d (pending_open s') <-> In d (pending_open s))) /\
  pconn s' = pconn s /\ praw s' = praw s /\ opened s' = opened s /\
  pending_inbound s' = pending_inbound s /\ pending_dials s' = pending_dials s /\ nfut s' = nfut s.
Proof.
  cbn [step]. destruct (mem c (pending_open s)) eqn:M; cbn [fst snd].
  - repeat split; try reflexivity.
    + intros e [H|[]]. discriminate.
    + cbn. rewrite in_del. tauto.
    + cbn. rewrite in_del. tauto.
    + cbn. rewrite in_del. tauto.
  - repeat split; try reflexivity; try tauto.
    + intros e [H|[]]. discriminate.
    + intros H. unfold mem in M. assert (existsb (N.eqb c) (pending_open s) = true) as K.
      { apply existsb_exists. exists c. split; [exact H|apply N.eqb_refl]. }
      congruence.
Qed.

(* reject_pending(c): the raw inbound socket is dropped before any handshake; no future is created *)
Theorem tcp_reject_pending_forgets s c :
  let s' := fst (step s (ERejectPending c)) in
  let os := snd (step s (ERejectPending c)) in
  os = [ORet (mem c (pending_inbound s))] /\ no_event os /\
  ~ In c (pending_inbound s') /\
  pconn s' = pconn s /\ praw s' = praw s /\ pending_open s' = pending_open s /\ nfut s' = nfut s.
Proof.
  cbn [step]. destruct (mem c (pending_inbound s)) eqn:M; cbn [fst snd].
  - repeat split; try reflexivity.
    + intros e [H|[]]. discriminate.
    + cbn. rewrite in_del. tauto.
  - repeat split; try reflexivity.
    + intros e [H|[]]. discriminate.
    + intros H. unfold mem in M. assert (existsb (N.eqb c) (pending_inbound s) = true) as K.
      { apply existsb_exists. exists c. split; [exact H|apply N.eqb_refl]. }
      congruence.
Qed.

(* on a reachable state a pending inbound socket has no future at all, so after reject_pending the
   transport holds nothing that names c: it cannot report an established connection for it *)
Theorem tcp_rejected_pending_has_no_future s g c :
  reach s g -> In c (pending_inbound s) ->
  forall f k, ~ In (f, (c, k)) (pconn (fst (step s (ERejectPending c)))).
Proof.
  intros R H f k. destruct (reach_inv s g R) as [_ IC].
  pose proof (tcp_reject_pending_forgets s c) as (_ & _ & _ & E & _). cbv zeta in E. rewrite E.
  intros K. exact (c_pinb_nconn s g IC c f k H K).
Qed.

(* accept(c) consumes the same entry: a connection is handed over (accept) or dropped (reject)
   exactly once *)
Theorem tcp_accept_or_reject_once s c e :
  e = EAccept c \/ e = EReject c ->
  snd (step s e) = [ORet true] ->
  snd (step (fst (step s e)) (EAccept c)) = [ORet false] /\
  snd (step (fst (step s e)) (EReject c)) = [ORet false].
Proof.
  intros [-> | ->] H; cbn [step] in *; destruct (mem c (pending_open s)) eqn:M; try discriminate;
    cbn [fst snd pending_open set_popen];
    assert (K : mem c (del c (pending_open s)) = false)
      by (unfold mem; destruct (existsb (N.eqb c) (del c (pending_open s))) eqn:E; [|reflexivity];
          apply existsb_exists in E; destruct E as (x & Hx & Ex); apply N.eqb_eq in Ex; subst x;
          apply in_del in Hx; tauto);
    rewrite K; split; reflexivity.
Qed.
