(* C06/Compose08 — the manager model provides what C08 assumes.

   C08's theorems about TransportService quantify over "feasible" histories (coq/Ts/Model.v
   `feasible 2`): connection ids told to the protocol are fresh, at most two connections of a peer
   are open at a time, and ConnectionClosed refers to an open connection. The "at most two" part is
   C06's guarantee. Here it is proved of the composed system: the manager (coq/Mgr) together with
   the reports a protocol receives about the connections the manager accepted.

   A protocol is told ConnectionEstablished(p, c) by the accept future the transport creates when
   the manager calls accept(c) (tcp/websocket/quic `accept`: report_connection_established, then the
   connection task is spawned), and ConnectionClosed(p, c) by the connection task, which tells the
   protocols before it tells the manager (C07_order). So, in the vocabulary of Caps.v:
     * XEst p c   can happen only while c is in the manager's ledger of established connections
                  for peer p, and at most once per id (C07_accept_each_once);
     * XClosed p c only for a connection the protocol holds;
     * the manager's own Closed p c / failed AcceptDone c arrive only once the protocol no longer
       holds c (C07_order; no accept future of a node fails: C07_node_no_rollback).
   Everything else the manager does — every event of coq/Mgr, any interleaving — is unrestricted
   beyond Caps.env_ok. *)
From Coq Require Import List Arith NArith Bool Lia.
From Coq Require Import ZifyBool ZifyNat ZifyN.
From V.Mgr Require Import DialShape Model Caps.
From V.Ts Require Model Proofs.
Import ListNotations.
Open Scope N_scope.

Module T := V.Ts.Model.

Arguments N.eqb : simpl never.

(* ---------- the connection part of Ts.feasible, which only looks at the environment ---------- *)
Definition is_conn (i : T.ev) : bool := match i with T.EEst _ _ | T.EClosed _ _ => true | _ => false end.

Fixpoint conn_feasible (cap : nat) (e : T.env) (evs : list T.ev) : bool :=
  match evs with
  | [] => true
  | i :: t => T.ev_ok cap e (T.init true 0 0) i && conn_feasible cap (T.env_step e i) t
  end.

(* the rest: what the connection tasks owe (notifications refer to an open connection, answers to an
   open request); independent of the cap *)
Fixpoint feasible_rest (e : T.env) (s : T.st) (tr : list (N * T.ev)) : bool :=
  match tr with
  | [] => true
  | (dt, i) :: t => (is_conn i || T.ev_ok 0 e s i) && feasible_rest (T.env_step e i) (fst (T.step s dt i)) t
  end.

Lemma ev_ok_conn cap e s s' i : is_conn i = true -> T.ev_ok cap e s i = T.ev_ok cap e s' i.
Proof. destruct i; try discriminate; reflexivity. Qed.

Lemma ev_ok_rest cap cap' e s i : is_conn i = false -> T.ev_ok cap e s i = T.ev_ok cap' e s i.
Proof. destruct i; try discriminate; reflexivity. Qed.

Lemma env_step_rest e i : is_conn i = false -> T.env_step e i = e.
Proof. destruct i; try discriminate; reflexivity. Qed.

(* Ts.feasible splits into the two parts *)
Theorem feasible_split cap tr : forall e s,
  T.feasible cap e s tr = feasible_rest e s tr && conn_feasible cap e (filter is_conn (map snd tr)).
Proof.
  induction tr as [|[dt i] t IH]; intros e s; cbn [T.feasible feasible_rest map filter snd]; [reflexivity|].
  rewrite IH. destruct (is_conn i) eqn:C; cbn [orb conn_feasible].
  - rewrite (ev_ok_conn cap e s (T.init true 0 0) i C).
    destruct (T.ev_ok cap e (T.init true 0 0) i); cbn [andb]; [reflexivity|]. now rewrite andb_false_r.
  - rewrite (env_step_rest e i C). rewrite (ev_ok_rest cap 0 e s i C).
    destruct (T.ev_ok 0 e s i); reflexivity.
Qed.

(* ---------- the composed system ---------- *)
Inductive xev :=
| XM (e : ev)               (* the manager handles an event *)
| XEst (p : peer) (c : conn)      (* the protocol is told ConnectionEstablished(p, c) *)
| XClosed (p : peer) (c : conn).  (* the protocol is told ConnectionClosed(p, c) *)

Record xst := mkX { x_m : mgr; x_l : live_t; x_e : T.env }.
Definition x0 : xst := mkX init [] T.env0.

Definition held (e : T.env) : list conn := map snd (T.e_live e).

Definition xstep (L : limits) (s : xst) (x : xev) : xst :=
  match x with
  | XM e => mkX (fst (step L (x_m s) e)) (live_step e (snd (step L (x_m s) e)) (x_l s)) (x_e s)
  | XEst p c => mkX (x_m s) (x_l s) (T.env_step (x_e s) (T.EEst p c))
  | XClosed p c => mkX (x_m s) (x_l s) (T.env_step (x_e s) (T.EClosed p c))
  end.

Definition xok (s : xst) (x : xev) : Prop :=
  match x with
  | XM e =>
      env_ok (x_m s) (x_l s) e /\
      match e with
      | Closed _ c => ~ In c (held (x_e s))
      | AcceptDone c false => ~ In c (held (x_e s))
      | _ => True
      end
  | XEst p c => (exists b, lookup c (x_l s) = Some (p, b)) /\ ~ In c (T.e_used (x_e s))
  | XClosed p c => In (p, c) (T.e_live (x_e s))
  end.

Fixpoint xtrace (L : limits) (s : xst) (xs : list xev) : Prop :=
  match xs with [] => True | x :: t => xok s x /\ xtrace L (xstep L s x) t end.
Fixpoint xrun (L : limits) (s : xst) (xs : list xev) : xst :=
  match xs with [] => s | x :: t => xrun L (xstep L s x) t end.

(* what the protocol sees *)
Definition xproj1 (x : xev) : list T.ev :=
  match x with XM _ => [] | XEst p c => [T.EEst p c] | XClosed p c => [T.EClosed p c] end.
Definition xproj (xs : list xev) : list T.ev := flat_map xproj1 xs.

(* ---------- the invariant ---------- *)
Record XInv (L : limits) (s : xst) : Prop := {
  xi_cap : CapInv L (x_m s) (x_l s);
  xi_held_live : forall p c, In (p, c) (T.e_live (x_e s)) -> exists b, lookup c (x_l s) = Some (p, b);
  xi_held_nodup : NoDup (held (x_e s));
  xi_held_used : forall c, In c (held (x_e s)) -> In c (T.e_used (x_e s))
}.

Lemma xinv0 L : XInv L x0.
Proof. split; cbn; [apply cap_init | intros p c [] | constructor | intros c []]. Qed.

Lemma lookup_remove_key_other {A} (k k' : N) (l : list (N * A)) :
  k' <> k -> lookup k' (remove_key k l) = lookup k' l.
Proof.
  intros H. induction l as [|[a v] t IH]; cbn [remove_key lookup]; [reflexivity|].
  destruct (a =? k) eqn:E.
  - rewrite IH. destruct (a =? k') eqn:E'; [lia|reflexivity].
  - cbn [lookup]. now rewrite IH.
Qed.

Lemma held_in e p c : In (p, c) (T.e_live e) -> In c (held e).
Proof. intros H. unfold held. apply in_map_iff. exists (p, c). split; [reflexivity|exact H]. Qed.

(* the manager's step keeps every connection the protocol holds in the ledger *)
Lemma live_step_keeps e os l c q b :
  lookup c l = Some (q, b) ->
  match e with
  | TrEstablished _ c' _ _ _ => lookup c' l = None
  | Closed _ c' => c' <> c
  | AcceptDone c' false => c' <> c
  | _ => True
  end ->
  lookup c (live_step e os l) = Some (q, b).
Proof.
  intros Hl He. destruct e; cbn [live_step]; try exact Hl.
  - destruct (existsb _ _ && negb _); [|exact Hl]. cbn [lookup].
    destruct (c0 =? c) eqn:E; [|exact Hl]. assert (c0 = c) by lia. subst. congruence.
  - destruct ok; [exact Hl|]. rewrite lookup_remove_key_other; [exact Hl | congruence].
  - rewrite lookup_remove_key_other; [exact Hl | congruence].
Qed.

Lemma filter_key_in (p c : N) (k : T.key) l :
  In k (filter (fun k => negb (T.key_eqb k (p, c))) l) -> In k l.
Proof. intros H. apply filter_In in H. tauto. Qed.

Lemma nodup_map_filter {A B} (f : A -> B) (g : A -> bool) l : NoDup (map f l) -> NoDup (map f (filter g l)).
Proof.
  induction l as [|x t IH]; cbn [map filter]; intros H; [constructor|].
  inversion H as [|? ? N1 N2]; subst. destruct (g x); [|auto]. cbn [map]. constructor; [|auto].
  intros K. apply N1. apply in_map_iff in K. destruct K as (y & E & Hy). apply filter_In in Hy.
  apply in_map_iff. exists y. tauto.
Qed.

Theorem xinv_step L s x : XInv L s -> xok s x -> XInv L (xstep L s x).
Proof.
  intros [IC IL IN IU] OK. destruct x as [e|p c|p c]; cbn [xstep xok] in *.
  - destruct OK as [OK1 OK2]. split; cbn [x_m x_l x_e]; [now apply cap_step| |exact IN|exact IU].
    intros p c Hin. destruct (IL p c Hin) as [b Hb]. exists b.
    apply live_step_keeps; [exact Hb|].
    destruct e; try exact I.
    + exact OK1.
    + destruct ok; [exact I|]. intros ->. apply OK2. eapply held_in; eauto.
    + intros ->. apply OK2. eapply held_in; eauto.
  - destruct OK as [[b Hb] Hfresh]. split; cbn [x_m x_l x_e T.env_step T.e_live T.e_used]; [exact IC| | |].
    + intros q d Hin. apply in_app_or in Hin. destruct Hin as [Hin|[E|[]]]; [now apply IL|].
      injection E as <- <-. eauto.
    + unfold held. cbn [T.e_live]. rewrite map_app. cbn [map snd].
      assert (K : forall (l : list conn) x, NoDup l -> ~ In x l -> NoDup (l ++ [x])).
      { induction l as [|y t IHt]; cbn [app]; intros x0 N H.
        - constructor; [intros []|constructor].
        - inversion N as [|? ? N1 N2]; subst. constructor.
          + intros K. apply in_app_or in K. destruct K as [K|[K|[]]]; [now apply N1|]. subst. apply H. now left.
          + apply IHt; [exact N2|]. intros K. apply H. now right. }
      apply K; [exact IN|]. intros H. apply Hfresh. now apply IU.
    + intros d Hd. unfold held in Hd. cbn [T.e_live] in Hd. rewrite map_app in Hd. cbn [map snd] in Hd.
      apply in_app_or in Hd. destruct Hd as [Hd|[<-|[]]]; [right; now apply IU | now left].
  - split; cbn [x_m x_l x_e T.env_step T.e_live T.e_used]; [exact IC| | |].
    + intros q d Hin. apply filter_key_in in Hin. now apply IL.
    + unfold held. cbn [T.e_live]. now apply nodup_map_filter.
    + intros d Hd. unfold held in Hd. cbn [T.e_live] in Hd. apply in_map_iff in Hd.
      destruct Hd as ([q d'] & E & Hin). cbn [snd] in E. subst d'. apply filter_key_in in Hin.
      apply IU. eapply held_in; eauto.
Qed.

Theorem xinv_run L xs : forall s, XInv L s -> xtrace L s xs -> XInv L (xrun L s xs).
Proof.
  induction xs as [|x t IH]; intros s I H; cbn [xrun]; [exact I|].
  destruct H as [H1 H2]. apply IH; [now apply xinv_step | exact H2].
Qed.

(* ---------- the protocol never holds more than two connections of a peer ---------- *)
Lemma live_of_in p c l : In c (T.live_of p l) <-> In (p, c) l.
Proof.
  unfold T.live_of. rewrite in_map_iff. split.
  - intros ([q d] & E & Hin). cbn [snd] in E. subst d. apply filter_In in Hin. destruct Hin as [Hin Hq].
    cbn [fst] in Hq. assert (q = p) by lia. now subst.
  - intros H. exists (p, c). split; [reflexivity|]. apply filter_In. split; [exact H|]. cbn [fst]. lia.
Qed.

Lemma live_of_nodup p l : NoDup (map snd l) -> NoDup (T.live_of p l).
Proof. intros H. unfold T.live_of. now apply nodup_map_filter. Qed.

Lemma in_of_peer_keys p c b l : NoDup (keys l) -> lookup c l = Some (p, b) -> In c (keys (of_peer p l)).
Proof.
  intros _ H. unfold keys. apply in_map_iff. exists (c, (p, b)). split; [reflexivity|].
  unfold of_peer. apply filter_In. split; [|cbn [fst snd]; lia].
  clear -H. induction l as [|[k v] t IH]; cbn [lookup] in H; [discriminate|].
  destruct (k =? c) eqn:E; [injection H as ->; left; f_equal; lia | right; auto].
Qed.

Theorem held_at_most_two L s p : XInv L s -> (length (T.live_of p (T.e_live (x_e s))) <= 2)%nat.
Proof.
  intros [IC IL IN IU].
  assert (ND : NoDup (keys (x_l s))) by (destruct IC; assumption).
  assert (I1 : incl (T.live_of p (T.e_live (x_e s))) (keys (of_peer p (x_l s)))).
  { intros c Hc. apply live_of_in in Hc. destruct (IL p c Hc) as [b Hb]. eapply in_of_peer_keys; eauto. }
  pose proof (NoDup_incl_length (live_of_nodup p _ IN) I1) as K.
  pose proof (two_per_peer L (x_m s) (x_l s) p IC) as K2.
  assert (EL : length (keys (of_peer p (x_l s))) = length (of_peer p (x_l s))) by apply map_length.
  lia.
Qed.

(* a further ConnectionEstablished is told only while the protocol holds fewer than two *)
Theorem est_below_two L s p c :
  XInv L s -> xok s (XEst p c) -> (length (T.live_of p (T.e_live (x_e s))) < 2)%nat.
Proof.
  intros I OK. pose proof (xinv_step L s (XEst p c) I OK) as I'.
  pose proof (held_at_most_two L _ p I') as K. cbn [xstep x_e T.env_step T.e_live] in K.
  unfold T.live_of in K. rewrite filter_app, map_app, app_length in K. cbn [filter fst] in K.
  assert (p =? p = true) as E by lia. rewrite E in K. cbn [map length] in K.
  unfold T.live_of, T.key in *. lia.
Qed.

Lemma existsb_key_in p c l : In (p, c) l -> existsb (T.key_eqb (p, c)) l = true.
Proof.
  intros H. apply existsb_exists. exists (p, c). split; [exact H|]. unfold T.key_eqb. cbn [fst snd]. lia.
Qed.

Lemma existsb_used c l : ~ In c l -> existsb (N.eqb c) l = false.
Proof.
  intros H. destruct (existsb (N.eqb c) l) eqn:E; [|reflexivity].
  apply existsb_exists in E. destruct E as (x & Hx & Ex). exfalso. apply H. assert (c = x) by lia. now subst.
Qed.

(* The connection part of C08's environment assumption holds along every history of the composed
   system. *)
Theorem provides_conn_feasible L xs : forall s,
  XInv L s -> xtrace L s xs -> conn_feasible 2 (x_e s) (xproj xs) = true.
Proof.
  induction xs as [|x t IH]; intros s I H; [reflexivity|].
  destruct H as [H1 H2]. pose proof (xinv_step L s x I H1) as I'. specialize (IH _ I' H2).
  unfold xproj in *. cbn [flat_map]. destruct x as [e|p c|p c]; cbn [xproj1 app].
  - exact IH.
  - cbn [conn_feasible T.ev_ok]. cbn [xstep x_e] in IH. rewrite IH.
    pose proof (est_below_two L s p c I H1) as K. destruct H1 as [_ Hf].
    rewrite (existsb_used _ _ Hf). cbn [negb andb].
    apply andb_true_iff. split; [|reflexivity]. apply Nat.ltb_lt. exact K.
  - cbn [conn_feasible T.ev_ok]. cbn [xstep x_e] in IH. rewrite IH.
    cbn [xok] in H1. now rewrite (existsb_key_in _ _ _ H1).
Qed.

(* Discharging C08's hypothesis: a TransportService history whose connection events are the
   reports of a composed manager history, and whose other events satisfy their own part of the
   environment assumption, is feasible in C08's sense. *)
Theorem provides_feasible L xs tr ka T0 n0 :
  xtrace L x0 xs ->
  filter is_conn (map snd tr) = xproj xs ->
  feasible_rest T.env0 (T.init ka T0 n0) tr = true ->
  T.feasible 2 T.env0 (T.init ka T0 n0) tr = true.
Proof.
  intros HX HP HR. rewrite feasible_split, HR, HP. cbn [andb].
  exact (provides_conn_feasible L xs x0 (xinv0 L) HX).
Qed.

(* ... so C08's conclusions hold for the composed system with no assumption about the number of
   connections left: e.g. the connection events a protocol sees for a peer strictly alternate
   (Established, Closed, Established, ...), starting with Established. *)
Module TP := V.Ts.Proofs.
Theorem composed_alternation L xs tr ka T0 n0 q :
  xtrace L x0 xs ->
  filter is_conn (map snd tr) = xproj xs ->
  feasible_rest T.env0 (T.init ka T0 n0) tr = true ->
  TP.alternates false (TP.conn_evs q (concat (T.run (T.init ka T0 n0) tr))).
Proof.
  intros HX HP HR.
  exact (TP.alternation tr T.env0 (T.init ka T0 n0) q TP.conn_inv_init (provides_feasible L xs tr ka T0 n0 HX HP HR)).
Qed.

(* non-vacuity and sharpness: a history in which the protocol is told two connections of peer 5
   (one per transport), the third is rejected by the manager and so never reaches the protocol;
   and the cap is sharp: the protocol does hold two. *)
Example compose_nonvacuous :
  let L := mkLimits (Some 3) None [TCP; WS] in
  let xs := [XM AllocConn; XM (TrEstablished 5 0 TCP true false); XEst 5 0; XM (AcceptDone 0 true);
             XM AllocConn; XM (TrEstablished 5 1 WS true false); XEst 5 1; XM (AcceptDone 1 true);
             XM AllocConn; XM (TrEstablished 5 2 TCP true false);
             XClosed 5 0; XM (Closed 5 0)] in
  xtrace L x0 xs /\ xproj xs = [T.EEst 5 0; T.EEst 5 1; T.EClosed 5 0] /\
  T.e_live (x_e (xrun L x0 (firstn 10 xs))) = [(5, 0); (5, 1)].
Proof.
  vm_compute. repeat split; try discriminate; try tauto; try (intros; congruence); eauto;
    try (intros [H|[H|[]]]; discriminate); try (intros [H|[]]; discriminate); try (intros []).
Qed.
