(* C06/Tables — the tables read from the Rust source on every check (coq/gen/CapsTables.v, written
   by tools/gen_c06_caps.py) against what the models assume. A new method of ConnectionLimits or
   PeerState, a new call site of the limits object in the manager, a changed order of the limit
   check and the per-peer decision, or a changed `reject` body breaks one of these lemmas. *)
From Coq Require Import List NArith Bool Lia.
From V.gen Require CapsTables.
From V.Mgr Require Import DialShape Model Limits PeerTable.
Import ListNotations.
Open Scope N_scope.

(* ---- the API of the two objects is the one modelled ---- *)
Definition lop_code (o : lop) : N :=
  match o with LDial => 0 | LIncoming => 1 | LCan _ => 2 | LAccept _ _ => 3 | LClosed _ => 4 end.
Definition pop_code (o : pop) : N :=
  match o with
  | PCanDial => 0 | PDialSingle _ => 1 | PDialAddrs _ _ _ => 2 | PDialFailure _ => 3
  | PEstablished _ => 4 | PClosed _ => 5 | POpenFailure _ => 6 | POpened _ => 7
  end.

Lemma limits_api_in_sync : CapsTables.limits_api = [0; 1; 2; 3; 4] /\ CapsTables.limits_cfg_api = [0; 1].
Proof. split; reflexivity. Qed.

(* every method of the source has a constructor of `lop`, and conversely *)
Lemma limits_api_complete :
  (forall k, In k CapsTables.limits_api -> exists o, lop_code o = k) /\
  (forall o, In (lop_code o) CapsTables.limits_api).
Proof.
  split.
  - intros k H. cbn in H.
    destruct H as [<-|[<-|[<-|[<-|[<-|[]]]]]];
      [exists LDial | exists LIncoming | exists (LCan true) | exists (LAccept 0 true) | exists (LClosed 0)]; reflexivity.
  - intros o. destruct o; cbn; tauto.
Qed.

Lemma peer_api_in_sync :
  CapsTables.peer_api = [0; 1; 2; 3; 4; 5; 6; 7] /\ CapsTables.peer_variants = [0; 1; 2; 3] /\
  CapsTables.sec_variants = [0; 1].
Proof. repeat split; reflexivity. Qed.

Lemma peer_api_complete :
  (forall k, In k CapsTables.peer_api -> exists o, pop_code o = k) /\
  (forall o, In (pop_code o) CapsTables.peer_api).
Proof.
  split.
  - intros k H. cbn in H.
    destruct H as [<-|[<-|[<-|[<-|[<-|[<-|[<-|[<-|[]]]]]]]]];
      [exists PCanDial | exists (PDialSingle (0, (0, None))) | exists (PDialAddrs 0 [] []) | exists (PDialFailure 0)
       | exists (PEstablished (0, (0, None))) | exists (PClosed 0) | exists (POpenFailure 0)
       | exists (POpened (0, (0, None)))]; reflexivity.
  - intros o. destruct o; cbn; tauto.
Qed.

(* ---- the manager's calls on the object ---- *)
(* the source location (function, method) a call of the model stands for *)
Definition op_site (e : ev) (o : lop) : N * N :=
  match o with
  | LDial => (match e with CmdDialPeer _ _ _ | HDialPeer _ _ _ _ => 0 | _ => 1 end, 0)
  | LIncoming => (2, 1)
  | LCan _ => (4, 2)
  | LAccept _ _ => (4, 3)
  | LClosed _ => (3, 4)
  end.

Lemma call_sites_in_sync :
  CapsTables.limits_call_sites = [(0, 0); (1, 0); (2, 1); (3, 4); (4, 2); (4, 3)].
Proof. reflexivity. Qed.

Lemma in_est_ops L m1 p c lst f o :
  In o (est_ops L m1 p c lst f) -> o = LCan lst \/ o = LAccept c lst \/ o = LClosed c.
Proof.
  unfold est_ops. intros H.
  assert (K : forall l, In o l -> incl l ([LCan lst; LAccept c lst] ++ [LClosed c]) ->
                        o = LCan lst \/ o = LAccept c lst \/ o = LClosed c).
  { intros l Hin Hincl. apply Hincl in Hin. cbn in Hin. destruct Hin as [<-|[<-|[<-|[]]]]; auto. }
  assert (I1 : incl [LCan lst] ([LCan lst; LAccept c lst] ++ [LClosed c])) by (intros x [<-|[]]; now left).
  assert (I2 : incl ([LCan lst; LAccept c lst] ++ (if f then [LClosed c] else []))
                    ([LCan lst; LAccept c lst] ++ [LClosed c])).
  { destruct f; [apply incl_refl|]. intros x Hx. apply in_or_app. left. now rewrite app_nil_r in Hx. }
  destruct (limit_reached _ _); [eapply K; eauto|].
  destruct (negb (snd _)); [eapply K; eauto|].
  destruct (state_of m1 p); try (eapply K; eauto; fail).
  destruct (negb _); eapply K; eauto.
Qed.

(* every call the model lets the manager make on its ConnectionLimits is a call site of the source,
   in the function that handles that event *)
Theorem model_calls_are_source_sites L m e o :
  In o (lim_ops L m e) -> In (op_site e o) CapsTables.limits_call_sites.
Proof.
  rewrite call_sites_in_sync.
  destruct e as [p ts fl|p t f|p t|c t pa|c t f|c t pa|p c t lst f|c t|c ok|p c| |a|p ts fl clog|a clog];
    cbn [lim_ops]; try (now intros []).
  - intros [<-|[]]. cbn. tauto.
  - intros [<-|[]]. cbn. tauto.
  - destruct (installed L t); [|intros []].
    set (me := set_oerrs m _). set (m0 := if lst then me else _). set (m1 := set_pending m0 _).
    intros H.
    assert (K : In o (est_ops L m1 p c lst f) -> In (op_site (TrEstablished p c t lst f) o)
                  [(0, 0); (1, 0); (2, 1); (3, 4); (4, 2); (4, 3)]).
    { intros Hin. apply in_est_ops in Hin. destruct Hin as [->|[->| ->]]; cbn; tauto. }
    destruct (lookup c (pending m0)) as [dp|]; [destruct (dp =? p)|]; now apply K.
  - destruct (installed L t); [|intros []]. intros [<-|[]]. cbn. tauto.
  - destruct (lookup c (accepting m)); [|intros []]. destruct ok; [intros []|]. intros [<-|[]]. cbn. tauto.
  - intros [<-|[]]. cbn. tauto.
  - intros [<-|[]]. cbn. tauto.
  - destruct (handle_gate m p); try (intros []). destruct clog; [intros []|]. intros [<-|[]]. cbn. tauto.
  - destruct (negb _); [intros []|]. destruct clog; [intros []|]. intros [<-|[]]. cbn. tauto.
Qed.

(* and every call site of the source is exercised by some event of the model *)
Theorem source_sites_are_modelled :
  forall s, In s CapsTables.limits_call_sites ->
  exists L m e o, In o (lim_ops L m e) /\ op_site e o = s.
Proof.
  rewrite call_sites_in_sync. intros s H.
  set (L := mkLimits (Some 3) (Some 3) [TCP; WS]).
  destruct H as [<-|[<-|[<-|[<-|[<-|[<-|[]]]]]]].
  - exists L, init, (CmdDialPeer 1 [] []), LDial. split; [now left|reflexivity].
  - exists L, init, (CmdDialAddr 1 TCP false), LDial. split; [now left|reflexivity].
  - exists L, init, (TrPendingInbound 0 TCP), LIncoming. split; [now left|reflexivity].
  - exists L, init, (Closed 1 0), (LClosed 0). split; [now left|reflexivity].
  - exists L, init, (TrEstablished 1 0 TCP true false), (LCan true). split; [now left|reflexivity].
  - exists L, init, (TrEstablished 1 0 TCP true false), (LAccept 0 true). split; [right; now left|reflexivity].
Qed.

(* ---- the order inside on_connection_established and the arms of next() ---- *)
Lemma est_order_in_sync : CapsTables.est_order_ok = true.
Proof. reflexivity. Qed.

(* next(): Err -> reject, Accept -> accept, Reject -> reject; two rollbacks through
   on_connection_closed (accept() error, accept future error); PendingInboundConnection answered by
   accept_pending / reject_pending according to on_pending_incoming_connection *)
Lemma next_arms_in_sync :
  CapsTables.next_arms = [(0, 0); (1, 1); (2, 0)] /\ CapsTables.rollback_sites = 2 /\
  CapsTables.pending_arms_ok = true.
Proof. repeat split; reflexivity. Qed.

(* ---- what the three socket transports do with accept / reject ---- *)
Lemma transport_shapes_in_sync :
  CapsTables.transport_shapes =
  [(0, 0, 1); (0, 1, 1); (0, 2, 1); (0, 3, 1); (1, 0, 1); (1, 1, 1); (1, 2, 1); (1, 3, 1);
   (2, 0, 1); (2, 1, 1); (2, 2, 1); (2, 3, 1)].
Proof. reflexivity. Qed.

(* tcp, websocket and quic all have the shape of the TCP model (coq/Tcp: EAccept / EReject /
   EAcceptPending / ERejectPending), for every one of the four methods *)
Theorem transports_uniform :
  forall t k, t < 3 -> k < 4 -> In (t, k, 1) CapsTables.transport_shapes.
Proof.
  intros t k Ht Hk. rewrite transport_shapes_in_sync.
  assert (t = 0 \/ t = 1 \/ t = 2) as [->|[->| ->]] by lia;
    assert (k = 0 \/ k = 1 \/ k = 2 \/ k = 3) as [->|[->|[->| ->]]] by lia; cbn; tauto.
Qed.
