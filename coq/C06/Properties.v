(* C06 — pinned property theorems about the manager model (coq/Mgr). Statements, `exact`,
   Print Assumptions only. *)
From Coq Require Import List NArith Bool.
From V.Mgr Require Import Model Caps.
Import ListNotations.
Open Scope N_scope.

(* The cap invariant holds initially and is preserved by every event the manager handles, for
   every limit configuration (none, zero, small), provided connection ids are unique (env_ok). *)
Theorem C06_cap_invariant_step :
  forall L m l e, CapInv L m l -> env_ok m l e ->
  CapInv L (fst (step L m e)) (live_step e (snd (step L m e)) l).
Proof. exact cap_step. Qed.
Print Assumptions C06_cap_invariant_step.

Theorem C06_cap_invariant_reachable :
  forall L es, env_trace L init [] es ->
  CapInv L (fst (grun L init [] es)) (snd (grun L init [] es)).
Proof. intros L es H. apply cap_run; [apply cap_init | exact H]. Qed.
Print Assumptions C06_cap_invariant_reachable.

(* at most two established connections per peer *)
Theorem C06_two_per_peer :
  forall L m l p, CapInv L m l -> (length (of_peer p l) <= 2)%nat.
Proof. exact two_per_peer. Qed.
Print Assumptions C06_two_per_peer.

(* the numbers of established inbound / outbound connections never exceed the maxima *)
Theorem C06_limits :
  forall L m l, CapInv L m l ->
  (forall mx, max_in L = Some mx -> N.of_nat (length (of_dir true l)) <= mx) /\
  (forall mx, max_out L = Some mx -> N.of_nat (length (of_dir false l)) <= mx).
Proof. exact limits_hold. Qed.
Print Assumptions C06_limits.

(* no leaked slot: every counted id is an established connection *)
Theorem C06_counted_are_live :
  forall L m l c, CapInv L m l -> (In c (ins m) \/ In c (outs m)) -> In c (keys l).
Proof. exact counted_are_live. Qed.
Print Assumptions C06_counted_are_live.

(* capacity is released exactly when a connection closes *)
Theorem C06_release_exact :
  forall m p c d,
  let m' := fst (do_closed m p c) in
  (In d (ins m') <-> In d (ins m) /\ d <> c) /\ (In d (outs m') <-> In d (outs m) /\ d <> c).
Proof. exact release_exact. Qed.
Print Assumptions C06_release_exact.

(* below its limits the node accepts a connection from a peer it is not connected to (on the
   transport that delivered it) *)
Theorem C06_below_limit_accepts :
  forall L m p c t (lst f : bool),
  limit_reached (if lst then max_in L else max_out L) (if lst then ins m else outs m) = false ->
  state_of m p = Disconnected None ->
  (forall q, lookup c (pending m) = Some q -> q = p) ->
  In (CallAccept c t) (snd (do_established L m p c t lst f)).
Proof. exact below_limit_accepts. Qed.
Print Assumptions C06_below_limit_accepts.

(* a surplus connection is rejected without disturbing the established ones *)
Theorem C06_reject_preserves :
  forall L m p c t (lst f : bool) q d,
  In (CallReject c t) (snd (do_established L m p c t lst f)) ->
  recorded (state_of m q) d -> recorded (state_of (fst (do_established L m p c t lst f)) q) d.
Proof. exact reject_preserves. Qed.
Print Assumptions C06_reject_preserves.

(* at the outbound limit a dial request (by peer, over any set of transports; by address) is
   refused and changes nothing *)
Theorem C06_dial_gate :
  forall L m p ts fl a f, limit_reached (max_out L) (outs m) = true ->
  do_dial_peer L m p ts fl = (m, [Ret RET_LIMIT]) /\ do_dial_shape L m a f = (m, [Ret RET_LIMIT]).
Proof. exact dial_gate. Qed.
Print Assumptions C06_dial_gate.

(* non-vacuity: a concrete history with limits (3,1) over two transports satisfies the environment
   predicate, reaches two connections for one peer (one per transport), and a third is rejected *)
Example C06_nonvacuous :
  let L := mkLimits (Some 3) (Some 1) [TCP; WS] in
  let es := [CmdDialAddr 2 WS false; AllocConn; TrEstablished 2 1 TCP true false; AcceptDone 1 true;
             TrEstablished 2 0 WS false false; AcceptDone 0 true; AllocConn;
             TrEstablished 2 2 TCP true false] in
  env_trace L init [] es /\
  map fst (snd (grun L init [] es)) = [0; 1] /\
  snd (step L (fst (grun L init [] (removelast es))) (TrEstablished 2 2 TCP true false)) = [CallReject 2 TCP].
Proof. vm_compute. repeat split; try discriminate; intros; try congruence; tauto. Qed.
