(* C06 — pinned property theorems about the manager model (coq/Mgr). Statements, `exact`,
   Print Assumptions only. *)
From Coq Require Import List NArith Bool.
From V.gen Require CapsTables.
From V.Mgr Require Import DialShape Model Caps CapsExt Limits LimitsProofs PeerTable PeerTableProofs.
From V.Mgr Require Ledger LedgerInv CapsLedger.
From V.C06 Require Tables TcpReject Compose08.
From V.C07 Require Model Compose.
From V.Link Require C07_C06.
Import ListNotations.
Open Scope N_scope.

(* The cap invariant holds initially and is preserved by every event the manager handles, for
   every limit configuration (none, zero, small), provided connection ids are unique (env_ok). *)
Theorem C06_cap_invariant_step :
  forall L m l e, CapInv L m l -> env_ok m l e ->
  CapInv L (fst (step L m e)) (live_step e (snd (step L m e)) l).
Proof. exact cap_step. Qed.
Print Assumptions C06_cap_invariant_step.

Theorem C06_cap_invariant_reachable :
  forall L es, env_trace L init [] es ->
  CapInv L (fst (grun L init [] es)) (snd (grun L init [] es)).
Proof. intros L es H. apply cap_run; [apply cap_init | exact H]. Qed.
Print Assumptions C06_cap_invariant_reachable.

(* at most two established connections per peer *)
Theorem C06_two_per_peer :
  forall L m l p, CapInv L m l -> (length (of_peer p l) <= 2)%nat.
Proof. exact two_per_peer. Qed.
Print Assumptions C06_two_per_peer.

(* the numbers of established inbound / outbound connections never exceed the maxima *)
Theorem C06_limits :
  forall L m l, CapInv L m l ->
  (forall mx, max_in L = Some mx -> N.of_nat (length (of_dir true l)) <= mx) /\
  (forall mx, max_out L = Some mx -> N.of_nat (length (of_dir false l)) <= mx).
Proof. exact limits_hold. Qed.
Print Assumptions C06_limits.

(* no leaked slot: every counted id is an established connection *)
Theorem C06_counted_are_live :
  forall L m l c, CapInv L m l -> (In c (ins m) \/ In c (outs m)) -> In c (keys l).
Proof. exact counted_are_live. Qed.
Print Assumptions C06_counted_are_live.

(* capacity is released exactly when a connection closes *)
Theorem C06_release_exact :
  forall m p c d,
  let m' := fst (do_closed m p c) in
  (In d (ins m') <-> In d (ins m) /\ d <> c) /\ (In d (outs m') <-> In d (outs m) /\ d <> c).
Proof. exact release_exact. Qed.
Print Assumptions C06_release_exact.

(* below its limits the node accepts a connection from a peer it is not connected to (on the
   transport that delivered it) *)
Theorem C06_below_limit_accepts :
  forall L m p c t (lst f : bool),
  limit_reached (if lst then max_in L else max_out L) (if lst then ins m else outs m) = false ->
  state_of m p = Disconnected None ->
  (forall q, lookup c (pending m) = Some q -> q = p) ->
  In (CallAccept c t) (snd (do_established L m p c t lst f)).
Proof. exact below_limit_accepts. Qed.
Print Assumptions C06_below_limit_accepts.

(* a surplus connection is rejected without disturbing the established ones *)
Theorem C06_reject_preserves :
  forall L m p c t (lst f : bool) q d,
  In (CallReject c t) (snd (do_established L m p c t lst f)) ->
  recorded (state_of m q) d -> recorded (state_of (fst (do_established L m p c t lst f)) q) d.
Proof. exact reject_preserves. Qed.
Print Assumptions C06_reject_preserves.

(* at the outbound limit a dial request (by peer, over any set of transports; by address) is
   refused and changes nothing *)
Theorem C06_dial_gate :
  forall L m p ts fl a f, limit_reached (max_out L) (outs m) = true ->
  do_dial_peer L m p ts fl = (m, [Ret RET_LIMIT]) /\ do_dial_shape L m a f = (m, [Ret RET_LIMIT]).
Proof. exact dial_gate. Qed.
Print Assumptions C06_dial_gate.

(* non-vacuity: a concrete history with limits (3,1) over two transports satisfies the environment
   predicate, reaches two connections for one peer (one per transport), and a third is rejected *)
Example C06_nonvacuous :
  let L := mkLimits (Some 3) (Some 1) [TCP; WS] in
  let es := [CmdDialAddr 2 WS false; AllocConn; TrEstablished 2 1 TCP true false; AcceptDone 1 true;
             TrEstablished 2 0 WS false false; AcceptDone 0 true; AllocConn;
             TrEstablished 2 2 TCP true false] in
  env_trace L init [] es /\
  map fst (snd (grun L init [] es)) = [0; 1] /\
  snd (step L (fst (grun L init [] (removelast es))) (TrEstablished 2 2 TCP true false)) = [CallReject 2 TCP].
Proof. vm_compute. repeat split; try discriminate; intros; try congruence; tauto. Qed.

(* ======================================================================================== *)
(* Extension round: the ConnectionLimits object, PeerState with its records, the complete     *)
(* accept / reject decision, the gates, the composition with C08, the transports' reject.     *)
(* ======================================================================================== *)

(* ---------------- the ConnectionLimits object (coq/Mgr/Limits.v) ---------------- *)

(* ConnectionLimitsConfig: `default()` is (None, None); each side ends up with the argument of the
   last builder call made for it, whatever the order and number of calls *)
Theorem C06_limits_builder :
  forall ks, cfg_build ks = (last_set true ks None, last_set false ks None).
Proof. exact cfg_build_last. Qed.
Print Assumptions C06_limits_builder.

(* The object alone, for every configuration and EVERY sequence of calls that follows the calling
   discipline its documentation asks for (an accept right after a successful check of the same
   direction; everything else in any order: checks whose result is ignored, closes of unknown ids,
   repeated ids): both sets stay duplicate-free and within the maxima; an unlimited side is never
   counted. *)
Theorem C06_limits_object_invariant :
  forall c ops, guarded (lim_new c) ops = true -> LimInv (lim_run (lim_new c) ops).
Proof. intros c ops G. apply lim_inv_guarded; [apply lim_inv_new | exact G]. Qed.
Print Assumptions C06_limits_object_invariant.

Theorem C06_limits_object_invariant_step :
  forall ops l, LimInv l -> guarded l ops = true -> LimInv (lim_run l ops).
Proof. exact lim_inv_guarded. Qed.
Print Assumptions C06_limits_object_invariant_step.

(* the three checks change nothing (they take &mut self) *)
Theorem C06_limits_checks_pure :
  forall l o, match o with LDial | LIncoming | LCan _ => fst (lim_step l o) = l | _ => True end.
Proof. exact lim_checks_pure. Qed.
Print Assumptions C06_limits_checks_pure.

(* on_dial_address: Ok(k) means k >= 1 free outbound slots, exactly max - counted; Ok(usize::MAX)
   exactly without a maximum; the error exactly when the counted set has reached the maximum *)
Theorem C06_limits_dial_capacity :
  forall l,
  match snd (lim_step l LDial) with
  | LCap (Some k) => exists mx, lmax_out l = Some mx /\ 1 <= k /\ k + card (lout l) = mx
  | LCap None => lmax_out l = None
  | LErrOut => limit_reached (lmax_out l) (lout l) = true
  | _ => False
  end.
Proof. exact lim_dial_cap. Qed.
Print Assumptions C06_limits_dial_capacity.

Theorem C06_limits_closed_exact :
  forall l c d,
  let l' := fst (lim_step l (LClosed c)) in
  (In d (lin l') <-> In d (lin l) /\ d <> c) /\ (In d (lout l') <-> In d (lout l) /\ d <> c).
Proof. exact lim_closed_exact. Qed.
Print Assumptions C06_limits_closed_exact.

(* accept_established_connection checks nothing itself: called without the check it exceeds the
   maximum (observation about the object; the manager never does this, next theorems) *)
Theorem C06_limits_unguarded_exceeds :
  exists c ops, let l := lim_run (lim_new c) ops in lmax_in l = Some 1 /\ card (lin l) = 2.
Proof.
  exists (Some 1, None), [LAccept 1 true; LAccept 2 true].
  destruct lim_unguarded_exceeds as [A B]. split; assumption.
Qed.
Print Assumptions C06_limits_unguarded_exceeds.

(* The counted sets of the manager model change exactly as the calls `lim_ops` on the object say —
   for every event, state and configuration; the call log (method, arguments, result, order) is
   compared with the real manager's after every step. *)
Theorem C06_manager_uses_limits_object :
  forall L m e, lim_run (lim_of L m) (lim_ops L m e) = lim_of L (fst (step L m e)).
Proof. exact lim_refines. Qed.
Print Assumptions C06_manager_uses_limits_object.

(* ... and the manager follows the calling discipline: it counts a connection only right after a
   successful check for the same direction (in particular never before the per-peer decision) *)
Theorem C06_manager_calls_guarded :
  forall L m e, guarded (lim_of L m) (lim_ops L m e) = true.
Proof. exact mgr_guarded. Qed.
Print Assumptions C06_manager_calls_guarded.

(* Litep2p::dial fails with ConnectionLimit exactly when on_dial_address fails, and then nothing changes *)
Theorem C06_dial_refused_iff_object_refuses :
  forall L m p ts fl,
  (snd (lim_step (lim_of L m) LDial) = LErrOut <-> snd (do_dial_peer L m p ts fl) = [Ret RET_LIMIT]) /\
  (snd (lim_step (lim_of L m) LDial) = LErrOut -> fst (do_dial_peer L m p ts fl) = m).
Proof. exact lim_dial_decides. Qed.
Print Assumptions C06_dial_refused_iff_object_refuses.

(* on_pending_incoming_connection: a pending inbound socket is answered by accept_pending when
   on_incoming is Ok and by reject_pending otherwise; nothing is reserved for it *)
Theorem C06_pending_inbound_gate :
  forall L m c t, installed L t = true ->
  step L m (TrPendingInbound c t) =
    (m, [if match snd (lim_step (lim_of L m) LIncoming) with LOk => true | _ => false end
         then CallAcceptPending c t else CallRejectPending c t]).
Proof. exact lim_incoming_decides. Qed.
Print Assumptions C06_pending_inbound_gate.

(* ---------------- PeerState with its records (coq/Mgr/PeerTable.v) ---------------- *)

(* the whole transition table: from every shape of a state and every class of an event, the next
   shape and the result are those of `table` (7 shapes x 8 methods, ids and addresses arbitrary) *)
Theorem C06_peer_table :
  forall s o, (shape_of (fst (pstep s o)), snd (pstep s o)) = table (shape_of s) (classify s o).
Proof. exact table_correct. Qed.
Print Assumptions C06_peer_table.

(* a state never records more than two established connections *)
Theorem C06_peer_slots_at_most_two : forall s, (length (slots s) <= 2)%nat.
Proof. exact slots_le_two. Qed.
Print Assumptions C06_peer_slots_at_most_two.

(* an accepted connection is stored, with the record it came with, in the first free slot and
   leaves the others untouched; a refused one changes no slot *)
Theorem C06_peer_established_slots :
  forall s n,
  slots (fst (r_on_established s n)) = if snd (r_on_established s n) then slots s ++ [n] else slots s.
Proof. exact slots_established. Qed.
Print Assumptions C06_peer_established_slots.

(* a closed connection leaves its slot (the secondary is promoted), nothing else changes *)
Theorem C06_peer_closed_slots :
  forall s c, slots (fst (r_on_closed s c)) = remove_first_rec c (slots s).
Proof. exact slots_closed. Qed.
Print Assumptions C06_peer_closed_slots.

(* the other six methods never touch a slot *)
Theorem C06_peer_other_methods_keep_slots :
  forall s o, match o with PEstablished _ | PClosed _ => True | _ => slots (fst (pstep s o)) = slots s end.
Proof. exact slots_other. Qed.
Print Assumptions C06_peer_other_methods_keep_slots.

(* refused exactly when both slots are taken, or one is taken and the other is reserved for a dial
   in flight with a different id *)
Theorem C06_peer_refused_iff :
  forall s n,
  snd (r_on_established s n) = false <->
  (length (slots s) = 2%nat \/
   (length (slots s) = 1%nat /\ exists d, dial_of s = Some d /\ fst d <> fst n)).
Proof. exact established_refused_iff. Qed.
Print Assumptions C06_peer_refused_iff.

(* ConnectionClosed is to be reported exactly when the last recorded connection goes *)
Theorem C06_peer_closed_reports_iff :
  forall s c, snd (r_on_closed s c) = true <-> exists r, slots s = [r] /\ fst r = c.
Proof. exact closed_reports_iff. Qed.
Print Assumptions C06_peer_closed_reports_iff.

(* the ids in the slots stay distinct as long as established connections carry fresh ids *)
Theorem C06_peer_slot_ids_distinct :
  forall s o, NoDup (slot_ids s) -> pop_fresh s o -> NoDup (slot_ids (fst (pstep s o))).
Proof. exact slot_ids_nodup_step. Qed.
Print Assumptions C06_peer_slot_ids_distinct.

(* the remembered dial: consumed by the connection with its id, kept otherwise (also on refusal);
   cleared by exactly the matching dial failure *)
Theorem C06_peer_dial_record :
  forall s,
  (forall n, dial_of (fst (r_on_established s n)) =
             match dial_of s with Some d => if fst d =? fst n then None else Some d | None => None end) /\
  (forall c, dial_of (fst (r_on_dial_failure s c)) =
             match dial_of s with Some d => if fst d =? c then None else Some d | None => None end /\
             snd (r_on_dial_failure s c) = dial_matches s c).
Proof. intros s. split; [intros n; apply dial_of_established | intros c; apply dial_of_dial_failure]. Qed.
Print Assumptions C06_peer_dial_record.

(* every record built by ConnectionRecord::new / from_endpoint names the peer and keeps the id *)
Theorem C06_record_names_peer :
  forall p a c, snd (snd (rec_new p a c)) = Some p /\ fst (rec_new p a c) = c.
Proof. exact rec_new_names_peer. Qed.
Print Assumptions C06_record_names_peer.

(* the manager model's address-free state machine is this machine with the addresses erased: every
   transition commutes with `erase` *)
Theorem C06_peer_erase_refines :
  forall s,
  r_can_dial s = can_dial (erase s) /\
  (forall c, erase (fst (r_on_dial_failure s c)) = st_on_dial_failure (erase s) c) /\
  (forall n, (erase (fst (r_on_established s n)), snd (r_on_established s n)) = st_on_established (erase s) (fst n)) /\
  (forall c, (erase (fst (r_on_closed s c)), snd (r_on_closed s c)) = st_on_closed (erase s) c) /\
  (forall r, erase (fst (r_dial_single s r)) = match can_dial (erase s) with GateOk => Dialing (fst r) | _ => erase s end) /\
  (forall c a ts, erase (fst (r_dial_addresses s c a ts)) = match can_dial (erase s) with GateOk => Opening c ts | _ => erase s end).
Proof.
  intros s. repeat split; intros.
  - apply erase_can_dial. - apply erase_dial_failure. - apply erase_established. - apply erase_closed.
  - apply erase_dial_single. - apply erase_dial_addresses.
Qed.
Print Assumptions C06_peer_erase_refines.

Theorem C06_peer_erase_refines_opening :
  forall a c ts t r,
  erase (fst (r_on_open_failure (ROpening a c ts) t)) =
    match remove_tr t ts with [] => Disconnected None | ts' => Opening c ts' end /\
  erase (fst (r_on_opened (ROpening a c ts) r)) = Dialing (fst r).
Proof. intros. split; [apply erase_open_failure | apply erase_opened]. Qed.
Print Assumptions C06_peer_erase_refines_opening.

(* ---------------- the complete decision of on_connection_established ---------------- *)

(* the per-peer rule on the manager model's states *)
Theorem C06_per_peer_rule :
  forall s c,
  snd (st_on_established s c) = false <->
  (exists r d, s = Connected r (Some (SecEst d))) \/
  (exists r d, s = Connected r (Some (SecDial d)) /\ d <> c).
Proof. exact st_refused_iff. Qed.
Print Assumptions C06_per_peer_rule.

(* For a connection whose id was not dialled for another peer (the transports guarantee that) and a
   peer whose opening attempt spans installed transports: accept(c) is called exactly when the
   direction is below its maximum AND the per-peer rule admits it; reject(c) exactly otherwise. *)
Theorem C06_established_decision :
  forall L m p c t (lst f : bool),
  (forall q, lookup c (pending m) = Some q -> q = p) ->
  (forall d ts, state_of m p = Opening d ts -> forallb (installed L) ts = true) ->
  let os := snd (do_established L m p c t lst f) in
  let ok := snd (st_on_established (state_of m p) c) in
  (In (CallAccept c t) os <-> dir_full L m lst = false /\ ok = true) /\
  (In (CallReject c t) os <-> dir_full L m lst = true \/ ok = false).
Proof. exact established_decision. Qed.
Print Assumptions C06_established_decision.

(* a rejected connection reserves nothing — whichever of the two rules rejected it (the seeded
   change that reserved the slot before the per-peer decision violates this) *)
Theorem C06_reject_reserves_nothing :
  forall L m p c t (lst f : bool),
  (forall q, lookup c (pending m) = Some q -> q = p) ->
  (forall d ts, state_of m p = Opening d ts -> forallb (installed L) ts = true) ->
  In (CallReject c t) (snd (do_established L m p c t lst f)) ->
  ins (fst (do_established L m p c t lst f)) = ins m /\ outs (fst (do_established L m p c t lst f)) = outs m.
Proof. exact reject_reserves_nothing. Qed.
Print Assumptions C06_reject_reserves_nothing.

(* The two side conditions hold in every state the manager reaches while the transports keep their
   contract (C05's ledger invariant: `Reach`, `feas`), so there the decision needs no hypothesis
   about the state. *)
Theorem C06_decision_reachable :
  forall L m g p c t (lst f : bool),
  LedgerInv.Reach L m g -> LedgerInv.feas L m g (TrEstablished p c t lst f) ->
  let os := snd (do_established L m p c t lst f) in
  let ok := snd (st_on_established (state_of m p) c) in
  (In (CallAccept c t) os <-> dir_full L m lst = false /\ ok = true) /\
  (In (CallReject c t) os <-> dir_full L m lst = true \/ ok = false) /\
  (In (CallReject c t) os ->
   ins (fst (do_established L m p c t lst f)) = ins m /\ outs (fst (do_established L m p c t lst f)) = outs m).
Proof. exact CapsLedger.decision_reachable. Qed.
Print Assumptions C06_decision_reachable.

(* every established connection is answered on its transport, by exactly one of accept / reject *)
Theorem C06_established_answered_once :
  forall L m g p c t (lst f : bool),
  LedgerInv.Reach L m g -> LedgerInv.feas L m g (TrEstablished p c t lst f) ->
  let os := snd (do_established L m p c t lst f) in
  (In (CallAccept c t) os \/ In (CallReject c t) os) /\ ~ (In (CallAccept c t) os /\ In (CallReject c t) os).
Proof. exact CapsLedger.answered_once_reachable. Qed.
Print Assumptions C06_established_answered_once.

(* below the maximum, a connection of a peer the node is not connected to is accepted whatever its
   dial state (idle, dialing, opening, a remembered dial): generalises C06_below_limit_accepts *)
Theorem C06_not_connected_accepted :
  forall L m p c t (lst f : bool),
  (forall q, lookup c (pending m) = Some q -> q = p) ->
  (forall d ts, state_of m p = Opening d ts -> forallb (installed L) ts = true) ->
  dir_full L m lst = false -> can_dial (state_of m p) <> GateConnected ->
  In (CallAccept c t) (snd (do_established L m p c t lst f)).
Proof. exact not_connected_accepted. Qed.
Print Assumptions C06_not_connected_accepted.

(* Every gate (pending inbound socket, established connection of either direction, dial request)
   says "limit reached" exactly when the number of ESTABLISHED connections of that direction equals
   the configured maximum: never while there is room, and the number is never larger. *)
Theorem C06_refuses_iff_full :
  forall L m l lst, CapInv L m l ->
  (dir_full L m lst = true <->
   exists mx, (if lst then max_in L else max_out L) = Some mx /\ N.of_nat (length (of_dir lst l)) = mx).
Proof. exact full_iff. Qed.
Print Assumptions C06_refuses_iff_full.

(* capacity is released when a counted connection closes: its direction is below the maximum
   afterwards (so the gates above let the next one in) *)
Theorem C06_closed_frees_slot :
  forall L m l p c q lst, CapInv L m l -> lookup c l = Some (q, lst) ->
  dir_full L (fst (do_closed m p c)) lst = false.
Proof. exact closed_frees_slot. Qed.
Print Assumptions C06_closed_frees_slot.

(* ... and only then: a close notice for anything that is not an established connection changes
   neither set *)
Theorem C06_uncounted_close_keeps :
  forall L m l p c, CapInv L m l -> lookup c l = None ->
  ins (fst (do_closed m p c)) = ins m /\ outs (fst (do_closed m p c)) = outs m.
Proof. exact uncounted_close_keeps. Qed.
Print Assumptions C06_uncounted_close_keeps.

(* ---------------- composition: the manager provides what C08 assumes ---------------- *)

(* C08's environment assumption splits into a connection part (ids fresh, fewer than two open
   connections of the peer, closes refer to an open connection) and the rest *)
Theorem C06_C08_feasible_split :
  forall cap tr e s,
  V.Ts.Model.feasible cap e s tr =
  Compose08.feasible_rest e s tr && Compose08.conn_feasible cap e (filter Compose08.is_conn (map snd tr)).
Proof. exact Compose08.feasible_split. Qed.
Print Assumptions C06_C08_feasible_split.

(* the invariant of the composed system (manager + what a protocol has been told) along every
   history: the connections a protocol holds are established connections of the manager's ledger *)
Theorem C06_composed_invariant :
  forall L xs, Compose08.xtrace L Compose08.x0 xs -> Compose08.XInv L (Compose08.xrun L Compose08.x0 xs).
Proof. intros L xs H. apply Compose08.xinv_run; [apply Compose08.xinv0 | exact H]. Qed.
Print Assumptions C06_composed_invariant.

(* a protocol never holds more than two connections of a peer *)
Theorem C06_protocol_holds_at_most_two :
  forall L s p, Compose08.XInv L s ->
  (length (V.Ts.Model.live_of p (V.Ts.Model.e_live (Compose08.x_e s))) <= 2)%nat.
Proof. exact Compose08.held_at_most_two. Qed.
Print Assumptions C06_protocol_holds_at_most_two.

(* the connection part of C08's assumption holds along every history of the composed system *)
Theorem C06_provides_C08_connection_part :
  forall L xs, Compose08.xtrace L Compose08.x0 xs ->
  Compose08.conn_feasible 2 V.Ts.Model.env0 (Compose08.xproj xs) = true.
Proof. intros L xs H. exact (Compose08.provides_conn_feasible L xs Compose08.x0 (Compose08.xinv0 L) H). Qed.
Print Assumptions C06_provides_C08_connection_part.

(* C08's hypothesis `feasible 2` discharged: a TransportService history whose connection events are
   the reports of a composed manager history is feasible as soon as its other events are *)
Theorem C06_provides_C08_feasible :
  forall L xs tr ka T0 n0,
  Compose08.xtrace L Compose08.x0 xs ->
  filter Compose08.is_conn (map snd tr) = Compose08.xproj xs ->
  Compose08.feasible_rest V.Ts.Model.env0 (V.Ts.Model.init ka T0 n0) tr = true ->
  V.Ts.Model.feasible 2 V.Ts.Model.env0 (V.Ts.Model.init ka T0 n0) tr = true.
Proof. exact Compose08.provides_feasible. Qed.
Print Assumptions C06_provides_C08_feasible.

(* so C08's conclusions hold for the composed system, e.g. strict alternation of the connection
   events a protocol sees for a peer *)
Theorem C06_C08_alternation_composed :
  forall L xs tr ka T0 n0 q,
  Compose08.xtrace L Compose08.x0 xs ->
  filter Compose08.is_conn (map snd tr) = Compose08.xproj xs ->
  Compose08.feasible_rest V.Ts.Model.env0 (V.Ts.Model.init ka T0 n0) tr = true ->
  V.Ts.Proofs.alternates false (V.Ts.Proofs.conn_evs q (concat (V.Ts.Model.run (V.Ts.Model.init ka T0 n0) tr))).
Proof. exact Compose08.composed_alternation. Qed.
Print Assumptions C06_C08_alternation_composed.

(* ---------------- what a transport does with a rejected connection ---------------- *)

(* TcpTransport (model of coq/Tcp, tied to the real transport by C05's TCP stream): reject(c) drops
   the entry — and the socket it owns —, emits no event, creates no future, touches nothing else *)
Theorem C06_tcp_reject_forgets :
  forall s c,
  let s' := fst (V.Tcp.Model.step s (V.Tcp.Model.EReject c)) in
  let os := snd (V.Tcp.Model.step s (V.Tcp.Model.EReject c)) in
  os = [V.Tcp.Model.ORet (V.Tcp.Model.mem c (V.Tcp.Model.pending_open s))] /\ TcpReject.no_event os /\
  ~ In c (V.Tcp.Model.pending_open s') /\
  (forall d, d <> c -> (In d (V.Tcp.Model.pending_open s') <-> In d (V.Tcp.Model.pending_open s))) /\
  V.Tcp.Model.pconn s' = V.Tcp.Model.pconn s /\ V.Tcp.Model.praw s' = V.Tcp.Model.praw s /\
  V.Tcp.Model.opened s' = V.Tcp.Model.opened s /\
  V.Tcp.Model.pending_inbound s' = V.Tcp.Model.pending_inbound s /\
  V.Tcp.Model.pending_dials s' = V.Tcp.Model.pending_dials s /\ V.Tcp.Model.nfut s' = V.Tcp.Model.nfut s.
Proof. exact TcpReject.tcp_reject_forgets. Qed.
Print Assumptions C06_tcp_reject_forgets.

Theorem C06_tcp_reject_pending_forgets :
  forall s c,
  let s' := fst (V.Tcp.Model.step s (V.Tcp.Model.ERejectPending c)) in
  let os := snd (V.Tcp.Model.step s (V.Tcp.Model.ERejectPending c)) in
  os = [V.Tcp.Model.ORet (V.Tcp.Model.mem c (V.Tcp.Model.pending_inbound s))] /\ TcpReject.no_event os /\
  ~ In c (V.Tcp.Model.pending_inbound s') /\
  V.Tcp.Model.pconn s' = V.Tcp.Model.pconn s /\ V.Tcp.Model.praw s' = V.Tcp.Model.praw s /\
  V.Tcp.Model.pending_open s' = V.Tcp.Model.pending_open s /\ V.Tcp.Model.nfut s' = V.Tcp.Model.nfut s.
Proof. exact TcpReject.tcp_reject_pending_forgets. Qed.
Print Assumptions C06_tcp_reject_pending_forgets.

(* on a reachable state nothing is left that could report about a rejected pending socket *)
Theorem C06_tcp_rejected_pending_has_no_future :
  forall s g c, V.Tcp.Theorems.reach s g -> In c (V.Tcp.Model.pending_inbound s) ->
  forall f k, ~ In (f, (c, k)) (V.Tcp.Model.pconn (fst (V.Tcp.Model.step s (V.Tcp.Model.ERejectPending c)))).
Proof. exact TcpReject.tcp_rejected_pending_has_no_future. Qed.
Print Assumptions C06_tcp_rejected_pending_has_no_future.

(* a negotiated connection is handed over (accept) or dropped (reject) exactly once *)
Theorem C06_tcp_accept_or_reject_once :
  forall s c e,
  e = V.Tcp.Model.EAccept c \/ e = V.Tcp.Model.EReject c ->
  snd (V.Tcp.Model.step s e) = [V.Tcp.Model.ORet true] ->
  snd (V.Tcp.Model.step (fst (V.Tcp.Model.step s e)) (V.Tcp.Model.EAccept c)) = [V.Tcp.Model.ORet false] /\
  snd (V.Tcp.Model.step (fst (V.Tcp.Model.step s e)) (V.Tcp.Model.EReject c)) = [V.Tcp.Model.ORet false].
Proof. exact TcpReject.tcp_accept_or_reject_once. Qed.
Print Assumptions C06_tcp_accept_or_reject_once.

(* ---------------- tables read from the Rust source on every check ---------------- *)

(* the methods of ConnectionLimits / its builder / PeerState / the variants of PeerState are exactly
   the ones modelled *)
Theorem C06_api_in_sync :
  CapsTables.limits_api = [0; 1; 2; 3; 4] /\ CapsTables.limits_cfg_api = [0; 1] /\
  CapsTables.peer_api = [0; 1; 2; 3; 4; 5; 6; 7] /\ CapsTables.peer_variants = [0; 1; 2; 3] /\
  CapsTables.sec_variants = [0; 1].
Proof. repeat split; reflexivity. Qed.
Print Assumptions C06_api_in_sync.

(* every call the model lets the manager make on ConnectionLimits is a call site of the source, in
   the function that handles the event; every call site of the source is produced by some event *)
Theorem C06_limits_call_sites :
  (forall L m e o, In o (lim_ops L m e) -> In (Tables.op_site e o) CapsTables.limits_call_sites) /\
  (forall s, In s CapsTables.limits_call_sites -> exists L m e o, In o (lim_ops L m e) /\ Tables.op_site e o = s).
Proof. split; [exact Tables.model_calls_are_source_sites | exact Tables.source_sites_are_modelled]. Qed.
Print Assumptions C06_limits_call_sites.

(* in the source of on_connection_established the limit check precedes the per-peer decision and the
   only accept_established_connection sits inside `if connection_accepted`; next() answers Err and
   Reject by reject, Accept by accept, has two rollbacks, and answers a pending inbound socket by
   accept_pending / reject_pending according to on_pending_incoming_connection *)
Theorem C06_manager_source_shape :
  CapsTables.est_order_ok = true /\ CapsTables.next_arms = [(0, 0); (1, 1); (2, 0)] /\
  CapsTables.rollback_sites = 2 /\ CapsTables.pending_arms_ok = true.
Proof. repeat split; reflexivity. Qed.
Print Assumptions C06_manager_source_shape.

(* tcp, websocket and quic: reject / reject_pending remove the entry (dropping the socket it owns)
   and report Ok iff it existed, accept_pending / accept consume it, accept tells the protocols
   before the connection task is spawned — the shape of the TCP model, for all three transports *)
Theorem C06_transports_reject_shape :
  forall t k, t < 3 -> k < 4 -> In (t, k, 1) CapsTables.transport_shapes.
Proof. exact Tables.transports_uniform. Qed.
Print Assumptions C06_transports_reject_shape.

(* ---- the order constraints of the composition, derived from the C07 node model (coq/Link/C07_C06.v) ----
   Compose08.xok assumes, besides env_ok: (a) the protocol is told ConnectionEstablished(p, c) only for a
   connection of the manager's live ledger and once per id, (b) ConnectionClosed(p, c) only for a
   connection it holds, (c) the manager's own Closed / failed AcceptDone arrive after the protocol let go.
   Formerly cited by name (C07_order, C07_accept_each_once, C07_node_no_rollback); now THEOREMS about a
   node of connection tasks: every run of the C07 node model (manager + accept futures + connection tasks
   + protocols, any interleaving), projected to what protocol i is told (`node_xevs`: XEst / XClosed read
   off the notes NEst i / NClosed i of the accept future / the task, XM for every event the manager is
   fed, in the order the code produces them), is an `xtrace`. Hypotheses left: env_ok for the events the
   transports deliver (node_env_trace), connection ids never announced twice (fresh_ids: the shared
   counter, C05_sys2_counters_in_step; env_ok asks only that the id is not live), protocol i itself stays
   alive (no_die i; the other protocols may exit at any time). *)
Theorem C06_C08_xtrace_on_node :
  forall (i n : nat) (L : limits) (es : list V.C07.Model.nev),
  (i < n)%nat ->
  V.C07.Compose.node_env_trace L (V.C07.Model.node_init n) [] [] es ->
  V.Link.C07_C06.fresh_ids [] es -> V.Link.C07_C06.no_die i es ->
  Compose08.xtrace L Compose08.x0 (V.Link.C07_C06.node_xevs i L (V.C07.Model.node_init n) es).
Proof. exact V.Link.C07_C06.node_provides_xtrace. Qed.
Print Assumptions C06_C08_xtrace_on_node.

(* ... so C08's hypothesis `feasible 2` holds for the TransportService of protocol i of a node: its
   connection events are what the node tells protocol i, its other events satisfy the cap-independent
   rest (connection task's side) *)
Theorem C06_C08_feasible_on_node :
  forall (i n : nat) (L : limits) (es : list V.C07.Model.nev) tr ka T0 n0,
  (i < n)%nat ->
  V.C07.Compose.node_env_trace L (V.C07.Model.node_init n) [] [] es ->
  V.Link.C07_C06.fresh_ids [] es -> V.Link.C07_C06.no_die i es ->
  filter Compose08.is_conn (map snd tr) =
    Compose08.xproj (V.Link.C07_C06.node_xevs i L (V.C07.Model.node_init n) es) ->
  Compose08.feasible_rest V.Ts.Model.env0 (V.Ts.Model.init ka T0 n0) tr = true ->
  V.Ts.Model.feasible 2 V.Ts.Model.env0 (V.Ts.Model.init ka T0 n0) tr = true.
Proof. exact V.Link.C07_C06.node_feasible. Qed.
Print Assumptions C06_C08_feasible_on_node.

(* non-vacuity: two protocols; peer 5 connects over TCP (id 0) and WebSocket (id 1), protocol 1 exits,
   connection 0 ends: protocol 0 is told Established 0, Established 1, Closed 0 *)
Theorem C06_C08_node_nonvacuous :
  let L := mkLimits None None [TCP; WS] in
  let es := [V.C07.Model.NMgr AllocConn; V.C07.Model.NMgr (TrEstablished 5 0 TCP true false); V.C07.Model.NAccept 0;
             V.C07.Model.NMgr AllocConn; V.C07.Model.NMgr (TrEstablished 5 1 WS true false); V.C07.Model.NAccept 1;
             V.C07.Model.NProtoDie 1; V.C07.Model.NTask 0 (V.C07.Model.EYamux V.C07.Model.YEof)] in
  Compose08.xproj (V.Link.C07_C06.node_xevs 0 L (V.C07.Model.node_init 2) es) =
    [V.Ts.Model.EEst 5 0; V.Ts.Model.EEst 5 1; V.Ts.Model.EClosed 5 0] /\
  V.Link.C07_C06.fresh_ids [] es /\ V.Link.C07_C06.no_die 0 es.
Proof. exact V.Link.C07_C06.node_xevs_nonvacuous. Qed.
Print Assumptions C06_C08_node_nonvacuous.
