From Coq Require Import ExtrOcamlBasic.
From V.C08 Require Import Glue.
Extraction Language OCaml.
Extraction "c08_model.ml" run_case prop_ok known_class.
