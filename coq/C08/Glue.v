(* C08 — the shared TransportService model (coq/Ts) with the C08 oracle. Case kind 5 (several
   services over shared connections) goes to the composed model coq/Ts/Multi.v, kind 6 (the name
   tables of ProtocolSet::new) to coq/Ts/Names.v. *)
From Coq Require Import List NArith.
From V.Ts Require Import Model Glue GlueMulti.
Import ListNotations.
Open Scope N_scope.
Definition run_case (l : list N) : list N :=
  match l with 5 :: _ => run_multi l | 6 :: _ => run_names l | _ => V.Ts.Glue.run_case l end.
Definition prop_ok (case trace : list N) : bool :=
  match case with 5 :: _ => multi_ok8 case trace | 6 :: _ => names_ok case trace | _ => prop_ok_C08 case trace end.
(* No known-finding classes: every failing case is a violation. *)
Definition known_class := known_class_C08.
