(* C08 — the shared TransportService model (coq/Ts) with the C08 oracle. *)
From Coq Require Import List NArith.
From V.Ts Require Import Model Glue.
Definition run_case := V.Ts.Glue.run_case.
Definition prop_ok := prop_ok_C08.
(* No known-finding classes: every failing case is a violation. *)
Definition known_class := known_class_C08.
