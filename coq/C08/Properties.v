(* C08 — pinned property theorems about the shared TransportService model (coq/Ts). This file
   contains statements, `exact`, and Print Assumptions only. *)
From Coq Require Import List NArith Bool Sorted.
From V.gen Require Consts.
From V.Ts Require Import Model Proofs Answers Extra Exact Multi MultiProofs Report ReportProofs ReportDead ReportDeadProofs.
From V.Mgr Require Model.
From V.C06 Require Compose08.
From V.Link Require C06_C08.
From V.C07 Require Model Compose.
From V.Link Require C07_C06.
Import ListNotations.
Open Scope N_scope.

(* For every feasible history (any number of peers, any interleaving of establishment and closure
   of at most two overlapping connections per peer — C06's guarantee —, opens, answers, failures,
   keep-alive polls at any times), the events a protocol sees for a peer q form
   (ConnectionEstablished (SubstreamOpened|SubstreamOpenFailure)* ConnectionClosed)*:
   substream events only while connected, strict alternation starting with established. *)
Theorem C08_stream_wellformed :
  forall ka T n0 tr q,
  feasible 2 env0 (init ka T n0) tr = true ->
  exists b, wf_run false (pevs q (concat (run (init ka T n0) tr))) = Some b.
Proof. intros ka T n0 tr q F. exact (stream_wf tr env0 (init ka T n0) q conn_inv_init F). Qed.
Print Assumptions C08_stream_wellformed.

Theorem C08_alternation :
  forall ka T n0 tr q,
  feasible 2 env0 (init ka T n0) tr = true ->
  alternates false (conn_evs q (concat (run (init ka T n0) tr))).
Proof. intros ka T n0 tr q F. exact (alternation tr env0 (init ka T n0) q conn_inv_init F). Qed.
Print Assumptions C08_alternation.

(* One step from any state in which the protocol-side view (primary, secondary) lists the open
   connections of each peer in establishment order: the view stays exact, and the peer's events
   of the step take "has an open connection" before the step to the same predicate after it —
   ConnectionEstablished exactly on first-open, ConnectionClosed exactly on last-close, whichever
   of two overlapping connections closes first. *)
Theorem C08_step_view :
  forall e s dt i,
  conn_inv e (s_ctxs s) (s_pend s) -> ev_ok 2 e s i = true ->
  conn_inv (env_step e i) (s_ctxs (fst (step s dt i))) (s_pend (fst (step s dt i))) /\
  forall q, wf_run (has_conn q (e_live e)) (pevs q (snd (step s dt i))) =
            Some (has_conn q (e_live (env_step e i))).
Proof. exact step_conn. Qed.
Print Assumptions C08_step_view.

(* identifiers returned by open_substream are strictly increasing (hence never reused), also
   when other services draw from the shared counter in between (EBump), for every history in
   which the usize counter does not wrap (nowrap: s_next + draws stays below 2^64 at every step)
   — no environment assumption; across the wrap see C08_ids_unique_mod_2_64 *)
Theorem C08_ids_fresh :
  forall tr s,
  nowrap s tr ->
  StronglySorted N.lt (ret_ids (concat (run s tr))) /\
  Forall (fun i => s_next s <= i) (ret_ids (concat (run s tr))).
Proof. exact ids_sorted. Qed.
Print Assumptions C08_ids_fresh.

(* The substream-id counter is a usize: fetch_add wraps modulo 2^64 (ID_MOD), and the model
   computes it that way. In any history whose inputs can draw at most 2^64 identifiers in total
   (draws: one per open_substream call, n per EBump n), starting from any counter value, no
   identifier is returned twice — also across the wrap. *)
Theorem C08_ids_unique_mod_2_64 :
  forall tr s,
  s_next s < ID_MOD -> draws tr <= ID_MOD -> NoDup (ret_ids (concat (run s tr))).
Proof. exact ids_unique_mod. Qed.
Print Assumptions C08_ids_unique_mod_2_64.

Theorem C08_id_counter_mod_2_64 :
  ID_MOD = 2 ^ 64 /\
  forall s dt e, s_next s < ID_MOD ->
  exists d, d <= draw_of e /\ s_next (fst (step s dt e)) = (s_next s + d) mod ID_MOD /\
            (ret_ids (snd (step s dt e)) = [] \/ (ret_ids (snd (step s dt e)) = [s_next s] /\ d = 1)).
Proof. split; [reflexivity | exact step_draw]. Qed.
Print Assumptions C08_id_counter_mod_2_64.

(* ChannelClogged: open_substream that finds the primary's command channel full (or is refused
   earlier) puts nothing in flight, issues no command and returns no identifier — although an
   identifier has been drawn (C08_id_counter_mod_2_64 with draw_of = 1) and, for a keep-alive
   protocol, the attempt counted as activity (ka_activity_of) *)
Theorem C08_channel_clogged :
  forall s dt p,
  s_pend (fst (step s dt (EOpenFull p))) = s_pend s /\
  ret_ids (snd (step s dt (EOpenFull p))) = [] /\
  (forall c id, ~ In (OCmd c id) (snd (step s dt (EOpenFull p)))) /\
  (exists r, In (ORet r 0) (snd (step s dt (EOpenFull p))) /\ (r = 1 \/ r = 2 \/ r = 3)).
Proof. exact open_full_effect. Qed.
Print Assumptions C08_channel_clogged.

(* an OpenSubstream command is only ever produced by an accepted open_substream(p), carries the
   returned identifier, and goes to the oldest open connection of p (the primary; after the
   primary closed, the former secondary) *)
Theorem C08_primary_only :
  forall e s dt i c id,
  conn_inv e (s_ctxs s) (s_pend s) -> In (OCmd c id) (snd (step s dt i)) ->
  exists p, i = EOpen p /\ hd_error (live_of p (e_live e)) = Some c /\ id = s_next s /\
            In (ORet 0 id) (snd (step s dt i)).
Proof. exact primary_only. Qed.
Print Assumptions C08_primary_only.

(* every answer handed to the protocol for an open in flight (SubstreamOpened{Outbound(id)} or
   SubstreamOpenFailure{id}) carries an identifier that open_substream returned and that has not
   been answered before: over any history, no identifier is answered twice — no environment
   assumption (answers for identifiers not in flight are forwarded as they come and are excluded
   by the feasibility predicate of the stream theorem) *)
Theorem C08_answered_at_most_once :
  forall ka T n0 tr,
  nowrap (init ka T n0) tr ->
  NoDup (ans_ids (concat (run (init ka T n0) tr))) /\
  forall id, In id (ans_ids (concat (run (init ka T n0) tr))) -> n0 <= id.
Proof.
  intros ka T n0 tr NW. destruct (answers_once tr (init ka T n0) (pend_inv_init ka T n0) NW) as [H1 H2].
  split; [exact H1|]. intros id H. destruct (H2 id H) as [[]|L]. exact L.
Qed.
Print Assumptions C08_answered_at_most_once.

(* one step: an answered identifier was in flight before the step and is not afterwards; the set
   in flight only grows by the identifier just returned *)
Theorem C08_answer_consumes :
  forall s dt e, pend_inv s -> nowrap1 s e -> ans_ok s (fst (step s dt e)) (snd (step s dt e)).
Proof. exact step_ans. Qed.
Print Assumptions C08_answer_consumes.

(* C08_open_answered, as far as the service is responsible.
   (a) acceptance: an OpenSubstream command (produced only by an accepted open_substream, see
       C08_primary_only) puts the returned identifier in flight on that connection;
   (b) persistence: an identifier in flight stays in flight over any step unless that step hands
       the protocol an answer carrying it, or reports its connection closed;
   (c) over a whole history: every accepted open is, at the end, still in flight on its
       connection, or answered, or its connection was reported closed after it. *)
Theorem C08_open_in_flight :
  forall s dt e c id,
  pend_inv s -> In (OCmd c id) (snd (step s dt e)) ->
  exists p, pfind id (s_pend (fst (step s dt e))) = Some (p, c).
Proof. exact step_accept. Qed.
Print Assumptions C08_open_in_flight.

Theorem C08_in_flight_until_answered_or_closed :
  forall s dt e id k,
  pfind id (s_pend s) = Some k ->
  pfind id (s_pend (fst (step s dt e))) = Some k \/ In id (ans_ids (snd (step s dt e))) \/
  exists p, e = EClosed p (snd k).
Proof. exact step_inflight. Qed.
Print Assumptions C08_in_flight_until_answered_or_closed.

Theorem C08_open_resolution :
  forall tr s c id,
  pend_inv s -> nowrap s tr -> In (OCmd c id) (concat (run s tr)) ->
  (exists p, pfind id (s_pend (final s tr)) = Some (p, c)) \/
  In id (ans_ids (concat (run s tr))) \/
  exists dt p, In (dt, EClosed p c) tr.
Proof. exact opened_resolution. Qed.
Print Assumptions C08_open_resolution.

(* "at most once, and exactly once unless its connection terminates first": under the explicit
   ENVIRONMENT HYPOTHESIS that the open is no longer in flight at the end of the history — i.e.
   the connection task answered the command it received (tcp/connection.rs answers each
   OpenSubstream with opened or failure, C07's side) or was reported closed — every accepted
   open has exactly one answer with its own identifier, or its connection was closed; never two. *)
Theorem C08_open_answered :
  forall tr ka T n0 c id,
  nowrap (init ka T n0) tr ->
  In (OCmd c id) (concat (run (init ka T n0) tr)) ->
  pfind id (s_pend (final (init ka T n0) tr)) = None ->
  (count_occ N.eq_dec (ans_ids (concat (run (init ka T n0) tr))) id <= 1)%nat /\
  (count_occ N.eq_dec (ans_ids (concat (run (init ka T n0) tr))) id = 1%nat \/
   exists dt p, In (dt, EClosed p c) tr).
Proof. exact open_answered. Qed.
Print Assumptions C08_open_answered.

(* ---- the reporting side of ProtocolSet (bounded per-protocol channels, Report.v) ----
   For every history of reports and drains, every number of protocols and every capacity: per
   protocol, what has been received, followed by what is queued, followed by what is still
   waiting for room, is exactly the sequence of events of the started reports (result code
   "completed" or "waiting") — nothing is dropped, duplicated or reordered; the queue never
   exceeds the capacity. (All four report functions wait for room; none uses try_send.) *)
Theorem C08_report_no_loss :
  forall l nproto cap p ch,
  nth_error (r_ch (rfinal (rinit nproto cap) l)) p = Some ch ->
  got_all p l (rrun (rinit nproto cap) l) ++ rq ch ++ map snd (rw ch) =
  sent_all p l (rrun (rinit nproto cap) l).
Proof. exact delivered_prefix. Qed.
Print Assumptions C08_report_no_loss.

Theorem C08_report_channel_invariant :
  forall l nproto cap, rinv (rfinal (rinit nproto cap) l).
Proof. intros l nproto cap. apply rfinal_inv. apply rinit_inv. Qed.
Print Assumptions C08_report_channel_invariant.

(* delivered after finitely many drain steps: for every capacity >= 1, if after any history the
   protocol receives one event at a time as many times as its backlog is long, it has received
   exactly the events of all started reports, each once, in order *)
Theorem C08_report_delivered :
  forall rl nproto cap p,
  (1 <= cap)%nat -> (p < nproto)%nat ->
  let n := backlog_p (rfinal (rinit nproto cap) rl) p in
  let rl' := rl ++ repeat (RDrain (N.of_nat p) 1) n in
  got_all p rl' (rrun (rinit nproto cap) rl') = sent_all p rl (rrun (rinit nproto cap) rl).
Proof. exact report_all_delivered. Qed.
Print Assumptions C08_report_delivered.

(* the production capacity (DEFAULT_CHANNEL_SIZE, regenerated from src/lib.rs on every run)
   satisfies the hypothesis of the delivery theorem *)
Theorem C08_report_default_capacity :
  (1 <= N.to_nat V.gen.Consts.DEFAULT_CHANNEL_SIZE)%nat.
Proof. apply PeanoNat.Nat.leb_le. vm_compute. reflexivity. Qed.
Print Assumptions C08_report_default_capacity.

(* composition with the service model: the events of protocol p's channel are the inputs of its
   TransportService. If the answer event for an accepted open (SubstreamOpened{Outbound(id)} or
   SubstreamOpenFailure{id}) reaches the service after the open — which C08_report_delivered
   guarantees once the connection task has reported the outcome and the protocol keeps polling —
   then the open is no longer in flight at the end of any continuation, and it is answered exactly
   once, or ConnectionClosed for its connection was delivered; never twice. *)
Theorem C08_answer_event_resolves :
  forall tr1 dt a tr2 ka T n0 c id,
  nowrap (init ka T n0) (tr1 ++ (dt, a) :: tr2) ->
  In (OCmd c id) (concat (run (init ka T n0) tr1)) ->
  (exists m, a = ESubOut id m) \/ a = ESubFail id ->
  pfind id (s_pend (final (init ka T n0) (tr1 ++ (dt, a) :: tr2))) = None.
Proof. exact answer_event_resolves. Qed.
Print Assumptions C08_answer_event_resolves.

Theorem C08_open_answered_when_delivered :
  forall tr1 dt a tr2 ka T n0 c id,
  nowrap (init ka T n0) (tr1 ++ (dt, a) :: tr2) ->
  In (OCmd c id) (concat (run (init ka T n0) tr1)) ->
  (exists m, a = ESubOut id m) \/ a = ESubFail id ->
  let tr := tr1 ++ (dt, a) :: tr2 in
  (count_occ N.eq_dec (ans_ids (concat (run (init ka T n0) tr))) id <= 1)%nat /\
  (count_occ N.eq_dec (ans_ids (concat (run (init ka T n0) tr))) id = 1%nat \/
   exists dt' p, In (dt', EClosed p c) tr).
Proof. exact open_answered_delivered. Qed.
Print Assumptions C08_open_answered_when_delivered.

(* ---- a protocol whose receiver is gone (ReportDead.v) ----
   Without a dead protocol the layer is the base report model, so the theorems above apply. *)
Theorem C08_report_layer_conservative :
  forall l s bs,
  all_base l = Some bs ->
  dfinal (mkD s [] []) l = mkD (rfinal s bs) [] [] /\ drun (mkD s [] []) l = map lift (rrun s bs).
Proof. exact drun_nodead. Qed.
Print Assumptions C08_report_layer_conservative.

(* Since fix 2c7c81a (F-C07b): report_connection_established with dead protocols in the table —
   every LIVE protocol is handed "established" exactly once (send_one: queued, or waiting for room
   like any other report), dead ones are skipped, and the report does not fail: its result is
   "completed" or "waiting for room", never an error, whatever the poll order (the mask). *)
Theorem C08_established_skips_dead :
  forall d c mask,
  busy (d_s d) c = false -> d_gone d = [] ->
  let d' := fst (dstep d (DEst c mask)) in
  let out := snd (dstep d (DEst c mask)) in
  do_code out = (if busy (d_s d') c then 1 else 0) /\
  d_dead d' = d_dead d /\
  forall p ch', nth_error (r_ch (d_s d')) p = Some ch' ->
    exists ch, nth_error (r_ch (d_s d)) p = Some ch /\
               ch' = if is_dead d (N.of_nat p) then ch else send_one (r_cap (d_s d)) c (IEst c) ch.
Proof. exact est_skips_dead. Qed.
Print Assumptions C08_established_skips_dead.

(* ... and a later "closed" reaches exactly the same set: every live protocol, once *)
Theorem C08_closed_reaches_live :
  forall d c,
  busy (d_s d) c = false -> d_gone d = [] ->
  let d' := fst (dstep d (DBase (RClosed c))) in
  do_code (snd (dstep d (DBase (RClosed c)))) <> 2 /\
  d_dead d' = d_dead d /\
  forall p ch', nth_error (r_ch (d_s d')) p = Some ch' ->
    exists ch, nth_error (r_ch (d_s d)) p = Some ch /\
               ch' = if is_dead d (N.of_nat p) then ch else send_one (r_cap (d_s d)) c (IClosed c) ch.
Proof. exact closed_reaches_live. Qed.
Print Assumptions C08_closed_reaches_live.

(* Established and Closed are paired: for every history (kills at any point, any capacity), every
   protocol that is alive at the end has been handed exactly the accepted established / closed
   reports of the history, each once and in order (conn_reports is computed from the inputs and
   their result codes alone, it does not depend on the protocol). So a protocol told "established"
   for a connection is told "closed" for it exactly when, and as often as, the connection task
   reports it — once — unless the protocol exits first; and by the conservation theorem of the
   live channel these events are delivered in that order. *)
Theorem C08_established_closed_paired :
  forall l nproto cap p ch,
  nth_error (r_ch (d_s (dfinal (dinit nproto cap) l))) p = Some ch ->
  is_dead (dfinal (dinit nproto cap) l) (N.of_nat p) = false ->
  filter is_conn_item (racc ch) = conn_reports l (drun (dinit nproto cap) l).
Proof. exact established_closed_paired. Qed.
Print Assumptions C08_established_closed_paired.

(* the repaired code never gives a connection up: d_gone stays empty *)
Theorem C08_no_connection_given_up :
  forall d o, d_gone d = [] -> d_gone (fst (dstep d o)) = [].
Proof. exact gone_stays_nil. Qed.
Print Assumptions C08_no_connection_given_up.

(* Pinning the repair: the code BEFORE the fix (dstep_before_fix) told the protocols polled before
   the dead one "established", failed, and gave the connection up — a later "closed" report was
   refused, so those protocols kept a peer connected for ever (F-C07b). The same history on the
   code as it is: everybody alive is told established and then closed. *)
Theorem C08_established_before_fix_refuted :
  let l := [DKill 0; DEst 7 2; DBase (RClosed 7); DBase (RDrain 1 9)] in
  (map do_code (drun_before_fix (dinit 2 2) l) = [0; 3; 2; 0] /\
   map do_got (drun_before_fix (dinit 2 2) l) = [[]; []; []; [IEst 7]]) /\
  (map do_code (drun (dinit 2 2) l) = [0; 0; 3; 0] /\
   map do_got (drun (dinit 2 2) l) = [[]; []; []; [IEst 7; IClosed 7]]).
Proof. vm_compute. repeat split; reflexivity. Qed.
Print Assumptions C08_established_before_fix_refuted.

(* what the pre-fix function did in general (kept for the record of the finding) *)
Theorem C08_established_before_fix_observation :
  forall d c mask,
  d_dead d <> [] -> busy (d_s d) c = false -> existsb (N.eqb c) (d_gone d) = false ->
  let d' := fst (dstep_before_fix d (DEst c mask)) in
  do_code (snd (dstep_before_fix d (DEst c mask))) = 3 /\
  d_dead d' = d_dead d /\ d_gone d' = c :: d_gone d /\
  (forall p ch', nth_error (r_ch (d_s d')) p = Some ch' ->
     exists ch, nth_error (r_ch (d_s d)) p = Some ch /\ rw ch' = rw ch /\ rdel ch' = rdel ch /\
       (ch' = ch \/
        (rq ch' = rq ch ++ [IEst c] /\ racc ch' = racc ch ++ [IEst c] /\
         N.testbit mask (N.of_nat p) = true /\ is_dead d (N.of_nat p) = false /\
         rw ch = [] /\ (length (rq ch) < r_cap (d_s d))%nat))).
Proof. exact est_dead_observation. Qed.
Print Assumptions C08_established_before_fix_observation.

(* ... and "closed" for that connection can only come from an explicit report_connection_closed,
   (and no connection is given up any more, C08_no_connection_given_up) *)
Theorem C08_no_closed_without_report :
  forall d o c p ch ch',
  nth_error (r_ch (d_s d)) p = Some ch -> nth_error (r_ch (d_s (fst (dstep d o)))) p = Some ch' ->
  (forall b, o <> DBase (RClosed b)) ->
  ~ In (IClosed c) (racc ch) -> ~ In (IClosed c) (racc ch').
Proof. exact only_closed_reports_closed. Qed.
Print Assumptions C08_no_closed_without_report.

(* ---- outside the manager's contract: what the service does, and what survives ----
   ConnectionEstablished / ConnectionClosed alternate per peer for EVERY history, from every
   state — no feasibility assumption: more than two connections per peer, closed or substream
   notifications for unknown connections, answers for unknown requests. Established is emitted
   exactly when the peer gets its context, closed exactly when the context is removed (hc). What
   is lost outside the contract is the link between "has a context" and "has an open connection"
   (C08_needs_two_per_peer), not the alternation. *)
Theorem C08_alternation_unconditional :
  forall tr s q, alternates (hc (s_ctxs s) q) (conn_evs q (concat (run s tr))).
Proof. exact alternation_any. Qed.
Print Assumptions C08_alternation_unconditional.

(* the only panic site of the service, debug_assert!(false) in on_connection_closed (a panic in
   debug builds, a logged no-op in release builds), is reached exactly by a closed notification for
   a peer the service has no connection to — whatever else the history contains — ... *)
Theorem C08_panic_exactly_unknown_peer :
  forall s dt i,
  In OPanic (snd (step s dt i)) <-> exists p c, i = EClosed p c /\ find_ctx p (s_ctxs s) = None.
Proof. exact panic_iff. Qed.
Print Assumptions C08_panic_exactly_unknown_peer.

(* ... and never inside the contract *)
Theorem C08_no_panic_in_contract :
  forall ka T n0 tr,
  feasible 2 env0 (init ka T n0) tr = true -> ~ In OPanic (concat (run (init ka T n0) tr)).
Proof. intros ka T n0 tr F. exact (no_panic tr env0 (init ka T n0) conn_inv_init F). Qed.
Print Assumptions C08_no_panic_in_contract.

(* a third connection of a peer is rejected: no event, contexts and tracker untouched, no
   keep-alive activity (its handle is dropped with the event) *)
Theorem C08_third_connection_ignored :
  forall s p c cx h,
  find_ctx p (s_ctxs s) = Some cx -> c_sec cx = Some h ->
  snd (handle_ev s (EEst p c)) = [] /\ ka_activity_of s (EEst p c) = None /\
  s_ctxs (fst (handle_ev s (EEst p c))) = s_ctxs s /\ s_last (fst (handle_ev s (EEst p c))) = s_last s /\
  s_timers (fst (handle_ev s (EEst p c))) = s_timers s.
Proof. exact third_ignored. Qed.
Print Assumptions C08_third_connection_ignored.

(* a closed notification whose id is not the primary's: nothing is emitted and the primary stays,
   but the secondary slot is emptied whatever it held (secondary.take()) *)
Theorem C08_closed_unknown_id_drops_secondary :
  forall s p c cx,
  find_ctx p (s_ctxs s) = Some cx -> h_id (c_prim cx) <> c ->
  snd (handle_ev s (EClosed p c)) = [] /\
  find_ctx p (s_ctxs (fst (handle_ev s (EClosed p c)))) = Some (mkCtx p (c_prim cx) None).
Proof. exact closed_unknown_id. Qed.
Print Assumptions C08_closed_unknown_id_drops_secondary.

(* ---- force_close ----
   the call is invisible to the service: contexts, tracker, counter and opens in flight are what a
   plain poll at the same instant leaves; its ForceClose commands (which carry no permit) go only to
   open connections of that peer; PeerDoesntExist exactly when the peer has no open connection, Ok
   only together with the command to the primary, ChannelClogged only for a full primary channel *)
Theorem C08_force_close_invisible :
  forall s dt p fs fp, fst (step s dt (EForce p fs fp)) = fst (step s dt ENone).
Proof. exact force_state. Qed.
Print Assumptions C08_force_close_invisible.

Theorem C08_force_close_targets :
  forall e s dt i c,
  conn_inv e (s_ctxs s) (s_pend s) -> In (OForce c) (snd (step s dt i)) ->
  exists p fs fp, i = EForce p fs fp /\ In c (live_of p (e_live e)).
Proof. exact force_targets. Qed.
Print Assumptions C08_force_close_targets.

Theorem C08_force_close_result :
  forall e s dt p fs fp r,
  conn_inv e (s_ctxs s) (s_pend s) -> In (ORetF r) (snd (step s dt (EForce p fs fp))) ->
  (r = 1 <-> live_of p (e_live e) = []) /\
  (r = 0 -> exists c, hd_error (live_of p (e_live e)) = Some c /\ In (OForce c) (snd (step s dt (EForce p fs fp)))) /\
  (r = 3 -> fp = true) /\ r <= 3.
Proof. exact force_result. Qed.
Print Assumptions C08_force_close_result.

(* ---- several protocols of one node (Multi.v): every TransportService inside the composition ----
   N services with their own keep-alive flags and timeouts share the connections: the command
   channel of a connection (ProtocolSet::rx) with its bounded FIFO queue, the strong-sender count
   of that channel (ConnectionHandle / Permit), the substream-id counter. For every feasible
   history of the composition and every service k of it, the events that service hands its
   protocol for a peer q form (ConnectionEstablished (SubstreamOpened|SubstreamOpenFailure)*
   ConnectionClosed)* — what the other protocols do on the same connections (their opens, their
   downgrades, a clogged command channel, the order in which the connection task takes commands)
   does not disturb it. *)
Theorem C08_multi_stream_wellformed :
  forall tr cap cfg n0 q k,
  mfeasible 2 env0 (minit cap cfg n0) tr = true -> (k < length cfg)%nat ->
  exists b, wf_run false (pevs q (comp_outs k (mrun (minit cap cfg n0) tr))) = Some b.
Proof.
  intros tr cap cfg n0 q k F LT. eexists.
  apply (multi_stream_wf tr env0 (minit cap cfg n0) q k (minit_exact cap cfg n0) F).
  unfold minit. cbn [m_svcs]. rewrite map_length. exact LT.
Qed.
Print Assumptions C08_multi_stream_wellformed.

(* identifiers returned by open_substream of ALL services of a node, in the order of the calls,
   are strictly increasing — never reused across protocols either — while the shared counter does
   not wrap (mdraws: one per open_substream call of any service) *)
Theorem C08_multi_ids_fresh :
  forall tr m,
  m_next m + mdraws tr < ID_MOD ->
  StronglySorted N.lt (flat_map mret (mrun m tr)) /\
  Forall (fun i => m_next m <= i) (flat_map mret (mrun m tr)).
Proof. exact multi_ids_sorted. Qed.
Print Assumptions C08_multi_ids_fresh.

(* the single-service model leaves "strong senders held by other protocols" to its environment;
   inside the composition that environment is exact: after every step every service sees, for
   every connection it knows, precisely the shared channel (the sum over all services of Active
   handle + live keep-alive substreams + opens in flight) *)
Theorem C08_multi_view_exact :
  forall m dt e s c,
  In s (m_svcs (fst (mstep m dt e))) -> find_ch c (s_chans s) <> None ->
  strong s c = mstrong (m_svcs (fst (mstep m dt e))) c.
Proof. exact mstep_view. Qed.
Print Assumptions C08_multi_view_exact.

(* the shared command channel of a connection (ProtocolSet::rx behind the ConnectionHandles of all
   protocols) loses nothing: as long as the connection is not reported closed, the commands its
   connection task has taken with next(), followed by what is still queued, are exactly the
   OpenSubstream / ForceClose commands the services issued for it, in the order they were issued.
   With C09_multi_next_none_iff (next() returns None only on an empty queue) every accepted open
   reaches the connection task before the task can end. *)
Theorem C08_multi_commands_fifo :
  forall tr m c,
  forallb (fun de => negb (closes c (snd de))) tr = true ->
  taken c tr (mrun m tr) ++ qfind c (m_q (mfinal m tr)) = qfind c (m_q m) ++ issued c (mrun m tr).
Proof. exact queue_conservation. Qed.
Print Assumptions C08_multi_commands_fifo.

(* non-vacuity: two services, command channel of capacity 1: the second open meets a full channel
   (ChannelClogged) and draws an identifier all the same; the connection task takes the first
   command, a third open is accepted with the next identifier *)
Example C08_multi_nonvacuous :
  let tr := [(0, MAll (EEst 0 1)); (0, MOne 0 (EOpen 0)); (0, MOne 1 (EOpen 0)); (0, MNext 1);
             (0, MOne 1 (EOpen 0)); (0, MNext 1); (0, MOne 0 (ESubOut 0 true))] in
  mfeasible 2 env0 (minit 1 [(true, 300); (false, 500)] 0) tr = true /\
  map (fun o => (map ret_ids (fst o), snd o)) (mrun (minit 1 [(true, 300); (false, 500)] 0) tr) =
  [([[]; []], NNo); ([[0]; []], NNo); ([[]; []], NNo); ([[]; []], NCmd 0 0);
   ([[]; [2]], NNo); ([[]; []], NCmd 1 2); ([[]; []], NNo)] /\
  comp_outs 0 (mrun (minit 1 [(true, 300); (false, 500)] 0) tr) = [OEst 0; ORet 0 0; OCmd 1 0; OSub 0 (Some 0)] /\
  comp_outs 1 (mrun (minit 1 [(true, 300); (false, 500)] 0) tr) = [OEst 0; ORet 3 0; ORet 0 2; OCmd 1 2].
Proof. vm_compute. repeat split; reflexivity. Qed.

(* Without C06's "at most two connections per peer" the statement is false: with three, closing
   the ignored third drops the live secondary (secondary.take() on an unknown id), and the
   protocol is told "closed" while a connection is open and then handed a substream. *)
Theorem C08_needs_two_per_peer :
  exists tr q,
  feasible 3 env0 (init true 1000 0) tr = true /\
  wf_run false (pevs q (concat (run (init true 1000 0) tr))) = None.
Proof.
  exists [(0, EEst 0 1); (0, EEst 0 2); (0, EOtherUp 2); (0, EEst 0 3); (0, EClosed 0 3);
          (0, EClosed 0 1); (0, ESubIn 0 2 true)], 0.
  vm_compute. split; reflexivity.
Qed.
Print Assumptions C08_needs_two_per_peer.

(* non-vacuity: two overlapping connections, the primary closes first, opens before and after *)
Example C08_nonvacuous :
  let tr := [(0, EEst 7 1); (0, EEst 7 2); (0, EOpen 7); (0, EClosed 7 1); (0, EOpen 7);
             (0, ESubOut 1 true); (0, EClosed 7 2)] in
  feasible 2 env0 (init true 1000 0) tr = true /\
  concat (run (init true 1000 0) tr) =
  [OEst 7; ORet 0 0; OCmd 1 0; ORet 0 1; OCmd 2 1; OSub 7 (Some 1); OClosed 7].
Proof. vm_compute. split; reflexivity. Qed.

(* non-vacuity of the report level: one protocol, capacity 1; the established event fills the
   channel, the failure report waits, a drain lets it through, a second drain delivers it *)
Example C08_report_nonvacuous :
  let l := [REst 1; RSubFail 1 0 7; RDrain 0 1; RDrain 0 1] in
  map o_code (rrun (rinit 1 1) l) = [0; 1; 0; 0] /\
  map o_got (rrun (rinit 1 1) l) = [[]; []; [IEst 1]; [IFailure 1 7]] /\
  map o_done (rrun (rinit 1 1) l) = [[]; []; [1]; []].
Proof. vm_compute. repeat split; reflexivity. Qed.

(* non-vacuity of the wrap: the counter starts 2 below 2^64; four opens return 2^64-2, 2^64-1, 0, 1;
   a clogged open in between draws an identifier without returning one *)
Example C08_wrap_nonvacuous :
  let tr := [(0, EEst 0 1); (0, EOpen 0); (0, EOpen 0); (0, EOpenFull 0); (0, EOpen 0)] in
  ret_ids (concat (run (init true 1000 (ID_MOD - 2)) tr)) = [ID_MOD - 2; ID_MOD - 1; 1] /\
  s_next (final (init true 1000 (ID_MOD - 2)) tr) = 2.
Proof. vm_compute. split; reflexivity. Qed.

(* ---- under the manager (coq/Link/C06_C08.v): the `feasible 2` hypothesis of the theorems above is
   discharged for a service whose connection events are the reports of a history of the composed
   system manager + protocol reports of coq/C06/Compose08.v (C06_provides_C08_feasible). What is
   left: `xtrace` (the manager's environment, and the order between reports and manager events) and `feasible_rest`, the cap-independent
   part of the assumption (substream notifications for open connections, answers for opens in
   flight: the connection task's side). ---- *)
Theorem C08_stream_wellformed_under_manager :
  forall (L : V.Mgr.Model.limits) (xs : list V.C06.Compose08.xev) tr ka T n0 q,
  V.C06.Compose08.xtrace L V.C06.Compose08.x0 xs ->
  filter V.C06.Compose08.is_conn (map snd tr) = V.C06.Compose08.xproj xs ->
  V.C06.Compose08.feasible_rest env0 (init ka T n0) tr = true ->
  exists b, wf_run false (pevs q (concat (run (init ka T n0) tr))) = Some b.
Proof. intros L xs tr ka T n0 q HX HP HR. exact (V.Link.C06_C08.stream_wellformed_under_manager L xs tr ka T n0 HX HP HR q). Qed.
Print Assumptions C08_stream_wellformed_under_manager.

Theorem C08_alternation_under_manager :
  forall (L : V.Mgr.Model.limits) (xs : list V.C06.Compose08.xev) tr ka T n0 q,
  V.C06.Compose08.xtrace L V.C06.Compose08.x0 xs ->
  filter V.C06.Compose08.is_conn (map snd tr) = V.C06.Compose08.xproj xs ->
  V.C06.Compose08.feasible_rest env0 (init ka T n0) tr = true ->
  alternates false (conn_evs q (concat (run (init ka T n0) tr))).
Proof. intros L xs tr ka T n0 q HX HP HR. exact (V.Link.C06_C08.alternation_under_manager L xs tr ka T n0 HX HP HR q). Qed.
Print Assumptions C08_alternation_under_manager.

Theorem C08_no_panic_under_manager :
  forall (L : V.Mgr.Model.limits) (xs : list V.C06.Compose08.xev) tr ka T n0,
  V.C06.Compose08.xtrace L V.C06.Compose08.x0 xs ->
  filter V.C06.Compose08.is_conn (map snd tr) = V.C06.Compose08.xproj xs ->
  V.C06.Compose08.feasible_rest env0 (init ka T n0) tr = true ->
  ~ In OPanic (concat (run (init ka T n0) tr)).
Proof. intros L xs tr ka T n0 HX HP HR. exact (V.Link.C06_C08.no_panic_under_manager L xs tr ka T n0 HX HP HR). Qed.
Print Assumptions C08_no_panic_under_manager.

(* the same for the several-services composition: `mfeasible 2` splits into the connection part
   (the manager's guarantee) and a cap-independent rest, and every service's stream is well-formed
   under the manager *)
Theorem C08_multi_feasible_split :
  forall cap tr e m,
  mfeasible cap e m tr =
  V.Link.C06_C08.mfeasible_rest e m tr && V.C06.Compose08.conn_feasible cap e (V.Link.C06_C08.m_conn_evs tr).
Proof. exact V.Link.C06_C08.mfeasible_split. Qed.
Print Assumptions C08_multi_feasible_split.

Theorem C08_multi_stream_wellformed_under_manager :
  forall (L : V.Mgr.Model.limits) (xs : list V.C06.Compose08.xev) tr cap cfg n0 q k,
  V.C06.Compose08.xtrace L V.C06.Compose08.x0 xs ->
  V.Link.C06_C08.m_conn_evs tr = V.C06.Compose08.xproj xs ->
  V.Link.C06_C08.mfeasible_rest env0 (minit cap cfg n0) tr = true ->
  (k < length cfg)%nat ->
  exists b, wf_run false (pevs q (comp_outs k (mrun (minit cap cfg n0) tr))) = Some b.
Proof.
  intros L xs tr cap cfg n0 q k HX HP HR LT.
  exact (C08_multi_stream_wellformed tr cap cfg n0 q k
           (V.Link.C06_C08.multi_feasible_under_manager L xs tr cap cfg n0 HX HP HR) LT).
Qed.
Print Assumptions C08_multi_stream_wellformed_under_manager.

(* ---- on a node (coq/Link/C07_C06.v): the TransportService of protocol i of a node of connection
   tasks (C07's node model: manager + accept futures + connection tasks + protocols). Its connection
   events are what the node tells protocol i (`node_xevs`); the hypothesis `xtrace` of the corollaries
   above is a theorem there (C06_C08_xtrace_on_node). Left: env_ok for what the transports deliver to the
   manager, globally fresh connection ids, protocol i stays alive, and `feasible_rest`. ---- *)
Theorem C08_stream_wellformed_on_node :
  forall (i n : nat) (L : V.Mgr.Model.limits) (es : list V.C07.Model.nev) tr ka T n0 q,
  (i < n)%nat ->
  V.C07.Compose.node_env_trace L (V.C07.Model.node_init n) [] [] es ->
  V.Link.C07_C06.fresh_ids [] es -> V.Link.C07_C06.no_die i es ->
  filter V.C06.Compose08.is_conn (map snd tr) =
    V.C06.Compose08.xproj (V.Link.C07_C06.node_xevs i L (V.C07.Model.node_init n) es) ->
  V.C06.Compose08.feasible_rest env0 (init ka T n0) tr = true ->
  exists b, wf_run false (pevs q (concat (run (init ka T n0) tr))) = Some b.
Proof.
  intros i n L es tr ka T n0 q H He Hf Hd HP HR.
  exact (C08_stream_wellformed ka T n0 tr q (V.Link.C07_C06.node_feasible i n L es tr ka T n0 H He Hf Hd HP HR)).
Qed.
Print Assumptions C08_stream_wellformed_on_node.

Theorem C08_alternation_on_node :
  forall (i n : nat) (L : V.Mgr.Model.limits) (es : list V.C07.Model.nev) tr ka T n0 q,
  (i < n)%nat ->
  V.C07.Compose.node_env_trace L (V.C07.Model.node_init n) [] [] es ->
  V.Link.C07_C06.fresh_ids [] es -> V.Link.C07_C06.no_die i es ->
  filter V.C06.Compose08.is_conn (map snd tr) =
    V.C06.Compose08.xproj (V.Link.C07_C06.node_xevs i L (V.C07.Model.node_init n) es) ->
  V.C06.Compose08.feasible_rest env0 (init ka T n0) tr = true ->
  alternates false (conn_evs q (concat (run (init ka T n0) tr))).
Proof.
  intros i n L es tr ka T n0 q H He Hf Hd HP HR.
  exact (C08_alternation ka T n0 tr q (V.Link.C07_C06.node_feasible i n L es tr ka T n0 H He Hf Hd HP HR)).
Qed.
Print Assumptions C08_alternation_on_node.
