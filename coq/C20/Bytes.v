(* C20 — the Bitswap messages as bytes.

   Model.v counts bytes (want_elen, presence_elen, entry_len, blk_mlen, req_mlen: the arithmetic of
   encoded_want_size / encoded_presence_size / encoded_block_size and of prost's encoded_len).
   Here the three messages that the loop writes are built as byte strings with the generic
   protobuf encoder of coq/common/Protobuf.v (the one C19 ties to prost byte by byte):
     request_bytes    = request_message(cids)          (send_request)
     presences_bytes  = presences_message(presences)   (send_response)
     blocks_bytes     = blocks_message(blocks)         (send_response)
   and the counted sizes are proved to be the lengths of these byte strings, so that the
   batching theorems speak about bytes on the wire.  Definitions first, then proofs. *)
From Coq Require Import List NArith Bool Lia.
From V.common Require Varint Protobuf.
From V.gen Require Consts.
From V.C20 Require Import Model Proofs.
Import ListNotations.
Open Scope N_scope.

Notation field := Protobuf.field.
Notation blen := Protobuf.blen.
Notation encode_fields := Protobuf.encode_fields.

(* proto3: a field holding the default value (empty bytes, 0) is not written *)
Definition fb (num : N) (b : list N) : list field :=
  match b with [] => [] | _ => [(num, Protobuf.WLen b)] end.
Definition fi (num n : N) : list field := if n =? 0 then [] else [(num, Protobuf.WVarint n)].
(* an embedded message *)
Definition sub (num : N) (fs : list field) : field := (num, Protobuf.WLen (encode_fields fs)).

(* wantlist::Entry { block, priority: 1, cancel: false, want_type, send_dont_have: false } *)
Definition want_fields (cw : cid * want_type) : list field :=
  fb 1 (cid_to_bytes (fst cw)) ++ fi 2 1 ++ fi 4 (want_code (snd cw)).

(* Message { wantlist: Some(Wantlist { entries, full: false }), ..Default::default() } *)
Definition request_fields (cids : list (cid * want_type)) : list field :=
  [sub 1 (map (fun cw => sub 1 (want_fields cw)) cids)].
Definition request_bytes (cids : list (cid * want_type)) : list N := encode_fields (request_fields cids).

(* BlockPresence { cid, type } *)
Definition presence_fields (p : spres) : list field :=
  fb 1 (cid_to_bytes (sp_cid p)) ++ fi 2 (presence_code (sp_type p)).

(* Message { wantlist: Some(Default::default()), block_presences, ..Default::default() } *)
Definition presences_fields (l : list spres) : list field :=
  sub 1 [] :: map (fun p => sub 4 (presence_fields p)) l.
Definition presences_bytes (l : list spres) : list N := encode_fields (presences_fields l).

(* a block with its data: (CID, data bytes) *)
Definition cblock := (cid * list N)%type.
Definition cb_prefix (b : cblock) : list N := prefix_to_bytes (prefix_of_cid (fst b)).
Definition cb_dlen (b : cblock) : N := blen (snd b).
Definition cb_elen (b : cblock) : N := entry_len (blen (cb_prefix b)) (cb_dlen b).

(* Block { prefix, data } *)
Definition block_fields (b : cblock) : list field := fb 1 (cb_prefix b) ++ fb 2 (snd b).

(* Message { wantlist: Some(Default::default()), payload, ..Default::default() } *)
Definition blocks_fields (l : list cblock) : list field :=
  sub 1 [] :: map (fun b => sub 3 (block_fields b)) l.
Definition blocks_bytes (l : list cblock) : list N := encode_fields (blocks_fields l).

(* send_response on blocks that carry their data *)
Definition send_response_cblocks (mb mm : N) (l : list cblock) : list (list cblock) :=
  sent_batches cblock cb_dlen cb_elen blk_mlen mb mm l.

(* ------------------------------------------------------------------ proofs *)

Local Arguments N.of_nat : simpl never.

Lemma two64 : 2 ^ 64 = 18446744073709551616. Proof. reflexivity. Qed.

(* the encoder of Model.v (unsigned_varint / prost with a ten-byte cap) is the generic one *)
Lemma enc_f_eq :
  forall fuel n, n < Varint.pow128 (S fuel) -> varint_enc_f fuel n = Varint.encode n.
Proof.
  induction fuel as [|f IH]; intros n H.
  - cbn [Varint.pow128] in H. cbn [varint_enc_f].
    destruct (n <? 128) eqn:E; [|apply N.ltb_ge in E; lia].
    symmetry. apply Varint.encode_small. apply N.ltb_lt. exact E.
  - cbn [varint_enc_f]. destruct (n <? 128) eqn:E.
    + symmetry. apply Varint.encode_small. apply N.ltb_lt. exact E.
    + apply N.ltb_ge in E. rewrite lo7_mod, hi7_div, Varint.encode_step by exact E. f_equal.
      apply IH. apply Varint.div128_lt. exact H.
Qed.

Lemma enc_eq : forall n, n < 2 ^ 64 -> varint_enc n = Varint.encode n.
Proof.
  intros n H. unfold varint_enc. apply enc_f_eq. pose proof Varint.pow128_10. lia.
Qed.

Lemma vlen_encode : forall n, n < 2 ^ 64 -> blen (Varint.encode n) = vlen n.
Proof. intros n H. unfold vlen. rewrite enc_eq by exact H. reflexivity. Qed.

Lemma blen_nil : blen [] = 0. Proof. reflexivity. Qed.

Lemma key_len : forall num wt, num < 16 -> wt < 8 -> blen (Protobuf.enc_key num wt) = 1.
Proof.
  intros num wt H1 H2. unfold Protobuf.enc_key. rewrite Varint.encode_small by lia. reflexivity.
Qed.

Lemma wlen_len :
  forall num b, num < 16 -> blen b < 2 ^ 64 ->
    blen (Protobuf.enc_field (num, Protobuf.WLen b)) = 1 + vlen (blen b) + blen b.
Proof.
  intros num b H1 H2. cbn [Protobuf.enc_field]. rewrite !Protobuf.blen_app, key_len by lia.
  rewrite vlen_encode by exact H2. lia.
Qed.

Lemma fb_len :
  forall num b, num < 16 -> blen b < 2 ^ 64 -> blen (encode_fields (fb num b)) = field_len (blen b).
Proof.
  intros num b H1 H2. unfold fb, field_len. destruct b as [|x b].
  - reflexivity.
  - unfold encode_fields. cbn [flat_map]. rewrite app_nil_r, wlen_len by assumption.
    destruct (blen (x :: b) =? 0) eqn:E; [|reflexivity].
    apply N.eqb_eq in E. unfold blen in E. cbn [length] in E. lia.
Qed.

Lemma fi_len :
  forall num n, num < 16 -> n < 128 -> blen (encode_fields (fi num n)) = if n =? 0 then 0 else 2.
Proof.
  intros num n H1 H2. unfold fi. destruct (n =? 0); [reflexivity|].
  unfold encode_fields. cbn [flat_map Protobuf.enc_field]. rewrite app_nil_r, Protobuf.blen_app, key_len by lia.
  rewrite Varint.encode_small by exact H2. reflexivity.
Qed.

Lemma encode_fields_one : forall f, encode_fields [f] = Protobuf.enc_field f.
Proof. intros f. unfold encode_fields. cbn [flat_map]. apply app_nil_r. Qed.

Lemma encode_fields_cons : forall f fs, encode_fields (f :: fs) = Protobuf.enc_field f ++ encode_fields fs.
Proof. reflexivity. Qed.

Lemma encode_fields_app : forall a b, encode_fields (a ++ b) = encode_fields a ++ encode_fields b.
Proof. intros. unfold encode_fields. apply flat_map_app. Qed.

Lemma encode_fields_map_len :
  forall {X} (f : X -> field) (l : list X),
    blen (encode_fields (map f l)) = sum (map (fun x => blen (Protobuf.enc_field (f x))) l).
Proof.
  intros X f. induction l as [|x l IH]; [reflexivity|].
  unfold encode_fields in *. cbn [map flat_map sum]. rewrite Protobuf.blen_app, IH. reflexivity.
Qed.

Lemma sum_map_ext :
  forall {X} (f g : X -> N) l, Forall (fun x => f x = g x) l -> sum (map f l) = sum (map g l).
Proof. intros X f g l H. induction H as [|x l Hx _ IH]; [reflexivity|]. cbn [map sum]. rewrite Hx, IH. reflexivity. Qed.

Lemma sum_member_le : forall {X} (f : X -> N) l x, In x l -> f x <= sum (map f l).
Proof.
  intros X f. induction l as [|y l IH]; intros x H; [destruct H|]. cbn [map sum].
  destruct H as [->|H]; [lia|]. specialize (IH x H). lia.
Qed.

Lemma vlen_pos : forall n, 1 <= vlen n.
Proof. intros n. pose proof (vlen_bounds n). lia. Qed.

(* ---- requests ---- *)

Lemma want_fields_len :
  forall cw, blen (cid_to_bytes (fst cw)) < 2 ^ 64 ->
    blen (encode_fields (want_fields cw)) =
    field_len (blen (cid_to_bytes (fst cw))) + 2 + (if want_code (snd cw) =? 0 then 0 else 2).
Proof.
  intros cw H. unfold want_fields. rewrite !encode_fields_app, !Protobuf.blen_app.
  rewrite fb_len by (try lia; exact H). rewrite !fi_len by (try lia; destruct (snd cw); cbn; lia).
  change (1 =? 0) with false. cbv iota. lia.
Qed.

Lemma want_entry_len :
  forall cw, sw_elen cw < 2 ^ 64 -> blen (Protobuf.enc_field (sub 1 (want_fields cw))) = sw_elen cw.
Proof.
  intros cw H. unfold sw_elen, want_elen in *. cbv zeta in H.
  set (cl := N.of_nat (length (cid_to_bytes (fst cw)))) in *.
  set (body := field_len cl + 2 + (if want_code (snd cw) =? 0 then 0 else 2)) in *.
  assert (Hb : body < 2 ^ 64) by (pose proof (vlen_pos body); lia).
  assert (Hc : cl < 2 ^ 64).
  { unfold body, field_len in Hb. destruct (cl =? 0) eqn:E; [apply N.eqb_eq in E; rewrite E; rewrite two64; lia|lia]. }
  unfold sub. rewrite wlen_len; [|lia|rewrite want_fields_len by exact Hc; exact Hb].
  rewrite want_fields_len by exact Hc. reflexivity.
Qed.

Theorem request_bytes_length :
  forall cids, request_len cids < 2 ^ 64 -> blen (request_bytes cids) = request_len cids.
Proof.
  intros cids H. unfold request_len, message_len, req_mlen in *.
  set (S := sum (map sw_elen cids)) in *.
  assert (HS : S < 2 ^ 64) by (pose proof (vlen_pos S); lia).
  assert (Hin : blen (encode_fields (map (fun cw => sub 1 (want_fields cw)) cids)) = S).
  { rewrite encode_fields_map_len. apply sum_map_ext. apply Forall_forall. intros cw Hcw.
    apply want_entry_len. pose proof (sum_member_le sw_elen cids cw Hcw). unfold S in HS. lia. }
  unfold request_bytes, request_fields. rewrite encode_fields_one.
  unfold sub at 1. rewrite wlen_len by (try lia; rewrite Hin; exact HS).
  rewrite Hin. reflexivity.
Qed.

(* ---- presences ---- *)

Lemma presence_entry_len :
  forall p, sp_elen p < 2 ^ 64 -> blen (Protobuf.enc_field (sub 4 (presence_fields p))) = sp_elen p.
Proof.
  intros p H. unfold sp_elen, presence_elen in *. cbv zeta in H.
  set (cl := N.of_nat (length (cid_to_bytes (sp_cid p)))) in *.
  set (body := field_len cl + (if presence_code (sp_type p) =? 0 then 0 else 2)) in *.
  assert (Hb : body < 2 ^ 64) by (pose proof (vlen_pos body); lia).
  assert (Hc : cl < 2 ^ 64).
  { unfold body, field_len in Hb. destruct (cl =? 0) eqn:E; [apply N.eqb_eq in E; rewrite E; rewrite two64; lia|lia]. }
  assert (Hf : blen (encode_fields (presence_fields p)) = body).
  { unfold presence_fields. rewrite encode_fields_app, Protobuf.blen_app.
    rewrite fb_len by (try lia; exact Hc). rewrite fi_len by (try lia; destruct (sp_type p); cbn; lia).
    reflexivity. }
  unfold sub. rewrite wlen_len; [|lia|rewrite Hf; exact Hb]. rewrite Hf. reflexivity.
Qed.

Lemma empty_wantlist_len : blen (Protobuf.enc_field (sub 1 [])) = EMPTY_MESSAGE_LEN.
Proof. reflexivity. Qed.

Theorem presences_bytes_length :
  forall l, message_len spres sp_elen blk_mlen l < 2 ^ 64 ->
    blen (presences_bytes l) = message_len spres sp_elen blk_mlen l.
Proof.
  intros l H. unfold message_len, blk_mlen in *.
  unfold presences_bytes, presences_fields. rewrite encode_fields_cons.
  rewrite Protobuf.blen_app, empty_wantlist_len. f_equal.
  rewrite encode_fields_map_len. apply sum_map_ext. apply Forall_forall. intros p Hp.
  apply presence_entry_len. pose proof (sum_member_le sp_elen l p Hp). unfold EMPTY_MESSAGE_LEN in H. lia.
Qed.

(* ---- blocks ---- *)

Lemma block_entry_len :
  forall b, cb_elen b < 2 ^ 64 -> blen (Protobuf.enc_field (sub 3 (block_fields b))) = cb_elen b.
Proof.
  intros b H. unfold cb_elen, entry_len, cb_dlen in *. cbv zeta in H.
  set (pl := blen (cb_prefix b)) in *. set (dl := blen (snd b)) in *.
  set (body := field_len pl + field_len dl) in *.
  assert (Hb : body < 2 ^ 64) by (pose proof (vlen_pos body); lia).
  assert (Hp : pl < 2 ^ 64).
  { unfold body, field_len in Hb. destruct (pl =? 0) eqn:E; [apply N.eqb_eq in E; rewrite E; rewrite two64; lia|].
    destruct (dl =? 0); lia. }
  assert (Hd : dl < 2 ^ 64).
  { unfold body, field_len in Hb. destruct (dl =? 0) eqn:E; [apply N.eqb_eq in E; rewrite E; rewrite two64; lia|].
    destruct (pl =? 0); lia. }
  assert (Hf : blen (encode_fields (block_fields b)) = body).
  { unfold block_fields. rewrite encode_fields_app, Protobuf.blen_app.
    rewrite !fb_len by (try lia; assumption). reflexivity. }
  unfold sub. rewrite wlen_len; [|lia|rewrite Hf; exact Hb]. rewrite Hf. reflexivity.
Qed.

Theorem blocks_bytes_length :
  forall l, message_len cblock cb_elen blk_mlen l < 2 ^ 64 ->
    blen (blocks_bytes l) = message_len cblock cb_elen blk_mlen l.
Proof.
  intros l H. unfold message_len, blk_mlen in *.
  unfold blocks_bytes, blocks_fields. rewrite encode_fields_cons.
  rewrite Protobuf.blen_app, empty_wantlist_len. f_equal.
  rewrite encode_fields_map_len. apply sum_map_ext. apply Forall_forall. intros b Hb.
  apply block_entry_len. pose proof (sum_member_le cb_elen l b Hb). unfold EMPTY_MESSAGE_LEN in H. lia.
Qed.

(* ---- the bounds of the batching theorems, in bytes on the wire ---- *)

(* every message of send_response(blocks) is a byte string of at most max_message_size bytes
   whose blocks hold at most max_batch_size bytes of data; together the messages carry exactly the
   blocks that fit, once and in order *)
Theorem wire_blocks_bounded :
  forall mb mm l, mm < 2 ^ 64 ->
    Forall (fun batch => batch <> [] /\ sum (map cb_dlen batch) <= mb /\ blen (blocks_bytes batch) <= mm)
           (send_response_cblocks mb mm l) /\
    concat (send_response_cblocks mb mm l) = filter (fits cblock cb_dlen cb_elen blk_mlen mb mm) l.
Proof.
  intros mb mm l Hmm. split.
  - pose proof (sent_bounds cblock cb_dlen cb_elen blk_mlen mb mm blk_mlen_mono l) as H.
    eapply Forall_impl; [|exact H]. cbn beta. intros batch (H1 & H2 & H3).
    split; [exact H1|]. split; [exact H2|]. rewrite blocks_bytes_length by lia. exact H3.
  - apply sent_partition. exact blk_mlen_mono.
Qed.

Theorem wire_presences_bounded :
  forall mm l, mm < 2 ^ 64 ->
    Forall (fun batch => batch <> [] /\ blen (presences_bytes batch) <= mm) (send_response_presences mm l).
Proof.
  intros mm l Hmm.
  pose proof (sent_bounds spres (fun _ => 0) sp_elen blk_mlen 0 mm blk_mlen_mono l) as H.
  eapply Forall_impl; [|exact H]. cbn beta. intros batch (H1 & _ & H3).
  split; [exact H1|]. rewrite presences_bytes_length by lia. exact H3.
Qed.

(* a request is one message; whatever of it reaches the wire is the whole message, and then its
   bytes are within the limit (the codec refuses a longer one before writing anything) *)
Theorem wire_request_written_bounded :
  forall mm c cids done part c' ok, mm < 2 ^ 64 ->
    write_msgs mm c [ORequest cids] = (done, part, c', ok) ->
    done = [] \/ (done = [ORequest cids] /\ blen (request_bytes cids) <= mm).
Proof.
  intros mm c cids done part c' ok Hmm H. cbn [write_msgs omsg_len] in H.
  destruct (mm <? request_len cids) eqn:E; [inversion H; left; reflexivity|].
  apply N.ltb_ge in E.
  assert (Hb : blen (request_bytes cids) <= mm) by (rewrite request_bytes_length by lia; exact E).
  destruct c as [b|].
  - destruct (frame_len (ORequest cids) <=? b); inversion H; [right; split; [reflexivity|exact Hb]|left; reflexivity].
  - inversion H. right. split; [reflexivity|exact Hb].
Qed.

(* what is written parses back, token by token, to the fields it was built from *)
Lemma sub_wf : forall num fs, Protobuf.wf_num num -> blen (encode_fields fs) < 2 ^ 64 -> Protobuf.wf_field (sub num fs).
Proof. intros num fs H1 H2. split; [exact H1|exact H2]. Qed.

Theorem request_bytes_parse :
  forall cids, request_len cids < 2 ^ 64 ->
    Protobuf.pb_parse (request_bytes cids) = Protobuf.Ok (request_fields cids).
Proof.
  intros cids H. unfold request_bytes, Protobuf.pb_parse. apply Protobuf.pb_parse_encode.
  constructor; [|constructor]. apply sub_wf.
  - unfold Protobuf.wf_num. cbn. lia.
  - pose proof (request_bytes_length cids H) as E.
    unfold request_bytes, request_fields in E. rewrite encode_fields_one in E.
    unfold sub at 1 in E. cbn [Protobuf.enc_field] in E. rewrite !Protobuf.blen_app in E. lia.
Qed.
