(* C20 — pinned property theorems. This file contains statements, `exact`, and
   Print Assumptions only. The pins in tools/pins/C20.v re-check the statements. *)
From Coq Require Import List NArith Bool.
From V.gen Require Consts.
From V.common Require Protobuf.
From V.C20 Require Import Model Proofs Bytes.
Import ListNotations.
Open Scope N_scope.

(* ---------------- receiving: self-certification ---------------- *)

(* Whatever block_to_response delivers is the received payload itself, paired with a CID whose
   digest is the digest — under the hash function named by the prefix — of that received
   payload, and whose version and codec are the prefix's. Holds for every payload type, every
   family of hash functions (any subset supported), every prefix byte string. *)
Theorem C20_self_certifying :
  forall (D : Type) (digest : N -> D -> option (list N)) pb d c d',
    block_to_response D digest pb d = Some (c, d') ->
    d' = d /\
    exists p, prefix_from_bytes pb = Some p /\
              digest (p_mhtype p) d = Some (c_digest c) /\
              c_code c = p_mhtype p /\ c_version c = p_version p /\ c_codec c = p_codec p /\
              (length (c_digest c) <= 64)%nat /\ cid_valid c.
Proof. exact self_certifying. Qed.
Print Assumptions C20_self_certifying.

(* every Block entry of a Response event comes from a received payload entry and is certified *)
Theorem C20_responses_certified :
  forall (D : Type) (digest : N -> D -> option (list N)) blocks c d,
    In (c, d) (responses D digest blocks) ->
    exists pb, In (pb, d) blocks /\ block_to_response D digest pb d = Some (c, d).
Proof. exact responses_certified. Qed.
Print Assumptions C20_responses_certified.

Theorem C20_malformed_dropped :
  forall (D : Type) (digest : N -> D -> option (list N)) pb d,
    prefix_from_bytes pb = None -> block_to_response D digest pb d = None.
Proof. exact malformed_dropped. Qed.
Print Assumptions C20_malformed_dropped.

Theorem C20_uncomputable_dropped :
  forall (D : Type) (digest : N -> D -> option (list N)) pb d p,
    prefix_from_bytes pb = Some p -> digest (p_mhtype p) d = None ->
    block_to_response D digest pb d = None.
Proof. exact uncomputable_dropped. Qed.
Print Assumptions C20_uncomputable_dropped.

(* The prefix codec: four canonical varints decode to exactly their values, and the prefix is
   accepted iff the version is 0 or 1 and the multihash length fits a u8. *)
Theorem C20_prefix_codec :
  forall v c t n,
    v < U64_MOD -> c < U64_MOD -> t < U64_MOD -> n < U64_MOD ->
    prefix_from_bytes (varint_enc v ++ varint_enc c ++ varint_enc t ++ varint_enc n) =
    if (v <=? 1) && (n <=? 255) then Some (mkPrefix v c t n) else None.
Proof. exact prefix_codec. Qed.
Print Assumptions C20_prefix_codec.

Theorem C20_prefix_roundtrip :
  forall p, prefix_wf p -> prefix_from_bytes (prefix_to_bytes p) = Some p.
Proof. exact prefix_roundtrip. Qed.
Print Assumptions C20_prefix_roundtrip.

Theorem C20_prefix_trailing_rejected :
  forall p x rest, prefix_wf p -> prefix_from_bytes (prefix_to_bytes p ++ x :: rest) = None.
Proof. exact prefix_trailing_rejected. Qed.
Print Assumptions C20_prefix_trailing_rejected.

(* every accepted prefix has version 0/1, u64 fields and a u8 length *)
Theorem C20_prefix_accepted_wf :
  forall l p, prefix_from_bytes l = Some p -> prefix_wf p.
Proof. exact prefix_from_bytes_wf. Qed.
Print Assumptions C20_prefix_accepted_wf.

(* a block served by an honest peer (prefix built by blocks_message from the CID the data
   hashes to) is delivered under exactly that CID *)
Theorem C20_honest_accepted :
  forall (D : Type) (digest : N -> D -> option (list N)) c d,
    cid_valid c -> c_codec c < U64_MOD -> c_code c < U64_MOD ->
    (length (c_digest c) <= 64)%nat ->
    digest (c_code c) d = Some (c_digest c) ->
    block_to_response D digest (prefix_to_bytes (prefix_of_cid c)) d = Some (c, d).
Proof. exact honest_accepted. Qed.
Print Assumptions C20_honest_accepted.

(* ---------------- sending: size-bounded, lossless batching ---------------- *)

(* For every block type, size functions, limits and queue: the messages that send_response
   writes carry, concatenated, exactly the blocks that fit a message, once and in order. *)
Theorem C20_batches_partition :
  forall (A : Type) (dlen elen : A -> N) (mlen : N -> N) (mb mm : N),
    (forall x y, x <= y -> mlen x <= mlen y) ->
    forall l : list A,
      concat (sent_batches A dlen elen mlen mb mm l) = filter (fits A dlen elen mlen mb mm) l.
Proof. exact sent_partition. Qed.
Print Assumptions C20_batches_partition.

(* no message is empty, none exceeds the data limit or the message size limit *)
Theorem C20_batches_bounds :
  forall (A : Type) (dlen elen : A -> N) (mlen : N -> N) (mb mm : N),
    (forall x y, x <= y -> mlen x <= mlen y) ->
    forall l : list A,
      Forall (fun b => b <> [] /\ sum (map dlen b) <= mb /\ message_len A elen mlen b <= mm)
             (sent_batches A dlen elen mlen mb mm l).
Proof. exact sent_bounds. Qed.
Print Assumptions C20_batches_bounds.

(* the size check of send_response never has to drop a message *)
Theorem C20_no_message_dropped :
  forall (A : Type) (dlen elen : A -> N) (mlen : N -> N) (mb mm : N),
    (forall x y, x <= y -> mlen x <= mlen y) ->
    forall l : list A,
      sent_batches A dlen elen mlen mb mm l = all_batches A dlen elen mlen mb mm l.
Proof. exact sent_is_all. Qed.
Print Assumptions C20_no_message_dropped.

(* the `while let` loop stops by itself after at most length+1 iterations *)
Theorem C20_loop_terminates :
  forall (A : Type) (dlen elen : A -> N) (mlen : N -> N) (mb mm : N),
    (forall x y, x <= y -> mlen x <= mlen y) ->
    forall (l : list A) (n : nat),
      (length l < n)%nat -> batches A dlen elen mlen mb mm n l = all_batches A dlen elen mlen mb mm l.
Proof. exact loop_terminates. Qed.
Print Assumptions C20_loop_terminates.

(* batching is greedy: a batch ends at the end of the queue or at a block that would break a limit *)
Theorem C20_batch_maximal :
  forall (A : Type) (dlen elen : A -> N) (mlen : N -> N) (mb mm : N),
    (forall x y, x <= y -> mlen x <= mlen y) ->
    forall (l : list A) tot acc b r,
      take_batch A dlen elen mlen mb mm tot acc l = (b, r) ->
      match r with
      | [] => True
      | a :: _ => mb < tot + sum (map dlen b) + dlen a \/ mm < mlen (acc + sum (map elen b) + elen a)
      end.
Proof. exact take_batch_maximal. Qed.
Print Assumptions C20_batch_maximal.

(* With the shipped limits (regenerated from config.rs on every run) and the protobuf size
   arithmetic of blocks_message, a block fits a message iff its data is within MAX_BATCH_SIZE:
   every such block is sent exactly once, in order, whatever the mix of sizes. *)
Theorem C20_default_partition :
  forall l,
    concat (send_response_blocks Consts.BITSWAP_MAX_BATCH_SIZE Consts.BITSWAP_MAX_MESSAGE_SIZE l) =
    filter (fun b => sb_dlen b <=? Consts.BITSWAP_MAX_BATCH_SIZE) l.
Proof. exact default_partition. Qed.
Print Assumptions C20_default_partition.

Theorem C20_default_bounds :
  forall l,
    Forall (fun b => b <> [] /\ sum (map sb_dlen b) <= Consts.BITSWAP_MAX_BATCH_SIZE /\
                     message_len sblock sb_elen blk_mlen b <= Consts.BITSWAP_MAX_MESSAGE_SIZE)
           (send_response_blocks Consts.BITSWAP_MAX_BATCH_SIZE Consts.BITSWAP_MAX_MESSAGE_SIZE l).
Proof. exact (sent_bounds sblock sb_dlen sb_elen blk_mlen _ _ blk_mlen_mono). Qed.
Print Assumptions C20_default_bounds.

Theorem C20_empty_message_const : EMPTY_MESSAGE_LEN = Consts.BITSWAP_EMPTY_MESSAGE_SIZE.
Proof. reflexivity. Qed.
Print Assumptions C20_empty_message_const.

(* F-C20a, the defect repaired by the `fix:` commit: limiting the data alone (what the code did
   before) cannot bound the message — for all limits there is a queue of blocks that each fit a
   message, whose data is within the batch limit, and whose single message is too long. *)
Theorem C20_payload_bound_insufficient :
  forall mb mm, 10 <= mm ->
    exists l : list sblock,
      Forall (fun b => fits sblock sb_dlen sb_elen blk_mlen mb mm b = true) l /\
      sum (map sb_dlen l) <= mb /\
      mm < message_len sblock sb_elen blk_mlen l.
Proof. exact payload_bound_insufficient. Qed.
Print Assumptions C20_payload_bound_insufficient.

(* ---------------- presences: split like blocks (F-C20b, repaired) ---------------- *)

(* the presence messages of a response carry, concatenated, exactly the presences that fit a
   message, once and in order; none is empty or longer than the limit *)
Theorem C20_presences_partition :
  forall (mm : N) (l : list spres),
    concat (send_response_presences mm l) = filter (fits spres (fun _ => 0) sp_elen blk_mlen 0 mm) l.
Proof. exact (fun mm => sent_partition spres (fun _ => 0) sp_elen blk_mlen 0 mm blk_mlen_mono). Qed.
Print Assumptions C20_presences_partition.

Theorem C20_presences_bounds :
  forall (mm : N) (l : list spres),
    Forall (fun b => b <> [] /\ sum (map (fun _ => 0) b) <= 0 /\ message_len spres sp_elen blk_mlen b <= mm)
           (send_response_presences mm l).
Proof. exact (fun mm => sent_bounds spres (fun _ => 0) sp_elen blk_mlen 0 mm blk_mlen_mono). Qed.
Print Assumptions C20_presences_bounds.

(* with the shipped limit every presence (multihash of at most 64 bytes) is sent *)
Theorem C20_default_presences_all_sent :
  forall l, Forall (fun p => (length (c_digest (sp_cid p)) <= 64)%nat) l ->
    concat (send_response_presences Consts.BITSWAP_MAX_MESSAGE_SIZE l) = l.
Proof. exact default_presences_all_sent. Qed.
Print Assumptions C20_default_presences_all_sent.

(* F-C20b, the defect repaired by the second `fix:` commit: one unsplit presence message (what
   the code sent before) cannot respect any message size limit *)
Theorem C20_unsplit_presences_insufficient :
  forall mm, 42 <= mm ->
    exists l : list spres,
      Forall (fun p => fits spres (fun _ => 0) sp_elen blk_mlen 0 mm p = true) l /\
      mm < message_len spres sp_elen blk_mlen l.
Proof. exact unsplit_presences_insufficient. Qed.
Print Assumptions C20_unsplit_presences_insufficient.

(* a whole response: its messages carry exactly the presences and the blocks that fit, in order *)
Theorem C20_response_lossless :
  forall mb mm ps bs,
    flat_map omsg_presences (action_msgs mb mm (AResponse ps bs)) =
      filter (fits spres (fun _ => 0) sp_elen blk_mlen 0 mm) ps /\
    flat_map omsg_blocks (action_msgs mb mm (AResponse ps bs)) =
      filter (fits sblock sb_dlen sb_elen blk_mlen mb mm) bs.
Proof. exact response_lossless. Qed.
Print Assumptions C20_response_lossless.

(* no message of a response is ever refused by the codec's size check *)
Theorem C20_response_within_codec_limit :
  forall mb mm ps bs, Forall (fun m => omsg_len m <= mm) (action_msgs mb mm (AResponse ps bs)).
Proof. exact response_msgs_within_limit. Qed.
Print Assumptions C20_response_within_codec_limit.

Theorem C20_response_written_healthy :
  forall mb mm ps bs,
    write_msgs mm None (action_msgs mb mm (AResponse ps bs)) =
    (action_msgs mb mm (AResponse ps bs), 0, None, true).
Proof. exact response_written_healthy. Qed.
Print Assumptions C20_response_written_healthy.

(* ---------------- CID bytes, wantlists (requesting side and inbound requests) ---------------- *)

Theorem C20_cid_roundtrip :
  forall c rest, cid_wf c -> cid_read_bytes (cid_to_bytes c ++ rest) = Some c.
Proof. exact cid_roundtrip. Qed.
Print Assumptions C20_cid_roundtrip.

Theorem C20_cid_parsed_wf : forall l c, cid_read_bytes l = Some c -> cid_wf c.
Proof. exact cid_read_bytes_wf. Qed.
Print Assumptions C20_cid_parsed_wf.

(* what send_request writes is what the peer's user is told: every representable CID, whatever
   its codec or hash function (no hasher is needed to ask for a block) *)
Theorem C20_request_roundtrip :
  forall cids, Forall (fun cw => cid_wf (fst cw)) cids ->
    inbound_wants (request_entries cids) = cids.
Proof. exact request_roundtrip. Qed.
Print Assumptions C20_request_roundtrip.

(* entries are judged one by one ... *)
Theorem C20_request_entries_independent :
  forall l1 l2, inbound_wants (l1 ++ l2) = inbound_wants l1 ++ inbound_wants l2.
Proof. exact inbound_wants_app. Qed.
Print Assumptions C20_request_entries_independent.

(* ... so an entry with an invalid CID or an unknown want type disappears without touching the rest *)
Theorem C20_request_invalid_entry_dropped :
  forall l1 e l2, entry_want e = None ->
    inbound_wants (l1 ++ e :: l2) = inbound_wants (l1 ++ l2).
Proof. exact invalid_entry_ignored. Qed.
Print Assumptions C20_request_invalid_entry_dropped.

(* every reported want comes from an entry whose bytes parse to that CID, with WantType 0 -> Block,
   1 -> Have *)
Theorem C20_request_reported_wellformed :
  forall es c w, In (c, w) (inbound_wants es) ->
    exists e, In e es /\ cid_read_bytes (we_block e) = Some c /\ we_wanttype e = want_code w /\ cid_wf c.
Proof. exact inbound_wants_in. Qed.
Print Assumptions C20_request_reported_wellformed.

(* priority, cancel and sendDontHave are not looked at: a cancel entry is reported as a want *)
Theorem C20_request_ignores_cancel :
  forall b t p1 c1 s1 p2 c2 s2,
    entry_want (mkWE b p1 c1 t s1) = entry_want (mkWE b p2 c2 t s2).
Proof. exact entry_want_ignores. Qed.
Print Assumptions C20_request_ignores_cancel.

Theorem C20_presence_roundtrip :
  forall c p, cid_wf c -> presence_of (cid_to_bytes c, presence_code p) = Some (c, p).
Proof. exact presence_roundtrip. Qed.
Print Assumptions C20_presence_roundtrip.

(* ---------------- whole messages, substreams, sessions ---------------- *)

Theorem C20_message_blocks_certified :
  forall (D : Type) (digest : N -> D -> option (list N)) m c d,
    In (c, d) (flat_map (event_blocks D) (msg_events D digest m)) ->
    exists pb, In (pb, d) (m_payload m) /\ block_to_response D digest pb d = Some (c, d).
Proof. exact msg_blocks_certified. Qed.
Print Assumptions C20_message_blocks_certified.

(* No partial delivery: the events of an inbound substream are those of its complete, decodable
   frames; whatever ends it (truncated frame and close, reset, oversize or malformed length,
   bytes that are not protobuf) contributes nothing and nothing behind it is read. *)
Theorem C20_no_partial_delivery :
  forall (D : Type) (digest : N -> D -> option (list N)) ms rest,
    inbound_events D digest (map IFrame ms ++ IBad :: rest) = flat_map (msg_events D digest) ms.
Proof. exact inbound_no_partial. Qed.
Print Assumptions C20_no_partial_delivery.

(* the sender's side of it: a write that stalls (timeout) or fails leaves complete frames and a
   piece of one frame; the receiver delivers the complete ones only *)
Theorem C20_sender_failure_no_partial_delivery :
  forall (D : Type) (digest : N -> D -> option (list N)) (rx : omsg -> message D)
         mm c ms done part c' ok rest,
    write_msgs mm c ms = (done, part, c', ok) ->
    inbound_events D digest (map (fun m => IFrame (rx m)) done ++ IBad :: rest) =
      flat_map (fun m => msg_events D digest (rx m)) done /\
    exists tail, ms = done ++ tail.
Proof. exact sender_failure_no_partial_delivery. Qed.
Print Assumptions C20_sender_failure_no_partial_delivery.

Theorem C20_write_prefix :
  forall mm ms c done part c' ok,
    write_msgs mm c ms = (done, part, c', ok) ->
    exists rest,
      ms = done ++ rest /\
      (ok = true -> rest = [] /\ part = 0) /\
      (ok = false -> rest <> []) /\
      Forall (fun m => omsg_len m <= mm) done.
Proof. exact write_msgs_spec. Qed.
Print Assumptions C20_write_prefix.

(* For every session — whatever was asked for, whoever answers, in any number of messages and in
   any order: every block handed to the user hashes to the CID it is reported under. *)
Theorem C20_session_blocks_certified :
  forall (D : Type) (digest : N -> D -> option (list N)) ops c d,
    In (c, d) (flat_map (event_blocks D) (session_events D digest ops)) ->
    digest (c_code c) d = Some (c_digest c) /\ cid_valid c /\ (length (c_digest c) <= 64)%nat.
Proof. exact session_blocks_certified. Qed.
Print Assumptions C20_session_blocks_certified.

(* litep2p itself keeps no record of what was asked for.  "Only requested" and "at most once" do
   NOT hold for the events it emits: *)
Theorem C20_only_requested_refuted :
  exists ops : list (sess_op N),
    requested N ops = [] /\
    In (demo_cid, 7) (flat_map (event_blocks N) (session_events N demo_digest ops)).
Proof. exact unsolicited_delivered. Qed.
Print Assumptions C20_only_requested_refuted.

Theorem C20_no_duplicate_delivery_refuted :
  exists ops : list (sess_op N),
    requested N ops = [demo_cid] /\
    flat_map (event_blocks N) (session_events N demo_digest ops) = [(demo_cid, 7); (demo_cid, 7)].
Proof. exact duplicate_delivered. Qed.
Print Assumptions C20_no_duplicate_delivery_refuted.

(* What self-certification buys: a client that keeps a want set (Model.client_run — not part of
   litep2p) accepts, for every interleaving of its requests and of incoming messages, only blocks
   it asked for before they arrived, each hashing to its CID, ... *)
Theorem C20_only_requested_with_want_filter :
  forall (D : Type) (digest : N -> D -> option (list N)) ops want c d,
    In (c, d) (client_run D digest want ops) ->
    exists o1 m o2,
      ops = o1 ++ SIncoming m :: o2 /\
      (In c want \/ In c (requested D o1)) /\
      In (c, d) (flat_map (event_blocks D) (msg_events D digest m)) /\
      digest (c_code c) d = Some (c_digest c).
Proof. exact client_only_requested. Qed.
Print Assumptions C20_only_requested_with_want_filter.

(* ... and no CID more often than it was asked for *)
Theorem C20_no_duplicate_delivery_with_want_filter :
  forall (D : Type) (digest : N -> D -> option (list N)) ops want c,
    (cnt D c (client_run D digest want ops) <= memn c want + req_count D c ops)%nat.
Proof. exact client_no_duplicates. Qed.
Print Assumptions C20_no_duplicate_delivery_with_want_filter.

(* ---------------- requests: one message, whatever its size ---------------- *)

(* send_request builds ONE message carrying all wants (C20_request_roundtrip: what the remote's
   user is told is the request) *)
Theorem C20_request_single_message :
  forall mb mm cids,
    action_msgs mb mm (ARequest cids) = [ORequest cids] /\ omsg_len (ORequest cids) = request_len cids.
Proof. exact request_single_message. Qed.
Print Assumptions C20_request_single_message.

(* an empty request is still a message: an empty wantlist, two bytes *)
Theorem C20_request_empty_is_one_message :
  forall mb mm, action_msgs mb mm (ARequest []) = [ORequest []] /\ request_len [] = 2.
Proof. exact (fun mb mm => conj eq_refl request_empty_len). Qed.
Print Assumptions C20_request_empty_is_one_message.

(* with the shipped limit a request of up to 32 000 wants (multihashes of at most 64 bytes) is
   within the limit and goes out whole over a substream that takes it *)
Theorem C20_default_request_fits :
  forall cids, Forall (fun cw => (length (c_digest (fst cw)) <= 64)%nat) cids ->
    N.of_nat (length cids) <= 32000 -> request_len cids <= Consts.BITSWAP_MAX_MESSAGE_SIZE.
Proof. exact default_request_fits. Qed.
Print Assumptions C20_default_request_fits.

Theorem C20_request_written_healthy :
  forall mb mm cids, request_len cids <= mm ->
    write_msgs mm None (action_msgs mb mm (ARequest cids)) = ([ORequest cids], 0, None, true).
Proof. exact request_written_healthy. Qed.
Print Assumptions C20_request_written_healthy.

(* OBSERVATION, outside the property text (which speaks of responses): requests are not split.  For
   every limit there is a request, each want of which would fit a message, whose one message is too
   long ... *)
Theorem C20_unsplit_request_insufficient :
  forall mm, 53 <= mm ->
    exists cids : list (cid * want_type),
      Forall (fun cw => req_mlen (sw_elen cw) <= mm) cids /\ mm < request_len cids.
Proof. exact unsplit_request_insufficient. Qed.
Print Assumptions C20_unsplit_request_insufficient.

(* ... the codec refuses it: send_request writes nothing and fails, on any substream ... *)
Theorem C20_oversized_request_refused :
  forall mb mm cids c, mm < request_len cids ->
    write_msgs mm c (action_msgs mb mm (ARequest cids)) = ([], 0, c, false).
Proof. exact oversized_request_refused. Qed.
Print Assumptions C20_oversized_request_refused.

(* ... and the loop then does this: an established substream is dropped and a new one requested,
   the commands given meanwhile queue up behind the request, on the new substream the request is
   refused again and the substream is dropped together with the whole queue — nothing is written,
   nothing is reported, the peer's state is as before without the substream *)
Theorem C20_oversized_request_drops_queue :
  forall (D : Type) (digest : N -> D -> option (list N)) mb mm s c2 cids acts, mm < request_len cids ->
    ps_pend s = [] -> ps_opening s = false -> ps_conn s = 1 ->
    run_peer D digest mb mm s (PSend (ARequest cids) :: map PSend acts ++ [POutOpen c2]) =
    (set_out s None, [], []).
Proof. exact oversized_request_drops_queue. Qed.
Print Assumptions C20_oversized_request_drops_queue.

(* a queue flushed to a fresh substream stops at an oversized request: what stands before it is
   written, the request and everything behind it is not *)
Theorem C20_flush_stops_at_oversized_request :
  forall mb mm c pre cids rest, Forall (action_ok mm) pre -> mm < request_len cids ->
    write_actions mb mm None (pre ++ ARequest cids :: rest) =
    (flat_map (action_msgs mb mm) pre, 0, None, false) /\
    (pre = [] -> write_actions mb mm c (ARequest cids :: rest) = ([], 0, c, false)).
Proof. exact write_actions_oversized. Qed.
Print Assumptions C20_flush_stops_at_oversized_request.

(* the commands the codec never refuses: every response (batching), a request within the limit *)
Theorem C20_action_within_codec_limit :
  forall mb mm a, action_ok mm a -> Forall (fun m => omsg_len m <= mm) (action_msgs mb mm a).
Proof. exact action_msgs_within_limit. Qed.
Print Assumptions C20_action_within_codec_limit.

(* ---------------- bytes on the wire ---------------- *)

(* The sizes that the batching counts (encoded_want_size, encoded_presence_size,
   encoded_block_size, the empty wantlist, the wantlist wrapper) are the lengths of the byte
   strings the generic protobuf encoder produces for the three messages — as long as sizes fit
   64 bits (the `no usize overflow` assumption, here explicit). *)
Theorem C20_request_bytes_length :
  forall cids, request_len cids < 2 ^ 64 -> Protobuf.blen (request_bytes cids) = request_len cids.
Proof. exact request_bytes_length. Qed.
Print Assumptions C20_request_bytes_length.

Theorem C20_presences_bytes_length :
  forall l, message_len spres sp_elen blk_mlen l < 2 ^ 64 ->
    Protobuf.blen (presences_bytes l) = message_len spres sp_elen blk_mlen l.
Proof. exact presences_bytes_length. Qed.
Print Assumptions C20_presences_bytes_length.

Theorem C20_blocks_bytes_length :
  forall l, message_len cblock cb_elen blk_mlen l < 2 ^ 64 ->
    Protobuf.blen (blocks_bytes l) = message_len cblock cb_elen blk_mlen l.
Proof. exact blocks_bytes_length. Qed.
Print Assumptions C20_blocks_bytes_length.

(* so the bounds hold for the bytes: every blocks message of send_response is a byte string of at
   most max_message_size bytes holding at most max_batch_size bytes of data, none is empty, and
   together they carry exactly the blocks that fit, once and in order; likewise presences; a request
   is one message that reaches the wire only when its bytes are within the limit *)
Theorem C20_wire_blocks_bounded :
  forall mb mm l, mm < 2 ^ 64 ->
    Forall (fun batch => batch <> [] /\ sum (map cb_dlen batch) <= mb /\ Protobuf.blen (blocks_bytes batch) <= mm)
           (send_response_cblocks mb mm l) /\
    concat (send_response_cblocks mb mm l) = filter (fits cblock cb_dlen cb_elen blk_mlen mb mm) l.
Proof. exact wire_blocks_bounded. Qed.
Print Assumptions C20_wire_blocks_bounded.

Theorem C20_wire_presences_bounded :
  forall mm l, mm < 2 ^ 64 ->
    Forall (fun batch => batch <> [] /\ Protobuf.blen (presences_bytes batch) <= mm) (send_response_presences mm l).
Proof. exact wire_presences_bounded. Qed.
Print Assumptions C20_wire_presences_bounded.

Theorem C20_wire_request_written_bounded :
  forall mm c cids done part c' ok, mm < 2 ^ 64 ->
    write_msgs mm c [ORequest cids] = (done, part, c', ok) ->
    done = [] \/ (done = [ORequest cids] /\ Protobuf.blen (request_bytes cids) <= mm).
Proof. exact wire_request_written_bounded. Qed.
Print Assumptions C20_wire_request_written_bounded.

(* what send_request writes parses back (prost's generic field parser) to the fields it was built from *)
Theorem C20_request_bytes_parse :
  forall cids, request_len cids < 2 ^ 64 ->
    Protobuf.pb_parse (request_bytes cids) = Protobuf.Ok (request_fields cids).
Proof. exact request_bytes_parse. Qed.
Print Assumptions C20_request_bytes_parse.

(* ---------------- the event loop: queues, connections, dials ---------------- *)

(* BitswapEvents come from complete inbound frames on an open inbound substream and from nothing
   else: no command, write failure, timeout, dial result or connection event is reported *)
Theorem C20_events_only_from_frames :
  forall (D : Type) (digest : N -> D -> option (list N)) mb mm s e s' evs w,
    peer_step D digest mb mm s e = (s', (evs, w)) -> evs <> [] ->
    exists m, e = PInFrame m /\ ps_inb s = true /\ evs = msg_events D digest m /\ s' = s.
Proof. exact events_only_from_frames. Qed.
Print Assumptions C20_events_only_from_frames.

(* whatever the loop writes, in any state, is within the limit: responses by batching, a request
   because the codec refuses a longer one before anything is written *)
Theorem C20_written_within_limit :
  forall (D : Type) (digest : N -> D -> option (list N)) mb mm s e s' evs done part,
    peer_step D digest mb mm s e = (s', (evs, (done, part))) ->
    Forall (fun m => omsg_len m <= mm) done.
Proof. exact written_within_limit. Qed.
Print Assumptions C20_written_within_limit.

Theorem C20_writes_only_on_send_or_open :
  forall (D : Type) (digest : N -> D -> option (list N)) mb mm s e s' evs done part,
    peer_step D digest mb mm s e = (s', (evs, (done, part))) ->
    (done <> [] \/ part <> 0) -> (exists a, e = PSend a) \/ (exists c, e = POutOpen c).
Proof. exact writes_only_on_send_or_open. Qed.
Print Assumptions C20_writes_only_on_send_or_open.

(* For every history of a peer (commands, substreams opening, failing, stalling, the connection
   closing, dying, coming back, dials accepted, refused, failing): queued actions wait for exactly
   one thing the service will answer, a peer without connection has no substreams, a parked dial
   is for a peer without usable connection. *)
Theorem C20_queue_invariant :
  forall (D : Type) (digest : N -> D -> option (list N)) mb mm es,
    ps_inv (fst (fst (run_peer D digest mb mm ps_init es))).
Proof. exact (fun D digest mb mm es => run_peer_inv D digest mb mm es ps_init (ps_inv_init D digest mb mm)). Qed.
Print Assumptions C20_queue_invariant.

Theorem C20_no_stuck_queue :
  forall (D : Type) (digest : N -> D -> option (list N)) mb mm es,
    let s := fst (fst (run_peer D digest mb mm ps_init es)) in
    ps_pend s <> [] -> ps_opening s = true \/ ps_dial s = true.
Proof. exact no_stuck_queue. Qed.
Print Assumptions C20_no_stuck_queue.

(* ... and every answer of the service empties the queue or moves it on *)
Theorem C20_answers_resolve :
  forall (D : Type) (digest : N -> D -> option (list N)) mb mm s, ps_inv s ->
    (ps_opening s = true ->
       (forall c, ps_pend (fst (peer_step D digest mb mm s (POutOpen c))) = [] /\
                  ps_opening (fst (peer_step D digest mb mm s (POutOpen c))) = false) /\
       ps_pend (fst (peer_step D digest mb mm s POutFail)) = [] /\
       ps_opening (fst (peer_step D digest mb mm s POutFail)) = false) /\
    (ps_dial s = true ->
       ps_pend (fst (peer_step D digest mb mm s PDialFail)) = [] /\
       ps_dial (fst (peer_step D digest mb mm s PDialFail)) = false /\
       (ps_conn s = 0 -> ps_opening (fst (peer_step D digest mb mm s PConnect)) = true /\
                         ps_pend (fst (peer_step D digest mb mm s PConnect)) = ps_pend s)) /\
    (ps_conn s <> 0 -> ps_pend (fst (peer_step D digest mb mm s PConnClose)) = []).
Proof. exact answers_resolve. Qed.
Print Assumptions C20_answers_resolve.

(* send_request / send_response to a peer that is gone and cannot be dialled: dropped on the
   spot — nothing written, nothing queued, nothing reported to the user *)
Theorem C20_send_to_gone_peer_dropped :
  forall (D : Type) (digest : N -> D -> option (list N)) mb mm s a,
    ps_inv s -> ps_conn s <> 1 -> ps_pend s = [] -> (ps_mgr s = 0 \/ ps_mgr s = 2) -> ps_out s = None ->
    peer_step D digest mb mm s (PSend a) = (s, ([], ([], 0))).
Proof. exact send_to_gone_peer_dropped. Qed.
Print Assumptions C20_send_to_gone_peer_dropped.

(* ... to a peer that can be dialled: parked; once the connection is reported and the substream
   opens, every parked command (none of them an oversized request) is written, completely and in
   order *)
Theorem C20_send_to_dialable_peer_parked :
  forall (D : Type) (digest : N -> D -> option (list N)) mb mm s acts, Forall (action_ok mm) acts ->
    ps_conn s = 0 -> ps_pend s = [] -> ps_out s = None -> ps_dial s = false -> ps_opening s = false ->
    (ps_mgr s = 1 \/ ps_mgr s = 3) -> acts <> [] ->
    let '(s1, _, done) := run_peer D digest mb mm s (map PSend acts ++ [PConnect; POutOpen None]) in
    done = flat_map (action_msgs mb mm) acts /\ ps_pend s1 = [] /\ ps_out s1 = Some None.
Proof. exact send_to_dialable_peer_parked. Qed.
Print Assumptions C20_send_to_dialable_peer_parked.

Theorem C20_dial_failure_drops_parked :
  forall (D : Type) (digest : N -> D -> option (list N)) mb mm s, ps_dial s = true ->
    peer_step D digest mb mm s PDialFail = (set_pend (set_dial s false) [], ([], ([], 0))).
Proof. exact dial_failure_drops_parked. Qed.
Print Assumptions C20_dial_failure_drops_parked.

(* a command whose write fails half-way is queued again whole: what had been written is written
   again on the next substream (delivery to the remote is at-least-once, not exactly-once) *)
Theorem C20_failed_send_retried_whole :
  forall (D : Type) (digest : N -> D -> option (list N)) mb mm s c a done part c', action_ok mm a ->
    ps_out s = Some c -> ps_pend s = [] -> ps_conn s = 1 ->
    write_msgs mm c (action_msgs mb mm a) = (done, part, c', false) ->
    let '(s1, _, written) := run_peer D digest mb mm s [PSend a; POutOpen None] in
    written = done ++ action_msgs mb mm a /\ ps_out s1 = Some None /\ ps_pend s1 = [].
Proof. exact failed_send_retried_whole. Qed.
Print Assumptions C20_failed_send_retried_whole.

(* the node: an operation about one peer leaves the loop's state for every other peer untouched *)
Theorem C20_node_peers_independent :
  forall (D : Type) (digest : N -> D -> option (list N)) mb mm st p e q, q <> p ->
    get_ps (fst (node_step D digest mb mm st (p, e))) q = get_ps st q.
Proof. exact node_step_frame. Qed.
Print Assumptions C20_node_peers_independent.

(* Whatever happens at the node — any number of peers, connections coming and going, commands,
   failures, frames in any order: every block reported to the user hashes to its CID, and every
   message written is within the limit. *)
Theorem C20_node_blocks_certified :
  forall (D : Type) (digest : N -> D -> option (list N)) mb mm ops st p ev c d,
    In (p, ev) (snd (fst (run_node_ops D digest mb mm st ops))) -> In (c, d) (event_blocks D ev) ->
    digest (c_code c) d = Some (c_digest c) /\ cid_valid c /\ (length (c_digest c) <= 64)%nat.
Proof. exact node_blocks_certified. Qed.
Print Assumptions C20_node_blocks_certified.

Theorem C20_node_written_within_limit :
  forall (D : Type) (digest : N -> D -> option (list N)) mb mm ops st,
    Forall (fun pm => omsg_len (snd pm) <= mm) (snd (run_node_ops D digest mb mm st ops)).
Proof. exact run_node_written_within_limit. Qed.
Print Assumptions C20_node_written_within_limit.

(* nothing is invented and nothing leaks between peers: every message written to a peer's
   substream, in any history of the node, is a message of a command the user gave for that peer *)
Theorem C20_written_only_commanded :
  forall (D : Type) (digest : N -> D -> option (list N)) mb mm es m,
    In m (snd (run_peer D digest mb mm ps_init es)) ->
    exists a, In (PSend a) es /\ In m (action_msgs mb mm a).
Proof. exact written_only_commanded. Qed.
Print Assumptions C20_written_only_commanded.

Theorem C20_node_written_only_commanded :
  forall (D : Type) (digest : N -> D -> option (list N)) mb mm ops st,
    (forall q, ps_pend (get_ps st q) = []) ->
    forall p m, In (p, m) (snd (run_node_ops D digest mb mm st ops)) ->
      exists a, In (p, PSend a) ops /\ In m (action_msgs mb mm a).
Proof. exact node_written_only_commanded. Qed.
Print Assumptions C20_node_written_only_commanded.

(* non-vacuity *)
Example C20_nonvacuous_batching :
  let l := [mkSB 0 (mkCid 1 85 18 (repeat 0 32%nat)) 10; mkSB 1 (mkCid 1 85 18 (repeat 0 32%nat)) 101;
            mkSB 2 (mkCid 1 85 18 (repeat 0 32%nat)) 10; mkSB 3 (mkCid 1 85 18 (repeat 0 32%nat)) 0;
            mkSB 4 (mkCid 1 85 18 (repeat 0 32%nat)) 1] in
  map (map sb_id) (send_response_blocks 20 40 l) = [[0]; [2; 3]; [4]].
Proof. vm_compute. reflexivity. Qed.

Example C20_nonvacuous_receive :
  let digest := fun (code : N) (d : N) => if code =? 18 then Some (repeat d 32%nat) else None in
  block_to_response N digest [1; 85; 18; 32] 7 = Some (mkCid 1 85 18 (repeat 7 32%nat), 7) /\
  block_to_response N digest [1; 85; 17; 20] 7 = None /\
  block_to_response N digest [2; 85; 18; 32] 7 = None /\
  block_to_response N digest [1; 85; 18; 32; 0] 7 = None /\
  block_to_response N digest [0; 112; 18; 32] 7 = Some (mkCid 0 112 18 (repeat 7 32%nat), 7) /\
  block_to_response N digest [0; 85; 18; 32] 7 = None /\
  block_to_response N digest [1; 128; 0; 18; 32] 7 = None.
Proof. vm_compute. repeat split; reflexivity. Qed.
