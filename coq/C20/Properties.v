(* C20 — pinned property theorems. This file contains statements, `exact`, and
   Print Assumptions only. The pins in tools/pins/C20.v re-check the statements. *)
From Coq Require Import List NArith Bool.
From V.gen Require Consts.
From V.C20 Require Import Model Proofs.
Import ListNotations.
Open Scope N_scope.

(* ---------------- receiving: self-certification ---------------- *)

(* Whatever block_to_response delivers is the received payload itself, paired with a CID whose
   digest is the digest — under the hash function named by the prefix — of that received
   payload, and whose version and codec are the prefix's. Holds for every payload type, every
   family of hash functions (any subset supported), every prefix byte string. *)
Theorem C20_self_certifying :
  forall (D : Type) (digest : N -> D -> option (list N)) pb d c d',
    block_to_response D digest pb d = Some (c, d') ->
    d' = d /\
    exists p, prefix_from_bytes pb = Some p /\
              digest (p_mhtype p) d = Some (c_digest c) /\
              c_code c = p_mhtype p /\ c_version c = p_version p /\ c_codec c = p_codec p /\
              (length (c_digest c) <= 64)%nat /\ cid_valid c.
Proof. exact self_certifying. Qed.
Print Assumptions C20_self_certifying.

(* every Block entry of a Response event comes from a received payload entry and is certified *)
Theorem C20_responses_certified :
  forall (D : Type) (digest : N -> D -> option (list N)) blocks c d,
    In (c, d) (responses D digest blocks) ->
    exists pb, In (pb, d) blocks /\ block_to_response D digest pb d = Some (c, d).
Proof. exact responses_certified. Qed.
Print Assumptions C20_responses_certified.

Theorem C20_malformed_dropped :
  forall (D : Type) (digest : N -> D -> option (list N)) pb d,
    prefix_from_bytes pb = None -> block_to_response D digest pb d = None.
Proof. exact malformed_dropped. Qed.
Print Assumptions C20_malformed_dropped.

Theorem C20_uncomputable_dropped :
  forall (D : Type) (digest : N -> D -> option (list N)) pb d p,
    prefix_from_bytes pb = Some p -> digest (p_mhtype p) d = None ->
    block_to_response D digest pb d = None.
Proof. exact uncomputable_dropped. Qed.
Print Assumptions C20_uncomputable_dropped.

(* The prefix codec: four canonical varints decode to exactly their values, and the prefix is
   accepted iff the version is 0 or 1 and the multihash length fits a u8. *)
Theorem C20_prefix_codec :
  forall v c t n,
    v < U64_MOD -> c < U64_MOD -> t < U64_MOD -> n < U64_MOD ->
    prefix_from_bytes (varint_enc v ++ varint_enc c ++ varint_enc t ++ varint_enc n) =
    if (v <=? 1) && (n <=? 255) then Some (mkPrefix v c t n) else None.
Proof. exact prefix_codec. Qed.
Print Assumptions C20_prefix_codec.

Theorem C20_prefix_roundtrip :
  forall p, prefix_wf p -> prefix_from_bytes (prefix_to_bytes p) = Some p.
Proof. exact prefix_roundtrip. Qed.
Print Assumptions C20_prefix_roundtrip.

Theorem C20_prefix_trailing_rejected :
  forall p x rest, prefix_wf p -> prefix_from_bytes (prefix_to_bytes p ++ x :: rest) = None.
Proof. exact prefix_trailing_rejected. Qed.
Print Assumptions C20_prefix_trailing_rejected.

(* every accepted prefix has version 0/1, u64 fields and a u8 length *)
Theorem C20_prefix_accepted_wf :
  forall l p, prefix_from_bytes l = Some p -> prefix_wf p.
Proof. exact prefix_from_bytes_wf. Qed.
Print Assumptions C20_prefix_accepted_wf.

(* a block served by an honest peer (prefix built by blocks_message from the CID the data
   hashes to) is delivered under exactly that CID *)
Theorem C20_honest_accepted :
  forall (D : Type) (digest : N -> D -> option (list N)) c d,
    cid_valid c -> c_codec c < U64_MOD -> c_code c < U64_MOD ->
    (length (c_digest c) <= 64)%nat ->
    digest (c_code c) d = Some (c_digest c) ->
    block_to_response D digest (prefix_to_bytes (prefix_of_cid c)) d = Some (c, d).
Proof. exact honest_accepted. Qed.
Print Assumptions C20_honest_accepted.

(* ---------------- sending: size-bounded, lossless batching ---------------- *)

(* For every block type, size functions, limits and queue: the messages that send_response
   writes carry, concatenated, exactly the blocks that fit a message, once and in order. *)
Theorem C20_batches_partition :
  forall (A : Type) (dlen elen : A -> N) (mb mm : N) (l : list A),
    concat (sent_batches A dlen elen mb mm l) = filter (fits A dlen elen mb mm) l.
Proof. exact sent_partition. Qed.
Print Assumptions C20_batches_partition.

(* no message is empty, none exceeds the data limit or the message size limit *)
Theorem C20_batches_bounds :
  forall (A : Type) (dlen elen : A -> N) (mb mm : N) (l : list A),
    Forall (fun b => b <> [] /\ sum (map dlen b) <= mb /\ message_len A elen b <= mm)
           (sent_batches A dlen elen mb mm l).
Proof. exact sent_bounds. Qed.
Print Assumptions C20_batches_bounds.

(* the size check of send_response never has to drop a message *)
Theorem C20_no_message_dropped :
  forall (A : Type) (dlen elen : A -> N) (mb mm : N) (l : list A),
    sent_batches A dlen elen mb mm l = all_batches A dlen elen mb mm l.
Proof. exact sent_is_all. Qed.
Print Assumptions C20_no_message_dropped.

(* the `while let` loop stops by itself after at most length+1 iterations *)
Theorem C20_loop_terminates :
  forall (A : Type) (dlen elen : A -> N) (mb mm : N) (l : list A) (n : nat),
    (length l < n)%nat -> batches A dlen elen mb mm n l = all_batches A dlen elen mb mm l.
Proof. exact loop_terminates. Qed.
Print Assumptions C20_loop_terminates.

(* batching is greedy: a batch ends at the end of the queue or at a block that would break a limit *)
Theorem C20_batch_maximal :
  forall (A : Type) (dlen elen : A -> N) (mb mm : N) (l : list A) tot msg b r,
    take_batch A dlen elen mb mm tot msg l = (b, r) ->
    match r with
    | [] => True
    | a :: _ => mb < tot + sum (map dlen b) + dlen a \/ mm < msg + sum (map elen b) + elen a
    end.
Proof. exact take_batch_maximal. Qed.
Print Assumptions C20_batch_maximal.

(* With the shipped limits (regenerated from config.rs on every run) and the protobuf size
   arithmetic of blocks_message, a block fits a message iff its data is within MAX_BATCH_SIZE:
   every such block is sent exactly once, in order, whatever the mix of sizes. *)
Theorem C20_default_partition :
  forall l,
    concat (send_response_blocks Consts.BITSWAP_MAX_BATCH_SIZE Consts.BITSWAP_MAX_MESSAGE_SIZE l) =
    filter (fun b => sb_dlen b <=? Consts.BITSWAP_MAX_BATCH_SIZE) l.
Proof. exact default_partition. Qed.
Print Assumptions C20_default_partition.

Theorem C20_default_bounds :
  forall l,
    Forall (fun b => b <> [] /\ sum (map sb_dlen b) <= Consts.BITSWAP_MAX_BATCH_SIZE /\
                     message_len sblock sb_elen b <= Consts.BITSWAP_MAX_MESSAGE_SIZE)
           (send_response_blocks Consts.BITSWAP_MAX_BATCH_SIZE Consts.BITSWAP_MAX_MESSAGE_SIZE l).
Proof. exact (sent_bounds sblock sb_dlen sb_elen _ _). Qed.
Print Assumptions C20_default_bounds.

Theorem C20_empty_message_const : EMPTY_MESSAGE_LEN = Consts.BITSWAP_EMPTY_MESSAGE_SIZE.
Proof. reflexivity. Qed.
Print Assumptions C20_empty_message_const.

(* F-C20a, the defect repaired by the `fix:` commit: limiting the data alone (what the code did
   before) cannot bound the message — for all limits there is a queue of blocks that each fit a
   message, whose data is within the batch limit, and whose single message is too long. *)
Theorem C20_payload_bound_insufficient :
  forall mb mm, 10 <= mm ->
    exists l : list sblock,
      Forall (fun b => fits sblock sb_dlen sb_elen mb mm b = true) l /\
      sum (map sb_dlen l) <= mb /\
      mm < message_len sblock sb_elen l.
Proof. exact payload_bound_insufficient. Qed.
Print Assumptions C20_payload_bound_insufficient.

(* ---------------- presences: split like blocks (F-C20b, repaired) ---------------- *)

(* the presence messages of a response carry, concatenated, exactly the presences that fit a
   message, once and in order; none is empty or longer than the limit *)
Theorem C20_presences_partition :
  forall (mm : N) (l : list spres),
    concat (send_response_presences mm l) = filter (fits spres (fun _ => 0) sp_elen 0 mm) l.
Proof. exact (sent_partition spres (fun _ => 0) sp_elen 0). Qed.
Print Assumptions C20_presences_partition.

Theorem C20_presences_bounds :
  forall (mm : N) (l : list spres),
    Forall (fun b => b <> [] /\ sum (map (fun _ => 0) b) <= 0 /\ message_len spres sp_elen b <= mm)
           (send_response_presences mm l).
Proof. exact (sent_bounds spres (fun _ => 0) sp_elen 0). Qed.
Print Assumptions C20_presences_bounds.

(* with the shipped limit every presence (multihash of at most 64 bytes) is sent *)
Theorem C20_default_presences_all_sent :
  forall l, Forall (fun p => (length (c_digest (sp_cid p)) <= 64)%nat) l ->
    concat (send_response_presences Consts.BITSWAP_MAX_MESSAGE_SIZE l) = l.
Proof. exact default_presences_all_sent. Qed.
Print Assumptions C20_default_presences_all_sent.

(* F-C20b, the defect repaired by the second `fix:` commit: one unsplit presence message (what
   the code sent before) cannot respect any message size limit *)
Theorem C20_unsplit_presences_insufficient :
  forall mm, 42 <= mm ->
    exists l : list spres,
      Forall (fun p => fits spres (fun _ => 0) sp_elen 0 mm p = true) l /\
      mm < message_len spres sp_elen l.
Proof. exact unsplit_presences_insufficient. Qed.
Print Assumptions C20_unsplit_presences_insufficient.

(* a whole response: its messages carry exactly the presences and the blocks that fit, in order *)
Theorem C20_response_lossless :
  forall mb mm ps bs,
    flat_map omsg_presences (action_msgs mb mm (AResponse ps bs)) =
      filter (fits spres (fun _ => 0) sp_elen 0 mm) ps /\
    flat_map omsg_blocks (action_msgs mb mm (AResponse ps bs)) =
      filter (fits sblock sb_dlen sb_elen mb mm) bs.
Proof. exact response_lossless. Qed.
Print Assumptions C20_response_lossless.

(* no message of a response is ever refused by the codec's size check *)
Theorem C20_response_within_codec_limit :
  forall mb mm ps bs, Forall (fun m => omsg_len m <= mm) (action_msgs mb mm (AResponse ps bs)).
Proof. exact response_msgs_within_limit. Qed.
Print Assumptions C20_response_within_codec_limit.

Theorem C20_response_written_healthy :
  forall mb mm ps bs,
    write_msgs mm None (action_msgs mb mm (AResponse ps bs)) =
    (action_msgs mb mm (AResponse ps bs), 0, None, true).
Proof. exact response_written_healthy. Qed.
Print Assumptions C20_response_written_healthy.

(* ---------------- CID bytes, wantlists (requesting side and inbound requests) ---------------- *)

Theorem C20_cid_roundtrip :
  forall c rest, cid_wf c -> cid_read_bytes (cid_to_bytes c ++ rest) = Some c.
Proof. exact cid_roundtrip. Qed.
Print Assumptions C20_cid_roundtrip.

Theorem C20_cid_parsed_wf : forall l c, cid_read_bytes l = Some c -> cid_wf c.
Proof. exact cid_read_bytes_wf. Qed.
Print Assumptions C20_cid_parsed_wf.

(* what send_request writes is what the peer's user is told: every representable CID, whatever
   its codec or hash function (no hasher is needed to ask for a block) *)
Theorem C20_request_roundtrip :
  forall cids, Forall (fun cw => cid_wf (fst cw)) cids ->
    inbound_wants (request_entries cids) = cids.
Proof. exact request_roundtrip. Qed.
Print Assumptions C20_request_roundtrip.

(* entries are judged one by one ... *)
Theorem C20_request_entries_independent :
  forall l1 l2, inbound_wants (l1 ++ l2) = inbound_wants l1 ++ inbound_wants l2.
Proof. exact inbound_wants_app. Qed.
Print Assumptions C20_request_entries_independent.

(* ... so an entry with an invalid CID or an unknown want type disappears without touching the rest *)
Theorem C20_request_invalid_entry_dropped :
  forall l1 e l2, entry_want e = None ->
    inbound_wants (l1 ++ e :: l2) = inbound_wants (l1 ++ l2).
Proof. exact invalid_entry_ignored. Qed.
Print Assumptions C20_request_invalid_entry_dropped.

(* every reported want comes from an entry whose bytes parse to that CID, with WantType 0 -> Block,
   1 -> Have *)
Theorem C20_request_reported_wellformed :
  forall es c w, In (c, w) (inbound_wants es) ->
    exists e, In e es /\ cid_read_bytes (we_block e) = Some c /\ we_wanttype e = want_code w /\ cid_wf c.
Proof. exact inbound_wants_in. Qed.
Print Assumptions C20_request_reported_wellformed.

(* priority, cancel and sendDontHave are not looked at: a cancel entry is reported as a want *)
Theorem C20_request_ignores_cancel :
  forall b t p1 c1 s1 p2 c2 s2,
    entry_want (mkWE b p1 c1 t s1) = entry_want (mkWE b p2 c2 t s2).
Proof. exact entry_want_ignores. Qed.
Print Assumptions C20_request_ignores_cancel.

Theorem C20_presence_roundtrip :
  forall c p, cid_wf c -> presence_of (cid_to_bytes c, presence_code p) = Some (c, p).
Proof. exact presence_roundtrip. Qed.
Print Assumptions C20_presence_roundtrip.

(* ---------------- whole messages, substreams, sessions ---------------- *)

Theorem C20_message_blocks_certified :
  forall (D : Type) (digest : N -> D -> option (list N)) m c d,
    In (c, d) (flat_map (event_blocks D) (msg_events D digest m)) ->
    exists pb, In (pb, d) (m_payload m) /\ block_to_response D digest pb d = Some (c, d).
Proof. exact msg_blocks_certified. Qed.
Print Assumptions C20_message_blocks_certified.

(* No partial delivery: the events of an inbound substream are those of its complete, decodable
   frames; whatever ends it (truncated frame and close, reset, oversize or malformed length,
   bytes that are not protobuf) contributes nothing and nothing behind it is read. *)
Theorem C20_no_partial_delivery :
  forall (D : Type) (digest : N -> D -> option (list N)) ms rest,
    inbound_events D digest (map IFrame ms ++ IBad :: rest) = flat_map (msg_events D digest) ms.
Proof. exact inbound_no_partial. Qed.
Print Assumptions C20_no_partial_delivery.

(* the sender's side of it: a write that stalls (timeout) or fails leaves complete frames and a
   piece of one frame; the receiver delivers the complete ones only *)
Theorem C20_sender_failure_no_partial_delivery :
  forall (D : Type) (digest : N -> D -> option (list N)) (rx : omsg -> message D)
         mm c ms done part c' ok rest,
    write_msgs mm c ms = (done, part, c', ok) ->
    inbound_events D digest (map (fun m => IFrame (rx m)) done ++ IBad :: rest) =
      flat_map (fun m => msg_events D digest (rx m)) done /\
    exists tail, ms = done ++ tail.
Proof. exact sender_failure_no_partial_delivery. Qed.
Print Assumptions C20_sender_failure_no_partial_delivery.

Theorem C20_write_prefix :
  forall mm ms c done part c' ok,
    write_msgs mm c ms = (done, part, c', ok) ->
    exists rest,
      ms = done ++ rest /\
      (ok = true -> rest = [] /\ part = 0) /\
      (ok = false -> rest <> []) /\
      Forall (fun m => omsg_len m <= mm) done.
Proof. exact write_msgs_spec. Qed.
Print Assumptions C20_write_prefix.

(* For every session — whatever was asked for, whoever answers, in any number of messages and in
   any order: every block handed to the user hashes to the CID it is reported under. *)
Theorem C20_session_blocks_certified :
  forall (D : Type) (digest : N -> D -> option (list N)) ops c d,
    In (c, d) (flat_map (event_blocks D) (session_events D digest ops)) ->
    digest (c_code c) d = Some (c_digest c) /\ cid_valid c /\ (length (c_digest c) <= 64)%nat.
Proof. exact session_blocks_certified. Qed.
Print Assumptions C20_session_blocks_certified.

(* litep2p itself keeps no record of what was asked for.  "Only requested" and "at most once" do
   NOT hold for the events it emits: *)
Theorem C20_only_requested_refuted :
  exists ops : list (sess_op N),
    requested N ops = [] /\
    In (demo_cid, 7) (flat_map (event_blocks N) (session_events N demo_digest ops)).
Proof. exact unsolicited_delivered. Qed.
Print Assumptions C20_only_requested_refuted.

Theorem C20_no_duplicate_delivery_refuted :
  exists ops : list (sess_op N),
    requested N ops = [demo_cid] /\
    flat_map (event_blocks N) (session_events N demo_digest ops) = [(demo_cid, 7); (demo_cid, 7)].
Proof. exact duplicate_delivered. Qed.
Print Assumptions C20_no_duplicate_delivery_refuted.

(* What self-certification buys: a client that keeps a want set (Model.client_run — not part of
   litep2p) accepts, for every interleaving of its requests and of incoming messages, only blocks
   it asked for before they arrived, each hashing to its CID, ... *)
Theorem C20_only_requested_with_want_filter :
  forall (D : Type) (digest : N -> D -> option (list N)) ops want c d,
    In (c, d) (client_run D digest want ops) ->
    exists o1 m o2,
      ops = o1 ++ SIncoming m :: o2 /\
      (In c want \/ In c (requested D o1)) /\
      In (c, d) (flat_map (event_blocks D) (msg_events D digest m)) /\
      digest (c_code c) d = Some (c_digest c).
Proof. exact client_only_requested. Qed.
Print Assumptions C20_only_requested_with_want_filter.

(* ... and no CID more often than it was asked for *)
Theorem C20_no_duplicate_delivery_with_want_filter :
  forall (D : Type) (digest : N -> D -> option (list N)) ops want c,
    (cnt D c (client_run D digest want ops) <= memn c want + req_count D c ops)%nat.
Proof. exact client_no_duplicates. Qed.
Print Assumptions C20_no_duplicate_delivery_with_want_filter.

(* non-vacuity *)
Example C20_nonvacuous_batching :
  let l := [mkSB 0 (mkCid 1 85 18 (repeat 0 32%nat)) 10; mkSB 1 (mkCid 1 85 18 (repeat 0 32%nat)) 101;
            mkSB 2 (mkCid 1 85 18 (repeat 0 32%nat)) 10; mkSB 3 (mkCid 1 85 18 (repeat 0 32%nat)) 0;
            mkSB 4 (mkCid 1 85 18 (repeat 0 32%nat)) 1] in
  map (map sb_id) (send_response_blocks 20 40 l) = [[0]; [2; 3]; [4]].
Proof. vm_compute. reflexivity. Qed.

Example C20_nonvacuous_receive :
  let digest := fun (code : N) (d : N) => if code =? 18 then Some (repeat d 32%nat) else None in
  block_to_response N digest [1; 85; 18; 32] 7 = Some (mkCid 1 85 18 (repeat 7 32%nat), 7) /\
  block_to_response N digest [1; 85; 17; 20] 7 = None /\
  block_to_response N digest [2; 85; 18; 32] 7 = None /\
  block_to_response N digest [1; 85; 18; 32; 0] 7 = None /\
  block_to_response N digest [0; 112; 18; 32] 7 = Some (mkCid 0 112 18 (repeat 7 32%nat), 7) /\
  block_to_response N digest [0; 85; 18; 32] 7 = None /\
  block_to_response N digest [1; 128; 0; 18; 32] 7 = None.
Proof. vm_compute. repeat split; reflexivity. Qed.
