(* C20 — pinned property theorems. This file contains statements, `exact`, and
   Print Assumptions only. The pins in tools/pins/C20.v re-check the statements. *)
From Coq Require Import List NArith Bool.
From V.gen Require Consts.
From V.C20 Require Import Model Proofs.
Import ListNotations.
Open Scope N_scope.

(* ---------------- receiving: self-certification ---------------- *)

(* Whatever block_to_response delivers is the received payload itself, paired with a CID whose
   digest is the digest — under the hash function named by the prefix — of that received
   payload, and whose version and codec are the prefix's. Holds for every payload type, every
   family of hash functions (any subset supported), every prefix byte string. *)
Theorem C20_self_certifying :
  forall (D : Type) (digest : N -> D -> option (list N)) pb d c d',
    block_to_response D digest pb d = Some (c, d') ->
    d' = d /\
    exists p, prefix_from_bytes pb = Some p /\
              digest (p_mhtype p) d = Some (c_digest c) /\
              c_code c = p_mhtype p /\ c_version c = p_version p /\ c_codec c = p_codec p /\
              (length (c_digest c) <= 64)%nat /\ cid_valid c.
Proof. exact self_certifying. Qed.
Print Assumptions C20_self_certifying.

(* every Block entry of a Response event comes from a received payload entry and is certified *)
Theorem C20_responses_certified :
  forall (D : Type) (digest : N -> D -> option (list N)) blocks c d,
    In (c, d) (responses D digest blocks) ->
    exists pb, In (pb, d) blocks /\ block_to_response D digest pb d = Some (c, d).
Proof. exact responses_certified. Qed.
Print Assumptions C20_responses_certified.

Theorem C20_malformed_dropped :
  forall (D : Type) (digest : N -> D -> option (list N)) pb d,
    prefix_from_bytes pb = None -> block_to_response D digest pb d = None.
Proof. exact malformed_dropped. Qed.
Print Assumptions C20_malformed_dropped.

Theorem C20_uncomputable_dropped :
  forall (D : Type) (digest : N -> D -> option (list N)) pb d p,
    prefix_from_bytes pb = Some p -> digest (p_mhtype p) d = None ->
    block_to_response D digest pb d = None.
Proof. exact uncomputable_dropped. Qed.
Print Assumptions C20_uncomputable_dropped.

(* The prefix codec: four canonical varints decode to exactly their values, and the prefix is
   accepted iff the version is 0 or 1 and the multihash length fits a u8. *)
Theorem C20_prefix_codec :
  forall v c t n,
    v < U64_MOD -> c < U64_MOD -> t < U64_MOD -> n < U64_MOD ->
    prefix_from_bytes (varint_enc v ++ varint_enc c ++ varint_enc t ++ varint_enc n) =
    if (v <=? 1) && (n <=? 255) then Some (mkPrefix v c t n) else None.
Proof. exact prefix_codec. Qed.
Print Assumptions C20_prefix_codec.

Theorem C20_prefix_roundtrip :
  forall p, prefix_wf p -> prefix_from_bytes (prefix_to_bytes p) = Some p.
Proof. exact prefix_roundtrip. Qed.
Print Assumptions C20_prefix_roundtrip.

Theorem C20_prefix_trailing_rejected :
  forall p x rest, prefix_wf p -> prefix_from_bytes (prefix_to_bytes p ++ x :: rest) = None.
Proof. exact prefix_trailing_rejected. Qed.
Print Assumptions C20_prefix_trailing_rejected.

(* every accepted prefix has version 0/1, u64 fields and a u8 length *)
Theorem C20_prefix_accepted_wf :
  forall l p, prefix_from_bytes l = Some p -> prefix_wf p.
Proof. exact prefix_from_bytes_wf. Qed.
Print Assumptions C20_prefix_accepted_wf.

(* a block served by an honest peer (prefix built by blocks_message from the CID the data
   hashes to) is delivered under exactly that CID *)
Theorem C20_honest_accepted :
  forall (D : Type) (digest : N -> D -> option (list N)) c d,
    cid_valid c -> c_codec c < U64_MOD -> c_code c < U64_MOD ->
    (length (c_digest c) <= 64)%nat ->
    digest (c_code c) d = Some (c_digest c) ->
    block_to_response D digest (prefix_to_bytes (prefix_of_cid c)) d = Some (c, d).
Proof. exact honest_accepted. Qed.
Print Assumptions C20_honest_accepted.

(* ---------------- sending: size-bounded, lossless batching ---------------- *)

(* For every block type, size functions, limits and queue: the messages that send_response
   writes carry, concatenated, exactly the blocks that fit a message, once and in order. *)
Theorem C20_batches_partition :
  forall (A : Type) (dlen elen : A -> N) (mb mm : N) (l : list A),
    concat (sent_batches A dlen elen mb mm l) = filter (fits A dlen elen mb mm) l.
Proof. exact sent_partition. Qed.
Print Assumptions C20_batches_partition.

(* no message is empty, none exceeds the data limit or the message size limit *)
Theorem C20_batches_bounds :
  forall (A : Type) (dlen elen : A -> N) (mb mm : N) (l : list A),
    Forall (fun b => b <> [] /\ sum (map dlen b) <= mb /\ message_len A elen b <= mm)
           (sent_batches A dlen elen mb mm l).
Proof. exact sent_bounds. Qed.
Print Assumptions C20_batches_bounds.

(* the size check of send_response never has to drop a message *)
Theorem C20_no_message_dropped :
  forall (A : Type) (dlen elen : A -> N) (mb mm : N) (l : list A),
    sent_batches A dlen elen mb mm l = all_batches A dlen elen mb mm l.
Proof. exact sent_is_all. Qed.
Print Assumptions C20_no_message_dropped.

(* the `while let` loop stops by itself after at most length+1 iterations *)
Theorem C20_loop_terminates :
  forall (A : Type) (dlen elen : A -> N) (mb mm : N) (l : list A) (n : nat),
    (length l < n)%nat -> batches A dlen elen mb mm n l = all_batches A dlen elen mb mm l.
Proof. exact loop_terminates. Qed.
Print Assumptions C20_loop_terminates.

(* batching is greedy: a batch ends at the end of the queue or at a block that would break a limit *)
Theorem C20_batch_maximal :
  forall (A : Type) (dlen elen : A -> N) (mb mm : N) (l : list A) tot msg b r,
    take_batch A dlen elen mb mm tot msg l = (b, r) ->
    match r with
    | [] => True
    | a :: _ => mb < tot + sum (map dlen b) + dlen a \/ mm < msg + sum (map elen b) + elen a
    end.
Proof. exact take_batch_maximal. Qed.
Print Assumptions C20_batch_maximal.

(* With the shipped limits (regenerated from config.rs on every run) and the protobuf size
   arithmetic of blocks_message, a block fits a message iff its data is within MAX_BATCH_SIZE:
   every such block is sent exactly once, in order, whatever the mix of sizes. *)
Theorem C20_default_partition :
  forall l,
    concat (send_response_blocks Consts.BITSWAP_MAX_BATCH_SIZE Consts.BITSWAP_MAX_MESSAGE_SIZE l) =
    filter (fun b => sb_dlen b <=? Consts.BITSWAP_MAX_BATCH_SIZE) l.
Proof. exact default_partition. Qed.
Print Assumptions C20_default_partition.

Theorem C20_default_bounds :
  forall l,
    Forall (fun b => b <> [] /\ sum (map sb_dlen b) <= Consts.BITSWAP_MAX_BATCH_SIZE /\
                     message_len sblock sb_elen b <= Consts.BITSWAP_MAX_MESSAGE_SIZE)
           (send_response_blocks Consts.BITSWAP_MAX_BATCH_SIZE Consts.BITSWAP_MAX_MESSAGE_SIZE l).
Proof. exact (sent_bounds sblock sb_dlen sb_elen _ _). Qed.
Print Assumptions C20_default_bounds.

Theorem C20_empty_message_const : EMPTY_MESSAGE_LEN = Consts.BITSWAP_EMPTY_MESSAGE_SIZE.
Proof. reflexivity. Qed.
Print Assumptions C20_empty_message_const.

(* F-C20a, the defect repaired by the `fix:` commit: limiting the data alone (what the code did
   before) cannot bound the message — for all limits there is a queue of blocks that each fit a
   message, whose data is within the batch limit, and whose single message is too long. *)
Theorem C20_payload_bound_insufficient :
  forall mb mm, 10 <= mm ->
    exists l : list sblock,
      Forall (fun b => fits sblock sb_dlen sb_elen mb mm b = true) l /\
      sum (map sb_dlen l) <= mb /\
      mm < message_len sblock sb_elen l.
Proof. exact payload_bound_insufficient. Qed.
Print Assumptions C20_payload_bound_insufficient.

(* non-vacuity *)
Example C20_nonvacuous_batching :
  let l := [mkSB 0 (mkCid 1 85 18 (repeat 0 32%nat)) 10; mkSB 1 (mkCid 1 85 18 (repeat 0 32%nat)) 101;
            mkSB 2 (mkCid 1 85 18 (repeat 0 32%nat)) 10; mkSB 3 (mkCid 1 85 18 (repeat 0 32%nat)) 0;
            mkSB 4 (mkCid 1 85 18 (repeat 0 32%nat)) 1] in
  map (map sb_id) (send_response_blocks 20 40 l) = [[0]; [2; 3]; [4]].
Proof. vm_compute. reflexivity. Qed.

Example C20_nonvacuous_receive :
  let digest := fun (code : N) (d : N) => if code =? 18 then Some (repeat d 32%nat) else None in
  block_to_response N digest [1; 85; 18; 32] 7 = Some (mkCid 1 85 18 (repeat 7 32%nat), 7) /\
  block_to_response N digest [1; 85; 17; 20] 7 = None /\
  block_to_response N digest [2; 85; 18; 32] 7 = None /\
  block_to_response N digest [1; 85; 18; 32; 0] 7 = None /\
  block_to_response N digest [0; 112; 18; 32] 7 = Some (mkCid 0 112 18 (repeat 7 32%nat), 7) /\
  block_to_response N digest [0; 85; 18; 32] 7 = None /\
  block_to_response N digest [1; 128; 0; 18; 32] 7 = None.
Proof. vm_compute. repeat split; reflexivity. Qed.
