(* C20 — executable model of the block paths of litep2p's Bitswap
   (src/protocol/libp2p/bitswap/mod.rs, config.rs).  Definitions only; proofs are in Proofs.v.

   Receiving side: `Prefix::from_bytes` (four unsigned varints as decoded by the crate
   unsigned-varint 0.8, `Version::try_from`, `u8::try_from`), `block_to_response`
   (`Code::try_from` + `digest`, `Multihash::wrap` (<= 64 bytes), `Cid::new` with the CIDv0 rules
   of the crate cid 0.11) and the payload loop of `on_message_received`.
   Sending side: `Prefix::to_bytes`, `blocks_message` (protobuf `encoded_len` arithmetic),
   `extract_next_batch` and the `while let` loop of `send_response`.

   Abstractions (all diffed by the correspondence harness):
   - bytes are numbers (N) below 256; block payloads are abstract (a type D on the receiving side,
     only their length on the sending side), so that megabyte blocks cost nothing;
   - the hash functions are one abstract function `digest : code -> data -> option bytes`
     (None = `Code::try_from` fails, i.e. the hasher is not compiled in);
   - `usize` arithmetic is unbounded. *)
From Coq Require Import List NArith Bool.
Import ListNotations.
Open Scope N_scope.

(* ------------------------------------------------------------------ unsigned varints *)

Definition U64_MOD : N := 18446744073709551616.   (* 2^64 *)

(* unsigned_varint::decode::u64 (macro `decode!(buf, 9, u64)`): `first` = this is byte 0,
   `fuel` = 9 - index of the byte.  A multi-byte varint whose last byte is 0 is NotMinimal,
   a tenth byte with the continuation bit is Overflow, running out of bytes is Insufficient;
   all three are None here (the caller maps every error to None with `.ok()?`).
   The value is returned unreduced; `varint_dec` reduces it modulo 2^64 because the code
   accumulates with `n |= k << (i * 7)` in a u64, which silently drops the high bits of byte 9. *)
Fixpoint varint_dec_raw (first : bool) (fuel : nat) (l : list N) : option (N * list N) :=
  match l with
  | [] => None
  | b :: t =>
      if b <? 128 then
        if (b =? 0) && negb first then None else Some (b, t)
      else
        match fuel with
        | O => None
        | S f =>
            match varint_dec_raw false f t with
            | Some (v, r) => Some ((b - 128) + 128 * v, r)
            | None => None
            end
        end
  end.

Definition varint_dec (l : list N) : option (N * list N) :=
  match varint_dec_raw true 9 l with
  | Some (v, r) => Some (v mod U64_MOD, r)
  | None => None
  end.

(* unsigned_varint::encode::u64 *)
Fixpoint varint_enc_f (fuel : nat) (n : N) : list N :=
  if n <? 128 then [n]
  else
    match fuel with
    | O => [n mod 128]
    | S f => (128 + n mod 128) :: varint_enc_f f (n / 128)
    end.

Definition varint_enc (n : N) : list N := varint_enc_f 9 n.

(* prost::encoding::encoded_len_varint: the number of bytes of the varint *)
Definition vlen (n : N) : N := N.of_nat (length (varint_enc n)).

(* ------------------------------------------------------------------ Prefix *)

Record prefix := mkPrefix {
  p_version : N;      (* cid::Version as u64: 0 or 1 *)
  p_codec : N;
  p_mhtype : N;
  p_mhlen : N         (* u8 *)
}.

(* Prefix::to_bytes *)
Definition prefix_to_bytes (p : prefix) : list N :=
  varint_enc (p_version p) ++ varint_enc (p_codec p) ++ varint_enc (p_mhtype p) ++
  varint_enc (p_mhlen p).

(* Prefix::from_bytes *)
Definition prefix_from_bytes (l : list N) : option prefix :=
  match varint_dec l with
  | None => None
  | Some (v, r1) =>
  match varint_dec r1 with
  | None => None
  | Some (c, r2) =>
  match varint_dec r2 with
  | None => None
  | Some (t, r3) =>
  match varint_dec r3 with
  | None => None
  | Some (n, r4) =>
      match r4 with
      | _ :: _ => None                                  (* trailing bytes *)
      | [] => if (v <=? 1) && (n <=? 255)               (* Version::try_from, u8::try_from *)
              then Some (mkPrefix v c t n) else None
      end
  end end end end.

(* ------------------------------------------------------------------ Cid *)

Record cid := mkCid {
  c_version : N; c_codec : N; c_code : N; c_digest : list N
}.

Definition DAG_PB : N := 112.       (* 0x70 *)
Definition SHA2_256 : N := 18.      (* 0x12 *)

(* cid::Cid::new (version is already 0 or 1) *)
Definition cid_new (v codec code : N) (dg : list N) : option cid :=
  if v =? 0 then
    if (codec =? DAG_PB) && (code =? SHA2_256) && (N.of_nat (length dg) =? 32)
    then Some (mkCid 0 DAG_PB code dg) else None
  else Some (mkCid v codec code dg).

(* the prefix blocks_message builds for a block stored under `c` *)
Definition prefix_of_cid (c : cid) : prefix :=
  mkPrefix (c_version c) (c_codec c) (c_code c) (N.of_nat (length (c_digest c))).

(* ------------------------------------------------------------------ receiving *)

Section Receive.
  Variable D : Type.                                   (* block payloads *)
  Variable digest : N -> D -> option (list N).         (* Code::try_from(code).digest(data) *)

  (* block_to_response *)
  Definition block_to_response (pb : list N) (d : D) : option (cid * D) :=
    match prefix_from_bytes pb with
    | None => None
    | Some p =>
        match digest (p_mhtype p) d with
        | None => None
        | Some dg =>
            if 64 <? N.of_nat (length dg) then None      (* Multihash::<64>::wrap *)
            else
              match cid_new (p_version p) (p_codec p) (p_mhtype p) dg with
              | None => None
              | Some c => Some (c, d)
              end
        end
    end.

  (* the payload loop of on_message_received: the Block entries of one BitswapEvent::Response *)
  Definition responses (blocks : list (list N * D)) : list (cid * D) :=
    flat_map (fun b => match block_to_response (fst b) (snd b) with
                       | Some r => [r]
                       | None => []
                       end) blocks.
End Receive.

(* ------------------------------------------------------------------ sending: sizes *)

(* a protobuf `bytes` field with a one-byte tag; proto3 omits an empty field *)
Definition field_len (n : N) : N := if n =? 0 then 0 else 1 + vlen n + n.

(* one entry of `repeated Block payload = 3` whose Block has a prefix of plen and data of dlen bytes *)
Definition entry_len (plen dlen : N) : N :=
  let b := field_len plen + field_len dlen in 1 + vlen b + b.

(* blocks_message always sets `wantlist: Some(Default::default())`: tag + zero length *)
Definition EMPTY_MESSAGE_LEN : N := 2.

Fixpoint sum (l : list N) : N := match l with [] => 0 | x :: t => x + sum t end.

Section Batching.
  Variable A : Type.             (* a queued block *)
  Variable dlen : A -> N.        (* length of its data *)
  Variable elen : A -> N.        (* its encoded size as a payload entry *)
  Variable mb : N.               (* max_batch_size *)
  Variable mm : N.               (* max_message_size *)

  (* encoded length of blocks_message(batch) *)
  Definition message_len (b : list A) : N := EMPTY_MESSAGE_LEN + sum (map elen b).

  (* a block that can be sent at all: alone it respects both limits *)
  Definition fits (a : A) : bool :=
    (dlen a <=? mb) && (EMPTY_MESSAGE_LEN + elen a <=? mm).

  (* first loop of extract_next_batch: pop blocks that can never be sent *)
  Fixpoint drop_unfit (l : list A) : list A :=
    match l with
    | [] => []
    | a :: t => if fits a then l else drop_unfit t
    end.

  (* second loop: count the blocks of the next batch; returns (batch, rest) *)
  Fixpoint take_batch (tot msg : N) (l : list A) : list A * list A :=
    match l with
    | [] => ([], [])
    | a :: t =>
        if (mb <? tot + dlen a) || (mm <? msg + elen a) then ([], l)
        else let '(b, r) := take_batch (tot + dlen a) (msg + elen a) t in (a :: b, r)
    end.

  (* extract_next_batch: None when the queue (after dropping) is empty *)
  Definition extract_next_batch (l : list A) : option (list A * list A) :=
    match drop_unfit l with
    | [] => None
    | l' => Some (take_batch 0 EMPTY_MESSAGE_LEN l')
    end.

  (* the `while let Some(batch) = extract_next_batch(..)` loop of send_response *)
  Fixpoint batches (fuel : nat) (l : list A) : list (list A) :=
    match fuel with
    | O => []
    | S f =>
        match extract_next_batch l with
        | None => []
        | Some (b, r) => b :: batches f r
        end
    end.

  Definition all_batches (l : list A) : list (list A) := batches (S (length l)) l.

  (* send_response: blocks_message gives None for an empty batch, and a message longer than
     max_message_size is dropped with a warning *)
  Definition sendable (b : list A) : bool :=
    match b with [] => false | _ => message_len b <=? mm end.

  Definition sent_batches (l : list A) : list (list A) := filter sendable (all_batches l).
End Batching.

(* a queued block as send_response sees it: identity, CID, data length *)
Record sblock := mkSB { sb_id : N; sb_cid : cid; sb_dlen : N }.

Definition sb_prefix (b : sblock) : list N := prefix_to_bytes (prefix_of_cid (sb_cid b)).
Definition sb_elen (b : sblock) : N := entry_len (N.of_nat (length (sb_prefix b))) (sb_dlen b).

(* the blocks of send_response(entries) as they go out, message by message *)
Definition send_response_blocks (mb mm : N) (l : list sblock) : list (list sblock) :=
  sent_batches sblock sb_dlen sb_elen mb mm l.
