(* C20 — executable model of the block paths of litep2p's Bitswap
   (src/protocol/libp2p/bitswap/mod.rs, config.rs).  Definitions only; proofs are in Proofs.v.

   Receiving side: `Prefix::from_bytes` (four unsigned varints as decoded by the crate
   unsigned-varint 0.8, `Version::try_from`, `u8::try_from`), `block_to_response`
   (`Code::try_from` + `digest`, `Multihash::wrap` (<= 64 bytes), `Cid::new` with the CIDv0 rules
   of the crate cid 0.11) and the payload loop of `on_message_received`.
   Sending side: `Prefix::to_bytes`, `blocks_message` / `presences_message` (protobuf
   `encoded_len` arithmetic), `extract_next_batch`, `extract_next_presence_batch` and the two
   `while let` loops of `send_response`; `send_request` (the wantlist a request becomes).
   Whole messages: the CID byte codec (`Cid::to_bytes` / `Cid::read_bytes` of the crate cid 0.11),
   the wantlist, payload and presence parts of `on_message_received`, the events one message
   and one inbound substream produce.

   Abstractions (all diffed by the correspondence harness):
   - bytes are numbers (N) below 256; block payloads are abstract (a type D on the receiving side,
     only their length on the sending side), so that megabyte blocks cost nothing;
   - the hash functions are one abstract function `digest : code -> data -> option bytes`
     (None = `Code::try_from` fails, i.e. the hasher is not compiled in);
   - `usize` arithmetic is unbounded. *)
From Coq Require Import List NArith Bool.
Import ListNotations.
Open Scope N_scope.

(* ------------------------------------------------------------------ unsigned varints *)

Definition U64_MOD : N := 18446744073709551616.   (* 2^64 *)

(* unsigned_varint::decode::u64 (macro `decode!(buf, 9, u64)`): `first` = this is byte 0,
   `fuel` = 9 - index of the byte.  A multi-byte varint whose last byte is 0 is NotMinimal,
   a tenth byte with the continuation bit is Overflow, running out of bytes is Insufficient;
   all three are None here (the caller maps every error to None with `.ok()?`).
   The value is returned unreduced; `varint_dec` reduces it modulo 2^64 because the code
   accumulates with `n |= k << (i * 7)` in a u64, which silently drops the high bits of byte 9. *)
Fixpoint varint_dec_raw (first : bool) (fuel : nat) (l : list N) : option (N * list N) :=
  match l with
  | [] => None
  | b :: t =>
      if b <? 128 then
        if (b =? 0) && negb first then None else Some (b, t)
      else
        match fuel with
        | O => None
        | S f =>
            match varint_dec_raw false f t with
            | Some (v, r) => Some ((b - 128) + 128 * v, r)
            | None => None
            end
        end
  end.

Definition varint_dec (l : list N) : option (N * list N) :=
  match varint_dec_raw true 9 l with
  | Some (v, r) => Some (v mod U64_MOD, r)
  | None => None
  end.

(* the low seven bits and the rest, as the code computes them (`n as u8 | 0x80`, `n >>= 7`);
   Proofs.lo7_mod / hi7_div: these are n mod 128 and n / 128 *)
Definition lo7 (n : N) : N := N.land n 127.
Definition hi7 (n : N) : N := N.shiftr n 7.

(* unsigned_varint::encode::u64 *)
Fixpoint varint_enc_f (fuel : nat) (n : N) : list N :=
  if n <? 128 then [n]
  else
    match fuel with
    | O => [lo7 n]
    | S f => (128 + lo7 n) :: varint_enc_f f (hi7 n)
    end.

Definition varint_enc (n : N) : list N := varint_enc_f 9 n.

(* prost::encoding::encoded_len_varint: the number of bytes of the varint *)
Definition vlen (n : N) : N := N.of_nat (length (varint_enc n)).

(* ------------------------------------------------------------------ Prefix *)

Record prefix := mkPrefix {
  p_version : N;      (* cid::Version as u64: 0 or 1 *)
  p_codec : N;
  p_mhtype : N;
  p_mhlen : N         (* u8 *)
}.

(* Prefix::to_bytes *)
Definition prefix_to_bytes (p : prefix) : list N :=
  varint_enc (p_version p) ++ varint_enc (p_codec p) ++ varint_enc (p_mhtype p) ++
  varint_enc (p_mhlen p).

(* Prefix::from_bytes *)
Definition prefix_from_bytes (l : list N) : option prefix :=
  match varint_dec l with
  | None => None
  | Some (v, r1) =>
  match varint_dec r1 with
  | None => None
  | Some (c, r2) =>
  match varint_dec r2 with
  | None => None
  | Some (t, r3) =>
  match varint_dec r3 with
  | None => None
  | Some (n, r4) =>
      match r4 with
      | _ :: _ => None                                  (* trailing bytes *)
      | [] => if (v <=? 1) && (n <=? 255)               (* Version::try_from, u8::try_from *)
              then Some (mkPrefix v c t n) else None
      end
  end end end end.

(* ------------------------------------------------------------------ Cid *)

Record cid := mkCid {
  c_version : N; c_codec : N; c_code : N; c_digest : list N
}.

Definition DAG_PB : N := 112.       (* 0x70 *)
Definition SHA2_256 : N := 18.      (* 0x12 *)

(* cid::Cid::new (version is already 0 or 1) *)
Definition cid_new (v codec code : N) (dg : list N) : option cid :=
  if v =? 0 then
    if (codec =? DAG_PB) && (code =? SHA2_256) && (N.of_nat (length dg) =? 32)
    then Some (mkCid 0 DAG_PB code dg) else None
  else Some (mkCid v codec code dg).

(* the prefix blocks_message builds for a block stored under `c` *)
Definition prefix_of_cid (c : cid) : prefix :=
  mkPrefix (c_version c) (c_codec c) (c_code c) (N.of_nat (length (c_digest c))).

(* ------------------------------------------------------------------ receiving *)

Section Receive.
  Variable D : Type.                                   (* block payloads *)
  Variable digest : N -> D -> option (list N).         (* Code::try_from(code).digest(data) *)

  (* block_to_response *)
  Definition block_to_response (pb : list N) (d : D) : option (cid * D) :=
    match prefix_from_bytes pb with
    | None => None
    | Some p =>
        match digest (p_mhtype p) d with
        | None => None
        | Some dg =>
            if 64 <? N.of_nat (length dg) then None      (* Multihash::<64>::wrap *)
            else
              match cid_new (p_version p) (p_codec p) (p_mhtype p) dg with
              | None => None
              | Some c => Some (c, d)
              end
        end
    end.

  (* the payload loop of on_message_received: the Block entries of one BitswapEvent::Response *)
  Definition responses (blocks : list (list N * D)) : list (cid * D) :=
    flat_map (fun b => match block_to_response (fst b) (snd b) with
                       | Some r => [r]
                       | None => []
                       end) blocks.
End Receive.

(* ------------------------------------------------------------------ sending: sizes *)

(* a protobuf `bytes` field with a one-byte tag; proto3 omits an empty field *)
Definition field_len (n : N) : N := if n =? 0 then 0 else 1 + vlen n + n.

(* one entry of `repeated Block payload = 3` whose Block has a prefix of plen and data of dlen bytes *)
Definition entry_len (plen dlen : N) : N :=
  let b := field_len plen + field_len dlen in 1 + vlen b + b.

(* blocks_message always sets `wantlist: Some(Default::default())`: tag + zero length *)
Definition EMPTY_MESSAGE_LEN : N := 2.

Fixpoint sum (l : list N) : N := match l with [] => 0 | x :: t => x + sum t end.

Section Batching.
  Variable A : Type.             (* a queued entry: a block, a presence *)
  Variable dlen : A -> N.        (* length of its data (blocks; 0 otherwise) *)
  Variable elen : A -> N.        (* its encoded size as an entry of the message *)
  Variable mlen : N -> N.        (* encoded length of a message whose entries take that many bytes *)
  Variable mb : N.               (* max_batch_size *)
  Variable mm : N.               (* max_message_size *)

  (* encoded length of the message built from a batch *)
  Definition message_len (b : list A) : N := mlen (sum (map elen b)).

  (* an entry that can be sent at all: alone it respects both limits *)
  Definition fits (a : A) : bool :=
    (dlen a <=? mb) && (mlen (elen a) <=? mm).

  (* first loop of extract_next_batch: pop entries that can never be sent *)
  Fixpoint drop_unfit (l : list A) : list A :=
    match l with
    | [] => []
    | a :: t => if fits a then l else drop_unfit t
    end.

  (* second loop: count the entries of the next batch (tot = data bytes, acc = entry bytes so
     far); returns (batch, rest) *)
  Fixpoint take_batch (tot acc : N) (l : list A) : list A * list A :=
    match l with
    | [] => ([], [])
    | a :: t =>
        if (mb <? tot + dlen a) || (mm <? mlen (acc + elen a)) then ([], l)
        else let '(b, r) := take_batch (tot + dlen a) (acc + elen a) t in (a :: b, r)
    end.

  (* extract_next_batch: None when the queue (after dropping) is empty *)
  Definition extract_next_batch (l : list A) : option (list A * list A) :=
    match drop_unfit l with
    | [] => None
    | l' => Some (take_batch 0 0 l')
    end.

  (* the `while let Some(batch) = extract_next_batch(..)` loops of send_response *)
  Fixpoint batches (fuel : nat) (l : list A) : list (list A) :=
    match fuel with
    | O => []
    | S f =>
        match extract_next_batch l with
        | None => []
        | Some (b, r) => b :: batches f r
        end
    end.

  Definition all_batches (l : list A) : list (list A) := batches (S (length l)) l.

  (* send_response: blocks_message gives None for an empty batch, and a message longer than
     max_message_size is dropped with a warning *)
  Definition sendable (b : list A) : bool :=
    match b with [] => false | _ => message_len b <=? mm end.

  Definition sent_batches (l : list A) : list (list A) := filter sendable (all_batches l).

End Batching.

(* blocks_message / presences_message: the empty wantlist, then the entries *)
Definition blk_mlen (s : N) : N := EMPTY_MESSAGE_LEN + s.
(* the message of send_request: the entries wrapped in the wantlist field *)
Definition req_mlen (s : N) : N := 1 + vlen s + s.

(* a queued block as send_response sees it: identity, CID, data length *)
Record sblock := mkSB { sb_id : N; sb_cid : cid; sb_dlen : N }.

Definition sb_prefix (b : sblock) : list N := prefix_to_bytes (prefix_of_cid (sb_cid b)).
Definition sb_elen (b : sblock) : N := entry_len (N.of_nat (length (sb_prefix b))) (sb_dlen b).

(* the blocks of send_response(entries) as they go out, message by message *)
Definition send_response_blocks (mb mm : N) (l : list sblock) : list (list sblock) :=
  sent_batches sblock sb_dlen sb_elen blk_mlen mb mm l.

(* ------------------------------------------------------------------ CID bytes *)

(* Cid::to_bytes: a CIDv0 is the bare multihash, a CIDv1 is version, codec, multihash;
   Multihash::write is code, size, digest *)
Definition multihash_bytes (code : N) (dg : list N) : list N :=
  varint_enc code ++ varint_enc (N.of_nat (length dg)) ++ dg.

Definition cid_to_bytes (c : cid) : list N :=
  if c_version c =? 0 then multihash_bytes (c_code c) (c_digest c)
  else varint_enc (c_version c) ++ varint_enc (c_codec c) ++ multihash_bytes (c_code c) (c_digest c).

(* io::Read::read_exact on a slice *)
Definition take_exact (n : nat) (l : list N) : option (list N) :=
  if Nat.leb n (length l) then Some (firstn n l) else None.

(* Cid::read_bytes (varint_read_u64 behaves as varint_dec; bytes after the CID are not looked at):
   the fixed start 0x12 0x20 is a CIDv0 with a 32-byte digest; otherwise the version must be 1
   (an explicit version 0 is InvalidExplicitCidV0) and Multihash::<64>::read follows *)
Definition cid_read_bytes (l : list N) : option cid :=
  match varint_dec l with
  | None => None
  | Some (v, r1) =>
  match varint_dec r1 with
  | None => None
  | Some (c, r2) =>
      if (v =? 18) && (c =? 32) then
        match take_exact 32 r2 with
        | Some dg => Some (mkCid 0 DAG_PB SHA2_256 dg)
        | None => None
        end
      else if v =? 1 then
        match varint_dec r2 with
        | None => None
        | Some (code, r3) =>
        match varint_dec r3 with
        | None => None
        | Some (size, r4) =>
            if size <=? 64 then
              match take_exact (N.to_nat size) r4 with
              | Some dg => Some (mkCid 1 c code dg)
              | None => None
              end
            else None
        end end
      else None
  end end.

(* ------------------------------------------------------------------ wantlists *)

Inductive want_type := WBlock | WHave.
Inductive presence_type := PHave | PDontHave.

Definition want_code (w : want_type) : N := match w with WBlock => 0 | WHave => 1 end.
Definition presence_code (p : presence_type) : N := match p with PHave => 0 | PDontHave => 1 end.

(* schema::bitswap::wantlist::Entry *)
Record wl_entry := mkWE {
  we_block : list N;          (* CID bytes *)
  we_priority : N;
  we_cancel : bool;
  we_wanttype : N;            (* int32 on the wire: anything but 0 and 1 is unknown *)
  we_senddonthave : bool
}.

(* send_request: one entry per wanted CID, priority 1, nothing else set; `full` is false *)
Definition request_entry (cw : cid * want_type) : wl_entry :=
  mkWE (cid_to_bytes (fst cw)) 1 false (want_code (snd cw)) false.
Definition request_entries (cids : list (cid * want_type)) : list wl_entry := map request_entry cids.

(* the filter_map of on_message_received over wantlist entries: priority, cancel and
   sendDontHave are not looked at *)
Definition entry_want (e : wl_entry) : option (cid * want_type) :=
  match cid_read_bytes (we_block e) with
  | None => None
  | Some c =>
      if we_wanttype e =? 0 then Some (c, WBlock)
      else if we_wanttype e =? 1 then Some (c, WHave)
      else None
  end.

Definition opt_list {X} (o : option X) : list X := match o with Some x => [x] | None => [] end.

Definition inbound_wants (es : list wl_entry) : list (cid * want_type) :=
  flat_map (fun e => opt_list (entry_want e)) es.

(* a received BlockPresence { cid, type } *)
Definition presence_of (cp : list N * N) : option (cid * presence_type) :=
  match cid_read_bytes (fst cp) with
  | None => None
  | Some c =>
      if snd cp =? 0 then Some (c, PHave)
      else if snd cp =? 1 then Some (c, PDontHave)
      else None
  end.

(* ------------------------------------------------------------------ whole messages *)

Section Messages.
  Variable D : Type.
  Variable digest : N -> D -> option (list N).

  (* a decoded schema::bitswap::Message (the legacy `blocks` field and `pendingBytes` are ignored
     by the code and not modelled) *)
  Record message := mkMsg {
    m_wantlist : option (list wl_entry);        (* `full` is ignored by the code *)
    m_payload : list (list N * D);
    m_presences : list (list N * N)
  }.

  Inductive response :=
  | RBlock (c : cid) (d : D)
  | RPresence (c : cid) (p : presence_type).

  Inductive event :=
  | ERequest (cids : list (cid * want_type))
  | EResponse (rs : list response).

  Definition msg_responses (m : message) : list response :=
    map (fun r => RBlock (fst r) (snd r)) (responses D digest (m_payload m)) ++
    flat_map (fun cp => match presence_of cp with
                        | Some (c, p) => [RPresence c p]
                        | None => []
                        end) (m_presences m).

  (* on_message_received after a successful protobuf decode: at most one Request event, then at
     most one Response event *)
  Definition msg_events (m : message) : list event :=
    match m_wantlist m with
    | Some es => match inbound_wants es with [] => [] | ws => [ERequest ws] end
    | None => []
    end ++
    match msg_responses m with [] => [] | rs => [EResponse rs] end.

  (* What arrives on one inbound substream: complete frames that decode, until something else
     happens — a frame that does not decode as protobuf (on_message_received returns Err), a
     length prefix above the limit or malformed (the substream yields Err), the peer closing
     or resetting in the middle of a frame or between frames (the substream ends).  In all of
     these cases the substream is removed and nothing more is read from it. *)
  Inductive in_item := IFrame (m : message) | IBad.

  Fixpoint inbound_events (items : list in_item) : list event :=
    match items with
    | [] => []
    | IFrame m :: t => msg_events m ++ inbound_events t
    | IBad :: _ => []
    end.

  (* blocks handed to the user by a list of events *)
  Definition event_blocks (e : event) : list (cid * D) :=
    match e with
    | ERequest _ => []
    | EResponse rs => flat_map (fun r => match r with RBlock c d => [(c, d)] | RPresence _ _ => [] end) rs
    end.

  (* ---- a session: the user asks for CIDs, messages arrive (from any peer, in any order) ---- *)
  Inductive sess_op :=
  | SRequest (cids : list (cid * want_type))      (* BitswapHandle::send_request *)
  | SIncoming (m : message).                      (* a decodable frame on some inbound substream *)

  (* litep2p keeps no record of what was asked for: the events depend on the incoming messages only *)
  Definition session_events (ops : list sess_op) : list event :=
    flat_map (fun o => match o with SRequest _ => [] | SIncoming m => msg_events m end) ops.

  Definition requested (ops : list sess_op) : list cid :=
    flat_map (fun o => match o with SRequest cids => map fst cids | SIncoming _ => [] end) ops.
End Messages.

Arguments mkMsg {D}.
Arguments m_wantlist {D}.
Arguments m_payload {D}.
Arguments m_presences {D}.
Arguments RBlock {D}.
Arguments RPresence {D}.
Arguments ERequest {D}.
Arguments EResponse {D}.
Arguments IFrame {D}.
Arguments IBad {D}.
Arguments SRequest {D}.
Arguments SIncoming {D}.

(* ------------------------------------------------------------------ a client with a want set *)

(* NOT part of litep2p: the bookkeeping a user of BitswapHandle needs in order to accept only
   what it asked for — a set of wanted CIDs, a block is accepted when its CID is wanted and the
   CID is then no longer wanted.  The theorems about it show what self-certification buys. *)
Definition cid_eqb (a b : cid) : bool :=
  (c_version a =? c_version b) && (c_codec a =? c_codec b) && (c_code a =? c_code b) &&
  (fix eqb (x y : list N) : bool :=
     match x, y with
     | [], [] => true
     | p :: x', q :: y' => (p =? q) && eqb x' y'
     | _, _ => false
     end) (c_digest a) (c_digest b).

Definition cid_mem (c : cid) (l : list cid) : bool := existsb (cid_eqb c) l.
Definition cid_remove (c : cid) (l : list cid) : list cid := filter (fun x => negb (cid_eqb c x)) l.

Section WantFilter.
  Variable D : Type.
  Variable digest : N -> D -> option (list N).

  Fixpoint accept_blocks (want : list cid) (bs : list (cid * D)) : list cid * list (cid * D) :=
    match bs with
    | [] => (want, [])
    | (c, d) :: t =>
        if cid_mem c want
        then let '(w, acc) := accept_blocks (cid_remove c want) t in (w, (c, d) :: acc)
        else accept_blocks want t
    end.

  Fixpoint client_run (want : list cid) (ops : list (sess_op D)) : list (cid * D) :=
    match ops with
    | [] => []
    | SRequest cids :: t => client_run (want ++ map fst cids) t
    | SIncoming m :: t =>
        let '(w, acc) := accept_blocks want (flat_map (event_blocks D) (msg_events D digest m)) in
        acc ++ client_run w t
    end.
End WantFilter.

(* ------------------------------------------------------------------ sending presences and requests *)

(* one entry of `repeated BlockPresence blockPresences = 4`: the CID bytes field and the
   `type` field (int32, omitted when 0 = Have, otherwise tag + one byte) *)
Definition presence_elen (cidlen ptype : N) : N :=
  let b := field_len cidlen + (if ptype =? 0 then 0 else 2) in 1 + vlen b + b.

Record spres := mkSP { sp_id : N; sp_cid : cid; sp_type : presence_type }.

Definition sp_elen (p : spres) : N :=
  presence_elen (N.of_nat (length (cid_to_bytes (sp_cid p)))) (presence_code (sp_type p)).

(* the presences of send_response(entries) as they go out, message by message: the batching of
   extract_next_presence_batch is the block batching without a data limit *)
Definition send_response_presences (mm : N) (l : list spres) : list (list spres) :=
  sent_batches spres (fun _ => 0) sp_elen blk_mlen 0 mm l.

(* one entry of `repeated Entry entries = 1` of the wantlist built by send_request:
   block bytes, priority = 1 (tag + byte), wantType (omitted when 0 = Block) *)
Definition want_elen (cidlen wtype : N) : N :=
  let b := field_len cidlen + 2 + (if wtype =? 0 then 0 else 2) in 1 + vlen b + b.

Definition sw_elen (cw : cid * want_type) : N :=
  want_elen (N.of_nat (length (cid_to_bytes (fst cw)))) (want_code (snd cw)).

(* encoded length of the message send_request builds: only the wantlist field, all wants in it *)
Definition request_len (cids : list (cid * want_type)) : N :=
  message_len (cid * want_type) sw_elen req_mlen cids.

(* ------------------------------------------------------------------ the event loop: actions and substreams *)

(* What the user asks the loop to send to a peer: BitswapCommand::SendRequest / SendResponse.
   A response is given as its presences and its blocks (send_response separates them, keeping
   the order within each kind). *)
Inductive action :=
| ARequest (cids : list (cid * want_type))
| AResponse (ps : list spres) (bs : list sblock).

(* one message written to a substream *)
Inductive omsg :=
| ORequest (cids : list (cid * want_type))
| OPresences (l : list spres)
| OBlocks (l : list sblock).

Definition omsg_len (m : omsg) : N :=
  match m with
  | ORequest cids => request_len cids
  | OPresences l => message_len spres sp_elen blk_mlen l
  | OBlocks l => message_len sblock sb_elen blk_mlen l
  end.

(* a frame of the unsigned-varint codec: length prefix + message *)
Definition frame_len (m : omsg) : N := vlen (omsg_len m) + omsg_len m.

(* send_request writes one message with all wants (whatever its size), send_response the presence
   messages then the block messages *)
Definition action_msgs (mb mm : N) (a : action) : list omsg :=
  match a with
  | ARequest cids => [ORequest cids]
  | AResponse ps bs =>
      map OPresences (send_response_presences mm ps) ++ map OBlocks (send_response_blocks mb mm bs)
  end.

(* A substream towards a peer as the sender sees it: it takes `budget` more bytes (None = any
   number) and then either stalls — the write never completes and WRITE_TIMEOUT fires — or
   fails.  Either way send_request / send_response return an error. *)
Definition carrier := option N.

(* Writing messages one after the other (each: write_all(length), write_all(body), flush) into a
   carrier: the messages written completely, the bytes written of the first message that did
   not fit, the carrier afterwards, and whether everything was written.  A message above the
   codec's limit `mm` is refused by send_framed before anything is written. *)
Fixpoint write_msgs (mm : N) (c : carrier) (ms : list omsg) : list omsg * N * carrier * bool :=
  match ms with
  | [] => ([], 0, c, true)
  | m :: t =>
      if mm <? omsg_len m then ([], 0, c, false)
      else
        match c with
        | None => let '(done, part, c', ok) := write_msgs mm None t in (m :: done, part, c', ok)
        | Some b =>
            if frame_len m <=? b
            then let '(done, part, c', ok) := write_msgs mm (Some (b - frame_len m)) t in
                 (m :: done, part, c', ok)
            else ([], b, Some 0, false)
        end
  end.

(* per-peer state of the loop *)
Record pstate := mkPS {
  ps_inb : bool;                 (* `inbound` holds a substream of this peer *)
  ps_out : option carrier;       (* `outbound` holds a substream to this peer *)
  ps_pend : list action;         (* `pending_outbound` *)
  ps_opening : bool;             (* an outbound substream was requested (`pending_substreams`) *)
  ps_conn : N;                   (* the TransportService's connection to the peer: 0 none,
                                    1 usable, 2 present but dead (open_substream fails) *)
  ps_dial : bool;                (* `pending_dials` *)
  ps_mgr : N                     (* what TransportManagerHandle::dial answers for the peer:
                                    0 NoAddressAvailable, 1 Ok (a dial is queued), 2 AlreadyConnected,
                                    3 Ok (a dial is in progress) *)
}.

Definition ps_init : pstate := mkPS false None [] false 1 false 0.

Definition set_inb (s : pstate) (x : bool) : pstate :=
  mkPS x (ps_out s) (ps_pend s) (ps_opening s) (ps_conn s) (ps_dial s) (ps_mgr s).
Definition set_out (s : pstate) (x : option carrier) : pstate :=
  mkPS (ps_inb s) x (ps_pend s) (ps_opening s) (ps_conn s) (ps_dial s) (ps_mgr s).
Definition set_pend (s : pstate) (x : list action) : pstate :=
  mkPS (ps_inb s) (ps_out s) x (ps_opening s) (ps_conn s) (ps_dial s) (ps_mgr s).
Definition set_opening (s : pstate) (x : bool) : pstate :=
  mkPS (ps_inb s) (ps_out s) (ps_pend s) x (ps_conn s) (ps_dial s) (ps_mgr s).
Definition set_conn (s : pstate) (x : N) : pstate :=
  mkPS (ps_inb s) (ps_out s) (ps_pend s) (ps_opening s) x (ps_dial s) (ps_mgr s).
Definition set_dial (s : pstate) (x : bool) : pstate :=
  mkPS (ps_inb s) (ps_out s) (ps_pend s) (ps_opening s) (ps_conn s) x (ps_mgr s).
Definition set_mgr (s : pstate) (x : N) : pstate :=
  mkPS (ps_inb s) (ps_out s) (ps_pend s) (ps_opening s) (ps_conn s) (ps_dial s) x.

(* what one step wrote: complete messages and the bytes of a partial one *)
Definition written := (list omsg * N)%type.

(* writing a list of actions to a fresh substream (on_outbound_substream): stop at the first
   action that fails; the substream is kept only when all succeeded *)
Fixpoint write_actions (mb mm : N) (c : carrier) (acts : list action) : list omsg * N * carrier * bool :=
  match acts with
  | [] => ([], 0, c, true)
  | a :: t =>
      let '(done, part, c', ok) := write_msgs mm c (action_msgs mb mm a) in
      if ok
      then let '(done2, part2, c2, ok2) := write_actions mb mm c' t in (done ++ done2, part2, c2, ok2)
      else (done, part, c', false)
  end.

(* open_substream_or_dial: open a substream when the service can; otherwise dial — a dial that is
   accepted parks the queue until ConnectionEstablished / DialFailure; AlreadyConnected leads to a
   second open_substream that fails like the first; any failure drops the whole queue *)
Definition open_or_dial (s : pstate) : pstate :=
  if ps_conn s =? 1 then set_opening s true
  else if (ps_mgr s =? 1) || (ps_mgr s =? 3) then set_dial s true
  else set_pend s [].

(* the tail of on_bitswap_request / on_bitswap_response: queue the action, and ask for a substream
   if nothing was queued *)
Definition queue_action (s : pstate) (a : action) : pstate :=
  let s1 := set_pend s (ps_pend s ++ [a]) in
  match ps_pend s with [] => open_or_dial s1 | _ => s1 end.

(* on_bitswap_request / on_bitswap_response *)
Definition send_action (mb mm : N) (s : pstate) (a : action) : pstate * written :=
  match ps_out s with
  | Some c =>
      let '(done, part, c', ok) := write_msgs mm c (action_msgs mb mm a) in
      if ok then (set_out s (Some c'), (done, part))
      else (queue_action (set_out s None) a, (done, part))
  | None => (queue_action s a, ([], 0))
  end.

(* TransportEvent::SubstreamOpened (outbound) for the requested substream *)
Definition outbound_opened (mb mm : N) (s : pstate) (c : carrier) : pstate * written :=
  if ps_opening s then
    let '(done, part, c', ok) := write_actions mb mm c (ps_pend s) in
    (set_opening (set_pend (if ok then set_out s (Some c') else s) []) false, (done, part))
  else (s, ([], 0)).

(* TransportEvent::SubstreamOpenFailure for the requested substream *)
Definition outbound_failed (s : pstate) : pstate :=
  if ps_opening s then set_opening (set_pend s []) false else s.

(* TransportEvent::ConnectionEstablished (the service had no connection to the peer) *)
Definition conn_established (s : pstate) : pstate :=
  if ps_conn s =? 0 then
    let s1 := set_conn s 1 in
    if ps_dial s then set_opening (set_dial s1 false) true else s1
  else s.

(* TransportEvent::ConnectionClosed: everything tied to the peer is forgotten *)
Definition conn_closed (s : pstate) : pstate :=
  if ps_conn s =? 0 then s else mkPS false None [] false 0 false (ps_mgr s).

(* the connection's command channel is gone: open_substream fails from now on *)
Definition conn_killed (s : pstate) : pstate :=
  if ps_conn s =? 1 then set_conn s 2 else s.

(* TransportEvent::DialFailure *)
Definition dial_failed (s : pstate) : pstate :=
  if ps_dial s then set_pend (set_dial s false) [] else s.

(* ------------------------------------------------------------------ the event loop: one peer, then the node *)

Section Node.
  Variable D : Type.
  Variable digest : N -> D -> option (list N).
  Variable mb : N.
  Variable mm : N.

  (* everything that can happen to the loop with respect to one peer: the TransportEvents of the
     service, the commands of the user, what arrives on the inbound substream, and two changes
     of the environment that the loop only notices later (the write side of the outbound
     substream, the answer the transport manager will give to dial) *)
  Inductive pev :=
  | PInOpen                      (* SubstreamOpened, inbound: replaces the previous one *)
  | PInFrame (m : message D)     (* a complete frame that decodes, on the inbound substream *)
  | PInBad                       (* the inbound substream ends (see in_item) *)
  | PSend (a : action)           (* BitswapCommand::SendRequest / SendResponse *)
  | POutOpen (c : carrier)       (* SubstreamOpened, outbound *)
  | POutFail                     (* SubstreamOpenFailure *)
  | POutSet (c : carrier)        (* the established outbound substream changes its write side *)
  | PConnClose                   (* ConnectionClosed *)
  | PConnect                     (* ConnectionEstablished *)
  | PKill                        (* the connection's command channel dies *)
  | PDialFail                    (* DialFailure *)
  | PForce (tag : N).            (* the manager's answer to dial from now on *)

  (* what the user is told and what is written: BitswapEvents come from inbound frames only;
     no failure of any kind is reported to the user *)
  Definition pout := (list (event D) * written)%type.
  Definition quiet : pout := ([], ([], 0)).

  Definition peer_step (s : pstate) (e : pev) : pstate * pout :=
    match e with
    | PInOpen => (if ps_conn s =? 0 then s else set_inb s true, quiet)
    | PInFrame m => (s, (if ps_inb s then msg_events D digest m else [], ([], 0)))
    | PInBad => (set_inb s false, quiet)
    | PSend a => let '(s', w) := send_action mb mm s a in (s', ([], w))
    | POutOpen c => let '(s', w) := outbound_opened mb mm s c in (s', ([], w))
    | POutFail => (outbound_failed s, quiet)
    | POutSet c => (set_out s (match ps_out s with Some _ => Some c | None => None end), quiet)
    | PConnClose => (conn_closed s, quiet)
    | PConnect => (conn_established s, quiet)
    | PKill => (conn_killed s, quiet)
    | PDialFail => (dial_failed s, quiet)
    | PForce tag => (set_mgr s tag, quiet)
    end.

  (* a history of one peer: final state, the events the user saw, the complete messages written *)
  Fixpoint run_peer (s : pstate) (es : list pev) : pstate * list (event D) * list omsg :=
    match es with
    | [] => (s, [], [])
    | e :: t =>
        let '(s1, (evs, (done, _))) := peer_step s e in
        let '(s2, evs2, done2) := run_peer s1 t in
        (s2, evs ++ evs2, done ++ done2)
    end.

  (* the node: one pstate per peer; an operation concerns exactly one peer *)
  Definition get_ps (st : list pstate) (p : N) : pstate := nth (N.to_nat p) st ps_init.

  Fixpoint set_ps (st : list pstate) (p : nat) (s : pstate) : list pstate :=
    match st, p with
    | [], _ => []
    | _ :: t, O => s :: t
    | h :: t, S q => h :: set_ps t q s
    end.

  Definition node_step (st : list pstate) (pe : N * pev) : list pstate * pout :=
    let '(s', o) := peer_step (get_ps st (fst pe)) (snd pe) in
    (set_ps st (N.to_nat (fst pe)) s', o).

  (* a history of the node: the events with the peer they are attributed to, and the messages
     with the peer whose substream they were written to *)
  Fixpoint run_node_ops (st : list pstate) (ops : list (N * pev))
    : list pstate * list (N * event D) * list (N * omsg) :=
    match ops with
    | [] => (st, [], [])
    | pe :: t =>
        let '(st1, (evs, (done, _))) := node_step st pe in
        let '(st2, evs2, done2) := run_node_ops st1 t in
        (st2, map (pair (fst pe)) evs ++ evs2, map (pair (fst pe)) done ++ done2)
    end.
End Node.

Arguments PInOpen {D}.
Arguments PInFrame {D}.
Arguments PInBad {D}.
Arguments PSend {D}.
Arguments POutOpen {D}.
Arguments POutFail {D}.
Arguments POutSet {D}.
Arguments PConnClose {D}.
Arguments PConnect {D}.
Arguments PKill {D}.
Arguments PDialFail {D}.
Arguments PForce {D}.
