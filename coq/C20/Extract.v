From Coq Require Import ExtrOcamlBasic.
From V.C20 Require Import Glue.
Extraction Language OCaml.
Extraction "c20_model.ml" run_case prop_ok known_class.
